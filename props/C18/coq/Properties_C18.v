(* Property C18 -- theorems only.  Each is closed by `exact <lemma>` and followed by Print Assumptions.
   Gen_Vertices.v / Gen_Ceil.v (GetVertices, Ceil) are regenerated from /repo's headers on every run; Model.v is the
   executable model of DataColumnList (pvAdd, pvFillAddends, pvAddEdges, Graph::AddEdges/FillAddends, pvAddColumns,
   pvGetOffset, Contains) that calls them; its extraction is run against the real class on every run.
   L = logVertexCount, keep = Settings::keepRowNumber, a "group" = the columns of one Add(column, columns...) call.
   group_ok: codes are 64-bit, 0 < size <= 2^32, alignment in {1,2,4,8,16} dividing the size
   (ObjectAlignmenter::Check), fewer than 2^32 columns in one call. *)
From Coq Require Import ZArith List.
From MomoCommon Require Import GenPrelude.
From C18 Require Gen_Vertices Gen_Ceil Model Layout Fill Vertices Inv Main RawLife.
Import ListNotations.
Local Open Scope Z_scope.

(* (1) pvAddEdges: for EVERY list of columns added in one Add, starting at any current total size and alignment:
   the new slots form a chain (in order, each offset a multiple of its alignment, each starting at or after the end
   of the previous one and at or after the old total size), the chain ends at the new total size, total size and
   alignment only grow, every column's alignment divides the list alignment, no 64-bit wrap-around happens, and
   the edges put into the graph are exactly those of the new records. *)
Theorem C18_layout_ok :
  forall L cp g cs off al g' off' al' rs,
    Forall Layout.col_ok cs -> 0 <= off -> off + Z.of_nat (length cs) * (Layout.maxItemSize + 16) <= 2 ^ 63 ->
    Layout.pow2_le16 al ->
    Model.new_edges L cp g off al cs = (g', off', al', rs) ->
    Layout.chain off rs off' /\ off' <= off + Z.of_nat (length cs) * (Layout.maxItemSize + 16) /\
    al <= al' /\ Layout.pow2_le16 al' /\ Forall Layout.rec_ok rs /\
    Forall (fun r => (Model.r_align r | al')) rs /\
    map Model.r_code rs = map Model.c_code cs /\ map Model.r_size rs = map Model.c_size cs /\
    map Model.r_align rs = map Model.c_align cs /\ g' = Model.old_edges L cp g rs.
Proof. exact Layout.new_edges_ok. Qed.
Print Assumptions C18_layout_ok.

(* every reachable column list (any history of accepted and refused Adds from the empty list): each column's slot
   starts after the row-number slot, ends inside the total size, is aligned, its alignment divides the list
   alignment; two different columns never overlap and never have the same code. *)
Theorem C18_reachable_layout_ok :
  forall L keep, 4 <= L <= 15 -> forall ops, Forall Inv.group_ok ops ->
    let st := Model.run L keep ops in
    (forall r, In r (Model.columns st) ->
       Model.rowNumberSize keep <= Model.r_off r /\ Model.r_off r + Model.r_size r <= Model.totalSize st /\
       0 < Model.r_size r /\ Model.r_off r mod Model.r_align r = 0 /\ (Model.r_align r | Model.alignment st) /\
       Model.totalSize st < 2 ^ 47) /\
    (forall i j ri rj, (i < j)%nat ->
       nth_error (Model.columns st) i = Some ri -> nth_error (Model.columns st) j = Some rj ->
       Model.r_off ri + Model.r_size ri <= Model.r_off rj /\ Model.r_code ri <> Model.r_code rj).
Proof. exact Main.reachable_layout. Qed.
Print Assumptions C18_reachable_layout_ok.

(* (2) the generated GetVertices: both vertices index into the vertex arrays and differ (AddEdges' extra check) *)
Theorem C18_getvertices_in_range_distinct :
  forall L code cp, 4 <= L <= 15 -> 0 <= cp <= 255 ->
    0 <= fst (Gen_Vertices.GetVertices L code cp) < 2 ^ L /\ 0 <= snd (Gen_Vertices.GetVertices L code cp) < 2 ^ L /\
    fst (Gen_Vertices.GetVertices L code cp) <> snd (Gen_Vertices.GetVertices L code cp).
Proof. exact Vertices.GetVertices_range. Qed.
Print Assumptions C18_getvertices_in_range_distinct.

(* Graph::FillAddends (recursive DFS) + the vertex loop of pvFillAddends on ANY graph whose edge targets lie in
   `dom` and whose edge values are <= B with (fuel+1)*B < 2^63, started from any table in which every non-zero vertex
   is finished: the fuel (= number of vertices + 1) never runs out, and if the result is `true` then for every vertex
   of the loop every edge (v -> v2, value) has addends[v] <> 0, addends[v2] <> 0, addends[v]+addends[v2] = value mod 2^64 *)
Theorem C18_fill_addends_correct :
  forall (g : Model.graph) (dom : list Z) (B F : Z),
    (forall v v2 val, In (v2, val) (g v) -> In v2 dom /\ 0 <= val <= B) -> 0 <= B -> (F + 1) * B < 2 ^ 63 ->
    forall f0 : nat, Z.of_nat f0 = F -> (length dom < f0)%nat ->
    forall vs a, Fill.near B F a -> (forall w, a w <> 0 -> Fill.edges_ok g a w) ->
    exists b a', Model.fill_all f0 g vs a = Some (b, a') /\ Fill.extends a a' /\ Fill.near B F a' /\
      (b = true -> (forall w, a' w <> 0 -> Fill.edges_ok g a' w) /\ (forall v, In v vs -> Fill.edges_ok g a' v)).
Proof. exact Fill.fill_all_spec. Qed.
Print Assumptions C18_fill_addends_correct.

(* addends_lookup: for every code parameter and every list of column records (offsets <= 2^47): building the graph
   with GetVertices and running pvFillAddends never runs out of fuel, and if it succeeds then pvGetOffset finds
   EVERY record at its offset (and its MOMO_ASSERT holds) *)
Theorem C18_addends_lookup :
  forall L, 4 <= L <= 15 -> forall cp rs, 0 <= cp <= 255 -> (forall r, In r rs -> 0 <= Model.r_off r <= Inv.Bsz) ->
    exists b a, Model.fill_all (Model.dfs_fuel L) (Model.old_edges L cp Model.g_empty rs) (Model.vertices L) (fun _ => 0) = Some (b, a) /\
      (b = true -> forall r, In r rs -> Model.lookup L cp a (Model.r_code r) = Some (Model.r_off r)).
Proof. exact Inv.graph_lookup. Qed.
Print Assumptions C18_addends_lookup.

(* one Add on a list satisfying the invariant: never OutOfFuel / AssertFails; accepted -> invariant again, the old
   records are kept and the new ones follow in order inside [old total size, new total size), total size /
   alignment / codeParam only grow; "Too many columns" exactly when the count would exceed maxColumnCount; "Cannot
   add columns" only when pvFillAddends failed for EVERY code parameter from mCodeParam to 255 *)
Theorem C18_add_spec :
  forall L keep, 4 <= L <= 15 -> forall st cs, Inv.Inv L keep st -> Inv.group_ok cs ->
    match Model.add L st cs with
    | Model.Added st' =>
        Inv.Inv L keep st' /\
        (exists rs, Model.columns st' = Model.columns st ++ rs /\ map Model.r_code rs = map Model.c_code cs /\
                    map Model.r_size rs = map Model.c_size cs /\ map Model.r_align rs = map Model.c_align cs /\
                    Layout.chain (Model.totalSize st) rs (Model.totalSize st')) /\
        Model.totalSize st <= Model.totalSize st' /\ Model.alignment st <= Model.alignment st' /\
        Model.codeParam st <= Model.codeParam st'
    | Model.TooMany => Model.maxColumnCount L < Z.of_nat (length cs) + Z.of_nat (length (Model.columns st))
    | Model.Refused => forall cp, Model.codeParam st <= cp <= 255 ->
                   exists a1 o1 l1 r1, Model.try_param L st cp cs = Some (false, a1, o1, l1, r1)
    | Model.OutOfFuel => False
    | Model.AssertFails => False
    end.
Proof. exact Inv.add_spec. Qed.
Print Assumptions C18_add_spec.

Theorem C18_reachable_invariant :
  forall L keep, 4 <= L <= 15 -> forall ops, Forall Inv.group_ok ops -> Inv.Inv L keep (Model.run L keep ops).
Proof. exact Inv.run_inv. Qed.
Print Assumptions C18_reachable_invariant.

(* looking up an added column in any reachable list yields its recorded offset *)
Theorem C18_lookup_yields_offset :
  forall L keep, 4 <= L <= 15 -> forall ops, Forall Inv.group_ok ops ->
    forall r, In r (Model.columns (Model.run L keep ops)) ->
      Model.get_offset L (Model.run L keep ops) (Model.r_code r) = Some (Model.r_off r).
Proof. exact Main.reachable_lookup. Qed.
Print Assumptions C18_lookup_yields_offset.

(* offsets_stable_under_add: one more Add (accepted or refused) keeps every record, and the old columns are found
   at the same offsets through the new addends table / code parameter *)
Theorem C18_offsets_stable_under_add :
  forall L keep, 4 <= L <= 15 -> forall ops cs, Forall Inv.group_ok ops -> Inv.group_ok cs ->
    exists rs, Model.columns (Model.run L keep (ops ++ [cs])) = Model.columns (Model.run L keep ops) ++ rs /\
      forall r, In r (Model.columns (Model.run L keep ops)) ->
        Model.get_offset L (Model.run L keep (ops ++ [cs])) (Model.r_code r) = Some (Model.r_off r).
Proof. exact Main.offsets_stable_under_add. Qed.
Print Assumptions C18_offsets_stable_under_add.

(* (3) Contains(columnInfo, &offset) is true exactly for the columns of the accepted Adds ... *)
Theorem C18_contains_iff_added :
  forall L keep, 4 <= L <= 15 -> forall ops code, Forall Inv.group_ok ops ->
    ((exists off, Model.contains L (Model.run L keep ops) code = Some off) <->
     In code (map Model.c_code (Main.accepted L (Model.init keep) ops))).
Proof. exact Main.contains_iff_added. Qed.
Print Assumptions C18_contains_iff_added.

(* ... and the offset it reports is the column's offset *)
Theorem C18_contains_offset :
  forall L keep, 4 <= L <= 15 -> forall ops code off, Forall Inv.group_ok ops ->
    (Model.contains L (Model.run L keep ops) code = Some off <->
     exists r, In r (Model.columns (Model.run L keep ops)) /\ Model.r_code r = code /\ Model.r_off r = off).
Proof. exact Main.reachable_contains. Qed.
Print Assumptions C18_contains_offset.

(* refused_add_unchanged: whatever is not `Added` leaves the object exactly as it was (both throws of pvAdd happen
   before the first member is written; see NOTES.md for the allocation failures that are not modelled) *)
Theorem C18_refused_add_unchanged :
  forall L st cs, (forall st', Model.add L st cs <> Model.Added st') -> Model.after st (Model.add L st cs) = st.
Proof. exact Inv.refused_unchanged. Qed.
Print Assumptions C18_refused_add_unchanged.

(* L2, rows: pvCreateRaw / pvCreate<Item, Items...> (CreateRaw and ImportRaw) for any grouping of the columns into
   FuncRecords and any construction that throws (k = which one): either it completes having constructed every
   column's item exactly once, in order, destroying nothing; or it throws and every item it constructed has been
   destroyed again exactly as often as it was constructed (at most once per occurrence of the column) *)
Theorem C18_raw_create_once :
  forall groups k t ok, RawLife.create_raw k [] groups = (t, ok) ->
    if ok then t = map RawLife.Ctor (concat groups)
    else forall c, RawLife.count (RawLife.Ctor c) t = RawLife.count (RawLife.Dtor c) t /\
                   (RawLife.count (RawLife.Ctor c) t <= count_occ Nat.eq_dec (concat groups) c)%nat.
Proof. exact RawLife.raw_create_once. Qed.
Print Assumptions C18_raw_create_once.

(* a row that is created (nothing throws) and later destroyed with DestroyRaw: each column's item is constructed
   exactly once and destroyed exactly once *)
Theorem C18_raw_create_destroy_once :
  forall groups c, NoDup (concat groups) -> In c (concat groups) ->
    let t := fst (RawLife.create_raw None [] groups) ++ RawLife.destroy_raw groups in
    RawLife.count (RawLife.Ctor c) t = 1%nat /\ RawLife.count (RawLife.Dtor c) t = 1%nat.
Proof. exact RawLife.raw_create_destroy_once. Qed.
Print Assumptions C18_raw_create_destroy_once.

(* non-vacuity: a history whose third Add needs the second code parameter, a refused duplicate, "Too many columns" *)
Theorem C18_example_retry :
  let st := Model.run 4 true [[Main.u32 160]; [Main.u32 242]; [Main.u32 10]] in
  (Model.codeParam st, Model.totalSize st, Model.alignment st, map Model.r_off (Model.columns st)) = (1, 20, 4, [8; 12; 16]).
Proof. exact Main.retry_history. Qed.
Print Assumptions C18_example_retry.

Theorem C18_example_refused :
  match Model.add 4 (Model.run 4 true [[Main.u32 160]; [Main.u32 242]]) [Main.u32 160] with Model.Refused => True | _ => False end.
Proof. exact Main.refused_history. Qed.
Print Assumptions C18_example_refused.

Theorem C18_example_hypotheses_hold : Forall Inv.group_ok [[Main.u32 160]; [Main.u32 242]; [Main.u32 10]].
Proof. exact Main.group_ok_example. Qed.
Print Assumptions C18_example_hypotheses_hold.
