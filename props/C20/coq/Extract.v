(* Extraction of the executable pool-allocator model (and the generated CorrectBlockSize it calls). ExtrOcamlBasic only. *)
From Coq Require Import ZArith List Extraction ExtrOcamlBasic.
From MomoCommon Require Import GenPrelude.
From C20 Require Gen_UIntMath Gen_MemPoolConst Gen_MemPool Gen_PoolAllocator Gen_MemPoolOps Gen_MemPoolNewBlock PoolAlloc DiffRun.
Separate Extraction PoolAlloc.step PoolAlloc.init PoolAlloc.proto_ok PoolAlloc.h_ok PoolAlloc.routed_ok
  PoolAlloc.outstanding PoolAlloc.get_params PoolAlloc.swap_ops PoolAlloc.from_cache PoolAlloc.cfg_default DiffRun.gen_alloc DiffRun.gen_dealloc DiffRun.gen_newblock PoolAlloc.alloc_eq PoolAlloc.alloc_decision PoolAlloc.dealloc_decision.
