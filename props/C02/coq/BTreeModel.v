(* C02 -- executable L1 model of momo::TreeSet (TreeSet.h) / internal::Node (details/TreeNode.h).

   A node is its capacity, its items (keys, in node order) and its children (none for a leaf).  Parent
   pointers are abstracted: an iterator (Node*, itemIndex) is a path of child indexes from the root plus the
   item index.  Every function below mirrors one function of the source (named in the comment); loops that
   walk down the tree take the height of the (sub)tree as fuel.  The split index and the leaf capacity
   arithmetic are NOT written here: they are the cxx2coq translations (Gen_TreeNode / Gen_Node) of
   TreeNode::GetSplitItemIndex, Node::GetCapacity and Node::pvGetLeafMemPoolIndex. *)
From Coq Require Import List ZArith Arith Lia Bool.
From MomoCommon Require Import GenPrelude.
From C02 Require Gen_TreeNode Gen_Node.
Import ListNotations.

Inductive node := Node (cap : nat) (items : list Z) (children : list node).

Definition n_cap (n : node) := let 'Node c _ _ := n in c.
Definition n_items (n : node) := let 'Node _ ks _ := n in ks.
Definition n_children (n : node) := let 'Node _ _ cs := n in cs.
Definition n_count (n : node) := length (n_items n).
Definition is_leaf (n : node) := match n_children n with [] => true | _ => false end.

(* ---------- list helpers ---------- *)
Definition insert_at {A} (i : nat) (x : A) (l : list A) := firstn i l ++ x :: skipn i l.
Definition remove_at {A} (i : nat) (l : list A) := firstn i l ++ skipn (S i) l.
Definition replace_at {A} (i : nat) (x : A) (l : list A) := firstn i l ++ x :: skipn (S i) l.
Definition seg {A} (l : list A) (b n : nat) := firstn n (skipn b l).   (* Relocator::AddSegment(src, b, ..., n) *)

(* ---------- in-order contents ---------- *)
Fixpoint interleave (cs : list (list Z)) (ks : list Z) : list Z :=
  match cs with
  | [] => ks
  | c :: cs' => match ks with [] => c | k :: ks' => c ++ k :: interleave cs' ks' end
  end.

Fixpoint flatten (n : node) : list Z :=
  match n with Node _ ks cs => interleave (map flatten cs) ks end.

Fixpoint height (n : node) : nat :=
  match n with Node _ _ [] => 0 | Node _ _ (c :: _) => S (height c) end.

(* number of internal nodes = GetInternalMemPool().GetAllocateCount() of the tree's NodeParams *)
Fixpoint nint (n : node) : nat :=
  match n with Node _ _ [] => 0 | Node _ _ cs => S (list_sum (map nint cs)) end.

(* ---------- iterators: (path from the root, item index) ---------- *)
Definition iter := (list nat * nat)%type.

Fixpoint node_at (p : list nat) (n : node) : option node :=
  match p with
  | [] => Some n
  | c :: p' => match nth_error (n_children n) c with Some ch => node_at p' ch | None => None end
  end.

Fixpoint list_eqb (a b : list nat) : bool :=
  match a, b with
  | [], [] => true
  | x :: a', y :: b' => (x =? y) && list_eqb a' b'
  | _, _ => false
  end.
Definition iter_eqb (a b : iter) := list_eqb (fst a) (fst b) && (snd a =? snd b).

Definition here (n : node) (i : nat) : option iter := if i <? n_count n then Some ([], i) else None.
Definition here_prev (i : nat) : option iter := match i with 0 => None | S i' => Some ([], i') end.
Definition lift (c : nat) (o : option iter) : option iter :=
  match o with Some (p, j) => Some (c :: p, j) | None => None end.
Definition orelse {A} (a b : option A) : option A := match a with Some _ => a | None => b end.

(* in-order items before / after a position *)
Fixpoint zipcat (cs : list (list Z)) (ks : list Z) : list Z :=   (* c0 ++ k0 :: c1 ++ k1 :: ... *)
  match cs, ks with
  | c :: cs', k :: ks' => c ++ k :: zipcat cs' ks'
  | _, _ => []
  end.
Definition tailpart (cs : list (list Z)) (ks : list Z) : list Z :=   (* k0 :: c0 ++ k1 :: c1 ... *)
  match ks with [] => [] | k :: ks' => k :: interleave cs ks' end.

Definition pre (n : node) (c : nat) : list Z :=      (* everything before child c *)
  zipcat (firstn c (map flatten (n_children n))) (firstn c (n_items n)).
Definition post (n : node) (c : nat) : list Z :=     (* everything after child c *)
  tailpart (skipn (S c) (map flatten (n_children n))) (skipn c (n_items n)).

Fixpoint before (p : list nat) (n : node) (j : nat) : list Z :=
  match p with
  | [] => if is_leaf n then firstn j (n_items n)
          else pre n j ++ nth j (map flatten (n_children n)) []
  | c :: p' => pre n c ++ match nth_error (n_children n) c with Some ch => before p' ch j | None => [] end
  end.
Fixpoint after (p : list nat) (n : node) (j : nat) : list Z :=
  match p with
  | [] => if is_leaf n then skipn j (n_items n) else post n j
  | c :: p' => match nth_error (n_children n) c with Some ch => after p' ch j | None => [] end ++ post n c
  end.

Fixpoint item_at (p : list nat) (n : node) (j : nat) : option Z :=
  match p with
  | [] => nth_error (n_items n) j
  | c :: p' => match nth_error (n_children n) c with Some ch => item_at p' ch j | None => None end
  end.

(* ---------- search inside one node: TreeSet::pvFindFirst(Node*, itemPred) ---------- *)
Fixpoint first_true (P : Z -> bool) (l : list Z) : nat :=
  match l with [] => 0 | x :: r => if P x then 0 else S (first_true P r) end.

Definition search_lin (P : Z -> bool) (ks : list Z) : nat :=
  let c := length ks in
  if (c =? 0) || negb (P (nth (c - 1) ks 0%Z)) then c else first_true P ks.

Fixpoint bsearch (fuel : nat) (P : Z -> bool) (ks : list Z) (l r : nat) : nat :=
  match fuel with
  | 0 => l
  | S f => if l <? r then
             let m := (l + r) / 2 in
             if P (nth m ks 0%Z) then bsearch f P ks l m else bsearch f P ks (S m) r
           else l
  end.

Section Model.
Variables (maxCap stepRaw blockCount : nat) (linear multi : bool).

(* Node: capacityStep = tCapacityStep > 0 ? tCapacityStep : tMaxCapacity; leafMemPoolCount = maxCapacity / (2 * capacityStep) + 1 *)
Definition capStep : nat := if stepRaw =? 0 then maxCap else stepRaw.
Definition leafPoolCount : nat := maxCap / (2 * capStep) + 1.

(* capacity of a leaf created by Node::Create(params, true, count) when `ic` internal nodes are allocated *)
Definition leaf_cap (ic count : nat) : nat :=
  Z.to_nat (Gen_Node.GetCapacity (Z.of_nat leafPoolCount) (Z.of_nat maxCap) (Z.of_nat capStep)
    (Gen_Node.pvGetLeafMemPoolIndex (Z.of_nat leafPoolCount) (Z.of_nat maxCap) (Z.of_nat capStep)
       (Z.of_nat blockCount) (Z.of_nat ic) (Z.of_nat count))).

Definition split_index (count j : nat) : nat :=
  Z.to_nat (Gen_TreeNode.GetSplitItemIndex (Z.of_nat count) (Z.of_nat j)).

Definition search (P : Z -> bool) (ks : list Z) : nat :=
  if linear then search_lin P ks else bsearch (S (length ks)) P ks 0 (length ks).

(* ---------- TreeSet::pvFindFirst(itemPred): the descent ---------- *)
Fixpoint ff (d : nat) (P : Z -> bool) (n : node) : option iter :=
  let i := search P (n_items n) in
  match d with
  | 0 => here n i
  | S d' => match nth_error (n_children n) i with
            | Some ch => orelse (lift i (ff d' P ch)) (here n i)
            | None => here n i
            end
  end.

Record tree := { root : option node; cnt : nat }.
Definition empty_tree := {| root := None; cnt := 0 |}.

Definition end_of (r : node) : iter := ([], n_count r).
Definition end_iter (t : tree) : iter := match root t with None => ([], 0) | Some r => end_of r end.

Definition find_first (t : tree) (P : Z -> bool) : iter :=
  match root t with
  | None => ([], 0)
  | Some r => match ff (height r) P r with Some it => it | None => end_of r end
  end.

Definition lower_bound (t : tree) (k : Z) : iter := find_first t (fun x => negb (x <? k)%Z).
Definition upper_bound (t : tree) (k : Z) : iter := find_first t (fun x => (k <? x)%Z).

Definition deref (t : tree) (it : iter) : option Z :=
  match root t with None => None | Some r => item_at (fst it) r (snd it) end.

(* pvIsGreater(iter, key) *)
Definition is_greater (t : tree) (it : iter) (k : Z) : bool :=
  iter_eqb it (end_iter t) || match deref t it with Some x => (k <? x)%Z | None => true end.

Definition find (t : tree) (k : Z) : iter :=
  let it := lower_bound t k in if negb (is_greater t it k) then it else end_iter t.
Definition contains (t : tree) (k : Z) : bool := negb (is_greater t (lower_bound t k) k).

(* ---------- iterator stepping ---------- *)
(* leftmost leaf, index 0, then pvMoveIf (climb while the leaf/ancestors are empty) *)
Fixpoint first_in (d : nat) (n : node) : option iter :=
  match d with
  | 0 => here n 0
  | S d' => match n_children n with
            | ch :: _ => orelse (lift 0 (first_in d' ch)) (here n 0)
            | [] => here n 0
            end
  end.

Definition begin_iter (t : tree) : iter :=
  match root t with
  | None => ([], 0)
  | Some r => match first_in (height r) r with Some it => it | None => end_of r end
  end.

(* operator++ : None = the position falls off the end of this subtree (pvMove keeps climbing) *)
Fixpoint next_in (d : nat) (p : list nat) (n : node) (j : nat) : option iter :=
  match p with
  | [] => if is_leaf n then here n (S j)
          else match nth_error (n_children n) (S j) with
               | Some ch => orelse (lift (S j) (first_in (pred d) ch)) (here n (S j))
               | None => None
               end
  | c :: p' => match nth_error (n_children n) c with
               | Some ch => orelse (lift c (next_in (pred d) p' ch j)) (here n c)
               | None => None
               end
  end.

Definition next (t : tree) (it : iter) : iter :=
  match root t with
  | None => it
  | Some r => match next_in (height r) (fst it) r (snd it) with Some it' => it' | None => end_of r end
  end.

(* operator-- : rightmost leaf of child j, index = count, climb while index == 0, then index - 1 *)
Fixpoint last_in (d : nat) (n : node) : option iter :=
  match d with
  | 0 => here_prev (n_count n)
  | S d' => match nth_error (n_children n) (n_count n) with
            | Some ch => orelse (lift (n_count n) (last_in d' ch)) (here_prev (n_count n))
            | None => here_prev (n_count n)
            end
  end.

Fixpoint prev_in (d : nat) (p : list nat) (n : node) (j : nat) : option iter :=
  match p with
  | [] => if is_leaf n then here_prev j
          else match nth_error (n_children n) j with
               | Some ch => orelse (lift j (last_in (pred d) ch)) (here_prev j)
               | None => None
               end
  | c :: p' => match nth_error (n_children n) c with
               | Some ch => orelse (lift c (prev_in (pred d) p' ch j)) (here_prev c)
               | None => None
               end
  end.

Definition prev (t : tree) (it : iter) : iter :=
  match root t with
  | None => it
  | Some r => match prev_in (height r) (fst it) r (snd it) with Some it' => it' | None => it end
  end.

Definition iter_index (t : tree) (it : iter) : nat :=
  match root t with None => 0 | Some r => length (before (fst it) r (snd it)) end.

Definition contents (t : tree) : list Z := match root t with None => [] | Some r => flatten r end.

(* pvGetKeyCount: walk from the lower bound while !pvIsGreater *)
Fixpoint count_from (fuel : nat) (t : tree) (it : iter) (k : Z) : nat :=
  match fuel with
  | 0 => 0
  | S f => if is_greater t it k then 0 else S (count_from f t (next t it) k)
  end.
Definition key_count (t : tree) (k : Z) : nat :=
  if multi then count_from (S (length (contents t))) t (lower_bound t k) k
  else if contains t k then 1 else 0.

(* ---------- pvAdd ---------- *)
Fixpoint rightmost (d : nat) (n : node) : iter :=
  match d with
  | 0 => ([], n_count n)
  | S d' => match nth_error (n_children n) (n_count n) with
            | Some ch => let '(p, j) := rightmost d' ch in (n_count n :: p, j)
            | None => ([], n_count n)
            end
  end.

(* the leaf position pvAdd inserts at: the iterator itself if it is in a leaf, else the end of the
   rightmost leaf of child[itemIndex] *)
Fixpoint leaf_pos (d : nat) (p : list nat) (n : node) (j : nat) : iter :=
  match p with
  | [] => if is_leaf n then ([], j)
          else match nth_error (n_children n) j with
               | Some ch => let '(q, i) := rightmost (pred d) ch in (j :: q, i)
               | None => ([], j)
               end
  | c :: p' => match nth_error (n_children n) c with
               | Some ch => let '(q, i) := leaf_pos (pred d) p' ch j in (c :: q, i)
               | None => ([], j)
               end
  end.

Inductive ins_res :=
| Done (n : node) (pos : iter)
| Split (n1 : node) (sep : Z) (n2 : node) (rt : bool) (pos : iter).

(* Node::Create(params, isLeaf, count) followed by the Relocator filling it *)
Definition mk (ic : nat) (leaf : bool) (ks : list Z) (cs : list node) : node :=
  Node (if leaf then leaf_cap ic (length ks) else maxCap) ks cs.

(* Relocator::pvSplitNode, literally: s = GetSplitItemIndex(count, c); the six AddSegment calls of the two branches
   (seg l b n = AddSegment(src, b, .., n)), the new item x at index c (for an internal node the loop of SplitNode copies
   every child except child c and leaves two slots for sub = [newNode1; newNode2] of the split child), and the OLD
   item s as the separator that moves up. *)
Definition split_parts (ks : list Z) (cs sub : list node) (cnt c s : nat) (x : Z)
  : (list Z * list node) * Z * (list Z * list node) :=
  if c <=? s then
    ((seg ks 0 c ++ x :: seg ks c (s - c), seg cs 0 c ++ sub ++ seg cs (S c) (s - c)),
     nth s ks 0%Z,
     (seg ks (S s) (cnt - s - 1), seg cs (S s) (cnt - s)))
  else
    ((seg ks 0 s, seg cs 0 (S s)),
     nth s ks 0%Z,
     (seg ks (S s) (c - s - 1) ++ x :: seg ks c (cnt - c), seg cs (S s) (c - s - 1) ++ sub ++ seg cs (S c) (cnt - c))).

Definition split_node (ic : nat) (n : node) (c : nat) (x : Z) (sub : list node) (pos_of : nat -> iter) : ins_res :=
  let leaf := is_leaf n in
  let s := split_index (n_count n) c in
  let '((ks1, cs1), sep, (ks2, cs2)) := split_parts (n_items n) (n_children n) sub (n_count n) c s x in
  Split (mk ic leaf ks1 cs1) sep (mk ic leaf ks2 cs2)
        (negb (c <=? s)) (pos_of (if c <=? s then c else c - s - 1)).

(* pvAdd below the root: p is the path to the LEAF, j the index in it.  In-leaf insert, pvAddGrow, or the
   pvAddSplit cascade (written top-down: the result of the child tells the parent what to do) *)
Fixpoint ins (ic : nat) (p : list nat) (n : node) (j : nat) (x : Z) : ins_res :=
  match p with
  | [] =>
      let c := n_count n in
      if c <? n_cap n then Done (Node (n_cap n) (insert_at j x (n_items n)) []) ([], j)
      else if c <? maxCap then Done (Node (leaf_cap ic (S c)) (insert_at j x (n_items n)) []) ([], j)
      else split_node ic n j x [] (fun i => ([], i))
  | c :: p' =>
      match nth_error (n_children n) c with
      | None => Done n ([], 0)
      | Some ch =>
          match ins ic p' ch j x with
          | Done ch' (q, i) => Done (Node (n_cap n) (n_items n) (replace_at c ch' (n_children n))) (c :: q, i)
          | Split c1 sep c2 rt (q, i) =>
              let off := if rt then 1 else 0 in
              if n_count n <? n_cap n then
                Done (Node (n_cap n) (insert_at c sep (n_items n))
                           (firstn c (n_children n) ++ c1 :: c2 :: skipn (S c) (n_children n)))
                     ((c + off) :: q, i)
              else split_node ic n c sep [c1; c2] (fun i' => ((i' + off) :: q, i))
          end
      end
  end.

Definition add_root (r : node) (it : iter) (x : Z) : node * iter :=
  let '(p, j) := leaf_pos (height r) (fst it) r (snd it) in
  match ins (nint r) p r j x with
  | Done r' pos => (r', pos)
  | Split n1 sep n2 rt (q, i) => (Node maxCap [sep] [n1; n2], ((if rt then 1 else 0) :: q, i))
  end.

(* pvAdd (with pvAddFirst when there is no root) *)
Definition add (t : tree) (it : iter) (x : Z) : tree * iter :=
  match root t with
  | None => let r0 := Node (leaf_cap 0 0) [] [] in
            let '(r', pos) := add_root r0 (end_of r0) x in ({| root := Some r'; cnt := S (cnt t) |}, pos)
  | Some r => let '(r', pos) := add_root r it x in ({| root := Some r'; cnt := S (cnt t) |}, pos)
  end.

(* pvInsert *)
Definition insert (t : tree) (k : Z) : tree * iter * bool :=
  let it := upper_bound t k in
  let dup := if multi then None
             else if iter_eqb it (begin_iter t) then None
             else let pit := prev t it in
                  match deref t pit with
                  | Some x => if negb (x <? k)%Z then Some pit else None
                  | None => None
                  end in
  match dup with
  | Some pit => (t, pit, false)
  | None => let '(t', pos) := add t it k in (t', pos, true)
  end.

(* ---------- removal ---------- *)
Fixpoint update_at (p : list nat) (f : node -> node) (n : node) : node :=
  match p with
  | [] => f n
  | c :: p' => match nth_error (n_children n) c with
               | Some ch => Node (n_cap n) (n_items n) (replace_at c (update_at p' f ch) (n_children n))
               | None => n
               end
  end.

Fixpoint leftmost (d : nat) (n : node) : list nat :=
  match d with
  | 0 => []
  | S d' => match n_children n with ch :: _ => 0 :: leftmost d' ch | [] => [] end
  end.

(* pvRemoveInternal: deepest non-empty node on the rightmost spine (None: the whole spine is empty) *)
Fixpoint last_nonempty (d : nat) (n : node) : option (list nat) :=
  let self := if n_count n =? 0 then None else Some [] in
  match d with
  | 0 => self
  | S d' => match nth_error (n_children n) (n_count n) with
            | Some ch => match last_nonempty d' ch with Some q => Some (n_count n :: q) | None => self end
            | None => self
            end
  end.

(* position after the subtree at path p (pvMove) *)
Fixpoint climb (p : list nat) (n : node) : option iter :=
  match p with
  | [] => None
  | c :: p' => match nth_error (n_children n) c with
               | Some ch => orelse (lift c (climb p' ch)) (here n c)
               | None => None
               end
  end.

(* pvMakeIterator(node, itemIndex, move = true) *)
Definition move_if (r : node) (it : iter) : iter :=
  match node_at (fst it) r with
  | Some nd => if snd it =? n_count nd
               then match climb (fst it) r with Some it' => it' | None => end_of r end
               else it
  | None => it
  end.

Fixpoint strip_prefix (a b : list nat) : option (list nat) :=
  match a with
  | [] => Some b
  | x :: a' => match b with y :: b' => if x =? y then strip_prefix a' b' else None | [] => None end
  end.

(* where the saved node is after children i-1 and i of the node at pp were merged (c1 = old count of child i-1) *)
Definition merge_adjust (pp : list nat) (i c1 : nat) (sp : list nat) : list nat :=
  match strip_prefix pp sp with
  | Some (k :: rest) =>
      if k =? i then match rest with r0 :: rt => pp ++ (i - 1) :: (r0 + c1 + 1) :: rt | [] => sp end
      else if i <? k then pp ++ (k - 1) :: rest else sp
  | _ => sp
  end.

(* bool pvRebalance(parentNode, index, savedNode): merge children index-1 and index of par *)
Definition merge_children (par : node) (i : nat) : option node :=
  match nth_error (n_children par) (i - 1), nth_error (n_children par) i, nth_error (n_items par) (i - 1) with
  | Some n1, Some n2, Some sep =>
      if n_cap n1 <? n_count n1 + n_count n2 + 1 then None
      else Some (Node (n_cap par) (remove_at (i - 1) (n_items par))
                      (firstn (i - 1) (n_children par)
                       ++ Node (n_cap n1) (n_items n1 ++ sep :: n_items n2) (n_children n1 ++ n_children n2)
                       :: skipn (S i) (n_children par)))
  | _, _, _ => None
  end.

Definition try_merge (r : node) (pp : list nat) (i : nat) (sp : list nat) : option (node * list nat) :=
  match node_at pp r with
  | None => None
  | Some par =>
      if (i =? 0) || (n_count par <? i) then None
      else if list_eqb (pp ++ [i]) sp then None        (* node2 == savedNode *)
      else match merge_children par i, nth_error (n_children par) (i - 1) with
           | Some par', Some n1 => Some (update_at pp (fun _ => par') r, merge_adjust pp i (n_count n1) sp)
           | _, _ => None
           end
  end.

(* the while(true) loop of pvRebalance(node, savedNode, fast); rnp = reversed path of `node` *)
Fixpoint reb_loop (rnp : list nat) (r : node) (sp : list nat) (fast : bool) : node * list nat :=
  match rnp with
  | [] => (r, sp)
  | index :: rpp =>
      let pp := rev rpp in
      match try_merge r pp (S index) sp with
      | Some (r1, sp1) => reb_loop rpp r1 sp1 fast         (* !true && ... : the second merge is not tried *)
      | None =>
          match try_merge r pp index sp with
          | Some (r2, sp2) => reb_loop rpp r2 sp2 fast
          | None => if fast then (r, sp) else reb_loop rpp r sp fast
          end
      end
  end.

(* the root-collapse loop at the start of pvRebalance *)
Fixpoint collapse (fuel : nat) (r : node) (np sp : list nat) : node * list nat * list nat :=
  match fuel with
  | 0 => (r, np, sp)
  | S f => if (n_count r =? 0) && negb (is_leaf r) then
             match n_children r with
             | ch :: _ => collapse f ch (tl np) (tl sp)
             | [] => (r, np, sp)
             end
           else (r, np, sp)
  end.

Definition rebalance (r : node) (np sp : list nat) (fast : bool) : node * list nat :=
  let '(r0, np0, sp0) := collapse (height r) r np sp in
  reb_loop (rev np0) r0 sp0 fast.

Definition remove_item (j : nat) (n : node) : node := Node (n_cap n) (remove_at j (n_items n)) (n_children n).

(* pvRemove(iter) on the root r; returns the new root and the (normalised) iterator to the next item *)
Definition remove_root (r : node) (it : iter) : node * iter :=
  let '(p, j) := it in
  match node_at p r with
  | None => (r, it)
  | Some nd =>
      if is_leaf nd then
        let r1 := update_at p (remove_item j) r in
        let '(r2, sp) := rebalance r1 p p true in
        (r2, move_if r2 (sp, j))
      else
        match nth_error (n_children nd) j with
        | None => (r, it)
        | Some lch =>
            let d := height nd in
            match last_nonempty (pred d) lch with
            | None =>
                (* the left subtree holds no item: pvDestroyInternal(node, itemIndex, false) *)
                let r1 := update_at p (fun n => Node (n_cap n) (remove_at j (n_items n)) (remove_at j (n_children n))) r in
                let resp := match nth_error (n_children nd) (S j) with
                            | Some rch => p ++ j :: leftmost (pred d) rch
                            | None => p end in
                let '(r2, sp) := rebalance r1 p resp true in
                (r2, move_if r2 (sp, 0))
            | Some q =>
                let cp := p ++ j :: q in
                match node_at cp r with
                | None => (r, it)
                | Some cn =>
                    let x := last (n_items cn) 0%Z in
                    let r1 := update_at p (fun n => Node (n_cap n) (replace_at j x (n_items n)) (n_children n)) r in
                    let r1' := update_at cp (fun n => Node (n_cap n) (removelast (n_items n))
                                                (if is_leaf n then [] else removelast (n_children n))) r1 in
                    let resp := match nth_error (n_children nd) (S j) with
                                | Some rch => p ++ S j :: leftmost (pred d) rch
                                | None => p end in
                    let '(r2, sp) := rebalance r1' cp resp true in
                    (r2, move_if r2 (sp, 0))
                end
            end
        end
  end.

Definition remove (t : tree) (it : iter) : tree * iter :=
  match root t with
  | None => (t, it)
  | Some r => let '(r', it') := remove_root r it in ({| root := Some r'; cnt := pred (cnt t) |}, it')
  end.

Definition clear (t : tree) : tree := empty_tree.

(* the n-th position from begin (std::next(begin, n)) *)
Fixpoint nth_iter (t : tree) (n : nat) : iter :=
  match n with 0 => begin_iter t | S n' => next t (nth_iter t n') end.

Fixpoint forward (fuel : nat) (t : tree) (it : iter) : list Z :=
  match fuel with
  | 0 => []
  | S f => if iter_eqb it (end_iter t) then []
           else match deref t it with Some x => x :: forward f t (next t it) | None => [] end
  end.
Fixpoint backward (fuel : nat) (t : tree) (it : iter) : list Z :=
  match fuel with
  | 0 => []
  | S f => if iter_eqb it (begin_iter t) then []
           else let pit := prev t it in
                match deref t pit with Some x => x :: backward f t pit | None => [] end
  end.

(* pre-order shape: (is leaf, count, capacity) *)
Fixpoint shape_list (n : node) : list (bool * nat * nat) :=
  match n with Node c ks cs => (match cs with [] => true | _ => false end, length ks, c) :: flat_map shape_list cs end.

(* ---------- other single-container operations ---------- *)
(* TreeSet(const TreeSet&): pvCopy creates the nodes in pre-order; ic = internal nodes created so far *)
Fixpoint copy_node (ic : nat) (n : node) : node * nat :=
  match n with
  | Node _ ks [] => (Node (leaf_cap ic (length ks)) ks [], ic)
  | Node _ ks cs =>
      let '(cs', ic') := fold_left (fun acc ch => let '(l, i) := acc in
                                                   let '(ch', i') := copy_node i ch in (l ++ [ch'], i'))
                                   cs ([], S ic) in
      (Node maxCap ks cs', ic')
  end.
Definition copy_tree (t : tree) : tree :=
  if cnt t =? 0 then empty_tree
  else match root t with
       | None => empty_tree
       | Some r => {| root := Some (fst (copy_node 0 r)); cnt := cnt t |}
       end.

(* ResetKey(iter, key) *)
Definition reset_key (t : tree) (it : iter) (k : Z) : tree :=
  match root t with
  | None => t
  | Some r => {| root := Some (update_at (fst it) (fun n => Node (n_cap n) (replace_at (snd it) k (n_items n)) (n_children n)) r);
                 cnt := cnt t |}
  end.

(* Remove(const Key&) for unique keys *)
Definition remove_key (t : tree) (k : Z) : tree * nat :=
  let it := lower_bound t k in
  if is_greater t it k then (t, 0) else (fst (remove t it), 1).

(* Remove(itemFilter) *)
Fixpoint remove_if_loop (fuel : nat) (P : Z -> bool) (t : tree) (it : iter) : tree :=
  match fuel with
  | 0 => t
  | S f => if iter_eqb it (end_iter t) then t
           else match deref t it with
                | Some x => if P x then let '(t', it') := remove t it in remove_if_loop f P t' it'
                            else remove_if_loop f P t (next t it)
                | None => t
                end
  end.
Definition remove_if (P : Z -> bool) (t : tree) : tree :=
  remove_if_loop (S (length (contents t))) P t (begin_iter t).

Definition shape_of (t : tree) : list (bool * nat * nat) :=
  match root t with None => [] | Some r => shape_list r end.
Definition traverse_fwd (t : tree) : list Z := forward (S (length (contents t))) t (begin_iter t).
Definition traverse_bwd (t : tree) : list Z := backward (S (length (contents t))) t (end_iter t).

(* ---------- MergeTo (the generic and the linear path; pvMergeFast is not modelled) ---------- *)
(* pvMergeTo: for each source item, dst.InsertCrt(key, creator) where the creator runs pvExtract on the source *)
Fixpoint merge_generic (fuel : nat) (src dst : tree) (it : iter) : tree * tree :=
  match fuel with
  | 0 => (src, dst)
  | S f =>
      if iter_eqb it (end_iter src) then (src, dst)
      else match deref src it with
           | None => (src, dst)
           | Some k =>
               let '(dst', _, ins) := insert dst k in
               if ins then let '(src', it') := remove src it in merge_generic f src' dst' it'
               else merge_generic f src dst (next src it)
           end
  end.

(* pvIsOrdered(iter1, iter2) on keys *)
Definition key_ordered (k1 k2 : Z) : bool := if multi then negb (k2 <? k1)%Z else (k1 <? k2)%Z.

(* the inner `while (dstIter != end && pvIsOrdered(dstIter, iter)) ++dstIter` *)
Fixpoint skip_ordered (fuel : nat) (dst : tree) (dit : iter) (k : Z) : iter :=
  match fuel with
  | 0 => dit
  | S f => if iter_eqb dit (end_iter dst) then dit
           else match deref dst dit with
                | Some x => if key_ordered x k then skip_ordered f dst (next dst dit) k else dit
                | None => dit
                end
  end.

(* pvMergeToLinear *)
Fixpoint merge_linear (fuel : nat) (src dst : tree) (it dit : iter) : tree * tree :=
  match fuel with
  | 0 => (src, dst)
  | S f =>
      if iter_eqb it (end_iter src) then (src, dst)
      else match deref src it with
           | None => (src, dst)
           | Some k =>
               let dit1 := skip_ordered (S (length (contents dst))) dst dit k in
               if multi || is_greater dst dit1 k then
                 let '(dst', pos) := add dst dit1 k in
                 let '(src', it') := remove src it in
                 merge_linear f src' dst' it' (next dst' pos)
               else merge_linear f src dst (next src it) (next dst dit1)
           end
  end.

(* ---------- pvMergeFast(treeSet1, treeSet2): concatenation, all of tree 1 before all of tree 2 ---------- *)
(* m new zero-item internal roots on top of the shorter tree (Node::Create(params, false, 0) + SetChild(0, root)) *)
Fixpoint wrap (m : nat) (n : node) : node :=
  match m with 0 => n | S m' => Node maxCap [] [wrap m' n] end.

(* the separator taken from the shorter tree: its last item (shorter tree on the left, swap = false) or its first item
   (on the right, swap = true); when that item sits in an internal node the empty edge subtree next to it is destroyed *)
Definition drop_edge (swp : bool) (n : node) : node :=
  if is_leaf n then Node (n_cap n) (if swp then tl (n_items n) else removelast (n_items n)) []
  else Node (n_cap n) (if swp then tl (n_items n) else removelast (n_items n))
            (if swp then tl (n_children n) else removelast (n_children n)).

Definition edge_remove (swp : bool) (t : tree) : option (Z * node) :=
  match root t with
  | None => None
  | Some r =>
      let it := if swp then begin_iter t else prev t (end_iter t) in
      match deref t it with
      | Some x => Some (x, update_at (fst it) (drop_edge swp) r)
      | None => None
      end
  end.

(* climbing from the level of the shorter tree's root up the joining edge of the taller tree until an ancestor with
   room is found; e = number of edge levels between n2 and that level.  None = every ancestor is full. *)
Fixpoint fast_attach (e : nat) (swp : bool) (sep : Z) (small : node) (n2 : node) : option node :=
  match e with
  | 0 => None
  | S e' =>
      let c := if swp then n_count n2 else 0 in
      let here_ :=
        if n_count n2 <? maxCap then
          Some (if swp then Node (n_cap n2) (n_items n2 ++ [sep]) (n_children n2 ++ [wrap e' small])
                else Node (n_cap n2) (sep :: n_items n2) (wrap e' small :: n_children n2))
        else None in
      match nth_error (n_children n2) c with
      | Some ch =>
          match fast_attach e' swp sep small ch with
          | Some ch' => Some (Node (n_cap n2) (n_items n2) (replace_at c ch' (n_children n2)))
          | None => here_
          end
      | None => here_
      end
  end.

(* result root of pvMergeFast: tl (left) and tr (right) are non-empty trees *)
Definition merge_fast (tl_ tr : tree) : option node :=
  match root tl_, root tr with
  | Some rl, Some rr =>
      let swp := height rr <? height rl in                      (* height1 > height2: the right tree is the shorter one *)
      let small_t := if swp then tr else tl_ in
      let big := if swp then rl else rr in
      let e := if swp then height rl - height rr else height rr - height rl in
      match edge_remove swp small_t with
      | Some (sep, small) =>
          match fast_attach e swp sep small big with
          | Some r => Some r
          | None => Some (Node maxCap [sep] (if swp then [big; wrap e small] else [wrap e small; big]))
          end
      | None => None
      end
  | _, _ => None
  end.

(* TreeSet::MergeTo(TreeSet& dst) for equal memory managers *)
Definition merge_to (src dst : tree) : option (tree * tree) :=
  let count := cnt src in let dcount := cnt dst in
  if count =? 0 then Some (src, dst)
  else if dcount =? 0 then Some ({| root := root dst; cnt := cnt dst |}, {| root := root src; cnt := cnt src |})
  else
    let sl := contents src in let dl := contents dst in
    let sfirst := hd 0%Z sl in let slast := last sl 0%Z in let dfirst := hd 0%Z dl in let dlast := last dl 0%Z in
    if key_ordered dlast sfirst then
      match merge_fast dst src with
      | Some r => Some ({| root := None; cnt := 0 |}, {| root := Some r; cnt := dcount + count |})
      | None => None
      end
    else if (slast <? dfirst)%Z then
      match merge_fast src dst with
      | Some r => Some ({| root := None; cnt := 0 |}, {| root := Some r; cnt := dcount + count |})
      | None => None
      end
    else if count * Nat.log2 (count + dcount) <? count + dcount
         then Some (merge_generic (S count) src dst (begin_iter src))
         else Some (merge_linear (S (count + dcount)) src dst (begin_iter src) (begin_iter dst)).

(* ---------- Remove(begin, end) / pvRemoveRange ---------- *)
(* a node on the left border keeps what is left of child c / item k; on the right border what is right of it *)
Definition trunc_right (c : nat) (n : node) : node := Node (n_cap n) (firstn c (n_items n)) (firstn (S c) (n_children n)).
Definition trunc_left (c : nat) (n : node) : node := Node (n_cap n) (skipn c (n_items n)) (skipn c (n_children n)).

(* the left branch below the common parent: every node on the path q is cut to the right of the path
   (pvDestroyInternal(node, i-1, true) for i = count .. index+1), the last node keeps its first k items *)
Fixpoint left_edit (q : list nat) (k : nat) (n : node) : node :=
  match q with
  | [] => trunc_right k n
  | c :: q' =>
      match nth_error (n_children n) c with
      | Some ch => Node (n_cap n) (firstn c (n_items n)) (firstn c (n_children n) ++ [left_edit q' k ch])
      | None => trunc_right c n
      end
  end.
(* the right branch: cut to the left of the path; the last node loses its first k items (and children) *)
Fixpoint right_edit (q : list nat) (k : nat) (n : node) : node :=
  match q with
  | [] => trunc_left k n
  | c :: q' =>
      match nth_error (n_children n) c with
      | Some ch => Node (n_cap n) (skipn c (n_items n)) (right_edit q' k ch :: skipn (S c) (n_children n))
      | None => trunc_left c n
      end
  end.

Fixpoint cprefix (a b : list nat) : list nat * list nat * list nat :=   (* common prefix, rest of a, rest of b *)
  match a, b with
  | x :: a', y :: b' => if x =? y then let '(c, ra, rb) := cprefix a' b' in (x :: c, ra, rb) else ([], a, b)
  | _, _ => ([], a, b)
  end.

(* `while (itemIndex1 == 0) { pvToParent(node1, itemIndex1); if (node1 == comNode) break; }` on the reversed path *)
Fixpoint climb0 (rq : list nat) (idx : nat) : list nat * nat :=
  match idx with
  | S _ => (rq, idx)
  | 0 => match rq with
         | [] => ([], 0)
         | c :: rq' => match rq' with [] => ([], c) | _ => climb0 rq' c end
         end
  end.

(* pvRemoveRange(node1, itemIndex1, node2, itemIndex2) + the two pvRebalance(.., false) + pvMakeIterator(resNode, 0, true) *)
Definition remove_range_root (r : node) (it1 itp : iter) : node * iter :=
  let '(p1, i1) := it1 in let '(p2, i2) := itp in
  let '(cp, rest1, rest2) := cprefix p1 p2 in
  match node_at cp r with
  | None => (r, it1)
  | Some com =>
      let ci1 := match rest1 with [] => i1 | c :: _ => c end in
      let '(p1d, i1d) := leaf_pos (height r) p1 r i1 in
      let q1full := skipn (length cp) p1d in
      let '(rq1, k1) := climb0 (rev q1full) i1d in
      let q1 := rev rq1 in
      let has_left := match q1 with [] => false | _ => true end in
      (* left side *)
      let x := match node_at (cp ++ q1) r with Some nd => nth (k1 - 1) (n_items nd) 0%Z | None => 0%Z end in
      let ci1' := if has_left then S ci1 else ci1 in
      let items1 := if has_left then replace_at ci1 x (n_items com) else n_items com in
      let children1 :=
        if has_left then
          match nth_error (n_children com) ci1 with
          | Some ch => replace_at ci1 (left_edit (tl q1) (k1 - 1) ch) (n_children com)
          | None => n_children com
          end
        else n_children com in
      (* right side *)
      let '(ci2', rchild) :=
        match rest2 with
        | [] => (S i2, nth_error (n_children com) (S i2))
        | c2 :: q2 => (c2, match nth_error (n_children com) c2 with Some ch => Some (right_edit q2 (S i2) ch) | None => None end)
        end in
      match rchild with
      | None => (r, it1)
      | Some rc =>
          let com' := Node (n_cap com) (firstn ci1' items1 ++ skipn ci2' (n_items com))
                           (firstn ci1' children1 ++ rc :: skipn (S ci2') (n_children com)) in
          let r1 := update_at cp (fun _ => com') r in
          let resp := cp ++ ci1' :: leftmost (height rc) rc in
          let '(r3, sp3) :=
            if has_left then
              let '(r2, sp2) := rebalance r1 (cp ++ q1) resp false in rebalance r2 sp2 sp2 false
            else rebalance r1 resp resp false in
          (r3, move_if r3 (sp3, 0))
      end
  end.

(* Remove(begin, end): it1 = begin, it2 = end, given with their indexes h1 <= h2 *)
Definition remove_range (t : tree) (h1 h2 : nat) : tree * iter :=
  let it1 := nth_iter t h1 in let it2 := nth_iter t h2 in
  match root t with
  | None => (t, it1)
  | Some r =>
      let rem := h2 - h1 in
      if rem =? 0 then (t, it2)
      else if rem =? cnt t then (empty_tree, ([], 0))
      else
        let itp := prev t it2 in
        let same_leaf := list_eqb (fst it1) (fst itp) &&
                         match node_at (fst it1) r with Some nd => is_leaf nd | None => false end in
        if same_leaf then
          let r1 := update_at (fst it1)
                      (fun n => Node (n_cap n) (firstn (snd it1) (n_items n) ++ skipn (S (snd itp)) (n_items n)) (n_children n)) r in
          let '(r2, sp) := rebalance r1 (fst it1) (fst it1) true in
          ({| root := Some r2; cnt := cnt t - rem |}, move_if r2 (sp, snd it1))
        else
          let '(r3, it3) := remove_range_root r it1 itp in
          ({| root := Some r3; cnt := cnt t - rem |}, it3)
  end.

(* Remove(const Key&) for multi keys: the whole equal range through Remove(iter, iter2) *)
Definition remove_key_multi (t : tree) (k : Z) : tree * nat :=
  let it := lower_bound t k in
  if is_greater t it k then (t, 0)
  else
    let lb := iter_index t it in
    let n := count_from (S (length (contents t))) t it k in
    (fst (remove_range t lb (lb + n)), n).

(* ---------- Insert(begin, end): hinted adds while the input stays ordered behind the previous position ---------- *)
Definition insert_next (t : tree) (pos : iter) (k : Z) : tree * iter :=
  match deref t pos with
  | None => (t, pos)
  | Some prevKey =>
      let np := next t pos in
      if (k <? prevKey)%Z || negb (is_greater t np k) then
        let '(t', pos', _) := insert t k in (t', pos')
      else if multi || (prevKey <? k)%Z then add t np k
      else (t, pos)
  end.

Fixpoint insert_loop (ks : list Z) (t : tree) (pos : iter) : tree :=
  match ks with
  | [] => t
  | k :: ks' => let '(t', pos') := insert_next t pos k in insert_loop ks' t' pos'
  end.

Definition insert_range (t : tree) (ks : list Z) : tree :=
  match ks with
  | [] => t
  | k0 :: ks' => let '(t1, pos, _) := insert t k0 in insert_loop ks' t1 pos
  end.

End Model.
