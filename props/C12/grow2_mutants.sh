#!/bin/bash
cd /verif
runpatch() { d=$(mktemp -d); cp -r /repo/include $d/; (cd $d && patch -p1 -s < $2) || echo PATCHFAIL; echo "=== $1"; VERIF_REPO=$d timeout 3000 ./check C12 > build/C12/mut_$1.log 2>&1; echo "exit=$?"; grep -E "BROKEN|VIOLATION|done:" build/C12/mut_$1.log | cut -c1-230; rm -rf $d; }
run() {
  d=$(mktemp -d); cp -r /repo/include $d/
  python3 - "$d/include/momo/$2" "$3" "$4" <<'PY'
import sys
p,old,new=sys.argv[1:4]
s=open(p).read()
assert s.count(old)==1,(s.count(old))
open(p,'w').write(s.replace(old,new))
PY
  echo "=== $1"; VERIF_REPO=$d timeout 3000 ./check C12 > build/C12/mut_$1.log 2>&1; echo "exit=$?"
  grep -E "BROKEN|VIOLATION|done:" build/C12/mut_$1.log | cut -c1-230
  rm -rf $d
}
runpatch seed2a /tmp/seed-out2/C12/a/patch.diff
runpatch seed2b /tmp/seed-out2/C12/b/patch.diff
run G4 details/HashBucketLimP4.h "			for (size_t i = 0; i < maxCount; ++i)
			{
				if (mShortHashes[i] == shortHash)" "			for (size_t i = 1; i < maxCount; ++i)
			{
				if (mShortHashes[i] == shortHash)"
run G5 details/HashBucketOne.h "			if (mHashState != pvGetHashState(hashCode))
				return nullptr;" "			if (mHashState == HashState{0})
				return nullptr;"
