(* Extraction of the hand-written executable models of C08. ExtrOcamlBasic only. *)
From Coq Require Import ZArith List Extraction ExtrOcamlBasic.
From MomoCommon Require Import GenPrelude.
From C08 Require Gen_GrowCapacity Gen_ArrayBucket Gen_ArrayBucket_cnt Gen_ArrayBucket_s Gen_HashMultiMap Gen_VersionCheck Gen_VersionCheck_a Gen_WrapEq Gen_WrapErase Gen_AB_ops Gen_AB_copy Gen_PairIterator.
From C08 Require ArrayBucketModel MultiMapModel WrapperModel VersionModel.
Separate Extraction
  Gen_VersionCheck.Check_self Gen_VersionCheck.Check_cont Gen_VersionCheck_a.Check_self Gen_WrapEq.op_eq Gen_WrapErase.erase_range
  Gen_PairIterator.pvMove
  Gen_AB_ops.AddBackCrt Gen_AB_ops.RemoveBack Gen_AB_copy.copy_ctor
  Gen_HashMultiMap.pvAddValue Gen_HashMultiMap.Remove_iter Gen_HashMultiMap.pvRemoveValues Gen_HashMultiMap.Clear
  Gen_GrowCapacity.GrowCapacity Gen_ArrayBucket.pvMakeState Gen_ArrayBucket.pvGetFastMemPoolIndex Gen_ArrayBucket.pvGetMemPoolIndex
  Gen_ArrayBucket_cnt.pvGetFastCount Gen_ArrayBucket_s.pvMakeState Gen_ArrayBucket_s.pvGetFastMemPoolIndex ArrayBucketModel.ab2_step
  ArrayBucketModel.ab_step ArrayBucketModel.ab_null ArrayBucketModel.rcount ArrayBucketModel.rcap
  ArrayBucketModel.pool_of ArrayBucketModel.fcount_of
  MultiMapModel.step MultiMapModel.st_empty MultiMapModel.traverse MultiMapModel.get_count
  MultiMapModel.get_key_count MultiMapModel.find MultiMapModel.evals VersionModel.kver_changes VersionModel.vstep VersionModel.vstep1 VersionModel.vst_empty VersionModel.vmm_fresh VersionModel.vver MultiMapModel.lin_pred MultiMapModel.step1f MultiMapModel.step1
  WrapperModel.w_size WrapperModel.w_count WrapperModel.w_equal_range WrapperModel.w_insert WrapperModel.w_erase_key
  WrapperModel.w_erase_if WrapperModel.w_clear WrapperModel.w_erase_at WrapperModel.w_erase_range WrapperModel.w_eq.
