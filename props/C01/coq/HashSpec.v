(* C01 -- the abstract set/map that the hash containers must equal: an association list with distinct keys
   (order irrelevant: all statements are up to Permutation). *)
From Coq Require Import ZArith List Bool Permutation.
From C01 Require Import HashModel ListAux.
Import ListNotations.
Local Open Scope Z_scope.

Definition sp_find (m : list item) (k : Z) : option Z :=
  match bfind k m 0 with Some (_, v) => Some v | None => None end.
Definition sp_mem (m : list item) (k : Z) : bool := match sp_find m k with Some _ => true | None => false end.
Definition sp_remove (k : Z) (m : list item) : list item := filter (fun kv => negb (fst kv =? k)) m.
Definition sp_setval (k v : Z) (m : list item) : list item := map (fun kv => if fst kv =? k then (k, v) else kv) m.
Definition modp (md r : Z) (kv : item) : bool := Z.eqb (fst kv mod md) r.

Definition spec_step (m : list item) (o : op) : list item * out :=
  match o with
  | OInsert k v _ => if sp_mem m k then (m, RBool false) else ((k, v) :: m, RBool true)
  | OFind k => (m, ROpt (sp_find m k))
  | ORemove k => if sp_mem m k then (sp_remove k m, RBool true) else (m, RBool false)
  | OSetVal k v => if sp_mem m k then (sp_setval k v m, RBool true) else (m, RBool false)
  | OReserve _ _ => (m, RUnit)
  | OClear _ => ([], RUnit)
  | OTraverse => (m, RList m)
  | OCount => (m, RNum (Z.of_nat (length m)))
  | ORemoveIf md r => let m' := filter (negp (modp md r)) m in (m', RNum (Z.of_nat (length m) - Z.of_nat (length m')))
  | OCopy => (m, RUnit)
  | OAddAt k v | OInsertNoMem k v => if sp_mem m k then (m, RBool false) else ((k, v) :: m, RBool true)
  | OInsertFail k v => if sp_mem m k then (m, RBool false) else (m, RUnit)   (* absent key: the implementation must throw and change nothing *)
  end.

(* outputs are compared literally, except that a traversal may come in any order *)
Definition out_equiv (a b : out) : Prop :=
  match a, b with RList l1, RList l2 => Permutation l1 l2 | _, _ => a = b end.

Definition is_exn (x : out) : bool := match x with RExn => true | _ => false end.

(* the spec run over a history; an operation on which the implementation threw (RExn) is skipped: it must have
   left the container unchanged (strong guarantee) *)
Fixpoint spec_run (m : list item) (os : list op) (xs : list out) : list item * list out :=
  match os, xs with
  | o :: os', x :: xs' =>
    if is_exn x then match spec_run m os' xs' with (m', ys) => (m', RExn :: ys) end
    else match spec_step m o with
         | (m1, y) => match spec_run m1 os' xs' with (m', ys) => (m', y :: ys) end
         end
  | _, _ => (m, [])
  end.

(* ---- the abstract pair of maps + holder ---- *)
Definition wspec : Type := (list item * list item * option item)%type.
Definition wspec_step (m : wspec) (o : wop) : wspec * out :=
  match m with
  | (ma, mb, e) =>
    match o with
    | WA o => match spec_step ma o with (ma', x) => ((ma', mb, e), x) end
    | WB o => match spec_step mb o with (mb', x) => ((ma, mb', e), x) end
    | WExtract k =>
      match e with
      | Some _ => (m, RBool false)
      | None => match sp_find ma k with
                | Some v => ((sp_remove k ma, mb, Some (k, v)), RBool true)
                | None => (m, RBool false)
                end
      end
    | WInsertExt =>
      match e with
      | None => (m, RBool false)
      | Some (k, v) => if sp_mem ma k then (m, RBool false) else (((k, v) :: ma, mb, None), RBool true)
      end
    | WSwap => ((mb, ma, e), RUnit)
    | WMoveAB => (([], ma, e), RUnit)
    | WMergeAB =>   (* union with destination priority; the source keeps the refused items *)
      ((filter (fun kv => sp_mem mb (fst kv)) ma, filter (fun kv => negb (sp_mem mb (fst kv))) ma ++ mb, e), RUnit)
    end
  end.

Lemma sp_find_in (m : list item) k v : NoDup (map fst m) -> In (k, v) m -> sp_find m k = Some v.
Proof.
  intros ND H. unfold sp_find. destruct (bfind_complete k v m 0 H) as [pos [v' E]]. rewrite E.
  apply bfind_spec0 in E. apply nth_error_In in E. f_equal. eapply NoDup_keys_val; eauto.
Qed.

Lemma sp_find_notin (m : list item) k : ~ In k (map fst m) -> sp_find m k = None.
Proof.
  intros H. unfold sp_find. destruct (bfind k m 0) as [[pos v]|] eqn:E; auto.
  exfalso. apply H. apply bfind_spec0 in E. apply nth_error_In in E. apply in_keys. eauto.
Qed.

Lemma sp_remove_perm (l l' : list item) k v : NoDup (map fst l) -> Permutation ((k, v) :: l') l -> Permutation l' (sp_remove k l).
Proof.
  intros ND P. unfold sp_remove.
  rewrite <- (Permutation_filter _ _ _ P). simpl. rewrite Z.eqb_refl. simpl.
  rewrite filter_all; auto. intros [k' v'] Hin. simpl.
  apply (NoDup_keys_perm _ _ (Permutation_sym P)) in ND. simpl in ND. inversion ND; subst.
  destruct (Z.eqb_spec k' k); auto. subst. exfalso. apply H1. apply in_keys. eauto.
Qed.

Lemma sp_setval_perm (l rest : list item) k v0 v : NoDup (map fst l) -> Permutation l ((k, v0) :: rest) ->
  Permutation (sp_setval k v l) ((k, v) :: rest).
Proof.
  intros ND P. unfold sp_setval.
  apply Permutation_trans with (map (fun kv : item => if fst kv =? k then (k, v) else kv) ((k, v0) :: rest)).
  { apply Permutation_map. exact P. }
  simpl. rewrite Z.eqb_refl.
  apply perm_skip. apply (NoDup_keys_perm _ _ P) in ND. simpl in ND. inversion ND; subst.
  match goal with |- Permutation ?a ?b => assert (E : a = b) end.
  { rewrite <- (map_id rest) at 2. apply map_ext_in. intros [k' v'] Hin. simpl.
    destruct (Z.eqb_spec k' k); auto. subst. exfalso. apply H1. apply in_keys. eauto. }
  rewrite E. reflexivity.
Qed.

(* ---- facts used by the MergeTo refinement ---- *)
Lemma sp_mem_iff (m : list item) k : sp_mem m k = true <-> In k (map fst m).
Proof.
  unfold sp_mem, sp_find. destruct (bfind k m 0) as [[pos v]|] eqn:E; split; intros H; auto; try discriminate.
  - apply bfind_spec0 in E. apply nth_error_In in E. apply in_keys. eauto.
  - exfalso. eapply bfind_none; eauto.
Qed.

Lemma sp_mem_cons (m : list item) k v k' : sp_mem ((k, v) :: m) k' = (k' =? k) || sp_mem m k'.
Proof.
  apply Bool.eq_true_iff_eq. rewrite orb_true_iff, !sp_mem_iff, Z.eqb_eq. simpl. intuition.
Qed.

Lemma sp_mem_perm (m m' : list item) k : Permutation m m' -> sp_mem m k = sp_mem m' k.
Proof.
  intros P. apply Bool.eq_true_iff_eq. rewrite !sp_mem_iff. split; apply Permutation_in; [|apply Permutation_sym]; apply Permutation_map; exact P.
Qed.

Fixpoint moved_of (its mb : list item) : list item :=
  match its with
  | [] => []
  | (k, v) :: r => if sp_mem mb k then moved_of r mb else (k, v) :: moved_of r ((k, v) :: mb)
  end.

Lemma moved_of_filter : forall its mb, NoDup (map fst its) ->
  moved_of its mb = filter (fun kv => negb (sp_mem mb (fst kv))) its.
Proof.
  induction its as [|[k v] r IH]; intros mb ND; simpl; auto. inversion ND; subst.
  destruct (sp_mem mb k) eqn:E; simpl; [apply IH; auto|]. f_equal. rewrite IH by auto.
  apply filter_ext_in. intros [k' v'] Hin. simpl. rewrite sp_mem_cons.
  destruct (Z.eqb_spec k' k); auto. subst. exfalso. apply H1. apply in_keys. eauto.
Qed.

Lemma filter_partition_perm {A} (f : A -> bool) l : Permutation l (filter f l ++ filter (fun x => negb (f x)) l).
Proof.
  induction l; simpl; auto. destruct (f a); simpl; [apply perm_skip; auto|].
  apply Permutation_cons_app. auto.
Qed.

Fixpoint wspec_run (m : wspec) (os : list wop) (xs : list out) : wspec * list out :=
  match os, xs with
  | o :: os', x :: xs' =>
    if is_exn x then match wspec_run m os' xs' with (m', ys) => (m', RExn :: ys) end
    else match wspec_step m o with
         | (m1, y) => match wspec_run m1 os' xs' with (m', ys) => (m', y :: ys) end
         end
  | _, _ => (m, [])
  end.

(* a MergeTo that throws in the middle gives only the basic guarantee; histories containing one are excluded below *)
Fixpoint no_merge_exn (os : list wop) (xs : list out) : Prop :=
  match os, xs with
  | o :: os', x :: xs' => (match o with WMergeAB => x <> RExn | _ => True end) /\ no_merge_exn os' xs'
  | _, _ => True
  end.

Lemma spec_step_not_exn m o : snd (spec_step m o) <> RExn.
Proof. destruct o; simpl; repeat match goal with |- context [if ?e then _ else _] => destruct e end; simpl; discriminate. Qed.

Lemma wspec_step_not_exn m o : snd (wspec_step m o) <> RExn.
Proof.
  destruct m as [[ma mb] e]. destruct o as [o|o|k| | | |]; simpl.
  - pose proof (spec_step_not_exn ma o). destruct (spec_step ma o); auto.
  - pose proof (spec_step_not_exn mb o). destruct (spec_step mb o); auto.
  - destruct e; simpl; [discriminate|]. destruct (sp_find ma k); simpl; discriminate.
  - destruct e as [[k v]|]; simpl; [|discriminate]. destruct (sp_mem ma k); simpl; discriminate.
  - discriminate.
  - discriminate.
  - discriminate.
Qed.

(* all histories, including a MergeTo interrupted by an exception: the abstract run is a relation.
   wt_merge_exn = basic guarantee of MergeTo: the union of the two contents is unchanged as a multiset, i.e. every element
   is in exactly one of the two containers afterwards (each keeps distinct keys); nothing else about the split is promised. *)
Inductive wtrace : wspec -> list wop -> list out -> wspec -> Prop :=
| wt_nil m : wtrace m [] [] m
| wt_ok m o x m1 y os xs m' :
    wspec_step m o = (m1, y) -> out_equiv x y -> wtrace m1 os xs m' -> wtrace m (o :: os) (x :: xs) m'
| wt_exn m o os xs m' :                       (* the operation threw and left everything unchanged *)
    wtrace m os xs m' -> wtrace m (o :: os) (RExn :: xs) m'
| wt_merge_exn ma mb e ma' mb' os xs m' :
    Permutation (ma' ++ mb') (ma ++ mb) -> NoDup (map fst ma') -> NoDup (map fst mb') ->
    wtrace (ma', mb', e) os xs m' -> wtrace (ma, mb, e) (WMergeAB :: os) (RExn :: xs) m'.
