(* Extraction of the hand-written executable models (ArrayShift / ArrayModel) and of the GENERATED growth policy.
   ExtrOcamlBasic only. *)
From Coq Require Import ZArith List Extraction ExtrOcamlBasic.
From MomoCommon Require Import GenPrelude.
From C05 Require ArrayShift ArrayModel Gen_Grow.
Separate Extraction
  ArrayModel.run_op ArrayModel.array_empty ArrayModel.observe ArrayModel.body ArrayModel.allocs
  ArrayShift.cap ArrayShift.cnt ArrayShift.insert_nogrow_copies ArrayShift.remove_range
  Gen_Grow.GrowCapacity.
