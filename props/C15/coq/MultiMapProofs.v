(* C15 -- proofs about the HashMultiMap model (MultiMap.v). *)
From Coq Require Import ZArith List Bool Arith Lia.
From C15 Require Import MultiMap.
Import ListNotations.
Local Open Scope Z_scope.

Ltac mdm :=
  repeat match goal with
         | |- context [match ?x with _ => _ end] => destruct x eqn:?
         | |- context [if ?x then _ else _] => destruct x eqn:?
         end.
(* robustness: a regenerated term that makes a tactic run away fails the proof (prove BROKEN) instead of hanging the build *)
Set Default Timeout 300.
Ltac munf := cbn [mstep]; unfold kderef, remove_value; cbv zeta.

Lemma mm_rejected_call_is_identity s o s' : mstep s o = (s', MRej) -> s' = s.
Proof. destruct o; munf; mdm; intro H; inversion H; reflexivity. Qed.

Lemma mm_step_monotone s o : (kver s <= kver (fst (mstep s o)))%nat /\ (vver s <= vver (fst (mstep s o)))%nat.
Proof. destruct o; munf; mdm; cbn [fst kver vver mset mupd]; lia. Qed.
Lemma mm_versions_monotone ops : forall s, (kver s <= kver (mrun s ops))%nat /\ (vver s <= vver (mrun s ops))%nat.
Proof.
  induction ops as [|o t IH]; intros s; simpl; [lia|].
  destruct (mm_step_monotone s o), (IH (fst (mstep s o))). lia.
Qed.

(* ---------- stale handles ---------- *)
Definition key_stale (s : mstate) (h : mhandle) : Prop := kcid h = Some 0%nat /\ ksnap h <> kver s.
Definition value_stale (s : mstate) (h : mhandle) : Prop := vcid h = Some 0%nat /\ vsnap h <> vver s.

Lemma key_stale_checks s h a : key_stale s h -> kself s h = false /\ kcont s h a = false.
Proof.
  intros (A & B). unfold kself, kcont. rewrite A. simpl. destruct (Nat.eqb_spec (ksnap h) (kver s)); [congruence|auto].
Qed.
Lemma value_stale_checks s h : value_stale s h -> vself s h = false /\ vcont s h = false.
Proof.
  intros (A & B). unfold vself, vcont. rewrite A. simpl. destruct (Nat.eqb_spec (vsnap h) (vver s)); [congruence|auto].
Qed.

Inductive kuses (i : nat) : mop -> Prop :=
| KU_deref : kuses i (MKDeref i)
| KU_inc : kuses i (MKInc i)
| KU_addat v slot : kuses i (MAddAt i v slot)
| KU_rmki idx : kuses i (MRemoveKI i idx)
| KU_rmvals : kuses i (MRemoveValues i)
| KU_rmkey : kuses i (MRemoveKeyIt i)
| KU_reset key : kuses i (MResetKey i key)
| KU_makeit idx slot : kuses i (MMakeIt i (S idx) slot).
Inductive vuses (i : nat) : mop -> Prop :=
| VU_deref : vuses i (MVDeref i)
| VU_inc : vuses i (MVInc i)
| VU_rm : vuses i (MRemoveIt i)
| VU_chk a : vuses i (MChkIt i a).

(* a key iterator taken before a change of the key set (key version moved) is rejected by every use *)
Lemma mm_stale_key_iterator_rejected s i o :
  key_stale s (mhs s i) -> kp (mhs s i) <> KUnk -> kuses i o -> mstep s o = (s, MRej).
Proof.
  intros S NU U. destruct (key_stale_checks s _ true S) as (A & B). destruct (key_stale_checks s _ false S) as (_ & B').
  destruct U; munf; rewrite ?A, ?B, ?B'; try reflexivity.
  destruct (kp (mhs s i)); try congruence; reflexivity.
Qed.

(* a value ("pair") iterator positioned at a value is rejected by read, ++, Remove and CheckIterator as soon as EITHER
   cell moved: valueVersion (values added / removed) or the key version (the embedded key iterator: InsertKey, new key,
   RemoveKey, growth of the key table -- the situation fixed by f1f44c5) *)
Lemma mm_stale_value_iterator_rejected s i o n :
  value_stale s (mhs s i) \/ key_stale s (mhs s i) -> vp (mhs s i) = VAt n -> vuses i o -> mstep s o = (s, MRej).
Proof.
  intros S P U.
  destruct S as [S|S].
  - destruct (value_stale_checks s _ S) as (A & B).
    destruct U; munf; rewrite ?A, ?B, ?P; try reflexivity. mdm; reflexivity.
  - destruct (key_stale_checks s _ true S) as (A & B). destruct (key_stale_checks s _ a S) as (_ & B') || pose proof I as B'.
    destruct U; munf; rewrite ?A, ?B, ?P; mdm; try reflexivity.
    all: destruct (key_stale_checks s (mhs s i) a S) as (_ & B2); congruence.
Qed.

(* ---------- the key set can only change together with the key version ---------- *)
Lemma map_fst_repl k vs : forall l, map fst (repl k vs l) = map fst l.
Proof. induction l as [|(x, xs) t IH]; simpl; auto. destruct (k =? x); simpl; congruence. Qed.
Lemma mm_keys_change_bumps_key_version s o :
  kver (fst (mstep s o)) = kver s -> map fst (ents (fst (mstep s o))) = map fst (ents s).
Proof.
  destruct o; munf; mdm; cbn [fst kver ents mset mupd]; intros E; try reflexivity; try lia;
  try apply map_fst_repl.
  rewrite map_map. apply map_ext. reflexivity.
Qed.


Lemma lookup_In k : forall l, lookup k l <> None <-> In k (map fst l).
Proof.
  induction l as [|(x, xs) t IH]; simpl; [tauto|].
  destruct (Z.eqb_spec k x); subst; [split; [auto|discriminate]|].
  rewrite IH. split; [auto|]. intros [H|H]; [congruence|auto].
Qed.
Lemma In_insk k vs : forall l, In k (map fst (insk k vs l)).
Proof. induction l as [|(x, xs) t IH]; simpl; auto. destruct (k <? x); simpl; auto. Qed.

(* invariant: a key iterator whose snapshot is current points at a present key (or, for an empty position, an absent one
   is not claimed); snapshots never exceed the versions *)
Definition minv (s : mstate) : Prop :=
  forall i, kcid (mhs s i) = Some 0%nat ->
    (ksnap (mhs s i) <= kver s)%nat /\
    (ksnap (mhs s i) = kver s -> forall k, kp (mhs s i) = KElem k -> In k (map fst (ents s))).

Lemma minv_step s o : minv s -> minv (fst (mstep s o)).
Proof.
  intros I i. pose proof (mm_step_monotone s o) as (Mk & _). pose proof (mm_keys_change_bumps_key_version s o) as K.
  (* the key part of the handle in slot i after the step is that of some handle before the step (unchanged slot, or a
     value iterator built from a key iterator), or is freshly taken and accurate, or does not belong to this multimap *)
  set (s' := fst (mstep s o)) in *.
  assert (Hcase : (exists j, kcid (mhs s' i) = kcid (mhs s j) /\ ksnap (mhs s' i) = ksnap (mhs s j) /\ kp (mhs s' i) = kp (mhs s j)) \/
          (ksnap (mhs s' i) = kver s' /\ forall k, kp (mhs s' i) = KElem k -> In k (map fst (ents s'))) \/
          kcid (mhs s' i) <> Some 0%nat).
  { subst s'. destruct o; munf; mdm; cbn [fst mhs mset mupd kver ents];
      try (left; exists i; auto; fail);
      destruct (Nat.eqb i _) eqn:Ei; try (left; exists i; auto; fail);
      first [ left; eexists; cbn [kcid ksnap kp vfresh]; repeat split; reflexivity
            | right; right; cbn [kcid mnull knull]; discriminate
            | right; left; cbn [kcid ksnap kp kfresh vfresh kver mupd]; split; [reflexivity|]; intros k0 Hk; inversion Hk; subst;
              first [ apply lookup_In; congruence | apply In_insk | rewrite map_fst_repl; apply lookup_In; congruence ] ]. }
  intros Hc.
  destruct Hcase as [(j & E1 & E2 & E3)|[(F1 & F2)|F]]; [| |congruence].
  - rewrite E1 in Hc. destruct (I j Hc) as (A & B). rewrite E2, E3. split; [lia|].
    intros Es k Hk. assert (Ek : kver s' = kver s) by lia. rewrite (K Ek). apply B; auto. lia.
  - split; [lia|]. intros _. exact F2.
Qed.
Lemma minv_init : minv minit.
Proof. intros i H; discriminate. Qed.
Lemma minv_run ops : forall s, minv s -> minv (mrun s ops).
Proof. induction ops as [|o t IH]; intros s I; simpl; auto. apply IH, minv_step, I. Qed.

(* a key iterator of this multimap whose snapshot is current and which points at a key is accepted: reading it
   returns that key (which is still present), for every reachable state *)
Lemma mm_fresh_key_iterator_accepted ops i k :
  let s := mrun minit ops in
  kcid (mhs s i) = Some 0%nat -> ksnap (mhs s i) = kver s -> kp (mhs s i) = KElem k ->
  mstep s (MKDeref i) = (s, MAcc (Some k)) /\ In k (map fst (ents s)).
Proof.
  intros s Hc Hs Hp. pose proof (minv_run ops minit minv_init) as I. fold s in I.
  destruct (I i Hc) as (_ & B). specialize (B Hs k Hp). split; [|exact B].
  munf. unfold kself. rewrite Hc, Hs, Nat.eqb_refl, Hp.
  apply lookup_In in B. destruct (lookup k (ents s)); [reflexivity|congruence].
Qed.

(* non-vacuity + the f1f44c5 situation on the model: after InsertKey of a new key a value iterator is rejected by
   read and ++ although valueVersion did not move *)
Example mm_witness :
  snd (mrun_out minit [MAdd 1 10 50; MAdd 1 11 51; MFind 1 0; MMakeIt 0 0 52; MVDeref 52; MInsertKey 7 1; MVDeref 52; MVInc 52;
                       MKDeref 0; MKDeref 1; MFind 1 2; MMakeIt 2 1 53; MVDeref 53])
  = [MAcc None; MAcc None; MAcc (Some 1); MAcc None; MAcc (Some 10); MAcc (Some 1); MRej; MRej; MRej; MAcc (Some 7);
     MAcc (Some 1); MAcc None; MAcc (Some 11)].
Proof. vm_compute. reflexivity. Qed.

(* ---------- value indices ---------- *)
(* Remove(keyIter, valueIndex): MOMO_CHECK(valueIndex < keyIter->GetCount()) -- an index >= the number of values of the key
   (valueIndex = count is the boundary; in particular index 0 on a key without values) is rejected and nothing changes;
   MakeIterator(keyIter, valueIndex) legitimately allows valueIndex = count (MOMO_CHECK(valueIndex <= count)) and rejects
   anything larger. *)
Lemma mm_value_index_out_of_range_rejected s sk idx k vs :
  kderef s (mhs s sk) = Some (Some (k, vs)) ->
  ((length vs <= idx)%nat -> mstep s (MRemoveKI sk idx) = (s, MRej)) /\
  ((length vs < idx)%nat -> forall slot, kp (mhs s sk) <> KUnk -> mstep s (MMakeIt sk idx slot) = (s, MRej)).
Proof.
  intros D. split.
  - intros H. cbn [mstep]; cbv zeta. rewrite D. destruct (Nat.ltb_spec idx (length vs)); [lia|reflexivity].
  - intros H slot NU. cbn [mstep]; cbv zeta. rewrite D.
    destruct (Nat.leb_spec idx (length vs)); [lia|].
    destruct (kp (mhs s sk)) eqn:P; try congruence; destruct idx; try lia; destruct (kcont s (mhs s sk) true); reflexivity.
Qed.
(* the boundary: with a current key iterator, index count-1 is removed (valueVersion + 1), index count is rejected *)
Lemma mm_value_index_boundary s sk k vs :
  kderef s (mhs s sk) = Some (Some (k, vs)) -> kcont s (mhs s sk) true = true -> vs <> [] ->
  mstep s (MRemoveKI sk (length vs)) = (s, MRej) /\
  snd (mstep s (MRemoveKI sk (length vs - 1))) = MAcc None /\
  vver (fst (mstep s (MRemoveKI sk (length vs - 1)))) = S (vver s).
Proof.
  intros D C NE. assert (0 < length vs)%nat by (destruct vs; [congruence|simpl; lia]).
  cbn [mstep]; cbv zeta. rewrite D, C, Nat.ltb_irrefl.
  destruct (Nat.ltb_spec (length vs - 1) (length vs)); [|lia]. repeat split.
Qed.

(* ---------- fresh VALUE iterators ---------- *)
Definition tv (l : list (Z * list Z)) : nat := fold_right (fun e a => (length (snd e) + a)%nat) 0%nat l.
Lemma filter_length_le (f : Z -> bool) l : (length (filter f l) <= length l)%nat.
Proof. induction l as [|x t IH]; simpl; auto. destruct (f x); simpl; lia. Qed.
Lemma filter_length_eq (f : Z -> bool) l : length (filter f l) = length l -> filter f l = l.
Proof.
  induction l as [|x t IH]; simpl; auto. destruct (f x); simpl; intros H.
  - f_equal. apply IH. lia.
  - pose proof (filter_length_le f t). lia.
Qed.
Lemma tv_map_le (f : Z -> bool) l : (tv (map (fun e => (fst e, filter f (snd e))) l) <= tv l)%nat.
Proof. induction l as [|(k, vs) t IH]; simpl; auto. pose proof (filter_length_le f vs). lia. Qed.
Lemma tv_map_eq (f : Z -> bool) l :
  tv (map (fun e => (fst e, filter f (snd e))) l) = tv l -> map (fun e => (fst e, filter f (snd e))) l = l.
Proof.
  induction l as [|(k, vs) t IH]; simpl; auto. intros H.
  pose proof (filter_length_le f vs). pose proof (tv_map_le f t).
  f_equal; [f_equal; apply filter_length_eq; lia|apply IH; lia].
Qed.

(* nothing at all changes unless one of the two versions moves *)
Lemma mm_contents_change_bumps s o :
  kver (fst (mstep s o)) = kver s -> vver (fst (mstep s o)) = vver s -> ents (fst (mstep s o)) = ents s.
Proof.
  destruct o; munf; mdm; cbn [fst kver vver ents mset mupd]; intros E1 E2; try reflexivity; try lia.
  apply tv_map_eq. unfold total_values in E2. fold (tv (ents s)) in E2.
  match type of E2 with context [fold_right _ _ (map ?F (ents s))] => fold (tv (map F (ents s))) in E2 end.
  pose proof (tv_map_le (fun v : Z => negb (v mod m =? 0)) (ents s)). lia.
Qed.

Lemma lookup_repl_same k vs : forall l, lookup k l <> None -> lookup k (repl k vs l) = Some vs.
Proof.
  induction l as [|(x, xs) t IH]; simpl; [congruence|]. destruct (Z.eqb_spec k x); subst; simpl.
  - rewrite Z.eqb_refl. reflexivity.
  - intros H. destruct (Z.eqb_spec k x); [congruence|]. apply IH, H.
Qed.
Lemma lookup_insk_same k vs : forall l, lookup k l = None -> lookup k (insk k vs l) = Some vs.
Proof.
  induction l as [|(x, xs) t IH]; simpl; intros H.
  - rewrite Z.eqb_refl. reflexivity.
  - destruct (Z.eqb_spec k x); [discriminate|]. destruct (k <? x); simpl.
    + rewrite Z.eqb_refl. reflexivity.
    + destruct (Z.eqb_spec k x); [congruence|]. apply IH, H.
Qed.

(* position accuracy of a value iterator (independent of freshness) *)
Definition vacc (s : mstate) (h : mhandle) : Prop :=
  forall k n, kp h = KElem k -> vp h = VAt n -> exists vs, lookup k (ents s) = Some vs /\ (n < length vs)%nat.

(* snapshots never exceed the versions *)
Definition msnap (s : mstate) : Prop :=
  forall i, (kcid (mhs s i) = Some 0%nat -> (ksnap (mhs s i) <= kver s)%nat) /\
            (vcid (mhs s i) = Some 0%nat -> (vsnap (mhs s i) <= vver s)%nat).
Lemma msnap_step s o : msnap s -> msnap (fst (mstep s o)).
Proof.
  intros I i. pose proof (mm_step_monotone s o) as (Mk & Mv). destruct (I i) as (Ai & Bi).
  destruct o; munf; mdm; cbn [fst mhs mset mupd kver vver] in *;
    try (split; intros; [apply Ai in H|apply Bi in H]; lia);
    destruct (Nat.eqb i _) eqn:Ei; try (split; intros; [apply Ai in H|apply Bi in H]; lia);
    cbn [kcid ksnap vcid vsnap vfresh kfresh mnull knull kver vver mupd]; split; intros H; try discriminate H; try lia;
    match goal with |- context [ksnap (mhs s ?j)] => destruct (I j) as (Aj & Bj); first [apply Aj in H; lia | apply Bj in H; lia]
                  | |- context [vsnap (mhs s ?j)] => destruct (I j) as (Aj & Bj); first [apply Bj in H; lia | apply Aj in H; lia] end.
Qed.

Definition minv2 (s : mstate) : Prop :=
  forall i, kcid (mhs s i) = Some 0%nat -> vcid (mhs s i) = Some 0%nat ->
    ksnap (mhs s i) = kver s -> vsnap (mhs s i) = vver s -> vacc s (mhs s i).

Lemma kderef_elem s h k vs : kderef s h = Some (Some (k, vs)) -> kcid h = Some 0%nat -> kp h = KElem k /\ lookup k (ents s) = Some vs.
Proof.
  unfold kderef. intros H C. rewrite C in H. destruct (kself s h); [|discriminate].
  destruct (kp h); try discriminate. destruct (lookup k0 (ents s)) eqn:E; inversion H; subst. auto.
Qed.

Lemma minv2_step s o : msnap s -> minv2 s -> minv2 (fst (mstep s o)).
Proof.
  intros SN I i. set (s' := fst (mstep s o)).
  pose proof (mm_step_monotone s o) as (Mk & Mv). pose proof (mm_contents_change_bumps s o) as C. fold s' in Mk, Mv, C.
  assert (Hcase : mhs s' i = mhs s i \/ vacc s' (mhs s' i) \/
          (kcid (mhs s' i) <> Some 0%nat \/ vcid (mhs s' i) <> Some 0%nat)).
  { subst s'. destruct o; cbn [mstep]; unfold remove_value; cbv zeta; mdm; cbn [fst mhs mset mupd kver vver ents];
      try (left; reflexivity);
      destruct (Nat.eqb i _) eqn:Ei; try (left; reflexivity);
      try (right; right; cbn [kcid vcid mnull knull kfresh]; first [left; discriminate | right; discriminate]).
    all: try match goal with H : kderef _ ?h = Some (Some (_, _)) |- _ =>
               destruct (kcid h) as [[|c]|] eqn:KC;
               [destruct (kderef_elem _ _ _ _ H KC) as (HP & HL)
               | right; right; left; cbn [kcid vfresh]; rewrite ?KC; discriminate ..] end.
    all: right; left.
    all: intros k0 n0 Hk Hn; cbn [kp vp vfresh kfresh ents mset mupd] in *; try (rewrite HP in Hk); inversion Hk; inversion Hn; subst.
    all: try (eexists; split; [eassumption|]; first [apply Nat.ltb_lt; assumption | lia]).
    all: try (eexists; split; [apply lookup_repl_same; congruence|]; rewrite app_length; simpl; lia).
    all: try (eexists; split; [apply lookup_insk_same; assumption|]; simpl; lia). }
  intros Hk Hv E1 E2.
  destruct Hcase as [E|[A|[F|F]]]; try congruence; [|exact A].
  rewrite E in *. destruct (SN i) as (S1 & S2). specialize (S1 Hk). specialize (S2 Hv).
  assert (K1 : kver s' = kver s) by lia. assert (K2 : vver s' = vver s) by lia.
  intros k n P1 P2. destruct (I i Hk Hv ltac:(lia) ltac:(lia) k n P1 P2) as (vs & L & N). exists vs. rewrite (C K1 K2). auto.
Qed.

Lemma msnap_init : msnap minit.
Proof. intros i; split; intros H; discriminate. Qed.
Lemma minv2_init : minv2 minit.
Proof. intros i H; discriminate. Qed.
Lemma minv2_run ops : forall s, msnap s -> minv2 s -> msnap (mrun s ops) /\ minv2 (mrun s ops).
Proof.
  induction ops as [|o t IH]; intros s A B; simpl; auto. apply IH; [apply msnap_step|apply minv2_step]; auto.
Qed.

(* for every history from the empty multimap: a value (pair) iterator of this multimap whose two snapshots are current
   and which is positioned at a value still has its index inside the key's value array; reading it returns that value
   and ++ is accepted *)
Lemma mm_fresh_value_iterator_accepted ops i k n :
  let s := mrun minit ops in
  kcid (mhs s i) = Some 0%nat -> vcid (mhs s i) = Some 0%nat ->
  ksnap (mhs s i) = kver s -> vsnap (mhs s i) = vver s -> kp (mhs s i) = KElem k -> vp (mhs s i) = VAt n ->
  exists vs, lookup k (ents s) = Some vs /\ (n < length vs)%nat /\
             mstep s (MVDeref i) = (s, MAcc (Some (nth n vs 0))) /\ snd (mstep s (MVInc i)) = MAcc None.
Proof.
  intros s Hk Hv E1 E2 P1 P2. destruct (minv2_run ops minit msnap_init minv2_init) as (_ & I). fold s in I.
  destruct (I i Hk Hv E1 E2 k n P1 P2) as (vs & L & N). exists vs. repeat split; auto.
  - munf. unfold vself, kself. rewrite Hv, E2, Nat.eqb_refl, P2, Hk, E1, Nat.eqb_refl, P1, L. reflexivity.
  - munf. unfold vself, kself. rewrite Hv, E2, Nat.eqb_refl, P2, Hk, E1, Nat.eqb_refl, P1, L. reflexivity.
Qed.

(* ---------- the exact accepted-set of the code ---------- *)
(* for every history: reading a value iterator of this multimap positioned at a value is accepted IF AND ONLY IF both
   cells are still at the values it recorded (no key-version-bumping and no valueVersion-bumping entry point ran) *)
Lemma mm_value_iterator_accepted_iff_versions_unchanged ops i k n :
  let s := mrun minit ops in
  kcid (mhs s i) = Some 0%nat -> vcid (mhs s i) = Some 0%nat -> kp (mhs s i) = KElem k -> vp (mhs s i) = VAt n ->
  ((exists v, mstep s (MVDeref i) = (s, MAcc (Some v))) <-> (ksnap (mhs s i) = kver s /\ vsnap (mhs s i) = vver s)) /\
  (mstep s (MVDeref i) = (s, MRej) <-> ~ (ksnap (mhs s i) = kver s /\ vsnap (mhs s i) = vver s)).
Proof.
  intros s Hk Hv P1 P2.
  assert (F : ksnap (mhs s i) = kver s /\ vsnap (mhs s i) = vver s -> exists v, mstep s (MVDeref i) = (s, MAcc (Some v))).
  { intros (E1 & E2). destruct (mm_fresh_value_iterator_accepted ops i k n Hk Hv E1 E2 P1 P2) as (vs & _ & _ & D & _). eauto. }
  assert (S : ~ (ksnap (mhs s i) = kver s /\ vsnap (mhs s i) = vver s) -> mstep s (MVDeref i) = (s, MRej)).
  { intros N. apply (mm_stale_value_iterator_rejected s i (MVDeref i) n); [|exact P2|constructor].
    destruct (Nat.eq_dec (vsnap (mhs s i)) (vver s)) as [e|e].
    - right. split; [exact Hk|]. intros E. apply N. split; assumption.
    - left. split; assumption. }
  split; split; auto.
  - intros (v & E). destruct (Nat.eq_dec (ksnap (mhs s i)) (kver s)), (Nat.eq_dec (vsnap (mhs s i)) (vver s)); auto;
      exfalso; rewrite S in E by tauto; discriminate.
  - intros E N. destruct (F N) as (v & E2). congruence.
Qed.

(* over-invalidation witness: RemoveValues on a key that has no values changes nothing but bumps valueVersion *)
Example mm_noop_remove_values_invalidates :
  let pre := [MInsertKey 1 0; MAdd 2 20 10; MFind 1 1; MFind 2 2; MMakeIt 2 0 11] in
  ents (mrun minit pre) = ents (mrun minit (pre ++ [MRemoveValues 1])) /\
  snd (mstep (mrun minit pre) (MVDeref 11)) = MAcc (Some 20) /\
  snd (mstep (mrun minit (pre ++ [MRemoveValues 1])) (MVDeref 11)) = MRej.
Proof. vm_compute. repeat split. Qed.
