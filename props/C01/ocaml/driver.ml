(* C01 model driver: one case per line, one result line per case (same format as harness*.cpp).
   script case:  <name> <cap> <wf0> <wfThr> <probing> <bound> <pol> <logStart> <hash> | op op op ...
   leaf cases :  cap <pol> <maxCount> <log>            -> CalcCapacity(2^log) shift
                 idx <probing> <hashCode> <log> <idx> <probe>  -> start next
   All model arithmetic is the extracted Coq code; this file only parses, sequences composite operations
   (extract+reinsert, swap, MergeTo over two containers) and prints. *)
open Zutil
open HashModel
open HashInst

let z = z_of_string
let sz = string_of_z
let two_pow l = BinInt.Z.pow (z_of_int 2) l

let show_items l =
  let l = List.map (fun (k, v) -> (zarith_of_z k, zarith_of_z v)) l in
  let l = List.sort compare l in
  "{" ^ String.concat "," (List.map (fun (k, v) -> Z.to_string k ^ ":" ^ Z.to_string v) l) ^ "}"

let show_out = function
  | RBool true -> "1" | RBool false -> "0"
  | ROpt None -> "-" | ROpt (Some v) -> sz v
  | RList l -> show_items l
  | RNum n -> sz n
  | RExn -> "X" | RUnit -> "u"

let show_shape sh =
  String.concat " " (List.map (fun (log, bs) ->
    "g" ^ sz log ^ ":" ^ String.concat ";" (List.map (fun ((ks, wf), bd) ->
      String.concat "," (List.map sz ks) ^ "|" ^ (if wf then "1" else "0") ^ "|" ^ sz bd) bs)) sh)

let run_script cfgw ops =
  match cfgw with
  | [_name; cap; wf0; thr; probing; bound; pol; logstart; hash] ->
    let c = { c_cap = z cap; c_wf0 = (wf0 = "1"); c_wfThr = z thr; c_probing = z probing; c_bound = z bound; c_pol = z pol;
              c_logStart = z logstart; c_hash = z hash } in
    if not (HashInstProofs.cfg_valid_b c) then print_endline "?cfg-outside-the-proved-class" else
    let w = ref winit_cfg in
    let buf = Buffer.create 256 in
    let emit x = if Buffer.length buf > 0 then Buffer.add_char buf ' '; Buffer.add_string buf x in
    let ws o = let (w', x) = wstep_cfg c !w o in w := w'; x in
    let st o = ws (WA o) in
    let all () = match st OTraverse with RList l -> l | _ -> [] in
    let rec go = function
      | [] -> ()
      | "I" :: k :: v :: r -> emit (show_out (st (OInsert (z k, z v, None)))); go r
      | "A" :: k :: v :: r -> emit (show_out (st (OAddAt (z k, z v)))); go r
      | ("IF" | "IC") :: k :: v :: r -> emit (match st (OInsertFail (z k, z v)) with RExn -> "Xf" | x -> show_out x); go r
      | "Z" :: k :: v :: r -> emit (match st (OInsertNoMem (z k, z v)) with RExn -> "Xz" | x -> show_out x); go r
      | "J" :: k :: v :: n :: r -> emit (show_out (st (OInsert (z k, z v, Some (nat_of_int (int_of_string n)))))); go r
      | "F" :: k :: r -> emit (show_out (st (OFind (z k)))); go r
      | ("R" | "P") :: k :: r -> emit (show_out (st (ORemove (z k)))); go r
      | "D" :: m :: q :: r -> emit (show_out (st (ORemoveIf (z m, z q)))); go r
      | "E" :: k :: r ->
        (match st (OFind (z k)) with
         | ROpt (Some v) -> ignore (st (ORemove (z k))); ignore (st (OInsert (z k, v, None))); emit "1"
         | _ -> emit "0"); go r
      | "X" :: k :: r -> emit (show_out (ws (WExtract (z k)))); go r
      | "Q" :: r -> emit (show_out (ws WInsertExt)); go r
      | "K" :: k :: v :: r -> emit (show_out (st (OSetVal (z k, z v)))); go r
      | "V" :: n :: r -> emit (show_out (st (OReserve (z n, None)))); go r
      | "W" :: n :: b :: r -> emit (show_out (st (OReserve (z n, Some (nat_of_int (int_of_string b)))))); go r
      | "C" :: f :: r -> emit (show_out (st (OClear (f = "1")))); go r
      | "B" :: f :: r -> emit (show_out (ws (WB (OClear (f = "1"))))); go r
      | "T" :: r -> emit (show_out (st OTraverse)); go r
      | "U" :: r -> emit (show_out (ws (WB OTraverse))); go r
      | "L" :: m :: q :: r ->
        (* explicit iterator loop: it = GetBegin(); while (it) { if (pred) it = Remove(it); else ++it; }  on the iterator machine *)
        let md = z m and rq = z q in
        let it = ref (it_begin_cfg !w.wa) and cnt = ref 0 and seen = ref [] in
        let continue = ref true in
        while !continue do
          match it_get_cfg !w.wa !it with
          | None -> continue := false
          | Some (k, _) ->
            seen := sz k :: !seen;
            if Z.equal (Z.erem (zarith_of_z k) (zarith_of_z md)) (zarith_of_z rq) then begin
              let (s', it') = it_remove_cfg c !w.wa !it in
              w := { !w with wa = s' }; it := it'; incr cnt end
            else it := it_next_cfg !w.wa !it
        done;
        emit (string_of_int !cnt ^ "[" ^ String.concat ";" (List.rev !seen) ^ "]"); go r
      | "O" :: r ->
        (* the exact iteration order, produced by the iterator machine (it_begin / it_get / it_next) *)
        let l = (let acc = ref [] and it = ref (it_begin_cfg !w.wa) and go_on = ref true in
                 while !go_on do
                   match it_get_cfg !w.wa !it with
                   | None -> go_on := false
                   | Some x -> acc := x :: !acc; it := it_next_cfg !w.wa !it
                 done; List.rev !acc) in
        emit ("[{" ^ String.concat "," (List.map (fun (k, v) -> sz k ^ ":" ^ sz v) l) ^ "}]"); go r
      | "N" :: r -> emit (show_out (st OCount)); go r
      | "Y" :: r -> emit (show_out (st OCopy)); go r
      | "M" :: r -> emit (show_out (ws WMoveAB)); go r
      | "S" :: r -> emit (show_out (ws WSwap)); go r
      | "G" :: r -> emit (show_out (ws WMergeAB)); go r
      | "H" :: r -> emit (show_shape (shape_cfg c !w.wa)); go r
      | x :: _ -> emit ("?" ^ x)
    in
    go ops; print_endline (Buffer.contents buf)
  | _ -> print_endline "?cfg"

let () = iter_lines (fun line ->
  match words line with
  | ["cap"; pol; mc; log] ->
    let bc = two_pow (z log) in
    Printf.printf "%s %s\n" (sz (calc_capacity (z pol) (z mc) bc)) (sz (shift_fn (z pol) (z mc) bc))
  | "n1" :: "41" :: n :: sk :: ops ->
    (* the generated BucketLimP1 AddCrt / Remove (item pointer = scalar, pool blocks = fresh non-null values) *)
    let mc = z n and skip = (sk = "1") in
    let (st0, p0) = Gen_LimP1_ops.pvSet (z "0") (z "0") (z "0") (Gen_LimP1_ops.pvGetMemPoolIndex_of skip (z "1")) (z "0") in
    let st = ref st0 and ptr = ref p0 in
    let next_mem = ref 1000 in
    let buf = Buffer.create 64 in
    Buffer.add_string buf (sz !st);
    let b2 b = if b then "1" else "0" in
    let nn p = if int_of_z p = 0 then "0" else "1" in
    List.iter (fun o ->
      let arg = if String.length o > 1 then z (String.sub o 1 (String.length o - 1)) else z "0" in
      let did = ref true in
      (match o.[0] with
       | 'a' -> if Gen_LimP1_ops.coq_IsFull mc !st !ptr then did := false else begin
                  next_mem := !next_mem + 1000;
                  let m = z (string_of_int !next_mem) in
                  (match Gen_LimP1_ops.coq_AddCrt skip !st !ptr m m with
                   | GenPrelude.Ok ((pos, a), p) -> st := a; ptr := p;
                     Buffer.add_string buf (" a" ^ sz a ^ ":" ^ nn p ^ ":" ^ Z.to_string (Z.sub (zarith_of_z pos) (zarith_of_z p)))
                   | _ -> Buffer.add_string buf " a!") end
       | 'r' -> if Z.geq (zarith_of_z arg) (zarith_of_z (Gen_LimP1_ops.pvGetCount !st !ptr)) then did := false else
                  (match Gen_LimP1_ops.coq_Remove skip mc !st !ptr (z_of_zarith (Z.add (zarith_of_z !ptr) (zarith_of_z arg))) with
                   | GenPrelude.Ok ((r, a), p) -> st := a; ptr := p;
                     Buffer.add_string buf (" r" ^ sz a ^ ":" ^ nn p ^ ":" ^ (if int_of_z r = 0 then "n" else Z.to_string (Z.sub (zarith_of_z r) (zarith_of_z p))))
                   | _ -> Buffer.add_string buf " r!")
       | _ -> did := false);
      if !did then Buffer.add_string buf (" f" ^ b2 (Gen_LimP1_ops.coq_IsFull mc !st !ptr) ^ b2 (Gen_LimP1_ops.coq_WasFull skip mc !st !ptr))) ops;
    print_endline (Buffer.contents buf)
  | "n1" :: "40" :: hh :: ops ->
    (* the generated BucketLimP4 AddCrt / Remove / Clear (pointer state = two scalars, pool memories = opaque non-null values) *)
    let h = z hh and mm = z "2" in
    let s = ref (Gen_P4.pvSetEmpty h (fun _ -> z "0") mm) and ptr = ref (z "0") and stt = ref (z "1") in
    let next_mem = ref 100 in
    List.iter (fun o ->
      let arg = if String.length o > 1 then z (String.sub o 1 (String.length o - 1)) else z "0" in
      let cnt () = int_of_z (Gen_P4.pvGetCount !s) in
      match o.[0] with
      | 'a' -> if cnt () < 4 then begin
                 let m () = incr next_mem; z (string_of_int !next_mem) in
                 let pr = z_of_zarith (Z.logand (Z.shift_right (zarith_of_z arg) 8) (Z.of_int 7)) in
                 (match Gen_P4A.coq_AddCrt h mm !s !ptr !stt arg (z "4") pr (m ()) (m ()) (m ()) (m ()) (m ()) (m ()) (m ()) (m ()) (m ()) (m ()) with
                  | GenPrelude.Ok (((_, a), p), st) -> s := a; ptr := p; stt := st | _ -> ()) end
      | 'r' -> let j = int_of_z arg in
               if j < cnt () then
                 (match Gen_P4A.coq_Remove h mm !s !ptr !stt !ptr arg with
                  | GenPrelude.Ok (((_, a), p), st) -> s := a; ptr := p; stt := st | _ -> ())
      | 'c' -> let ((a, p), st) = Gen_P4A.coq_Clear h mm !s !ptr !stt in s := a; ptr := p; stt := st
      | _ -> ()) ops;
    let hn = int_of_string hh in
    print_endline (String.concat " " ([hh] @ List.init hn (fun i -> sz (!s (z (string_of_int i)))) @ [sz !stt; (if int_of_z !ptr = 0 then "0" else "1")]))
  | "n1" :: n :: _ :: ops when int_of_string n >= 30 ->
    (* the generated BucketOpen2N2 byte operations (symbolic maxCount = n - 30) *)
    let m = int_of_string n - 30 in
    let mc = z (string_of_int m) in
    let zero = (fun _ -> z "0") in
    let (st0, sh0) = Gen_Open2N2_ops.pvSetEmpty mc zero zero zero in
    let st = ref st0 and sh = ref sh0 and hp = ref zero in
    List.iter (fun o ->
      let arg = if String.length o > 1 then z (String.sub o 1 (String.length o - 1)) else z "0" in
      let cnt () = int_of_z (Gen_Open2N2_ops.pvGetCount !st !sh !hp) in
      match o.[0] with
      | 'a' -> if not (Gen_Open2N2_ops.coq_IsFull !st !sh !hp) then
                 let pr = z_of_zarith (Z.logand (Z.shift_right (zarith_of_z arg) 8) (Z.of_int 7)) in
                 (match Gen_Open2N2_ops.coq_AddCrt mc !st !sh !hp arg (z "4") pr (z "0") with
                  | GenPrelude.Ok (((_, a), b), c) -> st := a; sh := b; hp := c | _ -> ())
      | 'r' -> let j = int_of_z arg in
               if j < cnt () then
                 (match Gen_Open2N2_ops.coq_Remove mc !st !sh !hp (z (string_of_int (m - 1 - j))) with
                  | GenPrelude.Ok (((_, a), b), c) -> st := a; sh := b; hp := c | _ -> ())
      | 'c' -> let (a, b) = Gen_Open2N2_ops.pvSetEmpty mc !st !sh !hp in st := a; sh := b
      | 'u' -> (match Gen_Open2N2.coq_UpdateMaxProbe !st arg with GenPrelude.Ok (_, a) -> st := a | _ -> ())
      | _ -> ()) ops;
    let zi i = z (string_of_int i) in
    let c = int_of_z (Gen_Open2N2_ops.pvGetCount !st !sh !hp) in
    print_endline (String.concat " " ([sz (!st (zi 0)); sz (!st (zi 1))] @ List.init m (fun i -> sz (!sh (zi i)))
      @ List.init m (fun i -> if i >= m - c then sz (!hp (zi i)) else "-")))
  | "n1" :: n :: rv :: ops ->
    (* the generated BucketOpenN1 byte operations, applied to mData as a function Z -> Z *)
    let mc = z n and rev = (rv = "1") in
    let d = ref (Gen_OpenN1_ops.pvSetEmpty mc (fun _ -> z "0")) in
    List.iter (fun o ->
      let arg = if String.length o > 1 then z (String.sub o 1 (String.length o - 1)) else z "0" in
      match o.[0] with
      | 'a' -> if not (Gen_OpenN1_ops.coq_IsFull rev mc !d) then
                 (match Gen_OpenN1_ops.coq_AddCrt rev mc !d arg (z "0") with GenPrelude.Ok (_, d') -> d := d' | _ -> ())
      | 'r' -> if Z.lt (zarith_of_z arg) (zarith_of_z (Gen_OpenN1_ops.pvGetCount rev mc !d)) then
                 (match Gen_OpenN1_ops.coq_Remove rev mc !d arg with GenPrelude.Ok (_, d') -> d := d' | _ -> ())
      | 'c' -> d := Gen_OpenN1_ops.pvSetEmpty mc !d
      | 'u' -> (match Gen_OpenN1.coq_UpdateMaxProbe mc !d arg with GenPrelude.Ok (_, d') -> d := d' | _ -> ())
      | _ -> ()) ops;
    print_endline (String.concat " " (List.init (int_of_string n + 1) (fun i -> sz (!d (z (string_of_int i))))))
  | "kf" :: which :: args ->
    let b2s b = if b then "1" else "0" in
    let four = z "4" in
    (match which, args with
     | "0", [st] -> let st = z st in
       Printf.printf "%s %s %s %s\n" (sz (Gen_LimP1t.pvGetCount st)) (sz (Gen_LimP1t.pvGetMemPoolIndex st))
         (b2s (Gen_LimP1t.coq_IsFull four st)) (b2s (Gen_LimP1t.coq_WasFull four st))
     | "1", [c] -> print_endline (sz (Gen_LimP1t.pvGetMemPoolIndexOf (z c)))
     | "2", [v] -> let st = if v = "0" then Gen_Lim4.stateNull else if v = "1" then Gen_Lim4.stateNullWasFull else z v in
       print_endline (b2s (Gen_Lim4.coq_WasFull st))
     | "3", [p; i; c] -> let st = Gen_Lim4.pvSet (z "0") (z p) (z i) (z c) in
       Printf.printf "%s %s\n" (sz st) (sz (Gen_Lim4.pvGetMemPoolIndex st))
     | "4", [v] -> let st = if v = "0" then Gen_LimP.stateNull else if v = "1" then Gen_LimP.stateNullWasFull else z v in
       print_endline (b2s (Gen_LimP.coq_WasFull st))
     | "6", [hc] ->
       let show st = Printf.sprintf "%s %s %s" (sz st) (b2s (Gen_One.coq_IsFull st)) (b2s (Gen_One.coq_WasFull st)) in
       let s1 = (match Gen_One.coq_AddCrt (z "0") (z hc) with GenPrelude.Ok (_, s) -> s | _ -> z "-1") in
       let s2 = (match Gen_One.coq_Remove s1 (z "0") (z "0") with GenPrelude.Ok (_, s) -> s | _ -> z "-1") in
       print_endline (show s1 ^ " " ^ show s2 ^ " " ^ show (Gen_One.coq_Clear s2))
     | "5", [c] -> print_endline (sz (Gen_LimP.pvGetMemPoolIndexOf (z c)))
     | _ -> print_endline "?kf")
  | "o8" :: sh :: bytes ->
    (* BucketOpen8::Find (SSE2): order of the itemPred calls = visit (movemask bytes sh) *)
    let m = Open8Match.movemask (List.map z bytes) (z sh) in
    print_endline (String.concat "," (List.map sz (Open8Match.visit (nat_of_int 8) m)))
  | ["sh"; kind; hc] ->
    let f = if kind = "0" then Gen_LimP4.pvCalcShortHash else if kind = "1" then Gen_Open2N2.pvCalcShortHash else if kind = "3" then Gen_Open2N2w.pvCalcShortHash else Gen_OpenN1.ptCalcShortHash in
    print_endline (sz (f (z hc)))
  | ["idx"; probing; hc; log; idx; probe] ->
    let bc = two_pow (z log) in
    Printf.printf "%s %s\n" (sz (start_fn (z hc) bc)) (sz (next_fn (z probing) (z idx) bc (z probe)))
  | ws ->
    let rec split acc = function
      | "|" :: r -> (List.rev acc, r)
      | x :: r -> split (x :: acc) r
      | [] -> (List.rev acc, []) in
    let (cfgw, ops) = split [] ws in
    run_script cfgw ops)
