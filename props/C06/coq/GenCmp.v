(* C06 - relational operators of the ordered wrappers and of vector, insert(node&&) / extract(key), merge: REGENERATED.
   The relational operators are bare calls of std::equal / std::lexicographical_compare (vector ==: Array::IsEqual) with exactly the
   arguments (begin, end of left; begin [, end] of right); the four derived operators are the usual one-liners. *)
From Coq Require Import List ZArith Bool Lia Arith.
From C06 Require Import Spec SpecProofs WrapOrdered GenPrims GenRefine GenNode.
From C06 Require Gen_SetCmp Gen_SetCmpD Gen_MapCmp Gen_MapCmpD Gen_VecCmp Gen_VecCmpD Gen_SetNodeIns Gen_USetNodeIns Gen_MapNodeIns Gen_UMapNodeIns Gen_SetMerge.
Import ListNotations.
Local Open Scope Z_scope.

(* std::equal(first1, last1, first2): compares [first1,last1) with the equally long prefix starting at first2 *)
Fixpoint prefix_eqb (l r : list elem) : bool :=
  match l, r with
  | [], _ => true
  | x :: t, y :: u => elem_eqb x y && prefix_eqb t u
  | _ :: _, [] => false
  end.
Lemma prefix_eqb_same_length l r : length l = length r -> prefix_eqb l r = list_eqb l r.
Proof. revert r; induction l as [|x t IH]; destruct r as [|y u]; simpl; intros H; try discriminate; auto. rewrite IH by lia. reflexivity. Qed.
Lemma list_eqb_length l r : list_eqb l r = true -> length l = length r.
Proof. intros H. apply list_eqb_spec in H. subst; reflexivity. Qed.

Section Cmp.
Variable l r : list elem.
(* container ids 0 (left list l) and 1 (right list r); begin(c) = 2c, end(c) = 2c+1 *)
Definition c_size (c : Z) : Z := Z.of_nat (length (if c =? 0 then l else r)).
Definition c_begin (c : Z) : Z := 2 * c.
Definition c_end (c : Z) : Z := 2 * c + 1.
Definition c_list (b : Z) : list elem := if b =? 0 then l else r.      (* the sequence starting at begin(c) = 2c *)
Definition c_equal (b1 e1 b2 : Z) : bool := (e1 =? b1 + 1) && prefix_eqb (c_list (b1 / 2)) (c_list (b2 / 2)).
Definition c_lex (b1 e1 b2 e2 : Z) : bool := (e1 =? b1 + 1) && (e2 =? b2 + 1) && lex_ltb (c_list (b1 / 2)) (c_list (b2 / 2)).
Definition g_eq (a b : Z) : bool := Gen_SetCmp.op_eq c_size c_begin c_end c_equal a b.
Definition g_lt (a b : Z) : bool := Gen_SetCmp.op_lt c_begin c_end c_lex a b.
Definition g_le (a b : Z) : bool := Gen_SetCmpD.op_le g_lt a b.

Lemma gen_op_eq_is_list_eqb : g_eq 0 1 = list_eqb l r.
Proof.
  unfold g_eq, Gen_SetCmp.op_eq, c_size, c_begin, c_end, c_equal, c_list. simpl.
  destruct (Z.eqb_spec (Z.of_nat (length l)) (Z.of_nat (length r))) as [E|E]; simpl.
  - apply prefix_eqb_same_length. lia.
  - destruct (list_eqb l r) eqn:L; auto. apply list_eqb_length in L. lia.
Qed.
Lemma gen_op_lt_is_lex_ltb : g_lt 0 1 = lex_ltb l r /\ g_lt 1 0 = lex_ltb r l.
Proof. split; reflexivity. Qed.

(* all six operators as the wrapper derives them = Spec.cmp6 *)
Theorem gen_cmp6 :
  [g_eq 0 1; Gen_SetCmpD.op_ne g_eq 0 1; g_lt 0 1; Gen_SetCmpD.op_le g_lt 0 1; Gen_SetCmpD.op_gt g_lt 0 1; Gen_SetCmpD.op_ge g_le 0 1] = cmp6 l r.
Proof.
  unfold cmp6, Gen_SetCmpD.op_ne, Gen_SetCmpD.op_le, Gen_SetCmpD.op_gt, Gen_SetCmpD.op_ge, g_le, Gen_SetCmpD.op_le.
  rewrite gen_op_eq_is_list_eqb. destruct gen_op_lt_is_lex_ltb as [A B]. rewrite A, B. reflexivity.
Qed.
End Cmp.

Lemma map_cmp_same_code : Gen_MapCmp.op_eq = Gen_SetCmp.op_eq /\ Gen_MapCmp.op_lt = Gen_SetCmp.op_lt /\
  Gen_MapCmpD.op_ne = Gen_SetCmpD.op_ne /\ Gen_MapCmpD.op_gt = Gen_SetCmpD.op_gt /\ Gen_MapCmpD.op_le = Gen_SetCmpD.op_le /\ Gen_MapCmpD.op_ge = Gen_SetCmpD.op_ge.
Proof. repeat split; reflexivity. Qed.
Lemma vec_cmp_same_code : Gen_VecCmp.op_lt = Gen_SetCmp.op_lt /\
  Gen_VecCmpD.op_ne = Gen_SetCmpD.op_ne /\ Gen_VecCmpD.op_gt = Gen_SetCmpD.op_gt /\ Gen_VecCmpD.op_le = Gen_SetCmpD.op_le /\ Gen_VecCmpD.op_ge = Gen_SetCmpD.op_ge.
Proof. repeat split; reflexivity. Qed.
(* vector == is a bare forward to Array::IsEqual (C05) *)
Lemma vec_eq_forwards array_is_equal a b : Gen_VecCmp.op_eq array_is_equal a b = array_is_equal a b.
Proof. reflexivity. Qed.

(* ---------- insert(node_type&&) and extract(key) ---------- *)
(* nested Insert result encoded as 2 * position + inserted *)
Section NodeIns.
Variable multi : bool.
Variable l : list elem.
Definition r_enc (p : nat * bool * list elem) : Z := let '(i, ins, _) := p in 2 * Z.of_nat i + (if ins then 1 else 0).
Definition gen_set_insert_node (node : option elem) : Z * bool * Z :=
  Gen_SetNodeIns.insert_node (o_end l) (fun n => n =? 0) (fun n => n) (fun n => n)
    (fun _ => r_enc (nested_insert multi (node_elem node) l)) (fun z => z / 2) (fun z => z mod 2 =? 1) (node_code node).
(* std: {end(), false, empty} for an empty node; else {position, inserted, inserted ? empty : the node} *)
Theorem gen_set_insert_node_spec node :
  gen_set_insert_node node =
  match node with
  | None => (Z.of_nat (length l), false, 0)
  | Some x => let '(i, ins, _) := ord_insert multi x l in (Z.of_nat i, ins, if ins then 0 else 1)
  end.
Proof.
  unfold gen_set_insert_node, Gen_SetNodeIns.insert_node, nested_insert. destruct node as [x|]; simpl node_code; simpl node_elem.
  - change (1 =? 0) with false. cbv iota. destruct (ord_insert multi x l) as [[i ins] l']. unfold r_enc.
    destruct (div2_enc (Z.of_nat i) (if ins then 1 else 0) ltac:(lia) ltac:(destruct ins; auto)) as [D M].
    rewrite D, M. destruct ins; reflexivity.
  - reflexivity.
Qed.
(* extract(key): the node of find(key), or an empty node *)
Lemma gen_set_extract_key_spec (it_neqb : Z -> Z -> bool) it_end find_ extract_at k :
  Gen_SetNodeIns.extract_key it_end it_neqb find_ extract_at k = if it_neqb (find_ k) it_end then extract_at (find_ k) else 0.
Proof. reflexivity. Qed.
End NodeIns.
Lemma uset_node_ins_same_code : Gen_USetNodeIns.insert_node = Gen_SetNodeIns.insert_node /\ Gen_USetNodeIns.extract_key = Gen_SetNodeIns.extract_key.
Proof. split; reflexivity. Qed.

(* map_base / unordered_map insert(node&&), extract(key), extract(iterator): the same code as the set's (IteratorProxy wrapping and
   const conversions are identities); extract(iterator) constructs the node handle from the pair "this container, where" *)
Lemma node_functions_same_code :
  Gen_MapNodeIns.insert_node = Gen_SetNodeIns.insert_node /\ Gen_UMapNodeIns.insert_node = Gen_SetNodeIns.insert_node /\
  Gen_MapNodeIns.extract_key = Gen_SetNodeIns.extract_key /\ Gen_UMapNodeIns.extract_key = Gen_SetNodeIns.extract_key /\
  Gen_MapNodeIns.extract_iter = Gen_SetNodeIns.extract_iter /\ Gen_UMapNodeIns.extract_iter = Gen_SetNodeIns.extract_iter /\
  Gen_USetNodeIns.extract_iter = Gen_SetNodeIns.extract_iter.
Proof. repeat split; reflexivity. Qed.
Lemma gen_extract_iter_spec (make_node : Z -> Z -> Z) this_ w : Gen_SetNodeIns.extract_iter make_node this_ w = make_node this_ w.
Proof. reflexivity. Qed.

(* merge(source) is a bare forward to the nested MergeFrom (TreeSet: C02_merge_*_refines) *)
Lemma gen_set_merge_forwards nested_of ev_merge_from st s : Gen_SetMerge.merge nested_of ev_merge_from st s = ev_merge_from st (nested_of s).
Proof. reflexivity. Qed.

(* executable instances for the extracted driver *)
Definition gen_cmp6_run (l r : list elem) : list bool :=
  [g_eq l r 0 1; Gen_SetCmpD.op_ne (g_eq l r) 0 1; g_lt l r 0 1; Gen_SetCmpD.op_le (g_lt l r) 0 1;
   Gen_SetCmpD.op_gt (g_lt l r) 0 1; Gen_SetCmpD.op_ge (g_le l r) 0 1].
