(* C03 -- proofs about the L2 resource machine (Effects.v).
   A small Hoare logic over the monad ([post]) and, for every mechanism, a `*_no_leak` theorem: for EVERY failure
   schedule (the schedule is part of the arbitrary initial state) the mechanism never gets Stuck (no primitive is
   applied to a cell or block in the wrong state) and ends - normally or by exception - in a state whose occupied
   cells and live blocks are exactly those the abstract state accounts for. *)
From Coq Require Import ZArith Bool List Lia.
From C03 Require Import Effects.
Import ListNotations.
Local Open Scope Z_scope.

(* ------------------------------------------------------------------ state summaries *)
Definition occf (s : rstate) (l : loc) : bool := occ (cells s l).

(* the occupied cells are exactly [f], the live blocks exactly [bs], the next fresh block id is [nb] *)
Definition st_is (s : rstate) (f : loc -> bool) (bs : list (Z * (Z * Z))) (nb : Z) : Prop :=
  (forall l, occf s l = f l) /\ blocks s = bs /\ nextb s = nb.

Lemma st_is_ext s f g bs nb : (forall l, f l = g l) -> st_is s f bs nb -> st_is s g bs nb.
Proof. intros E (H & Hb & Hn). split; [|auto]. intros l. rewrite H. apply E. Qed.

Definition inrng (r b : Z) (n : nat) (l : loc) : bool :=
  Z.eqb (fst l) r && Z.leb b (snd l) && Z.ltb (snd l) (b + Z.of_nat n).

Lemma loc_eqb_spec a b : reflect (a = b) (loc_eqb a b).
Proof.
  destruct a as [a1 a2], b as [b1 b2]. unfold loc_eqb; simpl.
  destruct (Z.eqb_spec a1 b1), (Z.eqb_spec a2 b2); simpl; constructor; congruence.
Qed.
Lemma loc_eqb_refl a : loc_eqb a a = true.
Proof. destruct (loc_eqb_spec a a); congruence. Qed.

Lemma inrng_spec r b n l : reflect (fst l = r /\ b <= snd l < b + Z.of_nat n) (inrng r b n l).
Proof.
  apply iff_reflect. unfold inrng. rewrite !andb_true_iff, Z.eqb_eq, Z.leb_le, Z.ltb_lt. tauto.
Qed.
Lemma inrng_0 r b l : inrng r b 0 l = false.
Proof. destruct (inrng_spec r b 0 l); [lia|reflexivity]. Qed.
Lemma inrng_S r b n l : inrng r b (S n) l = loc_eqb l (r, b) || inrng r (b + 1) n l.
Proof.
  destruct l as [l1 l2]. unfold inrng, loc_eqb; simpl fst; simpl snd. rewrite Nat2Z.inj_succ.
  destruct (Z.eqb_spec l1 r); simpl; [|reflexivity].
  destruct (Z.leb_spec b l2), (Z.ltb_spec l2 (b + Z.succ (Z.of_nat n))), (Z.eqb_spec l2 b),
    (Z.leb_spec (b + 1) l2), (Z.ltb_spec l2 (b + 1 + Z.of_nat n)); simpl; try reflexivity; lia.
Qed.
Lemma inrng_snoc r b n l : inrng r b (S n) l = inrng r b n l || loc_eqb l (r, b + Z.of_nat n).
Proof.
  destruct l as [l1 l2]. unfold inrng, loc_eqb; simpl fst; simpl snd. rewrite Nat2Z.inj_succ.
  destruct (Z.eqb_spec l1 r); simpl; [|reflexivity].
  destruct (Z.leb_spec b l2), (Z.ltb_spec l2 (b + Z.succ (Z.of_nat n))), (Z.eqb_spec l2 (b + Z.of_nat n)),
    (Z.ltb_spec l2 (b + Z.of_nat n)); simpl; try reflexivity; lia.
Qed.
Lemma inrng_in r b n k : 0 <= k < Z.of_nat n -> inrng r b n (r, b + k) = true.
Proof. intros. destruct (inrng_spec r b n (r, b + k)); [reflexivity|simpl in *; lia]. Qed.
Lemma inrng_other_region r b n l : fst l <> r -> inrng r b n l = false.
Proof. intros. destruct (inrng_spec r b n l); [tauto|reflexivity]. Qed.

(* ------------------------------------------------------------------ the Hoare logic *)
Definition post {A} (m : M A) (s : rstate) (Qv : A -> rstate -> Prop) (Qe : rstate -> Prop) : Prop :=
  match m s with
  | (Val a, s') => Qv a s'
  | (Exc, s') => Qe s'
  | (Stuck, _) => False
  end.

Lemma post_ret {A} (a : A) s (Qv : A -> rstate -> Prop) Qe : Qv a s -> post (ret a) s Qv Qe.
Proof. intros; exact H. Qed.

Lemma post_bind {A B} (m : M A) (f : A -> M B) s Qv Qe :
  post m s (fun a s1 => post (f a) s1 Qv Qe) Qe -> post (bind m f) s Qv Qe.
Proof. unfold post, bind. destruct (m s) as [[a| |] s1]; auto. Qed.

Lemma post_conseq {A} (m : M A) s (Qv Qv' : A -> rstate -> Prop) (Qe Qe' : rstate -> Prop) :
  post m s Qv Qe -> (forall a s', Qv a s' -> Qv' a s') -> (forall s', Qe s' -> Qe' s') -> post m s Qv' Qe'.
Proof. unfold post. destruct (m s) as [[a| |] s1]; auto. Qed.

Lemma post_catch {A} (m : M A) (h : M unit) s Qv Qe :
  post m s Qv (fun s1 => post h s1 (fun _ s2 => Qe s2) Qe) -> post (catch_rethrow m h) s Qv Qe.
Proof.
  unfold post, catch_rethrow. destruct (m s) as [[a| |] s1]; auto.
  destruct (h s1) as [[u| |] s2]; auto.
Qed.

Lemma post_throw {A} s (Qv : A -> rstate -> Prop) (Qe : rstate -> Prop) : Qe s -> post throw s Qv Qe.
Proof. intros; exact H. Qed.

(* ------------------------------------------------------------------ primitives *)
Lemma fallible_post s f bs nb :
  st_is s f bs nb -> post fallible s (fun _ s' => st_is s' f bs nb) (fun s' => st_is s' f bs nb).
Proof.
  intros H. unfold post, fallible. destruct (sched s) as [|[|] r]; exact H.
Qed.

Lemma occ_true_cases c : occ c = true -> c <> Raw.
Proof. destruct c; simpl; congruence. Qed.

Lemma p_copy_post dst src s f bs nb :
  st_is s f bs nb -> f src = true -> f dst = false ->
  post (p_copy dst src) s (fun _ s' => st_is s' (fun l => loc_eqb l dst || f l) bs nb) (fun s' => st_is s' f bs nb).
Proof.
  intros (H & Hb & Hn) Hs Hd. unfold post, p_copy.
  pose proof (H src) as Es. pose proof (H dst) as Ed. unfold occf in Es, Ed. rewrite Hs in Es. rewrite Hd in Ed.
  destruct (cells s dst) eqn:Cd; simpl in Ed; try discriminate.
  assert (F : post fallible s (fun _ s' => st_is s' f bs nb) (fun s' => st_is s' f bs nb))
    by (apply fallible_post; repeat split; auto).
  unfold post in F.
  destruct (cells s src) eqn:Cs; simpl in Es; try discriminate;
    destruct (fallible s) as [[u| |] s1]; try exact F; try contradiction;
    destruct F as (H1 & Hb1 & Hn1); (split; [|split; assumption]); intros l; unfold occf; simpl;
    destruct (loc_eqb l dst); simpl; try reflexivity; apply H1.
Qed.

Lemma p_move_nt_post dst src s f bs nb :
  st_is s f bs nb -> f src = true -> f dst = false ->
  post (p_move_nt dst src) s (fun _ s' => st_is s' (fun l => loc_eqb l dst || f l) bs nb) (fun _ => False).
Proof.
  intros (H & Hb & Hn) Hs Hd. unfold post, p_move_nt.
  pose proof (H src) as Es. pose proof (H dst) as Ed. unfold occf in Es, Ed. rewrite Hs in Es. rewrite Hd in Ed.
  destruct (cells s dst) eqn:Cd; simpl in Ed; try discriminate.
  destruct (cells s src) eqn:Cs; simpl in Es; try discriminate;
    (split; [|split; assumption]); intros l; unfold occf; simpl;
    destruct (loc_eqb_spec l src) as [->|Hne]; simpl.
  all: try (rewrite Hs; destruct (loc_eqb src dst); reflexivity).
  all: destruct (loc_eqb l dst); simpl; try reflexivity; apply H.
Qed.

Lemma om_move_post c dst src s f bs nb :
  st_is s f bs nb -> f src = true -> f dst = false ->
  post (om_move c dst src) s (fun _ s' => st_is s' (fun l => loc_eqb l dst || f l) bs nb)
       (fun s' => c = CPO /\ st_is s' f bs nb).
Proof.
  intros. destruct c; simpl.
  - eapply post_conseq; [apply p_move_nt_post; eassumption| auto | intros ? []].
  - eapply post_conseq; [apply p_copy_post; eassumption| auto | auto].
Qed.

Lemma p_destroy_post l s f bs nb :
  st_is s f bs nb -> f l = true ->
  post (p_destroy l) s (fun _ s' => st_is s' (fun l' => negb (loc_eqb l' l) && f l') bs nb) (fun _ => False).
Proof.
  intros (H & Hb & Hn) Hl. unfold post, p_destroy.
  pose proof (H l) as El. unfold occf in El. rewrite Hl in El.
  destruct (cells s l) eqn:Cl; simpl in El; try discriminate;
    (split; [|split; assumption]); intros l'; unfold occf; simpl;
    destruct (loc_eqb l' l); simpl; try reflexivity; apply H.
Qed.

Lemma p_alloc_post mgr size s f bs nb :
  st_is s f bs nb ->
  post (p_alloc mgr size) s (fun b s' => b = nb /\ st_is s' f ((nb, (mgr, size)) :: bs) (nb + 1))
       (fun s' => st_is s' f bs nb).
Proof.
  intros H. pose proof (fallible_post s f bs nb H) as F. unfold post in *. unfold p_alloc.
  destruct (fallible s) as [[u| |] s1]; try exact F.
  destruct F as (H1 & Hb1 & Hn1). split; [assumption|]. split; [exact H1|]. simpl. split; congruence.
Qed.

Lemma p_dealloc_post mgr b size s f bs nb :
  st_is s f bs nb -> find_blk b bs = Some (mgr, size) ->
  post (p_dealloc mgr b size) s (fun _ s' => st_is s' f (remove_blk b bs) nb) (fun _ => False).
Proof.
  intros (H & Hb & Hn) Hf. unfold post, p_dealloc. rewrite Hb, Hf, !Z.eqb_refl. simpl.
  split; [exact H|]. simpl. split; [reflexivity|assumption].
Qed.

Lemma p_touch_post b s f bs nb p :
  st_is s f bs nb -> find_blk b bs = Some p ->
  post (p_touch_blk b) s (fun _ s' => st_is s' f bs nb) (fun _ => False).
Proof. intros (H & Hb & Hn) Hf. unfold post, p_touch_blk. rewrite Hb, Hf. repeat split; auto. Qed.

(* boolean algebra helper: decide pointwise equalities of occupancy functions after case analysis *)
Ltac bsolve :=
  repeat match goal with
         | |- context [loc_eqb ?a ?b] => destruct (loc_eqb_spec a b)
         | |- context [inrng ?r ?b ?n ?l] => destruct (inrng_spec r b n l)
         end; simpl in *; subst; simpl in *;
  try reflexivity; try lia; try congruence.

(* ------------------------------------------------------------------ ObjectManager::Destroy(begin, count) *)
Lemma om_destroy_n_post r : forall n base s f bs nb,
  st_is s f bs nb -> (forall k, 0 <= k < Z.of_nat n -> f (r, base + k) = true) ->
  post (om_destroy_n r base n) s (fun _ s' => st_is s' (fun l => negb (inrng r base n l) && f l) bs nb) (fun _ => False).
Proof.
  induction n as [|n IH]; intros base s f bs nb H Hr; simpl.
  - apply post_ret. eapply st_is_ext; [|exact H]. intros l. rewrite inrng_0. reflexivity.
  - apply post_bind. eapply post_conseq; [apply (p_destroy_post (r, base) s f bs nb H)| |auto].
    + replace base with (base + 0) by lia. apply Hr. lia.
    + intros u1 s1 H1. eapply post_conseq; [apply (IH (base + 1) s1 _ bs nb H1)| |auto].
      * intros k Hk. simpl.
        replace (base + 1 + k) with (base + (1 + k)) by lia. rewrite (Hr (1 + k)) by lia.
        destruct (loc_eqb_spec (r, base + (1 + k)) (r, base)) as [E|]; [exfalso; assert (base + (1 + k) = base) by congruence; lia|reflexivity].
      * intros u2 s2 H2. eapply st_is_ext; [|exact H2]. intros l. simpl. rewrite inrng_S.
        destruct (loc_eqb l (r, base)), (inrng r (base + 1) n l), (f l); reflexivity.
Qed.

(* ------------------------------------------------------------------ executors *)
Definition exec_ok (f : loc -> bool) (e : exec) : Prop :=
  match e with
  | ExecNop => True
  | ExecCopy d s | ExecMove d s => f s = true /\ f d = false
  end.
Definition exec_add (e : exec) (l : loc) : bool :=
  match e with
  | ExecNop => false
  | ExecCopy d _ | ExecMove d _ => loc_eqb l d
  end.

Lemma run_exec_post c e s f bs nb :
  st_is s f bs nb -> exec_ok f e ->
  post (run_exec c e) s (fun _ s' => st_is s' (fun l => exec_add e l || f l) bs nb) (fun s' => st_is s' f bs nb).
Proof.
  intros H He. destruct e as [|d x|d x]; simpl in *.
  - eapply post_conseq; [apply fallible_post; exact H|auto|auto].
  - destruct He. apply p_copy_post; assumption.
  - destruct He. eapply post_conseq; [apply om_move_post; eassumption|auto|intros s' [_ ?]; assumption].
Qed.

(* ------------------------------------------------------------------ pvRelocate(..., true_type): move + destroy, item by item *)
Lemma om_relocate_nt_post sr dr : forall n sb db s f bs nb,
  st_is s f bs nb ->
  (forall k, 0 <= k < Z.of_nat n -> f (sr, sb + k) = true /\ f (dr, db + k) = false) ->
  post (om_relocate_nt NTM sr sb dr db n) s
       (fun _ s' => st_is s' (fun l => negb (inrng sr sb n l) && (inrng dr db n l || f l)) bs nb) (fun _ => False).
Proof.
  induction n as [|n IH]; intros sb db s f bs nb H Hr; simpl.
  - apply post_ret. eapply st_is_ext; [|exact H]. intros l. rewrite !inrng_0. reflexivity.
  - assert (H0 : f (sr, sb) = true /\ f (dr, db) = false).
    { replace sb with (sb + 0) by lia. replace db with (db + 0) by lia. apply Hr. lia. }
    destruct H0 as [Hs0 Hd0].
    apply post_bind. unfold om_relocate1. apply post_bind.
    eapply post_conseq; [apply (om_move_post NTM (dr, db) (sr, sb) s f bs nb H Hs0 Hd0)| |intros s' [E _]; discriminate].
    intros u1 s1 H1.
    eapply post_conseq; [apply (p_destroy_post (sr, sb) s1 _ bs nb H1)| |auto].
    + simpl. rewrite Hs0. apply orb_true_r.
    + intros u2 s2 H2.
      eapply post_conseq; [apply (IH (sb + 1) (db + 1) s2 _ bs nb H2)| |auto].
      * intros k Hk. destruct (Hr (1 + k)) as [Hs Hd]; [lia|].
        replace (sb + 1 + k) with (sb + (1 + k)) by lia. replace (db + 1 + k) with (db + (1 + k)) by lia.
        cbv beta. rewrite Hs, Hd.
        assert (E1 : loc_eqb (sr, sb + (1 + k)) (sr, sb) = false).
        { destruct (loc_eqb_spec (sr, sb + (1 + k)) (sr, sb)) as [E|]; [exfalso; assert (sb + (1 + k) = sb) by congruence; lia|reflexivity]. }
        assert (E2 : loc_eqb (dr, db + (1 + k)) (dr, db) = false).
        { destruct (loc_eqb_spec (dr, db + (1 + k)) (dr, db)) as [E|]; [exfalso; assert (db + (1 + k) = db) by congruence; lia|reflexivity]. }
        rewrite E1, E2, orb_true_r. cbn [negb andb orb]. split; [reflexivity|apply andb_false_r].
      * intros u3 s3 H3. eapply st_is_ext; [|exact H3]. intros l. cbv beta. rewrite !inrng_S.
        destruct (loc_eqb_spec l (sr, sb)) as [El|]; cbn [negb andb orb].
        -- subst l. rewrite orb_false_r.
           destruct (inrng_spec dr (db + 1) n (sr, sb)) as [[Ea Eb]|]; [|apply andb_false_r].
           exfalso. simpl in Ea, Eb. destruct (Hr (sb - db)) as [_ Hd]; [lia|].
           replace (db + (sb - db)) with sb in Hd by lia. rewrite <- Ea in Hd. congruence.
        -- destruct (loc_eqb l (dr, db)), (inrng sr (sb + 1) n l), (inrng dr (db + 1) n l), (f l); reflexivity.
Qed.

(* ------------------------------------------------------------------ the copy loop of pvRelocateExec(..., false_type) *)
Lemma om_copy_loop_post sr sb dr db : forall n index s f bs nb,
  st_is s f bs nb ->
  (forall k, 0 <= k < Z.of_nat n -> f (sr, sb + index + k) = true /\ f (dr, db + index + k) = false) ->
  match om_copy_loop sr sb dr db index n s with
  | ((idx, Val _), s') => idx = index + Z.of_nat n /\
                          st_is s' (fun l => inrng dr (db + index) n l || f l) bs nb
  | ((idx, Exc), s') => index <= idx < index + Z.of_nat n /\
                        st_is s' (fun l => inrng dr (db + index) (Z.to_nat (idx - index)) l || f l) bs nb
  | ((_, Stuck), _) => False
  end.
Proof.
  induction n as [|n IH]; intros index s f bs nb H Hr; simpl.
  - split; [lia|]. eapply st_is_ext; [|exact H]. intros l. rewrite inrng_0. reflexivity.
  - destruct (Hr 0) as [Hs0 Hd0]; [lia|]. rewrite !Z.add_0_r in Hs0, Hd0.
    pose proof (p_copy_post (dr, db + index) (sr, sb + index) s f bs nb H Hs0 Hd0) as P.
    unfold post in P. unfold om_copy.
    destruct (p_copy (dr, db + index) (sr, sb + index) s) as [[u| |] s1]; [| |contradiction].
    + specialize (IH (index + 1) s1 _ bs nb P).
      assert (Hr' : forall k, 0 <= k < Z.of_nat n ->
                (fun l => loc_eqb l (dr, db + index) || f l) (sr, sb + (index + 1) + k) = true /\
                (fun l => loc_eqb l (dr, db + index) || f l) (dr, db + (index + 1) + k) = false).
      { intros k Hk. destruct (Hr (1 + k)) as [Hs Hd]; [lia|].
        replace (sb + (index + 1) + k) with (sb + index + (1 + k)) by lia.
        replace (db + (index + 1) + k) with (db + index + (1 + k)) by lia. cbv beta. rewrite Hs, Hd.
        destruct (loc_eqb_spec (dr, db + index + (1 + k)) (dr, db + index)) as [E|];
          [exfalso; assert (db + index + (1 + k) = db + index) by congruence; lia|].
        rewrite orb_true_r. split; reflexivity. }
      specialize (IH Hr').
      destruct (om_copy_loop sr sb dr db (index + 1) n s1) as [[idx [u'| |]] s2]; [| |contradiction].
      * destruct IH as [E S2]. split; [lia|]. eapply st_is_ext; [|exact S2]. intros l. simpl. rewrite inrng_S.
        replace (db + (index + 1)) with (db + index + 1) by lia.
        destruct (loc_eqb l (dr, db + index)), (inrng dr (db + index + 1) n l), (f l); reflexivity.
      * destruct IH as [E S2]. split; [lia|]. eapply st_is_ext; [|exact S2]. intros l. simpl.
        replace (Z.to_nat (idx - index)) with (S (Z.to_nat (idx - (index + 1)))) by lia. rewrite inrng_S.
        replace (db + (index + 1)) with (db + index + 1) by lia.
        destruct (loc_eqb l (dr, db + index)), (inrng dr (db + index + 1) (Z.to_nat (idx - (index + 1))) l), (f l); reflexivity.
    + split; [lia|]. eapply st_is_ext; [|exact P]. intros l. rewrite Z.sub_diag. simpl. rewrite inrng_0. reflexivity.
Qed.

(* ------------------------------------------------------------------ RelocateExec / Relocate / RelocateCreate *)
Definition reloc_pre (f : loc -> bool) (sr sb dr db : Z) (n : nat) : Prop :=
  forall k, 0 <= k < Z.of_nat n -> f (sr, sb + k) = true /\ f (dr, db + k) = false.

Lemma undo_dst f dr db m :
  (forall k, 0 <= k < Z.of_nat m -> f (dr, db + k) = false) ->
  forall l, negb (inrng dr db m l) && (inrng dr db m l || f l) = f l.
Proof.
  intros Hd l. destruct (inrng_spec dr db m l) as [[Ea Eb]|]; simpl; [|reflexivity].
  specialize (Hd (snd l - db)). replace (db + (snd l - db)) with (snd l) in Hd by lia.
  rewrite <- Ea in Hd. destruct l as [l1 l2]; simpl in *. symmetry. apply Hd. lia.
Qed.

(* catch (...) { Destroy(dstBegin, index); throw; } *)
Lemma undo_handler_post {A} dr db m s1 f bs nb (Qv : A -> rstate -> Prop) :
  st_is s1 (fun l => inrng dr db m l || f l) bs nb ->
  (forall k, 0 <= k < Z.of_nat m -> f (dr, db + k) = false) ->
  post (catch_rethrow throw (om_destroy_n dr db m)) s1 Qv (fun s' => st_is s' f bs nb).
Proof.
  intros H Hd. apply post_catch. apply post_throw.
  eapply post_conseq; [apply (om_destroy_n_post dr m db s1 _ bs nb H)| |intros ? []].
  - intros k Hk. cbv beta. rewrite inrng_in by assumption. reflexivity.
  - intros u s2 H2. eapply st_is_ext; [|exact H2]. apply undo_dst. exact Hd.
Qed.

Theorem om_relocate_exec_post c sr sb dr db n e s f bs nb :
  st_is s f bs nb -> reloc_pre f sr sb dr db n -> exec_ok f e ->
  (forall l, exec_add e l = true -> inrng dr db n l = false) ->
  post (om_relocate_exec c sr sb dr db n e) s
       (fun _ s' => st_is s' (fun l => negb (inrng sr sb n l) && (inrng dr db n l || exec_add e l || f l)) bs nb)
       (fun s' => st_is s' f bs nb).
Proof.
  intros H Hr He Hx. unfold om_relocate_exec. destruct c; cbn [nothrow_reloc].
  - (* nothrow relocatable: exec(); Relocate(...) *)
    apply post_bind. eapply post_conseq; [apply (run_exec_post NTM e s f bs nb H He)| |auto].
    intros u1 s1 H1.
    eapply post_conseq; [apply (om_relocate_nt_post sr dr n sb db s1 _ bs nb H1)| |intros ? []].
    + intros k Hk. destruct (Hr k Hk) as [Hs Hd]. cbv beta. rewrite Hs, Hd, orb_true_r, orb_false_r. split; [reflexivity|].
      destruct (exec_add e (dr, db + k)) eqn:E; [|reflexivity].
      specialize (Hx _ E). rewrite (inrng_in dr db n k Hk) in Hx. discriminate.
    + intros u2 s2 H2. eapply st_is_ext; [|exact H2]. intros l. cbv beta.
      destruct (inrng sr sb n l), (inrng dr db n l), (exec_add e l), (f l); reflexivity.
  - (* copy-only: copy all, exec, destroy all sources; on failure destroy the copies *)
    unfold om_relocate_exec_f, post.
    assert (Hr0 : forall k, 0 <= k < Z.of_nat n -> f (sr, sb + 0 + k) = true /\ f (dr, db + 0 + k) = false).
    { intros k Hk. rewrite !Z.add_0_r. apply Hr; assumption. }
    pose proof (om_copy_loop_post sr sb dr db n 0 s f bs nb H Hr0) as L.
    destruct (om_copy_loop sr sb dr db 0 n s) as [[idx o] s1].
    assert (Hdst : forall m, (m <= n)%nat -> forall k, 0 <= k < Z.of_nat m -> f (dr, db + k) = false).
    { intros m Hm k Hk. apply Hr. lia. }
    destruct o as [u| |]; [| |contradiction].
    + destruct L as [Ei S1]. rewrite Z.add_0_r in S1.
      assert (He1 : exec_ok (fun l => inrng dr db n l || f l) e).
      { destruct e as [|d x|d x]; simpl in *; auto; destruct He as [Hsx Hdx]; rewrite Hsx, Hdx, orb_true_r;
          (split; [reflexivity|]); rewrite (Hx d (loc_eqb_refl d)); reflexivity. }
      pose proof (run_exec_post CPO e s1 _ bs nb S1 He1) as P. unfold post in P.
      destruct (run_exec CPO e s1) as [[u1| |] s2]; [| |contradiction].
      * fold (post (om_destroy_n sr sb n) s2
               (fun _ s' => st_is s' (fun l => negb (inrng sr sb n l) && (inrng dr db n l || exec_add e l || f l)) bs nb)
               (fun s' => st_is s' f bs nb)).
        eapply post_conseq; [apply (om_destroy_n_post sr n sb s2 _ bs nb P)| |intros ? []].
        -- intros k Hk. cbv beta. destruct (Hr k Hk) as [Hs _]. rewrite Hs, !orb_true_r. reflexivity.
        -- intros u2 s3 H3. eapply st_is_ext; [|exact H3]. intros l. cbv beta.
           destruct (inrng sr sb n l), (inrng dr db n l), (exec_add e l), (f l); reflexivity.
      * fold (post (catch_rethrow (@throw unit) (om_destroy_n dr db (Z.to_nat idx))) s2
               (fun _ s' => st_is s' (fun l => negb (inrng sr sb n l) && (inrng dr db n l || exec_add e l || f l)) bs nb)
               (fun s' => st_is s' f bs nb)).
        subst idx. rewrite Z.add_0_l, Nat2Z.id. apply undo_handler_post; [exact P|]. apply (Hdst n). lia.
    + destruct L as [Ei S1]. rewrite Z.add_0_r, Z.sub_0_r in S1.
      fold (post (catch_rethrow (@throw unit) (om_destroy_n dr db (Z.to_nat idx))) s1
             (fun _ s' => st_is s' (fun l => negb (inrng sr sb n l) && (inrng dr db n l || exec_add e l || f l)) bs nb)
             (fun s' => st_is s' f bs nb)).
      apply undo_handler_post; [exact S1|]. apply (Hdst (Z.to_nat idx)). lia.
Qed.

Theorem om_relocate_post c sr sb dr db n s f bs nb :
  st_is s f bs nb -> reloc_pre f sr sb dr db n ->
  post (om_relocate c sr sb dr db n) s
       (fun _ s' => st_is s' (fun l => negb (inrng sr sb n l) && (inrng dr db n l || f l)) bs nb)
       (fun s' => c = CPO /\ st_is s' f bs nb).
Proof.
  intros H Hr. unfold om_relocate. destruct c; cbn [nothrow_reloc].
  - eapply post_conseq; [apply (om_relocate_nt_post sr dr n sb db s f bs nb H Hr)|auto|intros ? []].
  - destruct n as [|n].
    + apply post_ret. eapply st_is_ext; [|exact H]. intros l. rewrite !inrng_0. reflexivity.
    + destruct (Hr 0) as [Hs0 Hd0]; [lia|]. rewrite !Z.add_0_r in Hs0, Hd0.
      apply post_bind.
      assert (P : post (om_relocate_exec CPO sr (sb + 1) dr (db + 1) n (ExecMove (dr, db) (sr, sb))) s
                    (fun _ s' => st_is s' (fun l => negb (inrng sr (sb + 1) n l) &&
                       (inrng dr (db + 1) n l || exec_add (ExecMove (dr, db) (sr, sb)) l || f l)) bs nb)
                    (fun s' => st_is s' f bs nb)).
      { apply (om_relocate_exec_post CPO sr (sb + 1) dr (db + 1) n (ExecMove (dr, db) (sr, sb)) s f bs nb H).
        - intros k Hk. replace (sb + 1 + k) with (sb + (1 + k)) by lia. replace (db + 1 + k) with (db + (1 + k)) by lia.
          apply Hr. lia.
        - simpl. auto.
        - intros l E. simpl in E. destruct (loc_eqb_spec l (dr, db)); [|discriminate]. subst l.
          destruct (inrng_spec dr (db + 1) n (dr, db)) as [[_ Eb]|]; [simpl in Eb; lia|reflexivity]. }
      eapply post_conseq; [exact P| |auto].
      * intros u1 s1 H1.
        eapply post_conseq; [apply (p_destroy_post (sr, sb) s1 _ bs nb H1)| |intros ? []].
        -- cbv beta. rewrite Hs0, !orb_true_r.
           destruct (inrng_spec sr (sb + 1) n (sr, sb)) as [[_ Eb]|]; [simpl in Eb; lia|reflexivity].
        -- intros u2 s2 H2. eapply st_is_ext; [|exact H2]. intros l. cbv beta. rewrite !inrng_S. simpl exec_add.
           destruct (loc_eqb l (sr, sb)), (loc_eqb l (dr, db)), (inrng sr (sb + 1) n l), (inrng dr (db + 1) n l), (f l); reflexivity.
Qed.

(* RelocateCreate = RelocateExec with exec = "construct the new item" *)
Theorem om_relocate_create_post c sr sb dr db n nd ns s f bs nb :
  st_is s f bs nb -> reloc_pre f sr sb dr db n -> f ns = true -> f nd = false -> inrng dr db n nd = false ->
  post (om_relocate_create c sr sb dr db n nd ns) s
       (fun _ s' => st_is s' (fun l => negb (inrng sr sb n l) && (inrng dr db n l || loc_eqb l nd || f l)) bs nb)
       (fun s' => st_is s' f bs nb).
Proof.
  intros H Hr Hs Hd Hn. unfold om_relocate_create.
  apply (om_relocate_exec_post c sr sb dr db n (ExecCopy nd ns) s f bs nb H Hr); simpl; auto.
  intros l E. destruct (loc_eqb_spec l nd); [subst; assumption|discriminate].
Qed.

(* MoveExec / CopyExec *)
Theorem om_move_exec_post c dst src e s f bs nb :
  st_is s f bs nb -> f src = true -> f dst = false -> exec_ok f e -> exec_add e dst = false ->
  post (om_move_exec c dst src e) s
       (fun _ s' => st_is s' (fun l => loc_eqb l dst || exec_add e l || f l) bs nb)
       (fun s' => st_is s' f bs nb).
Proof.
  intros H Hs Hd He Hx. unfold om_move_exec. destruct c; cbn [nothrow_reloc].
  - apply post_bind. eapply post_conseq; [apply (run_exec_post NTM e s f bs nb H He)| |auto].
    intros u1 s1 H1.
    eapply post_conseq; [apply (om_move_post NTM dst src s1 _ bs nb H1)| |intros s' [E _]; discriminate].
    + cbv beta. rewrite Hs. apply orb_true_r.
    + cbv beta. rewrite Hx, Hd. reflexivity.
    + intros u2 s2 H2. eapply st_is_ext; [|exact H2]. intros l. cbv beta.
      destruct (loc_eqb l dst), (exec_add e l), (f l); reflexivity.
  - apply post_bind.
    eapply post_conseq; [apply (om_move_post CPO dst src s f bs nb H Hs Hd)| |intros s' [_ ?]; assumption].
    intros u1 s1 H1. apply post_catch.
    assert (He1 : exec_ok (fun l => loc_eqb l dst || f l) e).
    { destruct e as [|d x|d x]; simpl in *; auto; destruct He as [Hsx Hdx]; rewrite Hsx, Hdx, orb_true_r;
        (split; [reflexivity|]); rewrite orb_false_r;
        (destruct (loc_eqb_spec d dst) as [->|]; [rewrite loc_eqb_refl in Hx; discriminate|reflexivity]). }
    eapply post_conseq; [apply (run_exec_post CPO e s1 _ bs nb H1 He1)| |].
    + intros u2 s2 H2. eapply st_is_ext; [|exact H2]. intros l. cbv beta.
      destruct (loc_eqb l dst), (exec_add e l), (f l); reflexivity.
    + intros s2 H2. eapply post_conseq; [apply (p_destroy_post dst s2 _ bs nb H2)| |intros ? []].
      * cbv beta. rewrite loc_eqb_refl. reflexivity.
      * intros u3 s3 H3. eapply st_is_ext; [|exact H3]. intros l. cbv beta.
        destruct (loc_eqb_spec l dst) as [->|]; simpl; [symmetry; assumption|reflexivity].
Qed.

Theorem om_copy_exec_post c dst src e s f bs nb :
  st_is s f bs nb -> f src = true -> f dst = false -> exec_ok f e -> exec_add e dst = false ->
  post (om_copy_exec c dst src e) s
       (fun _ s' => st_is s' (fun l => loc_eqb l dst || exec_add e l || f l) bs nb)
       (fun s' => st_is s' f bs nb).
Proof.
  intros H Hs Hd He Hx. unfold om_copy_exec, om_copy. apply post_bind.
  eapply post_conseq; [apply (p_copy_post dst src s f bs nb H Hs Hd)| |auto].
  intros u1 s1 H1. apply post_catch.
  assert (He1 : exec_ok (fun l => loc_eqb l dst || f l) e).
  { destruct e as [|d x|d x]; simpl in *; auto; destruct He as [Hsx Hdx]; rewrite Hsx, Hdx, orb_true_r;
      (split; [reflexivity|]); rewrite orb_false_r;
      (destruct (loc_eqb_spec d dst) as [->|]; [rewrite loc_eqb_refl in Hx; discriminate|reflexivity]). }
  eapply post_conseq; [apply (run_exec_post c e s1 _ bs nb H1 He1)| |].
  - intros u2 s2 H2. eapply st_is_ext; [|exact H2]. intros l. cbv beta.
    destruct (loc_eqb l dst), (exec_add e l), (f l); reflexivity.
  - intros s2 H2. eapply post_conseq; [apply (p_destroy_post dst s2 _ bs nb H2)| |intros ? []].
    + cbv beta. rewrite loc_eqb_refl. reflexivity.
    + intros u3 s3 H3. eapply st_is_ext; [|exact H3]. intros l. cbv beta.
      destruct (loc_eqb_spec l dst) as [->|]; simpl; [symmetry; assumption|reflexivity].
Qed.

(* ------------------------------------------------------------------ Array::Data *)
Section ArrayProofs.
Variable c : cat.
Variables mgr isz : Z.

Definition arr_blocks (d : adata) : list (Z * (Z * Z)) :=
  match a_cap d with
  | O => []
  | _ => [(a_items d, (mgr, Z.of_nat (a_cap d) * isz))]
  end.
(* the cells of the world: the array's items plus anything outside the heap regions ([ext], e.g. arguments) *)
Definition arr_occ (d : adata) (ext : loc -> bool) : loc -> bool :=
  fun l => inrng (a_items d) 0 (a_count d) l || ext l.

(* the abstract state "array d" accounts for exactly: count live cells in its block, one block of capacity*sizeof(Item) *)
Definition arr_world (d : adata) (ext : loc -> bool) (s : rstate) : Prop :=
  st_is s (arr_occ d ext) (arr_blocks d) (nextb s) /\
  (a_cap d = O -> a_count d = O) /\
  (a_cap d <> O -> 0 <= a_items d < nextb s) /\
  (forall l, ext l = true -> fst l < 0) /\
  0 <= nextb s.

Lemma data_deallocate_post d s f bs nb :
  st_is s f bs nb ->
  (a_cap d <> O -> find_blk (a_items d) bs = Some (mgr, Z.of_nat (a_cap d) * isz)) ->
  post (data_deallocate mgr isz d) s
       (fun _ s' => st_is s' f (match a_cap d with O => bs | _ => remove_blk (a_items d) bs end) nb) (fun _ => False).
Proof.
  intros H Hf. unfold data_deallocate. destruct (a_cap d) as [|k] eqn:E.
  - apply post_ret. exact H.
  - apply p_dealloc_post; [exact H|]. apply Hf. discriminate.
Qed.

Lemma old_new_disjoint d ext s l :
  arr_world d ext s -> inrng (a_items d) 0 (a_count d) l = true -> fst l <> nextb s /\ ext l = false.
Proof.
  intros (_ & Hc0 & Hit & Hext & Hnb) Hin.
  destruct (inrng_spec (a_items d) 0 (a_count d) l) as [[Ea Eb]|]; [|discriminate].
  assert (a_cap d <> O) by (intros E; rewrite (Hc0 E) in Eb; simpl in Eb; lia).
  specialize (Hit H). split; [lia|].
  destruct (ext l) eqn:E; [|reflexivity]. specialize (Hext _ E). lia.
Qed.

Lemma find_blk_old d ext s p :
  arr_world d ext s -> a_cap d <> O ->
  find_blk (a_items d) ((nextb s, p) :: arr_blocks d) = Some (mgr, Z.of_nat (a_cap d) * isz) /\
  remove_blk (a_items d) ((nextb s, p) :: arr_blocks d) = [(nextb s, p)] /\
  remove_blk (nextb s) ((nextb s, p) :: arr_blocks d) = arr_blocks d.
Proof.
  intros (_ & _ & Hit & _ & _) Hc. specialize (Hit Hc). unfold arr_blocks.
  destruct (a_cap d) as [|k]; [congruence|]. simpl.
  destruct (Z.eqb_spec (nextb s) (a_items d)); [lia|]. rewrite !Z.eqb_refl. simpl.
  destruct (Z.eqb_spec (a_items d) (nextb s)); [lia|]. simpl. auto.
Qed.

(* the generic shape of Data::Reset with capacity > 0: allocate, run the items-creator (which on success empties the
   old items and fills [newcount] cells of the new block, and on failure restores the cells), free the old block *)
Lemma data_reset_post d ext s capacity newcount (creator : Z -> M unit) :
  arr_world d ext s -> capacity <> O ->
  (forall s1 bs1,
      st_is s1 (arr_occ d ext) bs1 (nextb s + 1) ->
      post (creator (nextb s)) s1
           (fun _ s2 => st_is s2 (fun l => inrng (nextb s) 0 newcount l || ext l) bs1 (nextb s + 1))
           (fun s2 => st_is s2 (arr_occ d ext) bs1 (nextb s + 1))) ->
  post (data_reset mgr isz d capacity newcount creator) s
       (fun d' s' => arr_world d' ext s' /\ a_count d' = newcount /\ a_cap d' = capacity)
       (fun s' => arr_world d ext s').
Proof.
  intros W Hc Hcr. pose proof W as (H & Hc0 & Hit & Hext & Hnb).
  unfold data_reset. destruct capacity as [|cap']; [congruence|]. set (capacity := S cap') in *.
  apply post_bind.
  eapply post_conseq; [apply (p_alloc_post mgr (Z.of_nat capacity * isz) s _ _ _ H)| |].
  2:{ intros s' (A & B & C). unfold arr_world. rewrite C. split; [repeat split; auto|]. auto. }
  intros items s1 [Ei H1]. subst items.
  set (p := (mgr, Z.of_nat capacity * isz)) in *.
  apply post_bind. apply post_catch.
  eapply post_conseq; [apply (Hcr s1 _ H1)| |].
  - (* creator succeeded: free the old block *)
    intros u2 s2 H2. apply post_bind.
    assert (Hf : a_cap d <> O -> find_blk (a_items d) ((nextb s, p) :: arr_blocks d) = Some (mgr, Z.of_nat (a_cap d) * isz)).
    { intros Hne. apply (find_blk_old d ext s p W Hne). }
    eapply post_conseq; [apply (data_deallocate_post d s2 _ _ _ H2 Hf)| |intros ? []].
    intros u3 s3 (A & B & C). apply post_ret.
    assert (Bl : blocks s3 = [(nextb s, p)]).
    { rewrite B. destruct (a_cap d) as [|k] eqn:E.
      - unfold arr_blocks. rewrite E. reflexivity.
      - apply (find_blk_old d ext s p W). congruence. }
    split; [|split; reflexivity].
    unfold arr_world. cbn [a_items a_count a_cap]. rewrite C.
    split; [split; [exact A|split; [|exact C]]|].
    + rewrite Bl. reflexivity.
    + split; [intros E; discriminate|]. split; [intros _; lia|]. split; [exact Hext|lia].
  - (* creator threw: give the new block back *)
    intros s2 H2.
    eapply post_conseq; [apply (p_dealloc_post mgr (nextb s) (Z.of_nat capacity * isz) s2 _ _ _ H2)| |intros ? []].
    + simpl. rewrite Z.eqb_refl. reflexivity.
    + intros u3 s3 (A & B & C). unfold arr_world. rewrite C.
      assert (Bl : blocks s3 = arr_blocks d).
      { rewrite B. destruct (Nat.eq_dec (a_cap d) O) as [E|E].
        - unfold arr_blocks. rewrite E. simpl. rewrite Z.eqb_refl. reflexivity.
        - apply (find_blk_old d ext s p W E). }
      split; [split; [exact A|split; [exact Bl|exact C]]|].
      split; [exact Hc0|]. split; [intros Hne; specialize (Hit Hne); lia|]. split; [exact Hext|lia].
Qed.

(* pvGrow / Shrink *)
Theorem array_regrow_post d ext s capacity :
  arr_world d ext s -> capacity <> O ->
  post (array_regrow c mgr isz d capacity) s
       (fun d' s' => arr_world d' ext s' /\ a_count d' = a_count d /\ a_cap d' = capacity)
       (fun s' => arr_world d ext s').
Proof.
  intros W Hc. unfold array_regrow. apply (data_reset_post d ext s capacity (a_count d)); auto.
  intros s1 bs1 H1.
  eapply post_conseq; [apply (om_relocate_post c (a_items d) 0 (nextb s) 0 (a_count d) s1 _ _ _ H1)| |intros s2 [_ ?]; assumption].
  - intros k Hk. unfold arr_occ. rewrite (inrng_in (a_items d) 0 (a_count d) k Hk). split; [reflexivity|].
    destruct (old_new_disjoint d ext s (a_items d, 0 + k) W (inrng_in _ _ _ _ Hk)) as [Hne _].
    destruct W as (_ & _ & _ & Hext & Hnb).
    destruct (inrng_spec (a_items d) 0 (a_count d) (nextb s, 0 + k)) as [[Ea _]|]; [simpl in *; congruence|].
    destruct (ext (nextb s, 0 + k)) eqn:E; [|reflexivity]. specialize (Hext _ E). simpl in Hext. lia.
  - intros u2 s2 H2. eapply st_is_ext; [|exact H2]. intros l. unfold arr_occ.
    destruct (inrng (a_items d) 0 (a_count d) l) eqn:Eo; simpl.
    + destruct (old_new_disjoint d ext s l W Eo) as [Hne He]. rewrite He, orb_false_r.
      symmetry. apply inrng_other_region. exact Hne.
    + reflexivity.
Qed.

(* pvAddBackGrow(ItemCreator): the copy-only path *)
Theorem array_addback_grow_post d ext s capacity arg :
  arr_world d ext s -> capacity <> O -> ext arg = true ->
  post (array_addback_grow c mgr isz d capacity arg) s
       (fun d' s' => arr_world d' ext s' /\ a_count d' = S (a_count d) /\ a_cap d' = capacity)
       (fun s' => arr_world d ext s').
Proof.
  intros W Hc Ha. unfold array_addback_grow. apply (data_reset_post d ext s capacity (S (a_count d))); auto.
  intros s1 bs1 H1. pose proof W as (_ & _ & _ & Hext & Hnb).
  assert (Hnew : forall k, ext (nextb s, k) = false).
  { intros k. destruct (ext (nextb s, k)) eqn:E; [|reflexivity]. specialize (Hext _ E). simpl in Hext. lia. }
  assert (Hnew2 : forall k, inrng (a_items d) 0 (a_count d) (nextb s, k) = false).
  { intros k. destruct (inrng (a_items d) 0 (a_count d) (nextb s, k)) eqn:E; [|reflexivity].
    destruct (old_new_disjoint d ext s _ W E) as [Hne _]. simpl in Hne. congruence. }
  eapply post_conseq;
    [apply (om_relocate_create_post c (a_items d) 0 (nextb s) 0 (a_count d) (nextb s, Z.of_nat (a_count d)) arg s1 _ _ _ H1)| |auto].
  - intros k Hk. unfold arr_occ. rewrite (inrng_in (a_items d) 0 (a_count d) k Hk), Hnew2, Hnew. split; reflexivity.
  - unfold arr_occ. rewrite Ha. apply orb_true_r.
  - unfold arr_occ. rewrite Hnew2, Hnew. reflexivity.
  - destruct (inrng_spec (nextb s) 0 (a_count d) (nextb s, Z.of_nat (a_count d))) as [[_ Eb]|]; [simpl in Eb; lia|reflexivity].
  - intros u2 s2 H2. eapply st_is_ext; [|exact H2]. intros l. unfold arr_occ.
    pose proof (inrng_snoc (nextb s) 0 (a_count d) l) as E. rewrite Z.add_0_l in E.
    rewrite E.
    destruct (inrng (a_items d) 0 (a_count d) l) eqn:Eo; simpl.
    + destruct (old_new_disjoint d ext s l W Eo) as [Hne He]. rewrite He, orb_false_r.
      rewrite (inrng_other_region (nextb s) 0 (a_count d) l Hne).
      destruct (loc_eqb_spec l (nextb s, Z.of_nat (a_count d))) as [El|]; [subst l; simpl in Hne; congruence|reflexivity].
    + reflexivity.
Qed.

(* Data::pvDestroy = ~Array: zero live cells of the array, zero blocks *)
Theorem array_destroy_post d ext s :
  arr_world d ext s ->
  post (array_destroy mgr isz d) s (fun _ s' => st_is s' ext [] (nextb s)) (fun _ => False).
Proof.
  intros W. pose proof W as (H & Hc0 & Hit & Hext & Hnb). unfold array_destroy. apply post_bind.
  eapply post_conseq; [apply (om_destroy_n_post (a_items d) (a_count d) 0 s _ _ _ H)| |auto].
  - intros k Hk. unfold arr_occ. rewrite (inrng_in _ _ _ _ Hk). reflexivity.
  - intros u1 s1 H1.
    assert (Hf : a_cap d <> O -> find_blk (a_items d) (arr_blocks d) = Some (mgr, Z.of_nat (a_cap d) * isz)).
    { intros Hne. unfold arr_blocks. destruct (a_cap d); [congruence|]. simpl. rewrite Z.eqb_refl. reflexivity. }
    eapply post_conseq; [apply (data_deallocate_post d s1 _ _ _ H1 Hf)| |auto].
    intros u2 s2 (A & B & C). split; [|split; [|assumption]].
    + intros l. rewrite A. unfold arr_occ. destruct (inrng (a_items d) 0 (a_count d) l) eqn:Eo; simpl; [|reflexivity].
      destruct (old_new_disjoint d ext s l W Eo) as [_ He]. symmetry. exact He.
    + rewrite B. unfold arr_blocks. destruct (a_cap d); [reflexivity|]. simpl. rewrite Z.eqb_refl. reflexivity.
Qed.

(* any operation with the regrow/addback contract, followed by the destructor, whatever the schedule: nothing is left *)
Theorem array_op_then_destroy_post d ext s (op : M adata) (Qd : adata -> Prop) :
  arr_world d ext s ->
  post op s (fun d' s' => arr_world d' ext s' /\ Qd d') (fun s' => arr_world d ext s') ->
  post (array_op_then_destroy mgr isz d op) s
       (fun _ s' => st_is s' ext [] (nextb s')) (fun s' => st_is s' ext [] (nextb s')).
Proof.
  intros W P. unfold array_op_then_destroy, post in *.
  destruct (op s) as [[d'| |] s1]; [| |contradiction].
  - destruct P as [W' _]. pose proof (array_destroy_post d' ext s1 W') as D. unfold post in D.
    destruct (array_destroy mgr isz d' s1) as [[u| |] s2]; try contradiction.
    destruct D as (A & B & C). rewrite C. repeat split; auto.
  - pose proof (array_destroy_post d ext s1 P) as D. unfold post in D.
    destruct (array_destroy mgr isz d s1) as [[u| |] s2]; try contradiction.
    destruct D as (A & B & C). rewrite C. repeat split; auto.
Qed.

End ArrayProofs.

(* pvAddBackGrow(const Item&, true_type): the path of nothrow-relocatable items (copy into a stack buffer, grow, relocate) *)
Lemma inrng_1 r b l : inrng r b 1 l = loc_eqb l (r, b).
Proof. rewrite inrng_S, inrng_0. apply orb_false_r. Qed.

Theorem array_addback_grow_nt_post mgr isz d ext s capacity arg tmp :
  arr_world mgr isz d ext s -> capacity <> O -> ext arg = true -> ext tmp = false -> fst tmp < 0 ->
  post (array_addback_grow_nt NTM mgr isz d capacity arg tmp) s
       (fun d' s' => arr_world mgr isz d' ext s' /\ a_count d' = S (a_count d) /\ a_cap d' = capacity)
       (fun s' => arr_world mgr isz d ext s').
Proof.
  intros W Hc Ha Ht Htn. pose proof W as (H & Hc0 & Hit & Hext & Hnb).
  set (ext' := fun l => loc_eqb l tmp || ext l).
  assert (Htmp_out : forall d0 n0, (a_cap d0 <> O -> 0 <= a_items d0) -> (a_cap d0 = O -> n0 = O) ->
             inrng (a_items d0) 0 n0 tmp = false).
  { intros d0 n0 H1 H2. destruct (inrng_spec (a_items d0) 0 n0 tmp) as [[Ea Eb]|]; [|reflexivity].
    destruct (Nat.eq_dec (a_cap d0) O) as [E|E]; [rewrite (H2 E) in Eb; simpl in Eb; lia|]. specialize (H1 E). lia. }
  assert (T0 : inrng (a_items d) 0 (a_count d) tmp = false).
  { apply Htmp_out; [intros E; specialize (Hit E); lia|exact Hc0]. }
  unfold array_addback_grow_nt. apply post_bind. unfold om_copy.
  eapply post_conseq; [apply (p_copy_post tmp arg s _ _ _ H)| |].
  - unfold arr_occ. rewrite Ha. apply orb_true_r.
  - unfold arr_occ. rewrite T0, Ht. reflexivity.
  - (* the copy succeeded *)
    intros u1 s1 H1.
    assert (W1 : arr_world mgr isz d ext' s1).
    { destruct H1 as (A & B & C). unfold arr_world. rewrite C. split; [split; [|split; [exact B|exact C]]|].
      - intros l. rewrite A. unfold arr_occ, ext'.
        destruct (loc_eqb l tmp), (inrng (a_items d) 0 (a_count d) l), (ext l); reflexivity.
      - split; [exact Hc0|]. split; [exact Hit|]. split; [|exact Hnb].
        intros l E. unfold ext' in E. destruct (loc_eqb_spec l tmp) as [El|]; [subst l; exact Htn|]. apply Hext. exact E. }
    apply post_bind. apply post_catch.
    eapply post_conseq; [apply (array_regrow_post NTM mgr isz d ext' s1 capacity W1 Hc)| |].
    + (* grown *)
      intros d' s2 (W2 & Ecnt & Ecap). pose proof W2 as (H2 & Hc0' & Hit' & Hext' & Hnb').
      assert (Hcap' : a_cap d' <> O) by congruence. specialize (Hit' Hcap').
      apply post_bind.
      assert (Hr : reloc_pre (arr_occ d' ext') (fst tmp) (snd tmp) (a_items d') (Z.of_nat (a_count d)) 1).
      { intros k Hk. assert (k = 0) by lia. subst k. rewrite !Z.add_0_r. unfold arr_occ, ext'. split.
        - replace (fst tmp, snd tmp) with tmp by (destruct tmp; reflexivity). rewrite loc_eqb_refl. rewrite orb_true_r. reflexivity.
        - rewrite Ecnt.
          destruct (inrng_spec (a_items d') 0 (a_count d) (a_items d', Z.of_nat (a_count d))) as [[_ Eb]|]; [simpl in Eb; lia|].
          destruct (loc_eqb_spec (a_items d', Z.of_nat (a_count d)) tmp) as [E|]; [rewrite <- E in Htn; simpl in Htn; lia|].
          simpl. destruct (ext (a_items d', Z.of_nat (a_count d))) eqn:E; [|reflexivity].
          specialize (Hext _ E). simpl in Hext. lia. }
      eapply post_conseq; [apply (om_relocate_post NTM _ _ _ _ _ s2 _ _ _ H2 Hr)| |intros s3 [E _]; discriminate].
      intros u3 s3 (A & B & C). apply post_ret. split; [|split; [reflexivity|exact Ecap]].
      unfold arr_world. cbn [a_items a_count a_cap]. rewrite C.
      split; [split; [|split; [exact B|exact C]]|].
      * intros l. rewrite A. unfold arr_occ, ext'. cbn [a_items a_count]. rewrite Ecnt, !inrng_1.
        pose proof (inrng_snoc (a_items d') 0 (a_count d) l) as E. rewrite Z.add_0_l in E. rewrite E.
        replace (fst tmp, snd tmp) with tmp by (destruct tmp; reflexivity).
        destruct (loc_eqb_spec l tmp) as [El|]; cbn [negb andb orb].
        -- subst l. rewrite Ht.
           rewrite (Htmp_out d' (a_count d)) by (intros; lia || congruence).
           destruct (loc_eqb_spec tmp (a_items d', Z.of_nat (a_count d))) as [E2|]; [rewrite E2 in Htn; simpl in Htn; lia|reflexivity].
        -- destruct (loc_eqb l (a_items d', Z.of_nat (a_count d))), (inrng (a_items d') 0 (a_count d) l), (ext l); reflexivity.
      * split; [intros E; congruence|]. split; [intros _; exact Hit'|]. split; [exact Hext|exact Hnb'].
    + (* growing threw: destroy the stack copy *)
      intros s2 W2. pose proof W2 as (H2 & _ & Hit2 & _ & Hnb2).
      eapply post_conseq; [apply (om_destroy_n_post (fst tmp) 1 (snd tmp) s2 _ _ _ H2)| |intros ? []].
      * intros k Hk. assert (k = 0) by lia. subst k. rewrite Z.add_0_r. unfold arr_occ, ext'.
        replace (fst tmp, snd tmp) with tmp by (destruct tmp; reflexivity). rewrite loc_eqb_refl. rewrite orb_true_r. reflexivity.
      * intros u3 s3 (A & B & C). unfold arr_world. rewrite C.
        split; [split; [|split; [exact B|exact C]]|].
        -- intros l. rewrite A. unfold arr_occ, ext'. rewrite inrng_1.
           replace (fst tmp, snd tmp) with tmp by (destruct tmp; reflexivity).
           destruct (loc_eqb_spec l tmp) as [El|]; cbn [negb andb orb]; [|reflexivity].
           subst l. rewrite T0, Ht. reflexivity.
        -- split; [exact Hc0|]. split; [exact Hit2|]. split; [exact Hext|exact Hnb2].
  - (* the copy threw *)
    intros s1 (A & B & C). unfold arr_world. rewrite C. split; [split; [exact A|split; [exact B|exact C]]|]. auto.
Qed.

(* the tag dispatch of pvAddBackGrow(const Item&) *)
Theorem array_addback_post c mgr isz d ext s capacity arg tmp :
  arr_world mgr isz d ext s -> capacity <> O -> ext arg = true -> ext tmp = false -> fst tmp < 0 ->
  post (array_addback c mgr isz d capacity arg tmp) s
       (fun d' s' => arr_world mgr isz d' ext s' /\ a_count d' = S (a_count d) /\ a_cap d' = capacity)
       (fun s' => arr_world mgr isz d ext s').
Proof.
  intros W Hc Ha Ht Htn. unfold array_addback. destruct c; cbn [nothrow_reloc].
  - apply (array_addback_grow_nt_post mgr isz d ext s capacity arg tmp W Hc Ha Ht Htn).
  - apply (array_addback_grow_post CPO mgr isz d ext s capacity arg W Hc Ha).
Qed.




(* ------------------------------------------------------------------ constructor catch blocks *)
Definition is_stuck {A} (r : outcome A * rstate) : bool := match r with (Stuck, _) => true | _ => false end.

(* The constructor shape BEFORE fix 806b9fe (the catch block calls pvDestroy() and leaves mBuckets / mNodeParams dangling;
   the destructor of the delegating constructor then runs pvDestroy() again): with 3 items and the first item copy
   failing, the second pvDestroy touches the freed bucket array - the machine is Stuck (use after free / double destroy). *)
Theorem ctor_double_destroy_refuted :
  exists (sch : list bool) (n : nat),
    is_stuck (hs_copy_then_destroy 1 64 16 24 false (-1) n (init_state (-1) (Z.of_nat n) sch)) = true /\
    is_stuck (ts_copy_then_destroy 1 24 96 168 false (-1) n (init_state (-1) (Z.of_nat n) sch)) = true.
Proof. exists [false; false; false; true], 3%nat. split; vm_compute; reflexivity. Qed.

(* ... and the same schedules on the shape AFTER the fix end with an exception, zero live blocks, and only the source cells *)
Definition clean_after (r : outcome unit * rstate) (n : Z) : bool :=
  match r with
  | (Stuck, _) => false
  | (_, s') => match blocks s' with [] => true | _ => false end &&
               forallb (fun l => Bool.eqb (occ (cells s' l)) (occ (init_cells (-1) n l)))
                       (flat_map (fun r => map (fun i => (r, Z.of_nat i)) (seq 0 8)) [-1; 0; 1; 2; 3; 4])
  end.

(* every schedule of length <= 10 (1023 schedules... enumerated as "first failure at k") x every n <= 6: finite sanity sweep *)
Fixpoint sched_fail_at (k : nat) : list bool := match k with O => [true] | S k' => false :: sched_fail_at k' end.
Definition ctor_sweep (fixed : bool) : bool :=
  forallb (fun n => forallb (fun k =>
      let sch := if Nat.eqb k 12 then [] else sched_fail_at k in
      clean_after (hs_copy_then_destroy 1 64 16 24 fixed (-1) n (init_state (-1) (Z.of_nat n) sch)) (Z.of_nat n) &&
      clean_after (ts_copy_then_destroy 1 24 96 168 fixed (-1) n (init_state (-1) (Z.of_nat n) sch)) (Z.of_nat n))
    (seq 0 13)) (seq 0 7).
Example ctor_fixed_sweep : ctor_sweep true = true.
Proof. vm_compute. reflexivity. Qed.
Example ctor_prefix_sweep_fails : ctor_sweep false = false.
Proof. vm_compute. reflexivity. Qed.

Section CtorProofs.
Variables mgr bufsz parsz crewsz nodesz tparsz : Z.

Definition fresh (bs : list (Z * (Z * Z))) (nb : Z) : Prop := forall b p, In (b, p) bs -> b < nb.

Lemma remove_blk_fresh bs nb b : fresh bs nb -> nb <= b -> remove_blk b bs = bs.
Proof.
  unfold fresh, remove_blk. induction bs as [|[b' p] bs IH]; intros Hf Hb; simpl; [reflexivity|].
  destruct (Z.eqb_spec b' b) as [E|E]; simpl.
  - specialize (Hf b' p (or_introl eq_refl)). lia.
  - f_equal. apply IH; [|assumption]. intros b0 p0 Hin. apply (Hf b0 p0). right. exact Hin.
Qed.

Lemma fresh_cons b p bs nb : fresh bs nb -> b < nb + 1 -> fresh ((b, p) :: bs) (nb + 1).
Proof.
  intros Hf Hb b' p' [E|Hin]; [inversion E; subst; lia|]. specialize (Hf _ _ Hin). lia.
Qed.

Lemma fresh_mono bs nb nb' : fresh bs nb -> nb <= nb' -> fresh bs nb'.
Proof. intros Hf Hle b p Hin. specialize (Hf _ _ Hin). lia. Qed.

(* a world in which everything at or above the next block id is untouched *)
Definition fresh_world (s : rstate) (f : loc -> bool) (bs : list (Z * (Z * Z))) : Prop :=
  st_is s f bs (nextb s) /\ fresh bs (nextb s) /\ (forall l, nextb s <= fst l -> f l = false).

(* HashSetBuckets::Create *)
Lemma buckets_create_post s f bs nb :
  st_is s f bs nb -> fresh bs nb ->
  post (buckets_create mgr bufsz parsz) s
       (fun bp s' => bp = (nb, nb + 1) /\ st_is s' f ((nb + 1, (mgr, parsz)) :: (nb, (mgr, bufsz)) :: bs) (nb + 2))
       (fun s' => exists nb', nb <= nb' /\ st_is s' f bs nb').
Proof.
  intros H Hf. unfold buckets_create. apply post_bind.
  eapply post_conseq; [apply (p_alloc_post mgr bufsz s f bs nb H)| |intros s' H'; exists nb; split; [lia|exact H']].
  intros buf s1 [Eb H1]. subst buf. apply post_bind. apply post_catch.
  eapply post_conseq; [apply (p_alloc_post mgr parsz s1 _ _ _ H1)| |].
  - intros par s2 [Ep H2]. subst par. apply post_ret. split; [reflexivity|].
    replace (nb + 2) with (nb + 1 + 1) by lia. exact H2.
  - intros s2 H2.
    eapply post_conseq; [apply (p_dealloc_post mgr nb bufsz s2 _ _ _ H2)| |intros ? []].
    + simpl. rewrite Z.eqb_refl. reflexivity.
    + intros u s3 H3. exists (nb + 1). split; [lia|].
      simpl in H3. rewrite Z.eqb_refl in H3. simpl in H3. rewrite (remove_blk_fresh bs nb nb Hf) in H3 by lia. exact H3.
Qed.

(* HashSet::pvDestroy on a non-null mBuckets with [fill] constructed items *)
Lemma hs_pv_destroy_post b0 fill s f bs nb :
  st_is s f ((b0 + 1, (mgr, parsz)) :: (b0, (mgr, bufsz)) :: bs) nb -> fresh bs b0 ->
  (forall k, 0 <= k < Z.of_nat fill -> f (b0, 0 + k) = true) ->
  post (hs_pv_destroy mgr bufsz parsz (mkH (Some (b0, b0 + 1)) fill)) s
       (fun _ s' => st_is s' (fun l => negb (inrng b0 0 fill l) && f l) bs nb) (fun _ => False).
Proof.
  intros H Hf Hfill. unfold hs_pv_destroy. cbn [h_buckets h_fill].
  assert (Hne : Z.eqb (b0 + 1) b0 = false) by (destruct (Z.eqb_spec (b0 + 1) b0); [lia|reflexivity]).
  apply post_bind.
  eapply post_conseq; [apply (p_touch_post b0 s _ _ _ (mgr, bufsz) H)| |auto].
  { simpl. rewrite Hne, Z.eqb_refl. reflexivity. }
  intros u1 s1 H1. apply post_bind.
  eapply post_conseq; [apply (om_destroy_n_post b0 fill 0 s1 _ _ _ H1 Hfill)| |auto].
  intros u2 s2 H2. apply post_bind.
  eapply post_conseq; [apply (p_dealloc_post mgr (b0 + 1) parsz s2 _ _ _ H2)| |auto].
  { simpl. rewrite Z.eqb_refl. reflexivity. }
  intros u3 s3 H3.
  assert (E3 : remove_blk (b0 + 1) ((b0 + 1, (mgr, parsz)) :: (b0, (mgr, bufsz)) :: bs) = (b0, (mgr, bufsz)) :: bs).
  { simpl. rewrite Z.eqb_refl. simpl.
    destruct (Z.eqb_spec b0 (b0 + 1)); [lia|]. simpl. f_equal. apply (remove_blk_fresh bs b0); [assumption|lia]. }
  rewrite E3 in H3.
  eapply post_conseq; [apply (p_dealloc_post mgr b0 bufsz s3 _ _ _ H3)| |auto].
  { simpl. rewrite Z.eqb_refl. reflexivity. }
  intros u4 s4 H4. simpl in H4. rewrite Z.eqb_refl in H4. simpl in H4.
  rewrite (remove_blk_fresh bs b0 b0 Hf) in H4 by lia. exact H4.
Qed.

(* HashSet(const HashSet&, MemManager) as it is after fix 806b9fe *)
Lemma hs_copy_ctor_spec sr n s f bs :
  fresh_world s f bs -> (forall k, 0 <= k < Z.of_nat n -> f (sr, 0 + k) = true) ->
  match hs_copy_ctor mgr bufsz parsz true sr n s with
  | ((h, Val _), s') =>
      (n = O /\ h = mkH None O /\ st_is s' f bs (nextb s) ) \/
      (n <> O /\ h = mkH (Some (nextb s, nextb s + 1)) n /\
       st_is s' (fun l => inrng (nextb s) 0 n l || f l)
             ((nextb s + 1, (mgr, parsz)) :: (nextb s, (mgr, bufsz)) :: bs) (nextb s + 2))
  | ((h, Exc), s') => h_buckets h = None /\ exists nb', nextb s <= nb' /\ st_is s' f bs nb'
  | ((_, Stuck), _) => False
  end.
Proof.
  intros (H & Hf & Hcl) Hsrc. unfold hs_copy_ctor. destruct n as [|n'].
  - left. auto.
  - set (n := S n') in *.
    pose proof (buckets_create_post s f bs (nextb s) H Hf) as P. unfold post in P.
    destruct (buckets_create mgr bufsz parsz s) as [[[buf par]| |] s1]; [| |contradiction].
    2:{ split; [reflexivity|exact P]. }
    destruct P as [Ebp H1]. inversion Ebp; subst buf par. clear Ebp.
    set (nb := nextb s) in *.
    assert (Hr : forall k, 0 <= k < Z.of_nat n -> f (sr, 0 + 0 + k) = true /\ f (nb, 0 + 0 + k) = false).
    { intros k Hk. split; [apply Hsrc; assumption|]. apply Hcl. simpl. lia. }
    pose proof (om_copy_loop_post sr 0 nb 0 n 0 s1 f _ _ H1 Hr) as L.
    destruct (om_copy_loop sr 0 nb 0 0 n s1) as [[idx o] s2].
    destruct o as [u| |]; [| |contradiction].
    + right. destruct L as [_ S2]. split; [discriminate|]. split; [reflexivity|]. exact S2.
    + destruct L as [Hi S2]. rewrite Z.add_0_l, Z.sub_0_r in S2.
      assert (Hfr : fresh bs nb) by exact Hf.
      pose proof (hs_pv_destroy_post nb (Z.to_nat idx) s2 _ bs (nb + 2) S2 Hfr) as D.
      assert (Hfill : forall k, 0 <= k < Z.of_nat (Z.to_nat idx) ->
                 (fun l => inrng nb 0 (Z.to_nat idx) l || f l) (nb, 0 + k) = true).
      { intros k Hk. cbv beta. rewrite (inrng_in nb 0 (Z.to_nat idx) k Hk). reflexivity. }
      specialize (D Hfill). unfold post in D.
      destruct (hs_pv_destroy mgr bufsz parsz {| h_buckets := Some (nb, nb + 1); h_fill := Z.to_nat idx |} s2)
        as [[u| |] s3]; try contradiction.
      split; [reflexivity|]. exists (nb + 2). split; [lia|].
      eapply st_is_ext; [|exact D]. apply undo_dst. intros k Hk. apply Hcl. simpl. lia.
Qed.

Theorem hs_copy_then_destroy_post sr n s f bs :
  fresh_world s f bs -> (forall k, 0 <= k < Z.of_nat n -> f (sr, 0 + k) = true) ->
  post (hs_copy_then_destroy mgr bufsz parsz crewsz true sr n) s
       (fun _ s' => st_is s' f bs (nextb s')) (fun s' => st_is s' f bs (nextb s')).
Proof.
  intros W Hsrc. pose proof W as (H & Hf & Hcl). unfold hs_copy_then_destroy, post.
  pose proof (p_alloc_post mgr crewsz s f bs (nextb s) H) as P0. unfold post in P0.
  destruct (p_alloc mgr crewsz s) as [[crew| |] s0]; [| |contradiction].
  2:{ destruct P0 as (A & B & C). rewrite C. repeat split; auto. }
  destruct P0 as [Ec S0]. subst crew. set (nb := nextb s) in *.
  assert (N0 : nextb s0 = nb + 1) by (destruct S0 as (_ & _ & C); exact C).
  assert (W0 : fresh_world s0 f ((nb, (mgr, crewsz)) :: bs)).
  { split; [rewrite N0; exact S0|]. split.
    - rewrite N0. apply fresh_cons; [exact Hf|lia].
    - intros l Hl. apply Hcl. fold nb. lia. }
  pose proof (hs_copy_ctor_spec sr n s0 f _ W0 Hsrc) as C.
  destruct (hs_copy_ctor mgr bufsz parsz true sr n s0) as [[h o] s1].
  assert (Fin : forall s1' nb', st_is s1' f ((nb, (mgr, crewsz)) :: bs) nb' ->
            match p_dealloc mgr nb crewsz s1' with
            | (Val _, s2) => st_is s2 f bs (nextb s2)
            | (Exc, s2) => st_is s2 f bs (nextb s2)
            | (Stuck, _) => False
            end).
  { intros s1' nb' H1'. pose proof (p_dealloc_post mgr nb crewsz s1' _ _ _ H1') as D. unfold post in D.
    assert (Hfd : find_blk nb ((nb, (mgr, crewsz)) :: bs) = Some (mgr, crewsz)) by (simpl; rewrite Z.eqb_refl; reflexivity).
    specialize (D Hfd). destruct (p_dealloc mgr nb crewsz s1') as [[u| |] s2]; try contradiction.
    simpl in D. rewrite Z.eqb_refl in D. simpl in D. rewrite (remove_blk_fresh bs nb nb Hf) in D by lia.
    destruct D as (A & B & Cn). rewrite Cn. repeat split; auto. }
  destruct o as [u| |]; [| |contradiction].
  - destruct C as [(En & Eh & S1)|(En & Eh & S1)]; subst h.
    + (* empty source *) unfold bind, hs_pv_destroy, ret. cbn [h_buckets].
      specialize (Fin s1 _ S1). destruct (p_dealloc mgr nb crewsz s1) as [[u'| |] s2]; try contradiction; exact Fin.
    + rewrite N0 in S1.
      pose proof (hs_pv_destroy_post (nb + 1) n s1 _ ((nb, (mgr, crewsz)) :: bs) _ S1) as D.
      assert (Hfr : fresh ((nb, (mgr, crewsz)) :: bs) (nb + 1)) by (apply fresh_cons; [exact Hf|lia]).
      assert (Hfill : forall k, 0 <= k < Z.of_nat n -> (fun l => inrng (nb + 1) 0 n l || f l) (nb + 1, 0 + k) = true).
      { intros k Hk. cbv beta. rewrite (inrng_in (nb + 1) 0 n k Hk). reflexivity. }
      rewrite N0. specialize (D Hfr Hfill). unfold post in D. unfold bind.
      destruct (hs_pv_destroy mgr bufsz parsz {| h_buckets := Some (nb + 1, nb + 1 + 1); h_fill := n |} s1)
        as [[u'| |] s2]; try contradiction.
      assert (S2 : st_is s2 f ((nb, (mgr, crewsz)) :: bs) (nb + 1 + 2)).
      { eapply st_is_ext; [|exact D]. apply undo_dst. intros k Hk. apply Hcl. simpl. fold nb. lia. }
      specialize (Fin s2 _ S2). destruct (p_dealloc mgr nb crewsz s2) as [[u''| |] s3]; try contradiction; exact Fin.
  - destruct C as [Eh (nb' & Hle & S1)]. unfold bind, hs_pv_destroy, ret. rewrite Eh.
    specialize (Fin s1 _ S1). destruct (p_dealloc mgr nb crewsz s1) as [[u'| |] s2]; try contradiction; exact Fin.
Qed.

(* ---------------- TreeSet(const TreeSet&, MemManager), root = leaf *)
Lemma ts_pv_copy_leaf_post sr n s f bs nb :
  st_is s f bs nb -> fresh bs nb -> (forall l, nb <= fst l -> f l = false) ->
  (forall k, 0 <= k < Z.of_nat n -> f (sr, 0 + k) = true) ->
  post (ts_pv_copy_leaf mgr nodesz sr n) s
       (fun node s' => node = nb /\ st_is s' (fun l => inrng nb 0 n l || f l) ((nb, (mgr, nodesz)) :: bs) (nb + 1))
       (fun s' => exists nb', nb <= nb' /\ st_is s' f bs nb').
Proof.
  intros H Hf Hcl Hsrc. unfold ts_pv_copy_leaf, post.
  pose proof (p_alloc_post mgr nodesz s f bs nb H) as P. unfold post in P.
  destruct (p_alloc mgr nodesz s) as [[node| |] s1]; [| |contradiction].
  2:{ exists nb. split; [lia|exact P]. }
  destruct P as [En H1]. subst node.
  assert (Hr : forall k, 0 <= k < Z.of_nat n -> f (sr, 0 + 0 + k) = true /\ f (nb, 0 + 0 + k) = false).
  { intros k Hk. split; [apply Hsrc; assumption|]. apply Hcl. simpl. lia. }
  pose proof (om_copy_loop_post sr 0 nb 0 n 0 s1 f _ _ H1 Hr) as L.
  destruct (om_copy_loop sr 0 nb 0 0 n s1) as [[idx o] s2].
  destruct o as [u| |]; [| |contradiction].
  - destruct L as [_ S2]. split; [reflexivity|exact S2].
  - destruct L as [Hi S2]. rewrite Z.add_0_l, Z.sub_0_r in S2.
    fold (post (catch_rethrow (@throw Z) (om_destroy_n nb 0 (Z.to_nat idx) ;;; p_dealloc mgr nb nodesz)) s2
           (fun node s' => node = nb /\ st_is s' (fun l => inrng nb 0 n l || f l) ((nb, (mgr, nodesz)) :: bs) (nb + 1))
           (fun s' => exists nb', nb <= nb' /\ st_is s' f bs nb')).
    apply post_catch. apply post_throw. apply post_bind.
    eapply post_conseq; [apply (om_destroy_n_post nb (Z.to_nat idx) 0 s2 _ _ _ S2)| |intros ? []].
    + intros k Hk. cbv beta. rewrite (inrng_in nb 0 (Z.to_nat idx) k Hk). reflexivity.
    + intros u1 s3 H3.
      eapply post_conseq; [apply (p_dealloc_post mgr nb nodesz s3 _ _ _ H3)| |intros ? []].
      * simpl. rewrite Z.eqb_refl. reflexivity.
      * intros u2 s4 H4. exists (nb + 1). split; [lia|].
        simpl in H4. rewrite Z.eqb_refl in H4. simpl in H4. rewrite (remove_blk_fresh bs nb nb Hf) in H4 by lia.
        eapply st_is_ext; [|exact H4]. apply undo_dst. intros k Hk. apply Hcl. simpl. lia.
Qed.

Lemma ts_pv_destroy_full_post par fill s f bs nb :
  st_is s f ((par + 1, (mgr, nodesz)) :: (par, (mgr, tparsz)) :: bs) nb -> fresh bs par ->
  (forall k, 0 <= k < Z.of_nat fill -> f (par + 1, 0 + k) = true) ->
  post (ts_pv_destroy mgr nodesz tparsz (mkT (Some (par + 1)) (Some par) fill)) s
       (fun _ s' => st_is s' (fun l => negb (inrng (par + 1) 0 fill l) && f l) bs nb) (fun _ => False).
Proof.
  intros H Hf Hfill. unfold ts_pv_destroy. cbn [t_root t_params t_fill].
  apply post_bind. apply post_bind.
  eapply post_conseq; [apply (p_touch_post (par + 1) s _ _ _ (mgr, nodesz) H)| |auto].
  { simpl. rewrite Z.eqb_refl. reflexivity. }
  intros u1 s1 H1. apply post_bind.
  eapply post_conseq; [apply (om_destroy_n_post (par + 1) fill 0 s1 _ _ _ H1 Hfill)| |auto].
  intros u2 s2 H2.
  eapply post_conseq; [apply (p_dealloc_post mgr (par + 1) nodesz s2 _ _ _ H2)| |auto].
  { simpl. rewrite Z.eqb_refl. reflexivity. }
  intros u3 s3 H3.
  assert (E3 : remove_blk (par + 1) ((par + 1, (mgr, nodesz)) :: (par, (mgr, tparsz)) :: bs) = (par, (mgr, tparsz)) :: bs).
  { simpl. rewrite Z.eqb_refl. simpl.
    destruct (Z.eqb_spec par (par + 1)); [lia|]. simpl. f_equal. apply (remove_blk_fresh bs par); [assumption|lia]. }
  rewrite E3 in H3.
  eapply post_conseq; [apply (p_dealloc_post mgr par tparsz s3 _ _ _ H3)| |auto].
  { simpl. rewrite Z.eqb_refl. reflexivity. }
  intros u4 s4 H4. simpl in H4. rewrite Z.eqb_refl in H4. simpl in H4.
  rewrite (remove_blk_fresh bs par par Hf) in H4 by lia. exact H4.
Qed.

Lemma ts_copy_ctor_spec sr n s f bs :
  fresh_world s f bs -> (forall k, 0 <= k < Z.of_nat n -> f (sr, 0 + k) = true) ->
  match ts_copy_ctor mgr nodesz tparsz true sr n s with
  | ((t, Val _), s') =>
      (n = O /\ t = mkT None None O /\ st_is s' f bs (nextb s)) \/
      (n <> O /\ t = mkT (Some (nextb s + 1)) (Some (nextb s)) n /\
       st_is s' (fun l => inrng (nextb s + 1) 0 n l || f l)
             ((nextb s + 1, (mgr, nodesz)) :: (nextb s, (mgr, tparsz)) :: bs) (nextb s + 2))
  | ((t, Exc), s') => t = mkT None None O /\ exists nb', nextb s <= nb' /\ st_is s' f bs nb'
  | ((_, Stuck), _) => False
  end.
Proof.
  intros (H & Hf & Hcl) Hsrc. unfold ts_copy_ctor. destruct n as [|n'].
  - left. auto.
  - set (n := S n') in *. set (nb := nextb s) in *.
    pose proof (p_alloc_post mgr tparsz s f bs nb H) as P. unfold post in P.
    destruct (p_alloc mgr tparsz s) as [[par| |] s1]; [| |contradiction].
    2:{ split; [reflexivity|]. exists nb. split; [lia|exact P]. }
    destruct P as [Ep H1]. subst par.
    assert (Hf1 : fresh ((nb, (mgr, tparsz)) :: bs) (nb + 1)) by (apply fresh_cons; [exact Hf|lia]).
    assert (Hcl1 : forall l, nb + 1 <= fst l -> f l = false) by (intros l Hl; apply Hcl; lia).
    pose proof (ts_pv_copy_leaf_post sr n s1 f _ _ H1 Hf1 Hcl1 Hsrc) as L. unfold post in L.
    destruct (ts_pv_copy_leaf mgr nodesz sr n s1) as [[node| |] s2]; [| |contradiction].
    + right. destruct L as [En S2]. subst node. split; [discriminate|]. split; [reflexivity|].
      replace (nb + 2) with (nb + 1 + 1) by lia. exact S2.
    + destruct L as (nb' & Hle & S2).
      unfold ts_pv_destroy. cbn [t_root t_params]. unfold bind at 1. unfold ret at 1.
      pose proof (p_dealloc_post mgr nb tparsz s2 _ _ _ S2) as D. unfold post in D.
      assert (Hfd : find_blk nb ((nb, (mgr, tparsz)) :: bs) = Some (mgr, tparsz)) by (simpl; rewrite Z.eqb_refl; reflexivity).
      specialize (D Hfd). destruct (p_dealloc mgr nb tparsz s2) as [[u| |] s3]; try contradiction.
      split; [reflexivity|]. exists nb'. split; [lia|].
      simpl in D. rewrite Z.eqb_refl in D. simpl in D. rewrite (remove_blk_fresh bs nb nb Hf) in D by lia. exact D.
Qed.

Theorem ts_copy_then_destroy_post sr n s f bs :
  fresh_world s f bs -> (forall k, 0 <= k < Z.of_nat n -> f (sr, 0 + k) = true) ->
  post (ts_copy_then_destroy mgr crewsz nodesz tparsz true sr n) s
       (fun _ s' => st_is s' f bs (nextb s')) (fun s' => st_is s' f bs (nextb s')).
Proof.
  intros W Hsrc. pose proof W as (H & Hf & Hcl). unfold ts_copy_then_destroy, post.
  pose proof (p_alloc_post mgr crewsz s f bs (nextb s) H) as P0. unfold post in P0.
  destruct (p_alloc mgr crewsz s) as [[crew| |] s0]; [| |contradiction].
  2:{ destruct P0 as (A & B & C). rewrite C. repeat split; auto. }
  destruct P0 as [Ec S0]. subst crew. set (nb := nextb s) in *.
  assert (N0 : nextb s0 = nb + 1) by (destruct S0 as (_ & _ & C); exact C).
  assert (W0 : fresh_world s0 f ((nb, (mgr, crewsz)) :: bs)).
  { split; [rewrite N0; exact S0|]. split.
    - rewrite N0. apply fresh_cons; [exact Hf|lia].
    - intros l Hl. apply Hcl. fold nb. lia. }
  pose proof (ts_copy_ctor_spec sr n s0 f _ W0 Hsrc) as C.
  destruct (ts_copy_ctor mgr nodesz tparsz true sr n s0) as [[t o] s1].
  assert (Fin : forall s1' nb', st_is s1' f ((nb, (mgr, crewsz)) :: bs) nb' ->
            match p_dealloc mgr nb crewsz s1' with
            | (Val _, s2) => st_is s2 f bs (nextb s2)
            | (Exc, s2) => st_is s2 f bs (nextb s2)
            | (Stuck, _) => False
            end).
  { intros s1' nb' H1'. pose proof (p_dealloc_post mgr nb crewsz s1' _ _ _ H1') as D. unfold post in D.
    assert (Hfd : find_blk nb ((nb, (mgr, crewsz)) :: bs) = Some (mgr, crewsz)) by (simpl; rewrite Z.eqb_refl; reflexivity).
    specialize (D Hfd). destruct (p_dealloc mgr nb crewsz s1') as [[u| |] s2]; try contradiction.
    simpl in D. rewrite Z.eqb_refl in D. simpl in D. rewrite (remove_blk_fresh bs nb nb Hf) in D by lia.
    destruct D as (A & B & Cn). rewrite Cn. repeat split; auto. }
  destruct o as [u| |]; [| |contradiction].
  - destruct C as [(En & Et & S1)|(En & Et & S1)]; subst t.
    + unfold ts_pv_destroy. cbn [t_root t_params]. unfold bind, ret. cbv beta iota.
      specialize (Fin s1 _ S1). destruct (p_dealloc mgr nb crewsz s1) as [[u'| |] s2]; try contradiction; exact Fin.
    + rewrite N0 in S1.
      pose proof (ts_pv_destroy_full_post (nb + 1) n s1 _ ((nb, (mgr, crewsz)) :: bs) _ S1) as D.
      assert (Hfr : fresh ((nb, (mgr, crewsz)) :: bs) (nb + 1)) by (apply fresh_cons; [exact Hf|lia]).
      assert (Hfill : forall k, 0 <= k < Z.of_nat n -> (fun l => inrng (nb + 1 + 1) 0 n l || f l) (nb + 1 + 1, 0 + k) = true).
      { intros k Hk. cbv beta. rewrite (inrng_in (nb + 1 + 1) 0 n k Hk). reflexivity. }
      rewrite N0. specialize (D Hfr Hfill). unfold post in D. unfold bind at 1.
      destruct (ts_pv_destroy mgr nodesz tparsz {| t_root := Some (nb + 1 + 1); t_params := Some (nb + 1); t_fill := n |} s1)
        as [[u'| |] s2]; try contradiction.
      assert (S2 : st_is s2 f ((nb, (mgr, crewsz)) :: bs) (nb + 1 + 2)).
      { eapply st_is_ext; [|exact D]. apply undo_dst. intros k Hk. apply Hcl. simpl. fold nb. lia. }
      specialize (Fin s2 _ S2). destruct (p_dealloc mgr nb crewsz s2) as [[u''| |] s3]; try contradiction; exact Fin.
  - destruct C as [Et (nb' & Hle & S1)]. subst t. unfold ts_pv_destroy. cbn [t_root t_params]. unfold bind, ret. cbv beta iota.
    specialize (Fin s1 _ S1). destruct (p_dealloc mgr nb crewsz s1) as [[u'| |] s2]; try contradiction; exact Fin.
Qed.

End CtorProofs.

(* ------------------------------------------------------------------ closed forms (non-vacuity): from the concrete initial
   state with n source items, for EVERY schedule and EVERY n the copy (+ destructor) ends with no block and exactly the
   source items alive *)
Lemma init_fresh_world n sch :
  fresh_world (init_state (-1) n sch) (fun l => occ (init_cells (-1) n l)) [].
Proof.
  split; [|split].
  - split; [|split]; reflexivity.
  - intros b p [].
  - intros l Hl. simpl in Hl. unfold init_cells.
    destruct (Z.eqb_spec (fst l) (-1)); [lia|reflexivity].
Qed.

Lemma init_src_occupied n k : 0 <= k < n -> occ (init_cells (-1) n (-1, 0 + k)) = true.
Proof.
  intros Hk. rewrite Z.add_0_l. unfold init_cells. cbn [fst snd]. rewrite Z.eqb_refl.
  assert (E1 : Z.leb 0 k = true) by (apply Z.leb_le; lia).
  assert (E2 : Z.ltb k n = true) by (apply Z.ltb_lt; lia).
  rewrite E1, E2. reflexivity.
Qed.

Definition only_sources_left (n : Z) (s' : rstate) : Prop :=
  blocks s' = [] /\ forall l, occ (cells s' l) = occ (init_cells (-1) n l).

Theorem hs_copy_any_schedule mgr bufsz parsz crewsz (n : nat) (sch : list bool) :
  post (hs_copy_then_destroy mgr bufsz parsz crewsz true (-1) n) (init_state (-1) (Z.of_nat n) sch)
       (fun _ s' => only_sources_left (Z.of_nat n) s') (fun s' => only_sources_left (Z.of_nat n) s').
Proof.
  eapply post_conseq.
  - apply (hs_copy_then_destroy_post mgr bufsz parsz crewsz (-1) n _ _ _ (init_fresh_world (Z.of_nat n) sch)).
    intros k Hk. apply init_src_occupied. exact Hk.
  - intros u s' (A & B & _). split; [exact B|exact A].
  - intros s' (A & B & _). split; [exact B|exact A].
Qed.

Theorem ts_copy_any_schedule mgr crewsz nodesz tparsz (n : nat) (sch : list bool) :
  post (ts_copy_then_destroy mgr crewsz nodesz tparsz true (-1) n) (init_state (-1) (Z.of_nat n) sch)
       (fun _ s' => only_sources_left (Z.of_nat n) s') (fun s' => only_sources_left (Z.of_nat n) s').
Proof.
  eapply post_conseq.
  - apply (ts_copy_then_destroy_post mgr crewsz nodesz tparsz (-1) n _ _ _ (init_fresh_world (Z.of_nat n) sch)).
    intros k Hk. apply init_src_occupied. exact Hk.
  - intros u s' (A & B & _). split; [exact B|exact A].
  - intros s' (A & B & _). split; [exact B|exact A].
Qed.

(* an array of [count] items in a block of [cap] >= 1 items, block id 0, argument cell (-3,0): satisfies arr_world *)
Definition arr_init (mgr isz : Z) (count cap : nat) (sch : list bool) : rstate :=
  mkR (fun l => if loc_eqb l (-3, 0) then Live 7 else init_cells 0 (Z.of_nat count) l)
      [(0, (mgr, Z.of_nat cap * isz))] sch 1 [].
Definition arg_only (l : loc) : bool := loc_eqb l (-3, 0).

Lemma arr_init_world mgr isz count cap sch :
  cap <> O -> arr_world mgr isz (mkA 0 count cap) arg_only (arr_init mgr isz count cap sch).
Proof.
  intros Hc. unfold arr_world. cbn [a_items a_count a_cap nextb arr_init].
  split; [split; [|split]|].
  - intros l. unfold occf, arr_occ, arg_only, arr_init. cbn [cells a_items a_count].
    destruct (loc_eqb l (-3, 0)); [rewrite orb_true_r; reflexivity|].
    rewrite orb_false_r. unfold init_cells, inrng. rewrite Z.add_0_l.
    destruct (Z.eqb (fst l) 0), (Z.leb 0 (snd l)), (Z.ltb (snd l) (Z.of_nat count)); reflexivity.
  - unfold arr_blocks. cbn [a_cap a_items]. destruct cap; [congruence|reflexivity].
  - reflexivity.
  - split; [intros E; congruence|]. split; [intros _; lia|]. split; [|lia].
    intros l E. unfold arg_only in E. destruct (loc_eqb_spec l (-3, 0)); [subst; simpl; lia|discriminate].
Qed.

(* Array: regrow (Reserve / Shrink) or add-back with growth, then ~Array, for every schedule, count, capacities:
   never Stuck, afterwards no block is live and only the argument cell is occupied *)
Theorem array_regrow_any_schedule c mgr isz count cap newcap sch :
  cap <> O -> newcap <> O ->
  let d := mkA 0 count cap in
  post (array_op_then_destroy mgr isz d (array_regrow c mgr isz d newcap)) (arr_init mgr isz count cap sch)
       (fun _ s' => st_is s' arg_only [] (nextb s')) (fun s' => st_is s' arg_only [] (nextb s')).
Proof.
  intros Hc Hn d. pose proof (arr_init_world mgr isz count cap sch Hc) as W.
  apply (array_op_then_destroy_post mgr isz d arg_only _ _
           (fun d' => a_count d' = a_count d /\ a_cap d' = newcap) W).
  apply (array_regrow_post c mgr isz d arg_only _ newcap W Hn).
Qed.

Theorem array_addback_any_schedule c mgr isz count cap newcap sch :
  cap <> O -> newcap <> O ->
  let d := mkA 0 count cap in
  post (array_op_then_destroy mgr isz d (array_addback_grow c mgr isz d newcap (-3, 0))) (arr_init mgr isz count cap sch)
       (fun _ s' => st_is s' arg_only [] (nextb s')) (fun s' => st_is s' arg_only [] (nextb s')).
Proof.
  intros Hc Hn d. pose proof (arr_init_world mgr isz count cap sch Hc) as W.
  apply (array_op_then_destroy_post mgr isz d arg_only _ _
           (fun d' => a_count d' = S (a_count d) /\ a_cap d' = newcap) W).
  apply (array_addback_grow_post c mgr isz d arg_only _ newcap (-3, 0) W Hn). reflexivity.
Qed.
