(* C01 -- proofs about the model in HashModel.v *)
From Coq Require Import ZArith List Lia Bool Permutation.
From C01 Require Import HashModel.
Import ListNotations.
Local Open Scope Z_scope.

Lemma bfind_some_in : forall k l i pos v, bfind k l i = Some (pos, v) -> In (k, v) l.
Proof.
  induction l as [|[k' v'] r IH]; simpl; intros i pos v H; [discriminate|].
  destruct (Z.eqb_spec k k').
  - inversion H; subst. now left.
  - right. eapply IH; eauto.
Qed.
