(* Property C11 -- theorems only.  Each is closed by `exact <lemma>` and followed by Print Assumptions.
   They talk about GrowModel.v, the executable model of momo::HashSet as a chain of table generations whose extracted
   code is run against the real HashSet/HashMap (with refused allocations and throwing hash functions) on every run.
   kind_ok / kind_ok2 are the facts about a bucket kind that the proofs use (index functions stay inside the table,
   UpdateMaxProbe never under-approximates, the growth policy does not shrink / probing reaches every bucket,
   CalcCapacity <= physical size); they are proved below for the kinds used by the extracted model. *)
From Coq Require Import ZArith List Bool Permutation.
From C11 Require Import GrowModel GenTie GenGrow GenFull GenFullP4 GenMove GenSame GenFacts GenFind GenClear TableRel RemoveIfInterp RemoveAtInterp IterInterp.
Import ListNotations.
Local Open Scope Z_scope.

(* relocate_interrupted_inv.  For EVERY hash function h, bucket capacity, probing scheme, growth policy satisfying kind_ok,
   EVERY sequence of operations and EVERY failure schedule carried by them (hash throwing in pvFind, item creation failing,
   bucket-array allocation refused, any item migration of any pvRelocateItems throwing -- also repeatedly, leaving several
   generations linked): every state reached from the empty HashSet satisfies Inv = every element lives in exactly one
   generation (keys pairwise distinct over the whole chain), on the probe path of its home bucket of that generation within
   the recorded max-probe bound with WasFull set on all buckets before it, mCount exact; and with
   areItemsNothrowRelocatable (where pvFind only looks at the newest table) the chain never has more than one table. *)
Theorem C11_relocate_interrupted_inv :
  forall (B : Type) (b0 : B) (decode : Z -> B -> Z) (upd_bound : B -> Z -> B) (h : Z -> Z) (cap : Z) 
           (wf0 : bool) (wfull : Z -> bool) (start : Z -> Z -> Z) (next : Z -> Z -> Z -> Z) (logStart : Z)
           (calcCapacity shift : Z -> Z) (nothrowReloc : bool),
         kind_ok B decode upd_bound cap wfull start next logStart shift ->
         forall (os : list op) (s : hset B) (outs : list out),
         run B b0 decode upd_bound h cap wf0 wfull start next logStart calcCapacity shift nothrowReloc (hinit B) os =
         Some (s, outs) -> Inv B b0 decode h cap wf0 start next nothrowReloc s.
Proof. exact relocate_interrupted_inv. Qed.
Print Assumptions C11_relocate_interrupted_inv.

(* the same as a one-step statement: Inv is preserved by every operation under every failure choice (unless the model says std::terminate). *)
Theorem C11_inv_step :
  forall (B : Type) (b0 : B) (decode : Z -> B -> Z) (upd_bound : B -> Z -> B) (h : Z -> Z) (cap : Z) 
           (wf0 : bool) (wfull : Z -> bool) (start : Z -> Z -> Z) (next : Z -> Z -> Z -> Z) (logStart : Z)
           (calcCapacity shift : Z -> Z) (nothrowReloc : bool),
         kind_ok B decode upd_bound cap wfull start next logStart shift ->
         forall (s : hset B) (o : op) (s' : hset B) (r : out),
         Inv B b0 decode h cap wf0 start next nothrowReloc s ->
         step B b0 decode upd_bound h cap wf0 wfull start next logStart calcCapacity shift nothrowReloc s o = Some (s', r) ->
         Inv B b0 decode h cap wf0 start next nothrowReloc s'.
Proof. exact inv_step. Qed.
Print Assumptions C11_inv_step.

(* all_findable.  In every state satisfying Inv, pvFind finds exactly the stored keys: no element becomes unreachable, whatever number of generations coexist. *)
Theorem C11_all_findable :
  forall (B : Type) (b0 : B) (decode : Z -> B -> Z) (h : Z -> Z) (cap : Z) (wf0 : bool) (start : Z -> Z -> Z)
           (next : Z -> Z -> Z -> Z) (nothrowReloc : bool) (s : hset B) (k : Z),
         Inv B b0 decode h cap wf0 start next nothrowReloc s ->
         In k (abs B s) <-> (exists loc : nat * Z * nat, hfind B b0 decode h wf0 start next nothrowReloc s k = Some loc).
Proof. exact all_findable. Qed.
Print Assumptions C11_all_findable.

(* all_findable with the location spelled out: the triple (generation, bucket index, offset) that pvFind answers with names a table of the chain whose bucket at that index holds k at that offset (first occurrence in Bounds order). *)
Theorem C11_all_findable_located :
  forall (B : Type) (b0 : B) (decode : Z -> B -> Z) (h : Z -> Z) (cap : Z) (wf0 : bool) (start : Z -> Z -> Z)
           (next : Z -> Z -> Z -> Z) (nothrowReloc : bool) (s : hset B) (k : Z),
         Inv B b0 decode h cap wf0 start next nothrowReloc s ->
         In k (abs B s) <->
         (exists (g : nat) (idx : Z) (pos : nat) (t : table B),
            hfind B b0 decode h wf0 start next nothrowReloc s k = Some (g, idx, pos) /\
            nth_error (gens B s) g = Some t /\ bfind k (items B (getb B b0 wf0 t idx)) = Some pos).
Proof. exact all_findable_located. Qed.
Print Assumptions C11_all_findable_located.

(* traversal_once.  One GetBegin()..GetEnd() traversal (pvInc/pvMove across buckets and generations) is a permutation of the contents without repetition: every element visited exactly once. *)
Theorem C11_traversal_once :
  forall (B : Type) (b0 : B) (decode : Z -> B -> Z) (h : Z -> Z) (cap : Z) (wf0 : bool) (start : Z -> Z -> Z)
           (next : Z -> Z -> Z -> Z) (nothrowReloc : bool) (s : hset B),
         Inv B b0 decode h cap wf0 start next nothrowReloc s -> Permutation (traverse B s) (abs B s) /\ NoDup (traverse B s).
Proof. exact traversal_once. Qed.
Print Assumptions C11_traversal_once.

(* traversal_once for the ITERATOR STATE MACHINE (pvInc / pvMove, HashSet.h:349-383: bucket index, position inside the bucket, switch to mNextBuckets): started at GetBegin() in any state satisfying Inv -- any number of coexisting generations -- it needs exactly mCount increments, visits a duplicate-free permutation of the contents and then equals the end iterator (termination). *)
Theorem C11_iterator_traversal_once :
  forall (B : Type) (b0 : B) (decode : Z -> B -> Z) (h : Z -> Z) (cap : Z) (wf0 : bool) (start : Z -> Z -> Z)
           (next : Z -> Z -> Z -> Z),
         (Z -> Z) ->
         forall (nothrowReloc : bool) (s : hset B),
         Inv B b0 decode h cap wf0 start next nothrowReloc s ->
         exists l : list Z,
           walk B b0 wf0 (Z.to_nat (count B s)) (it_begin B b0 wf0 s) = (l, IEnd B) /\ Permutation l (abs B s) /\ NoDup l.
Proof. exact iterator_traversal_once. Qed.
Print Assumptions C11_iterator_traversal_once.

(* pvFindBuckets as coded (HashSet.h:1220-1237: single-table shortcut, else walk the generations newest first, skip those with bucketIndex >= bucket count, test whether the bucket iterator lies in the address range of that bucket) returns the generation in which pvFind found the item -- so pvRemove (which the model routes through it) acts on the right table in every multi-generation state.  Memory-model assumption: item storage of different buckets/generations is disjoint. *)
Theorem C11_find_buckets_returns_owner :
  forall (B : Type) (b0 : B) (decode : Z -> B -> Z) (h : Z -> Z) (cap : Z) (wf0 : bool) (start : Z -> Z -> Z)
           (next : Z -> Z -> Z -> Z),
         (Z -> Z) ->
         forall (nothrowReloc : bool) (s : hset B) (k : Z) (gi : nat) (idx : Z) (pos : nat),
         Inv B b0 decode h cap wf0 start next nothrowReloc s ->
         hfind B b0 decode h wf0 start next nothrowReloc s k = Some (gi, idx, pos) ->
         find_buckets B b0 wf0 (gens B s) idx gi pos = Some gi.
Proof. exact find_buckets_returns_owner. Qed.
Print Assumptions C11_find_buckets_returns_owner.

(* Remove(filter) = `iter = GetBegin(); while (iter) { if (filter(item)) iter = Remove(iter); else ++iter; }` with Remove(iter) = pvRemove (generation through pvFindBuckets, last item of the bucket moved into the hole, iterator re-created at the hole and pvInc'ed), run in ANY state satisfying Inv, across all coexisting generations: it terminates without assertion, removes exactly the elements satisfying the filter, returns their number, keeps Inv, the chain and the capacity.  (Also part of C11_history_refines_set now.) *)
Theorem C11_remove_if_any_state :
  forall (B : Type) (b0 : B) (decode : Z -> B -> Z) (upd_bound : B -> Z -> B) (h : Z -> Z) (cap : Z) 
           (wf0 : bool) (wfull : Z -> bool) (start : Z -> Z -> Z) (next : Z -> Z -> Z -> Z) (logStart : Z)
           (calcCapacity shift : Z -> Z) (nothrowReloc : bool),
         kind_ok B decode upd_bound cap wfull start next logStart shift ->
         forall (s : hset B) (m q : Z),
         Inv B b0 decode h cap wf0 start next nothrowReloc s ->
         exists s' : hset B,
           step B b0 decode upd_bound h cap wf0 wfull start next logStart calcCapacity shift nothrowReloc s (ORemoveIf m q) =
           Some (s', RNum (Z.of_nat (length (filter (fun k : Z => k mod m =? q) (abs B s))))) /\
           Inv B b0 decode h cap wf0 start next nothrowReloc s' /\
           Permutation (abs B s') (filter (fun k : Z => negb (k mod m =? q)) (abs B s)) /\
           length (gens B s') = length (gens B s) /\ capacity B s' = capacity B s.
Proof. exact remove_if_any_state. Qed.
Print Assumptions C11_remove_if_any_state.

(* removable.  In every state satisfying Inv (e.g. an interrupted migration with 3 generations) Remove(key) of a present key succeeds, removes exactly that key, keeps Inv and the chain; afterwards the key is not found. *)
Theorem C11_removable :
  forall (B : Type) (b0 : B) (decode : Z -> B -> Z) (upd_bound : B -> Z -> B) (h : Z -> Z) (cap : Z) 
           (wf0 : bool) (wfull : Z -> bool) (start : Z -> Z -> Z) (next : Z -> Z -> Z -> Z) (logStart : Z)
           (calcCapacity shift : Z -> Z) (nothrowReloc : bool) (s : hset B) (k : Z),
         Inv B b0 decode h cap wf0 start next nothrowReloc s ->
         In k (abs B s) ->
         exists s' : hset B,
           step B b0 decode upd_bound h cap wf0 wfull start next logStart calcCapacity shift nothrowReloc s (ORemove k) =
           Some (s', RRemoved true) /\
           Inv B b0 decode h cap wf0 start next nothrowReloc s' /\
           Permutation (abs B s) (k :: abs B s') /\
           ~ In k (abs B s') /\
           hfind B b0 decode h wf0 start next nothrowReloc s' k = None /\ length (gens B s') = length (gens B s).
Proof. exact removable. Qed.
Print Assumptions C11_removable.

(* all histories refine the abstract set.  Along every history with every failure schedule, each result is the one a
   mathematical set would give: Insert says inserted iff the key was absent (or fails with the set unchanged), Find/Remove
   answer by membership, traversal is a duplicate-free permutation of the set, GetCount is its size.  Hence every
   inserted-and-not-removed key is found, in every intermediate state. *)
Theorem C11_history_refines_set :
  forall (B : Type) (b0 : B) (decode : Z -> B -> Z) (upd_bound : B -> Z -> B) (h : Z -> Z) (cap : Z) 
           (wf0 : bool) (wfull : Z -> bool) (start : Z -> Z -> Z) (next : Z -> Z -> Z -> Z) (logStart : Z)
           (calcCapacity shift : Z -> Z) (nothrowReloc : bool),
         kind_ok B decode upd_bound cap wfull start next logStart shift ->
         forall (os : list op) (s : hset B) (outs : list out),
         run B b0 decode upd_bound h cap wf0 wfull start next logStart calcCapacity shift nothrowReloc (hinit B) os =
         Some (s, outs) -> refines [] os outs (abs B s).
Proof. exact history_refines_set. Qed.
Print Assumptions C11_history_refines_set.

(* strong guarantee in the model: an Insert that throws (table full / bad_alloc / hash exception / MOMO_CHECK), a failed Reserve, an Insert of a present key and a Remove of an absent key leave the whole state unchanged. *)
Theorem C11_failed_op_changes_nothing :
  forall (B : Type) (b0 : B) (decode : Z -> B -> Z) (upd_bound : B -> Z -> B) (h : Z -> Z) (cap : Z) 
           (wf0 : bool) (wfull : Z -> bool) (start : Z -> Z -> Z) (next : Z -> Z -> Z -> Z) (logStart : Z)
           (calcCapacity shift : Z -> Z) (nothrowReloc : bool),
         kind_ok B decode upd_bound cap wfull start next logStart shift ->
         forall (s : hset B) (o : op) (s' : hset B) (r : out),
         Inv B b0 decode h cap wf0 start next nothrowReloc s ->
         step B b0 decode upd_bound h cap wf0 wfull start next logStart calcCapacity shift nothrowReloc s o = Some (s', r) ->
         r = RFull \/ r = RBadAlloc \/ r = RExn \/ r = RCheck \/ r = RAlready \/ r = RRemoved false -> s' = s.
Proof. exact failed_op_changes_nothing. Qed.
Print Assumptions C11_failed_op_changes_nothing.

(* grow_refused_insert_succeeds_unless_path_full.  When the table has to grow (mCount >= mCapacity) and the memory manager
   REFUSES the new bucket array (the size loop of pvAddGrow always ends: kind_ok3): the insertion of a new key succeeds on the existing newest
   table (capacity and number of generations not increased, Inv kept, the key is in) as soon as SOME bucket among the
   bucketCount probes of the key's path is not full; it throws "Hash table is full" with the state unchanged exactly when
   every one of them is full. *)
Theorem C11_grow_refused_insert_succeeds_unless_path_full :
  forall (B : Type) (b0 : B) (decode : Z -> B -> Z) (upd_bound : B -> Z -> B) (h : Z -> Z) (cap : Z) 
           (wf0 : bool) (wfull : Z -> bool) (start : Z -> Z -> Z) (next : Z -> Z -> Z -> Z) (logStart : Z)
           (calcCapacity shift : Z -> Z) (nothrowReloc : bool),
         kind_ok B decode upd_bound cap wfull start next logStart shift ->
         kind_ok3 calcCapacity ->
         forall (s : hset B) (t : table B) (r : list (table B)) (k : Z) (sch : list bool),
         Inv B b0 decode h cap wf0 start next nothrowReloc s ->
         gens B s = t :: r ->
         ~ In k (abs B s) ->
         (count B s <? capacity B s) = false ->
         ((exists d : nat, Z.of_nat d < bcount B t /\ isFull B cap (getb B b0 wf0 t (path start next (bcount B t) (h k) d)) = false) ->
          exists s' : hset B,
            step B b0 decode upd_bound h cap wf0 wfull start next logStart calcCapacity shift nothrowReloc s
              (OInsert k false false true sch) = Some (s', RInserted) /\
            Inv B b0 decode h cap wf0 start next nothrowReloc s' /\
            Permutation (abs B s') (k :: abs B s) /\ capacity B s' = capacity B s /\ (length (gens B s') <= length (gens B s))%nat) /\
         ((forall d : nat, Z.of_nat d < bcount B t -> isFull B cap (getb B b0 wf0 t (path start next (bcount B t) (h k) d)) = true) ->
          step B b0 decode upd_bound h cap wf0 wfull start next logStart calcCapacity shift nothrowReloc s
            (OInsert k false false true sch) = Some (s, RFull)).
Proof. exact grow_refused_insert_succeeds_unless_path_full. Qed.
Print Assumptions C11_grow_refused_insert_succeeds_unless_path_full.

(* the clause of the property as stated: when the table has to grow and the memory manager refuses the new bucket array, a
   single-element insertion of a new key (1) succeeds on the existing table as soon as ANY bucket of that table has a free
   slot, (2) answers "Hash table is full" (state unchanged) ONLY IF every bucket of the table is full, i.e. literally every
   slot is taken (at least maxCount * bucketCount items in it), and (3) does answer "full" in that case.  The probe path of
   pvAddNogrow is the whole table: kind_ok2 (proved below for linear AND triangular probing, the latter by the
   number-theoretic coverage theorem copied from C13 into ProbeSeq.v). *)
Theorem C11_insert_fails_only_if_every_slot_on_probe_path_taken :
  forall (B : Type) (b0 : B) (decode : Z -> B -> Z) (upd_bound : B -> Z -> B) (h : Z -> Z) (cap : Z) 
           (wf0 : bool) (wfull : Z -> bool) (start : Z -> Z -> Z) (next : Z -> Z -> Z -> Z) (logStart : Z)
           (calcCapacity shift : Z -> Z) (nothrowReloc : bool),
         kind_ok B decode upd_bound cap wfull start next logStart shift ->
         kind_ok2 cap start next calcCapacity ->
         kind_ok3 calcCapacity ->
         forall (s : hset B) (t : table B) (r : list (table B)) (k : Z) (sch : list bool),
         Inv B b0 decode h cap wf0 start next nothrowReloc s ->
         gens B s = t :: r ->
         ~ In k (abs B s) ->
         (count B s <? capacity B s) = false ->
         ((exists b : bucket B, In b (tbs B t) /\ isFull B cap b = false) ->
          exists s' : hset B,
            step B b0 decode upd_bound h cap wf0 wfull start next logStart calcCapacity shift nothrowReloc s
              (OInsert k false false true sch) = Some (s', RInserted) /\
            Inv B b0 decode h cap wf0 start next nothrowReloc s' /\
            Permutation (abs B s') (k :: abs B s) /\ capacity B s' = capacity B s /\ (length (gens B s') <= length (gens B s))%nat) /\
         (step B b0 decode upd_bound h cap wf0 wfull start next logStart calcCapacity shift nothrowReloc s
            (OInsert k false false true sch) = Some (s, RFull) ->
          (forall b : bucket B, In b (tbs B t) -> isFull B cap b = true) /\ cap * bcount B t <= Z.of_nat (length (tkeys B t))) /\
         ((forall b : bucket B, In b (tbs B t) -> isFull B cap b = true) ->
          step B b0 decode upd_bound h cap wf0 wfull start next logStart calcCapacity shift nothrowReloc s
            (OInsert k false false true sch) = Some (s, RFull)).
Proof. exact insert_fails_only_if_every_slot_on_probe_path_taken. Qed.
Print Assumptions C11_insert_fails_only_if_every_slot_on_probe_path_taken.

(* interplay with the size loop of pvAddGrow (/repo 7a001ad): after ANY history followed by ANY number k of consecutive
   refused growths (fallback insertions overloading the table, or "full"), one granted failure-free insertion at a growth
   point succeeds, picks a table that is large enough (mCount <= mCapacity <= physical size), migrates every element of
   every older generation and leaves exactly ONE generation with the same contents plus the new key. *)
Theorem C11_granted_growth_after_refusals :
  forall (B : Type) (b0 : B) (decode : Z -> B -> Z) (upd_bound : B -> Z -> B) (h : Z -> Z) (cap : Z) 
           (wf0 : bool) (wfull : Z -> bool) (start : Z -> Z -> Z) (next : Z -> Z -> Z -> Z) (logStart : Z)
           (calcCapacity shift : Z -> Z) (nothrowReloc : bool),
         kind_ok B decode upd_bound cap wfull start next logStart shift ->
         kind_ok2 cap start next calcCapacity ->
         kind_ok3 calcCapacity ->
         forall (os : list op) (ks : list Z) (s : hset B) (outs : list out) (k : Z),
         run B b0 decode upd_bound h cap wf0 wfull start next logStart calcCapacity shift nothrowReloc 
           (hinit B) (os ++ map (fun x : Z => OInsert x false false true []) ks) = Some (s, outs) ->
         gens B s <> [] ->
         ~ In k (abs B s) ->
         capacity B s <= count B s ->
         exists s1 : hset B,
           step B b0 decode upd_bound h cap wf0 wfull start next logStart calcCapacity shift nothrowReloc s (fresh_insert k) =
           Some (s1, RInserted) /\
           Inv B b0 decode h cap wf0 start next nothrowReloc s1 /\
           length (gens B s1) = 1%nat /\
           count B s1 = count B s + 1 /\ count B s1 <= capacity B s1 /\ CapOk B cap s1 /\ Permutation (abs B s1) (k :: abs B s).
Proof. exact granted_growth_after_refusals. Qed.
Print Assumptions C11_granted_growth_after_refusals.

(* later_ops_complete_migration.  From any state satisfying Inv whose capacity does not exceed the physical size of the
   newest table (true for every reachable state: next theorem), failure-free insertions of fresh keys never terminate the
   process and ALL succeed; after more than max(0, mCapacity - mCount) of them (at the latest at the next growth) the chain
   is back to ONE generation, and it stays single.  Needs kind_ok2 (the probe sequence reaches every bucket (C13),
   CalcCapacity never exceeds the physical size) and kind_ok3 (capacities grow with the table size). *)
Theorem C11_later_ops_complete_migration :
  forall (B : Type) (b0 : B) (decode : Z -> B -> Z) (upd_bound : B -> Z -> B) (h : Z -> Z) (cap : Z) 
           (wf0 : bool) (wfull : Z -> bool) (start : Z -> Z -> Z) (next : Z -> Z -> Z -> Z) (logStart : Z)
           (calcCapacity shift : Z -> Z) (nothrowReloc : bool),
         kind_ok B decode upd_bound cap wfull start next logStart shift ->
         kind_ok2 cap start next calcCapacity ->
         kind_ok3 calcCapacity ->
         forall (ks : list Z) (s : hset B),
         Inv B b0 decode h cap wf0 start next nothrowReloc s ->
         CapOk B cap s ->
         NoDup ks ->
         (forall k : Z, In k ks -> ~ In k (abs B s)) ->
         exists (s' : hset B) (outs : list out),
           run B b0 decode upd_bound h cap wf0 wfull start next logStart calcCapacity shift nothrowReloc s (map fresh_insert ks) =
           Some (s', outs) /\
           Forall (fun o : out => o = RInserted) outs /\
           Inv B b0 decode h cap wf0 start next nothrowReloc s' /\
           CapOk B cap s' /\
           (Z.max 0 (capacity B s - count B s) < Z.of_nat (length ks) \/ length (gens B s) = 1%nat -> length (gens B s') = 1%nat).
Proof. exact later_ops_complete_migration_thm. Qed.
Print Assumptions C11_later_ops_complete_migration.

(* Reserve(n) with a granted allocation and no failure, n > mCapacity and n >= mCount, issued in ANY state satisfying Inv (e.g. several generations left by interrupted migrations): all items are migrated into the new table, exactly ONE generation remains, contents unchanged, capacity >= n.  (Refused / interrupted Reserve: C11_inv_step, C11_history_refines_set, C11_failed_op_changes_nothing.) *)
Theorem C11_reserve_completes_migration :
  forall (B : Type) (b0 : B) (decode : Z -> B -> Z) (upd_bound : B -> Z -> B) (h : Z -> Z) (cap : Z) 
           (wf0 : bool) (wfull : Z -> bool) (start : Z -> Z -> Z) (next : Z -> Z -> Z -> Z) (logStart : Z)
           (calcCapacity shift : Z -> Z) (nothrowReloc : bool),
         kind_ok B decode upd_bound cap wfull start next logStart shift ->
         kind_ok2 cap start next calcCapacity ->
         forall (s : hset B) (n nl : Z),
         Inv B b0 decode h cap wf0 start next nothrowReloc s ->
         (n <=? capacity B s) = false ->
         count B s <= n ->
         reserve_log calcCapacity 64 (newLog B logStart shift (gens B s)) n = Some nl ->
         exists s' : hset B,
           step B b0 decode upd_bound h cap wf0 wfull start next logStart calcCapacity shift nothrowReloc s (OReserve n false []) =
           Some (s', RUnit) /\
           length (gens B s') = 1%nat /\
           Inv B b0 decode h cap wf0 start next nothrowReloc s' /\ Permutation (abs B s') (abs B s) /\ n <= capacity B s'.
Proof. exact reserve_completes_migration_thm. Qed.
Print Assumptions C11_reserve_completes_migration.

(* Clear(shrink) in any state satisfying Inv (e.g. an interrupted migration): the result satisfies Inv, is empty, and has at most one table (older generations are released). *)
Theorem C11_clear_any_state :
  forall (B : Type) (b0 : B) (decode : Z -> B -> Z) (h : Z -> Z) (cap : Z) (wf0 : bool) (start : Z -> Z -> Z)
           (next : Z -> Z -> Z -> Z),
         (Z -> Z) ->
         forall (nothrowReloc : bool) (s : hset B) (shrink : bool),
         0 < cap ->
         Inv B b0 decode h cap wf0 start next nothrowReloc s ->
         Inv B b0 decode h cap wf0 start next nothrowReloc (hclear B b0 wf0 s shrink) /\
         abs B (hclear B b0 wf0 s shrink) = [] /\ (length (gens B (hclear B b0 wf0 s shrink)) <= 1)%nat.
Proof. exact clear_any_state. Qed.
Print Assumptions C11_clear_any_state.

(* the premise CapOk of the previous theorem (mCapacity <= physical size of the newest table) holds in every state reachable from the empty container that has a table, for every history and failure schedule. *)
Theorem C11_reachable_cap_ok :
  forall (B : Type) (b0 : B) (decode : Z -> B -> Z) (upd_bound : B -> Z -> B) (h : Z -> Z) (cap : Z) 
           (wf0 : bool) (wfull : Z -> bool) (start : Z -> Z -> Z) (next : Z -> Z -> Z -> Z) (logStart : Z)
           (calcCapacity shift : Z -> Z) (nothrowReloc : bool),
         kind_ok B decode upd_bound cap wfull start next logStart shift ->
         kind_ok2 cap start next calcCapacity ->
         forall (os : list op) (s : hset B) (outs : list out),
         run B b0 decode upd_bound h cap wf0 wfull start next logStart calcCapacity shift nothrowReloc (hinit B) os =
         Some (s, outs) -> gens B s <> [] -> CapOk B cap s.
Proof. exact reachable_cap_ok. Qed.
Print Assumptions C11_reachable_cap_ok.

(* since the fix of pvAddGrow (size loop instead of MOMO_CHECK(newCapacity > mCount)): in every reachable state, whatever failed before, no insertion ends in a capacity-check failure (model result RCheck), i.e. an overloaded table can always try to grow again. *)
Theorem C11_insert_never_fails_check :
  forall (B : Type) (b0 : B) (decode : Z -> B -> Z) (upd_bound : B -> Z -> B) (h : Z -> Z) (cap : Z) 
           (wf0 : bool) (wfull : Z -> bool) (start : Z -> Z -> Z) (next : Z -> Z -> Z -> Z) (logStart : Z)
           (calcCapacity shift : Z -> Z) (nothrowReloc : bool),
         kind_ok B decode upd_bound cap wfull start next logStart shift ->
         kind_ok2 cap start next calcCapacity ->
         kind_ok3 calcCapacity ->
         forall (os : list op) (s : hset B) (outs : list out) (k : Z) (hf af rf : bool) (sch : list bool) (s' : hset B) (r : out),
         run B b0 decode upd_bound h cap wf0 wfull start next logStart calcCapacity shift nothrowReloc (hinit B) os =
         Some (s, outs) ->
         step B b0 decode upd_bound h cap wf0 wfull start next logStart calcCapacity shift nothrowReloc s (OInsert k hf af rf sch) =
         Some (s', r) -> r <> RCheck.
Proof. exact insert_never_fails_check. Qed.
Print Assumptions C11_insert_never_fails_check.

(* T-gen tie.  The leaf arithmetic of the growth decision and of the probe sequence is regenerated from /repo's headers by
   cxx2coq on every run (Gen_*.v: HashBucketBase / HashBucketOpen2N2<N> / HashBucketOpen8 ::CalcCapacity and
   ::GetBucketCountShift, BucketBase / BucketOpen2N2 / BucketOpen8 ::GetStartBucketIndex / GetNextBucketIndex,
   HashSetBuckets::GetCount).  On the domain of real tables (2^L buckets, L <= 62, no size_t overflow of
   bucketCount*maxCount, index and probe below the bucket count) these GENERATED functions are equal to the functions the
   model of every configuration is instantiated with and that all theorems above talk about (bcount, start_mask,
   next_linear / next_tri, cc_base / cc_open, sh_base / sh_open).  A change of any of these C++ functions changes the
   regenerated Gallina and breaks this proof. *)
Theorem C11_model_parameters_are_source :
  forall (c : config) (L : Z),
         0 <= L <= 62 ->
         0 < c_cap c ->
         2 ^ L * c_cap c < 2 ^ 53 ->
         Gen_Buckets.GetCount L = 2 ^ L /\
         (forall hc : Z, Gen_IndexBase.GetStartBucketIndex hc (2 ^ L) = start_mask hc (2 ^ L)) /\
         (forall i p : Z, 0 <= i < 2 ^ L -> 0 <= p < 2 ^ L -> src_next c i (2 ^ L) p = cfg_next c i (2 ^ L) p) /\
         src_capacity c (2 ^ L) = cfg_cc c (2 ^ L) /\ src_shift c (2 ^ L) = cfg_sh c (2 ^ L).
Proof. exact model_parameters_are_source. Qed.
Print Assumptions C11_model_parameters_are_source.

(* T-gen tie of the growth decision.  HashSet::pvGetNewLogBucketCount, the size loop of pvAddGrow (7a001ad) with its
   length_error bound (f76c2d4) and the resulting mCapacity / bucket-array size are regenerated from HashSet.h on every run
   (Gen_HashSetGrow.v; traits object, bucket arrays and memory manager are abstract).  Whenever the hand model's `hadd`
   chooses the table size 2^r (grow_log, any fuel) with r <= 63, the GENERATED loop chooses the same r and the same
   capacity. *)
Theorem C11_growth_decision_is_source :
  forall (mc : Z) (calcCapacity : Z -> Z) (count nl0 r ht cap0 : Z),
         0 <= nl0 <= 63 ->
         r <= 63 ->
         grow_log calcCapacity (Z.to_nat count + 2) nl0 count = Some r ->
         Gen_HashSetGrow.pvAddGrow_loop0 mc (fun bc _ : Z => calcCapacity bc) Gen_HashSetGrow.fuel_of_pvAddGrow ht count cap0 nl0 =
         GenPrelude.Ok (None, (calcCapacity (2 ^ r), r)).
Proof. exact growth_decision_is_source. Qed.
Print Assumptions C11_growth_decision_is_source.

(* the same for the size loop of Reserve and the hand model's reserve_log. *)
Theorem C11_reserve_decision_is_source :
  forall (mc : Z) (calcCapacity : Z -> Z) (cap nl0 r ht cap0 : Z),
         0 <= nl0 <= 63 ->
         r <= 63 ->
         reserve_log calcCapacity 64 nl0 cap = Some r ->
         Gen_HashSetGrow.Reserve_loop0 mc (fun bc _ : Z => calcCapacity bc) Gen_HashSetGrow.fuel_of_Reserve cap ht cap0 nl0 =
         GenPrelude.Ok (None, (calcCapacity (2 ^ r), r)).
Proof. exact reserve_decision_is_source. Qed.
Print Assumptions C11_reserve_decision_is_source.

(* the fuel / RCheck branch of the hand model as a theorem about the generated loop: with its 70 units of fuel it never runs out of fuel, and it throws std::length_error (f76c2d4) exactly when no table of at most 2^63 buckets has a capacity above mCount. *)
Theorem C11_size_loops_throw_only_beyond_2_63 :
  forall (mc : Z) (calcCapacity : Z -> Z) (count nl0 ht cap0 : Z),
         0 <= nl0 <= 63 ->
         (Gen_HashSetGrow.pvAddGrow_loop0 mc (fun bc _ : Z => calcCapacity bc) Gen_HashSetGrow.fuel_of_pvAddGrow ht count cap0 nl0 =
          GenPrelude.Exn <-> (forall L : Z, nl0 <= L <= 63 -> calcCapacity (2 ^ L) <= count)) /\
         Gen_HashSetGrow.pvAddGrow_loop0 mc (fun bc _ : Z => calcCapacity bc) Gen_HashSetGrow.fuel_of_pvAddGrow ht count cap0 nl0 <>
         GenPrelude.Fuel.
Proof. exact size_loops_throw_only_beyond_2_63. Qed.
Print Assumptions C11_size_loops_throw_only_beyond_2_63.

(* generated pvGetNewLogBucketCount = the hand model's newLog (and it is the MOMO_CHECK(shift > 0) that fails, `Stuck`, when GetBucketCountShift answers 0). *)
Theorem C11_gen_new_log_head :
  forall (B : Type) (mc logStart : Z) (shift : Z -> Z) (t : table B) (r : list (table B)) (cnt capa mb ht : Z),
         mb <> 0 ->
         0 <= tlog B t <= 63 ->
         0 <= tlog B t + shift (2 ^ tlog B t) < 2 ^ 64 ->
         Gen_HashSetGrow.pvGetNewLogBucketCount mc logStart (fun bc _ : Z => shift bc) (tlog B t) cnt capa mb ht =
         (if 0 <? shift (2 ^ tlog B t) then GenPrelude.Ok (newLog B logStart shift (t :: r)) else GenPrelude.Stuck).
Proof. exact gen_new_log_head. Qed.
Print Assumptions C11_gen_new_log_head.

(* ... and = GetLogStartBucketCount() for a bucket-less container. *)
Theorem C11_gen_new_log_empty :
  forall (B : Type) (mc logStart : Z) (shift : Z -> Z) (blog cnt capa ht : Z),
         Gen_HashSetGrow.pvGetNewLogBucketCount mc logStart (fun bc _ : Z => shift bc) blog cnt capa 0 ht =
         GenPrelude.Ok (newLog B logStart shift []).
Proof. exact gen_new_log_empty. Qed.
Print Assumptions C11_gen_new_log_empty.

(* the "Hash table is full" clause down to the bytes, BucketOpen2N2<3>: whenever the bytes of the buckets of the real
   newest table represent the model table (byte invariant of C13's BucketOps + count bits = number of items, preserved by the
   GENERATED AddCrt / Remove / pvSetEmpty: o2_add, o2_remove, o2_empty), an insertion under refused growth answers "Hash table
   is full" exactly when the GENERATED IsFull -- the test pvAddNogrow performs -- is true on every bucket. *)
Theorem C11_refused_insert_full_iff_generated_IsFull_o2 :
  forall (B : Type) (b0 : B) (decode : Z -> B -> Z) (upd_bound : B -> Z -> B) (h : Z -> Z) (wf0 : bool) 
           (wfull : Z -> bool) (start : Z -> Z -> Z) (next : Z -> Z -> Z -> Z) (logStart : Z) (calcCapacity shift : Z -> Z)
           (nothrowReloc : bool),
         kind_ok B decode upd_bound 3 wfull start next logStart shift ->
         kind_ok2 3 start next calcCapacity ->
         kind_ok3 calcCapacity ->
         forall (s : hset B) (t : table B) (r : list (table B)) (k : Z) (sch : list bool) (ds : list BucketOps.O2.st),
         Inv B b0 decode h 3 wf0 start next nothrowReloc s ->
         gens B s = t :: r ->
         ~ In k (abs B s) ->
         (count B s <? capacity B s) = false ->
         Forall2 (rel_o2 B) ds (tbs B t) ->
         step B b0 decode upd_bound h 3 wf0 wfull start next logStart calcCapacity shift nothrowReloc s
           (OInsert k false false true sch) = Some (s, RFull) <->
         (forall d : BucketOps.O2.st, In d ds -> BucketOps.O2.full d = true).
Proof. exact refused_insert_full_iff_generated_IsFull_o2. Qed.
Print Assumptions C11_refused_insert_full_iff_generated_IsFull_o2.

(* the same for BucketOpenN1<maxCount, reverse> (BucketOpen8 = maxCount 7, reverse false). *)
Theorem C11_refused_insert_full_iff_generated_IsFull_n1 :
  forall (B : Type) (b0 : B) (decode : Z -> B -> Z) (upd_bound : B -> Z -> B) (h : Z -> Z) (wf0 : bool) 
           (wfull : Z -> bool) (start : Z -> Z -> Z) (next : Z -> Z -> Z -> Z) (logStart : Z) (calcCapacity shift : Z -> Z)
           (nothrowReloc rv : bool) (mc : Z),
         1 <= mc <= 7 ->
         kind_ok B decode upd_bound mc wfull start next logStart shift ->
         kind_ok2 mc start next calcCapacity ->
         kind_ok3 calcCapacity ->
         forall (s : hset B) (t : table B) (r : list (table B)) (k : Z) (sch : list bool) (ds : list (Z -> Z)),
         Inv B b0 decode h mc wf0 start next nothrowReloc s ->
         gens B s = t :: r ->
         ~ In k (abs B s) ->
         (count B s <? capacity B s) = false ->
         Forall2 (rel_n1 B rv mc) ds (tbs B t) ->
         step B b0 decode upd_bound h mc wf0 wfull start next logStart calcCapacity shift nothrowReloc s
           (OInsert k false false true sch) = Some (s, RFull) <->
         (forall d : Z -> Z, In d ds -> Gen_OpenN1_ops.IsFull rv mc d = true).
Proof. exact refused_insert_full_iff_generated_IsFull_n1. Qed.
Print Assumptions C11_refused_insert_full_iff_generated_IsFull_n1.

(* the same clause for BucketLimP4<4> (hashCount 4..8): 'Hash table is full' under refused growth <-> the GENERATED IsFull is true on the bytes of every bucket, for every real table whose buckets (metadata bytes, item pointer, pointer state) represent the model table. *)
Theorem C11_refused_insert_full_iff_generated_IsFull_limp4 :
  forall (B : Type) (b0 : B) (decode : Z -> B -> Z) (upd_bound : B -> Z -> B) (h : Z -> Z) (wf0 : bool) 
           (wfull : Z -> bool) (start : Z -> Z -> Z) (next : Z -> Z -> Z -> Z) (logStart : Z) (calcCapacity shift : Z -> Z)
           (nothrowReloc : bool) (H : Z),
         4 <= H <= 8 ->
         kind_ok B decode upd_bound 4 wfull start next logStart shift ->
         kind_ok2 4 start next calcCapacity ->
         kind_ok3 calcCapacity ->
         forall (s : hset B) (t : table B) (r : list (table B)) (k : Z) (sch : list bool) (ds : list ((Z -> Z) * Z * Z)),
         Inv B b0 decode h 4 wf0 start next nothrowReloc s ->
         gens B s = t :: r ->
         ~ In k (abs B s) ->
         (count B s <? capacity B s) = false ->
         Forall2 (rel_p4_bucket B H) ds (tbs B t) ->
         step B b0 decode upd_bound h 4 wf0 wfull start next logStart calcCapacity shift nothrowReloc s
           (OInsert k false false true sch) = Some (s, RFull) <-> (forall d : (Z -> Z) * Z * Z, In d ds -> gen_full_p4 d = true).
Proof. exact refused_insert_full_iff_generated_IsFull_limp4. Qed.
Print Assumptions C11_refused_insert_full_iff_generated_IsFull_limp4.

(* ... and for BucketOne (state word). *)
Theorem C11_refused_insert_full_iff_generated_IsFull_one :
  forall (B : Type) (b0 : B) (decode : Z -> B -> Z) (upd_bound : B -> Z -> B) (h : Z -> Z) (wf0 : bool) 
           (wfull : Z -> bool) (start : Z -> Z -> Z) (next : Z -> Z -> Z -> Z) (logStart : Z) (calcCapacity shift : Z -> Z)
           (nothrowReloc : bool),
         kind_ok B decode upd_bound 1 wfull start next logStart shift ->
         kind_ok2 1 start next calcCapacity ->
         kind_ok3 calcCapacity ->
         forall (s : hset B) (t : table B) (r : list (table B)) (k : Z) (sch : list bool) (ds : list Z),
         Inv B b0 decode h 1 wf0 start next nothrowReloc s ->
         gens B s = t :: r ->
         ~ In k (abs B s) ->
         (count B s <? capacity B s) = false ->
         Forall2 (rel_one B) ds (tbs B t) ->
         step B b0 decode upd_bound h 1 wf0 wfull start next logStart calcCapacity shift nothrowReloc s
           (OInsert k false false true sch) = Some (s, RFull) <-> (forall d : Z, In d ds -> Gen_One.IsFull d = true).
Proof. exact refused_insert_full_iff_generated_IsFull_one. Qed.
Print Assumptions C11_refused_insert_full_iff_generated_IsFull_one.

(* generated BucketLimP4::IsFull AND ::WasFull (memory-pool index in the pointer state) = the model bucket's isFull / wasFull under the abstraction relation rel_p4. *)
Theorem C11_p4_full_agrees :
  forall (B : Type) (H : Z),
         4 <= H <= 8 ->
         forall (s : Z -> Z) (ptr stt : Z) (b : bucket B),
         rel_p4 B H s ptr stt b -> Gen_P4A.IsFull s ptr stt = isFull B 4 b /\ Gen_P4A.WasFull s ptr stt = wasFull B b.
Proof. exact p4_full_agrees. Qed.
Print Assumptions C11_p4_full_agrees.

(* generated BucketLimP4::AddCrt -- all five branches (pvAdd0<min>, pvAdd0<max>, pvAdd<1..3>, spare slot), whatever memory it is handed -- keeps rel_p4 with one more item and with the model's WasFull rule wasFull' = wasFull || (maxCount <= count'). *)
Theorem C11_p4_add :
  forall (B : Type) (H : Z),
         4 <= H <= 8 ->
         forall (s : Z -> Z) (ptr stt : Z) (b : bucket B) (k x L probe m0a m0b m1a m1b m2a m2b m3a m3b m4a m4b : Z),
         rel_p4 B H s ptr stt b ->
         isFull B 4 b = false ->
         0 <= x < 2 ^ 64 ->
         0 <= L <= 63 ->
         0 <= probe < 2 ^ 64 ->
         m0a <> 0 ->
         m1a <> 0 ->
         m2a <> 0 ->
         m3a <> 0 ->
         m4a <> 0 ->
         exists (r : Z) (s' : Z -> Z) (ptr' stt' : Z),
           Gen_P4A.AddCrt H 2 s ptr stt x L probe m0a m0b m1a m1b m2a m2b m3a m3b m4a m4b = GenPrelude.Ok (r, s', ptr', stt') /\
           rel_p4 B H s' ptr' stt'
             {|
               items := items B b ++ [k];
               wasFull := wasFull B b || (4 <=? Z.of_nat (length (items B b ++ [k])));
               bound := bound B b
             |}.
Proof. exact p4_add. Qed.
Print Assumptions C11_p4_add.

(* generated BucketLimP4::Remove keeps rel_p4 with one item less and WasFull KEPT (the frame condition the lookup invariant needs: removal never resets WasFull while items are reachable through the bucket). *)
Theorem C11_p4_remove :
  forall (B : Type) (H : Z),
         4 <= H <= 8 ->
         forall (s : Z -> Z) (ptr stt : Z) (b : bucket B) (its : list Z) (iter idx : Z),
         rel_p4 B H s ptr stt b ->
         0 <= idx < blen B b ->
         (blen B b = 1 -> iter = ptr) ->
         Z.of_nat (length its) = blen B b - 1 ->
         exists (r : Z) (s' : Z -> Z) (ptr' stt' : Z),
           Gen_P4A.Remove H 2 s ptr stt iter idx = GenPrelude.Ok (r, s', ptr', stt') /\
           rel_p4 B H s' ptr' stt' {| items := its; wasFull := wasFull B b; bound := bound B b |}.
Proof. exact p4_remove. Qed.
Print Assumptions C11_p4_remove.

(* generated BucketLimP4::Clear: empty, not full, WasFull false (minMemPoolIndex 2 <> maxCount). *)
Theorem C11_p4_clear :
  forall (B : Type) (H : Z),
         4 <= H <= 8 ->
         forall (s : Z -> Z) (ptr stt : Z),
         B ->
         let
         '(s', ptr', stt') := Gen_P4A.Clear H 2 s ptr stt in
          Gen_P4.pvGetCount s' = 0 /\ ptr' = 0 /\ Gen_P4A.WasFull s' ptr' stt' = false /\ Gen_P4A.IsFull s' ptr' stt' = false.
Proof. exact p4_clear. Qed.
Print Assumptions C11_p4_clear.

(* generated BucketOne::IsFull / ::WasFull = the model bucket's isFull / wasFull. *)
Theorem C11_one_full_agrees :
  forall (B : Type) (st : Z) (b : bucket B),
         rel_one B st b -> Gen_One.IsFull st = isFull B 1 b /\ Gen_One.WasFull st = wasFull B b.
Proof. exact one_full_agrees. Qed.
Print Assumptions C11_one_full_agrees.

(* generated BucketOne::AddCrt keeps the relation (full, WasFull set). *)
Theorem C11_one_add :
  forall (B : Type) (st : Z) (b : bucket B) (k hc : Z),
         rel_one B st b ->
         isFull B 1 b = false ->
         exists st' : Z,
           Gen_One.AddCrt st hc = GenPrelude.Ok (tt, st') /\
           rel_one B st'
             {|
               items := items B b ++ [k];
               wasFull := wasFull B b || (1 <=? Z.of_nat (length (items B b ++ [k])));
               bound := bound B b
             |}.
Proof. exact one_add. Qed.
Print Assumptions C11_one_add.

(* generated BucketOne::Remove: not full any more, WasFull still set. *)
Theorem C11_one_remove :
  forall (B : Type) (st : Z) (b : bucket B) (its : list Z) (addr : Z),
         rel_one B st b ->
         isFull B 1 b = true ->
         its = [] ->
         exists st' : Z,
           Gen_One.Remove st addr addr = GenPrelude.Ok (tt, st') /\
           Gen_One.WasFull st' = true /\
           Gen_One.IsFull st' = false /\
           (wasFull B b = true -> rel_one B st' {| items := its; wasFull := wasFull B b; bound := bound B b |}).
Proof. exact one_remove. Qed.
Print Assumptions C11_one_remove.

(* generated BucketOne::Clear: neither full nor WasFull. *)
Theorem C11_one_clear :
  forall st : Z, Gen_One.IsFull (Gen_One.Clear st) = false /\ Gen_One.WasFull (Gen_One.Clear st) = false.
Proof. exact one_clear. Qed.
Print Assumptions C11_one_clear.

(* generated BucketOpen2N2::IsFull on the bytes = the model's isFull (maxCount <= number of items) under the abstraction relation. *)
Theorem C11_o2_full_agrees :
  forall (B : Type) (d : BucketOps.O2.st) (b : bucket B), rel_o2 B d b -> BucketOps.O2.full d = isFull B 3 b.
Proof. exact o2_full_agrees. Qed.
Print Assumptions C11_o2_full_agrees.

(* generated AddCrt keeps the abstraction relation (one more item). *)
Theorem C11_o2_add :
  forall (B : Type) (a : Z * Z * Z * Z) (d : BucketOps.O2.st) (b : bucket B) (k : Z) (wf : bool) (bd : B),
         rel_o2 B d b ->
         isFull B 3 b = false -> rel_o2 B (BucketOps.O2.addP a d) {| items := items B b ++ [k]; wasFull := wf; bound := bd |}.
Proof. exact o2_add. Qed.
Print Assumptions C11_o2_add.

(* generated Remove keeps the abstraction relation (one item less). *)
Theorem C11_o2_remove :
  forall (B : Type) (a : Z * Z * Z * Z) (d d' : BucketOps.O2.st) (b : bucket B) (its : list Z) (wf : bool) (bd : B),
         rel_o2 B d b ->
         (0 < length (items B b))%nat ->
         BucketOps.O2.remP a d = Some d' ->
         S (length its) = length (items B b) -> rel_o2 B d' {| items := its; wasFull := wf; bound := bd |}.
Proof. exact o2_remove. Qed.
Print Assumptions C11_o2_remove.

(* generated BucketOpenN1::IsFull = the model's isFull, for every maxCount 1..7 and both layouts. *)
Theorem C11_n1_full_agrees :
  forall (B : Type) (rv : bool) (mc : Z),
         1 <= mc <= 7 -> forall (d : Z -> Z) (b : bucket B), rel_n1 B rv mc d b -> Gen_OpenN1_ops.IsFull rv mc d = isFull B mc b.
Proof. exact n1_full_agrees. Qed.
Print Assumptions C11_n1_full_agrees.

(* generated BucketOpenN1::AddCrt keeps the abstraction relation. *)
Theorem C11_n1_add :
  forall (B : Type) (rv : bool) (mc : Z),
         1 <= mc <= 7 ->
         forall (a : Z * Z * Z * Z) (d : Z -> Z) (b : bucket B) (k : Z) (wf : bool) (bd : B),
         rel_n1 B rv mc d b ->
         isFull B mc b = false ->
         rel_n1 B rv mc (BucketOps.N1.addP rv mc a d) {| items := items B b ++ [k]; wasFull := wf; bound := bd |}.
Proof. exact n1_add. Qed.
Print Assumptions C11_n1_add.

(* generated BucketOpenN1::Remove keeps the abstraction relation. *)
Theorem C11_n1_remove :
  forall (B : Type) (rv : bool) (mc : Z),
         1 <= mc <= 7 ->
         forall (a : Z * Z * Z * Z) (d d' : Z -> Z) (b : bucket B) (its : list Z) (wf : bool) (bd : B),
         rel_n1 B rv mc d b ->
         (0 < length (items B b))%nat ->
         BucketOps.N1.remP rv mc a d = Some d' ->
         S (length its) = length (items B b) -> rel_n1 B rv mc d' {| items := its; wasFull := wf; bound := bd |}.
Proof. exact n1_remove. Qed.
Print Assumptions C11_n1_remove.

(* T-gen tie of the insertion probe loop.  The loop of HashSet::pvAddNogrow (`while (bucket->IsFull()) { ++probe; if (probe >= bucketCount) throw "Hash table is full"; bucketIndex = GetNextBucketIndex(..); bucket = &buckets[bucketIndex]; }`) is regenerated from HashSet.h on every run (Gen_HashSetMove.v; buckets are handles, IsFull / GetNextBucketIndex are parameters).  Instantiated with the model table (IsFull of the model bucket, the kind's next-index function) the GENERATED loop throws "Hash table is full" exactly when the hand model's tadd fails, and otherwise stops at the bucket and with the probe count where tadd places the item.  So every theorem above about full tables / fallback insertion / migration targets rests on the generated loop. *)
Theorem C11_gen_addnogrow_is_tadd :
  forall (B : Type) (b0 : B) (cap : Z) (wf0 : bool) (next : Z -> Z -> Z -> Z) (t : table B) (ub : B -> Z -> B)
           (wfu : Z -> bool) (start : Z -> Z -> Z) (h : Z -> Z) (k : Z) (extra : nat),
         0 <= tlog B t ->
         bcount B t < 2 ^ 64 ->
         let i0 := start (h k) (bcount B t) in
         let n := Z.to_nat (bcount B t - 1) in
         (Gen_HashSetMove.pvAddNogrow_loop0 (fun i : Z => isFull B cap (getb B b0 wf0 t i)) (fun i _ bc p : Z => next i bc p)
            (fun _ i : Z => i) (S n + extra) (bcount B t) 0 (h k) i0 i0 0 = GenPrelude.Exn <->
          tadd B b0 ub h cap wf0 wfu start next t k = None) /\
         (forall (i : Z) (q : nat),
          add_loop B b0 cap wf0 next n t 0 i0 = Some (i, q) ->
          Gen_HashSetMove.pvAddNogrow_loop0 (fun i1 : Z => isFull B cap (getb B b0 wf0 t i1)) (fun i1 _ bc p : Z => next i1 bc p)
            (fun _ i1 : Z => i1) (S n + extra) (bcount B t) 0 (h k) i0 i0 0 = GenPrelude.Ok (None, (i, i, Z.of_nat q))).
Proof. exact gen_addnogrow_is_tadd. Qed.
Print Assumptions C11_gen_addnogrow_is_tadd.

(* the WHOLE generated pvAddNogrow (instantiation <false>, translated with loop_return_keeps_state; tables of up to 70 buckets = the translator's fuel): throws 'Hash table is full' iff the hand model's add_loop fails; otherwise the returned position names the bucket where tadd puts the item, mCount is unchanged, and the probe count handed to startBucket.UpdateMaxProbe (recorded field rec_maxprobe) is the one tadd hands to upd_bound. *)
Theorem C11_gen_addnogrow_whole :
  forall (B : Type) (b0 : B) (cap : Z) (wf0 : bool) (next : Z -> Z -> Z -> Z) (t : table B) (start : Z -> Z -> Z)
           (hc blog bp : Z) (badd : Z -> Z -> Z -> Z -> Z -> Z -> Z) (ver : Z) (mkpos : Z -> Z -> Z -> Z) 
           (c cp mb rmp creator : Z),
         0 <= tlog B t ->
         bcount B t <= 70 ->
         let i0 := start hc (bcount B t) in
         Gen_HashSetMove.pvAddNogrow blog bp (fun i : Z => isFull B cap (getb B b0 wf0 t i)) (fun i _ bc p : Z => next i bc p)
           start badd ver (fun _ i : Z => i) mkpos (fun _ : Z => bcount B t) c cp mb rmp 0 hc creator =
         match add_loop B b0 cap wf0 next (Z.to_nat (bcount B t - 1)) t 0 i0 with
         | Some (i, q) => GenPrelude.Ok (mkpos i (badd i bp creator hc blog (Z.of_nat q)) ver, c, Z.of_nat q)
         | None => GenPrelude.Exn
         end.
Proof. exact gen_addnogrow_whole. Qed.
Print Assumptions C11_gen_addnogrow_whole.

(* the same, loop against loop: generated pvAddNogrow loop = the hand model's add_loop from any intermediate probe. *)
Theorem C11_gen_addnogrow_loop :
  forall (B : Type) (b0 : B) (cap : Z) (wf0 : bool) (next : Z -> Z -> Z -> Z) (t : table B) (n : nat) 
           (probe idx hc : Z) (extra : nat),
         0 <= probe ->
         Z.of_nat n = bcount B t - 1 - probe ->
         bcount B t < 2 ^ 64 ->
         Gen_HashSetMove.pvAddNogrow_loop0 (fun i : Z => isFull B cap (getb B b0 wf0 t i)) (fun i _ bc p : Z => next i bc p)
           (fun _ i : Z => i) (S n + extra) (bcount B t) 0 hc idx idx probe =
         match add_loop B b0 cap wf0 next n t (Z.to_nat probe) idx with
         | Some (i, q) => GenPrelude.Ok (None, (i, i, Z.of_nat q))
         | None => GenPrelude.Exn
         end.
Proof. exact gen_addnogrow_loop. Qed.
Print Assumptions C11_gen_addnogrow_loop.

(* T-gen, loop skeleton of HashSet::pvRelocateItems(Buckets ptr) -- generated; GetHashCodePart and Remove-with-replacer -- whose replacer is the pvAddNogrow into the newest table -- are parameters = the item move as a primitive: the inner loop over a bucket with c items performs exactly c moves, on the items end-1, end-2, ..., end-c (last to first, the order of the hand model's reloc_items), given that Remove of the last item hands the iterator back. *)
Theorem C11_gen_reloc_inner :
  forall (blog : Z) (hashpart : Z -> Z -> Z -> Z -> Z -> Z -> Z) (remove : Z -> Z -> Z -> Z -> Z),
         (forall b p it r : Z, remove b p it r = it) ->
         forall (c fuel : nat) (bucket bp bks g i rp mb mcap mm it cnt rmp : Z),
         (c < fuel)%nat ->
         Z.of_nat c < 2 ^ 64 ->
         Gen_HashSetMove.pvRelocateItems_b_loop1 blog hashpart remove fuel bucket bp bks g i rp mb mcap mm it (Z.of_nat c) cnt rmp =
         GenPrelude.Ok (None, (it - Z.of_nat c, 0, cnt, rmp)).
Proof. exact gen_reloc_inner. Qed.
Print Assumptions C11_gen_reloc_inner.

(* ... and the outer loop handles every bucket 0 .. bucketCount-1 exactly once in ascending order (the order of the hand model's reloc_buckets) and ends at bucketCount.  The EFFECTS of a move, the exception paths (failure swallowed, generations stay linked) and the recursion over older generations remain hand-modelled (GrowModel.reloc) and are tied by T-cor. *)
Theorem C11_gen_reloc_outer :
  forall (blog : Z) (hashpart : Z -> Z -> Z -> Z -> Z -> Z -> Z) (remove : Z -> Z -> Z -> Z -> Z),
         (forall b p it r : Z, remove b p it r = it) ->
         forall (at_ : Z -> Z -> Z) (deref : Z -> Z) (bounds : Z -> Z -> Z) (bend count_of : Z -> Z),
         (forall x : Z, 0 <= count_of x < 70) ->
         forall (n : nat) (i bc bp bks g ht rp mb mcap mm cnt rmp : Z) (extra : nat),
         0 <= i ->
         Z.of_nat n = bc - i ->
         bc < 2 ^ 64 ->
         Gen_HashSetMove.pvRelocateItems_b_loop0 blog at_ deref bounds bend hashpart remove count_of (S n + extra) bc bp bks g ht
           rp mb mcap mm i cnt rmp = GenPrelude.Ok (None, (bc, cnt, rmp)).
Proof. exact gen_reloc_outer. Qed.
Print Assumptions C11_gen_reloc_outer.

(* T-gen tie of the lookup's generation walk.  The `while (true)` loop of HashSet::pvFind(key) (one-table lookup, `if (found || areItemsNothrowRelocatable) break; buckets = buckets->GetNextBuckets(); if (buckets == nullptr) break;`) is regenerated from HashSet.h on every run (Gen_HashSetFind.v; table arrays are handles, the one-table pvFind and GetNextBuckets are parameters).  Run on a chain of model tables (generation j = handle j+1, nullptr = 0, the one-table lookup answering non-null exactly where the model's tfind finds the key) the GENERATED walk returns the iterator of the generation that the hand model's gfind answers with, and the null iterator exactly when gfind finds nothing -- including the shortcut that only the newest table is searched when items are nothrow-relocatable.  all_findable / history_refines_set therefore talk about the generated control flow.  (The update of indexCode through the reference parameter of the one-table pvFind is not modelled.) *)
Theorem C11_gen_find_walk :
  forall (B : Type) (b0 : B) (ub : Z -> B -> Z) (h : Z -> Z) (wf0 : bool) (start : Z -> Z -> Z) 
           (next : Z -> Z -> Z -> Z) (nothrow : bool) (k : Z) (fi : Z -> Z) (rest : list (table B)) (g : nat) 
           (ic pred it0 : Z) (extra total : nat),
         (forall (j : nat) (t : table B),
          nth_error rest j = Some t ->
          (fi (Z.of_nat (g + j) + 1) =? 0) = match tfind B b0 ub h wf0 start next t k with
                                             | Some _ => false
                                             | None => true
                                             end) ->
         total = (g + length rest)%nat ->
         rest <> [] ->
         exists hd : Z,
           Gen_HashSetFind.pvFind_key_loop0 nothrow (fun x : Z => x) (nxt total) (fun _ hdl _ : Z => fi hdl) 
             (length rest + extra) ic pred it0 (Z.of_nat g + 1) =
           GenPrelude.Ok
             (match gfind B b0 ub h wf0 start next nothrow rest k g with
              | Some (gi, _, _) => fi (Z.of_nat gi + 1)
              | None => 0
              end, hd).
Proof. exact gen_find_walk. Qed.
Print Assumptions C11_gen_find_walk.

(* T-gen tie of pvFindBuckets' loop (generated: `for (bkts = mBuckets; bkts != nullptr; bkts = bkts->GetNextBuckets())`, `if (bucketIndex >= bkts->GetCount()) continue;`, the std::less address-range test on GetBounds of bucket bucketIndex): with item addresses owner * M + pos (disjoint storage per generation, M above every bucket length) it computes the hand model's find_buckets_loop (same generation or MOMO_ASSERT(false)). *)
Theorem C11_gen_find_buckets_loop :
  forall (B : Type) (b0 : B) (wf0 : bool) (bi M : Z) (gs0 rest : list (table B)) (g owner pos extra : nat) (bp : Z),
         (forall (j : nat) (t : table B), nth_error rest j = Some t -> nth_error gs0 (g + j) = Some t) ->
         length gs0 = (g + length rest)%nat ->
         (forall t : table B, In t rest -> Z.of_nat (length (items B (getb B b0 wf0 t bi))) <= M) ->
         Z.of_nat pos < M ->
         Gen_HashSetFind.pvFindBuckets_loop0 bp (fun x _ : Z => x) (fun x : Z => x) (fun b _ : Z => b)
           (fun x : Z =>
            (x - 1) * M + Z.of_nat (length (items B (getb B b0 wf0 (nth (Z.to_nat (x - 1)) gs0 {| tlog := 0; tbs := [] |}) bi))))
           (fun x : Z => bcount B (nth (Z.to_nat (x - 1)) gs0 {| tlog := 0; tbs := [] |})) (nxt (length gs0))
           (fun x : Z => (x - 1) * M) (fun _ a b : Z => a <? b) (S (length rest) + extra) bi (Z.of_nat owner * M + Z.of_nat pos)
           match rest with
           | [] => 0
           | _ :: _ => Z.of_nat g + 1
           end =
         GenPrelude.Ok
           match find_buckets_loop B b0 wf0 rest bi owner pos g with
           | Some gi => (Some (Z.of_nat gi + 1), Z.of_nat gi + 1)
           | None => (None, 0)
           end.
Proof. exact gen_find_buckets_loop. Qed.
Print Assumptions C11_gen_find_buckets_loop.

(* ... and the whole generated pvFindBuckets (single-table shortcut, the loop with the translator's 70 units of fuel for chains shorter than 70 tables, final MOMO_ASSERT(false) = Stuck) = the hand model's find_buckets, on which C11_find_buckets_returns_owner / C11_removable / C11_remove_if_any_state rest. *)
Theorem C11_gen_find_buckets_is_model :
  forall (B : Type) (b0 : B) (wf0 : bool) (bi M : Z) (gs0 : list (table B)) (owner pos : nat) (bp c cp rmp : Z),
         gs0 <> [] ->
         (length gs0 < 70)%nat ->
         (forall t : table B, In t gs0 -> Z.of_nat (length (items B (getb B b0 wf0 t bi))) <= M) ->
         Z.of_nat pos < M ->
         Gen_HashSetFind.pvFindBuckets bp (fun x _ : Z => x) (fun x : Z => x) (fun b _ : Z => b)
           (fun x : Z =>
            (x - 1) * M + Z.of_nat (length (items B (getb B b0 wf0 (nth (Z.to_nat (x - 1)) gs0 {| tlog := 0; tbs := [] |}) bi))))
           (fun x : Z => bcount B (nth (Z.to_nat (x - 1)) gs0 {| tlog := 0; tbs := [] |})) (nxt (length gs0))
           (fun x : Z => (x - 1) * M) (fun _ a b : Z => a <? b) c cp 1 rmp bi (Z.of_nat owner * M + Z.of_nat pos) =
         match find_buckets B b0 wf0 gs0 bi owner pos with
         | Some gi => GenPrelude.Ok (Z.of_nat gi + 1)
         | None => GenPrelude.Stuck
         end.
Proof. exact gen_find_buckets_is_model. Qed.
Print Assumptions C11_gen_find_buckets_is_model.

(* T-gen tie of Clear.  HashSet::Clear(shrink) is regenerated from HashSet.h on every run (Gen_HashSetClear.v: fields mCount / mCapacity / mBuckets; pvClear, pvDestroy() and pvDestroy(extracted chain, false) as recorded calls).  On the handle representation of the model chain (newest table 1, its successor 2 or nullptr 0) the GENERATED function yields the count, capacity and table pointer of the hand model's hclear; without shrink it clears exactly the newest table and destroys exactly the chain extracted from it (older generations left by interrupted migrations), capacity kept; with shrink everything is destroyed and the capacity is 0; bucket-less containers are untouched.  C11_clear_any_state is thereby about the generated field updates; what pvClear does to the buckets stays hand-modelled (clearT) + T-cor. *)
Theorem C11_gen_clear_is_hclear :
  forall (B : Type) (b0 : B) (wf0 : bool) (s : hset B) (shrink : bool) (rc rd : Z),
         let s' := hclear B b0 wf0 s shrink in
         let (p, rd') :=
           Gen_HashSetClear.Clear (fun x : Z => x) (next_handle B (gens B s)) (count B s) (capacity B s) 
             (head_handle B (gens B s)) rc rd shrink in
         let (p0, rc') := p in
         let (p1, mb') := p0 in
         let (c', cap') := p1 in
         (gens B s = [] -> c' = count B s /\ cap' = capacity B s /\ mb' = 0 /\ rc' = rc /\ rd' = rd /\ s' = s) /\
         (gens B s <> [] ->
          c' = count B s' /\
          cap' = capacity B s' /\
          mb' = head_handle B (gens B s') /\
          c' = 0 /\
          (shrink = true -> rd' = -1 /\ rc' = rc /\ gens B s' = [] /\ cap' = 0) /\
          (shrink = false ->
           rc' = 1 /\
           rd' = next_handle B (gens B s) 1 /\
           cap' = capacity B s /\ (exists t : table B, hd_error (gens B s) = Some t /\ gens B s' = [clearT B b0 wf0 t]))).
Proof. exact gen_clear_is_hclear. Qed.
Print Assumptions C11_gen_clear_is_hclear.

(* The iterator machine rests on the source.  The statements of HashSetConstIterator::pvMove and ::pvInc are read off the clang AST on every run (astfacts.py -> Gen_RelocFacts.iter_move_stmts / iter_inc_stmts) and interpreted on the model's iterator state (IterInterp.v: mBuckets = head of the chain the iterator stands on, bucket index, bucket iterator as offset from GetBegin): the `while (true)` loop (++bucketIndex; break when out of range; bounds of that bucket; if it has items ptReset to its last item and return), then `nextBuckets = mBuckets->GetNextBuckets(); if (nextBuckets != nullptr) { mBuckets = nextBuckets; ptReset(0, bounds(0).GetEnd()); return pvInc(); }`, else the end iterator.  The mutual recursion is accepted only after mBuckets moved to the next table (well-founded on the chain).  The interpretation of the CURRENT source equals the hand model's pv_move for every chain and bucket index. *)
Theorem C11_pv_move_is_interpreted_source :
  forall (B : Type) (b0 : B) (wf0 : bool) (gs : list (table B)) (bi : nat),
         interp_move B b0 wf0 src_inc src_move gs bi = Some (pv_move B b0 wf0 gs bi).
Proof. exact pv_move_is_interpreted_source. Qed.
Print Assumptions C11_pv_move_is_interpreted_source.

(* ... and the interpreted pvInc (`if (bucketIter != bounds(bucketIndex).GetBegin()) ptReset(bucketIndex, prev(bucketIter)); else pvMove();`) equals the hand model's pv_inc.  C11_iterator_traversal_once, C11_traversal_once (through the machine) and the re-positioning inside Remove(iter) are therefore about the interpreted source. *)
Theorem C11_pv_inc_is_interpreted_source :
  forall (B : Type) (b0 : B) (wf0 : bool) (gs : list (table B)) (bi p : nat),
         interp_inc B src_inc (fun b : nat => interp_move B b0 wf0 src_inc src_move gs b) gs bi p = Some (pv_inc B b0 wf0 gs bi p).
Proof. exact pv_inc_is_interpreted_source. Qed.
Print Assumptions C11_pv_inc_is_interpreted_source.

(* operator++ of the model (it_next, the `++iter` of Remove(filter)) is the interpreted pvInc.  (operator++'s own wrapper `if (ptIsMovable()) pvInc(); else this = end` is not interpreted: iterators of the model are always movable.) *)
Theorem C11_it_next_is_interpreted_source :
  forall (B : Type) (b0 : B) (wf0 : bool) (gs : list (table B)) (bi p : nat),
         Some (it_next B b0 wf0 (IAt B gs bi p)) =
         interp_inc B src_inc (fun b : nat => interp_move B b0 wf0 src_inc src_move gs b) gs bi p.
Proof. exact it_next_is_interpreted_source. Qed.
Print Assumptions C11_it_next_is_interpreted_source.

(* GetBegin: the statements of HashSet::GetBegin (`if (mCount == 0) return ConstIterator(); return ConstIteratorProxy(first table, 0, bounds(0).GetEnd(), version)`) and of the protected iterator constructor (member initialisers + `pvInc();`) interpreted = the hand model's it_begin -- the `iter = GetBegin()` of Remove(filter) and the start of every traversal. *)
Theorem C11_it_begin_is_interpreted_source :
  forall (B : Type) (b0 : B) (wf0 : bool) (s : hset B),
         interp_begin B b0 wf0 Gen_RelocFacts.get_begin_stmts Gen_RelocFacts.iter_ctor_stmts Gen_RelocFacts.iter_ctor_inits s =
         Some (it_begin B b0 wf0 s).
Proof. exact it_begin_is_interpreted_source. Qed.
Print Assumptions C11_it_begin_is_interpreted_source.

(* Remove(iter) rests on the source.  The statements of HashSet::Remove(ConstIterator) and HashSet::pvRemove are read off the clang AST on every run (astfacts.py -> Gen_RelocFacts.remove_iter_stmts / pv_remove_stmts) and interpreted statement by statement on the model state (RemoveAtInterp.v: the two MOMO_CHECKs, position / iterator / index bindings, `buckets = pvFindBuckets(bucketIndex, bucketIter)` = find_buckets, `bucket.Remove(..)` on bucket bucketIndex of THAT generation = tremove, --mCount, IncVersion, the returned iterator built on `buckets` whose constructor runs pvInc; each statement requires the names it uses to be bound).  (1) the interpretation of the CURRENT source equals the removal step of the hand model's remif; (2) the loop body of Remove(filter) is: filter true -> this interpreted Remove(iter), else the interpreted ++iter.  With C11_pv_inc_is_interpreted_source / C11_it_begin_is_interpreted_source no hand-written control flow is left in Remove(filter); what remains by contract is Bucket::Remove (tremove; byte level: GenFull / GenFullP4) and that it returns the iterator at the hole. *)
Theorem C11_remove_at_is_interpreted_source :
  forall (B : Type) (b0 : B) (wf0 : bool) (f : Z -> bool) (chain gs : list (table B)) (bi p : nat) (cnt : Z),
         interp_remove_at B b0 wf0 Gen_RelocFacts.remove_iter_stmts Gen_RelocFacts.pv_remove_stmts (chain, IAt B gs bi p, cnt) =
         do_act B b0 wf0 RRemoveAt (chain, IAt B gs bi p, cnt) /\
         do_body B b0 wf0 f src_body (chain, IAt B gs bi p, cnt) =
         (if f (it_deref B b0 wf0 (IAt B gs bi p))
          then
           interp_remove_at B b0 wf0 Gen_RelocFacts.remove_iter_stmts Gen_RelocFacts.pv_remove_stmts (chain, IAt B gs bi p, cnt)
          else do_act B b0 wf0 RInc (chain, IAt B gs bi p, cnt)).
Proof. exact remove_at_is_interpreted_source. Qed.
Print Assumptions C11_remove_at_is_interpreted_source.

(* Remove(filter) rests on the source.  The statements of HashSet::Remove(const ItemFilter&) are read off the clang AST on every run (astfacts.py -> Gen_RelocFacts.remove_filter_stmts: `initCount = GetCount(); iter = GetBegin(); while (!!iter) { if (itemFilter( *iter )) iter = Remove(iter); else ++iter; } return initCount - GetCount();`) and interpreted on the model state (RemoveIfInterp.v: the loop runs until the end iterator, the filter is applied to the item under the iterator, Remove(iter) = the modelled pvRemove -- generation through find_buckets, tremove, count - 1, iterator re-created at the hole and pvInc'ed --, ++iter = pv_inc).  The interpretation of the CURRENT source equals the hand model's hremove_if for every state and filter; C11_remove_if_any_state / C11_inv_step / C11_history_refines_set are theorems about hremove_if.  Hand-modelled primitives: Remove(iter), operator++ / GetBegin (iterator machine).  Swapping the branches, dropping the else, a different loop condition or return expression changes the generated list and breaks this proof. *)
Theorem C11_remove_filter_is_interpreted_source :
  forall (B : Type) (b0 : B) (wf0 : bool) (f : Z -> bool) (s : hset B),
         interp_remove_filter B b0 wf0 f Gen_RelocFacts.remove_filter_stmts s = hremove_if B b0 wf0 s f.
Proof. exact remove_filter_is_interpreted_source. Qed.
Print Assumptions C11_remove_filter_is_interpreted_source.

(* AST facts feeding the model.  The statements of HashSet::pvRelocateItems(Buckets ptr) are read off the clang AST on every run (props/C11/astfacts.py -> Gen_RelocFacts.worker_stmts, syntax RelocSyntax.cstmt) and INTERPRETED on the model's chain of tables (GenFacts.interp_worker: `nextBuckets = buckets->GetNextBuckets()`, `if (nextBuckets != nullptr) { pvRelocateItems(nextBuckets); buckets->ExtractNextBuckets(); }` = recursive activation on the older chain, unlinked only after a normal return, the item loop = reloc_buckets (skeleton: Gen_HashSetMove), `buckets->Destroy` = the table disappears; a status other than MOk is an exception in flight and skips the remaining statements, there being no handler).  The interpretation of the CURRENT source equals the hand model's reloc_gens for every chain, newest table and failure schedule -- so every theorem above about interrupted migrations is about the interpreted statements: oldest generation first, the first failure leaves every table on the recursion path linked and not destroyed. *)
Theorem C11_reloc_gens_is_interpreted_source :
  forall (B : Type) (b0 : B) (ub : B -> Z -> B) (h : Z -> Z) (cap : Z) (wf0 : bool) (wfu : Z -> bool) 
           (start : Z -> Z -> Z) (next : Z -> Z -> Z -> Z) (nothrow : bool) (olds : list (table B)) (nw : table B)
           (sch : list bool),
         interp_worker B b0 ub h cap wf0 wfu start next nothrow src_wacts olds nw sch =
         Some (reloc_gens B b0 ub h cap wf0 wfu start next nothrow olds nw sch).
Proof. exact reloc_gens_is_interpreted_source. Qed.
Print Assumptions C11_reloc_gens_is_interpreted_source.

(* ... and the wrapper pvRelocateItems() (Gen_RelocFacts.wrapper_stmts: `nextBuckets = mBuckets->GetNextBuckets(); try { pvRelocateItems(nextBuckets); mBuckets->ExtractNextBuckets(); } catch (...) { }`), interpreted with try / catch-all semantics (an MStop raised inside the try is swallowed by the EMPTY catch-all handler, statements after the throw point inside the try are skipped, MTerm = std::terminate out of the noexcept worker), equals the hand model's `relocate` on every chain with at least two tables -- the function through which hadd / hreserve (and with them all theorems on growth failures) use the migration.  Moving ExtractNextBuckets out of the try, a non-empty handler, or any statement the interpreter does not know breaks this proof. *)
Theorem C11_relocate_is_interpreted_source :
  forall (B : Type) (b0 : B) (ub : B -> Z -> B) (h : Z -> Z) (cap : Z) (wf0 : bool) (wfu : Z -> bool) 
           (start : Z -> Z -> Z) (next : Z -> Z -> Z -> Z) (nothrow : bool) (nw g : table B) (older : list (table B))
           (sch : list bool),
         interp_wrapper B b0 ub h cap wf0 wfu start next nothrow src_wacts Gen_RelocFacts.wrapper_stmts (nw :: g :: older) sch =
         Some (relocate B b0 ub h cap wf0 wfu start next nothrow (nw :: g :: older) sch).
Proof. exact relocate_is_interpreted_source. Qed.
Print Assumptions C11_relocate_is_interpreted_source.

(* side facts read off the AST: pvRelocateItems(Buckets ptr) is noexcept(areItemsNothrowRelocatable), pvRelocateItems() is noexcept. *)
Theorem C11_noexcept_facts_hold :
  noexcept_facts = true.
Proof. exact noexcept_facts_hold. Qed.
Print Assumptions C11_noexcept_facts_hold.

(* same-code: BucketLimP4<.., 3, .., true> translated with maxCount symbolic gives literally the same Gallina as BucketLimP4<.., 4, .., true> for pvGetCount, IsFull, pvGetMemPoolIndex, WasFull, pvSetPtrState, pvSetEmpty, Clear, Remove (AddCrt differs per maxCount and is not claimed). *)
Theorem C11_limp4_same_code_3_is_4 :
  Gen_P4S3.pvGetCount = Gen_P4S4.pvGetCount /\
         Gen_P4S3.IsFull = Gen_P4S4.IsFull /\
         Gen_P4S3.pvGetMemPoolIndex = Gen_P4S4.pvGetMemPoolIndex /\
         Gen_P4S3.WasFull = Gen_P4S4.WasFull /\
         Gen_P4S3.pvSetPtrState = Gen_P4S4.pvSetPtrState /\
         Gen_P4S3.pvSetEmpty = Gen_P4S4.pvSetEmpty /\ Gen_P4S3.Clear = Gen_P4S4.Clear /\ Gen_P4S3.Remove = Gen_P4S4.Remove.
Proof. exact limp4_same_code_3_is_4. Qed.
Print Assumptions C11_limp4_same_code_3_is_4.

(* ... BucketLimP4<2>. *)
Theorem C11_limp4_same_code_2_is_4 :
  Gen_P4S2.pvGetCount = Gen_P4S4.pvGetCount /\
         Gen_P4S2.IsFull = Gen_P4S4.IsFull /\
         Gen_P4S2.pvGetMemPoolIndex = Gen_P4S4.pvGetMemPoolIndex /\
         Gen_P4S2.WasFull = Gen_P4S4.WasFull /\
         Gen_P4S2.pvSetPtrState = Gen_P4S4.pvSetPtrState /\
         Gen_P4S2.pvSetEmpty = Gen_P4S4.pvSetEmpty /\ Gen_P4S2.Clear = Gen_P4S4.Clear /\ Gen_P4S2.Remove = Gen_P4S4.Remove.
Proof. exact limp4_same_code_2_is_4. Qed.
Print Assumptions C11_limp4_same_code_2_is_4.

(* ... BucketLimP4<1>. *)
Theorem C11_limp4_same_code_1_is_4 :
  Gen_P4S1.pvGetCount = Gen_P4S4.pvGetCount /\
         Gen_P4S1.IsFull = Gen_P4S4.IsFull /\
         Gen_P4S1.pvGetMemPoolIndex = Gen_P4S4.pvGetMemPoolIndex /\
         Gen_P4S1.WasFull = Gen_P4S4.WasFull /\
         Gen_P4S1.pvSetPtrState = Gen_P4S4.pvSetPtrState /\
         Gen_P4S1.pvSetEmpty = Gen_P4S4.pvSetEmpty /\ Gen_P4S1.Clear = Gen_P4S4.Clear /\ Gen_P4S1.Remove = Gen_P4S4.Remove.
Proof. exact limp4_same_code_1_is_4. Qed.
Print Assumptions C11_limp4_same_code_1_is_4.

(* the symbolic translation at maxCount = 4 is the concrete translation that GenFullP4.v / C12's stack reason about. *)
Theorem C11_limp4_symbolic_at_4_is_concrete :
  forall (hc mm : Z) (s : Z -> Z) (p st : Z),
         Gen_P4S4.pvGetCount s p st = Gen_P4A.pvGetCount s p st /\
         Gen_P4S4.IsFull 4 s p st = Gen_P4A.IsFull s p st /\
         Gen_P4S4.pvGetMemPoolIndex 4 s p st = Gen_P4A.pvGetMemPoolIndex s p st /\
         Gen_P4S4.WasFull 4 s p st = Gen_P4A.WasFull s p st /\
         Gen_P4S4.Clear 4 hc mm s p st = Gen_P4A.Clear hc mm s p st /\
         (forall it ix : Z, Gen_P4S4.Remove 4 hc mm s p st it ix = Gen_P4A.Remove hc mm s p st it ix).
Proof. exact limp4_symbolic_at_4_is_concrete. Qed.
Print Assumptions C11_limp4_symbolic_at_4_is_concrete.

(* what the shared IsFull says for every maxCount 1..4: the last short-hash byte is below maskEmpty. *)
Theorem C11_limp4_isfull_any_maxcount :
  forall (mc : Z) (s : Z -> Z) (p st : Z), 1 <= mc <= 4 -> Gen_P4S4.IsFull mc s p st = (s (mc - 1) <? 128).
Proof. exact limp4_isfull_any_maxcount. Qed.
Print Assumptions C11_limp4_isfull_any_maxcount.

(* the generated empty BucketOpen2N2 bytes represent the model's empty bucket (count only: rel_o2 does not talk about WasFull). *)
Theorem C11_o2_empty :
  forall (B : Type) (wf0 : bool) (b0 : B), rel_o2 B BucketOps.O2.empty (emptyB B b0 wf0).
Proof. exact o2_empty. Qed.
Print Assumptions C11_o2_empty.

(* generated BucketOpenN1::pvSetEmpty represents the model's empty bucket (count only). *)
Theorem C11_n1_empty :
  forall (B : Type) (rv : bool) (mc : Z),
         1 <= mc <= 7 ->
         forall (wf0 : bool) (b0 : B) (d : Z -> Z), rel_n1 B rv mc (Gen_OpenN1_ops.pvSetEmpty mc d) (emptyB B b0 wf0).
Proof. exact n1_empty. Qed.
Print Assumptions C11_n1_empty.

(* table level, for ANY bucket relation (rel_o2, rel_n1, rel_p4_bucket, rel_one): the premise `Forall2 rel ds (tbs t)` of the refused_insert_full_iff_generated_IsFull_* theorems is established by a freshly created table from a related empty bucket ... *)
Theorem C11_rel_table_new :
  forall (B D : Type) (rel : D -> bucket B -> Prop) (d0 : D) (b0 : B) (wf0 : bool) (log : Z),
         rel d0 (emptyB B b0 wf0) -> Forall2 rel (repeat d0 (Z.to_nat (2 ^ log))) (tbs B (newTable B b0 wf0 log)).
Proof. exact rel_table_new. Qed.
Print Assumptions C11_rel_table_new.

(* ... preserved when bucket i is replaced by a related pair (the shape in which tadd / tremove change a table: setb; combine with the per-bucket *_add / *_remove lemmas) ... *)
Theorem C11_rel_table_set :
  forall (B D : Type) (rel : D -> bucket B -> Prop) (ds : list D) (t : table B) (i : Z) (d : D) (b : bucket B),
         Forall2 rel ds (tbs B t) -> rel d b -> Forall2 rel (upd_nth (Z.to_nat i) d ds) (tbs B (setb B t i b)).
Proof. exact rel_table_set. Qed.
Print Assumptions C11_rel_table_set.

(* ... and by pvClear (clearT). *)
Theorem C11_rel_table_clear :
  forall (B D : Type) (rel : D -> bucket B -> Prop) (ds : list D) (d0 : D) (b0 : B) (wf0 : bool) (t : table B),
         Forall2 rel ds (tbs B t) -> rel d0 (emptyB B b0 wf0) -> Forall2 rel (map (fun _ : D => d0) ds) (tbs B (clearT B b0 wf0 t)).
Proof. exact rel_table_clear. Qed.
Print Assumptions C11_rel_table_clear.

(* satisfiability of the premise: EVERY model table whose buckets hold at most 3 items has representing BucketOpen2N2<3> bytes (built from the generated empty state by the generated AddCrt). *)
Theorem C11_o2_table_exists :
  forall (B : Type) (t : table B),
         (forall b : bucket B, In b (tbs B t) -> blen B b <= 3) ->
         exists ds : list BucketOps.O2.st, Forall2 (rel_o2 B) ds (tbs B t).
Proof. exact o2_table_exists. Qed.
Print Assumptions C11_o2_table_exists.

(* the same for BucketOpenN1<maxCount 1..7> (both layouts). *)
Theorem C11_n1_table_exists :
  forall (B : Type) (rv : bool) (mc : Z),
         1 <= mc <= 7 ->
         forall t : table B,
         (forall b : bucket B, In b (tbs B t) -> blen B b <= mc) ->
         exists ds : list (Z -> Z), Forall2 (rel_n1 B rv mc) ds (tbs B t).
Proof. exact n1_table_exists. Qed.
Print Assumptions C11_n1_table_exists.

(* HashBucketOpen2N2<1> and HashBucketOpen2N2<3> translate to the same Gallina (maxCount is a Section variable): one proof covers all instantiations. *)
Theorem C11_same_code_open2n2_policy :
  Gen_PolicyOpen2N2_m1.CalcCapacity = Gen_PolicyOpen2N2.CalcCapacity /\
         Gen_PolicyOpen2N2_m1.GetBucketCountShift = Gen_PolicyOpen2N2.GetBucketCountShift.
Proof. exact same_code_open2n2_policy. Qed.
Print Assumptions C11_same_code_open2n2_policy.

(* BucketOpen8 and BucketOpen2N2 have the same GetNextBucketIndex. *)
Theorem C11_same_code_open_index :
  Gen_IndexOpen8.GetNextBucketIndex = Gen_IndexOpen2N2.GetNextBucketIndex.
Proof. exact same_code_open_index. Qed.
Print Assumptions C11_same_code_open_index.

(* the hypotheses kind_ok hold for the concrete kinds used by the extracted model (mask start index, linear and triangular probing, exact max-probe bound, both growth policies). *)
Theorem C11_concrete_kind_ok :
  forall c : config,
         0 < c_cap c ->
         0 <= c_logStart c ->
         kind_ok Z (fun _ b : Z => b) Z.max (c_cap c) (cfg_wfull c) start_mask (cfg_next c) (c_logStart c) (cfg_sh c).
Proof. exact concrete_kind_ok. Qed.
Print Assumptions C11_concrete_kind_ok.

(* kind_ok2 holds for linear probing (LimP4 / One) with both capacity policies (triangular probing: next theorem). *)
Theorem C11_linear_kind_ok2 :
  forall c : config, 0 < c_cap c -> c_probe c = 0 -> kind_ok2 (c_cap c) start_mask (cfg_next c) (cfg_cc c).
Proof. exact linear_kind_ok2. Qed.
Print Assumptions C11_linear_kind_ok2.

(* kind_ok2 holds for triangular probing (Open2N2 / Open8) on power-of-two tables: every bucket is reached within bucketCount probes (tri_inj + pigeonhole, ProbeSeq.v copied from C13). *)
Theorem C11_tri_kind_ok2 :
  forall c : config, 0 < c_cap c -> c_probe c <> 0 -> kind_ok2 (c_cap c) start_mask (cfg_next c) (cfg_cc c).
Proof. exact tri_kind_ok2. Qed.
Print Assumptions C11_tri_kind_ok2.

(* hence kind_ok2 for every configuration of the extracted model. *)
Theorem C11_concrete_kind_ok2 :
  forall c : config, 0 < c_cap c -> kind_ok2 (c_cap c) start_mask (cfg_next c) (cfg_cc c).
Proof. exact concrete_kind_ok2. Qed.
Print Assumptions C11_concrete_kind_ok2.

(* kind_ok3 holds for both capacity policies (HashBucketBase: 5/8, 3/2, 2 per bucket; open addressing: 11/12 and 13/14 of the slots). *)
Theorem C11_concrete_kind_ok3 :
  forall c : config, 0 < c_cap c -> kind_ok3 (cfg_cc c).
Proof. exact concrete_kind_ok3. Qed.
Print Assumptions C11_concrete_kind_ok3.

(* the two main theorems instantiated at cfg_run = exactly the extracted function that is compared with the real momo containers on every run. *)
Theorem C11_cfg_all_histories :
  forall (c : config) (os : list op) (s : hset Z) (outs : list out),
         0 < c_cap c ->
         0 <= c_logStart c ->
         cfg_run c (hinit Z) os = Some (s, outs) ->
         Inv Z 0 (fun _ b : Z => b) (spread (c_dist c)) (c_cap c) (c_wf0 c) start_mask (cfg_next c) (c_nothrow c) s /\
         refines [] os outs (abs Z s).
Proof. exact cfg_all_histories. Qed.
Print Assumptions C11_cfg_all_histories.

(* non-vacuity: a concrete history (Open2N2<3>, refused growth + interrupted migrations) reaches THREE coexisting generations holding 4, 6 and 4 items; all 14 keys are found. *)
Theorem C11_ex_three_generations :
  ex_summary (cfg_run ex_cfg (hinit Z) ex_ops) =
         Some
           (3%nat, 14, 22, [true; true; true; true; true; true; false; true; true; true; true; true; true; true; true], [4; 6; 4]).
Proof. exact ex_three_generations. Qed.
Print Assumptions C11_ex_three_generations.

(* non-vacuity: one more failure-free insertion brings that chain back to a single generation with all items; Remove works. *)
Theorem C11_ex_migration_completes :
  ex_summary (cfg_run ex_cfg (hinit Z) (ex_ops ++ [ins 16; ORemove 3])) =
         Some (1%nat, 14, 22, [true; true; false; true; true; true; false; true; true; true; true; true; true; true; true], [14]).
Proof. exact ex_migration_completes. Qed.
Print Assumptions C11_ex_migration_completes.

(* non-vacuity: with every growth refused a 2-bucket Open2N2<3> table accepts insertions up to 6 items through the fallback path, then reports full. *)
Theorem C11_ex_refused_until_full :
  match
           cfg_run ex_cfg (hinit Z)
             ([ins 1; ins 2; ins 3; ins 4; ins 5] ++ map (fun k : Z => OInsert k false false true []) [6; 7; 8])
         with
         | Some (s, outs) => (outs, count Z s, capacity Z s, length (gens Z s))
         | None => ([], 0, 0, 0%nat)
         end = ([RInserted; RInserted; RInserted; RInserted; RInserted; RInserted; RFull; RFull], 6, 5, 1%nat).
Proof. exact ex_refused_until_full. Qed.
Print Assumptions C11_ex_refused_until_full.

