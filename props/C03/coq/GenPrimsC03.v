(* C03 -- the statement language of the AST facts (props/C03/astfacts.py writes Gen_C03Facts.v in this vocabulary) *)
From Coq Require Import List String.
Import ListNotations.

Inductive pexpr := PVar (v : string) | PChild0 (p : pexpr) | PParent (p : pexpr).

Inductive cstmt :=
| SCall (f : string)                       (* f(...) on the object itself *)
| SCallOn (obj f : string)                 (* obj.f(...) / obj->f(...) *)
| SNull (fld : string)                     (* fld = nullptr *)
| SAssign (l r : string)
| SSwap (fld : string)                     (* std::swap(fld, other.fld) *)
| SDecl (v how : string)                   (* T v = how(...) / T v(...) ("ctor") *)
| SRethrow | SReturn | SIf | STry | SLoop
| SOther (kind : string)
| SLoopOver (arr call : string)            (* for (x : arr) call *)
| SLink (f a b : string)                   (* pvSetPrevBuffer / pvSetNextBuffer (a, b) *)
| SLocal (v : string) (e : pexpr)          (* Node* v = e *)
| SSet (l : pexpr) (e : pexpr)             (* l = e (l a variable) *)
| SIfEq (a b : pexpr) (s : cstmt)          (* if (a == b) s *)
| SDestroyP (e : pexpr)                    (* e->Destroy(params) *)
| SSetParentNull (e : pexpr).              (* e->SetParent(nullptr) *)
