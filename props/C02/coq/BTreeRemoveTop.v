(* C02 -- container level: pvRebalance and Remove(iterator) of an item stored in a leaf *)
From Coq Require Import List ZArith Arith Lia Bool.
From C02 Require Import BTreeModel BTreeBase BTreeSearch BTreeIter BTreeAdd BTreeRemove BTreeTop.
Import ListNotations.

Section RemTop.
Variable maxCap : nat.
Hypothesis Hmc : 1 <= maxCap <= 255.
Notation shape := (shape maxCap).
Notation twf := (twf maxCap).

Lemma leaf_at_depth p : forall d n j,
  shape d n -> valid d p n j -> length p = d -> exists nd, node_at p n = Some nd /\ is_leaf nd = true.
Proof.
  induction p as [|c p IH]; intros d n j Sh V Lp.
  - simpl in Lp. subst d. exists n. split; auto. eapply shape_0_leaf; eauto.
  - destruct (valid_cons _ _ _ _ _ V) as (d' & ch & -> & E & V'). simpl in Lp. simpl. rewrite E.
    apply (IH d' ch j); auto; try lia. eapply shape_child; eauto.
Qed.

Theorem rebalance_preserves d r np sp fast :
  shape d r ->
  exists d', shape d' (fst (rebalance r np sp fast)) /\ flatten (fst (rebalance r np sp fast)) = flatten r.
Proof. apply rebalance_spec. lia. Qed.

(* Remove(iter) where iter points into a leaf: WF is kept (through node->Remove, the root collapse and the
   lazy sibling merges of pvRebalance), mCount is decremented, and the sequence loses exactly the item at
   the iterator's index *)
Theorem remove_leaf_refines t it :
  twf t -> tvalid t it -> titem t it ->
  (match root t with Some r => length (fst it) = height r | None => True end) ->
  let t' := fst (remove t it) in
  twf t' /\ contents t' = remove_at (iter_index t it) (contents t).
Proof.
  unfold BTreeTop.twf, tvalid, titem, iter_index, contents, remove.
  destruct (root t) as [r|] eqn:Er; [|tauto].
  intros [Sh C] V H Lp. destruct it as [p j]. cbn [fst snd] in *.
  destruct (leaf_at_depth p _ r j Sh V Lp) as (nd & En & Lf).
  unfold remove_root. rewrite En, Lf.
  destruct (remove_item_leaf_spec maxCap ltac:(lia) p _ r j Sh V H Lp) as [S1 F1].
  destruct (rebalance_preserves _ (update_at p (remove_item j) r) p p true S1) as (d' & S2 & F2).
  destruct (rebalance (update_at p (remove_item j) r) p p true) as [r2 sp]. cbn [fst snd root cnt] in *.
  destruct (after_item maxCap _ p r j Sh V H) as (x & tl0 & _ & Ea).
  pose proof (before_after maxCap _ p r j Sh V) as Hfl. rewrite Ea in *.
  rewrite F2, F1. cbn [tl]. split.
  - split; [rewrite (shape_height maxCap _ _ S2); exact S2|].
    rewrite C, <- Hfl, !app_length. simpl. lia.
  - rewrite <- Hfl. unfold remove_at. rewrite firstn_before.
    replace (S (length (before p r j))) with (length (before p r j ++ [x])) by (rewrite app_length; simpl; lia).
    replace (before p r j ++ x :: tl0) with ((before p r j ++ [x]) ++ tl0) by (rewrite <- app_assoc; reflexivity).
    rewrite skipn_before. reflexivity.
Qed.

End RemTop.
