(* C18 model driver: same case format and output format as harness.cpp (see there). *)
open Zutil
open Model

let zs = string_of_z
let () = iter_lines (fun line ->
  match words line with
  | ["v"; l; code; cp] ->
    let (v1, v2) = Gen_Vertices.coq_GetVertices (z_of_string l) (z_of_string code) (z_of_string cp) in
    Printf.printf "%s %s\n" (zs v1) (zs v2)
  | ["p"; l; cp; code; a1; a2] ->
    let lz = z_of_string l and cpz = z_of_string cp and cz = z_of_string code in
    let (v1, v2) = Gen_Vertices.coq_GetVertices lz cz cpz in
    let a = GenPrelude.upd (GenPrelude.upd (fun _ -> z_of_int 0) v1 (z_of_string a1)) v2 (z_of_string a2) in
    (match Gen_List.pvGetOffset (Gen_Vertices.coq_GetVertices lz) cpz a (z_of_int 0) (z_of_int 0) cz with
     | GenPrelude.Ok o -> print_endline (zs o) | _ -> print_endline "ASSERT")
  | ["b"; v; i] ->
    (* the generated SetBit / GetBit on an 8-byte array *)
    let vz = Z.of_string v in
    let d0 = (fun k -> let ki = int_of_z k in if ki >= 0 && ki < 8 then z_of_zarith (Z.logand (Z.shift_right vz (8 * ki)) (Z.of_int 255)) else z_of_int 0) in
    let d1 = Gen_Bits.coq_SetBit d0 (z_of_string i) in
    let buf = Buffer.create 128 in
    for k = 0 to 7 do Buffer.add_string buf (zs (d1 (z_of_int k)) ^ " ") done;
    for j = 0 to 63 do Buffer.add_char buf (if Gen_Bits.coq_GetBit d1 (z_of_int j) then '1' else '0') done;
    print_endline (Buffer.contents buf)
  | ["c"; v; m] -> print_endline (zs (Gen_Ceil.coq_Ceil (z_of_string v) (z_of_string m)))
  | "S" :: _sid :: keep :: rest ->
    (* DataColumnListStatic: members "M size:align ..." then ops "m idx.." / "r" *)
    let keepb = (keep = "1") in
    let rec split acc cur = function
      | [] -> Stdlib.List.rev (Stdlib.List.rev cur :: acc)
      | ";" :: tl -> split (Stdlib.List.rev cur :: acc) [] tl
      | x :: tl -> split acc (x :: cur) tl in
    let segs = Stdlib.List.filter (fun l -> l <> []) (split [] [] rest) in
    let members = (match segs with ("M" :: ms) :: _ -> Stdlib.List.map (fun m ->
        match String.split_on_char ':' m with
        | [sz; al] -> { c_code = z_of_int 0; c_size = z_of_string sz; c_align = z_of_string al; c_mut = false }
        | _ -> failwith "member") ms | _ -> []) in
    let ops = (match segs with _ :: tl -> tl | [] -> []) in
    let ((sz, al), rs) = Static.struct_layout members in
    let offs = Stdlib.List.map (fun r -> r.r_off) rs in
    let buf = Buffer.create 256 in
    Buffer.add_string buf (Printf.sprintf "%s %s %s %s |" (zs sz) (zs al) (zs (Static.s_total keepb sz)) (zs al));
    Stdlib.List.iter (fun o -> Buffer.add_string buf (" " ^ zs o)) offs;
    Buffer.add_string buf " |";
    Stdlib.List.iter (fun o -> Buffer.add_string buf (match Static.s_get_offset sz o with Some x -> " " ^ zs x | None -> " ASSERT")) offs;
    Buffer.add_string buf " |";
    Stdlib.List.iter (fun o -> Buffer.add_string buf (match Static.s_contains sz o with Some x -> " " ^ zs x | None -> " ASSERT")) offs;
    let b = ref Static.s_reset in
    Stdlib.List.iter (fun op ->
      (match op with
       | ["r"] -> b := Static.s_reset
       | "m" :: idx -> b := Static.s_set_mutable !b (Stdlib.List.map (fun i -> Stdlib.List.nth offs (int_of_string i)) idx)
       | _ -> ());
      Buffer.add_string buf " ;";
      for o = 0 to int_of_z sz - 1 do
        if Static.s_is_mutable !b (z_of_int o) then Buffer.add_string buf (Printf.sprintf " %d" o)
      done) ops;
    Buffer.add_string buf " ; raw ok ; visit";
    Stdlib.List.iter (fun o -> Buffer.add_string buf (" " ^ zs o)) offs;
    print_endline (Buffer.contents buf)
  | first :: rest0 when first = "F" || first = "D" || (first <> "v" && first <> "c" && first <> "p" && first <> "b") ->
    let failing = (first = "F") in
    let (l, keep, rest) = (match (if failing || first = "D" then rest0 else first :: rest0) with l :: keep :: rest -> (l, keep, rest) | _ -> ("4", "0", ["?bad"])) in
    (* A / G / H as the first op = DataColumnList(column, columns...): in the model, an Add on the empty list *)
    let rest = (match rest with t :: tl when t = "A" || t = "G" || t = "H" -> String.lowercase_ascii t :: tl | _ -> rest) in
    let lz = z_of_string l in
    let keepb = (keep = "1") in
    (* split into ops *)
    let ops = ref [] and universe = ref [] and probes = ref [] in
    let note c = if not (Stdlib.List.mem c !universe) then universe := !universe @ [c] in
    let rec col = function
      | t :: s :: a :: c :: tl -> let ti = int_of_string t in
        ({ c_code = z_of_string c; c_size = z_of_string s; c_align = z_of_string a; c_mut = (ti >= 100) }, (c, ti mod 100), tl)
      | _ -> failwith "col"
    and go = function
      | [] -> ()
      | ";" :: tl -> go tl
      | "a" :: tl -> let (c, cs, tl) = col tl in
        let tl = (match tl with nm :: tl' when nm <> ";" -> tl' | _ -> tl) in
        ops := !ops @ [([c], [cs])]; go tl
      | "g" :: tl -> let (c1, s1, tl) = col tl in let (c2, s2, tl) = col tl in
        ops := !ops @ [([c1; c2], [s1; s2])]; go tl
      | "h" :: tl -> let (c1, s1, tl) = col tl in let (c2, s2, tl) = col tl in let (c3, s3, tl) = col tl in
        ops := !ops @ [([c1; c2; c3], [s1; s2; s3])]; go tl
      | "x" :: tl -> let (_, _, tl) = col tl in go tl
      | "?" :: tl -> probes := tl
      | _ -> failwith "parse"
    in
    (try
      go rest;
      Stdlib.List.iter (fun (_, cs) -> Stdlib.List.iter (fun (c, _) -> note c) cs) !ops;
      Stdlib.List.iter note !probes;
      let st = ref (init keepb) in
      let added = ref [] and groups = ref [] and npos = ref 0 in
      let verts = vertices lz in
      let buf = Buffer.create 4096 in
      let first = ref true in
      Stdlib.List.iter (fun (cols, codes) ->
        let r = add lz !st cols in
        let status = (match r with Added _ -> "A" | TooMany -> "T" | Refused -> "R" | OutOfFuel -> "FUEL" | AssertFails -> "ASSERT") in
        st := after !st r;
        if status = "A" then begin
          added := !added @ (Stdlib.List.map fst codes);
          (* the group of this FuncRecord, restricted to the instrumented item types 10..13, by column position *)
          let g = ref [] in
          Stdlib.List.iter (fun (_, t) -> (if t >= 10 && t <= 13 then g := !g @ [nat_of_int !npos]); incr npos) codes;
          groups := !groups @ [!g]
        end;
        if not !first then Buffer.add_string buf " ; "; first := false;
        let s = !st in
        Buffer.add_string buf (Printf.sprintf "%s %s %s %s %d" status (zs s.codeParam) (zs s.totalSize) (zs s.alignment) (Stdlib.List.length s.columns));
        Stdlib.List.iter (fun r -> Buffer.add_string buf (Printf.sprintf " %s:%s" (zs r.r_code) (zs r.r_off))) s.columns;
        Buffer.add_string buf " |";
        (* GetOffset: the cxx2coq translation of the real pvGetOffset, run on the model's members *)
        Stdlib.List.iter (fun c -> match Gen_List.pvGetOffset (coq_GetVertices lz) s.codeParam s.addends s.totalSize s.alignment (z_of_string c) with
          | GenPrelude.Ok o -> Buffer.add_string buf (" " ^ zs o) | _ -> Buffer.add_string buf " ASSERT") !added;
        Buffer.add_string buf " |";
        (* Contains(info, &offset): the cxx2coq translation of the real Contains on the model's members (non-null resOffset);
           the harness also checks that Contains(info) without resOffset gives the same answer *)
        Stdlib.List.iter (fun c -> match contains_gen lz s (z_of_int 1) (z_of_string c) with
          | (true, o) -> Buffer.add_string buf (" " ^ zs o) | (false, _) -> Buffer.add_string buf " -") !universe;
        Buffer.add_string buf " |";
        Stdlib.List.iter (fun v -> let a = s.addends v in
          if zs a <> "0" then Buffer.add_string buf (Printf.sprintf " %s:%s" (zs v) (zs a))) verts;
        Buffer.add_string buf (" | m " ^ zs s.mutCount);
        if s.columns <> [] then
          for o = 0 to int_of_z s.totalSize - 1 do
            (match Gen_Mut.coq_IsMutable Gen_Bits.coq_GetBit s.totalSize s.mutBytes (z_of_int o) with   (* the generated IsMutable + GetBit *)
             | GenPrelude.Ok true -> Buffer.add_string buf (Printf.sprintf " %d" o) | GenPrelude.Ok false -> () | _ -> Buffer.add_string buf " ASSERT")
          done
      ) !ops;
      Buffer.add_string buf " ; raw ok ; ev n:";
      let show t = Stdlib.List.iter (fun e -> match e with
        | RawLife.Ctor c -> Buffer.add_string buf (Printf.sprintf " C%d" (int_of_nat c))
        | RawLife.Dtor c -> Buffer.add_string buf (Printf.sprintf " D%d" (int_of_nat c))) t in
      let ngr = nat_of_int (Stdlib.List.length !groups + 1) in
      let (t, _) = RawLife.create_raw_idx ngr None !groups (nat_of_int 0) in
      show t; show (RawLife.destroy_raw !groups);
      let cnt = Stdlib.List.length (Stdlib.List.concat !groups) in
      for k = 0 to cnt - 1 do
        Buffer.add_string buf (Printf.sprintf " | %d:" k);
        let (t, _) = RawLife.create_raw_idx ngr (Some (nat_of_int k)) !groups (nat_of_int 0) in show t
      done;
      (* createFunc / destroyFunc counts per FuncRecord: the GENERATED pvCreateRaw (Gen_Raw.v); record ids = indices; the schedule
         lets the createFunc call of the group that holds the k-th instrumented column throw *)
      Buffer.add_string buf " ; fr ";
      let ng = Stdlib.List.length !groups in
      let idarr = (fun i -> i) and zero = (fun _ -> z_of_int 0) in
      let group_of k = (* index of the group containing the k-th instrumented column *)
        let rec go gi seen = function
          | [] -> ng
          | g :: tl -> let m = Stdlib.List.length g in if k < seen + m then gi else go (gi + 1) (seen + m) tl in
        go 0 0 !groups in
      for k = -1 to cnt - 1 do
        let g = if k < 0 then -1 else group_of k in
        let sched = (fun c -> g >= 0 && int_of_z c = g) in
        Buffer.add_string buf (if k < 0 then "n:" else Printf.sprintf " | %d:" k);
        (match Gen_Raw.pvCreateRaw (z_of_int ng) idarr (z_of_int 0) zero zero sched with
         | GenPrelude.Ok (((completed, _), created), destroyed) ->
           Buffer.add_string buf (if completed then "T c" else "F c");
           for i = 0 to ng - 1 do Buffer.add_string buf (" " ^ zs (created (z_of_int i))) done;
           Buffer.add_string buf " d";
           for i = 0 to ng - 1 do Buffer.add_string buf (" " ^ zs (destroyed (z_of_int i))) done
         | _ -> Buffer.add_string buf "STUCK")
      done;
      if failing then Buffer.add_string buf " ; af ok";
      print_endline (Buffer.contents buf)
    with Failure m -> print_endline ("?" ^ m))
  | _ -> print_endline "?")
