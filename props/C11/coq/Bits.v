(* COPIED from props/C12/coq (only change: the library name); C11 uses these LimP4 bucket facts for GenFullP4.v *)
(* Bit-level toolkit for C12: testbit characterisations of the operators the generated code uses. *)
From Coq Require Import ZArith Bool Lia.
From MomoCommon Require Import GenPrelude.
Local Open Scope Z_scope.

Lemma tb_wrapU w x n : 0 <= w -> 0 <= n -> Z.testbit (wrapU w x) n = (n <? w) && Z.testbit x n.
Proof.
  intros Hw Hn. unfold wrapU. destruct (Z.ltb_spec n w).
  - rewrite Z.mod_pow2_bits_low by lia. reflexivity.
  - rewrite Z.mod_pow2_bits_high by lia. reflexivity.
Qed.

Lemma tb_ones k n : 0 <= k -> 0 <= n -> Z.testbit (Z.ones k) n = (n <? k).
Proof. intros. apply Z.testbit_ones_nonneg; lia. Qed.

Lemma pow2m1_ones k : 2 ^ k - 1 = Z.ones k.
Proof. rewrite Z.ones_equiv. lia. Qed.

Lemma shl1_pow2 k : 0 <= k -> Z.shiftl 1 k = 2 ^ k.
Proof. intros. rewrite Z.shiftl_mul_pow2 by lia. lia. Qed.

Lemma tb_pow2 k n : 0 <= k -> Z.testbit (2 ^ k) n = (k =? n).
Proof. intros. apply Z.pow2_bits_eqb; lia. Qed.

Lemma tb_small x k n : 0 <= x < 2 ^ k -> 0 <= k -> 0 <= n -> Z.testbit x n = (n <? k) && Z.testbit x n.
Proof.
  intros Hx Hk Hn. destruct (Z.ltb_spec n k); [reflexivity|].
  rewrite <- (Z.mod_small x (2 ^ k)) by lia. rewrite Z.mod_pow2_bits_high by lia. reflexivity.
Qed.

Lemma pow2_le_mono a b : 0 <= a <= b -> 2 ^ a <= 2 ^ b.
Proof. intros. apply Z.pow_le_mono_r; lia. Qed.

Lemma pow2_lt_mono a b : 0 <= a < b -> 2 ^ a < 2 ^ b.
Proof. intros. apply Z.pow_lt_mono_r; lia. Qed.

(* the main normalisation tactic: push testbit through the operators; side conditions by lia *)
Ltac tb_norm :=
  repeat first
    [ rewrite Z.lor_spec | rewrite Z.land_spec
    | rewrite Z.shiftl_spec by lia | rewrite Z.shiftr_spec by lia
    | rewrite tb_wrapU by lia | rewrite tb_ones by lia | rewrite tb_pow2 by lia
    | rewrite Z.bits_0 ].

(* decide the comparison atoms and close by congruence on testbit positions *)
Ltac tb_cases :=
  repeat match goal with
  | |- context [?a <? ?b] => destruct (Z.ltb_spec a b)
  | |- context [?a =? ?b] => destruct (Z.eqb_spec a b)
  end;
  simpl; rewrite ?andb_true_r, ?andb_false_r, ?orb_false_r, ?orb_true_r, ?orb_false_l, ?andb_true_l; try reflexivity; try lia;
  try (rewrite ?Z.testbit_neg_r by lia; reflexivity);
  try (f_equal; lia).

Lemma lt_pow2_of_bits a k : 0 <= a -> 0 <= k -> (forall n, k <= n -> Z.testbit a n = false) -> a < 2 ^ k.
Proof.
  intros Ha Hk H. destruct (Z.eq_dec a 0) as [->|Hz]; [apply pow2_pos; lia|].
  apply Z.log2_lt_pow2; [lia|].
  destruct (Z.lt_ge_cases (Z.log2 a) k) as [|Hge]; [assumption|exfalso].
  assert (Hb : Z.testbit a (Z.log2 a) = true) by (apply Z.bit_log2; lia).
  rewrite H in Hb by lia. discriminate.
Qed.

Lemma ge_pow2_of_bit a k : 0 <= a -> 0 <= k -> Z.testbit a k = true -> 2 ^ k <= a.
Proof.
  intros Ha Hk H. apply Z.testbit_true in H; [|lia].
  assert (0 < 2 ^ k) by (apply pow2_pos; lia).
  destruct (Z.lt_ge_cases a (2 ^ k)); [|lia].
  rewrite Z.div_small in H by lia. discriminate.
Qed.

Lemma land_wrap64_ones y L : 0 <= L <= 64 -> Z.land (wrapU 64 y) (Z.ones L) = y mod 2 ^ L.
Proof.
  intros. rewrite Z.land_ones by lia. unfold wrapU.
  assert (0 < 2 ^ L) by (apply pow2_pos; lia).
  symmetry. apply Znumtheory.Zmod_div_mod; try lia.
  exists (2 ^ (64 - L)). rewrite <- Z.pow_add_r by lia. f_equal. lia.
Qed.

Lemma unprobe_mod a p m : 0 < m -> ((a + p) mod m + m - p) mod m = a mod m.
Proof.
  intros. replace ((a + p) mod m + m - p) with ((a + p) mod m + (m - p)) by lia.
  rewrite Zplus_mod_idemp_l. replace (a + p + (m - p)) with (a + 1 * m) by lia.
  apply Z.mod_add. lia.
Qed.
