"""C19 - detached DataTable rows can be destroyed on any thread while the owner keeps working.
proof : Coq theorems about the interleaving machine coq/Treiber.v (unbounded threads/rows, every schedule)
tie   : (a) conform.py - clang AST of ~DataRow / pvDeallocateFreeRaws / pvAllocateRaw / pvDestroyRaws vs the machine's
            control skeleton probed from the extracted `step` (operations, operands, order, seq_cst)
        (b) event traces of the real DataTable (single-thread schedule replay, free list read through private access)
            replayed on the extracted machine: same free list after every event, same number of buffers outstanding
oracle: counting memory manager / MemPool allocate count / item destructor counts on the real code, plus a
        multi-threaded stress under ThreadSanitizer (quick + thorough) and AddressSanitizer (thorough)."""
import os, re, sys, importlib.util
sys.path.insert(0, os.path.dirname(os.path.abspath(__file__)))
import vlib


def _conform():
    spec = importlib.util.spec_from_file_location('c19_conform', os.path.join(os.path.dirname(os.path.abspath(__file__)), 'conform.py'))
    m = importlib.util.module_from_spec(spec); spec.loader.exec_module(m); return m


CORNER = [
    'n', 'n d0', 'n d0 n', 'n n d0 d0 n n', 'n n n d2 d1 d0 n n n n', 'n n n d0 d0 d0 c', 'n a0 x0 d0 n', 'n a0 r0 n',
    'n n a0 a0 x1 x0 d0 d0 n n n', 'n m0 m0 d0 n', 'n s0 d0 n s0 d0 n', 'n n d0 c n d0 d0 c', 'c c n c d0 c',
    'n n n n d0 n d0 n d0 n d0 n', 'n n n n n n n n d7 d5 d3 d1 d0 d0 d0 d0 n n n n n n n n n',
    'n a0 n a0 n a0 x0 x0 x0 d2 d0 d0 n n n n', 'n n d1 a0 x0 d0 n n',
]


CONFIGS = ['big', 'u8', 'i16', 'u32', 'p8', 'p9', 'idx', 'keep', 'pool', 'stat']
TRACKED = ('big', 'idx')
# measured facts every run must report for a configuration (row bytes, pool blocks per buffer, keepRowNumber); None = not pinned
EXPECT_CFG = {'big': (None, 32, 0), 'u8': (1, 32, 0), 'i16': (2, 32, 0), 'u32': (4, 32, 0), 'p8': (8, 32, 0), 'p9': (9, 32, 0),
              'idx': (None, 32, 0), 'keep': (9, 32, 1), 'pool': (2, 2, 0), 'stat': (1, 32, 0)}
CORNER_X = [   # the operations added by the coverage audit
    'n n w0,1 n', 'n n n w2,0 w0,1 n n', 'n n y0,1 d0 d0 n', 'n m0 w0,0 d0', 'n n m0 y0,1 m1 w1,0 n',
    'n d0 v n d0 v c', 'n a0 n v x0 d0 v d0 n', 'n n a0 p0,0 n', 'n a0 n a0 n p1,0 x0 d0 n n', 'n n a0 i0,0 z0 z0 d0 d0 n',
    'n q0 q0 d0 d0 n', 'e', 'n d0 e n', 'n n d0 d0 e e n', 'n f0', 'n n d0 f0 n', 'n f0 d0 f0 e n', 'n a0 n a0 n a0 j0 n', 'n a0 n a0 n a0 g0 n', 'n a0 n a0 n a0 l1 d0 n', 'n a0 n a0 n a0 n a0 g1 l0 j0 c', 'n a0 n a0 d0 j1 k n', 'n a0 n d0 k n', 'k', 'n n a0 a0 x0 d0 k j0 k c', 'n s0 n s1 a0 a0 d0 n', 'n s0 n s1 a0 p0,0 i0,0 d0 n', 'n n n s0 s1 s2 a0 a0 i0,0 x0 a0 a0 d0 d0 n',
    'n n n a0 a0 a0 z0 z1 x0 d2 d0 d0 n',
]


def gen_ops(r, n, mode):
    ops = []
    for j in range(n):
        x = r.below(100)
        if mode == 1:
            w = 'n' if (j < n // 2 and x < 80) else ('d%d' % r.below(8) if x < 70 else 'n')
        elif mode == 2:
            w = ['n', 'd%d' % r.below(3)][j % 2] if x < 85 else 'n'
        elif mode == 3:
            w = ('n' if x < 22 else 'a%d' % r.below(4) if x < 40 else 'i%d,%d' % (r.below(5), r.below(4)) if x < 46 else 'p%d,%d' % (r.below(5), r.below(4)) if x < 54
                 else 'x%d' % r.below(6) if x < 64 else 'z%d' % r.below(6) if x < 72 else 'r%d' % r.below(6) if x < 77 else 'j%d' % r.below(2) if x < 78 else 'g%d' % r.below(2) if x < 79 else 'l%d' % r.below(2) if x < 79 else ('k' if x % 2 else 'l%d' % r.below(2)) if x < 80 else 's%d' % r.below(4) if x < 84
                 else 'd%d' % r.below(4) if x < 95 else 'c')
        elif mode == 4:
            w = 'n' if j < n // 2 else ('d%d' % r.below(16) if x < 90 else 'n')
        elif mode == 5:      # row-object traffic: move / move-assign / swap / copy / table move
            w = ('n' if x < 25 else 'w%d,%d' % (r.below(5), r.below(5)) if x < 40 else 'y%d,%d' % (r.below(5), r.below(5)) if x < 50 else 'm%d' % r.below(5) if x < 58
                 else 'q%d' % r.below(4) if x < 64 else 'v' if x < 69 else 'e' if x < 72 else 'f%d' % r.below(3) if x < 75 else 'd%d' % r.below(5) if x < 92 else 'a%d' % r.below(3) if x < 96 else 'x0')
        else:
            w = ('n' if x < 30 else 'd%d' % r.below(6) if x < 56 else 'a%d' % r.below(4) if x < 64 else 'x%d' % r.below(5) if x < 71 else 'z%d' % r.below(5) if x < 75
                 else 'm%d' % r.below(4) if x < 78 else 's%d' % r.below(4) if x < 82 else 'r%d' % r.below(5) if x < 86 else 'w%d,%d' % (r.below(4), r.below(4)) if x < 90
                 else 'y%d,%d' % (r.below(4), r.below(4)) if x < 92 else 'p%d,%d' % (r.below(4), r.below(4)) if x < 94 else 'e' if x < 95 else 'v' if x < 96
                 else 'q%d' % r.below(3) if x < 97 else 'c')
        ops.append(w)
    return ops


def long_schedule(r, total):
    """enough rows alive / listed at once to cross MemPool buffer boundaries (32 blocks per buffer) more than twice, free lists of
    0, 1, 31, 32, 33, 64+ entries at a drain"""
    ops = ['n'] * total
    for chunk in (1, 31, 32, 33, total - 97):
        ops += ['d%d' % r.below(7) for _ in range(max(chunk, 0))] + ['n']
    ops += ['n'] * 40 + ['a0'] * 20 + ['d0'] * 20 + ['c'] + ['n'] * 3
    return ops


def gen_scripts(ctx, scale):
    r = ctx.rng
    cases = ['seq:big ' + c for c in CORNER + CORNER_X]
    for cfg in CONFIGS[1:]:
        cases += ['seq:%s %s' % (cfg, c) for c in (CORNER + CORNER_X)[::1 if cfg == 'idx' else 2 if cfg in ('u8', 'stat', 'pool') else 3]]
    for i in range(330 * scale):
        n = r.range(4, 60 if r.chance(1, 6) else 30)
        cfg = CONFIGS[i % len(CONFIGS)] if i % 3 else 'big'
        ops = gen_ops(r, n, 3 if cfg == 'idx' else r.below(6))
        if cfg == 'idx':      # rewritten rows share one id: make refusals by the unique index (TryAdd/TryInsert/TryUpdate -> row stays detached) frequent
            ops = [w2 for w in ops for w2 in ([w, 's%d' % r.below(3)] if w == 'n' and r.chance(1, 2) else [w])]
        cases.append('seq:%s %s' % (cfg, ' '.join(ops)))
    for cfg in ('big', 'u8', 'pool', 'stat', 'keep', 'idx')[:3 if scale == 1 else 6]:
        cases.append('seq:%s %s' % (cfg, ' '.join(long_schedule(r, 100 + r.below(40)))))
    cases.append('cross')
    return cases


CORNER2 = [
    'n n n b0,0 b1,0 g0 g1 g1 n',            # genuine CAS failure and retry between two disposers
    'n n b0,0 nk0 n',                        # racy miss: the push lands between the check and the allocation
    'n n n d0 b0,0 nx0 g0 n',                # drain in the middle of a push: the CAS fails because the owner took the list
    'n n b0,0 f0 f0 g0 cx1 n b1,0 d0 cx1',   # spurious failures; push inside Clear's drain
    'n n n b0,0 b1,0 b2,0 g2 g1 g0 g1 g0 g0 n n n',
    'n n n n d0 d0 b0,0 b1,0 nx0 g1 g0 nk1 g1 n',
    'n a0 n b0,0 t0 b1,0 g1 g0 g0 c n',
    'n b0,0 c g0 n c',
]


def gen_scripts2(ctx, scale):
    r = ctx.rng
    cases = ['seq2 ' + c for c in CORNER2]
    for i in range(150 * scale):
        n = r.range(6, 40)
        ops = ['n'] * r.range(1, 4)
        for j in range(n):
            x = r.below(100); d = r.below(3)
            ops.append('n' if x < 14 else 'nk%d' % d if x < 22 else 'nx%d' % d if x < 30 else 'b%d,%d' % (d, r.below(4)) if x < 48
                       else 'g%d' % d if x < 68 else 'f%d' % d if x < 73 else 'd%d' % r.below(4) if x < 81 else 'a%d' % r.below(3) if x < 86
                       else 't%d' % r.below(3) if x < 90 else 'r%d' % r.below(3) if x < 93 else 'cx%d' % d if x < 97 else 'c')
        cases.append('seq2 ' + ' '.join(ops))
    return cases


TOK2 = re.compile(r'^([A-Z\-])([\d,:a-z]*)\|fl=([\w,]*)\|pc=(\d+)$')


def oracle_seq2(case, out):
    """property predicate on the barrier-harness observations (independent of the Coq model)"""
    toks = out.split()
    if not toks or toks[-1] != 'end|pc=0':
        return 'buffers outstanding after the final Clear / truncated output: %r' % out[-80:], False
    det, tab, hand, chain, prev_fl = set(), set(), {}, [], []
    fails = misses = mid = 0
    last_k = None
    for t in toks[:-1]:
        m = TOK2.match(t)
        if not m: return 'unparsable event %r' % t, False
        ev, arg, fl, pc = m.group(1), m.group(2), m.group(3), int(m.group(4))
        bump('seq2:' + (ev + arg if ev == 'K' else ev + ':' + arg.split(':')[1] if ev == 'G' else ev))
        if 'CYCLE' in fl: return 'free list is cyclic after %s' % t, False
        fls = [int(x) for x in fl.split(',')] if fl else []
        if len(set(fls)) != len(fls): return 'free list contains a buffer twice after %s' % t, False
        if ev == 'N':
            r = int(arg)
            if r in det or r in tab or r in hand.values() or r in fls: return 'NewRow returned buffer %d which is alive / in a destructor / listed' % r, False
            det.add(r); chain = []
            if last_k == '0' and prev_fl: misses += 1; bump('seq2:racy-miss (alloc without drain while a row is listed)')
        elif ev == 'A': det.discard(int(arg)); tab.add(int(arg))
        elif ev == 'T': tab.discard(int(arg)); det.add(int(arg))
        elif ev == 'R': tab.discard(int(arg))
        elif ev == 'D':
            det.discard(int(arg))
            if not fls or fls[0] != int(arg): return 'destroyed row not at the head of the free list after %s' % t, False
        elif ev == 'B':
            th, r = arg.split(':'); det.discard(int(r)); hand[th] = int(r)
        elif ev == 'G':
            th, res = arg.split(':')
            if res == 'ok':
                r = hand.pop(th)
                if not fls or fls[0] != r: return 'published row not at the head of the free list after %s' % t, False
                if fls[1:] != prev_fl: return 'a successful CAS did not link onto the current head: %s -> %s' % (prev_fl, fls), False
            else:
                fails += 1
                if fls != prev_fl: return 'a failed CAS changed the shared list', False
        elif ev == 'F':
            if fls != prev_fl: return 'a spuriously failed CAS changed the shared list', False
        elif ev == 'K':
            last_k = arg
            if (arg == '1') != bool(prev_fl): return 'the check answered %s with free list %s' % (arg, prev_fl), False
        elif ev == 'X':
            chain = prev_fl
            if fls: return 'the exchange did not take the whole list', False
            if hand: mid += 1; bump('seq2:exchange-with-destructor-in-flight')
        elif ev == 'C':
            tab.clear(); chain = []
        if pc != len(det) + len(tab) + len(hand) + len(fls) + len(chain):
            return 'pool holds %d buffers, expected %d alive + %d in destructors + %d listed + %d being drained after %s' % (
                pc, len(det) + len(tab), len(hand), len(fls), len(chain), t), False
        prev_fl = fls
    return None, (fails > 0 or misses > 0) and mid > 0


def gen_stress(ctx, scale):
    r = ctx.rng
    cases = []
    cfgs = ['big', 'u8', 'idx', 'stat', 'pool', 'keep', 'i16', 'p9']
    for i in range(6 * scale):
        cases.append('stress %d %d %d %s' % (r.range(2, 3 if i % 2 == 0 else 8), 400 * (1 + r.below(4)), r.below(10 ** 9), cfgs[i % len(cfgs)]))
    cases.append('stress 1 300 7 big')
    cases.append('stress 16 600 11 u8')
    return cases


TOK = re.compile(r'^([A-Z\-])([\d,]*)\|fl=([\w,]*)\|pc=(\d+)\|lv=(-?\d+)\|ro=([\w,:\-!?]*)$')
STATS = {}


def bump(key, n=1):
    STATS[key] = STATS.get(key, 0) + n


def cfg_of(case):
    w = case.split()[0]
    return 'big' if w == 'seq' else 'u8' if w == 'seqt' else w[4:] if w.startswith('seq:') else w


def oracle_seq(case, out):
    """the property itself on the real code's observations (independent of the Coq model).  returns (why|None, nontrivial)"""
    if case.split()[0] == 'cross':
        bump('cross')
        ok = out.strip() == 'cross A=3/0 B=2/0 pcA=0 pcB=0 mm=0 lv=0'
        return (None if ok else 'rows swapped / move-assigned across two tables did not return to their own table: %r' % out), ok
    toks = out.split()
    if not toks or not toks[-1].startswith('end|'):
        return 'no end marker (harness output truncated): %r' % out[-120:], False
    cfg = cfg_of(case); bump('cfg:' + cfg); maxpc = 0
    det, tab, pend = set(), set(), set()      # detached, in table, destroyed-but-not-yet-reclaimed buffers
    seen = set(); reused = False; bigdrain = False
    for t in toks[:-1]:
        m = TOK.match(t)
        if not m:
            return 'unparsable event %r' % t, False
        ev, arg, fl, pc, lv = m.group(1), m.group(2), m.group(3), int(m.group(4)), int(m.group(5))
        ids = [int(x) for x in arg.split(',')] if arg else []
        bump('ev:' + ev); maxpc = max(maxpc, pc)
        if 'CYCLE' in fl:
            return 'free list is cyclic after %s' % t, False
        fls = [int(x) for x in fl.split(',')] if fl else []
        if ev == 'N':
            r = ids[0]
            if r in det or r in tab:
                return 'NewRow returned buffer %d which is still alive' % r, False
            if r in fls:
                return 'NewRow returned buffer %d which is still on the free list' % r, False
            if r in seen: reused = True
            seen.add(r); det.add(r)
        elif ev == 'A': det.discard(ids[0]); tab.add(ids[0])
        elif ev == 'P': tab.discard(ids[0]); det.discard(ids[1]); tab.add(ids[1])
        elif ev == 'W':
            if ids[0] not in det: return 'harness bookkeeping: assigned over a row that was not detached', False
            det.discard(ids[0]); pend.add(ids[0]); ids = ids[:1]
        elif ev == 'X': tab.discard(ids[0]); det.add(ids[0])
        elif ev == 'R': tab.discard(ids[0])
        elif ev == 'Q':
            if not set(ids) <= tab: return 'harness bookkeeping: Remove(filter) removed rows that were not in the table', False
            tab -= set(ids)
        elif ev == 'D' or ev == 'E':
            for r in ids:
                if r not in det: return 'harness bookkeeping: destroyed a row that was not detached', False
                det.discard(r); pend.add(r)
        elif ev == 'C':
            if set(ids) != tab: return 'harness bookkeeping: Clear saw other rows than expected', False
            tab.clear()
        if len(set(fls)) != len(fls):
            return 'free list contains a buffer twice after %s: %s' % (t, fl), False
        if not set(fls) <= pend:
            return 'free list contains a buffer that was not disposed (or was already reclaimed): %s after %s' % (fl, t), False
        gone = pend - set(fls)
        if len(gone) >= 2: bigdrain = True
        if gone: bump('drain:%s' % ('1' if len(gone) == 1 else '2-15' if len(gone) < 16 else '16-31' if len(gone) < 32 else '32' if len(gone) == 32 else '33+'))
        if ev == 'N' and not gone: bump('newrow-without-drain')
        if ev == 'Z' and fls: return 'a failed NewRow left the free list undrained / pushed something: %s' % t, False
        pend = set(fls)
        if ev in ('D', 'E', 'W') and fls[:len(ids)] != list(reversed(ids)):
            return 'a destroyed row is not at the head of the free list after %s' % t, False
        objs = [o for o in m.group(6).split(',') if o]
        held = [int(o.split(':')[0]) for o in objs if not o.startswith('-')]
        if any(not o.endswith(':T') for o in objs if not o.startswith('-')):
            return 'a Row object holds a buffer but does not point to its table\'s free list (or column list) after %s: %s' % (t, m.group(6)), False
        if any(o != '-:0' for o in objs if o.startswith('-')):
            return 'a moved-from Row object still points to a free list after %s: %s' % (t, m.group(6)), False
        if sorted(held) != sorted(det):
            return 'Row objects hold %s but the detached buffers are %s after %s' % (sorted(held), sorted(det), t), False
        if pc != len(det) + len(tab) + len(fls):
            return 'pool holds %d buffers but %d are alive and %d on the free list after %s (reclaimed %s)' % (
                pc, len(det) + len(tab), len(fls), t, 'twice or while alive' if pc < len(det) + len(tab) + len(fls) else 'never'), False
        if lv != (len(det) + len(tab) if cfg in TRACKED else 0):
            return 'item destructor count off: %d items alive for %d rows after %s' % (lv, len(det) + len(tab), t), False
    end = dict(kv.split('=') for kv in toks[-1].split('|')[1:])
    if end.get('mm') != '0' or end.get('ad') != '0' or end.get('lv') != '0':
        return 'outstanding memory / items at table destruction: %s' % toks[-1], False
    if det or tab or pend:
        return 'rows outstanding at the end: %s' % toks[-1], False
    exp = EXPECT_CFG.get(end.get('cfg'))
    if exp is None or end.get('cfg') != cfg:
        return 'harness ran configuration %r for case configuration %r' % (end.get('cfg'), cfg), False
    if (exp[0] is not None and int(end['row']) != exp[0]) or int(end['bc']) != exp[1] or int(end['keep']) != exp[2]:
        return 'configuration %s is not the intended one: %s' % (cfg, toks[-1]), False
    if int(end['block']) < 8:
        return 'pool block (%s bytes) cannot hold the link word' % end['block'], False
    bump('maxpc:%s' % ('<=32' if maxpc <= 32 else '33-64' if maxpc <= 64 else '65+'))
    if reused: bump('schedules-with-reuse')
    return None, (reused and bigdrain)


def oracle_stress(out):
    m = re.match(r'stress k=(\d+) created=(\d+) handed=(\d+) destroyed=(\d+) drains=(\d+) pc=(\d+) mm=(-?\d+) ad=(-?\d+) lv=(-?\d+) cfg=(\w+) assigned=(\d+)$', out.strip())
    if not m:
        return 'unparsable stress result %r' % out[-200:], False
    k, created, handed, destroyed, drains, pc, mm, ad, lv = map(int, m.groups()[:9])
    bump('stress:cfg:' + m.group(10)); bump('stress:k=%d' % k); bump('stress:drains', drains); bump('stress:rows', handed); bump('stress:row-assignments', int(m.group(11)))
    if handed != destroyed: return 'handed %d rows to disposers, %d destroyed' % (handed, destroyed), False
    if pc != 0: return 'pool still holds %d buffers after Clear with no row alive (lost or never reclaimed)' % pc, False
    if mm != 0 or ad != 0: return 'memory outstanding at table destruction: %d bytes, %d blocks' % (mm, ad), False
    if lv != 0: return 'item constructor/destructor counts differ by %d' % lv, False
    return None, (k >= 2 and drains > 0)


def model_trace(impl_line):
    """event trace (with the buffer ids the real pool chose) for the model driver"""
    evs = []
    for t in impl_line.split():
        if t.startswith('end|'): break
        evs.append(t.split('|')[0])
    return 'seq ' + ' '.join(evs)        # the machine does not care how long a row is / which table configuration


def strip_lv(impl_line):
    toks = impl_line.split()
    return ' '.join(re.sub(r'\|lv=-?\d+', '', t) for t in toks[:-1])


def run_stress(ctx, exe, cases, name, extra_env):
    """returns list of (case, out, why)"""
    bad = []
    env = dict(os.environ); env.update(extra_env)
    for c in cases:
        rc, o, e, w = vlib.sh([exe], inp=c + '\n', timeout=600, env=env)
        ctx.evaluations += 1
        line = (o.strip().splitlines() or [''])[-1]
        why = None
        if 'ThreadSanitizer' in e or 'ThreadSanitizer' in o:
            why = 'ThreadSanitizer report (%s): %s' % (name, ' | '.join([l for l in e.splitlines() if l.strip()][:12])[:1500])
        elif 'AddressSanitizer' in e or 'LeakSanitizer' in e or 'runtime error' in e:
            why = 'sanitizer report (%s): %s' % (name, ' | '.join([l for l in e.splitlines() if l.strip()][:12])[:1500])
        elif rc != 0:
            why = '%s harness exit %d: %s' % (name, rc, e[-300:])
        else:
            why, nt = oracle_stress(line)
            if nt: ctx.nontrivial.add(name + ':' + c)
        if why:
            bad.append((c, line, why))
    return bad


def replay(ctx, rp):
    case = rp.get('case')
    if not case:
        print('replay has no concrete case (no-failing-input-found): broken stages were', list(rp.get('broken', {}).keys())); return 1
    flags = ['-pthread']
    if rp.get('sanitizer') == 'thread':
        exe = ctx.cxx('harness.cpp', 'harness_tsan', flags + ['-fsanitize=thread'], sanitize=False)
    elif rp.get('sanitizer') == 'address':
        exe = ctx.cxx('harness.cpp', 'harness', flags, sanitize=True)
    else:
        exe = ctx.cxx('harness.cpp', 'harness', flags, sanitize=False)
    if exe is None:
        print('harness does not build'); return 2
    if case.startswith('seq2'):
        exe2 = ctx.cxx('harness2.cpp', 'harness2', flags, sanitize=False)
        rc, o, e, w = vlib.sh([exe2], inp=case + '\n', timeout=120) if exe2 else (2, '', 'harness2 does not build', 0)
        line = (o.strip().splitlines() or [''])[-1]
        why = ('harness exit %d: %s' % (rc, e[-300:])) if rc != 0 else oracle_seq2(case, line)[0]
        bad = [(case, line, why)] if why else []
        print('case:', case, '\nimplementation:', line[:2000], '\n', why or 'property holds on this case')
    elif case.startswith('stress'):
        bad = run_stress(ctx, exe, [case] * 3, rp.get('sanitizer') or 'plain', {'TSAN_OPTIONS': 'halt_on_error=1 exitcode=66'})
        print('case:', case, '\n', bad[0][2] if bad else 'no violation in 3 runs')
    else:
        rc, o, e, w = vlib.sh([exe], inp=case + '\n', timeout=120)
        line = (o.strip().splitlines() or [''])[-1]
        why = ('harness exit %d: %s' % (rc, e[-300:])) if rc != 0 else oracle_seq(case, line)[0]
        bad = [(case, line, why)] if why else []
        print('case:', case, '\nimplementation:', line[:2000], '\n', why or 'property holds on this case')
    if bad:
        print('VIOLATION property=C19 replay=%s' % ctx.replay); return 1
    return 0


def run(ctx):
    scale = 1 if ctx.quick() else 6
    ctx.trusted += ['clang 14 JSON AST + props/C19/conform.py (normaliser of four member bodies; any unknown construct is a deviation)',
                    'extraction: ExtrOcamlBasic only (no Extract Constant), OCaml 4.13.1',
                    'g++ 12 -std=c++17, -fsanitize=thread / address; harness reaches Crew::Data::freeRaws via #define private public',
                    'libstdc++ std::atomic<void*>: defaulted memory_order arguments are seq_cst; operator T() is load(seq_cst)']
    ctx.assumptions += ['sequentially consistent atomics (what the source requests): the machine interleaves atomic steps; data-race freedom '
                        'under the C++ memory model is argued from the invariant (unique writer of every link word, release/acquire through the '
                        'CAS/exchange) and tested with ThreadSanitizer, not proved',
                        'a detached Row object is used/destroyed by one thread at a time (hand-over between threads is synchronised by the client)',
                        'MemPool hands out only free buffers (C20/C09) and may overwrite a buffer it holds; the table outlives its detached rows']
    ctx.regen(['gen_datarow.json', 'gen_owner.json', 'gen_uintmath.json', 'gen_poolconst.json', 'gen_rawpool.json',
               'gen_datarowops.json', 'gen_tableswap.json', 'gen_tablecrew.json', 'gen_makerow.json'])      # T-gen: DataRow::~DataRow / ptGetRaw / ptExtractRaw, DataTable::pvDeallocateFreeRaws / pvAllocateRaw
    ctx.prove()
    flags = ['-pthread']
    prebuilt = {}
    if ctx.quick():      # cold-start time: the three quick-tier harness TUs are built in parallel (cxx_many uses the tier's default = no ASan)
        prebuilt = ctx.cxx_many([('harness.cpp', 'harness', flags), ('harness.cpp', 'harness_tsan', flags + ['-fsanitize=thread']),
                                 ('harness2.cpp', 'harness2', flags)])
    harness = prebuilt['harness'] if 'harness' in prebuilt else ctx.cxx('harness.cpp', 'harness', flags, sanitize=False)
    if harness is None:
        ctx.stage('build-harness', False, getattr(ctx, 'last_cxx_error', ''))
        return ctx.finish(rule=RULE)
    tsan = prebuilt['harness_tsan'] if 'harness_tsan' in prebuilt else ctx.cxx('harness.cpp', 'harness_tsan', flags + ['-fsanitize=thread'], sanitize=False)
    asan = ctx.cxx('harness.cpp', 'harness', flags, sanitize=True) if not ctx.quick() else None
    # the executable machine is extracted even when a PROOF broke (e.g. a regenerated function no longer satisfies its refinement lemma):
    # the hand machine still compiles, so conformance and trace replay keep running and can supply the concrete input
    have_model = ctx.extract()

    # ---- tie (a): static conformance of the four member functions with the machine
    if have_model:
        rc, o, e, w = vlib.sh([ctx.model_exe, 'prog'], timeout=60)
        obl, report = _conform().check(ctx.repo, o.splitlines() if rc == 0 else [])
        for ob in obl:
            ctx.tie_obligations.append({'name': ob['name'], 'ok': ob['ok'], **({'detail': ob['detail'][:1500]} if ob['detail'] else {})})
        badc = [ob for ob in obl if not ob['ok']]
        ctx.stage('conform', not badc, '\n'.join('%s\n%s' % (b['name'], b['detail']) for b in badc))
        ctx.coverage['conformance'] = {k: v['automaton'] for k, v in report.items()}

    # ---- the real code on the schedule scripts
    cases = gen_scripts(ctx, scale)
    broken = any(not s['ok'] for s in ctx.stages.values())
    if broken:
        ctx.log('a stage broke: searching the implementation for a failing input with the thorough generators')
        cases += gen_scripts(ctx, 6)
    cases = list(dict.fromkeys(cases))
    path = os.path.join(ctx.build, 'oracle.cases'); open(path, 'w').write('\n'.join(cases) + '\n')
    rc, lines, err = ctx.run_lines([harness], path)
    ctx.evaluations += len(cases)
    bad = []
    if rc != 0 or len(lines) != len(cases):
        k = min(len(lines), len(cases) - 1)
        bad.append((cases[k], err[-400:], 'harness crashed (exit %d) on this schedule' % rc))
    for c, out in zip(cases, lines):
        why, nt = oracle_seq(c, out)
        if why: bad.append((c, out[:1500], why))
        elif nt: ctx.nontrivial.add(c)
    bad.sort(key=lambda b: len(b[0]))

    # ---- direct differential run of generated code: Gen_RawPool.pvCreateRawMemPool + Gen_MemPoolConst.CorrectBlockSize vs the real pool's block size
    if have_model and rc == 0:
        seen_cfg = {}
        for out in lines:
            m = re.search(r'\|cfg=(\w+)\|row=(\d+)\|block=(\d+)\|bc=(\d+)\|keep=\d\|al=(\d+)$', out)
            if m: seen_cfg[m.group(1)] = tuple(int(x) for x in m.groups()[1:])
        wrong = []
        for cfg, (row, block, bc, al) in sorted(seen_cfg.items()):
            rcb, ob, eb, _ = vlib.sh([ctx.model_exe, 'blocksize', str(row), str(al), str(bc)], timeout=30)
            ctx.evaluations += 1
            if rcb != 0 or ob.strip() != str(block):
                wrong.append('%s: row=%d alignment=%d blockCount=%d: real block %d, generated %s' % (cfg, row, al, bc, block, ob.strip() or eb[-100:]))
        okb = bool(seen_cfg) and not wrong
        ctx.stage('corr:pool-block-size', okb, '\n'.join(wrong))
        ctx.tie_obligations.append({'name': 'generated pvCreateRawMemPool + CorrectBlockSize == the real raw pool\'s block size on %d table configurations' % len(seen_cfg), 'ok': okb})
        for w in wrong[:1]:
            ctx.violation('generated pool-parameter code and the real pool disagree', {'case': 'seq:%s n' % w.split(':')[0], 'detail': w}, found_input=True)

    # ---- tie (b): the extracted machine replays the observed event traces
    if have_model and rc == 0 and len(lines) == len(cases):
        seqs = [(c, l) for c, l in zip(cases, lines) if c.split()[0] != 'cross']
        tcases = [c for c, _ in seqs]; tlines = [l for _, l in seqs]
        traces = [model_trace(l) for l in tlines]
        tpath = os.path.join(ctx.build, 'trace.cases'); open(tpath, 'w').write('\n'.join(traces) + '\n')
        rc2, mlines, err2 = ctx.run_lines([ctx.model_exe], tpath)
        mism = []
        for c, il, ml in zip(tcases, tlines, mlines + ['<missing>'] * (len(tlines) - len(mlines))):
            mtoks = ml.split()
            mbody = ' '.join(mtoks[:-1]); mend = mtoks[-1] if mtoks else ''
            if strip_lv(il) != mbody or not re.match(r'end\|disp=(\d+)\|recl=\1\|q=1$', mend):
                mism.append((c, il, ml))
        ctx.evaluations += len(tcases); ctx.traces_validated += len(tcases) - len(mism)
        ok = rc2 == 0 and not mism
        ctx.stage('corr:trace-replay', ok, ('model driver exit %d %s\n' % (rc2, err2[-300:]) if rc2 else '') +
                  ('first disagreement: case %r\nimpl : %s\nmodel: %s (%d total)' % (mism[0][0], mism[0][1][:700], mism[0][2][:700], len(mism)) if mism else ''))
        ctx.tie_obligations.append({'name': 'extracted machine replays %d observed event traces: same free list after every event, same outstanding '
                                            'buffer count, SAME THREE MEMBERS OF EVERY ROW OBJECT (layered machine TreiberRows.stepl with the generated ptExtractRaw), every label enabled, quiescent with disposed == reclaimed at the end (10 table configurations)' % len(tcases), 'ok': ok})
        mism.sort(key=lambda m: len(m[0]))
        for (c, il, ml) in mism[:2]:
            if not bad:
                ctx.violation('machine and implementation disagree on the free list / reclaim behaviour', {'case': c, 'impl': il[:1500], 'model': ml[:1500],
                              'cmd': 'echo "%s" | build/C19/harness' % c}, found_input=True)

    # ---- tie (b2): deterministic multi-thread schedules (barrier harness: the list head type is wrapped with test hooks in
    #      harness2.cpp only) replayed on the EXACT owner machine TreiberExact.stepx
    harness2 = prebuilt['harness2'] if 'harness2' in prebuilt else ctx.cxx('harness2.cpp', 'harness2', flags, sanitize=False)
    if harness2 is None:
        ctx.stage('build-harness2', False, getattr(ctx, 'last_cxx_error', ''))
    else:
        cases2 = gen_scripts2(ctx, scale * (4 if broken else 1))
        p2 = os.path.join(ctx.build, 'oracle2.cases'); open(p2, 'w').write('\n'.join(cases2) + '\n')
        rc4, l4, e4 = ctx.run_lines([harness2], p2, timeout=300)
        ctx.evaluations += len(cases2)
        if rc4 != 0 or len(l4) != len(cases2):
            bad.append((cases2[min(len(l4), len(cases2) - 1)], e4[-400:], 'barrier harness crashed / hung (exit %d) on this schedule' % rc4))
        for c, out in zip(cases2, l4):
            why, nt = oracle_seq2(c, out)
            if why: bad.append((c, out[:1500], why))
            elif nt: ctx.nontrivial.add(c)
        if have_model and rc4 == 0 and len(l4) == len(cases2):
            tr2 = ['seq2 ' + ' '.join(t.split('|')[0] for t in l.split() if not t.startswith('end|')) for l in l4]
            tp2 = os.path.join(ctx.build, 'trace2.cases'); open(tp2, 'w').write('\n'.join(tr2) + '\n')
            rc5, m5, e5 = ctx.run_lines([ctx.model_exe], tp2)
            mism2 = []
            for c, il, ml in zip(cases2, l4, m5 + ['<missing>'] * (len(l4) - len(m5))):
                mt = ml.split()
                if ' '.join(il.split()[:-1]) != ' '.join(mt[:-1]) or not re.match(r'end\|disp=(\d+)\|recl=\1\|q=1$', mt[-1] if mt else ''):
                    mism2.append((c, il, ml))
            ctx.evaluations += len(cases2); ctx.traces_validated += len(cases2) - len(mism2)
            ok2 = rc5 == 0 and not mism2
            ctx.stage('corr:trace-replay-2thread', ok2, ('model driver exit %d %s\n' % (rc5, e5[-300:]) if rc5 else '') +
                      ('first disagreement: case %r\nimpl : %s\nmodel: %s (%d total)' % (mism2[0][0], mism2[0][1][:700], mism2[0][2][:700], len(mism2)) if mism2 else ''))
            ctx.tie_obligations.append({'name': 'exact machine (stepx) replays %d deterministic multi-thread traces of the real code (parked disposers, genuine and '
                                                'spurious CAS failures, pushes between check and allocate and inside a drain): same CAS outcomes, same check '
                                                'answers, same free list and outstanding buffers after every event' % len(cases2), 'ok': ok2})
            mism2.sort(key=lambda m: len(m[0]))
            for (c, il, ml) in mism2[:1]:
                if not bad:
                    ctx.violation('exact machine and implementation disagree on a deterministic multi-thread schedule', {'case': c, 'impl': il[:1500], 'model': ml[:1500],
                                  'cmd': 'echo "%s" | build/C19/harness2' % c}, found_input=True)
        bad.sort(key=lambda b: len(b[0]))

    # ---- multi-threaded stress: TSan always, ASan + plain in the thorough tier / when searching
    sbad = []
    sc = gen_stress(ctx, scale * (3 if broken else 1))
    if tsan is None:
        ctx.stage('build-tsan', False, getattr(ctx, 'last_cxx_error', ''))
    else:
        sbad += [(c, o, w, 'thread') for (c, o, w) in run_stress(ctx, tsan, sc, 'tsan', {'TSAN_OPTIONS': 'halt_on_error=1 exitcode=66'})]
    sbad += [(c, o, w, None) for (c, o, w) in run_stress(ctx, harness, sc, 'plain', {})]
    if asan is not None:
        sbad += [(c, o, w, 'address') for (c, o, w) in run_stress(ctx, asan, sc, 'asan', {'ASAN_OPTIONS': 'detect_leaks=1'})]
        rc3, l3, e3 = ctx.run_lines([asan], path)
        ctx.evaluations += len(cases)
        if rc3 != 0:
            bad.append((cases[min(len(l3), len(cases) - 1)], e3[-600:], 'sanitizer build of the harness failed on this schedule (exit %d)' % rc3))
    elif not ctx.quick():
        ctx.stage('build-asan', False, getattr(ctx, 'last_cxx_error', ''))

    ctx.stage('oracle', not bad and not sbad, (bad[0][2] if bad else sbad[0][2] if sbad else ''))
    for (c, out, why) in bad[:3]:
        ctx.violation(why, {'case': c, 'impl_output': out, 'cmd': 'echo "%s" | build/C19/harness' % c}, found_input=True)
    for (c, out, why, san) in sbad[:2]:
        ctx.violation(why, {'case': c, 'impl_output': out, 'sanitizer': san,
                            'cmd': 'echo "%s" | build/C19/harness%s' % (c, '_tsan' if san == 'thread' else '.san' if san else '')}, found_input=True)
    for c in cases[:2] + cases[len(CORNER)::max(1, len(cases) // 4)][:3] + sc[:1]:
        ctx.add_sample(c)
    dist = {'schedules': len(cases)}
    for key in sorted(STATS):
        grp, _, name = key.partition(':')
        if grp in ('cfg', 'ev', 'drain', 'maxpc', 'seq2', 'stress'):
            dist.setdefault({'cfg': 'single_thread_schedules_per_configuration', 'ev': 'observed_events', 'drain': 'drains_by_number_of_buffers_reclaimed',
                             'maxpc': 'schedules_by_peak_pool_allocate_count(32_blocks_per_buffer)', 'seq2': 'barrier_harness_events',
                             'stress': 'stress'}[grp], {})[name] = STATS[key]
        else:
            dist[key] = STATS[key]
    dist['sanitizers'] = ['thread'] + (['address', 'undefined'] if asan else [])
    ctx.coverage['input_distribution'] = dist
    return ctx.finish(rule=RULE)


RULE = ('cases = 17 hand-written corner schedules (empty/1/many-entry free list at a drain, LIFO/FIFO disposal, drain inside Clear, reuse right after '
        'reclaim, moved-from rows, rewritten rows) + random single-thread schedules in five modes (mixed, create-then-destroy, ping-pong, table-heavy, '
        'long free lists) + 8 corner and 150*scale random DETERMINISTIC multi-thread schedules (barrier harness: disposers parked between load and CAS, '
        'pushes injected between check and allocate and inside a drain, spurious failures) + multi-threaded stress runs (1..16 disposer threads) under ThreadSanitizer (and ASan/UBSan in the thorough tier); '
        'distinct = distinct case line; non-trivial = schedule in which one drain reclaimed >= 2 buffers AND a reclaimed buffer was handed out again, '
        'or a deterministic multi-thread schedule with a failed CAS or a missed check AND an exchange while a destructor was in flight, '
        'or a stress run with >= 2 disposers in which the owner drained a non-empty list while disposers were running')
