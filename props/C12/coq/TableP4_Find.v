(* C12, model growth round 2: HashSet::pvFind over the GENERATED BucketLimP4::Find and BucketOne::Find returns every stored
   element (also after growth); Clear frames. *)
From Coq Require Import ZArith Bool List Lia.
From MomoCommon Require Import GenPrelude.
From C12 Require Import Bits Known Gen_Base Gen_P4 Gen_One P4_Model P4_Slot P4_Bucket Chain TableP4 TableP4_Proofs TableOne TableOne_Proofs.
Import ListNotations.
Local Open Scope Z_scope.

(* BucketLimP4::Find scans slots 0..3 in order: first slot whose byte equals the short hash of the code and whose key matches *)
Lemma pbucket_find_spec b key h :
  exists r, pbucket_find b key h = Ok r /\
    ((r = 0 /\ forall i, 0 <= i < 4 -> ~ (ps b i = Gen_P4.pvCalcShortHash h /\ pky b i = key)) \/
     (1 <= r <= 4 /\ ps b (r - 1) = Gen_P4.pvCalcShortHash h /\ pky b (r - 1) = key)).
Proof.
  unfold pbucket_find, Gen_P4.Find. cbv zeta.
  replace Gen_P4.fuel_of_Find with (S (S (S (S (S (Z.to_nat 65)))))) by reflexivity.
  set (sv := Gen_P4.pvCalcShortHash h).
  rewrite Gen_P4.Find_loop0_eq. unfold Gen_P4.maxCount. change (0 <? 4) with true. cbv iota.
  destruct (Z.eqb_spec (ps b 0) sv) as [E0|E0]; [destruct (Z.eqb_spec (pky b 0) key) as [K0|K0]|].
  { exists 1. split; [reflexivity|]. right. split; [lia|]. split; assumption. }
  all: change (wrapU 64 (0 + 1)) with 1; rewrite Gen_P4.Find_loop0_eq; change (1 <? 4) with true; cbv iota;
    (destruct (Z.eqb_spec (ps b 1) sv) as [E1|E1]; [destruct (Z.eqb_spec (pky b 1) key) as [K1|K1]|]);
    try (exists 2; split; [reflexivity|]; right; split; [lia|]; split; assumption).
  all: change (wrapU 64 (1 + 1)) with 2; rewrite Gen_P4.Find_loop0_eq; change (2 <? 4) with true; cbv iota;
    (destruct (Z.eqb_spec (ps b 2) sv) as [E2|E2]; [destruct (Z.eqb_spec (pky b 2) key) as [K2|K2]|]);
    try (exists 3; split; [reflexivity|]; right; split; [lia|]; split; assumption).
  all: change (wrapU 64 (2 + 1)) with 3; rewrite Gen_P4.Find_loop0_eq; change (3 <? 4) with true; cbv iota;
    (destruct (Z.eqb_spec (ps b 3) sv) as [E3|E3]; [destruct (Z.eqb_spec (pky b 3) key) as [K3|K3]|]);
    try (exists 4; split; [reflexivity|]; right; split; [lia|]; split; assumption).
  all: change (wrapU 64 (3 + 1)) with 4; rewrite Gen_P4.Find_loop0_eq; change (4 <? 4) with false; cbv iota;
    exists 0; (split; [reflexivity|]); left; (split; [reflexivity|]);
    intros i Hi [Hs Hk]; assert (i = 0 \/ i = 1 \/ i = 2 \/ i = 3) as [->|[->|[->| ->]]] by lia; congruence.
Qed.

Section FindP4.
Variables (H mm : Z).
Variable hash : Z -> Z.
Hypothesis HH : 4 <= H <= 8.
Hypothesis hash_range : forall k, 0 <= hash k < 2 ^ 64.

Definition phit (L : Z) (t : ptable) (key : Z) (r : option (Z * Z)) : Prop :=
  exists b s, r = Some (b, s) /\ 0 <= s <= 3 /\ pky (t b) s = key /\ ps (t b) s = Gen_P4.pvCalcShortHash (hash key).

Lemma pmaxprobe L : 0 <= L <= 63 -> Gen_Base.GetMaxProbe L = 2 ^ L - 1.
Proof.
  intros HL. unfold Gen_Base.GetMaxProbe. rewrite shl1_pow2 by lia. assert (0 < 2 ^ L) by (apply pow2_pos; lia).
  assert (2 ^ L <= 2 ^ 63) by (apply pow2_le_mono; lia).
  rewrite (wrapU_small 64 (2 ^ L)) by (change (2 ^ 64) with (2 * 2 ^ 63); lia).
  apply wrapU_small. change (2 ^ 64) with (2 * 2 ^ 63). lia.
Qed.

Lemma pfind_loop_hit L t key p s : 0 <= L <= 63 -> 0 <= p < 2 ^ L -> 0 <= s <= 3 ->
  (forall q, 0 <= q < p -> pmpi (t (lidx L (phome hash L key) q)) = 4) ->
  ps (t (lidx L (phome hash L key) p)) s = Gen_P4.pvCalcShortHash (hash key) -> pky (t (lidx L (phome hash L key) p)) s = key ->
  forall fuel q, 1 <= q <= p -> (Z.to_nat (p - q) < fuel)%nat ->
  exists r, pfind_loop fuel t (2 ^ L) (lidx L (phome hash L key) (q - 1)) q (2 ^ L - 1) key (hash key) = Ok r /\ phit L t key r.
Proof.
  intros HL Hp Hs Hpath Hsh Hky. assert (2 ^ L <= 2 ^ 63) by (apply pow2_le_mono; lia).
  induction fuel as [|f IH]; intros q Hq Hf; [lia|].
  cbn [pfind_loop]. unfold was_full, Gen_P4.maxCount. rewrite (Hpath (q - 1)) by lia. cbn [Z.eqb Pos.eqb andb].
  destruct (Z.leb_spec q (2 ^ L - 1)); [|lia].
  assert (En : Gen_P4.GetNextBucketIndex (lidx L (phome hash L key) (q - 1)) (2 ^ L) = lidx L (phome hash L key) q).
  { pose proof (next_lidx L (phome hash L key) (q - 1) HL ltac:(lia)) as X. replace (q - 1 + 1) with q in X by lia. exact X. }
  rewrite En.
  destruct (pbucket_find_spec (t (lidx L (phome hash L key) q)) key (hash key)) as (r & Hr & Hcase). rewrite Hr.
  destruct Hcase as [(-> & Hno)|(Hr14 & Hrs & Hrk)].
  - rewrite Z.eqb_refl. destruct (Z.eq_dec q p) as [->|Hne]; [exfalso; apply (Hno s); [lia|split; assumption]|].
    rewrite (wrapU_small 64 (q + 1)) by (change (2 ^ 64) with (2 * 2 ^ 63); lia).
    specialize (IH (q + 1) ltac:(lia) ltac:(lia)). replace (q + 1 - 1) with q in IH by lia. exact IH.
  - destruct (Z.eqb_spec r 0); [lia|]. eexists. split; [reflexivity|].
    exists (lidx L (phome hash L key) q), (r - 1). split; [reflexivity|]. split; [lia|]. split; assumption.
Qed.

(* pvFind returns every stored element of a LimP4 table satisfying the invariant *)
Theorem pfind_present L t key : 0 <= L <= 63 -> PTinv H hash L t -> PPresent L t key ->
  exists r, pfind t L key (hash key) = Ok r /\ phit L t key r.
Proof.
  intros HL [Hwf Hel] (b & i & Hb & Hi & Hk). destruct (Hel b i Hb Hi) as (Hp & Hbp & Hpath). rewrite Hk in *.
  pose proof (pbwf_cnt H hash L _ (Hwf b)) as Hc. destruct (Hwf b) as ((_ & _ & Hs & _) & _).
  destruct (Hs i Hi) as [Es _]. unfold sh_of_b in Es. rewrite Hk in Es.
  assert (Hpos : 0 < 2 ^ L) by (apply pow2_pos; lia). assert (Hle : 2 ^ L <= 2 ^ 63) by (apply pow2_le_mono; lia).
  unfold pfind. rewrite shl1_pow2 by lia. rewrite (wrapU_small 64 (2 ^ L)) by (change (2 ^ 64) with (2 * 2 ^ 63); lia).
  rewrite pmaxprobe by lia. fold (phome hash L key).
  pose proof (phome_range hash L key HL) as Hhome. set (start := phome hash L key) in *. set (p := ppr (t b) i) in *.
  assert (E0 : lidx L start 0 = start) by (unfold lidx; rewrite Z.add_0_r; apply Z.mod_small; lia).
  destruct (pbucket_find_spec (t start) key (hash key)) as (r & Hr & Hcase). rewrite Hr.
  destruct Hcase as [(-> & Hno)|(Hr14 & Hrs & Hrk)].
  - rewrite Z.eqb_refl.
    destruct (Z.eq_dec p 0) as [Hp0|Hp0].
    { exfalso. rewrite Hp0, E0 in Hbp. subst b. apply (Hno i); [lia|split; assumption]. }
    assert (Hs' : ps (t (lidx L start p)) i = Gen_P4.pvCalcShortHash (hash key)) by (rewrite <- Hbp; exact Es).
    assert (Hk' : pky (t (lidx L start p)) i = key) by (rewrite <- Hbp; exact Hk).
    pose proof (pfind_loop_hit L t key p i HL Hp ltac:(lia) Hpath Hs' Hk' (S (Z.to_nat (2 ^ L - 1))) 1 ltac:(lia) ltac:(lia)) as X.
    change (1 - 1) with 0 in X. fold start in X. rewrite E0 in X. exact X.
  - destruct (Z.eqb_spec r 0); [lia|]. eexists. split; [reflexivity|].
    exists start, (r - 1). split; [reflexivity|]. split; [lia|]. split; assumption.
Qed.

Hypothesis Hmm : 1 <= mm <= 4.

Theorem pmigrate_find L newL told : 0 <= L -> L < newL <= 63 -> PTinv H hash L told ->
  match pmigrate H mm hash told L newL with
  | Ok (_, tnew, _) => forall k, PPresent L told k -> exists r, pfind tnew newL k (hash k) = Ok r /\ phit newL tnew k r
  | Exn => True
  | _ => False
  end.
Proof.
  intros HL HnL Hold. unfold pmigrate. assert (Hpos : 0 < 2 ^ L) by (apply pow2_pos; lia).
  pose proof (pmigrate_from_spec H mm hash HH Hmm hash_range L newL HL HnL (Z.to_nat (2 ^ L)) told (pempty_table H mm) 0 0
              ltac:(lia) ltac:(lia) Hold (pempty_inv H mm hash HH Hmm newL) ltac:(intros; lia)) as Hm.
  destruct (pmigrate_from H mm hash (Z.to_nat (2 ^ L)) told (pempty_table H mm) L newL 0 0) as [[[told' tnew'] c']| | |]; try exact Hm.
  destruct Hm as ((Ho & Hn & Hp & _) & Hz). intros k Hk. apply pfind_present; [lia|exact Hn|].
  destruct (Hp k Hk) as [(b & i & Hb & Hi & _)|G]; [exfalso|exact G].
  rewrite Hz in Hi by lia. lia.
Qed.
End FindP4.

(* ------------------------------------------------------------------ BucketOne *)
Lemma obucket_find_spec b key h :
  obucket_find b key h = (if (ost b =? Gen_One.pvGetHashState h) && (oky b =? key) then 1 else 0).
Proof.
  unfold obucket_find, Gen_One.Find. destruct (Z.eqb_spec (ost b) (Gen_One.pvGetHashState h)); cbn [negb andb]; [|reflexivity].
  destruct (oky b =? key); reflexivity.
Qed.

Section FindOne.
Variable hash : Z -> Z.
Hypothesis hash_range : forall k, 0 <= hash k < 2 ^ 64.

Definition ohit (t : otable) (key : Z) (r : option Z) : Prop :=
  exists b, r = Some b /\ oky (t b) = key /\ ost (t b) = Gen_One.pvGetHashState (hash key).

Lemma ofind_loop_hit L t key p : 0 <= L <= 63 -> 0 <= p < 2 ^ L ->
  (forall q, 0 <= q < p -> Gen_One.WasFull (ost (t (olidx L (ohome hash L key) q))) = true) ->
  ost (t (olidx L (ohome hash L key) p)) = Gen_One.pvGetHashState (hash key) -> oky (t (olidx L (ohome hash L key) p)) = key ->
  forall fuel q, 1 <= q <= p -> (Z.to_nat (p - q) < fuel)%nat ->
  exists r, ofind_loop fuel t (2 ^ L) (olidx L (ohome hash L key) (q - 1)) q (2 ^ L - 1) key (hash key) = Ok r /\ ohit t key r.
Proof.
  intros HL Hp Hpath Hst Hky. assert (2 ^ L <= 2 ^ 63) by (apply pow2_le_mono; lia).
  induction fuel as [|f IH]; intros q Hq Hf; [lia|].
  cbn [ofind_loop]. rewrite (Hpath (q - 1)) by lia. cbn [andb].
  destruct (Z.leb_spec q (2 ^ L - 1)); [|lia].
  assert (En : Gen_Base.GetNextBucketIndex (olidx L (ohome hash L key) (q - 1)) (2 ^ L) = olidx L (ohome hash L key) q).
  { pose proof (onext_lidx L (ohome hash L key) (q - 1) HL ltac:(lia)) as X. replace (q - 1 + 1) with q in X by lia. exact X. }
  rewrite En. rewrite obucket_find_spec.
  destruct ((ost (t (olidx L (ohome hash L key) q)) =? Gen_One.pvGetHashState (hash key)) && (oky (t (olidx L (ohome hash L key) q)) =? key)) eqn:E.
  - change (1 =? 0) with false. cbv iota. eexists. split; [reflexivity|]. exists (olidx L (ohome hash L key) q).
    apply andb_true_iff in E. destruct E as [E1 E2]. apply Z.eqb_eq in E1. apply Z.eqb_eq in E2. split; [reflexivity|split; assumption].
  - rewrite Z.eqb_refl. destruct (Z.eq_dec q p) as [->|Hne].
    { exfalso. rewrite Hst, Hky, !Z.eqb_refl in E. discriminate. }
    rewrite (wrapU_small 64 (q + 1)) by (change (2 ^ 64) with (2 * 2 ^ 63); lia).
    specialize (IH (q + 1) ltac:(lia) ltac:(lia)). replace (q + 1 - 1) with q in IH by lia. exact IH.
Qed.

Theorem ofind_present L t key : 0 <= L <= 63 -> OTinv hash L t -> OPresent L t key ->
  exists r, ofind t L key (hash key) = Ok r /\ ohit t key r.
Proof.
  intros HL Hinv (b & Hb & Hf & Hk). destruct (Hinv b Hb Hf) as (Hs & p & Hp & Hbp & Hw). rewrite Hk in *.
  assert (Hpos : 0 < 2 ^ L) by (apply pow2_pos; lia). assert (Hle : 2 ^ L <= 2 ^ 63) by (apply pow2_le_mono; lia).
  unfold ofind. rewrite shl1_pow2 by lia. rewrite (wrapU_small 64 (2 ^ L)) by (change (2 ^ 64) with (2 * 2 ^ 63); lia).
  assert (Hmp : Gen_Base.GetMaxProbe L = 2 ^ L - 1).
  { unfold Gen_Base.GetMaxProbe. rewrite shl1_pow2 by lia. rewrite (wrapU_small 64 (2 ^ L)) by (change (2 ^ 64) with (2 * 2 ^ 63); lia).
    apply wrapU_small. change (2 ^ 64) with (2 * 2 ^ 63). lia. }
  rewrite Hmp. fold (ohome hash L key). set (start := ohome hash L key) in *.
  assert (Hhome : 0 <= start < 2 ^ L) by (unfold start, ohome; rewrite start_mod by lia; apply Z.mod_pos_bound; lia).
  assert (E0 : olidx L start 0 = start) by (unfold olidx; rewrite Z.add_0_r; apply Z.mod_small; lia).
  rewrite obucket_find_spec.
  destruct ((ost (t start) =? Gen_One.pvGetHashState (hash key)) && (oky (t start) =? key)) eqn:E.
  - change (1 =? 0) with false. cbv iota. eexists. split; [reflexivity|]. exists start.
    apply andb_true_iff in E. destruct E as [E1 E2]. apply Z.eqb_eq in E1. apply Z.eqb_eq in E2. split; [reflexivity|split; assumption].
  - rewrite Z.eqb_refl. destruct (Z.eq_dec p 0) as [Hp0|Hp0].
    { exfalso. rewrite Hp0, E0 in Hbp. subst b. rewrite Hs, Hk, !Z.eqb_refl in E. discriminate. }
    assert (Hs' : ost (t (olidx L start p)) = Gen_One.pvGetHashState (hash key)) by (rewrite <- Hbp; exact Hs).
    assert (Hk' : oky (t (olidx L start p)) = key) by (rewrite <- Hbp; exact Hk).
    pose proof (ofind_loop_hit L t key p HL Hp Hw Hs' Hk' (S (Z.to_nat (2 ^ L - 1))) 1 ltac:(lia) ltac:(lia)) as X.
    change (1 - 1) with 0 in X. fold start in X. rewrite E0 in X. exact X.
Qed.

Theorem omigrate_find L newL told : 0 <= L -> L < newL <= 63 -> OTinv hash L told ->
  match omigrate hash told L newL with
  | Ok (_, tnew) => forall k, OPresent L told k -> exists r, ofind tnew newL k (hash k) = Ok r /\ ohit tnew k r
  | Exn => True
  | _ => False
  end.
Proof.
  intros HL HnL Hold. unfold omigrate. assert (Hpos : 0 < 2 ^ L) by (apply pow2_pos; lia).
  pose proof (omigrate_from_spec hash hash_range L newL HL HnL (Z.to_nat (2 ^ L)) told oempty_table 0 ltac:(lia) ltac:(lia) Hold
              (oempty_inv hash newL) ltac:(intros; lia)) as Hm.
  destruct (omigrate_from hash (Z.to_nat (2 ^ L)) told oempty_table newL 0) as [[told' tnew']| | |]; try exact Hm.
  destruct Hm as ((Ho & Hn & Hp & _) & Hz). intros k Hk. apply ofind_present; [lia|exact Hn|].
  destruct (Hp k Hk) as [(b & Hb & Hf & _)|G]; [exfalso|exact G].
  rewrite Hz in Hf by lia. discriminate.
Qed.
End FindOne.

(* BucketOne::Clear (generated): the bucket is neither full nor "was full" afterwards *)
Lemma one_clear_frame st : Gen_One.IsFull (Gen_One.Clear st) = false /\ Gen_One.WasFull (Gen_One.Clear st) = false.
Proof. split; reflexivity. Qed.
