"""Regenerates coq/Properties_C11.v: the statements are printed by Coq (`Check <lemma>`), not typed by hand.
usage: cd props/C11/coq && make (so that GrowModel.vo exists) && python3 ../tools/genprops.py   (writes ./Properties_C11.v)"""
import subprocess, re
names = [
 ('relocate_interrupted_inv', """relocate_interrupted_inv.  For EVERY hash function h, bucket capacity, probing scheme, growth policy satisfying kind_ok,
   EVERY sequence of operations and EVERY failure schedule carried by them (hash throwing in pvFind, item creation failing,
   bucket-array allocation refused, any item migration of any pvRelocateItems throwing -- also repeatedly, leaving several
   generations linked): every state reached from the empty HashSet satisfies Inv = every element lives in exactly one
   generation (keys pairwise distinct over the whole chain), on the probe path of its home bucket of that generation within
   the recorded max-probe bound with WasFull set on all buckets before it, mCount exact; and with
   areItemsNothrowRelocatable (where pvFind only looks at the newest table) the chain never has more than one table."""),
 ('inv_step', "the same as a one-step statement: Inv is preserved by every operation under every failure choice (unless the model says std::terminate)."),
 ('all_findable', "all_findable.  In every state satisfying Inv, pvFind finds exactly the stored keys: no element becomes unreachable, whatever number of generations coexist."),
 ('all_findable_located', "all_findable with the location spelled out: the triple (generation, bucket index, offset) that pvFind answers with names a table of the chain whose bucket at that index holds k at that offset (first occurrence in Bounds order)."),
 ('traversal_once', "traversal_once.  One GetBegin()..GetEnd() traversal (pvInc/pvMove across buckets and generations) is a permutation of the contents without repetition: every element visited exactly once."),
 ('iterator_traversal_once', "traversal_once for the ITERATOR STATE MACHINE (pvInc / pvMove, HashSet.h:349-383: bucket index, position inside the bucket, switch to mNextBuckets): started at GetBegin() in any state satisfying Inv -- any number of coexisting generations -- it needs exactly mCount increments, visits a duplicate-free permutation of the contents and then equals the end iterator (termination)."),
 ('find_buckets_returns_owner', "pvFindBuckets as coded (HashSet.h:1220-1237: single-table shortcut, else walk the generations newest first, skip those with bucketIndex >= bucket count, test whether the bucket iterator lies in the address range of that bucket) returns the generation in which pvFind found the item -- so pvRemove (which the model routes through it) acts on the right table in every multi-generation state.  Memory-model assumption: item storage of different buckets/generations is disjoint."),
 ('remove_if_any_state', "Remove(filter) = `iter = GetBegin(); while (iter) { if (filter(item)) iter = Remove(iter); else ++iter; }` with Remove(iter) = pvRemove (generation through pvFindBuckets, last item of the bucket moved into the hole, iterator re-created at the hole and pvInc'ed), run in ANY state satisfying Inv, across all coexisting generations: it terminates without assertion, removes exactly the elements satisfying the filter, returns their number, keeps Inv, the chain and the capacity.  (Also part of C11_history_refines_set now.)"),
 ('removable', "removable.  In every state satisfying Inv (e.g. an interrupted migration with 3 generations) Remove(key) of a present key succeeds, removes exactly that key, keeps Inv and the chain; afterwards the key is not found."),
 ('history_refines_set', """all histories refine the abstract set.  Along every history with every failure schedule, each result is the one a
   mathematical set would give: Insert says inserted iff the key was absent (or fails with the set unchanged), Find/Remove
   answer by membership, traversal is a duplicate-free permutation of the set, GetCount is its size.  Hence every
   inserted-and-not-removed key is found, in every intermediate state."""),
 ('failed_op_changes_nothing', "strong guarantee in the model: an Insert that throws (table full / bad_alloc / hash exception / MOMO_CHECK), a failed Reserve, an Insert of a present key and a Remove of an absent key leave the whole state unchanged."),
 ('grow_refused_insert_succeeds_unless_path_full', """grow_refused_insert_succeeds_unless_path_full.  When the table has to grow (mCount >= mCapacity) and the memory manager
   REFUSES the new bucket array (the size loop of pvAddGrow always ends: kind_ok3): the insertion of a new key succeeds on the existing newest
   table (capacity and number of generations not increased, Inv kept, the key is in) as soon as SOME bucket among the
   bucketCount probes of the key's path is not full; it throws "Hash table is full" with the state unchanged exactly when
   every one of them is full."""),
 ('insert_fails_only_if_every_slot_on_probe_path_taken', """the clause of the property as stated: when the table has to grow and the memory manager refuses the new bucket array, a
   single-element insertion of a new key (1) succeeds on the existing table as soon as ANY bucket of that table has a free
   slot, (2) answers "Hash table is full" (state unchanged) ONLY IF every bucket of the table is full, i.e. literally every
   slot is taken (at least maxCount * bucketCount items in it), and (3) does answer "full" in that case.  The probe path of
   pvAddNogrow is the whole table: kind_ok2 (proved below for linear AND triangular probing, the latter by the
   number-theoretic coverage theorem copied from C13 into ProbeSeq.v)."""),
 ('granted_growth_after_refusals', """interplay with the size loop of pvAddGrow (/repo 7a001ad): after ANY history followed by ANY number k of consecutive
   refused growths (fallback insertions overloading the table, or "full"), one granted failure-free insertion at a growth
   point succeeds, picks a table that is large enough (mCount <= mCapacity <= physical size), migrates every element of
   every older generation and leaves exactly ONE generation with the same contents plus the new key."""),
 ('later_ops_complete_migration_thm', """later_ops_complete_migration.  From any state satisfying Inv whose capacity does not exceed the physical size of the
   newest table (true for every reachable state: next theorem), failure-free insertions of fresh keys never terminate the
   process and ALL succeed; after more than max(0, mCapacity - mCount) of them (at the latest at the next growth) the chain
   is back to ONE generation, and it stays single.  Needs kind_ok2 (the probe sequence reaches every bucket (C13),
   CalcCapacity never exceeds the physical size) and kind_ok3 (capacities grow with the table size)."""),
 ('reserve_completes_migration_thm', "Reserve(n) with a granted allocation and no failure, n > mCapacity and n >= mCount, issued in ANY state satisfying Inv (e.g. several generations left by interrupted migrations): all items are migrated into the new table, exactly ONE generation remains, contents unchanged, capacity >= n.  (Refused / interrupted Reserve: C11_inv_step, C11_history_refines_set, C11_failed_op_changes_nothing.)"),
 ('clear_any_state', "Clear(shrink) in any state satisfying Inv (e.g. an interrupted migration): the result satisfies Inv, is empty, and has at most one table (older generations are released)."),
 ('reachable_cap_ok', "the premise CapOk of the previous theorem (mCapacity <= physical size of the newest table) holds in every state reachable from the empty container that has a table, for every history and failure schedule."),
 ('insert_never_fails_check', "since the fix of pvAddGrow (size loop instead of MOMO_CHECK(newCapacity > mCount)): in every reachable state, whatever failed before, no insertion ends in a capacity-check failure (model result RCheck), i.e. an overloaded table can always try to grow again."),
 ('model_parameters_are_source', """T-gen tie.  The leaf arithmetic of the growth decision and of the probe sequence is regenerated from /repo's headers by
   cxx2coq on every run (Gen_*.v: HashBucketBase / HashBucketOpen2N2<N> / HashBucketOpen8 ::CalcCapacity and
   ::GetBucketCountShift, BucketBase / BucketOpen2N2 / BucketOpen8 ::GetStartBucketIndex / GetNextBucketIndex,
   HashSetBuckets::GetCount).  On the domain of real tables (2^L buckets, L <= 62, no size_t overflow of
   bucketCount*maxCount, index and probe below the bucket count) these GENERATED functions are equal to the functions the
   model of every configuration is instantiated with and that all theorems above talk about (bcount, start_mask,
   next_linear / next_tri, cc_base / cc_open, sh_base / sh_open).  A change of any of these C++ functions changes the
   regenerated Gallina and breaks this proof."""),
 ('growth_decision_is_source', """T-gen tie of the growth decision.  HashSet::pvGetNewLogBucketCount, the size loop of pvAddGrow (7a001ad) with its
   length_error bound (f76c2d4) and the resulting mCapacity / bucket-array size are regenerated from HashSet.h on every run
   (Gen_HashSetGrow.v; traits object, bucket arrays and memory manager are abstract).  Whenever the hand model's `hadd`
   chooses the table size 2^r (grow_log, any fuel) with r <= 63, the GENERATED loop chooses the same r and the same
   capacity."""),
 ('reserve_decision_is_source', "the same for the size loop of Reserve and the hand model's reserve_log."),
 ('size_loops_throw_only_beyond_2_63', "the fuel / RCheck branch of the hand model as a theorem about the generated loop: with its 70 units of fuel it never runs out of fuel, and it throws std::length_error (f76c2d4) exactly when no table of at most 2^63 buckets has a capacity above mCount."),
 ('gen_new_log_head', "generated pvGetNewLogBucketCount = the hand model's newLog (and it is the MOMO_CHECK(shift > 0) that fails, `Stuck`, when GetBucketCountShift answers 0)."),
 ('gen_new_log_empty', "... and = GetLogStartBucketCount() for a bucket-less container."),
 ('refused_insert_full_iff_generated_IsFull_o2', """the "Hash table is full" clause down to the bytes, BucketOpen2N2<3>: whenever the bytes of the buckets of the real
   newest table represent the model table (byte invariant of C13's BucketOps + count bits = number of items, preserved by the
   GENERATED AddCrt / Remove / pvSetEmpty: o2_add, o2_remove, o2_empty), an insertion under refused growth answers "Hash table
   is full" exactly when the GENERATED IsFull -- the test pvAddNogrow performs -- is true on every bucket."""),
 ('refused_insert_full_iff_generated_IsFull_n1', "the same for BucketOpenN1<maxCount, reverse> (BucketOpen8 = maxCount 7, reverse false)."),
 ('refused_insert_full_iff_generated_IsFull_limp4', "the same clause for BucketLimP4<4> (hashCount 4..8): 'Hash table is full' under refused growth <-> the GENERATED IsFull is true on the bytes of every bucket, for every real table whose buckets (metadata bytes, item pointer, pointer state) represent the model table."),
 ('refused_insert_full_iff_generated_IsFull_one', "... and for BucketOne (state word)."),
 ('p4_full_agrees', "generated BucketLimP4::IsFull AND ::WasFull (memory-pool index in the pointer state) = the model bucket's isFull / wasFull under the abstraction relation rel_p4."),
 ('p4_add', "generated BucketLimP4::AddCrt -- all five branches (pvAdd0<min>, pvAdd0<max>, pvAdd<1..3>, spare slot), whatever memory it is handed -- keeps rel_p4 with one more item and with the model's WasFull rule wasFull' = wasFull || (maxCount <= count')."),
 ('p4_remove', "generated BucketLimP4::Remove keeps rel_p4 with one item less and WasFull KEPT (the frame condition the lookup invariant needs: removal never resets WasFull while items are reachable through the bucket)."),
 ('p4_clear', "generated BucketLimP4::Clear: empty, not full, WasFull false (minMemPoolIndex 2 <> maxCount)."),
 ('one_full_agrees', "generated BucketOne::IsFull / ::WasFull = the model bucket's isFull / wasFull."),
 ('one_add', "generated BucketOne::AddCrt keeps the relation (full, WasFull set)."),
 ('one_remove', "generated BucketOne::Remove: not full any more, WasFull still set."),
 ('one_clear', "generated BucketOne::Clear: neither full nor WasFull."),
 ('o2_full_agrees', "generated BucketOpen2N2::IsFull on the bytes = the model's isFull (maxCount <= number of items) under the abstraction relation."),
 ('o2_add', "generated AddCrt keeps the abstraction relation (one more item)."),
 ('o2_remove', "generated Remove keeps the abstraction relation (one item less)."),
 ('n1_full_agrees', "generated BucketOpenN1::IsFull = the model's isFull, for every maxCount 1..7 and both layouts."),
 ('n1_add', "generated BucketOpenN1::AddCrt keeps the abstraction relation."),
 ('n1_remove', "generated BucketOpenN1::Remove keeps the abstraction relation."),
 ('gen_addnogrow_is_tadd', """T-gen tie of the insertion probe loop.  The loop of HashSet::pvAddNogrow (`while (bucket->IsFull()) { ++probe; if (probe >= bucketCount) throw "Hash table is full"; bucketIndex = GetNextBucketIndex(..); bucket = &buckets[bucketIndex]; }`) is regenerated from HashSet.h on every run (Gen_HashSetMove.v; buckets are handles, IsFull / GetNextBucketIndex are parameters).  Instantiated with the model table (IsFull of the model bucket, the kind's next-index function) the GENERATED loop throws "Hash table is full" exactly when the hand model's tadd fails, and otherwise stops at the bucket and with the probe count where tadd places the item.  So every theorem above about full tables / fallback insertion / migration targets rests on the generated loop."""),
 ('gen_addnogrow_whole', "the WHOLE generated pvAddNogrow (instantiation <false>, translated with loop_return_keeps_state; tables of up to 70 buckets = the translator's fuel): throws 'Hash table is full' iff the hand model's add_loop fails; otherwise the returned position names the bucket where tadd puts the item, mCount is unchanged, and the probe count handed to startBucket.UpdateMaxProbe (recorded field rec_maxprobe) is the one tadd hands to upd_bound."),
 ('gen_addnogrow_loop', "the same, loop against loop: generated pvAddNogrow loop = the hand model's add_loop from any intermediate probe."),
 ('gen_reloc_inner', "T-gen, loop skeleton of HashSet::pvRelocateItems(Buckets ptr) -- generated; GetHashCodePart and Remove-with-replacer -- whose replacer is the pvAddNogrow into the newest table -- are parameters = the item move as a primitive: the inner loop over a bucket with c items performs exactly c moves, on the items end-1, end-2, ..., end-c (last to first, the order of the hand model's reloc_items), given that Remove of the last item hands the iterator back."),
 ('gen_reloc_outer', "... and the outer loop handles every bucket 0 .. bucketCount-1 exactly once in ascending order (the order of the hand model's reloc_buckets) and ends at bucketCount.  The EFFECTS of a move, the exception paths (failure swallowed, generations stay linked) and the recursion over older generations remain hand-modelled (GrowModel.reloc) and are tied by T-cor."),
 ('gen_find_walk', """T-gen tie of the lookup's generation walk.  The `while (true)` loop of HashSet::pvFind(key) (one-table lookup, `if (found || areItemsNothrowRelocatable) break; buckets = buckets->GetNextBuckets(); if (buckets == nullptr) break;`) is regenerated from HashSet.h on every run (Gen_HashSetFind.v; table arrays are handles, the one-table pvFind and GetNextBuckets are parameters).  Run on a chain of model tables (generation j = handle j+1, nullptr = 0, the one-table lookup answering non-null exactly where the model's tfind finds the key) the GENERATED walk returns the iterator of the generation that the hand model's gfind answers with, and the null iterator exactly when gfind finds nothing -- including the shortcut that only the newest table is searched when items are nothrow-relocatable.  all_findable / history_refines_set therefore talk about the generated control flow.  (The update of indexCode through the reference parameter of the one-table pvFind is not modelled.)"""),
 ('gen_find_buckets_loop', "T-gen tie of pvFindBuckets' loop (generated: `for (bkts = mBuckets; bkts != nullptr; bkts = bkts->GetNextBuckets())`, `if (bucketIndex >= bkts->GetCount()) continue;`, the std::less address-range test on GetBounds of bucket bucketIndex): with item addresses owner * M + pos (disjoint storage per generation, M above every bucket length) it computes the hand model's find_buckets_loop (same generation or MOMO_ASSERT(false))."),
 ('gen_find_buckets_is_model', "... and the whole generated pvFindBuckets (single-table shortcut, the loop with the translator's 70 units of fuel for chains shorter than 70 tables, final MOMO_ASSERT(false) = Stuck) = the hand model's find_buckets, on which C11_find_buckets_returns_owner / C11_removable / C11_remove_if_any_state rest."),
 ('gen_clear_is_hclear', """T-gen tie of Clear.  HashSet::Clear(shrink) is regenerated from HashSet.h on every run (Gen_HashSetClear.v: fields mCount / mCapacity / mBuckets; pvClear, pvDestroy() and pvDestroy(extracted chain, false) as recorded calls).  On the handle representation of the model chain (newest table 1, its successor 2 or nullptr 0) the GENERATED function yields the count, capacity and table pointer of the hand model's hclear; without shrink it clears exactly the newest table and destroys exactly the chain extracted from it (older generations left by interrupted migrations), capacity kept; with shrink everything is destroyed and the capacity is 0; bucket-less containers are untouched.  C11_clear_any_state is thereby about the generated field updates; what pvClear does to the buckets stays hand-modelled (clearT) + T-cor."""),
 ('pv_move_is_interpreted_source', """The iterator machine rests on the source.  The statements of HashSetConstIterator::pvMove and ::pvInc are read off the clang AST on every run (astfacts.py -> Gen_RelocFacts.iter_move_stmts / iter_inc_stmts) and interpreted on the model's iterator state (IterInterp.v: mBuckets = head of the chain the iterator stands on, bucket index, bucket iterator as offset from GetBegin): the `while (true)` loop (++bucketIndex; break when out of range; bounds of that bucket; if it has items ptReset to its last item and return), then `nextBuckets = mBuckets->GetNextBuckets(); if (nextBuckets != nullptr) { mBuckets = nextBuckets; ptReset(0, bounds(0).GetEnd()); return pvInc(); }`, else the end iterator.  The mutual recursion is accepted only after mBuckets moved to the next table (well-founded on the chain).  The interpretation of the CURRENT source equals the hand model's pv_move for every chain and bucket index."""),
 ('pv_inc_is_interpreted_source', "... and the interpreted pvInc (`if (bucketIter != bounds(bucketIndex).GetBegin()) ptReset(bucketIndex, prev(bucketIter)); else pvMove();`) equals the hand model's pv_inc.  C11_iterator_traversal_once, C11_traversal_once (through the machine) and the re-positioning inside Remove(iter) are therefore about the interpreted source."),
 ('it_next_is_interpreted_source', "operator++ of the model (it_next, the `++iter` of Remove(filter)) is the interpreted pvInc.  (operator++'s own wrapper `if (ptIsMovable()) pvInc(); else this = end` is not interpreted: iterators of the model are always movable.)"),
 ('it_begin_is_interpreted_source', "GetBegin: the statements of HashSet::GetBegin (`if (mCount == 0) return ConstIterator(); return ConstIteratorProxy(first table, 0, bounds(0).GetEnd(), version)`) and of the protected iterator constructor (member initialisers + `pvInc();`) interpreted = the hand model's it_begin -- the `iter = GetBegin()` of Remove(filter) and the start of every traversal."),
 ('remove_at_is_interpreted_source', """Remove(iter) rests on the source.  The statements of HashSet::Remove(ConstIterator) and HashSet::pvRemove are read off the clang AST on every run (astfacts.py -> Gen_RelocFacts.remove_iter_stmts / pv_remove_stmts) and interpreted statement by statement on the model state (RemoveAtInterp.v: the two MOMO_CHECKs, position / iterator / index bindings, `buckets = pvFindBuckets(bucketIndex, bucketIter)` = find_buckets, `bucket.Remove(..)` on bucket bucketIndex of THAT generation = tremove, --mCount, IncVersion, the returned iterator built on `buckets` whose constructor runs pvInc; each statement requires the names it uses to be bound).  (1) the interpretation of the CURRENT source equals the removal step of the hand model's remif; (2) the loop body of Remove(filter) is: filter true -> this interpreted Remove(iter), else the interpreted ++iter.  With C11_pv_inc_is_interpreted_source / C11_it_begin_is_interpreted_source no hand-written control flow is left in Remove(filter); what remains by contract is Bucket::Remove (tremove; byte level: GenFull / GenFullP4) and that it returns the iterator at the hole."""),
 ('remove_filter_is_interpreted_source', """Remove(filter) rests on the source.  The statements of HashSet::Remove(const ItemFilter&) are read off the clang AST on every run (astfacts.py -> Gen_RelocFacts.remove_filter_stmts: `initCount = GetCount(); iter = GetBegin(); while (!!iter) { if (itemFilter( *iter )) iter = Remove(iter); else ++iter; } return initCount - GetCount();`) and interpreted on the model state (RemoveIfInterp.v: the loop runs until the end iterator, the filter is applied to the item under the iterator, Remove(iter) = the modelled pvRemove -- generation through find_buckets, tremove, count - 1, iterator re-created at the hole and pvInc'ed --, ++iter = pv_inc).  The interpretation of the CURRENT source equals the hand model's hremove_if for every state and filter; C11_remove_if_any_state / C11_inv_step / C11_history_refines_set are theorems about hremove_if.  Hand-modelled primitives: Remove(iter), operator++ / GetBegin (iterator machine).  Swapping the branches, dropping the else, a different loop condition or return expression changes the generated list and breaks this proof."""),
 ('reloc_gens_is_interpreted_source', """AST facts feeding the model.  The statements of HashSet::pvRelocateItems(Buckets ptr) are read off the clang AST on every run (props/C11/astfacts.py -> Gen_RelocFacts.worker_stmts, syntax RelocSyntax.cstmt) and INTERPRETED on the model's chain of tables (GenFacts.interp_worker: `nextBuckets = buckets->GetNextBuckets()`, `if (nextBuckets != nullptr) { pvRelocateItems(nextBuckets); buckets->ExtractNextBuckets(); }` = recursive activation on the older chain, unlinked only after a normal return, the item loop = reloc_buckets (skeleton: Gen_HashSetMove), `buckets->Destroy` = the table disappears; a status other than MOk is an exception in flight and skips the remaining statements, there being no handler).  The interpretation of the CURRENT source equals the hand model's reloc_gens for every chain, newest table and failure schedule -- so every theorem above about interrupted migrations is about the interpreted statements: oldest generation first, the first failure leaves every table on the recursion path linked and not destroyed."""),
 ('relocate_is_interpreted_source', """... and the wrapper pvRelocateItems() (Gen_RelocFacts.wrapper_stmts: `nextBuckets = mBuckets->GetNextBuckets(); try { pvRelocateItems(nextBuckets); mBuckets->ExtractNextBuckets(); } catch (...) { }`), interpreted with try / catch-all semantics (an MStop raised inside the try is swallowed by the EMPTY catch-all handler, statements after the throw point inside the try are skipped, MTerm = std::terminate out of the noexcept worker), equals the hand model's `relocate` on every chain with at least two tables -- the function through which hadd / hreserve (and with them all theorems on growth failures) use the migration.  Moving ExtractNextBuckets out of the try, a non-empty handler, or any statement the interpreter does not know breaks this proof."""),
 ('noexcept_facts_hold', "side facts read off the AST: pvRelocateItems(Buckets ptr) is noexcept(areItemsNothrowRelocatable), pvRelocateItems() is noexcept."),
 ('limp4_same_code_3_is_4', "same-code: BucketLimP4<.., 3, .., true> translated with maxCount symbolic gives literally the same Gallina as BucketLimP4<.., 4, .., true> for pvGetCount, IsFull, pvGetMemPoolIndex, WasFull, pvSetPtrState, pvSetEmpty, Clear, Remove (AddCrt differs per maxCount and is not claimed)."),
 ('limp4_same_code_2_is_4', "... BucketLimP4<2>."),
 ('limp4_same_code_1_is_4', "... BucketLimP4<1>."),
 ('limp4_symbolic_at_4_is_concrete', "the symbolic translation at maxCount = 4 is the concrete translation that GenFullP4.v / C12's stack reason about."),
 ('limp4_isfull_any_maxcount', "what the shared IsFull says for every maxCount 1..4: the last short-hash byte is below maskEmpty."),
 ('o2_empty', "the generated empty BucketOpen2N2 bytes represent the model's empty bucket (count only: rel_o2 does not talk about WasFull)."),
 ('n1_empty', "generated BucketOpenN1::pvSetEmpty represents the model's empty bucket (count only)."),
 ('rel_table_new', "table level, for ANY bucket relation (rel_o2, rel_n1, rel_p4_bucket, rel_one): the premise `Forall2 rel ds (tbs t)` of the refused_insert_full_iff_generated_IsFull_* theorems is established by a freshly created table from a related empty bucket ..."),
 ('rel_table_set', "... preserved when bucket i is replaced by a related pair (the shape in which tadd / tremove change a table: setb; combine with the per-bucket *_add / *_remove lemmas) ..."),
 ('rel_table_clear', "... and by pvClear (clearT)."),
 ('o2_table_exists', "satisfiability of the premise: EVERY model table whose buckets hold at most 3 items has representing BucketOpen2N2<3> bytes (built from the generated empty state by the generated AddCrt)."),
 ('n1_table_exists', "the same for BucketOpenN1<maxCount 1..7> (both layouts)."),
 ('same_code_open2n2_policy', "HashBucketOpen2N2<1> and HashBucketOpen2N2<3> translate to the same Gallina (maxCount is a Section variable): one proof covers all instantiations."),
 ('same_code_open_index', "BucketOpen8 and BucketOpen2N2 have the same GetNextBucketIndex."),
 ('concrete_kind_ok', "the hypotheses kind_ok hold for the concrete kinds used by the extracted model (mask start index, linear and triangular probing, exact max-probe bound, both growth policies)."),
 ('linear_kind_ok2', "kind_ok2 holds for linear probing (LimP4 / One) with both capacity policies (triangular probing: next theorem)."),
 ('tri_kind_ok2', "kind_ok2 holds for triangular probing (Open2N2 / Open8) on power-of-two tables: every bucket is reached within bucketCount probes (tri_inj + pigeonhole, ProbeSeq.v copied from C13)."),
 ('concrete_kind_ok2', "hence kind_ok2 for every configuration of the extracted model."),
 ('concrete_kind_ok3', "kind_ok3 holds for both capacity policies (HashBucketBase: 5/8, 3/2, 2 per bucket; open addressing: 11/12 and 13/14 of the slots)."),
 ('cfg_all_histories', "the two main theorems instantiated at cfg_run = exactly the extracted function that is compared with the real momo containers on every run."),
 ('ex_three_generations', "non-vacuity: a concrete history (Open2N2<3>, refused growth + interrupted migrations) reaches THREE coexisting generations holding 4, 6 and 4 items; all 14 keys are found."),
 ('ex_migration_completes', "non-vacuity: one more failure-free insertion brings that chain back to a single generation with all items; Remove works."),
 ('ex_refused_until_full', "non-vacuity: with every growth refused a 2-bucket Open2N2<3> table accepts insertions up to 6 items through the fallback path, then reports full."),
]
hdr = '''From Coq Require Import ZArith List Bool Permutation.
From C11 Require Import GrowModel GenTie GenGrow GenFull GenFullP4 GenMove GenSame GenFacts GenFind GenClear TableRel RemoveIfInterp RemoveAtInterp IterInterp.
Import ListNotations.
Local Open Scope Z_scope.
Set Printing Width 130.
'''
open('chk.v','w').write(hdr + '\n'.join('Check %s.' % n for n, _ in names) + '\n')
out = subprocess.run(['coqc','-Q','.','C11','-Q','../../../coq/common','MomoCommon','chk.v'],capture_output=True,text=True).stdout
blocks = re.split(r'\n(?=\w+\n     : )', out.strip())
types = {}
for b in blocks:
    name, rest = b.split('\n', 1)
    types[name.strip()] = rest.replace('     : ', '', 1)
res = '''(* Property C11 -- theorems only.  Each is closed by `exact <lemma>` and followed by Print Assumptions.
   They talk about GrowModel.v, the executable model of momo::HashSet as a chain of table generations whose extracted
   code is run against the real HashSet/HashMap (with refused allocations and throwing hash functions) on every run.
   kind_ok / kind_ok2 are the facts about a bucket kind that the proofs use (index functions stay inside the table,
   UpdateMaxProbe never under-approximates, the growth policy does not shrink / probing reaches every bucket,
   CalcCapacity <= physical size); they are proved below for the kinds used by the extracted model. *)
From Coq Require Import ZArith List Bool Permutation.
From C11 Require Import GrowModel GenTie GenGrow GenFull GenFullP4 GenMove GenSame GenFacts GenFind GenClear TableRel RemoveIfInterp RemoveAtInterp IterInterp.
Import ListNotations.
Local Open Scope Z_scope.

'''
for n, c in names:
    tn = 'C11_' + n.replace('_thm', '')
    res += '(* %s *)\nTheorem %s :\n  %s.\nProof. exact %s. Qed.\nPrint Assumptions %s.\n\n' % (c, tn, types[n].strip().replace('\n', '\n  '), n, tn)
open('Properties_C11.v','w').write(res)
import os, glob
for f in glob.glob('chk.*') + glob.glob('.chk.*'):
    os.remove(f)
