(* C07 / entry points for extraction: the GENERATED trees of Gen_Protocol.v run by the interpreters (no strings cross the
   OCaml boundary).  The drivers run these next to the hand model on every operation and report any difference. *)
From Coq Require Import String List ZArith Bool.
From C07 Require Import TableSpec MultiHash IndexModel ProtoSyntax ProtoSem FitSem.
From C07 Require Gen_Protocol.
Import ListNotations.
Local Open Scope string_scope.

Definition gen_add_raw ord R ct fl s raw :=
  run_tree false false ord R ct Gen_Protocol.AddRaw (upd empty_env "raw" (IRaw raw)) fl s.
Definition gen_remove_raw fixu fixm R ct fl s raw :=
  run_remove_tree fixu fixm (fun n => n) R ct Gen_Protocol.RemoveRaw (upd empty_env "raw" (IRaw raw)) fl s.
Definition gen_update_raw fixu fixm ord R ct fl s old new :=
  run_tree fixu fixm ord R ct Gen_Protocol.UpdateRaw2 (upd (upd empty_env "oldRaw" (IRaw old)) "newRaw" (IRaw new)) fl s.
Definition gen_update_col fixu fixm ord R ct fl s raw c v :=
  run_col_tree fixu fixm ord R ct Gen_Protocol.UpdateRawCol raw c v fl s.
Definition gen_fit_unique (us ms : list hdesc) (q : list nat) := run_fit Gen_Protocol.GetFitUniqueHashIndex us ms q.
Definition gen_fit_multi (us ms : list hdesc) (q : list nat) := run_fit Gen_Protocol.GetFitMultiHashIndex us ms q.
