(* C04 -- constructors that fail leave nothing allocated and nothing constructed; the BucketMemory guard.
   * Array(const Array&) (Array.h:561-571): Data(capacity) allocates, the body copy-constructs item by item
     (pvAddBackNogrow: creator(items + count); SetCount(count + 1)); when a copy throws, the already constructed
     member mData is destroyed by stack unwinding: ~Data = Destroy(items, mCount) + Deallocate.
   * HashSet / TreeSet copy & initializer_list constructors (fixed in 806b9fe): they DELEGATE to another constructor,
     so when their body throws, the catch block runs pvDestroy() and then the destructor runs pvDestroy() again.
   * BucketLimP4::pvAdd0 / pvAdd (details/HashBucketLimP4.h:472-495) with the BucketMemory guard
     (details/BucketUtility.h:25-64): they have exactly the shape of Array::Data::Reset. *)
From Coq Require Import List Arith Lia Bool PeanoNat.
From C04 Require Import Effects ObjMgr ArrayData.
Import ListNotations.

(* the member mCount of the object under construction doubles as the loop counter: register rIndex' = rNewCount *)
Definition array_copy_ctor (src : nat -> loc) (n : nat) : M nat :=
  nb <- alloc n ;;                                    (* mData(capacity) *)
  setr rIndex 0 ;;                                    (* mCount = 0 *)
  try_catch (copy_from src (fun j => (nb, j)) 0 n)    (* for (item : array) AddBackNogrow(item) *)
            (cnt <- getr rIndex ;; destroy_from (fun j => (nb, j)) 0 cnt ;; dealloc nb ;; throw)   (* ~Data by unwinding *) ;;
  ret nb.

Theorem array_copy_ctor_spec : forall src n s,
  wf (hp s) ->
  (forall j, j < n -> valid (hp s) (src j) = true /\ exists v, mem (hp s) (src j) = Live v) ->
  wp (array_copy_ctor src n) s
     (fun nb s' => nb = next (hp s) /\ alive (hp s') nb = true /\
                   (forall j, j < n -> mem (hp s') (nb, j) = mem (hp s) (src j)) /\
                   (forall l, fst l <> nb -> mem (hp s') l = mem (hp s) l) /\
                   (forall b, b <> nb -> alive (hp s') b = alive (hp s) b))
     (fun s' => same_res (hp s) (hp s')).
Proof.
  intros src n s W Hsrc. unfold array_copy_ctor.
  set (h0 := hp s) in *. set (nb := next h0) in *.
  apply wp_bind. apply wp_alloc.
  { intros s' H'. destruct H' as [Hm Ha Hb Hn Hr]. split; auto. intros r _; auto. }
  intros s1 H1. apply wp_bind, wp_setr. intros s2 H2.
  assert (M2 : forall l, mem (hp s2) l = if fst l =? nb then Raw else mem h0 l).
  { intros l. rewrite (hq_mem _ _ H2), mem_hsetr, (hq_mem _ _ H1). reflexivity. }
  assert (A2 : forall b, alive (hp s2) b = if b =? nb then true else alive h0 b).
  { intros b. rewrite (hq_alive _ _ H2). simpl. rewrite (hq_alive _ _ H1). reflexivity. }
  assert (S2 : forall b, bsize (hp s2) b = if b =? nb then n else bsize h0 b).
  { intros b. rewrite (hq_bsize _ _ H2). simpl. rewrite (hq_bsize _ _ H1). reflexivity. }
  assert (R2 : forall r, r <> rIndex -> regs (hp s2) r = regs h0 r).
  { intros r Hr. rewrite (hq_regs _ _ H2), regs_hsetr_other by auto. apply (hq_regs _ _ H1). }
  assert (I2 : regs (hp s2) rIndex = 0) by (rewrite (hq_regs _ _ H2); apply regs_hsetr_same).
  assert (Hsn : forall j, j < n -> fst (src j) <> nb).
  { intros j Hj E. destruct (Hsrc j Hj) as [V _]. unfold valid in V. rewrite E in V. unfold nb in V. rewrite W in V by lia. discriminate. }
  assert (V2n : forall j, j < n -> valid (hp s2) (nb, j) = true).
  { intros j Hj. unfold valid. simpl. rewrite A2, S2, Nat.eqb_refl. apply Nat.ltb_lt; auto. }
  assert (V2s : forall j, j < n -> valid (hp s2) (src j) = true).
  { intros j Hj. destruct (Hsrc j Hj) as [V _]. unfold valid in *. rewrite A2, S2.
    specialize (Hsn j Hj). apply Nat.eqb_neq in Hsn. rewrite Hsn. exact V. }
  apply wp_bind. apply wp_try.
  apply wp_copy_from with (i := 0).
  - intros j Hj. destruct (Hsrc j ltac:(lia)) as [V [v Hv]]. rewrite V2s, V2n by lia. rewrite !M2. simpl. rewrite Nat.eqb_refl.
    specialize (Hsn j ltac:(lia)). apply Nat.eqb_neq in Hsn. rewrite Hsn. eauto.
  - intros j k Hj Hk E. apply (Hsn j ltac:(lia)). rewrite E. reflexivity.
  - intros j k Hj Hk Hjk E. inversion E. auto.
  - exact I2.
  - (* a copy failed: unwinding destroys the copies and frees the block *)
    intros cur s3 Hc [K1 K2 K3 K4 K5].
    apply wp_bind, wp_getr. rewrite K4.
    apply wp_bind. apply wp_destroy_from.
    + intros j Hj. rewrite (agree_valid _ _ _ _ K3). rewrite V2n by lia. split; auto.
      rewrite K1 by lia. destruct (Hsrc j ltac:(lia)) as [_ [v Hv]]. rewrite M2.
      specialize (Hsn j ltac:(lia)). apply Nat.eqb_neq in Hsn. rewrite Hsn, Hv. discriminate.
    + intros j k Hj Hk Hjk E. inversion E. auto.
    + intros s4 [D1 D2 D3 D4].
      apply wp_bind. apply wp_dealloc.
      * rewrite (ag_alive _ _ _ D3), (ag_alive _ _ _ K3), A2, Nat.eqb_refl. reflexivity.
      * intros i Hi. destruct (le_lt_dec cur i).
        -- rewrite D2 by (intros j Hj E; inversion E; lia). rewrite K2 by (intros j Hj E; inversion E; lia).
           rewrite M2. simpl. rewrite Nat.eqb_refl. reflexivity.
        -- apply D1. lia.
      * intros s5 H5. apply wp_throw. split.
        -- intros l Al. assert (Hl : fst l <> nb). { intro E. rewrite E in Al. unfold nb in Al. rewrite W in Al by lia. discriminate. }
           rewrite (hq_mem _ _ H5). simpl. rewrite D2 by (intros j Hj E; apply Hl; rewrite <- E; reflexivity).
           rewrite K2 by (intros j Hj E; apply Hl; rewrite <- E; reflexivity).
           rewrite M2. apply Nat.eqb_neq in Hl. rewrite Hl. reflexivity.
        -- intros b. rewrite (hq_alive _ _ H5). simpl. unfold updn. change (next (hp s)) with nb. destruct (b =? nb) eqn:E.
           ++ apply Nat.eqb_eq in E. subst b. unfold nb. rewrite W by lia. reflexivity.
           ++ rewrite (ag_alive _ _ _ D3), (ag_alive _ _ _ K3), A2, E. reflexivity.
        -- intros b Ab. assert (Hb : b <> nb) by (apply old_ne_next; auto). apply Nat.eqb_neq in Hb.
           rewrite (hq_bsize _ _ H5). simpl. rewrite (ag_bsize _ _ _ D3), (ag_bsize _ _ _ K3), S2, Hb. reflexivity.
        -- intros r Hr. rewrite (hq_regs _ _ H5). simpl. rewrite D4. rewrite K5 by (unfold rIndex; lia). apply R2. unfold rIndex; lia.
  - intros s3 [K1 K2 K3 K4 K5]. apply wp_ret. repeat split; auto.
    + rewrite (ag_alive _ _ _ K3), A2, Nat.eqb_refl. reflexivity.
    + intros j Hj. rewrite K1 by lia. rewrite M2. specialize (Hsn j Hj). apply Nat.eqb_neq in Hsn. rewrite Hsn. reflexivity.
    + intros l Hl. change (next (hp s)) with nb in Hl. rewrite K2 by (intros j Hj E; apply Hl; rewrite <- E; reflexivity). rewrite M2. apply Nat.eqb_neq in Hl. rewrite Hl. reflexivity.
    + intros b Hb. change (next (hp s)) with nb in Hb. rewrite (ag_alive _ _ _ K3), A2. apply Nat.eqb_neq in Hb. rewrite Hb. reflexivity.
Qed.

(* ---- delegating constructors of HashSet / TreeSet (806b9fe) ----------------------------------------- *)
Definition rBuckets := 13.      (* mBuckets / mRootNode: 0 = nullptr, S b = block b *)

(* pvDestroy(): if (mBuckets != nullptr) { destroy the items; deallocate } *)
Definition set_pv_destroy : M unit :=
  p <- getr rBuckets ;;
  match p with
  | 0 => ret tt
  | S b => cnt <- getr rIndex ;; destroy_from (fun j => (b, j)) 0 cnt ;; dealloc b
  end.

(* HashSet(const HashSet&) : HashSet(traits, memManager) { try { allocate; copy items } catch (...) { pvDestroy(); [mBuckets = nullptr;] throw; } }
   and, because the object counts as constructed once the delegated constructor has finished, ~HashSet() = pvDestroy() runs too *)
Definition set_copy_ctor (fixed : bool) (src : nat -> loc) (n : nat) : M unit :=
  setr rBuckets 0 ;; setr rIndex 0 ;;                                      (* the delegated constructor *)
  try_catch
    (try_catch (nb <- alloc n ;; setr rBuckets (S nb) ;; copy_from src (fun j => (nb, j)) 0 n)
               (set_pv_destroy ;; (if fixed then setr rBuckets 0 else ret tt) ;; throw))
    (set_pv_destroy ;; throw).                                              (* the destructor, by unwinding *)

Definition ctor_demo_heap : heap :=
  mkH (fun l => if (fst l =? 0) && (snd l <? 3) then Live (10 + snd l) else Raw) (fun b => b =? 0) (fun b => if b =? 0 then 3 else 0) 1 (fun _ => 0).
Definition ctor_demo (sch : list bool) : st := mkS ctor_demo_heap sch [].

(* pre-fix shape: a failing item copy makes the constructor destroy its contents twice (undefined behaviour) *)
Lemma ctor_double_destroy_prefix_stuck :
  exists s', set_copy_ctor false (fun j => (0, j)) 3 (ctor_demo [false; false; true]) = (Stuck, s').
Proof. eexists. vm_compute. reflexivity. Qed.
(* fixed shape, same run: exception, and the only live block is the source *)
Lemma ctor_double_destroy_fixed_ok :
  exists s', set_copy_ctor true (fun j => (0, j)) 3 (ctor_demo [false; false; true]) = (Exn, s') /\
             alive (hp s') 1 = false /\ mem (hp s') (1, 0) = Raw /\ mem (hp s') (1, 1) = Raw /\ mem (hp s') (0, 1) = Live 11.
Proof. eexists. split; [vm_compute; reflexivity|]. repeat split; reflexivity. Qed.

(* ---- BucketMemory guard: pvAdd<k> = allocate a block of k+1 items under a guard, RelocateCreate into it, free the
        old block, release the guard.  This is Array::Data::Reset with the RelocateCreate creator. ------------- *)
Definition bucket_add (c : cat) (item_creator : loc -> M unit) : M unit :=
  k <- getr rCount ;; array_addback_grow c (S k) item_creator.

Theorem bucket_add_spec : forall c arg v s,
  wf (hp s) -> arr_inv (hp s) ->
  valid (hp s) arg = true /\ mem (hp s) arg = Live v /\ fst arg <> regs (hp s) rItems ->
  wp (bucket_add c (creator_copy arg)) s
     (fun _ s' => regs (hp s') rItems = next (hp s) /\ regs (hp s') rCount = S (regs (hp s) rCount) /\
                  (regs (hp s) rCap > 0 -> alive (hp s') (regs (hp s) rItems) = false) /\
                  (forall i, i < regs (hp s) rCount -> mem (hp s') (next (hp s), i) = mem (hp s) (regs (hp s) rItems, i)) /\
                  mem (hp s') (next (hp s), regs (hp s) rCount) = Live v)
     (fun s' => same_res (hp s) (hp s')).
Proof.
  intros c arg v s W I Ha. unfold bucket_add. apply wp_bind, wp_getr.
  eapply wp_mono.
  - apply array_addback_spec; eauto.
  - intros _ s' [A [B [C [D [E [F G]]]]]]. simpl. repeat split; auto.
  - intros s' H; exact H.
Qed.

Lemma array_shrink_spec :
  forall c s, wf (hp s) -> arr_inv (hp s) ->
    wp (array_grow c (regs (hp s) rCount)) s
       (fun _ s' => regs (hp s') rCap = regs (hp s) rCount /\
                    (forall i, i < regs (hp s) rCount -> mem (hp s') (next (hp s), i) = mem (hp s) (regs (hp s) rItems, i)))
       (fun s' => same_res (hp s) (hp s')).
Proof.
  intros c s W I. eapply wp_mono. { apply array_grow_spec; auto. }
  - intros _ s' [A [B [C [D [E F]]]]]. split; auto.
  - intros s' H; exact H.
Qed.

Lemma ctor_failure_nothing :
  forall src n s s', wf (hp s) ->
    (forall j, j < n -> valid (hp s) (src j) = true /\ exists v, mem (hp s) (src j) = Live v) ->
    array_copy_ctor src n s = (Exn, s') ->
    (forall b, alive (hp s') b = alive (hp s) b) /\ (forall l, alive (hp s) (fst l) = true -> mem (hp s') l = mem (hp s) l).
Proof.
  intros src n s s' W H E. pose proof (array_copy_ctor_spec src n s W H) as X. unfold wp in X. rewrite E in X.
  destruct X as [M A _ _]. split; auto.
Qed.

(* ---- BucketLimP4::AddCrt, branch "the current block still has a free slot" (details/HashBucketLimP4.h:345-353):
        the item creator runs FIRST, the bucket's metadata (mShortHashes[count], i.e. the occupancy of the slot) is written
        only after it has succeeded.  rCount models the number of occupied slots derived from mShortHashes. ------------- *)
Definition bucket_add_inplace (item_creator : loc -> M unit) : M unit :=
  items <- getr rItems ;; cnt <- getr rCount ;;
  item_creator (items, cnt) ;;
  setr rCount (S cnt).
(* the seeded ordering: slot marked occupied before the creator runs *)
Definition bucket_add_inplace_premature (item_creator : loc -> M unit) : M unit :=
  items <- getr rItems ;; cnt <- getr rCount ;;
  setr rCount (S cnt) ;;
  item_creator (items, cnt).

Theorem bucket_add_inplace_spec : forall creator fp P R s,
  exec_spec (creator (regs (hp s) rItems, regs (hp s) rCount)) fp P R -> P (hp s) ->
  wp (bucket_add_inplace creator) s
     (fun _ s' => regs (hp s') rCount = S (regs (hp s) rCount) /\
                  (forall r, r <> rCount -> regs (hp s') r = regs (hp s) r) /\
                  agree (fun l => ~ fp l) (hp s) (hp s'))
     (fun s' => heq (hp s) (hp s')).
Proof.
  intros creator fp P R s Hex HP. unfold bucket_add_inplace.
  apply wp_bind, wp_getr. apply wp_bind, wp_getr. apply wp_bind.
  apply (ex_run _ _ _ _ Hex s HP).
  - intros s' H'. exact H'.
  - intros s1 Ag Hr HR. apply wp_setr. intros s2 H2. split; [|split].
    + rewrite (hq_regs _ _ H2), <- (Hr rCount). apply regs_hsetr_same.
    + intros r Hn. rewrite (hq_regs _ _ H2), regs_hsetr_other by auto. apply Hr.
    + destruct Ag as [Am Aa Ab An]. destruct H2 as [Hm Ha Hb Hn _]. split; intros; simpl in *.
      * rewrite Hm. auto. * rewrite Ha; auto. * rewrite Hb; auto. * congruence.
Qed.

Definition bucket_demo_heap : heap :=
  mkH (fun l => if loc_eqb l (0, 0) then Live 7 else if loc_eqb l (1, 0) then Live 100 else Raw)
      (fun b => b <? 2) (fun b => if b =? 0 then 1 else 2) 2
      (fun r => if r =? rItems then 1 else if r =? rCount then 1 else if r =? rCap then 2 else 0).
Lemma bucket_add_inplace_premature_leaves_slot_marked :
  exists s', bucket_add_inplace_premature (creator_copy (0, 0)) (mkS bucket_demo_heap [true] []) = (Exn, s') /\
             regs (hp s') rCount = 2 /\ mem (hp s') (1, 1) = Raw.
Proof. eexists. split; [vm_compute; reflexivity|]. split; reflexivity. Qed.
Lemma bucket_add_inplace_same_run_ok :
  exists s', bucket_add_inplace (creator_copy (0, 0)) (mkS bucket_demo_heap [true] []) = (Exn, s') /\ regs (hp s') rCount = 1.
Proof. eexists. split; [vm_compute; reflexivity|]. reflexivity. Qed.

(* BucketOpenN1::AddCrt (details/HashBucketOpenN1.h:122-135, also BucketOpen8) and BucketOpen2N2::AddCrt
   (details/HashBucketOpen2N2.h:144-165) have the same shape: the items live inline in the bucket, the item creator runs first, the
   short hash of the slot and the count/state byte are written only afterwards.  (For OpenN1 with maxCount - 1 items the state byte
   IS the last short hash: writing it early makes the bucket report itself full.)  rCount = the count derived from that metadata. *)
Definition open_bucket_add := bucket_add_inplace.
Definition open_bucket_add_premature := bucket_add_inplace_premature.
