(* C01 -- executable L1 model of momo::HashSet / HashMap (HashSet.h), parametric in the bucket kind.
   Self-contained (Stdlib only) so that other properties can reuse it.

   The model mirrors what the code DOES:
     bucket   = items in the order of Bucket::GetBounds (new items appended at the end, Remove moves the
                LAST item of the bucket into the hole), the sticky WasFull flag, the encoded max-probe state
     table    = one HashSetBuckets generation: logCount + 2^logCount buckets
     hset     = the chain mBuckets -> mNextBuckets -> ... (newest first), mCount, mCapacity
   Section parameters = everything that differs between bucket kinds / hash functions:
     h (ARBITRARY hash), cap (Bucket::maxCount), wf0 (WasFull of a cleared bucket), start / next
     (GetStartBucketIndex / GetNextBucketIndex), the max-probe encoder (B, b0, decode, upd_bound),
     the growth policy (logStart, calcCapacity, shift, maxLog). *)
From Coq Require Import ZArith List Lia Bool.
Import ListNotations.
Local Open Scope Z_scope.

Definition item : Type := (Z * Z)%type.      (* key , value (for sets: the part of the key ignored by ==/hash) *)

Fixpoint upd_nth {A} (n : nat) (x : A) (l : list A) : list A :=
  match l, n with
  | [], _ => []
  | _ :: r, O => x :: r
  | a :: r, S n' => a :: upd_nth n' x r
  end.

(* Bucket::Find: first item whose key is equal; returns position (in Bounds order) and value *)
Fixpoint bfind (k : Z) (l : list item) (i : nat) : option (nat * Z) :=
  match l with
  | [] => None
  | (k', v) :: r => if Z.eqb k k' then Some (i, v) else bfind k r (S i)
  end.

(* Bucket::Remove(iter): itemReplacer(items[count-1], *iter); --count *)
Definition bremove (pos : nat) (l : list item) : list item :=
  match rev l with
  | [] => []
  | z :: _ => let l' := removelast l in
              if Nat.eqb pos (length l') then l' else upd_nth pos z l'
  end.

Definition bsetval (pos : nat) (v : Z) (l : list item) : list item :=
  match nth_error l pos with
  | Some (k, _) => upd_nth pos (k, v) l
  | None => l
  end.

Inductive out : Type :=
| RBool (b : bool) | ROpt (o : option Z) | RList (l : list item) | RNum (z : Z) | RExn | RUnit.

Inductive op : Type :=
| OInsert (k v : Z) (fail : option nat)   (* fail = Some n: the n+1-th item relocation throws (hash / move / alloc) *)
| OFind (k : Z)
| ORemove (k : Z)
| OSetVal (k v : Z)                       (* assign through the found position (map value / ResetKey with an equal key) *)
| OReserve (n : Z) (fail : option nat)
| OClear (shrink : bool)
| OTraverse
| OCount
| ORemoveIf (m r : Z)                     (* Remove(filter) with filter(k) = (k mod m == r): the iterator loop *)
| OCopy                                   (* copy constructor + swap *)
| OAddAt (k v : Z)                        (* pos = Find(k) failed; Add(pos, item): pvAdd with the hash code kept in the position *)
| OInsertNoMem (k v : Z)                  (* insert while the allocation of a new bucket array is refused (bad_alloc):
                                             HashSetSettings::overloadIfCannotGrow -> pvAddNogrow on the existing table *)
| OInsertFail (k v : Z).                  (* InsertCrt / Insert whose item creator (or the key's copy constructor) throws, possibly after
                                             writing the key bytes: strong guarantee -- nothing may change, nothing of the item may be visible *)

(* operations on a pair of containers a, b plus one ExtractedItem holder *)
Inductive wop : Type :=
| WA (o : op) | WB (o : op)     (* an operation on a / on b *)
| WExtract (k : Z)              (* pos = a.Find(k); if (pos && holder empty) holder = a.Extract(pos)   (pvExtract -> pvRemove) *)
| WInsertExt                    (* a.Insert(std::move(holder)): pvInsert; the holder keeps the item when the key is present *)
| WSwap                         (* a.Swap(b) *)
| WMoveAB                       (* b = std::move(a): b's old contents are destroyed, a becomes the empty moved-from container *)
| WMergeAB.                     (* a.MergeTo(b): every item of a, in iteration order, is extracted into b unless b has the key *)

Section HashModel.
  Variable B : Type.                 (* encoded max-probe state *)
  Variable b0 : B.                   (* after Bucket::Clear / construction *)
  Variable decode : Z -> B -> Z.     (* Bucket::GetMaxProbe(logBucketCount) *)
  Variable upd_bound : B -> Z -> B.  (* Bucket::UpdateMaxProbe(probe) *)
  Variable h : Z -> Z.               (* the hash function: arbitrary *)
  Variable cap : Z.                  (* Bucket::maxCount *)
  Variable unlimited : bool.         (* BucketUnlimP: IsFull() is constantly false *)
  Variable wf0 : bool.               (* Bucket::WasFull() of a cleared bucket *)
  Variable wfThr : Z.                (* WasFull() becomes (and stays) true once the bucket has held wfThr items (<= cap) *)
  Variable start : Z -> Z -> Z.      (* GetStartBucketIndex hashCode bucketCount *)
  Variable next : Z -> Z -> Z -> Z.  (* GetNextBucketIndex bucketIndex bucketCount probe *)
  Variable logStart : Z.
  Variable calcCapacity : Z -> Z.    (* HashTraits::CalcCapacity(bucketCount, maxCount) *)
  Variable shift : Z -> Z.           (* HashTraits::GetBucketCountShift(bucketCount, maxCount) *)
  Variable maxLog : Z.               (* Buckets::Create throws length_error above this *)

  Record bucket : Type := mkB { items : list item; wasFull : bool; bound : B }.
  Definition emptyB : bucket := mkB [] wf0 b0.
  Definition blen (b : bucket) : Z := Z.of_nat (length (items b)).
  Definition isFull (b : bucket) : bool := if unlimited then false else cap <=? blen b.

  Record table : Type := mkT { tlog : Z; tbs : list bucket }.
  Definition bcount (t : table) : Z := 2 ^ tlog t.
  Definition getb (t : table) (i : Z) : bucket := nth (Z.to_nat i) (tbs t) emptyB.
  Definition setb (t : table) (i : Z) (b : bucket) : table := mkT (tlog t) (upd_nth (Z.to_nat i) b (tbs t)).
  Definition newTable (log : Z) : table := mkT log (repeat emptyB (Z.to_nat (2 ^ log))).

  (* ---- HashSet::pvFind(indexCode, buckets, itemPred), HashSet.h:1062 ---- *)
  Fixpoint probe_loop (n : nat) (t : table) (k : Z) (probe idx : Z) (b : bucket) : option (Z * nat * Z) :=
    match n with
    | O => None                                       (* probe > maxProbe *)
    | S n' =>
      if wasFull b then
        let idx' := next idx (bcount t) probe in
        let b' := getb t idx' in
        match bfind k (items b') 0 with
        | Some (pos, v) => Some (idx', pos, v)
        | None => probe_loop n' t k (probe + 1) idx' b'
        end
      else None
    end.

  Definition tfind (t : table) (k : Z) : option (Z * nat * Z) :=
    let i0 := start (h k) (bcount t) in
    let b := getb t i0 in
    match bfind k (items b) 0 with
    | Some (pos, v) => Some (i0, pos, v)
    | None => probe_loop (Z.to_nat (decode (tlog t) (bound b))) t k 1 i0 b
    end.

  (* ---- HashSet::pvAddNogrow, HashSet.h:1119 ---- *)
  Fixpoint add_loop (n : nat) (t : table) (probe idx : Z) : option (Z * Z) :=
    if isFull (getb t idx) then
      match n with
      | O => None                                     (* throw "Hash table is full" *)
      | S n' => add_loop n' t (probe + 1) (next idx (bcount t) (probe + 1))
      end
    else Some (idx, probe).

  Definition tadd (t : table) (kv : item) : option table :=
    let i0 := start (h (fst kv)) (bcount t) in
    match add_loop (Z.to_nat (bcount t - 1)) t 0 i0 with
    | None => None
    | Some (idx, probe) =>
      let b := getb t idx in
      let its := items b ++ [kv] in
      let t1 := setb t idx (mkB its (wasFull b || (wfThr <=? Z.of_nat (length its))) (bound b)) in
      let hb := getb t1 i0 in
      Some (setb t1 i0 (mkB (items hb) (wasFull hb) (upd_bound (bound hb) probe)))
    end.

  Definition tremove (t : table) (idx : Z) (pos : nat) : table :=
    let b := getb t idx in setb t idx (mkB (bremove pos (items b)) (wasFull b) (bound b)).

  Definition tsetval (t : table) (idx : Z) (pos : nat) (v : Z) : table :=
    let b := getb t idx in setb t idx (mkB (bsetval pos v (items b)) (wasFull b) (bound b)).

  (* ---- the container ---- *)
  Record hset : Type := mkH { gens : list table; count : Z; capacity : Z }.
  Definition hinit : hset := mkH [] 0 0.

  (* HashSet::pvFind(key): generations newest first *)
  Fixpoint gfind (gs : list table) (k : Z) (gi : nat) : option (nat * Z * nat * Z) :=
    match gs with
    | [] => None
    | t :: r => match tfind t k with
                | Some (idx, pos, v) => Some (gi, idx, pos, v)
                | None => gfind r k (S gi)
                end
    end.
  Definition hfind (s : hset) (k : Z) : option (nat * Z * nat * Z) :=
    if count s =? 0 then None else gfind (gens s) k 0.

  (* one full traversal GetBegin() .. GetEnd(): newest generation first, buckets 0.., items of a bucket last to first *)
  Definition ttraverse (t : table) : list item := flat_map (fun b => rev (items b)) (tbs t).
  Definition traverse (s : hset) : list item := flat_map ttraverse (gens s).

  (* ---- pvRelocateItems, HashSet.h:1266: oldest generation first, buckets 0.., items last to first,
          each item pvAddNogrow'ed to the newest table and then removed from the old bucket.
          bud = how many item relocations succeed before one throws (None: never). ---- *)
  Definition bud_zero (bud : option nat) : bool := match bud with Some O => true | _ => false end.
  Definition bud_dec (bud : option nat) : option nat := match bud with Some (S n) => Some n | x => x end.

  Fixpoint reloc_items (its : list item) (nw : table) (bud : option nat) : list item * table * option nat * bool :=
    match its with
    | [] => ([], nw, bud, true)
    | kv :: rest =>
      if bud_zero bud then (its, nw, bud, false)
      else match tadd nw kv with
           | None => (its, nw, bud, false)
           | Some nw' => reloc_items rest nw' (bud_dec bud)
           end
    end.

  Fixpoint reloc_buckets (bs : list bucket) (nw : table) (bud : option nat) : list bucket * table * option nat * bool :=
    match bs with
    | [] => ([], nw, bud, true)
    | b :: rest =>
      match reloc_items (rev (items b)) nw bud with
      | (rem, nw1, bud1, ok) =>
        let b' := mkB (rev rem) (wasFull b) (bound b) in
        if ok then
          match reloc_buckets rest nw1 bud1 with
          | (rest', nw2, bud2, ok2) => (b' :: rest', nw2, bud2, ok2)
          end
        else (b' :: rest, nw1, bud1, false)
      end
    end.

  Fixpoint reloc_gens (olds : list table) (nw : table) (bud : option nat) : list table * table * option nat * bool :=
    match olds with
    | [] => ([], nw, bud, true)
    | g :: older =>
      match reloc_gens older nw bud with
      | (older', nw1, bud1, ok1) =>
        if ok1 then
          match reloc_buckets (tbs g) nw1 bud1 with
          | (bs', nw2, bud2, ok2) => if ok2 then ([], nw2, bud2, true) else ([mkT (tlog g) bs'], nw2, bud2, false)
          end
        else (g :: older', nw1, bud1, false)
      end
    end.

  Definition relocate (gs : list table) (bud : option nat) : list table :=
    match gs with
    | [] => []
    | [t] => [t]
    | nw :: olds => match reloc_gens olds nw bud with (olds', nw', _, _) => nw' :: olds' end
    end.

  (* pvGetNewLogBucketCount *)
  Definition newLog (gs : list table) : Z :=
    match gs with [] => logStart | t :: _ => tlog t + shift (bcount t) end.

  (* Reserve / pvAddGrow: ++newLogBucketCount until the capacity suffices *)
  Fixpoint reserve_log (fuel : nat) (nl n : Z) : option Z :=
    if n <=? calcCapacity (2 ^ nl) then Some nl
    else match fuel with O => None | S f => reserve_log f (nl + 1) n end.

  (* pvAdd (after pvFind said "absent") *)
  Definition hadd (s : hset) (kv : item) (bud : option nat) : option hset :=
    if count s <? capacity s then
      match gens s with
      | [] => None
      | t :: r => match tadd t kv with
                  | None => None
                  | Some t' => Some (mkH (relocate (t' :: r) bud) (count s + 1) (capacity s))
                  end
      end
    else
      (* pvAddGrow (since 7a001ad): while (CalcCapacity(1 << newLog) <= mCount) ++newLog;  then Buckets::Create (length_error) *)
      match reserve_log 64 (newLog (gens s)) (count s + 1) with
      | None => None
      | Some nl =>
        if maxLog <? nl then None
        else match tadd (newTable nl) kv with
             | None => None
             | Some t' => Some (mkH (relocate (t' :: gens s) bud) (count s + 1) (calcCapacity (2 ^ nl)))
             end
      end.

  (* pvAdd when Buckets::Create throws bad_alloc: with buckets -> overload the existing newest table; without -> rethrow *)
  Definition hadd_nomem (s : hset) (kv : item) : option hset :=
    if count s <? capacity s then hadd s kv None
    else match gens s with
         | [] => None
         | t :: r => match tadd t kv with
                     | None => None
                     | Some t' => Some (mkH (relocate (t' :: r) None) (count s + 1) (capacity s))
                     end
         end.

  (* Reserve: ++newLogBucketCount until the capacity suffices *)
  Definition hreserve (s : hset) (n : Z) (bud : option nat) : option hset :=
    if n <=? capacity s then Some s
    else match reserve_log 64 (newLog (gens s)) n with
         | None => None
         | Some nl => if maxLog <? nl then None
                      else Some (mkH (relocate (newTable nl :: gens s) bud) (count s) (calcCapacity (2 ^ nl)))
         end.

  Definition clearT (t : table) : table := mkT (tlog t) (map (fun _ => emptyB) (tbs t)).

  Definition hclear (s : hset) (shrink : bool) : hset :=
    match gens s with
    | [] => s
    | t :: _ => if shrink then mkH [] 0 0 else mkH [clearT t] 0 (capacity s)
    end.

  Definition upd_gen (gs : list table) (gi : nat) (f : table -> table) : list table :=
    match nth_error gs gi with Some t => upd_nth gi (f t) gs | None => gs end.

  (* copy constructor: smallest table from logStart whose capacity suffices, pvAddNogrow of every item in traversal order *)
  Fixpoint copy_log (fuel : nat) (l n : Z) : option Z :=
    if n <=? calcCapacity (2 ^ l) then Some l
    else match fuel with O => None | S f => copy_log f (l + 1) n end.
  Fixpoint add_all (its : list item) (t : table) : option table :=
    match its with
    | [] => Some t
    | kv :: r => match tadd t kv with None => None | Some t' => add_all r t' end
    end.
  Definition hcopy (s : hset) : option hset :=
    if count s =? 0 then Some hinit
    else match copy_log 64 logStart (count s) with
         | None => None
         | Some l => if maxLog <? l then None else
                     match add_all (traverse s) (newTable l) with
                     | None => None
                     | Some t => Some (mkH [t] (count s) (calcCapacity (2 ^ l)))
                     end
         end.

  (* ---- HashSetConstIterator as a machine (HashSet.h:349-383) ----
     state = (generation index = which mBuckets of the chain, bucket index, position of bucketIter inside Bounds); None = end.
     pvInc : if (bucketIter != bounds.begin) --bucketIter; else pvMove();
     pvMove: ++bucketIndex until a non-empty bucket (iterator = its last item); at the end of the table go to
             mNextBuckets with ptReset(0, bounds(0).end) and pvInc again; no further generation -> end. *)
  Definition iter : Type := option (nat * nat * nat).

  Fixpoint scan (l : list bucket) (bi : nat) : option (nat * nat) :=
    match l with
    | [] => None
    | b :: r => match items b with [] => scan r (S bi) | _ :: _ => Some (bi, Nat.pred (length (items b))) end
    end.

  Fixpoint first_in_gens (gs : list table) (gi : nat) : iter :=
    match gs with
    | [] => None
    | t :: r => match scan (tbs t) 0 with Some (bi, p) => Some (gi, bi, p) | None => first_in_gens r (S gi) end
    end.

  Definition it_begin (s : hset) : iter := if count s =? 0 then None else first_in_gens (gens s) 0.

  Definition it_get (s : hset) (it : iter) : option item :=
    match it with
    | None => None
    | Some (gi, bi, p) =>
      match nth_error (gens s) gi with
      | None => None
      | Some t => match nth_error (tbs t) bi with None => None | Some b => nth_error (items b) p end
      end
    end.

  (* operator++ = pvInc on the current position *)
  Definition it_next (s : hset) (it : iter) : iter :=
    match it with
    | None => None
    | Some (gi, bi, S p) => Some (gi, bi, p)
    | Some (gi, bi, O) =>
      match nth_error (gens s) gi with
      | None => None
      | Some t => match scan (skipn (S bi) (tbs t)) (S bi) with
                  | Some (bi', p') => Some (gi, bi', p')
                  | None => first_in_gens (skipn (S gi) (gens s)) (S gi)
                  end
      end
    end.

  (* Remove(iter): Bucket::Remove moves the last item of the bucket into the hole and returns the same bucketIter;
     the returned iterator is constructed from it with pvInc, i.e. it is operator++ evaluated in the NEW state *)
  Definition it_remove (s : hset) (it : iter) : hset * iter :=
    match it with
    | None => (s, None)
    | Some (gi, bi, p) =>
      let s' := mkH (upd_gen (gens s) gi (fun t => tremove t (Z.of_nat bi) p)) (count s - 1) (capacity s) in
      (s', it_next s' it)
    end.

  Fixpoint it_collect (fuel : nat) (s : hset) (it : iter) : list item :=
    match fuel with
    | O => []
    | S f => match it_get s it with
             | None => []
             | Some x => x :: it_collect f s (it_next s it)
             end
    end.

  (* Remove(filter) as the code's loop:  iter = GetBegin(); while (iter) { if (filter(item)) iter = Remove(iter); else ++iter; }
     c counts the Remove(iter) calls (the result initCount - GetCount()) *)
  Fixpoint rf_loop (fuel : nat) (p : item -> bool) (s : hset) (it : iter) (c : Z) : hset * Z :=
    match fuel with
    | O => (s, c)
    | S f => match it_get s it with
             | None => (s, c)
             | Some x => if p x then match it_remove s it with (s', it') => rf_loop f p s' it' (c + 1) end
                         else rf_loop f p s (it_next s it) c
             end
    end.
  Definition hremove_if_m (s : hset) (p : item -> bool) : hset * Z :=
    rf_loop (length (traverse s)) p s (it_begin s) 0.

  Definition step (s : hset) (o : op) : hset * out :=
    match o with
    | OInsert k v bud =>
      match hfind s k with
      | Some _ => (s, RBool false)
      | None => match hadd s (k, v) bud with Some s' => (s', RBool true) | None => (s, RExn) end
      end
    | OFind k => (s, ROpt (match hfind s k with Some (_, _, _, v) => Some v | None => None end))
    | ORemove k =>
      match hfind s k with
      | Some (gi, idx, pos, _) => (mkH (upd_gen (gens s) gi (fun t => tremove t idx pos)) (count s - 1) (capacity s), RBool true)
      | None => (s, RBool false)
      end
    | OSetVal k v =>
      match hfind s k with
      | Some (gi, idx, pos, _) => (mkH (upd_gen (gens s) gi (fun t => tsetval t idx pos v)) (count s) (capacity s), RBool true)
      | None => (s, RBool false)
      end
    | OReserve n bud => match hreserve s n bud with Some s' => (s', RUnit) | None => (s, RExn) end
    | OClear shrink => (hclear s shrink, RUnit)
    | OTraverse => (s, RList (if count s =? 0 then [] else traverse s))
    | OCount => (s, RNum (count s))
    | ORemoveIf m r => match hremove_if_m s (fun kv => Z.eqb (fst kv mod m) r) with (s', c) => (s', RNum c) end
    | OCopy => match hcopy s with Some s' => (s', RUnit) | None => (s, RExn) end
    | OAddAt k v =>
      match hfind s k with
      | Some _ => (s, RBool false)
      | None => match hadd s (k, v) None with Some s' => (s', RBool true) | None => (s, RExn) end
      end
    | OInsertNoMem k v =>
      match hfind s k with
      | Some _ => (s, RBool false)
      | None => match hadd_nomem s (k, v) with Some s' => (s', RBool true) | None => (s, RExn) end
      end
    | OInsertFail k v =>       (* pvInsert: a present key returns before the creator runs; otherwise the creator throws inside
                                  Bucket::AddCrt (pvAddNogrow, or pvAddGrow which then destroys the new table) *)
      match hfind s k with
      | Some _ => (s, RBool false)
      | None => (s, RExn)
      end
    end.

  Fixpoint run (s : hset) (os : list op) : hset * list out :=
    match os with
    | [] => (s, [])
    | o :: r => match step s o with (s1, x) => match run s1 r with (s2, xs) => (s2, x :: xs) end end
    end.

  (* ---- two containers + an extracted-item holder ---- *)
  Record world : Type := mkW { wa : hset; wb : hset; wext : option item }.
  Definition winit : world := mkW hinit hinit None.

  (* pvMergeTo: iter = GetBegin(); while (iter) { if (!dst.InsertCrt(key, extract(iter)).inserted) ++iter; }
     where the creator's extraction is iter = pvExtract(iter, ...) = Remove(iter); an exception of the destination's insert
     stops the loop (basic guarantee) *)
  Fixpoint merge_m (fuel : nat) (a b : hset) (it : iter) : hset * hset * bool :=
    match fuel with
    | O => (a, b, true)
    | S f => match it_get a it with
             | None => (a, b, true)
             | Some (k, v) =>
               match hfind b k with
               | Some _ => merge_m f a b (it_next a it)
               | None => match hadd b (k, v) None with
                         | None => (a, b, false)
                         | Some b' => match it_remove a it with (a', it') => merge_m f a' b' it' end
                         end
               end
             end
    end.

  Definition wstep (w : world) (o : wop) : world * out :=
    match o with
    | WA o => match step (wa w) o with (a', x) => (mkW a' (wb w) (wext w), x) end
    | WB o => match step (wb w) o with (b', x) => (mkW (wa w) b' (wext w), x) end
    | WExtract k =>
      match wext w with
      | Some _ => (w, RBool false)
      | None => match hfind (wa w) k with
                | Some (_, _, _, v) => (mkW (fst (step (wa w) (ORemove k))) (wb w) (Some (k, v)), RBool true)
                | None => (w, RBool false)
                end
      end
    | WInsertExt =>
      match wext w with
      | None => (w, RBool false)
      | Some (k, v) =>
        match step (wa w) (OInsert k v None) with
        | (a', RBool true) => (mkW a' (wb w) None, RBool true)
        | (a', x) => (mkW a' (wb w) (wext w), x)
        end
      end
    | WSwap => (mkW (wb w) (wa w) (wext w), RUnit)
    | WMoveAB => (mkW hinit (wa w) (wext w), RUnit)
    | WMergeAB =>
      match merge_m (length (traverse (wa w))) (wa w) (wb w) (it_begin (wa w)) with
      | (a', b', ok) => (mkW a' b' (wext w), if ok then RUnit else RExn)
      end
    end.

  Fixpoint wrun (w : world) (os : list wop) : world * list out :=
    match os with
    | [] => (w, [])
    | o :: r => match wstep w o with (w1, x) => match wrun w1 r with (w2, xs) => (w2, x :: xs) end end
    end.

  (* shape observation used by the correspondence stage (per generation: log, per bucket: keys in Bounds order, WasFull, decoded bound) *)
  Definition shape (s : hset) : list (Z * list (list Z * bool * Z)) :=
    map (fun t => (tlog t, map (fun b => (map fst (items b), wasFull b, decode (tlog t) (bound b))) (tbs t))) (gens s).

End HashModel.
