"""C12 - growth reusing stored hash bits places elements where a full rehash would.
tie: T-gen (cxx2coq on BucketOpen2N2<3,true>, BucketLimP4<4,.,true>, BucketOne, BucketBase) + translator validation
against the real functions (two harness builds: LimP4 hashCount 4 and 6) + real-bucket scenario runs (p4seq);
oracle: the property predicate on the real buckets (python spec of the known bits) and on the real HashSet with
slow-hash keys growing through several doublings (Find of every key, bit-exact reconstruction of every stored element,
number of full-hash recomputations)."""
import os

GEN = ['gen_base.json', 'gen_open2n2.json', 'gen_o2set.json', 'gen_o2mp.json', 'gen_limp4.json', 'gen_limp4_add.json', 'gen_limp4_add16.json', 'gen_ptr32.json', 'gen_ptr48.json', 'gen_ptr64.json', 'gen_one.json', 'gen_hs_find.json', 'gen_hs_findin.json', 'gen_hs_add.json', 'gen_hs_reloc.json', 'gen_hs_grow.json', 'gen_policy_o2.json']
M64 = (1 << 64) - 1

def qof(L): return (L + 6) // 8
def known(q, h):
    lb = 8 * q + 1
    low = h if lb >= 64 else h & ((1 << lb) - 1)
    return low | ((h >> 57) << 57)
def tri(p): return p * (p + 1) // 2
def o2_pack(h, L, probe):
    ps = (L + 7) % 8
    return (((h >> L) << ps) | probe) & 255 if probe < (1 << ps) else 255
def p4_pack(h, L, probe):
    ps = (L + 6) % 8
    return (128 | (((h >> L) << ps) & 255) | (probe & 255)) if probe < (1 << ps) else 255

def edge_hashes(r):
    e = [0, 1, 2, M64, M64 - 1, 1 << 63, (1 << 63) - 1, (1 << 57) - 1, 1 << 57, 0x7F << 57, (1 << 57) | 1]
    for k in range(0, 64, 3):
        e += [(1 << k) - 1, 1 << k, ((1 << k) + 1) & M64, (0xFF << k) & M64, M64 ^ ((0xFF << k) & M64)]
    return e

def rnd_hash(r, edges):
    t = r.below(8)
    if t == 0: return r.choice(edges)
    if t == 1: return r.next() & ((1 << r.range(1, 64)) - 1)
    if t == 2: return (r.next() | ((0xFF << r.below(57)) & M64)) & M64        # a byte of ones somewhere
    if t == 3: return r.next() & ~((0xFF << r.below(57)) & M64) & M64         # a byte of zeros somewhere
    return r.next()

def rnd_probe(r, L, ps):
    t = r.below(8)
    bc = 1 << L
    c = [0, 1, (1 << ps) - 1, 1 << ps, (1 << ps) + 1, bc - 1, bc - 2][t] if t < 7 else r.below(bc)
    return min(max(c, 0), max(bc - 1, 0))

def rnd_L(r):
    t = r.below(6)
    if t == 0: return r.choice([0, 1, 2, 3, 9, 10, 11, 17, 18, 25, 26, 33, 34, 41, 42, 49, 50, 56, 57, 58, 59, 62, 63])
    if t == 1: return r.range(0, 63)
    return r.range(0, 57)

def rnd_newL(r, L):
    t = r.below(6)
    if t == 0: return min(63, L + 8)
    if t == 1: return min(63, L + 1)
    if t == 2: return min(63, (qof(L) * 8 + 1))          # last size of the same class
    if t == 3: return min(63, (qof(L) * 8 + 2))          # first size of the next class
    return r.range(L, min(63, L + 9))

def gen_cases(ctx, scale):
    """returns (cases for both models/harness builds: list of (hashCount or 0, line, expected-or-None))"""
    r = ctx.rng; edges = edge_hashes(r); out = []
    n = 9000 * scale
    # ---- Open2N2
    for i in range(n):
        L = rnd_L(r); h = rnd_hash(r, edges); ps = (L + 7) % 8; probe = rnd_probe(r, L, ps)
        s1 = r.choice([0, 1, 2, 3, 4 + r.below(3), 252 + r.below(3), r.below(256)])
        sh = [r.choice([128, r.below(128), r.below(256)]) for _ in range(3)]
        hp = [r.choice([255, r.below(256)]) for _ in range(3)]
        out.append((0, 'o2add %d %s %s %d %d %d' % (s1, ' '.join(map(str, sh)), ' '.join(map(str, hp)), h, L, probe), None))
    for i in range(n // 3):
        s1 = r.below(256); sh = [r.below(256) for _ in range(3)]; hp = [r.below(256) for _ in range(3)]
        out.append((0, 'o2rem %d %s %s %d' % (s1, ' '.join(map(str, sh)), ' '.join(map(str, hp)), r.below(3)), None))
    for i in range(n):
        L = rnd_L(r); h = rnd_hash(r, edges); ps = (L + 7) % 8; probe = rnd_probe(r, L, ps); idx = r.below(3)
        newL = rnd_newL(r, L); full = r.next()
        BYTES = [0, 1, 127, 128, 129, 254, 255]
        sh = [r.choice(BYTES + [r.below(256)] * 4) for _ in range(3)]; hp = [r.choice(BYTES + [r.below(256)] * 4) for _ in range(3)]
        if r.chance(2, 3):   # a slot consistent with a real insertion of (h, L, probe): the property applies
            bidx = ((h & ((1 << L) - 1)) + tri(probe)) & ((1 << L) - 1)
            sh[idx] = h >> 57; hp[idx] = o2_pack(h, L, probe)
            exp = None
            if newL > L:
                exp = full if (hp[idx] == 255 or qof(L) != qof(newL)) else known(qof(L), h)
            out.append((0, 'o2get %s %s %d %d %d %d %d' % (' '.join(map(str, sh)), ' '.join(map(str, hp)), full, bidx, L, newL, idx), exp))
        else:
            bidx = r.choice([0, (1 << L) - 1, r.below(1 << L), r.below(1 << L)])
            out.append((0, 'o2get %s %s %d %d %d %d %d' % (' '.join(map(str, sh)), ' '.join(map(str, hp)), full, bidx, L, newL, idx), None))
    # ---- LimP4 (hashCount 4 and 6)
    for H in (4, 6, 8):
        for i in range(n // 2):
            L = rnd_L(r); h = rnd_hash(r, edges); ps = (L + 6) % 8; probe = rnd_probe(r, L, ps)
            s = [r.choice([255, r.below(128), r.below(256)]) for _ in range(H)]
            out.append((H, 'p4set %d %s %d %d %d %d' % (H, ' '.join(map(str, s)), r.below(4), h, L, probe), None))
        for i in range(n // 3):
            c = r.range(2, 4)
            s = [r.below(128) if j < c else r.choice([255, 128 + r.below(128)]) for j in range(H)]
            if r.chance(1, 6): s = [r.below(256) for _ in range(H)]
            out.append((H, 'p4rem %d %s %d' % (H, ' '.join(map(str, s)), r.below(4)), None))
        for i in range(n // 2):
            L = rnd_L(r); h = rnd_hash(r, edges); ps = (L + 6) % 8; probe = rnd_probe(r, L, ps); idx = r.below(4)
            newL = rnd_newL(r, L); full = r.next()
            s = [r.choice([0, 1, 127, 128, 129, 254, 255, 255] + [r.below(256)] * 6) for _ in range(H)]
            if r.chance(2, 3) and H - 1 - idx > idx:
                bidx = ((h & ((1 << L) - 1)) + probe) & ((1 << L) - 1)
                s[idx] = h >> 57; s[H - 1 - idx] = p4_pack(h, L, probe)
                exp = full if (s[H - 1 - idx] == 255 or qof(L) != qof(newL)) else known(qof(L), h)
                out.append((H, 'p4get %d %s %d %d %d %d %d' % (H, ' '.join(map(str, s)), full, bidx, L, newL, idx), exp))
            else:
                out.append((H, 'p4get %d %s %d %d %d %d %d' % (H, ' '.join(map(str, s)), full, r.below(1 << L), L, newL, idx), None))
        # real bucket, real pool memory, reachable histories
        for i in range(n // 6):
            L = rnd_L(r); ops = []; items = []   # items: (h, probe)
            for _ in range(r.range(3, 14)):
                t = r.below(10)
                if t < 5 and len(items) < 4:
                    h = rnd_hash(r, edges); probe = rnd_probe(r, L, (L + 6) % 8)
                    ops.append('a %d %d %d' % (h, L, probe)); items.append((h, probe))
                elif t < 7 and items:
                    k = r.below(len(items)); ops.append('r %d' % k)
                    items[k] = items[-1]; items.pop()
                elif items:
                    k = r.below(len(items)); h, probe = items[k]
                    bidx = ((h & ((1 << L) - 1)) + probe) & ((1 << L) - 1)
                    ops.append('g %d %d %d %d %d' % (k, bidx, L, rnd_newL(r, L), h))   # full getter returns the true hash
            # expected for every g: a value that agrees with the true hash on the known bits (checked by the oracle below)
            out.append((H, 'p4seq %d %s' % (H, ' '.join(ops)), 'seq'))
    # ---- table level: the L1 relocation model (TableO2.migrate over generated leaves) against the real HashSet<Open2N2>
    for i in range(60 * scale):
        L = r.choice([0, 1, 2, 3, 4, 5, 6, 2, 3, 4]); newL = min(10, L + r.choice([1, 1, 2, 3, 7, 8]))
        cap = int((1 << L) * 3 / 12.0 * 11.0)
        nkeys = r.range(max(1, cap // 2), cap) if cap > 0 else 0
        lowbits = r.choice([L, newL, max(0, L - 1), 2, 12])
        hs = []
        for _ in range(nkeys):
            t = r.below(4)
            h = rnd_hash(r, edges)
            if t == 0: h = (h & ~((1 << 16) - 1) & M64) | r.below(1 << lowbits)          # collide in the low bits
            elif t == 1: h = (r.below(1 << lowbits) | (r.next() << 12)) & M64
            hs.append(h)
        if nkeys:
            out.append((0, 'tbl %d %d %s' % (L, newL, ' '.join(map(str, hs))), None))
            # chained generations (throwing hash functor during the first Reserve), removals before growth, call counts
            L1 = L + r.choice([1, 1, 2]); L2 = min(11, L1 + r.choice([1, 2, 6]))
            budget = r.choice([-1, 0, 1, 2, r.below(nkeys + 1), r.below(nkeys + 1)])
            rem = sorted(set(r.range(1, nkeys) for _ in range(r.below(1 + nkeys // 2))))
            hs2 = hs
            if r.chance(1, 2):    # heavy collisions: long displacements -> empty hash-probe bytes -> the full getter is needed -> it can throw
                hs2 = [((h & ~0xFFFF) & M64) | r.below(2) for h in hs]
                budget = r.choice([0, 1, 2, 3, r.below(nkeys + 1)])
            out.append((0, 'tbl2 %d %d %d %d %d %s %s' % (L, L1, L2, budget, len(rem), ' '.join(map(str, rem)), ' '.join(map(str, hs2))), None))
    # LimP4 table level (both hashCount builds): fill, remove, Reserve, compare every bucket incl. memPoolIndex / WasFull and the call count
    for H in (4, 6, 8):
        for i in range(30 * scale):
            L = r.choice([0, 1, 2, 3, 4, 5, 2, 3]); L1 = min(11, L + r.choice([2, 2, 3, 4, 6, 7]))   # LimP4 tables of < 2^20 buckets grow by 2 doublings at least
            cap = (1 << L) * 2
            nk = r.range(max(1, cap // 2), cap)
            lowbits = r.choice([L, L1, max(0, L - 1), 1, 12])
            hs = []
            for _ in range(nk):
                h = rnd_hash(r, edges)
                if r.chance(1, 2): h = (h & ~((1 << 16) - 1) & M64) | r.below(1 << lowbits)
                hs.append(h)
            rem = sorted(set(r.range(1, nk) for _ in range(r.below(1 + nk // 2)))) if r.chance(1, 2) else []
            out.append((H, 'tp4 %d %d %d %d %s %s' % (H, L, L1, len(rem), ' '.join(map(str, rem)), ' '.join(map(str, hs))), None))
            # chained generations for LimP4: throwing hash functor during the first Reserve, then a second Reserve
            L2 = L1 + r.choice([2, 3])
            hs2 = hs if r.chance(1, 2) else [((h & ~0xFFFF) & M64) | r.below(2) for h in hs]
            out.append((H, 'tp4c %d %d %d %d %d %d %s %s' % (H, L, L1, L2, r.choice([-1, 0, 1, 2, r.below(nk + 1)]), len(rem),
                                                         ' '.join(map(str, rem)), ' '.join(map(str, hs2))), None))
    # Find across chained generations: the first Reserve is interrupted by a throwing hash functor and NO second Reserve follows, so
    # the real HashSet::Find has to walk mBuckets and GetNextBuckets(); the F: list (generation : bucket . slot) must match find_gens
    for i in range(16 * scale):
        L = r.choice([1, 2, 3, 4]); L1 = L + r.choice([1, 2]); cap = int((1 << L) * 3 / 12.0 * 11.0)
        nk = r.range(max(2, cap // 2), cap)
        hs = [((rnd_hash(r, edges) & ~0xFFFF) & M64) | r.below(2) for _ in range(nk)] if r.chance(1, 2) else [rnd_hash(r, edges) for _ in range(nk)]
        if L == 1: hs = [rnd_hash(r, edges) for _ in range(nk)]
        out.append((0, 'tbl2 %d %d 0 %d 0 %s' % (L, L1, r.below(3), ' '.join(map(str, hs))), None))
    for H in (4, 6, 8):
        for i in range(8 * scale):
            L = r.choice([0, 1, 2, 3]); L1 = L + r.choice([2, 3]); cap = (1 << L) * 2
            nk = r.range(max(2, cap // 2), cap)
            hs = [((rnd_hash(r, edges) & ~0xFFFF) & M64) | r.below(2) for _ in range(nk)]
            out.append((H, 'tp4c %d %d %d 0 %d 0 %s' % (H, L, L1, r.below(3), ' '.join(map(str, hs))), None))
    # BucketOne table level: fill, remove, Reserve, compare every bucket's hash state / key (the full getter is never called)
    for i in range(40 * scale):
        L = r.choice([1, 2, 3, 4, 5, 6]); L1 = min(11, L + r.choice([1, 1, 2, 3, 6]))
        cap = int((1 << L) / 8.0 * 5.0)
        if cap < 1: continue
        nk = r.range(max(1, cap // 2), cap)
        lowbits = r.choice([L, L1, max(0, L - 1), 1, 12])
        hs = []
        for _ in range(nk):
            h = rnd_hash(r, edges)
            if r.chance(1, 2): h = (h & ~((1 << 16) - 1) & M64) | r.below(1 << lowbits)
            hs.append(h)
        rem = sorted(set(r.range(1, nk) for _ in range(r.below(1 + nk // 2)))) if r.chance(1, 2) else []
        out.append((0, 'tone %d %d %d %s %s' % (L, L1, len(rem), ' '.join(map(str, rem)), ' '.join(map(str, hs))), None))
    # natural growth: the table is filled EXACTLY to its capacity and one more Insert triggers pvAddGrow (the new element is
    # placed in the new table before the old generation is relocated); Open2N2 grows by 1 doubling, LimP4 by 2
    for i in range(14 * scale):
        L = r.choice([0, 1, 2, 3, 4, 5, 1, 2]); cap = int((1 << L) * 3 / 12.0 * 11.0)
        lowbits = r.choice([L, L + 1, max(0, L - 1), 1, 12])
        hs = []
        for _ in range(cap + 1):
            h = rnd_hash(r, edges)
            if r.chance(1, 2): h = (h & ~((1 << 16) - 1) & M64) | r.below(1 << lowbits)
            hs.append(h)
        out.append((0, 'tbl2 %d %d 0 -2 0 %s' % (L, L + 1, ' '.join(map(str, hs))), None))
    for H in (4, 6, 8):
        for i in range(8 * scale):
            L = r.choice([0, 1, 2, 3, 4]); cap = (1 << L) * 2
            lowbits = r.choice([L, L + 2, max(0, L - 1), 1, 12])
            hs = []
            for _ in range(cap + 1):
                h = rnd_hash(r, edges)
                if r.chance(1, 2): h = (h & ~((1 << 16) - 1) & M64) | r.below(1 << lowbits)
                hs.append(h)
            out.append((H, 'tp4c %d %d %d 0 -2 0 %s' % (H, L, L + 2, ' '.join(map(str, hs))), None))
    # growing FROM 2 buckets (probe shift 0: every element needs the full getter -> throwing getter -> chained generations)
    for i in range(12 * scale):
        nk = r.range(2, 5); hs = [rnd_hash(r, edges) for _ in range(nk)]
        L1 = r.choice([2, 3]); L2 = L1 + r.choice([1, 2, 7])
        out.append((0, 'tbl2 1 %d %d %d 0 %s' % (L1, L2, r.below(nk), ' '.join(map(str, hs))), None))
    # chains through 256 -> 512 -> 1024 buckets (the byte written at 512 buckets from a reconstructed code is dead)
    for i in range(2 * scale):
        nk = r.range(150, 400); hs = [r.next() for _ in range(nk)]
        out.append((0, 'tbl2 8 9 %d -1 0 %s' % (r.choice([10, 11]), ' '.join(map(str, hs))), None))
    # ---- BucketOne, BucketBase, small pure functions
    for i in range(n // 6):
        h = rnd_hash(r, edges)
        out.append((0, 'oneadd %d %d' % (r.choice([0, 2, (rnd_hash(r, edges) << 1) & M64]), h), None))
        out.append((0, 'oneget %d %d' % (((h << 1) | 1) & M64, r.next()), h & ~(1 << 63)))
        out.append((0, 'onerem %d' % r.choice([0, 2, ((h << 1) | 1) & M64]), None))
        L = r.range(0, 63)
        out.append((0, 'start %d %d' % (h, L), h & ((1 << L) - 1)))
        out.append((0, 'next %s %d %d %d' % (r.choice(['o2', 'p4']), r.below(1 << L), L, r.below(1 << L)), None))
        out.append((0, 'short %d' % h, None))
    return out

def set_cases(ctx, scale):
    """oracle on the real container: kind mode param startLog ops..."""
    r = ctx.rng; cs = []
    for kind in ('p4', 'o2', 'o8', 'one'):
        cs.append('set %s 0 0 0 i 40 r 7 i 300 r 11 i 1000 r 13 i 100 r 19' % kind)     # identity, crosses classes at 2,10,18
        cs.append('set %s 2 0 0 i 3000 r 13 i 100 r 19 i 500' % kind)
        cs.append('set %s 2 0 4 i 12000' % kind)                                        # natural growth only
        cs.append('set %s 1 3 0 i 150 r 9 r 10 r 11' % kind)                             # heavy collisions: long displacements
        cs.append('set %s 1 9 1 i 120 r 9 r 10 r 17 r 18' % kind)
        cs.append('set %s 5 6 0 i 200 r 9 r 10 r 12 r 18' % kind)
        for j in range(3 * scale):
            mode = r.choice([2, 3, 4, 6, 7, 8]); param = r.below(30); start = r.below(5)
            ops = []
            for _ in range(r.range(2, 7)):
                t = r.below(8)
                if t == 0: ops.append('r %d' % r.range(3, 15 if kind != 'p4' else 14))
                elif t == 1: ops.append('e %d' % r.below(1000))
                elif t == 2: ops.append(r.choice(['k 0', 'm 0', 'x %d' % r.below(1000), 'x %d' % r.below(1000), 'c 0', 'c 1']))   # copy+Swap, move+Swap, Extract+Insert(ExtractedItem&&), Clear
                else: ops.append('i %d' % r.range(1, 1500))
            ops.append('r %d' % r.choice([10, 11, 17, 18, 19]))
            cs.append('set %s %d %d %d %s' % (kind, mode, param, start, ' '.join(ops)))
    # model-growth round: a search bound above 255 (exponent bits of mState[1] in use: > 765 elements with one start bucket), then
    # removals FROM that start bucket (Remove writes the same byte as the bound) and more inserts; every key must still be found
    for kind in ('o2', 'o8'):
        cs.append('set %s 1 20 0 i 900 %s' % (kind, ' '.join(['e 0'] * 40)))     # no growth afterwards: the final pass must find every key
    # audit round: bucket parameters and key categories the quantifier names but the main kinds do not reach
    #   maxCount variants (LimP4<1..3>, Open2N2<1,2>), 4-byte / 16-byte / std::string keys (LimP4 minMemPoolIndex 1 and 2,
    #   BucketOne with a 32-bit state = always recompute), every public operation that can precede a growth
    for kind in ('p4', 'o2', 'o8', 'one', 'p4m1', 'p4m2', 'p4m3', 'o2m1', 'o2m2', 'p4k4', 'p4k16', 'p4s', 'o8s', 'o2k4', 'onek4', 'onek16'):
        cs.append('set %s 2 0 3 i 900 r 11 e 5 e 77 x 3 i 300 k 0 r 13 m 0 i 200 r 19' % kind)
        cs.append('set %s 7 %d 3 i 250 r 9 x 9 r 10 c 0 i 120 r 11 r 18' % (kind, r.below(12)))   # few distinct low bytes: long displacements
        if scale > 1:
            cs.append('set %s 2 0 4 i 12000' % kind)
    # BucketOne tables of fewer than 2 buckets have capacity 0 with the default load factor (MOMO_CHECK in pvAddGrow):
    # start those at 2^3 like HashTraitsStd does; Open2N2/Open8 start at the requested size (1, 2, 4 buckets exist)
    fixed = []
    for c in cs:
        w = c.split()
        if w[1].startswith('one') and int(w[4]) < 3: w[4] = '3'
        fixed.append(' '.join(w))
    return fixed

def check_outputs(ctx, triples, lines):
    """the property predicate on the REAL code's outputs (independent of the Coq model)"""
    bad = []
    for (H, c, exp), out in zip(triples, lines):
        if exp is None:
            # table-level cases: the real HashSet::Find (walking mBuckets and GetNextBuckets()) has to return every key that was
            # inserted and not removed, and no removed key -- whatever growth / throwing hash functor happened in between
            w = c.split(); pos = {'tbl': None, 'tbl2': 5, 'tp4': 4, 'tp4c': 6, 'tone': 3}.get(w[0], -1)
            if pos != -1 and ' F:' in out:
                nrem = int(w[pos]) if pos is not None else 0
                rem = set(map(int, w[pos + 1:pos + 1 + nrem])) if pos is not None else set()
                nkeys = len(w) - ((pos + 1 + nrem) if pos is not None else 3)
                ent = [x for x in out.split(' F:', 1)[1].split(',') if x != '']
                if len(ent) != nkeys:
                    bad.append((c, out, 'HashSet::Find list has %d entries for %d keys' % (len(ent), nkeys)))
                else:
                    for k, x in enumerate(ent, 1):
                        if (x.strip() == '-') != (k in rem):
                            bad.append((c, out, 'HashSet::Find after growth: key %d (hash %s) is %s' % (k, w[len(w) - nkeys + k - 1],
                                        'not found although stored' if x.strip() == '-' else 'found although removed'))); break
                    else:
                        if 'gens=2' in out: ctx.nontrivial.add(c)
            continue
        if exp == 'seq':
            # every `g` of a p4seq passed the true hash as the full getter: the answer must agree with it on the known bits
            ops = c.split()[2:]; outs = out.split(';'); oi = 0; i = 0
            while i < len(ops):
                if ops[i] == 'a': i += 4; oi += 1
                elif ops[i] == 'r': i += 2; oi += 1
                elif ops[i] == 'g':
                    k, bidx, L, newL, h = map(int, ops[i + 1:i + 6]); i += 6
                    try:
                        v = int(outs[oi])
                    except (ValueError, IndexError):
                        bad.append((c, out, 'unparsable p4seq output')); break
                    oi += 1
                    if v != h and (v != known(qof(L), h) or qof(L) != qof(newL)):
                        bad.append((c, out, 'LimP4 bucket history: reconstructed %d is neither the hash %d nor its known bits (L=%d newL=%d)' % (v, h, L, newL))); break
                    if v != h: ctx.nontrivial.add(c)
                else: break
            continue
        if out.strip() != str(exp):
            bad.append((c, out, 'reconstruction differs from the known bits of the hash: expected %s' % exp))
        elif c.startswith(('o2get', 'p4get')) and int(out) != int(c.split()[-5]):
            ctx.nontrivial.add(c)     # reconstruction path taken (answer is not the full getter's value)
    return bad

SETSTAT = {}

def check_sets(ctx, cases, lines):
    bad = []
    for c, out in zip(cases, lines):
        try:
            kv = dict(x.split('=', 1) for x in out.split())
            st = SETSTAT.setdefault(c.split()[1], {'scripts': 0, 'growths': 0, 'class_crossings': 0, 'elements_relocated_from_stored_bits': 0,
                                                   'full_hash_recomputations': 0, 'max_log_bucket_count': 0, 'max_displacement': 0,
                                                   'ops_insert_reserve_remove_clear_copy_move_extract': [0] * 7})
            st['scripts'] += 1; st['growths'] += int(kv['grow']); st['class_crossings'] += int(kv['crossed'])
            st['elements_relocated_from_stored_bits'] += int(kv['reused']); st['full_hash_recomputations'] += int(kv['full'])
            st['max_log_bucket_count'] = max(st['max_log_bucket_count'], int(kv['maxL']))
            st['max_displacement'] = max(st['max_displacement'], int(kv.get('maxdisp', 0)))
            for i, v in enumerate(kv.get('ops', '0,0,0,0,0,0,0').split(',')): st['ops_insert_reserve_remove_clear_copy_move_extract'][i] += int(v)
            if int(kv['notfound']) or int(kv['bitsbad']) or int(kv['fullbad']):
                bad.append((c, out, 'HashSet growth: notfound=%s bitsbad=%s fullbad=%s first=%s' % (kv['notfound'], kv['bitsbad'], kv['fullbad'], kv['first'])))
            if int(kv['grow']) > 0 and int(kv['reused']) > 0 and int(kv['crossed']) > 0:
                ctx.nontrivial.add(c)
        except (ValueError, KeyError):
            bad.append((c, out, 'unparsable implementation output (crash?)'))
    return bad

LOW32 = ('-DC12_LOWMEM', '-DMOMO_MEM_MANAGER_PTR_USEFUL_BIT_COUNT=32', '-no-pie')

def build_harnesses(ctx):
    """three builds: LimP4 hashCount 4 (64-bit PtrState), 6 (48-bit), 8 (32-bit: all momo memory from an mmap(MAP_32BIT)
    arena, non-PIE, never sanitized because the sanitizer runtimes own the low address space)"""
    res = ctx.cxx_many([('harness.cpp', 'harness', ('-DC12_EXPECT_HC=4',)),
                        ('harness.cpp', 'harness48', ('-DMOMO_MEM_MANAGER_PTR_USEFUL_BIT_COUNT=48', '-DC12_EXPECT_HC=6'))])
    ctx.h8 = ctx.cxx('harness.cpp', 'harness32', LOW32 + ('-DC12_EXPECT_HC=8',), sanitize=False)
    if ctx.h8 is None:
        return None, None
    return res.get('harness'), res.get('harness48')

def run_real(ctx, exe, lines, name):
    path = os.path.join(ctx.build, name + '.cases')
    open(path, 'w').write('\n'.join(lines) + '\n')
    rc, out, err = ctx.run_lines([exe], path)
    return rc, out, err

def replay(ctx, rp):
    h4, h6 = build_harnesses(ctx)
    if h4 is None or h6 is None:
        print('harness does not build'); return 2
    case = rp.get('case')
    if not case:
        print('replay has no concrete case (no-failing-input-found): broken stages were', list(rp.get('broken', {}).keys())); return 1
    exe = h6 if rp.get('hashCount') == 6 else (ctx.h8 if rp.get('hashCount') == 8 else h4)
    rc, lines, err = run_real(ctx, exe, [case], 'replay')
    out = lines[0] if lines else err
    print('case:', case, '\nimplementation:', out)
    if case.startswith('set'):
        bad = check_sets(ctx, [case], [out])
    else:
        bad = check_outputs(ctx, [(rp.get('hashCount', 0), case, rp.get('expected'))], [out])
        if rp.get('model') is not None and rp.get('model') != out:
            bad.append((case, out, 'differs from the recorded model output %r' % rp.get('model')))
    if bad:
        print('VIOLATION property=C12 replay=%s' % ctx.replay); return 1
    print('property holds on this case'); return 0

def derive_refine16(ctx):
    """P4A_Refine16.v (AddCrt refinement for the minMemPoolIndex = 1 instantiation Gen_P4A16) is DERIVED from P4A_Refine.v on every
    run by substitution, so it can never go stale: same proof script, other generated module, other template argument."""
    src = open(os.path.join(ctx.cdir, 'P4A_Refine.v')).read()
    head = src[:src.index('(* ---- grow round 3: the generated Remove WITH')]
    t = (head.replace('Gen_P4A.', 'Gen_P4A16.').replace('Gen_P4A ', 'Gen_P4A16 ').replace('mm = 2', 'mm = 1')
             .replace('change (4 =? 2)', 'change (4 =? 1)'))
    for nm in ('p4a_same_leaves', 'p4a_mpi', 'p4a_wasfull', 'p4a_setptr', 'p4a_addcrt_refines'):
        t = t.replace(nm, nm + '16')
    t = t.replace('(* C12, grow round 2:', '(* DERIVED on every run by prop.py from P4A_Refine.v (Gen_P4A -> Gen_P4A16, minMemPoolIndex 2 -> 1): the same proof\n'
                  '   script for the 16-byte-item instantiation.  Do not edit.  C12, grow round 2:')
    t = t.replace('minMemPoolIndex = 2 *)', 'minMemPoolIndex = 1 *)')
    t = t.replace('From C12 Require Import Gen_P4 Gen_P4A16 P4_Model TableP4.', 'From C12 Require Import Gen_P4 Gen_P4A Gen_P4A16 P4_Model TableP4.')
    t += SAME16
    out = os.path.join(ctx.cdir, 'P4A_Refine16.v')
    if not os.path.exists(out) or open(out).read() != t:
        open(out, 'w').write(t)

SAME16 = '''
(* same code: every function of the 16-byte-item instantiation except pvAdd0<minMemPoolIndex> (and AddCrt, which calls it) is
   convertible to the 8-byte-item one *)
Lemma p4a16_same_code :
  Gen_P4A16.pvGetCount = Gen_P4A.pvGetCount /\\ Gen_P4A16.pvCalcShortHash = Gen_P4A.pvCalcShortHash /\\
  Gen_P4A16.pvGetProbeShift = Gen_P4A.pvGetProbeShift /\\ Gen_P4A16.IsFull = Gen_P4A.IsFull /\\
  Gen_P4A16.pvGetMemPoolIndex = Gen_P4A.pvGetMemPoolIndex /\\ Gen_P4A16.WasFull = Gen_P4A.WasFull /\\
  Gen_P4A16.pvSetPtrState = Gen_P4A.pvSetPtrState /\\ Gen_P4A16.pvSetEmpty = Gen_P4A.pvSetEmpty /\\ Gen_P4A16.Clear = Gen_P4A.Clear /\\
  Gen_P4A16.pvSetHashProbe = Gen_P4A.pvSetHashProbe /\\ Gen_P4A16.pvAdd0_max = Gen_P4A.pvAdd0_max /\\
  Gen_P4A16.pvAdd_1 = Gen_P4A.pvAdd_1 /\\ Gen_P4A16.pvAdd_2 = Gen_P4A.pvAdd_2 /\\ Gen_P4A16.pvAdd_3 = Gen_P4A.pvAdd_3 /\\
  Gen_P4A16.Remove = Gen_P4A.Remove.
Proof. repeat split; reflexivity. Qed.
'''

def run(ctx):
    scale = 1 if ctx.quick() else 6
    ctx.trusted += ['tools/cxx2coq.py + clang 14 JSON AST (validated on every run against the real functions)',
                    'extraction: ExtrOcamlBasic only (no Extract Constant), OCaml 4.13.1, zarith for decimal I/O only',
                    'g++ 12 -std=c++17, harness reaches private members via #define private public',
                    'P4_Model.p4_add: hand composition of generated pvGetCount/pvSetHashProbe/pvCalcShortHash standing for the '
                    'metadata effect of BucketLimP4::AddCrt (validated against the real AddCrt on real pool memory: p4seq cases)']
    ctx.assumptions += ['size_t is 64 bit; logBucketCount <= 63 (for 58..63 the stored bits are the whole hash; such tables cannot be allocated, see NOTES.md)',
                        'growth is strict (newLogBucketCount > logBucketCount), as in HashSet::Reserve/pvAddGrow',
                        'probe < bucket count (HashSet::pvAddNogrow throws otherwise); LimP4 hashCount in {4,6,8} (all three are run: 64-, 48- and 32-bit BucketLimP4PtrState)',
                        'L1 hash-table statements (Find after growth for the whole container) are observed by the oracle and carried by the C01 model']
    ctx.regen(GEN)
    derive_refine16(ctx)
    ctx.prove()
    h4, h6 = build_harnesses(ctx)
    if h4 is None or h6 is None:
        ctx.stage('build-harness', False, getattr(ctx, 'last_cxx_error', ''))
        return ctx.finish(rule=RULE)
    # configuration facts printed by each build (class selection itself is proved by static_asserts in harness.cpp)
    cfgs = {}
    for name, exe, hc in (('h4', h4, 4), ('h6', h6, 6), ('h8', ctx.h8, 8)):
        rc, lines, err = run_real(ctx, exe, ['cfg'], 'cfg')
        kv = dict(x.split('=') for x in (lines[0].split() if lines else []))
        cfgs[name] = kv
        okc = kv.get('hashCount') == str(hc) and kv.get('min8') == '2' and kv.get('min16') == '1' and kv.get('one4state') == '4' and kv.get('o8max') == '3'
        ctx.tie_obligations.append({'name': 'configuration %s: hashCount=%d, minMemPoolIndex 2 (8-byte key) / 1 (16-byte key), Open8 -> Open2N2<3,true>' % (name, hc), 'ok': okc})
        if not okc:
            ctx.stage('config-' + name, False, 'unexpected configuration: %r' % kv)
    ctx.coverage['configurations'] = cfgs
    triples = gen_cases(ctx, scale)
    have_model = ctx.stages.get('prove', {}).get('ok') and ctx.stages.get('regen', {}).get('ok') and ctx.extract()
    groups = {'h4': ([t for t in triples if t[0] in (0, 4)], h4), 'h6': ([t for t in triples if t[0] == 6], h6),
              'h8': ([t for t in triples if t[0] == 8], ctx.h8)}
    if have_model:
        for gname, (ts, exe) in groups.items():
            mism, _ = ctx.correspond('translator-validation-' + gname, [t[1] for t in ts], [exe], [ctx.model_exe])
            ctx.tie_obligations.append({'name': 'generated Gallina == real C++ on %d cases (%s)' % (len(ts), gname), 'ok': not mism})
            for (i, c, a, b) in mism[:3]:
                ctx.violation('generated model and implementation disagree', {'case': c, 'impl': a, 'model': b, 'hashCount': ts[i][0],
                              'cmd': 'echo "%s" | build/C12/%s' % (c, os.path.basename(exe))}, found_input=True)
    # the property predicate on the real code (always; this is also the search stage when a proof/tie broke)
    broke = any(not s['ok'] for s in ctx.stages.values())
    if broke:
        ctx.log('a stage broke: searching the implementation for a failing input with the thorough generator')
        more = gen_cases(ctx, 4)
        groups['h4'][0].extend(t for t in more if t[0] in (0, 4)); groups['h6'][0].extend(t for t in more if t[0] == 6)
        groups['h8'][0].extend(t for t in more if t[0] == 8)
    bad = []
    for gname, (ts, exe) in groups.items():
        rc, lines, err = run_real(ctx, exe, [t[1] for t in ts], 'oracle-' + gname)
        ctx.evaluations += len(ts)
        if rc != 0 or len(lines) != len(ts):
            bad.append((ts[min(len(lines), len(ts) - 1)][1], err[-300:], 'harness crashed (%s)' % gname, ts[min(len(lines), len(ts) - 1)][0], None))
        else:
            for (c, out, why) in check_outputs(ctx, ts, lines):
                t = next(x for x in ts if x[1] == c)
                bad.append((c, out, why, t[0], t[2]))
    sets = set_cases(ctx, scale * (4 if broke else 1))
    for exe, hc in ((h4, 4), (h6, 6), (ctx.h8, 8)):
        # one process per case: a crash (assert) is attributed to its case
        for c in sets:
            if hc != 4 and c.split()[1] not in ('p4', 'p4k16', 'p4s'):
                continue          # the pointer-width builds differ only in BucketLimP4
            rc, lines, err = run_real(ctx, exe, [c], 'set')
            ctx.evaluations += 1
            out = lines[0] if (rc == 0 and lines) else 'crash rc=%d %s' % (rc, err[-200:].replace('\n', ' '))
            for (c2, o2, why) in check_sets(ctx, [c], [out]):
                bad.append((c2, o2, why, hc, None))
    ctx.stage('oracle', not bad, bad[0][2] if bad else '')
    for (c, out, why, hc, exp) in bad[:3]:
        ctx.violation(why, {'case': c, 'impl_output': out, 'hashCount': hc, 'expected': exp,
                            'cmd': 'echo "%s" | build/C12/%s' % (c, {6: 'harness48', 8: 'harness32'}.get(hc, 'harness'))}, found_input=True)
    allc = [t[1] for t in triples] + sets
    for c in allc[::max(1, len(allc) // 6)][:6]:
        ctx.add_sample(c[:300])
    # measured (not planned) per-dimension counts
    tiestat = {}
    for gname, (ts, exe) in groups.items():
        rc, lines, err = run_real(ctx, exe, [t[1] for t in ts if t[1].split()[0] in ('tbl', 'tbl2', 'tp4', 'tp4c', 'tone')], 'stat-' + gname)
        d = tiestat.setdefault(gname, {'table_cases': 0, 'first_reserve_left_two_generations': 0, 'natural_growth_at_capacity': 0,
                                       'cases_with_full_getter_calls': 0, 'cases_with_removals': 0})
        for t, out in zip([t for t in ts if t[1].split()[0] in ('tbl', 'tbl2', 'tp4', 'tp4c', 'tone')], lines):
            w = t[1].split(); d['table_cases'] += 1
            if 'gens=2' in out: d['first_reserve_left_two_generations'] += 1
            if (w[0] == 'tbl2' and w[4] == '-2') or (w[0] == 'tp4c' and w[5] == '-2'): d['natural_growth_at_capacity'] += 1
            if not out.startswith('calls=0 '): d['cases_with_full_getter_calls'] += 1
            pos = {'tbl2': 5, 'tp4': 4, 'tp4c': 6, 'tone': 3}.get(w[0])
            nrem = w[pos] if pos is not None and len(w) > pos else '0'
            if nrem != '0': d['cases_with_removals'] += 1
    ctx.coverage['container_oracle_by_configuration'] = SETSTAT
    ctx.coverage['table_tie_by_build'] = tiestat
    Ls = [int(t[1].split()[-3]) for t in triples if t[1].startswith(('o2get', 'p4get'))]
    ctx.coverage['bucket_level_logBucketCount_histogram'] = {'0..9': sum(1 for x in Ls if x < 10), '10..57': sum(1 for x in Ls if 10 <= x <= 57),
                                                            '58..63': sum(1 for x in Ls if x > 57), 'L mod 8 == 1 (probe shift 0)': sum(1 for x in Ls if x % 8 == 1),
                                                            'L mod 8 == 2 (first of class)': sum(1 for x in Ls if x % 8 == 2)}
    ctx.coverage['input_distribution'] = {k: sum(1 for c in allc if c.startswith(k)) for k in
                                          ('o2add', 'o2rem', 'o2get', 'p4set', 'p4rem', 'p4get', 'p4seq', 'tbl', 'tp4', 'tone', 'one', 'start', 'next', 'short', 'set')}
    return ctx.finish(rule=RULE)

RULE = ('cases = random + boundary (h: 0,1,2^k-1,2^k,2^k+1, bytes of ones/zeros at every position, all-ones; L: 0..63 aimed at the '
        'class boundaries L mod 8 in {1,2}; newL: same class / last of class / first of next class / +8; probe: 0,1,2^ps-1,2^ps,2^ps+1,random) '
        'for every translated function, LimP4 with hashCount 4 and 6, real-bucket add/remove/reconstruct histories, and HashSet growth '
        'scripts (LimP4, Open2N2, Open8, One x 8 hash bit patterns x Reserve across the class boundaries at 2^2, 2^10, 2^18 buckets). '
        'distinct = distinct case line; non-trivial = a reconstruction that did NOT use the full getter (answer differs from the getter value), '
        'or a growth script in which elements were relocated from stored bits and a class boundary was crossed')
