(* C01 -- list lemmas used by the hash-table proofs (Stdlib only) *)
From Coq Require Import ZArith List Lia Bool Permutation.
From C01 Require Import HashModel.
Import ListNotations.

Lemma upd_nth_length {A} n (x : A) l : length (upd_nth n x l) = length l.
Proof. revert n; induction l; destruct n; simpl; auto. Qed.

Lemma nth_upd_nth_same {A} n (x d : A) l : (n < length l)%nat -> nth n (upd_nth n x l) d = x.
Proof. revert n; induction l; destruct n; simpl; intros; try lia; auto. apply IHl; lia. Qed.

Lemma nth_upd_nth_other {A} n m (x d : A) l : n <> m -> nth m (upd_nth n x l) d = nth m l d.
Proof. revert n m; induction l; destruct n, m; simpl; intros; try congruence; auto. Qed.

Lemma nth_error_upd_nth_same {A} n (x : A) l : (n < length l)%nat -> nth_error (upd_nth n x l) n = Some x.
Proof. revert n; induction l; destruct n; simpl; intros; try lia; auto. apply IHl; lia. Qed.

Lemma nth_error_upd_nth_other {A} n m (x : A) l : n <> m -> nth_error (upd_nth n x l) m = nth_error l m.
Proof. revert n m; induction l; destruct n, m; simpl; intros; try congruence; auto. Qed.

Lemma upd_nth_split {A} n (x : A) l : (n < length l)%nat ->
  upd_nth n x l = firstn n l ++ x :: skipn (S n) l.
Proof. revert n; induction l; destruct n; simpl; intros; try lia; auto. f_equal. apply IHl; lia. Qed.

Lemma nth_split' {A} n (d : A) l : (n < length l)%nat -> l = firstn n l ++ nth n l d :: skipn (S n) l.
Proof. revert n; induction l; destruct n; simpl; intros; try lia; auto. f_equal. apply IHl; lia. Qed.

Lemma nth_error_nth' {A} n (d x : A) l : nth_error l n = Some x -> nth n l d = x /\ (n < length l)%nat.
Proof. intros H. split. now apply nth_error_nth. apply nth_error_Some. congruence. Qed.

Lemma flat_map_split_nth {A C} (f : A -> list C) n (d : A) l : (n < length l)%nat ->
  flat_map f l = flat_map f (firstn n l) ++ f (nth n l d) ++ flat_map f (skipn (S n) l).
Proof.
  intros Hn. pose proof (nth_split' n d l Hn) as E.
  remember (firstn n l) as a. remember (skipn (S n) l) as b. remember (nth n l d) as y.
  rewrite E. rewrite flat_map_app. reflexivity.
Qed.

Lemma flat_map_upd_nth_eq {A C} (f : A -> list C) n (x : A) l : (n < length l)%nat ->
  flat_map f (upd_nth n x l) = flat_map f (firstn n l) ++ f x ++ flat_map f (skipn (S n) l).
Proof.
  intros Hn. pose proof (upd_nth_split n x l Hn) as E.
  remember (firstn n l) as a. remember (skipn (S n) l) as b.
  rewrite E. rewrite flat_map_app. reflexivity.
Qed.

Lemma flat_map_upd_nth_perm {A C} (f : A -> list C) n (x d : A) l (extra : list C) :
  (n < length l)%nat -> Permutation (f x) (extra ++ f (nth n l d)) ->
  Permutation (flat_map f (upd_nth n x l)) (extra ++ flat_map f l).
Proof.
  intros Hn HP.
  pose proof (flat_map_upd_nth_eq f n x l Hn) as E1. pose proof (flat_map_split_nth f n d l Hn) as E2.
  remember (flat_map f (firstn n l)) as a. remember (flat_map f (skipn (S n) l)) as b.
  remember (f (nth n l d)) as y. rewrite E1, E2.
  apply Permutation_trans with (a ++ (extra ++ y) ++ b).
  - apply Permutation_app_head. apply Permutation_app_tail. exact HP.
  - rewrite <- !app_assoc. rewrite (app_assoc a), (app_assoc extra).
    apply Permutation_app_tail. apply Permutation_app_comm.
Qed.

Lemma flat_map_upd_nth_perm' {A C} (f : A -> list C) n (x d : A) l (extra : list C) :
  (n < length l)%nat -> Permutation (extra ++ f x) (f (nth n l d)) ->
  Permutation (extra ++ flat_map f (upd_nth n x l)) (flat_map f l).
Proof.
  intros Hn HP.
  pose proof (flat_map_upd_nth_eq f n x l Hn) as E1. pose proof (flat_map_split_nth f n d l Hn) as E2.
  remember (flat_map f (firstn n l)) as a. remember (flat_map f (skipn (S n) l)) as b.
  remember (f (nth n l d)) as y. rewrite E1, E2.
  apply Permutation_trans with ((extra ++ a) ++ f x ++ b). { rewrite <- app_assoc. reflexivity. }
  apply Permutation_trans with ((a ++ extra) ++ f x ++ b). { apply Permutation_app_tail, Permutation_app_comm. }
  rewrite <- !app_assoc. apply Permutation_app_head. rewrite !app_assoc. apply Permutation_app_tail. exact HP.
Qed.

Lemma in_flat_map_nth {A C} (f : A -> list C) (d : A) l y :
  In y (flat_map f l) <-> exists n, (n < length l)%nat /\ In y (f (nth n l d)).
Proof.
  rewrite in_flat_map. split.
  - intros [x [Hx Hy]]. destruct (In_nth _ _ d Hx) as [n [Hn E]]. exists n. subst. auto.
  - intros [n [Hn Hy]]. exists (nth n l d). split; auto. apply nth_In; auto.
Qed.

(* ---- association lists with distinct keys ---- *)
Lemma NoDup_keys_val (l : list item) k v v' : NoDup (map fst l) -> In (k, v) l -> In (k, v') l -> v = v'.
Proof.
  induction l as [|[a b] r IH]; simpl; intros ND H1 H2; [contradiction|].
  inversion ND as [|? ? Hn ND']; subst.
  destruct H1 as [H1|H1], H2 as [H2|H2].
  - congruence.
  - inversion H1; subst. exfalso. apply Hn. apply (in_map fst) in H2. exact H2.
  - inversion H2; subst. exfalso. apply Hn. apply (in_map fst) in H1. exact H1.
  - auto.
Qed.

Lemma bfind_spec k l i pos v : bfind k l i = Some (pos, v) ->
  exists j, pos = (i + j)%nat /\ nth_error l j = Some (k, v).
Proof.
  revert i; induction l as [|[k' v'] r IH]; simpl; intros i H; [discriminate|].
  destruct (Z.eqb_spec k k').
  - inversion H; subst. exists 0%nat. split; [lia|reflexivity].
  - destruct (IH _ H) as [j [E1 E2]]. exists (S j). split; [lia|exact E2].
Qed.

Lemma bfind_spec0 k l pos v : bfind k l 0 = Some (pos, v) -> nth_error l pos = Some (k, v).
Proof. intros H. destruct (bfind_spec _ _ _ _ _ H) as [j [E1 E2]]. simpl in E1. subst. exact E2. Qed.

Lemma bfind_none k l i : bfind k l i = None -> ~ In k (map fst l).
Proof.
  revert i; induction l as [|[k' v'] r IH]; simpl; intros i H; [tauto|].
  destruct (Z.eqb_spec k k'); [discriminate|]. intros [E|E]; [congruence|]. eapply IH; eauto.
Qed.

Lemma bfind_complete k v l i : In (k, v) l -> exists pos v', bfind k l i = Some (pos, v').
Proof.
  revert i; induction l as [|[k' v'] r IH]; simpl; intros i H; [contradiction|].
  destruct (Z.eqb_spec k k'); [eauto|]. destruct H as [H|H]; [congruence|]. apply IH; auto.
Qed.

Lemma in_keys (l : list item) k : In k (map fst l) <-> exists v, In (k, v) l.
Proof.
  rewrite in_map_iff. split.
  - intros [[a b] [E H]]. simpl in E. subst. eauto.
  - intros [v H]. exists (k, v). auto.
Qed.

(* ---- Bucket::Remove: swap with last ---- *)
Lemma removelast_app1 {A} (l : list A) x : removelast (l ++ [x]) = l.
Proof. apply removelast_last. Qed.

Lemma bremove_perm pos (l : list item) x : nth_error l pos = Some x -> Permutation (x :: bremove pos l) l.
Proof.
  intros H. destruct (nth_error_nth' _ (0%Z, 0%Z) _ _ H) as [E Hlt].
  destruct (exists_last (l:=l)) as [l' [z El]]. { intro; subst; simpl in Hlt; lia. }
  subst l. unfold bremove. rewrite rev_app_distr. simpl. rewrite removelast_last.
  rewrite app_length in Hlt. simpl in Hlt.
  destruct (Nat.eqb_spec pos (length l')).
  - subst pos. rewrite nth_error_app2 in H by lia. rewrite Nat.sub_diag in H. simpl in H. inversion H; subst.
    apply Permutation_cons_append.
  - assert (Hp : (pos < length l')%nat) by lia.
    rewrite nth_error_app1 in H by lia.
    destruct (nth_error_nth' _ (0%Z, 0%Z) _ _ H) as [E' _].
    pose proof (upd_nth_split pos z l' Hp) as U. pose proof (nth_split' pos (0%Z, 0%Z) l' Hp) as V.
    rewrite E' in V.
    set (a := firstn pos l') in *. set (b := skipn (S pos) l') in *.
    rewrite U. clear U. rewrite V at 1. rewrite <- app_assoc. simpl.
    apply Permutation_cons_app. apply Permutation_app_head. apply Permutation_cons_append.
Qed.

Lemma bremove_length pos (l : list item) x : nth_error l pos = Some x -> S (length (bremove pos l)) = length l.
Proof. intros H. apply bremove_perm in H. apply Permutation_length in H. exact H. Qed.


Lemma NoDup_app_inv {A} (l l' : list A) : NoDup (l ++ l') -> NoDup l /\ NoDup l' /\ (forall x, In x l -> In x l' -> False).
Proof.
  induction l; simpl; intros H.
  - split; [constructor|]. split; auto.
  - inversion H as [|? ? Hn H']; subst. destruct (IHl H') as [A1 [A2 A3]].
    split; [constructor; auto; intro; apply Hn; apply in_or_app; auto|]. split; auto.
    intros x [E|E] Hx; [subst; apply Hn; apply in_or_app; auto|eauto].
Qed.

Lemma NoDup_app_intro {A} (l l' : list A) : NoDup l -> NoDup l' -> (forall x, In x l -> In x l' -> False) -> NoDup (l ++ l').
Proof.
  induction l; simpl; intros H1 H2 H3; auto.
  inversion H1; subst. constructor.
  - intro Hin. apply in_app_or in Hin. destruct Hin; [auto|eapply H3; eauto].
  - apply IHl; auto. intros; eapply H3; eauto.
Qed.

Lemma Permutation_filter {A} (f : A -> bool) l l' : Permutation l l' -> Permutation (filter f l) (filter f l').
Proof.
  induction 1; simpl; auto.
  - destruct (f x); auto.
  - destruct (f x), (f y); auto. apply perm_swap.
  - eapply Permutation_trans; eauto.
Qed.

Lemma filter_all {A} (f : A -> bool) l : (forall x, In x l -> f x = true) -> filter f l = l.
Proof. induction l; simpl; intros H; auto. rewrite (H a) by auto. f_equal. apply IHl. auto. Qed.

Lemma NoDup_app_drop_mid {A} (x y z : list A) : NoDup (x ++ y ++ z) -> NoDup (x ++ z).
Proof.
  intros H. destruct (NoDup_app_inv _ _ H) as [H1 [H2 H3]]. destruct (NoDup_app_inv _ _ H2) as [H4 [H5 H6]].
  apply NoDup_app_intro; auto. intros a Ha Hz. apply (H3 a Ha). apply in_or_app; auto.
Qed.

Lemma NoDup_app_tail {A} (x y : list A) : NoDup (x ++ y) -> NoDup y.
Proof. intros H. apply (NoDup_app_inv _ _ H). Qed.

Lemma NoDup_app_head {A} (x y : list A) : NoDup (x ++ y) -> NoDup x.
Proof. intros H. apply (NoDup_app_inv _ _ H). Qed.

Lemma NoDup_keys_perm (l l' : list item) : Permutation l l' -> NoDup (map fst l) -> NoDup (map fst l').
Proof. intros P H. eapply Permutation_NoDup; [|exact H]. apply Permutation_map. exact P. Qed.

Lemma Forall2_nth {A C} (R : A -> C -> Prop) l l' : Forall2 R l l' ->
  length l = length l' /\ forall n d d', (n < length l)%nat -> R (nth n l d) (nth n l' d').
Proof.
  induction 1; simpl; [split; auto; intros; lia|].
  destruct IHForall2 as [E F]. split; [lia|]. intros n d d' Hn. destruct n; auto. apply F. lia.
Qed.

Lemma flat_map_rev_perm {A C} (f : A -> list C) l : Permutation (flat_map (fun a => rev (f a)) l) (flat_map f l).
Proof. induction l; simpl; auto. apply Permutation_app; auto. apply Permutation_sym, Permutation_rev. Qed.

Lemma flat_map_perm_pointwise {A C} (f g : A -> list C) l : (forall a, Permutation (f a) (g a)) -> Permutation (flat_map f l) (flat_map g l).
Proof. intros H. induction l; simpl; auto. apply Permutation_app; auto. Qed.

(* ---- Remove(filter): the iterator loop inside one bucket ---- *)
Lemma upd_nth_app_mid {A} (f : list A) x z b : upd_nth (length f) z (f ++ x :: b) = f ++ z :: b.
Proof. induction f; simpl; auto. f_equal. auto. Qed.

Lemma bremove_last (l : list item) x : bremove (length l) (l ++ [x]) = l.
Proof. unfold bremove. rewrite rev_app_distr. simpl. rewrite removelast_last. rewrite Nat.eqb_refl. reflexivity. Qed.

Lemma bremove_mid (f : list item) x back z : bremove (length f) (f ++ x :: back ++ [z]) = f ++ z :: back.
Proof.
  unfold bremove. replace (f ++ x :: back ++ [z]) with ((f ++ x :: back) ++ [z]) by (rewrite <- app_assoc; reflexivity).
  rewrite rev_app_distr. simpl. rewrite removelast_last.
  destruct (Nat.eqb_spec (length f) (length (f ++ x :: back))) as [E|E].
  - rewrite app_length in E. simpl in E. lia.
  - apply upd_nth_app_mid.
Qed.

Lemma nth_app_mid {A} (f : list A) x b d : nth (length f) (f ++ x :: b) d = x.
Proof. induction f; simpl; auto. Qed.

Lemma exists_last_or_nil {A} (l : list A) : l = [] \/ exists l' z, l = l' ++ [z].
Proof.
  destruct l as [|a r]; [left; auto|right].
  destruct (exists_last (l := a :: r)) as [l' [z E]]; [discriminate|]. eauto.
Qed.

Definition negp (p : item -> bool) (x : item) : bool := negb (p x).


Lemma NoDup_keys_filter (f : item -> bool) (l : list item) : NoDup (map fst l) -> NoDup (map fst (filter f l)).
Proof.
  induction l as [|a r IH]; simpl; intros H; auto. inversion H; subst.
  destruct (f a); simpl; auto. constructor; auto.
  intro Hin. apply H2. apply in_map_iff in Hin. destruct Hin as [y [E Hy]]. apply filter_In in Hy.
  apply in_map_iff. exists y. tauto.
Qed.

Lemma filter_length_le {A} (f : A -> bool) l : (length (filter f l) <= length l)%nat.
Proof. induction l; simpl; auto. destruct (f a); simpl; lia. Qed.
