(* C17: proofs about the sort model SorterSort.v (all for sw = swap). *)
From Coq Require Import ZArith Bool List Lia Permutation.
From MomoCommon Require Import GenPrelude.
From C17 Require Import SorterSearch SorterSort.
Import ListNotations.
Local Open Scope Z_scope.

(* ---------------- lists: set_nth / swap ---------------- *)
Lemma length_set_nth l n x : length (set_nth l n x) = length l.
Proof. revert n. induction l as [|h t IH]; intros [|n]; simpl; auto. Qed.

Lemma nth_set_nth_eq l n x d : (n < length l)%nat -> nth n (set_nth l n x) d = x.
Proof. revert n. induction l as [|h t IH]; intros [|n] H; simpl in *; try lia; auto. apply IH. lia. Qed.

Lemma nth_set_nth_neq l n k x d : k <> n -> nth k (set_nth l n x) d = nth k l d.
Proof.
  revert n k. induction l as [|h t IH]; intros [|n] [|k] H; simpl; auto; try congruence.
  all: try (apply IH; congruence).
Qed.

Lemma perm_set_head t j x d : (j < length t)%nat -> Permutation (nth j t d :: set_nth t j x) (x :: t).
Proof.
  revert j. induction t as [|a t IH]; intros [|j] H; simpl in *; try lia.
  - apply perm_swap.
  - eapply perm_trans; [apply perm_swap|]. eapply perm_trans; [apply perm_skip, IH; lia|]. apply perm_swap.
Qed.

Lemma perm_swap_nat l i j d : (i < length l)%nat -> (j < length l)%nat ->
  Permutation (set_nth (set_nth l i (nth j l d)) j (nth i l d)) l.
Proof.
  revert i j. induction l as [|h t IH]; intros [|i] [|j] Hi Hj; simpl in *; try lia.
  - apply Permutation_refl.
  - apply perm_set_head. lia.
  - apply perm_set_head. lia.
  - apply perm_skip. apply IH; lia.
Qed.

Lemma alen_swap l i j : alen (swap l i j) = alen l.
Proof. unfold alen, swap. rewrite !length_set_nth. reflexivity. Qed.

Lemma perm_swap_Z l i j : 0 <= i < alen l -> 0 <= j < alen l -> Permutation (swap l i j) l.
Proof. unfold alen, swap, get. intros Hi Hj. apply perm_swap_nat; lia. Qed.

Lemma get_swap l i j k : 0 <= i < alen l -> 0 <= j < alen l -> 0 <= k ->
  get (swap l i j) k = if k =? j then get l i else if k =? i then get l j else get l k.
Proof.
  unfold alen, swap, get. intros Hi Hj Hk.
  destruct (Z.eqb_spec k j) as [->|Nj].
  - apply nth_set_nth_eq. rewrite length_set_nth. lia.
  - rewrite nth_set_nth_neq by lia. destruct (Z.eqb_spec k i) as [->|Ni].
    + apply nth_set_nth_eq. lia.
    + apply nth_set_nth_neq. lia.
Qed.

(* l' results from l by rearranging positions [lo,hi) only *)
Definition relR (lo hi : Z) (l l' : arr) : Prop :=
  Permutation l l' /\ alen l' = alen l /\
  (forall k, 0 <= k -> k < lo \/ hi <= k -> get l' k = get l k) /\
  (forall P : elem -> Prop, (forall k, lo <= k < hi -> P (get l k)) -> forall k, lo <= k < hi -> P (get l' k)).

Lemma relR_refl lo hi l : relR lo hi l l.
Proof. repeat split; auto. Qed.

Lemma relR_trans lo hi l1 l2 l3 : relR lo hi l1 l2 -> relR lo hi l2 l3 -> relR lo hi l1 l3.
Proof.
  intros (P1 & L1 & F1 & R1) (P2 & L2 & F2 & R2). split; [eapply perm_trans; eauto|]. split; [lia|]. split.
  - intros k Hk Ho. rewrite F2, F1; auto.
  - intros P HP. apply R2. apply R1. exact HP.
Qed.

Lemma relR_swap lo hi l i j : 0 <= lo -> hi <= alen l -> lo <= i < hi -> lo <= j < hi -> relR lo hi l (swap l i j).
Proof.
  intros Hlo Hhi Hi Hj. split; [apply Permutation_sym, perm_swap_Z; lia|]. split; [apply alen_swap|]. split.
  - intros k Hk Ho. rewrite get_swap by lia.
    destruct (Z.eqb_spec k j); [lia|]. destruct (Z.eqb_spec k i); [lia|]. reflexivity.
  - intros P HP k Hk. rewrite get_swap by lia.
    destruct (Z.eqb_spec k j); [apply HP; lia|]. destruct (Z.eqb_spec k i); apply HP; lia.
Qed.

Lemma relR_widen lo hi lo' hi' l l' : lo' <= lo -> hi <= hi' -> 0 <= lo' -> relR lo hi l l' -> relR lo' hi' l l'.
Proof.
  intros A B C (P1 & L1 & F1 & R1). split; [exact P1|]. split; [exact L1|]. split.
  - intros k Hk Ho. apply F1; lia.
  - intros P HP k Hk. destruct (Z_lt_le_dec k lo); [rewrite F1 by lia; apply HP; lia|].
    destruct (Z_lt_le_dec k hi); [|rewrite F1 by lia; apply HP; lia].
    apply R1; [|lia]. intros k' Hk'. apply HP. lia.
Qed.

Section SortProofs.
  Variable sw : arr -> Z -> Z -> arr.
  Hypothesis Hsw : forall l i j, sw l i j = swap l i j.
  Variable eqf : Z -> Z -> bool.
  Hypothesis eqf_refl : forall a, eqf a a = true.
  Hypothesis eqf_sym : forall a b, eqf a b = true -> eqf b a = true.
  Hypothesis eqf_trans : forall a b c, eqf a b = true -> eqf b c = true -> eqf a c = true.

  Definition EQ (l : arr) (a b : Z) : Prop := eqf (itm l a) (itm l b) = true.

  Lemma swp_ok l i j : 0 <= i < alen l -> 0 <= j < alen l -> swp sw l i j = Ok (swap l i j).
  Proof.
    intros Hi Hj. unfold swp, inr.
    destruct (Z.leb_spec 0 i); [|lia]. destruct (Z.ltb_spec i (alen l)); [|lia].
    destruct (Z.leb_spec 0 j); [|lia]. destruct (Z.ltb_spec j (alen l)); [|lia]. simpl. rewrite Hsw. reflexivity.
  Qed.

  Lemma EQ_refl l a : EQ l a a. Proof. apply eqf_refl. Qed.
  Lemma EQ_sym l a b : EQ l a b -> EQ l b a. Proof. apply eqf_sym. Qed.
  Lemma EQ_trans l a b c : EQ l a b -> EQ l b c -> EQ l a c. Proof. apply eqf_trans. Qed.

  (* ================= pvGroup ================= *)
  Section Group.
    Variable lo hi : Z.      (* the sub-array [lo,hi) = [q, q+cnt) *)
    Hypothesis Hlo : 0 <= lo.

    (* equal items contiguous in [lo, min(I,hi)) *)
    Definition G1 (l : arr) (I : Z) : Prop :=
      forall a m c, lo <= a -> a < m -> m < c -> c < I -> c < hi -> EQ l a c -> EQ l a m.
    (* every class of the prefix other than the class of l[I-1] has no member at or after I *)
    Definition G2 (l : arr) (I : Z) : Prop :=
      forall a b, lo <= a -> a < I -> I <= b -> b < hi -> ~ EQ l a (I - 1) -> ~ EQ l a b.

    Lemma G_step_same l I : lo < I -> I < hi -> G1 l I -> G2 l I -> EQ l (I - 1) I -> G1 l (I + 1) /\ G2 l (I + 1).
    Proof.
      intros HI HIh g1 g2 E. split.
      - intros a m c Ha Ham Hmc HcI Hch Eac. destruct (Z.eq_dec c I) as [->|]; [|apply (g1 a m c); auto; lia].
        assert (Ea : EQ l a (I - 1)) by (eapply EQ_trans; [exact Eac|apply EQ_sym; exact E]).
        destruct (Z.eq_dec m (I - 1)) as [->|]; [exact Ea|]. apply (g1 a m (I - 1)); auto; lia.
      - intros a b Ha HaI HIb Hbh N. replace (I + 1 - 1) with I in N by lia.
        destruct (Z.eq_dec a I) as [->|]; [exfalso; apply N, EQ_refl|].
        apply (g2 a b); try lia. intros X. apply N. eapply EQ_trans; eauto.
    Qed.

    Lemma grp_inner_spec : forall n q i j l, q = lo -> lo < q + i -> q + i < q + j -> q + j + Z.of_nat n = hi -> hi <= alen l ->
      G1 l (q + i) -> G2 l (q + i) -> (forall b, q + i <= b < q + j -> ~ EQ l (q + i - 1) b) ->
      exists i' l', grp_inner sw eqf n q i j l = Ok (i', l') /\ relR lo hi l l' /\ q + i <= q + i' <= hi /\
        G1 l' (q + i') /\ G2 l' (q + i') /\ (forall b, q + i' <= b < hi -> ~ EQ l' (q + i' - 1) b).
    Proof.
      induction n as [|n IH]; intros q i j l Hq Hi Hij Hn Hhi g1 g2 N3.
      - simpl. exists i, l. split; [reflexivity|]. split; [apply relR_refl|]. split; [lia|]. split; [exact g1|]. split; [exact g2|].
        intros b Hb. apply N3. lia.
      - rewrite Nat2Z.inj_succ in Hn. cbn [grp_inner].
        replace (q + (i - 1)) with (q + i - 1) by lia.
        destruct (eqf (itm l (q + i - 1)) (itm l (q + j))) eqn:Ee.
        + rewrite swp_ok by lia. cbn [bind].
          set (l1 := swap l (q + i) (q + j)).
          assert (Gs : forall k, 0 <= k -> get l1 k = if k =? q + j then get l (q + i) else if k =? q + i then get l (q + j) else get l k).
          { intros k Hk. unfold l1. apply get_swap; lia. }
          assert (Hrel : relR lo hi l l1) by (apply relR_swap; lia).
          assert (Ei : forall k, EQ l1 k k -> True) by auto.
          (* items of l1 *)
          assert (I1 : forall k, 0 <= k -> k <> q + i -> k <> q + j -> itm l1 k = itm l k).
          { intros k Hk A B. unfold itm. rewrite Gs by lia. destruct (Z.eqb_spec k (q + j)); [lia|]. destruct (Z.eqb_spec k (q + i)); [lia|reflexivity]. }
          assert (I2 : itm l1 (q + i) = itm l (q + j)).
          { unfold itm. rewrite Gs by lia. destruct (Z.eqb_spec (q + i) (q + j)); [lia|]. rewrite Z.eqb_refl. reflexivity. }
          assert (I3 : itm l1 (q + j) = itm l (q + i)).
          { unfold itm. rewrite Gs by lia. rewrite Z.eqb_refl. reflexivity. }
          destruct (IH q (i + 1) (j + 1) l1) as (i' & l' & E' & R' & Hi' & g1' & g2' & N'); try lia.
          { unfold l1. rewrite alen_swap. lia. }
          { (* G1 l1 (q+i+1) *)
            replace (q + (i + 1)) with (q + i + 1) by lia.
            intros a m c Ha Ham Hmc HcI Hch Eac. unfold EQ in *.
            destruct (Z.eq_dec c (q + i)) as [->|Nc].
            - rewrite I2 in Eac. rewrite (I1 a) in Eac by lia. rewrite (I1 a), (I1 m) by lia.
              assert (Ea : eqf (itm l a) (itm l (q + i - 1)) = true) by (eapply eqf_trans; [exact Eac|apply eqf_sym; exact Ee]).
              destruct (Z.eq_dec m (q + i - 1)) as [->|]; [exact Ea|]. apply (g1 a m (q + i - 1)); auto; lia.
            - rewrite (I1 a), (I1 c) in Eac by lia. rewrite (I1 a), (I1 m) by lia. apply (g1 a m c); auto; lia. }
          { (* G2 l1 (q+i+1) *)
            replace (q + (i + 1)) with (q + i + 1) by lia. unfold G2. replace (q + i + 1 - 1) with (q + i) by lia.
            intros a b Ha HaI HIb Hbh N. unfold EQ in *. rewrite I2 in N.
            destruct (Z.eq_dec a (q + i)) as [->|Na]; [exfalso; apply N; rewrite I2; apply eqf_refl|].
            rewrite (I1 a) in N by lia. rewrite (I1 a) by lia.
            assert (N0 : ~ eqf (itm l a) (itm l (q + i - 1)) = true).
            { intros X. apply N. eapply eqf_trans; [exact X|exact Ee]. }
            destruct (Z.eq_dec b (q + j)) as [->|Nb]; [rewrite I3; apply (g2 a (q + i)); auto; lia|].
            rewrite (I1 b) by lia. apply (g2 a b); auto; lia. }
          { (* N3 for l1 *)
            replace (q + (i + 1)) with (q + i + 1) by lia. replace (q + i + 1 - 1) with (q + i) by lia.
            intros b Hb. unfold EQ. rewrite I2.
            destruct (Z.eq_dec b (q + j)) as [->|Nb].
            - rewrite I3. intros X. apply (N3 (q + i)); [lia|]. unfold EQ.
              eapply eqf_trans; [exact Ee|exact X].
            - rewrite (I1 b) by lia. intros X. apply (N3 b); [lia|]. unfold EQ. eapply eqf_trans; [exact Ee|exact X]. }
          exists i', l'. split; [exact E'|]. split; [eapply relR_trans; eauto|]. split; [lia|]. auto.
        + destruct (IH q i (j + 1) l) as (i' & l' & E' & R' & Hi' & g1' & g2' & N'); try lia; auto.
          { intros b Hb. destruct (Z.eq_dec b (q + j)) as [->|]; [unfold EQ; rewrite Ee; discriminate|apply N3; lia]. }
          exists i', l'. tauto.
    Qed.

    Lemma grp_outer_eq f q cnt i l : grp_outer sw eqf (S f) q cnt i l =
      if i <? cnt then
        if eqf (itm l (q + (i - 1))) (itm l (q + i)) then grp_outer sw eqf f q cnt (i + 1) l
        else r <- grp_inner sw eqf (Z.to_nat (cnt - (i + 1))) q i (i + 1) l ;; grp_outer sw eqf f q cnt (fst r + 1) (snd r)
      else Ok l.
    Proof. reflexivity. Qed.

    Lemma grp_outer_spec : forall f q cnt i l, q = lo -> q + cnt = hi -> hi <= alen l -> 1 <= i -> i <= cnt + 1 ->
      cnt + 1 - i <= Z.of_nat f -> G1 l (q + i) -> G2 l (q + i) ->
      exists l', grp_outer sw eqf (S f) q cnt i l = Ok l' /\ relR lo hi l l' /\ G1 l' hi.
    Proof.
      induction f as [|f IH]; intros q cnt i l Hq Hc Hhi Hi Hic Hf g1 g2; rewrite grp_outer_eq.
      - destruct (Z.ltb_spec i cnt); [simpl in Hf; lia|]. exists l. split; [reflexivity|]. split; [apply relR_refl|].
        intros a m c Ha Ham Hmc HcI Hch. apply (g1 a m c); auto; lia.
      - rewrite Nat2Z.inj_succ in Hf. destruct (Z.ltb_spec i cnt) as [Hlt|Hge].
        2:{ exists l. split; [reflexivity|]. split; [apply relR_refl|].
            intros a m c Ha Ham Hmc HcI Hch. apply (g1 a m c); auto; lia. }
        replace (q + (i - 1)) with (q + i - 1) by lia.
        destruct (eqf (itm l (q + i - 1)) (itm l (q + i))) eqn:Ee.
        + destruct (G_step_same l (q + i)) as [g1' g2']; try lia; auto.
          replace (q + i + 1) with (q + (i + 1)) in g1', g2' by lia.
          apply IH; auto; lia.
        + destruct (grp_inner_spec (Z.to_nat (cnt - (i + 1))) q i (i + 1) l) as (i' & l1 & E1 & R1 & Hi' & g1' & g2' & N'); try lia; auto.
          { intros b Hb. replace b with (q + i) by lia. unfold EQ. rewrite Ee. discriminate. }
          rewrite E1. cbn [bind fst snd].
          destruct (IH q cnt (i' + 1) l1) as (l' & E' & R' & G'); try lia; auto.
          { destruct R1 as (_ & L & _). lia. }
          { (* G1 l1 (q + i' + 1) *)
            replace (q + (i' + 1)) with (q + i' + 1) by lia.
            intros a m c Ha Ham Hmc HcI Hch Eac. destruct (Z.eq_dec c (q + i')) as [->|]; [|apply (g1' a m c); auto; lia].
            exfalso. destruct (eqf (itm l1 a) (itm l1 (q + i' - 1))) eqn:Ea.
            - apply (N' (q + i')); [lia|]. eapply EQ_trans; [apply EQ_sym; exact Ea|exact Eac].
            - apply (g2' a (q + i')); try lia; [|exact Eac]. unfold EQ. rewrite Ea. discriminate. }
          { (* G2 l1 (q + i' + 1) *)
            replace (q + (i' + 1)) with (q + i' + 1) by lia. unfold G2. replace (q + i' + 1 - 1) with (q + i') by lia.
            intros a b Ha HaI HIb Hbh N. destruct (Z.eq_dec a (q + i')) as [->|]; [exfalso; apply N, EQ_refl|].
            destruct (eqf (itm l1 a) (itm l1 (q + i' - 1))) eqn:Ea.
            - intros X. apply (N' b); [lia|]. eapply EQ_trans; [apply EQ_sym; exact Ea|exact X].
            - apply (g2' a b); try lia. unfold EQ. rewrite Ea. discriminate. }
          exists l'. split; [exact E'|]. split; [eapply relR_trans; eauto|exact G'].
    Qed.
  End Group.

  (* equal items are contiguous in [lo,hi) *)
  Definition contigL (l : arr) (lo hi : Z) : Prop :=
    forall a m c, lo <= a -> a < m -> m < c -> c < hi -> EQ l a c -> EQ l a m.

  (* pvGroup on [q, q+cnt): total, only rearranges that range, and afterwards equal items are contiguous in it *)
  Theorem pvGroup_spec l q cnt : 0 <= q -> 0 <= cnt -> q + cnt <= alen l ->
    exists l', pvGroup sw eqf l q cnt = Ok l' /\ relR q (q + cnt) l l' /\ contigL l' q (q + cnt).
  Proof.
    intros Hq Hc Hl. unfold pvGroup.
    destruct (grp_outer_spec q (q + cnt) Hq (Z.to_nat cnt) q cnt 1 l) as (l' & E & Rl & G); try lia.
    - intros a m c Ha Ham Hmc HcI Hch. lia.
    - intros a b Ha HaI HIb Hbh N. exfalso. apply N. replace a with (q + 1 - 1) by lia. apply EQ_refl.
    - exists l'. split; [exact E|]. split; [exact Rl|].
      intros a m c Ha Ham Hmc Hch. apply (G a m c); auto.
  Qed.
End SortProofs.
