(* Extraction of the GENERATED definitions (translator validation for C13). ExtrOcamlBasic only. *)
From Coq Require Import ZArith List Extraction ExtrOcamlBasic.
From MomoCommon Require Import GenPrelude.
From C13 Require Gen_Open2N2 Gen_OpenN1 Gen_Open8 Gen_BucketBase ProbeSeq OpenTable OpenInstances.
Separate Extraction
  Gen_Open2N2.pvGetMaxProbe Gen_Open2N2.UpdateMaxProbe Gen_Open2N2.pvGetCount Gen_Open2N2.GetNextBucketIndex
  Gen_OpenN1.GetMaxProbe Gen_OpenN1.UpdateMaxProbe Gen_OpenN1.pvGetCount
  Gen_Open8.GetNextBucketIndex ProbeSeq.probe_index Gen_BucketBase.GetStartBucketIndex
  OpenTable.add OpenTable.find OpenTable.bk OpenTable.bd OpenInstances.upd2 OpenInstances.updN.
