(* Property C01 -- theorems only.  Each is closed by `exact <lemma>` and followed by Print Assumptions.

   Vocabulary.  HashModel.step / run = the executable model of momo::HashSet / HashMap (pvFind, pvAddNogrow, pvAddGrow,
   Reserve, pvRelocateItems with an arbitrary failure point, Remove, Remove(filter), Clear, copy, iteration).  It is run
   against the real containers on every check (correspondence incl. the internal shape).  `ModelOK` = the facts about a
   bucket kind the proofs need (index functions stay inside the table; the decoded max-probe bound never
   under-approximates a recorded probe); HashInstProofs.momo_instances_ok proves them for the functions REGENERATED
   from the headers.  `hall s` = all items stored in all generations; `spec_step` = the abstract finite map. *)
From Coq Require Import ZArith List Permutation.
From C01 Require Import HashModel HashSpec HashProofs HashInst HashInstProofs BucketFind.
From C01 Require Gen_One Gen_P4 Gen_P4A P4_Slot P4_Bucket LimP4Ops Glue.
From C01 Require OpenN1Ops Gen_OpenN1_ops Open2N2Ops Gen_Open2N2_ops.
From C01 Require IterMachine KindFacts Gen_UnlimP Gen_LimP1 Gen_LimP1t Gen_LimP1f Gen_Lim4 Gen_LimP Open8Match.
From C01 Require Gen_LimP4 Gen_Open2N2 Gen_Open2N2w Gen_OpenN1.
From C01 Require Gen_HashSetGrow GrowLoops TableN1 TableN1Inst Gen_LimP1_ops LimP1Ops Gen_HSFind ChainWalk StepExn NoSwallow.
From C01 Require Gen_HashBucketBase Gen_Open2N2 Gen_OpenN1 ReserveDecision ReserveDecisionInst.
From MomoCommon Require GenPrelude.
Import ListNotations.
Local Open Scope Z_scope.

(* The empty container satisfies the invariant: every stored key sits on the probe path of its home bucket, all
   buckets before it on that path have WasFull, its displacement <= decoded GetMaxProbe of the home bucket, keys are
   pairwise distinct over all generations, mCount is exact, no bucket exceeds maxCount. *)
Theorem C01_hash_inv_init :
  forall B b0 decode h cap unlimited wf0 start next maxLog Binv,
    Inv B b0 decode h cap unlimited wf0 start next maxLog Binv (hinit B).
Proof. exact hash_inv_init. Qed.
Print Assumptions C01_hash_inv_init.

(* ... and every operation (insert, find, remove by key/position, value assignment, Reserve, Clear, traversal, count,
   Remove(filter), copy; growth and partially failed relocations included) preserves it -- for every hash function. *)
Theorem C01_hash_inv_step :
  forall B b0 decode upd_bound h cap unlimited wf0 wfThr start next logStart calcCapacity shift maxLog Binv,
    ModelOK B b0 decode upd_bound cap unlimited wfThr start next logStart shift maxLog Binv ->
    forall s o, Inv B b0 decode h cap unlimited wf0 start next maxLog Binv s ->
      Inv B b0 decode h cap unlimited wf0 start next maxLog Binv
          (fst (step B b0 decode upd_bound h cap unlimited wf0 wfThr start next logStart calcCapacity shift maxLog s o)).
Proof. exact hash_inv_step. Qed.
Print Assumptions C01_hash_inv_step.

(* Find: the WasFull-guarded probe loop bounded by GetMaxProbe of the home bucket, over all generations, finds a key
   with value v exactly when (key, v) is stored: every present key is found with its value, no other key is found. *)
Theorem C01_find_iff_spec :
  forall B b0 decode upd_bound h cap unlimited wf0 wfThr start next logStart shift maxLog Binv,
    ModelOK B b0 decode upd_bound cap unlimited wfThr start next logStart shift maxLog Binv ->
    forall s, Inv B b0 decode h cap unlimited wf0 start next maxLog Binv s -> forall k v,
      (exists gi idx pos, hfind B b0 decode h wf0 start next s k = Some (gi, idx, pos, v)) <-> In (k, v) (hall B s).
Proof. exact find_iff_spec. Qed.
Print Assumptions C01_find_iff_spec.

Theorem C01_find_eq_spec_lookup :
  forall B b0 decode upd_bound h cap unlimited wf0 wfThr start next logStart shift maxLog Binv,
    ModelOK B b0 decode upd_bound cap unlimited wfThr start next logStart shift maxLog Binv ->
    forall s, Inv B b0 decode h cap unlimited wf0 start next maxLog Binv s -> forall k,
      match hfind B b0 decode h wf0 start next s k with Some (_, _, _, v) => Some v | None => None end = sp_find (hall B s) k.
Proof. exact find_eq_spec_lookup. Qed.
Print Assumptions C01_find_eq_spec_lookup.

(* One step refines the abstract map: either the implementation threw and nothing changed, or the new contents are
   (a permutation of) the spec's new contents and the outputs agree. *)
Theorem C01_step_refines :
  forall B b0 decode upd_bound h cap unlimited wf0 wfThr start next logStart calcCapacity shift maxLog Binv,
    ModelOK B b0 decode upd_bound cap unlimited wfThr start next logStart shift maxLog Binv ->
    forall s m o s' x,
      R B b0 decode h cap unlimited wf0 start next maxLog Binv s m ->
      step B b0 decode upd_bound h cap unlimited wf0 wfThr start next logStart calcCapacity shift maxLog s o = (s', x) ->
      (x = RExn /\ s' = s) \/
      (R B b0 decode h cap unlimited wf0 start next maxLog Binv s' (fst (spec_step m o)) /\ out_equiv x (snd (spec_step m o))).
Proof. exact hash_step_refines. Qed.
Print Assumptions C01_step_refines.

(* One full traversal GetBegin..GetEnd visits exactly the stored items, each key once, and GetCount is its length. *)
Theorem C01_traversal_perm :
  forall B b0 decode h cap unlimited wf0 start next maxLog Binv,
    forall s, Inv B b0 decode h cap unlimited wf0 start next maxLog Binv s ->
      Permutation (traverse B s) (hall B s) /\ NoDup (map fst (traverse B s)) /\ count s = Z.of_nat (length (traverse B s)).
Proof. exact traversal_perm. Qed.
Print Assumptions C01_traversal_perm.

(* All finite histories from the empty container: invariant, contents = spec contents, all outputs agree. *)
Theorem C01_hash_refines_all_histories :
  forall B b0 decode upd_bound h cap unlimited wf0 wfThr start next logStart calcCapacity shift maxLog Binv,
    ModelOK B b0 decode upd_bound cap unlimited wfThr start next logStart shift maxLog Binv ->
    forall os,
      Inv B b0 decode h cap unlimited wf0 start next maxLog Binv
          (fst (run B b0 decode upd_bound h cap unlimited wf0 wfThr start next logStart calcCapacity shift maxLog (hinit B) os)) /\
      Permutation
        (hall B (fst (run B b0 decode upd_bound h cap unlimited wf0 wfThr start next logStart calcCapacity shift maxLog (hinit B) os)))
        (fst (spec_run [] os (snd (run B b0 decode upd_bound h cap unlimited wf0 wfThr start next logStart calcCapacity shift maxLog (hinit B) os)))) /\
      Forall2 out_equiv
        (snd (run B b0 decode upd_bound h cap unlimited wf0 wfThr start next logStart calcCapacity shift maxLog (hinit B) os))
        (snd (spec_run [] os (snd (run B b0 decode upd_bound h cap unlimited wf0 wfThr start next logStart calcCapacity shift maxLog (hinit B) os)))).
Proof. exact hash_refines_all_histories. Qed.
Print Assumptions C01_hash_refines_all_histories.

(* The functions regenerated from momo's headers (GetStartBucketIndex, the linear and triangular GetNextBucketIndex,
   BucketBase::GetMaxProbe, the Open2N2 / OpenN1 / Open8 max-probe encoders, GetBucketCountShift) satisfy ModelOK for
   every valid configuration (any maxCount >= 1, any probing kind, any encoder, any growth policy, any start size). *)
Theorem C01_momo_instances_ok :
  forall c, cfg_valid c ->
    ModelOK BS bs0 (decode_fn (c_bound c)) (upd_fn (c_bound c)) (c_cap c) (c_unlimited c) (c_wfThr c) start_fn
            (next_fn (c_probing c)) (c_logStart c) (shift_fn (c_pol c) (c_cap c)) max_log (Binv_of (c_bound c)).
Proof. exact momo_instances_ok. Qed.
Print Assumptions C01_momo_instances_ok.

(* Hence for every bucket kind of the library, EVERY hash function h and every finite history: the stored items are
   the abstract map's items, keys are distinct, the count is exact and every reported result equals the spec's. *)
Theorem C01_momo_refines_all_histories :
  forall c (h : Z -> Z), cfg_valid c -> forall os,
    let r := run_gen c h init_cfg os in
    let sp := spec_run [] os (snd r) in
    Permutation (hall BS (fst r)) (fst sp) /\ NoDup (map fst (hall BS (fst r))) /\
    count (fst r) = Z.of_nat (length (fst sp)) /\ Forall2 out_equiv (snd r) (snd sp).
Proof. exact momo_refines_all_histories. Qed.
Print Assumptions C01_momo_refines_all_histories.

(* Non-vacuity: under a CONSTANT hash a reachable state with three coexisting generations (two failed relocations)
   satisfies the invariant; all twelve inserts succeeded, a removal in an old generation and a find succeeded. *)
Theorem C01_nonvacuous_multigen :
  length (gens nv_state) = 3%nat /\ map fst (traverse BS nv_state) <> [] /\
  length (hall BS nv_state) = 11%nat /\
  snd (run_gen nv_cfg nv_hash init_cfg nv_ops) =
    [RBool true; RBool true; RBool true; RBool true; RBool true; RBool true; RBool true; RBool true; RBool true;
     RBool true; RBool true; RBool true; RBool true; ROpt (Some 120)] /\
  Inv BS bs0 (decode_fn (c_bound nv_cfg)) nv_hash (c_cap nv_cfg) (c_unlimited nv_cfg) (c_wf0 nv_cfg) start_fn
      (next_fn (c_probing nv_cfg)) max_log (Binv_of (c_bound nv_cfg)) nv_state.
Proof. exact nonvacuous_multigen. Qed.
Print Assumptions C01_nonvacuous_multigen.

(* ---------- composite operations as first-class model operations: a pair of containers a, b + an ExtractedItem holder ----------
   WExtract = a.Extract(a.Find(k)) into the holder (pvExtract/pvRemove), WInsertExt = a.Insert(ExtractedItem&&) (the holder keeps
   the item when the key is present), WSwap, WMoveAB = b = std::move(a), WMergeAB = a.MergeTo(b) (spec: union with destination
   priority, the source keeps the refused items); OAddAt (Add(pos,item) after a failed Find), OSetVal (value / ResetKey through
   the position) and OInsertNoMem (overloadIfCannotGrow: refused bucket-array allocation -> pvAddNogrow on the existing table,
   mCount may exceed mCapacity) are ordinary `op`s covered by C01_step_refines.  A MergeTo interrupted by an exception of the
   destination gives the basic guarantee: both invariants hold and the union of the contents is unchanged. *)
Theorem C01_world_step_refines :
  forall B b0 decode upd_bound h cap unlimited wf0 wfThr start next logStart calcCapacity shift maxLog Binv,
    ModelOK B b0 decode upd_bound cap unlimited wfThr start next logStart shift maxLog Binv ->
    forall w m o w' x,
      WR B b0 decode h cap unlimited wf0 start next maxLog Binv w m ->
      wstep B b0 decode upd_bound h cap unlimited wf0 wfThr start next logStart calcCapacity shift maxLog w o = (w', x) ->
      (x = RExn /\ (w' = w \/ exists m', WR B b0 decode h cap unlimited wf0 start next maxLog Binv w' m' /\ o = WMergeAB /\
          Permutation (fst (fst m') ++ snd (fst m')) (fst (fst m) ++ snd (fst m)) /\ snd m' = snd m)) \/
      (WR B b0 decode h cap unlimited wf0 start next maxLog Binv w' (fst (wspec_step m o)) /\ out_equiv x (snd (wspec_step m o))).
Proof. exact world_step_refines. Qed.
Print Assumptions C01_world_step_refines.

Theorem C01_momo_world_refines_all_histories :
  forall c (h : Z -> Z), cfg_valid c -> forall os,
    no_merge_exn os (snd (wrun_gen c h winit_cfg os)) ->
    WR BS bs0 (decode_fn (c_bound c)) h (c_cap c) (c_unlimited c) (c_wf0 c) start_fn (next_fn (c_probing c)) max_log (Binv_of (c_bound c))
       (fst (wrun_gen c h winit_cfg os)) (fst (wspec_run ([], [], None) os (snd (wrun_gen c h winit_cfg os)))) /\
    Forall2 out_equiv (snd (wrun_gen c h winit_cfg os)) (snd (wspec_run ([], [], None) os (snd (wrun_gen c h winit_cfg os)))).
Proof. exact momo_world_refines_all_histories. Qed.
Print Assumptions C01_momo_world_refines_all_histories.

(* ---------- "Hash table is full" is unreachable ----------
   If the probe sequence of every hash code visits every bucket within bucketCount probes and CalcCapacity(bc) <= maxCount*bc,
   then in every reachable state (Inv + mCapacity <= maxCount * bucketCount of the newest table) an insert of an absent key
   can only throw from the length_error bound of Buckets::Create (table beyond 2^maxLog buckets; since 7a001ad pvAddGrow
   chooses the size with the same loop as Reserve, so an overloaded table can always grow): pvAddNogrow never reports
   "Hash table is full" when mCount < mCapacity, and the fresh table of pvAddGrow always accepts the item.  Buckets without
   a bound (UnlimP; `unlimited`) are never full at all. *)
Theorem C01_never_table_full :
  forall B b0 decode upd_bound h cap unlimited wf0 wfThr start next logStart calcCapacity shift maxLog Binv,
    ModelOK B b0 decode upd_bound cap unlimited wfThr start next logStart shift maxLog Binv ->
    (forall hc log b, 0 <= log <= maxLog -> 0 <= b < 2 ^ log ->
       exists p : nat, Z.of_nat p < 2 ^ log /\ path start next hc (2 ^ log) p = b) ->
    forall s k v bud s',
      Reach B b0 decode h cap unlimited wf0 start next maxLog Binv s ->
      step B b0 decode upd_bound h cap unlimited wf0 wfThr start next logStart calcCapacity shift maxLog s (OInsert k v bud) = (s', RExn) ->
      ~ (count s < capacity s) /\
      match reserve_log calcCapacity 64 (newLog B logStart shift (gens s)) (count s + 1) with Some nl => maxLog < nl | None => True end.
Proof. exact never_table_full. Qed.
Print Assumptions C01_never_table_full.

(* momo's probing schemes (linear: BucketBase / LimP4; triangular: Open2N2 / Open8) visit every bucket, and the mirrored
   CalcCapacity formulas fit the table *)
Theorem C01_momo_probe_cover :
  forall probing hc log b, 0 <= log <= max_log -> 0 <= b < 2 ^ log ->
    exists p : nat, Z.of_nat p < 2 ^ log /\ path start_fn (next_fn probing) hc (2 ^ log) p = b.
Proof. exact momo_probe_cover. Qed.
Print Assumptions C01_momo_probe_cover.

Theorem C01_momo_reachable_all_histories :
  forall c (h : Z -> Z), cfg_valid c -> forall os,
    Reach BS bs0 (decode_fn (c_bound c)) h (c_cap c) (c_unlimited c) (c_wf0 c) start_fn (next_fn (c_probing c)) max_log
          (Binv_of (c_bound c)) (fst (run_gen c h init_cfg os)).
Proof. exact momo_reachable_all_histories. Qed.
Print Assumptions C01_momo_reachable_all_histories.

Theorem C01_momo_never_table_full :
  forall c (h : Z -> Z), cfg_valid c -> forall s k v bud s',
    Reach BS bs0 (decode_fn (c_bound c)) h (c_cap c) (c_unlimited c) (c_wf0 c) start_fn (next_fn (c_probing c)) max_log
          (Binv_of (c_bound c)) s ->
    step_gen c h s (OInsert k v bud) = (s', RExn) ->
    ~ (count s < capacity s) /\
    match reserve_log (calc_capacity (c_pol c) (c_cap c)) 64 (newLog BS (c_logStart c) (shift_fn (c_pol c) (c_cap c)) (gens s)) (count s + 1)
    with Some nl => max_log < nl | None => True end.
Proof. exact momo_never_table_full. Qed.
Print Assumptions C01_momo_never_table_full.

(* ---------- in-bucket search: the short-hash filter of Bucket::Find never skips a stored key ----------
   find_sh mirrors `for (i < maxCount) if (shortHashes[i] == shortHash && itemPred(items[i])) return`; if every stored item
   carries the short hash of its own hash code and the unused slots carry bytes >= the empty marker, the scan neither reads an
   unused slot nor misses the key, and returns exactly the plain key search used by the hash-table model. *)
Theorem C01_bucket_find_complete :
  forall (h : Z -> Z) (calcSH : Z -> Z) (emptyFrom : Z), (forall k, calcSH (h k) < emptyFrom) ->
    forall k its empties i, Forall (fun s => emptyFrom <= s) empties ->
      find_sh (map (tag h calcSH) its ++ empties) its (calcSH (h k)) k i = Some (bfind k its i).
Proof. exact bucket_find_complete. Qed.
Print Assumptions C01_bucket_find_complete.

(* ... instantiated with the pvCalcShortHash / ptCalcShortHash regenerated from LimP4, Open2N2 (8-bit variant), OpenN1 (= the
   scalar loop of Open8), for every hash function with size_t values *)
Theorem C01_limp4_find_complete :
  forall (h : Z -> Z), (forall k, 0 <= h k < 2 ^ 64) -> forall k its empties i,
    Forall (fun s => 128 <= s) empties ->
    find_sh (map (tag h Gen_LimP4.pvCalcShortHash) its ++ empties) its (Gen_LimP4.pvCalcShortHash (h k)) k i = Some (bfind k its i).
Proof. exact limp4_find_complete. Qed.
Print Assumptions C01_limp4_find_complete.

Theorem C01_open2n2_find_complete :
  forall (h : Z -> Z), (forall k, 0 <= h k < 2 ^ 64) -> forall k its empties i,
    Forall (fun s => 128 <= s) empties ->
    find_sh (map (tag h Gen_Open2N2.pvCalcShortHash) its ++ empties) its (Gen_Open2N2.pvCalcShortHash (h k)) k i = Some (bfind k its i).
Proof. exact open2n2_find_complete. Qed.
Print Assumptions C01_open2n2_find_complete.

Theorem C01_openn1_find_complete :
  forall (h : Z -> Z), (forall k, 0 <= h k < 2 ^ 64) -> forall k its empties i,
    Forall (fun s => Gen_OpenN1.emptyShortHash <= s) empties ->
    find_sh (map (tag h Gen_OpenN1.ptCalcShortHash) its ++ empties) its (Gen_OpenN1.ptCalcShortHash (h k)) k i = Some (bfind k its i).
Proof. exact openn1_find_complete. Qed.
Print Assumptions C01_openn1_find_complete.

(* ---------- round 3 ---------- *)
(* ALL histories of the pair of containers, interrupted MergeTo included: the abstract run is the relation wtrace whose rule for
   a throwing MergeTo says: the union of the two contents is unchanged as a multiset (every element is in exactly one of the two
   containers afterwards), both keep distinct keys; every other throwing operation changes nothing. *)
Theorem C01_momo_world_traces_all_histories :
  forall c (h : Z -> Z), cfg_valid c -> forall os,
    exists m', wtrace ([], [], None) os (snd (wrun_gen c h winit_cfg os)) m' /\
      WR BS bs0 (decode_fn (c_bound c)) h (c_cap c) (c_unlimited c) (c_wf0 c) start_fn (next_fn (c_probing c)) max_log (Binv_of (c_bound c))
         (fst (wrun_gen c h winit_cfg os)) m'.
Proof. exact momo_world_traces_all_histories. Qed.
Print Assumptions C01_momo_world_traces_all_histories.

(* The iterator as a machine (HashSetConstIterator::pvInc / pvMove; state = generation, bucket index, position):
   GetBegin(); while (iter) { visit; ++iter; } visits exactly the model's traversal list, in that order -- for ANY state
   (no invariant needed); with C01_traversal_perm: each stored item exactly once. *)
Theorem C01_iterate_eq_traverse :
  forall (B : Type) (s : hset B),
    it_collect B (length (traverse B s)) s (it_begin B s) = if (count s =? 0) then [] else traverse B s.
Proof. exact IterMachine.iterate_eq_traverse. Qed.
Print Assumptions C01_iterate_eq_traverse.

(* "Remove(iter) returns the next iterator": after it' = Remove(it) (swap-with-last in the bucket, then pvInc in the new
   state) what remains to be visited from it' in the NEW container is exactly what remained after it in the OLD one --
   nothing is skipped, nothing is visited twice (rest = the list it_collect produces, IterMachine.collect_rest). *)
Theorem C01_iter_remove_returns_rest :
  forall (B : Type) (b0 : B) (wf0 : bool) (s : hset B) gi bi p,
    IterMachine.valid B s (Some (gi, bi, p)) ->
    IterMachine.rest B (fst (it_remove B b0 wf0 s (Some (gi, bi, p)))) (snd (it_remove B b0 wf0 s (Some (gi, bi, p)))) =
    IterMachine.rest B s (it_next B s (Some (gi, bi, p))).
Proof. exact IterMachine.it_remove_rest. Qed.
Print Assumptions C01_iter_remove_returns_rest.

(* Open2N2 with 16-bit short hashes (useHashCodePartGetter = false) *)
Theorem C01_open2n2w_find_complete :
  forall (h : Z -> Z), (forall k, 0 <= h k < 2 ^ 64) -> forall k its empties i,
    Forall (fun s => 32768 <= s) empties ->
    find_sh (map (tag h Gen_Open2N2w.pvCalcShortHash) its ++ empties) its (Gen_Open2N2w.pvCalcShortHash (h k)) k i = Some (bfind k its i).
Proof. exact open2n2w_find_complete. Qed.
Print Assumptions C01_open2n2w_find_complete.

(* the stored bytes stay in step with the items over every bucket history (AddCrt appends item + its short hash, Remove moves
   the last item AND its byte into the hole), so the short-hash filter finds exactly what the key search finds after any history *)
Theorem C01_bucket_find_complete_all_histories :
  forall (h : Z -> Z) (calcSH : Z -> Z) (emptyFrom : Z),
    (forall k, calcSH (h k) < emptyFrom) -> forall os k empties i, Forall (fun s => emptyFrom <= s) empties ->
      let st := fold_left (bstep (tag h calcSH)) os ([], []) in
      find_sh (fst st ++ empties) (snd st) (calcSH (h k)) k i = Some (bfind k (snd st) i).
Proof. exact bucket_find_complete_all_histories. Qed.
Print Assumptions C01_bucket_find_complete_all_histories.

(* ---------- round 4 ---------- *)
(* Since round 4 `step` (ORemoveIf) and `wstep` (WMergeAB) ARE the code's loops over the iterator machine:
     it = GetBegin(); while (it) { if (filter(item)) it = Remove(it); else ++it; }            (HashModel.rf_loop)
     it = GetBegin(); while (it) { if (!dst.InsertCrt(key, extract(it)).inserted) ++it; }      (HashModel.merge_m)
   so C01_step_refines / C01_hash_refines_all_histories / C01_world_step_refines / C01_momo_world_traces_all_histories above speak
   about that loop structure.  Remove(filter) as the machine loop removes exactly the matching items and counts them: *)
Theorem C01_remove_if_machine_spec :
  forall B b0 decode upd_bound h cap unlimited wf0 wfThr start next logStart shift maxLog Binv,
    ModelOK B b0 decode upd_bound cap unlimited wfThr start next logStart shift maxLog Binv ->
    forall s p s' c, Inv B b0 decode h cap unlimited wf0 start next maxLog Binv s -> hremove_if_m B b0 wf0 s p = (s', c) ->
      Inv B b0 decode h cap unlimited wf0 start next maxLog Binv s' /\
      Permutation (hall B s') (filter (ListAux.negp p) (hall B s)) /\
      c = Z.of_nat (length (hall B s)) - Z.of_nat (length (hall B s')).
Proof. exact remove_if_machine_spec. Qed.
Print Assumptions C01_remove_if_machine_spec.

(* the iterator handed back by Remove(iter) is again a valid position (or end) of the new container *)
Theorem C01_iter_remove_valid :
  forall (B : Type) (b0 : B) (wf0 : bool) (s : hset B) gi bi p,
    IterMachine.valid B s (Some (gi, bi, p)) ->
    IterMachine.valid B (fst (it_remove B b0 wf0 s (Some (gi, bi, p)))) (snd (it_remove B b0 wf0 s (Some (gi, bi, p)))).
Proof. exact IterMachine.it_remove_valid. Qed.
Print Assumptions C01_iter_remove_valid.

(* per-kind facts against regenerated leaves: UnlimP is never full / never was full / max probe 0 (= model parameters
   unlimited, wf0 = false, bound kind 1); LimP1's state byte decoders and IsFull <-> count = maxCount *)
Theorem C01_unlimp_facts : Gen_UnlimP.IsFull = false /\ Gen_UnlimP.WasFull = false /\ Gen_UnlimP.GetMaxProbe = 0.
Proof. exact KindFacts.unlimp_facts. Qed.
Print Assumptions C01_unlimp_facts.

Theorem C01_limp1_state_decoders :
  forall maxCount idx count, 0 <= idx < 16 -> 0 <= count < 16 ->
    Gen_LimP1.pvGetCount (idx * 16 + count) = count /\
    Gen_LimP1.pvGetMemPoolIndex (idx * 16 + count) = idx /\
    (Gen_LimP1.IsFull maxCount (idx * 16 + count) = true <-> count = maxCount).
Proof. exact KindFacts.limp1_state_decoders. Qed.
Print Assumptions C01_limp1_state_decoders.

(* ---------- round 5 ---------- *)
(* BucketOpen8::Find, SSE2 variant: with mask = movemask(cmpeq(set1(shortHash), the 7 slot bytes)) the loop
   `for (; mask; mask &= mask - 1) itemPred(items[ctz(mask)])` calls itemPred exactly on the slots whose byte equals the short
   hash, in increasing slot order -- i.e. it is the scalar short-hash filter loop (C01_openn1_find_complete applies to it). *)
Theorem C01_open8_match_visits :
  forall (bytes : list Z) (sh : Z), length bytes = 7%nat ->
    Open8Match.visit 8 (Open8Match.movemask bytes sh) = Open8Match.positions bytes sh.
Proof. exact Open8Match.open8_match_visits. Qed.
Print Assumptions C01_open8_match_visits.

Theorem C01_open8_positions_spec :
  forall eqs i x, In x (Open8Match.pos_b eqs i) <-> exists j, nth_error eqs j = Some true /\ x = i + Z.of_nat j.
Proof. exact Open8Match.pos_b_spec. Qed.
Print Assumptions C01_open8_positions_spec.

(* per-kind WasFull rules against the regenerated leaves (both pvGetMemPoolIndex overloads; asserts dropped with -DNDEBUG):
   WasFull() = (stored pool index == index(maxCount)), and index(c) = index(maxCount) exactly from the threshold that
   prop.py params() uses: LimP1 -- c = maxCount, or c = 1 when the first pool is skipped and maxCount = 2;  Lim4 -- c = maxCount,
   null state not-was-full / null-was-full state was-full, the state word packs an ABSTRACT pointer and the pool index is read
   back;  LimP (pointer state, odd pools skipped, maxCount 8) -- already from c = 7. *)
Theorem C01_limp1_wasfull_rule :
  forall maxCount idx count, 0 <= idx < 16 -> 0 <= count < 16 ->
    Gen_LimP1t.WasFull maxCount (idx * 16 + count) = (idx =? Gen_LimP1t.pvGetMemPoolIndexOf maxCount).
Proof. exact KindFacts.limp1t_wasfull. Qed.
Print Assumptions C01_limp1_wasfull_rule.

Theorem C01_limp1_index_rule_skipfirst :
  forall maxCount c, 1 <= c <= maxCount ->
    (Gen_LimP1t.pvGetMemPoolIndexOf c = Gen_LimP1t.pvGetMemPoolIndexOf maxCount <-> (c = maxCount \/ (maxCount = 2 /\ c = 1))).
Proof. exact KindFacts.limp1t_index_rule. Qed.
Print Assumptions C01_limp1_index_rule_skipfirst.

Theorem C01_limp1_index_rule_noskip :
  forall maxCount c, 1 <= c <= maxCount ->
    (Gen_LimP1f.pvGetMemPoolIndexOf c = Gen_LimP1f.pvGetMemPoolIndexOf maxCount <-> c = maxCount).
Proof. exact KindFacts.limp1f_index_rule. Qed.
Print Assumptions C01_limp1_index_rule_noskip.

Theorem C01_lim4_wasfull_rule :
  Gen_Lim4.maxCount = 4 /\
  Gen_Lim4.WasFull Gen_Lim4.stateNull = false /\ Gen_Lim4.WasFull Gen_Lim4.stateNullWasFull = true /\
  (forall c, Gen_Lim4.pvGetMemPoolIndexOf c = c) /\
  (forall st, Gen_Lim4.pvIsEmpty st = false ->
     Gen_Lim4.WasFull st = (Gen_Lim4.pvGetMemPoolIndex st =? Gen_Lim4.pvGetMemPoolIndexOf Gen_Lim4.maxCount)).
Proof. exact KindFacts.lim4_wasfull_rule. Qed.
Print Assumptions C01_lim4_wasfull_rule.

Theorem C01_lim4_pack_index :
  forall st ptr idx count, 1 <= idx <= 4 -> 1 <= count <= idx -> 0 <= ptr -> ptr * idx + count - 1 < 2 ^ 30 ->
    Gen_Lim4.pvGetMemPoolIndex (Gen_Lim4.pvSet st ptr idx count) = idx.
Proof. exact KindFacts.lim4_pack_index. Qed.
Print Assumptions C01_lim4_pack_index.

Theorem C01_limp_wasfull_rule :
  Gen_LimP.maxCount = 8 /\ Gen_LimP.skipOddMemPools = true /\
  Gen_LimP.WasFull Gen_LimP.stateNull = false /\ Gen_LimP.WasFull Gen_LimP.stateNullWasFull = true /\
  (forall c, 1 <= c <= 8 -> (Gen_LimP.pvGetMemPoolIndexOf c = Gen_LimP.pvGetMemPoolIndexOf Gen_LimP.maxCount <-> 7 <= c)).
Proof. exact KindFacts.limp_wasfull_rule. Qed.
Print Assumptions C01_limp_wasfull_rule.

(* ---------- model growth: the REAL byte operations of BucketOpenN1 / BucketOpen8 (= OpenN1<7,false>) ----------
   regenerated AddCrt / Remove / Clear / IsFull / pvGetCount (symbolic maxCount in 1..7, both `reverse` layouts) refine the
   list-level bucket of BucketFind.v: `repr d tags` = the occupied slots hold `tags` in Bounds order, unused slots hold bytes >= 248,
   the state byte (shared with the last slot) holds 248 + count.  FRAME: none of them touches the max-probe byte mData[maxCount],
   and anything that writes only that byte (UpdateMaxProbe) keeps `repr`. *)
Theorem C01_openn1_count_isfull :
  forall maxCount reverse, 1 <= maxCount <= 7 -> forall d tags, OpenN1Ops.repr maxCount reverse d tags ->
    Gen_OpenN1_ops.pvGetCount reverse maxCount d = Z.of_nat (length tags) /\
    (Gen_OpenN1_ops.IsFull reverse maxCount d = true <-> Z.of_nat (length tags) = maxCount).
Proof. exact OpenN1Ops.n1_count_isfull. Qed.
Print Assumptions C01_openn1_count_isfull.

Theorem C01_openn1_clear :
  forall maxCount reverse, 1 <= maxCount <= 7 -> forall d,
    OpenN1Ops.repr maxCount reverse (Gen_OpenN1_ops.pvSetEmpty maxCount d) [] /\ Gen_OpenN1_ops.pvSetEmpty maxCount d maxCount = 0.
Proof. exact OpenN1Ops.n1_clear. Qed.
Print Assumptions C01_openn1_clear.

Theorem C01_openn1_addcrt :
  forall maxCount reverse, 1 <= maxCount <= 7 -> forall d tags hc ni,
    OpenN1Ops.repr maxCount reverse d tags -> Z.of_nat (length tags) < maxCount -> 0 <= hc < 2 ^ 64 ->
    exists d', Gen_OpenN1_ops.AddCrt reverse maxCount d hc ni = GenPrelude.Ok (tt, d') /\
      OpenN1Ops.repr maxCount reverse d' (tags ++ [Gen_OpenN1_ops.ptCalcShortHash hc]) /\ d' maxCount = d maxCount.
Proof. exact OpenN1Ops.n1_addcrt. Qed.
Print Assumptions C01_openn1_addcrt.

Theorem C01_openn1_remove :
  forall maxCount reverse, 1 <= maxCount <= 7 -> forall d tags idx,
    OpenN1Ops.repr maxCount reverse d tags -> 0 <= idx < Z.of_nat (length tags) ->
    exists d', Gen_OpenN1_ops.Remove reverse maxCount d idx = GenPrelude.Ok (tt, d') /\
      OpenN1Ops.repr maxCount reverse d' (gbremove (Z.to_nat idx) tags) /\ d' maxCount = d maxCount.
Proof. exact OpenN1Ops.n1_remove. Qed.
Print Assumptions C01_openn1_remove.

Theorem C01_openn1_bound_frame :
  forall maxCount reverse, 1 <= maxCount <= 7 -> forall d d' tags,
    OpenN1Ops.repr maxCount reverse d tags -> (forall i, i <> maxCount -> d' i = d i) -> OpenN1Ops.repr maxCount reverse d' tags.
Proof. exact OpenN1Ops.n1_bound_frame. Qed.
Print Assumptions C01_openn1_bound_frame.

Theorem C01_openn1_slots :
  forall maxCount reverse d tags, OpenN1Ops.repr maxCount reverse d tags ->
    forall i, 0 <= i < maxCount ->
      (i < Z.of_nat (length tags) -> d (OpenN1Ops.slot maxCount reverse i) = nth (Z.to_nat i) tags 0) /\
      (Z.of_nat (length tags) <= i -> 248 <= d (OpenN1Ops.slot maxCount reverse i)).
Proof. exact OpenN1Ops.n1_slots. Qed.
Print Assumptions C01_openn1_slots.

(* ---------- growth round 2: the REAL byte operations of BucketOpen2N2 (regenerated, symbolic maxCount in 1..3, part-getter layout) ----------
   `repr2 st sh hp tags probes`: Bounds position j lives in slot maxCount-1-j; occupied slots hold short hashes `tags` (< 128) and hash-probe
   bytes `probes`, unused slots the empty marker 128, the low two bits of mState[1] the count.  AddCrt appends the pair, Remove moves the LAST
   pair into the hole, Clear empties; FRAME: the max-probe encoding (mState[0], mState[1] >> 2) is untouched, and whoever keeps the two count
   bits (UpdateMaxProbe) keeps repr2. *)
Theorem C01_open2n2_count :
  forall maxCount st sh hp tags probes, Open2N2Ops.repr2 maxCount st sh hp tags probes ->
    Gen_Open2N2_ops.pvGetCount st sh hp = Z.of_nat (length tags).
Proof. exact Open2N2Ops.o2_count. Qed.
Print Assumptions C01_open2n2_count.

Theorem C01_open2n2_isfull :
  forall maxCount, 1 <= maxCount <= 3 -> forall st sh hp tags probes, Open2N2Ops.repr2 maxCount st sh hp tags probes ->
    (Gen_Open2N2_ops.IsFull st sh hp = true <-> Z.of_nat (length tags) = maxCount).
Proof. exact Open2N2Ops.o2_isfull. Qed.
Print Assumptions C01_open2n2_isfull.

Theorem C01_open2n2_clear :
  forall maxCount, 1 <= maxCount <= 3 -> forall st sh hp,
    let '(st', sh') := Gen_Open2N2_ops.pvSetEmpty maxCount st sh hp in
    Open2N2Ops.repr2 maxCount st' sh' hp [] [] /\ st' 0 = 0 /\ st' 1 = 0.
Proof. exact Open2N2Ops.o2_clear. Qed.
Print Assumptions C01_open2n2_clear.

Theorem C01_open2n2_addcrt :
  forall maxCount, 1 <= maxCount <= 3 -> forall st sh hp tags probes hc lg pr ni,
    Open2N2Ops.repr2 maxCount st sh hp tags probes -> Z.of_nat (length tags) < maxCount -> 0 <= hc < 2 ^ 64 ->
    exists st' sh' hp', Gen_Open2N2_ops.AddCrt maxCount st sh hp hc lg pr ni = GenPrelude.Ok (tt, st', sh', hp') /\
      Open2N2Ops.repr2 maxCount st' sh' hp' (tags ++ [Gen_Open2N2_ops.pvCalcShortHash hc]) (probes ++ [Open2N2Ops.probe_byte hc lg pr]) /\
      st' 0 = st 0 /\ st' 1 / 4 = st 1 / 4.
Proof. exact Open2N2Ops.o2_addcrt. Qed.
Print Assumptions C01_open2n2_addcrt.

Theorem C01_open2n2_remove :
  forall maxCount, 1 <= maxCount <= 3 -> forall st sh hp tags probes j,
    Open2N2Ops.repr2 maxCount st sh hp tags probes -> 0 <= j < Z.of_nat (length tags) ->
    exists st' sh' hp', Gen_Open2N2_ops.Remove maxCount st sh hp (Open2N2Ops.slot2 maxCount j) = GenPrelude.Ok (tt, st', sh', hp') /\
      Open2N2Ops.repr2 maxCount st' sh' hp' (gbremove (Z.to_nat j) tags) (gbremove (Z.to_nat j) probes) /\
      st' 0 = st 0 /\ st' 1 / 4 = st 1 / 4.
Proof. exact Open2N2Ops.o2_remove. Qed.
Print Assumptions C01_open2n2_remove.

Theorem C01_open2n2_bound_frame :
  forall maxCount st st' sh hp tags probes, Open2N2Ops.repr2 maxCount st sh hp tags probes ->
    0 <= st' 1 < 256 -> (st' 1) mod 4 = (st 1) mod 4 -> Open2N2Ops.repr2 maxCount st' sh hp tags probes.
Proof. exact Open2N2Ops.o2_bound_frame. Qed.
Print Assumptions C01_open2n2_bound_frame.

Theorem C01_open2n2_slots :
  forall maxCount st sh hp tags probes, Open2N2Ops.repr2 maxCount st sh hp tags probes -> forall j, 0 <= j < maxCount ->
    (j < Z.of_nat (length tags) -> sh (Open2N2Ops.slot2 maxCount j) = nth (Z.to_nat j) tags 0) /\
    (Z.of_nat (length tags) <= j -> 128 <= sh (Open2N2Ops.slot2 maxCount j)).
Proof. exact Open2N2Ops.o2_slots. Qed.
Print Assumptions C01_open2n2_slots.

(* BucketOne (regenerated AddCrt / Remove / Clear / IsFull / WasFull on the 64-bit hash state): a cleared bucket is neither full nor
   was-full; AddCrt makes it full and was-full; Remove makes it not full and leaves was-full set; = the model's cap 1, wf0 false, wfThr 1 *)
Theorem C01_one_ops_facts :
  (Gen_One.IsFull (Gen_One.Clear 0) = false /\ Gen_One.WasFull (Gen_One.Clear 0) = false) /\
  (forall st hc, Gen_One.IsFull st = false ->
     exists st', Gen_One.AddCrt st hc = GenPrelude.Ok (tt, st') /\ Gen_One.IsFull st' = true /\ Gen_One.WasFull st' = true) /\
  (forall st a, Gen_One.IsFull st = true ->
     exists st', Gen_One.Remove st a a = GenPrelude.Ok (tt, st') /\ Gen_One.IsFull st' = false /\ Gen_One.WasFull st' = true).
Proof. exact KindFacts.one_ops_facts. Qed.
Print Assumptions C01_one_ops_facts.

(* ---------- growth round 3 ---------- *)
(* BucketLimP4 (regenerated AddCrt / Remove with the pointer state as two scalars and the pool memories opaque; class invariants as
   preconditions): AddCrt appends the new item's short hash (and hash-probe byte) at position count, with the memory-pool-index bookkeeping
   of pvAdd0 / pvAdd<1..3> / in-place; Remove(idx) moves the LAST item's pair into the hole; WasFull follows the hand model's rule
   WasFull' = WasFull || (count' = maxCount) and is sticky under Remove (also when the bucket becomes empty). *)
Theorem C01_limp4_addcrt_repr :
  forall H s ptr stt c sh bv x L probe m0a m0b m1a m1b m2a m2b m3a m3b m4a m4b,
    4 <= H <= 8 -> 0 <= x < 2 ^ 64 -> 0 <= L <= 63 -> 0 <= probe < 2 ^ 64 -> 0 <= stt < 4 ->
    P4_Bucket.p4_inv H s c sh bv -> c < 4 -> c <= stt + 1 -> (ptr = 0 <-> c = 0) -> (c = 0 -> stt + 1 = 2 \/ stt + 1 = 4) ->
    exists r s' ptr' stt',
      Gen_P4A.AddCrt H 2 s ptr stt x L probe m0a m0b m1a m1b m2a m2b m3a m3b m4a m4b = GenPrelude.Ok (r, s', ptr', stt') /\
      P4_Bucket.p4_inv H s' (c + 1) (GenPrelude.upd sh c (Gen_P4.pvCalcShortHash x)) (GenPrelude.upd bv c (P4_Slot.p4_byte x L probe)) /\
      0 <= stt' < 4 /\ c + 1 <= stt' + 1 /\
      Gen_P4A.WasFull s' ptr' stt' = orb (Gen_P4A.WasFull s ptr stt) (c + 1 =? 4).
Proof. exact LimP4Ops.limp4_addcrt_repr. Qed.
Print Assumptions C01_limp4_addcrt_repr.

Theorem C01_limp4_remove_repr :
  forall H s ptr stt c sh bv idx iter, 4 <= H <= 8 -> 0 <= stt < 4 ->
    P4_Bucket.p4_inv H s c sh bv -> 2 <= c -> 0 <= idx < c -> ptr <> 0 -> (forall i, 0 <= i < c -> 128 <= bv i < 256) ->
    exists r s' stt',
      Gen_P4A.Remove H 2 s ptr stt iter idx = GenPrelude.Ok (r, s', ptr, stt') /\
      P4_Bucket.p4_inv H s' (c - 1) (GenPrelude.upd sh idx (sh (c - 1))) (GenPrelude.upd bv idx (bv (c - 1))) /\
      Gen_P4A.WasFull s' ptr stt' = Gen_P4A.WasFull s ptr stt.
Proof. exact LimP4Ops.limp4_remove_repr. Qed.
Print Assumptions C01_limp4_remove_repr.

Theorem C01_limp4_remove_last_repr :
  forall H s ptr stt sh bv iter, 4 <= H <= 8 -> 0 <= stt < 4 ->
    P4_Bucket.p4_inv H s 1 sh bv -> ptr <> 0 -> iter = ptr ->
    exists r s' stt',
      Gen_P4A.Remove H 2 s ptr stt iter 0 = GenPrelude.Ok (r, s', 0, stt') /\ P4_Bucket.p4_inv H s' 0 sh bv /\
      Gen_P4A.WasFull s' 0 stt' = Gen_P4A.WasFull s ptr stt /\ (stt' + 1 = 2 \/ stt' + 1 = 4).
Proof. exact LimP4Ops.limp4_remove_last_repr. Qed.
Print Assumptions C01_limp4_remove_last_repr.

(* glue: what the HashSet-level hand model evaluates on its list buckets is what the regenerated leaves evaluate on the real bytes:
   pvAddNogrow's loop condition (IsFull) for OpenN1 / Open8 and Open2N2, and pvFind's in-bucket search (short-hash filter loop over the
   byte slots read in Bounds order) for OpenN1 / Open8 *)
Theorem C01_openn1_isfull_glue :
  forall (B : Type) (h : Z -> Z) maxCount reverse, 1 <= maxCount <= 7 -> forall (b : bucket B) (d : Z -> Z),
    OpenN1Ops.repr maxCount reverse d (map (Glue.tagN1 h) (items b)) ->
    Gen_OpenN1_ops.IsFull reverse maxCount d = isFull B maxCount false b.
Proof. exact Glue.n1_isfull_glue. Qed.
Print Assumptions C01_openn1_isfull_glue.

Theorem C01_openn1_find_glue :
  forall (B : Type) (h : Z -> Z) maxCount reverse, 1 <= maxCount <= 7 -> (forall k, 0 <= h k < 2 ^ 64) -> forall (b : bucket B) (d : Z -> Z) k,
    OpenN1Ops.repr maxCount reverse d (map (Glue.tagN1 h) (items b)) ->
    find_sh (Glue.slots_of maxCount reverse d) (items b) (Gen_OpenN1_ops.ptCalcShortHash (h k)) k 0 = Some (bfind k (items b) 0).
Proof. exact Glue.n1_find_glue. Qed.
Print Assumptions C01_openn1_find_glue.

Theorem C01_open2n2_isfull_glue :
  forall (B : Type) (h : Z -> Z) maxCount, 1 <= maxCount <= 3 -> forall (b : bucket B) st sh hp probes,
    Open2N2Ops.repr2 maxCount st sh hp (map (Glue.tagO2 h) (items b)) probes ->
    Gen_Open2N2_ops.IsFull st sh hp = isFull B maxCount false b.
Proof. exact Glue.o2_isfull_glue. Qed.
Print Assumptions C01_open2n2_isfull_glue.

(* HashSet::Reserve / pvAddGrow size loops, REGENERATED from HashSet.h (Gen_HashSetGrow): they end for EVERY requested capacity
   (with a size or with length_error; never out of fuel -- the f76c2d4 bound) and a delivered size is the hand model's reserve_log *)
Theorem reserve_loop_terminates : forall mc calcCapacity cap ht nc nl, 0 <= nl <= 63 ->
  Gen_HashSetGrow.Reserve_loop0 mc (fun bc _ => calcCapacity bc) Gen_HashSetGrow.fuel_of_Reserve cap ht nc nl <> GenPrelude.Fuel /\
  Gen_HashSetGrow.Reserve_loop0 mc (fun bc _ => calcCapacity bc) Gen_HashSetGrow.fuel_of_Reserve cap ht nc nl <> GenPrelude.Stuck.
Proof. exact GrowLoops.reserve_loop_terminates. Qed.
Print Assumptions reserve_loop_terminates.

Theorem reserve_loop_agrees : forall mc calcCapacity cap ht nc nl c' nl', 0 <= nl <= 63 ->
  Gen_HashSetGrow.Reserve_loop0 mc (fun bc _ => calcCapacity bc) Gen_HashSetGrow.fuel_of_Reserve cap ht nc nl = GenPrelude.Ok (None, (c', nl')) ->
  HashModel.reserve_log calcCapacity 64 nl cap = Some nl' /\ c' = calcCapacity (2 ^ nl').
Proof. exact GrowLoops.reserve_loop_agrees. Qed.
Print Assumptions reserve_loop_agrees.

Theorem addgrow_loop_terminates_agrees : forall mc calcCapacity ht cnt nc nl, 0 <= nl <= 63 ->
  match Gen_HashSetGrow.pvAddGrow_loop0 mc (fun bc _ => calcCapacity bc) Gen_HashSetGrow.fuel_of_pvAddGrow ht cnt nc nl with
  | GenPrelude.Ok (None, (c', nl')) => HashModel.reserve_log calcCapacity 64 nl (cnt + 1) = Some nl' /\ c' = calcCapacity (2 ^ nl')
  | GenPrelude.Exn => forall j, nl <= j <= 63 -> calcCapacity (2 ^ j) < cnt + 1
  | _ => False
  end.
Proof. exact GrowLoops.addgrow_loop_terminates_agrees. Qed.
Print Assumptions addgrow_loop_terminates_agrees.

(* table level, OpenN1 / Open8: ONE GENERATION AS AN ARRAY OF BYTE BUCKETS (bt : bucket index -> mData bytes).  gtfind IS the REGENERATED
   HashSet::pvFind(indexCode, buckets, pred) (Gen_HSFindIn.pvFindIn: start bucket + WasFull-guarded probe loop; result = encoded item address
   1 + 8 * bucket + position, 0 = not found), gtadd IS the REGENERATED pvAddNogrow (Gen_HSAdd: IsFull probe loop, "table is full" throw) followed
   by AddCrt + UpdateMaxProbe, gtremove = Remove; their bucket primitives are the
   REGENERATED leaves Gen_OpenN1_ops.IsFull / WasFull / AddCrt / Remove, Gen_OpenN1.GetMaxProbe / UpdateMaxProbe, ptCalcShortHash and
   do what the hand model's tfind / tadd / tremove do on list buckets under the representation `trep`, which they preserve *)
Theorem C01_openn1_table_find_refines :
  forall h : Z -> Z, (forall k, 0 <= h k < 2 ^ 64) -> forall maxCount reverse, 1 <= maxCount <= 7 ->
  forall (start : Z -> Z -> Z) (next : Z -> Z -> Z -> Z) maxLog, maxLog <= 63 ->
  (forall hc log, 0 <= log <= maxLog -> 0 <= start hc (2 ^ log) < 2 ^ log) ->
  (forall i log p, 0 <= log <= maxLog -> 0 <= i < 2 ^ log -> 0 <= next i (2 ^ log) p < 2 ^ log) ->
  forall (t : table BS) (bt : TableN1.bytes) k, TableN1.trep h maxCount reverse maxLog t bt ->
    TableN1.gtfind h maxCount reverse start next t bt k = GenPrelude.Ok (TableN1.enc_pos (tfind BS bs0 (decode_fn (TableN1.kind maxCount)) h true start next t k)).
Proof. exact TableN1.gtfind_refines. Qed.
Print Assumptions C01_openn1_table_find_refines.

Theorem C01_openn1_table_add_refines :
  forall h : Z -> Z, (forall k, 0 <= h k < 2 ^ 64) -> forall maxCount reverse, 1 <= maxCount <= 7 ->
  forall wfThr (start : Z -> Z -> Z) (next : Z -> Z -> Z -> Z) maxLog, maxLog <= 63 ->
  (forall hc log, 0 <= log <= maxLog -> 0 <= start hc (2 ^ log) < 2 ^ log) ->
  (forall i log p, 0 <= log <= maxLog -> 0 <= i < 2 ^ log -> 0 <= next i (2 ^ log) p < 2 ^ log) ->
  forall (t : table BS) (bt : TableN1.bytes) (kv : item), TableN1.trep h maxCount reverse maxLog t bt ->
    match tadd BS bs0 (upd_fn (TableN1.kind maxCount)) h maxCount false true wfThr start next t kv with
    | Some t' => exists idx bt', TableN1.gtadd maxCount reverse start next (tlog t) bt (h (fst kv)) = GenPrelude.Ok (Some (idx, bt')) /\
                   TableN1.trep h maxCount reverse maxLog t' bt' /\ In kv (items (getb BS bs0 true t' idx)) /\ 0 <= idx < 2 ^ tlog t
    | None => TableN1.gtadd maxCount reverse start next (tlog t) bt (h (fst kv)) = GenPrelude.Ok None
    end.
Proof. exact TableN1.gtadd_refines. Qed.
Print Assumptions C01_openn1_table_add_refines.

Theorem C01_openn1_table_remove_refines :
  forall (h : Z -> Z) maxCount reverse, 1 <= maxCount <= 7 -> forall maxLog (t : table BS) (bt : TableN1.bytes) idx pos,
    TableN1.trep h maxCount reverse maxLog t bt -> 0 <= idx < 2 ^ tlog t -> (pos < length (items (getb BS bs0 true t idx)))%nat ->
    exists bt', TableN1.gtremove maxCount reverse bt idx pos = GenPrelude.Ok bt' /\ TableN1.trep h maxCount reverse maxLog (tremove BS bs0 true t idx pos) bt'.
Proof. exact TableN1.gtremove_refines. Qed.
Print Assumptions C01_openn1_table_remove_refines.

(* ... along EVERY history of insertions / removals of one generation (2^0 .. 2^40 buckets, regenerated start / next index functions),
   starting from Clear()ed buckets: the byte generation never asserts / runs out of fuel, stays in `trep`, and every search on the bytes
   gives the hand model's answer *)
Theorem C01_openn1_generation_bytes_all_histories :
  forall (h : Z -> Z) maxCount reverse wfThr probing log d0 os t k,
  (forall k, 0 <= h k < 2 ^ 64) -> 1 <= maxCount <= 7 -> 0 <= log <= max_log ->
  TableN1.hrun h maxCount wfThr start_fn (next_fn probing) (newTable BS bs0 true log) os = Some t ->
  exists bt, TableN1.brun h maxCount reverse start_fn (next_fn probing) log (fun _ => Gen_OpenN1_ops.pvSetEmpty maxCount d0) os = GenPrelude.Ok (Some bt) /\
             TableN1.trep h maxCount reverse max_log t bt /\
             TableN1.gtfind h maxCount reverse start_fn (next_fn probing) t bt k =
               GenPrelude.Ok (TableN1.enc_pos (tfind BS bs0 (decode_fn (TableN1.kind maxCount)) h true start_fn (next_fn probing) t k)).
Proof. exact TableN1Inst.momo_openn1_generation_bytes. Qed.
Print Assumptions C01_openn1_generation_bytes_all_histories.

(* chained kind BucketLimP1 (items in a pool block behind a pointer): AddCrt / Remove / pvSet / IsFull / WasFull REGENERATED (Gen_LimP1_ops;
   maxCount and skipFirstMemPool symbolic, pointer = scalar, pool block = fresh value, item construction / relocation calls skipped):
   the state invariant J, append at position count, count - 1 on Remove, WasFull rule = the hand model's (wf0, wfThr), sticky under Remove *)
Theorem C01_limp1_count_isfull : forall skip maxCount, 1 <= maxCount <= 15 -> forall st ptr n, LimP1Ops.J skip maxCount st ptr n ->
  Gen_LimP1_ops.pvGetCount st ptr = n /\ (Gen_LimP1_ops.IsFull maxCount st ptr = true <-> n = maxCount).
Proof. exact LimP1Ops.lp1_count_isfull. Qed.
Print Assumptions C01_limp1_count_isfull.

Theorem C01_limp1_init : forall skip maxCount, 1 <= maxCount <= 15 -> forall st0 ptr0,
  let '(st, ptr) := Gen_LimP1_ops.pvSet st0 ptr0 0 (Gen_LimP1_ops.pvGetMemPoolIndex_of skip 1) 0 in
  LimP1Ops.J skip maxCount st ptr 0 /\
  Gen_LimP1_ops.WasFull skip maxCount st ptr = (Gen_LimP1_ops.pvGetMemPoolIndex_of skip 1 =? Gen_LimP1_ops.pvGetMemPoolIndex_of skip maxCount).
Proof. exact LimP1Ops.lp1_init. Qed.
Print Assumptions C01_limp1_init.

Theorem C01_limp1_addcrt : forall skip maxCount, 1 <= maxCount <= 15 -> forall st ptr n mem,
  LimP1Ops.J skip maxCount st ptr n -> n < maxCount -> mem <> 0 ->
  exists pos st' ptr', Gen_LimP1_ops.AddCrt skip st ptr mem mem = GenPrelude.Ok (pos, st', ptr') /\ LimP1Ops.J skip maxCount st' ptr' (n + 1) /\
    pos = ptr' + n /\ (ptr' = ptr \/ ptr' = mem) /\
    Gen_LimP1_ops.WasFull skip maxCount st' ptr' =
      orb (Gen_LimP1_ops.WasFull skip maxCount st ptr) (Gen_LimP1_ops.pvGetMemPoolIndex_of skip (n + 1) =? Gen_LimP1_ops.pvGetMemPoolIndex_of skip maxCount).
Proof. exact LimP1Ops.lp1_addcrt. Qed.
Print Assumptions C01_limp1_addcrt.

Theorem C01_limp1_remove : forall skip maxCount, 1 <= maxCount <= 15 -> forall st ptr n iter,
  LimP1Ops.J skip maxCount st ptr n -> 1 <= n ->
  exists r st' ptr', Gen_LimP1_ops.Remove skip maxCount st ptr iter = GenPrelude.Ok (r, st', ptr') /\ LimP1Ops.J skip maxCount st' ptr' (n - 1) /\
    Gen_LimP1_ops.WasFull skip maxCount st' ptr' = Gen_LimP1_ops.WasFull skip maxCount st ptr /\
    (1 < n -> ptr' = ptr /\ r = iter) /\ (n = 1 -> ptr' = 0 /\ r = 0).
Proof. exact LimP1Ops.lp1_remove. Qed.
Print Assumptions C01_limp1_remove.

(* HashSet::pvFind(key): the walk over the chain of generations, REGENERATED (Gen_HSFind.pvFindKey): for ANY per-generation results fr j
   (generation j has the handle j + 1, 0 = nullptr / null iterator) it returns the first non-null one; with the hand model's tfind as the
   per-generation search it is the hand model's gfind / hfind *)
Theorem C01_generation_walk_first_hit : forall (fr : nat -> Z) (n : nat) (hash_of : Z -> Z) mCount key ht pred,
  (1 <= n <= Gen_HSFind.fuel_of_pvFindKey)%nat ->
  Gen_HSFind.pvFindKey false hash_of (fun _ b _ => fr (Z.to_nat (b - 1))) (fun b => if b <? Z.of_nat n then b + 1 else 0) mCount 1 key ht pred
  = GenPrelude.Ok (if mCount =? 0 then 0 else ChainWalk.first_nz fr 0 n).
Proof. exact ChainWalk.walk_first_hit. Qed.
Print Assumptions C01_generation_walk_first_hit.

Theorem C01_generation_walk_relocatable : forall (fr : nat -> Z) (n : nat) (hash_of : Z -> Z) mCount key ht pred,
  Gen_HSFind.pvFindKey true hash_of (fun _ b _ => fr (Z.to_nat (b - 1))) (fun b => if b <? Z.of_nat n then b + 1 else 0) mCount 1 key ht pred
  = GenPrelude.Ok (if mCount =? 0 then 0 else fr 0%nat).
Proof. exact ChainWalk.walk_relocatable. Qed.
Print Assumptions C01_generation_walk_relocatable.

Theorem C01_generation_walk_is_gfind : forall (B : Type) (b0 : B) decode h wf0 start next (gs : list (table B)) k hash_of mCount ht pred,
  (1 <= length gs <= Gen_HSFind.fuel_of_pvFindKey)%nat ->
  (forall t idx pos v, In t gs -> tfind B b0 decode h wf0 start next t k = Some (idx, pos, v) -> 0 <= idx) ->
  Gen_HSFind.pvFindKey false hash_of
    (fun _ b _ => ChainWalk.enc_pos (tfind B b0 decode h wf0 start next (nth (Z.to_nat (b - 1)) gs (@mkT B 0 nil)) k))
    (fun b => if b <? Z.of_nat (length gs) then b + 1 else 0) mCount 1 k ht pred
  = GenPrelude.Ok (if mCount =? 0 then 0 else match gfind B b0 decode h wf0 start next gs k 0 with Some (_, i, p, v) => ChainWalk.enc_pos (Some (i, p, v)) | None => 0 end).
Proof. exact ChainWalk.walk_is_gfind. Qed.
Print Assumptions C01_generation_walk_is_gfind.

(* ---------- review-fix round: the escapes of the theorems above, closed or characterised ---------- *)

(* C01_step_refines allows "x = RExn /\ s' = s" for every operation.  Which operations can answer RExn at all, and what the throw is:
   Find / Remove / SetVal / Clear / Traverse / Count / Remove(filter) and insertions of a present key never do (exn_cause = False);
   for the others RExn is exactly the None of the named model function; the state is unchanged *)
Theorem C01_step_exn_only :
  forall B b0 decode upd_bound h cap unlimited wf0 wfThr start next logStart calcCapacity shift maxLog (s : hset B) o s',
    step B b0 decode upd_bound h cap unlimited wf0 wfThr start next logStart calcCapacity shift maxLog s o = (s', RExn) ->
    s' = s /\ StepExn.exn_cause B b0 decode upd_bound h cap unlimited wf0 wfThr start next logStart calcCapacity shift maxLog s o.
Proof. exact StepExn.step_exn_only. Qed.
Print Assumptions C01_step_exn_only.

(* the `None` of reserve_log (second conjunct of C01_never_table_full; hreserve) is not a fuel artefact: no size nl .. nl + fuel has room *)
Theorem C01_reserve_log_none : forall (calcCapacity : Z -> Z) fuel nl n, reserve_log calcCapacity fuel nl n = None ->
  forall j, nl <= j <= nl + Z.of_nat fuel -> calcCapacity (2 ^ j) < n.
Proof. exact GrowLoops.reserve_log_none. Qed.
Print Assumptions C01_reserve_log_none.

(* the regenerated Reserve loop throws length_error only when no table size up to 2^63 buckets reaches the requested capacity *)
Theorem C01_reserve_loop_exn : forall mc (calcCapacity : Z -> Z) cap ht nc nl, 0 <= nl <= 63 ->
  Gen_HashSetGrow.Reserve_loop0 mc (fun bc _ => calcCapacity bc) Gen_HashSetGrow.fuel_of_Reserve cap ht nc nl = GenPrelude.Exn ->
  forall j, nl <= j <= 63 -> calcCapacity (2 ^ j) < cap.
Proof. exact GrowLoops.reserve_loop_exn. Qed.
Print Assumptions C01_reserve_loop_exn.

(* HashInst.upd_fn / shift_fn map Stuck / Fuel of the regenerated functions to "unchanged" / 1: never taken under the invariant *)
Theorem C01_upd_fn_never_swallows : forall kind b p log, Binv_of kind b -> 0 <= log <= 63 -> 0 <= p < 2 ^ log ->
  (kind <= 1 -> upd_fn kind b p = b) /\
  (kind = 2 -> Gen_Open2N2.UpdateMaxProbe b p = GenPrelude.Ok (tt, upd_fn kind b p)) /\
  (3 <= kind -> Gen_OpenN1.UpdateMaxProbe (kind - 2) b p = GenPrelude.Ok (tt, upd_fn kind b p)).
Proof. exact NoSwallow.upd_fn_never_swallows. Qed.
Print Assumptions C01_upd_fn_never_swallows.

Theorem C01_shift_fn_never_swallows : forall cap bc, 0 < bc -> 0 < cap ->
  Gen_HashBucketBase.GetBucketCountShift bc cap = GenPrelude.Ok (shift_fn 0 cap bc).
Proof. exact NoSwallow.shift_fn_never_swallows. Qed.
Print Assumptions C01_shift_fn_never_swallows.

(* establishing lemmas that existed but were not exported: the LimP4 bucket invariant holds for a cleared bucket; the configuration of
   C01_nonvacuous_multigen is a valid one *)
Theorem C01_p4_inv_empty : forall H, 4 <= H ->
  P4_Bucket.p4_inv H (Gen_P4.pvSetEmpty H (fun _ => 0) 0) 0 (fun _ => 0) (fun _ => 0).
Proof. exact P4_Bucket.p4_inv_empty. Qed.
Print Assumptions C01_p4_inv_empty.

Theorem C01_nv_cfg_valid : cfg_valid nv_cfg.
Proof. exact nv_cfg_valid. Qed.
Print Assumptions C01_nv_cfg_valid.

(* ---------- last round: the RExn alternative of C01_step_refines is excluded for Copy (and for the overload fallback with a free slot) ---------- *)

(* HashSet(const HashSet&) on a reachable state whose contents fit the largest admissible table (count <= CalcCapacity(2^maxLog); otherwise the real
   constructor throws length_error as well): the size search ends within its 64 doublings and the fresh table never reports "Hash table is full" *)
Theorem C01_copy_no_throw :
  forall B b0 decode upd_bound h cap unlimited wf0 wfThr start next logStart calcCapacity shift maxLog Binv,
    ModelOK B b0 decode upd_bound cap unlimited wfThr start next logStart shift maxLog Binv ->
    (forall hc log b, 0 <= log <= maxLog -> 0 <= b < 2 ^ log ->
       exists p : nat, Z.of_nat p < 2 ^ log /\ path start next hc (2 ^ log) p = b) ->
    (forall log, 0 <= log <= maxLog -> calcCapacity (2 ^ log) <= cap * 2 ^ log) ->
    forall s, Reach B b0 decode h cap unlimited wf0 start next maxLog Binv s ->
      logStart <= maxLog -> maxLog - logStart <= 64 -> count s <= calcCapacity (2 ^ maxLog) ->
      exists s', step B b0 decode upd_bound h cap unlimited wf0 wfThr start next logStart calcCapacity shift maxLog s OCopy = (s', RUnit).
Proof. exact copy_no_throw. Qed.
Print Assumptions C01_copy_no_throw.

Theorem C01_momo_copy_never_throws :
  forall c (h : Z -> Z), cfg_valid c -> forall s,
    Reach BS bs0 (decode_fn (c_bound c)) h (c_cap c) (c_unlimited c) (c_wf0 c) start_fn (next_fn (c_probing c)) max_log (Binv_of (c_bound c)) s ->
    c_logStart c <= max_log -> count s <= calc_capacity (c_pol c) (c_cap c) (2 ^ max_log) ->
    exists s', step_gen c h s OCopy = (s', RUnit).
Proof. exact momo_copy_never_throws. Qed.
Print Assumptions C01_momo_copy_never_throws.

(* overloadIfCannotGrow (bucket-array allocation refused): the insertion into the existing newest table succeeds whenever that table has a free slot *)
Theorem C01_momo_nomem_insert_never_throws :
  forall c (h : Z -> Z), cfg_valid c -> forall s kv t r,
    Reach BS bs0 (decode_fn (c_bound c)) h (c_cap c) (c_unlimited c) (c_wf0 c) start_fn (next_fn (c_probing c)) max_log (Binv_of (c_bound c)) s ->
    gens s = t :: r -> Z.of_nat (length (flat_map (@items BS) (tbs t))) < c_cap c * 2 ^ tlog t ->
    exists s', hadd_nomem BS bs0 (upd_fn (c_bound c)) h (c_cap c) (c_unlimited c) (c_wf0 c) (c_wfThr c) start_fn (next_fn (c_probing c))
                 (c_logStart c) (calc_capacity (c_pol c) (c_cap c)) (shift_fn (c_pol c) (c_cap c)) max_log s kv = Some s'.
Proof. exact momo_nomem_insert_never_throws. Qed.
Print Assumptions C01_momo_nomem_insert_never_throws.

(* ---------- final round: HashSet::Reserve as a whole (REGENERATED: early return, pvGetNewLogBucketCount, size loop, new mCapacity / mBuckets;
   Buckets::Create and pvRelocateItems opaque / skipped) makes the decisions of the hand model's hreserve ---------- *)
Theorem C01_gen_newlog : forall (B : Type) mc logStart (shift : Z -> Z) (gs : list (table B)) cnt capc ht,
  ReserveDecision.gens_ok B shift gs -> 0 <= newLog B logStart shift gs <= 63 ->
  Gen_HashSetGrow.pvGetNewLogBucketCount mc logStart (fun bc _ => shift bc) (ReserveDecision.blog B gs) cnt capc (ReserveDecision.mbk B gs) ht
  = GenPrelude.Ok (newLog B logStart shift gs).
Proof. exact ReserveDecision.gen_newlog. Qed.
Print Assumptions C01_gen_newlog.

Theorem C01_gen_reserve_decision : forall (B : Type) mc logStart (shift calcCapacity : Z -> Z) (gs : list (table B)) cnt capc n ht nb ht',
  ReserveDecision.gens_ok B shift gs -> 0 <= newLog B logStart shift gs <= 63 ->
  match Gen_HashSetGrow.Reserve mc logStart (fun bc _ => shift bc) (fun bc _ => calcCapacity bc) (ReserveDecision.blog B gs)
          cnt capc (ReserveDecision.mbk B gs) n ht nb ht' with
  | GenPrelude.Ok (_, c', b') =>
      if n <=? capc then c' = capc /\ b' = ReserveDecision.mbk B gs
      else exists nl, reserve_log calcCapacity 64 (newLog B logStart shift gs) n = Some nl /\ nl <= 63 /\ c' = calcCapacity (2 ^ nl) /\ b' = nb
  | GenPrelude.Exn => capc < n /\ forall nl, reserve_log calcCapacity 64 (newLog B logStart shift gs) n = Some nl -> 63 < nl
  | _ => False
  end.
Proof. exact ReserveDecision.gen_reserve_decision. Qed.
Print Assumptions C01_gen_reserve_decision.

Theorem C01_gen_reserve_refines :
  forall (B : Type) (b0 : B) upd_bound h cap unlimited wf0 wfThr start next logStart calcCapacity shift maxLog, maxLog <= 63 ->
  forall (s : hset B) n bud ht nb ht', ReserveDecision.gens_ok B shift (gens s) -> 0 <= newLog B logStart shift (gens s) <= 63 ->
  match hreserve B b0 upd_bound h cap unlimited wf0 wfThr start next logStart calcCapacity shift maxLog s n bud with
  | Some s' => exists u b', Gen_HashSetGrow.Reserve cap logStart (fun bc _ => shift bc) (fun bc _ => calcCapacity bc) (ReserveDecision.blog B (gens s))
                 (count s) (capacity s) (ReserveDecision.mbk B (gens s)) n ht nb ht' = GenPrelude.Ok (u, capacity s', b') /\
               b' = (if n <=? capacity s then ReserveDecision.mbk B (gens s) else nb)
  | None => Gen_HashSetGrow.Reserve cap logStart (fun bc _ => shift bc) (fun bc _ => calcCapacity bc) (ReserveDecision.blog B (gens s))
                 (count s) (capacity s) (ReserveDecision.mbk B (gens s)) n ht nb ht' = GenPrelude.Exn \/
            exists u nl, Gen_HashSetGrow.Reserve cap logStart (fun bc _ => shift bc) (fun bc _ => calcCapacity bc) (ReserveDecision.blog B (gens s))
                 (count s) (capacity s) (ReserveDecision.mbk B (gens s)) n ht nb ht' = GenPrelude.Ok (u, calcCapacity (2 ^ nl), nb) /\ maxLog < nl <= 63
  end.
Proof. exact ReserveDecision.gen_reserve_refines. Qed.
Print Assumptions C01_gen_reserve_refines.

(* the premises of the three theorems above hold on every state satisfying the invariant, for every momo configuration *)
Theorem C01_momo_reserve_premises : forall c (h : Z -> Z) (s : hset BS),
  Inv BS bs0 (decode_fn (c_bound c)) h (c_cap c) (c_unlimited c) (c_wf0 c) start_fn (next_fn (c_probing c)) max_log (Binv_of (c_bound c)) s ->
  0 <= c_logStart c <= 63 ->
  ReserveDecision.gens_ok BS (shift_fn (c_pol c) (c_cap c)) (gens s) /\
  0 <= newLog BS (c_logStart c) (shift_fn (c_pol c) (c_cap c)) (gens s) <= 63.
Proof. exact ReserveDecisionInst.momo_reserve_premises. Qed.
Print Assumptions C01_momo_reserve_premises.
