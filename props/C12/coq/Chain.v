(* C12: what HashSet::pvRelocateItems does with the code returned by GetHashCodePart (HashSet.h:1281-1296 -> pvAddNogrow):
   new start bucket = GetStartBucketIndex(code, 2^newL), new short hash = pvCalcShortHash(code), new hash-probe byte =
   the AddCrt/pvSetHashProbe packing of (code, newL, new displacement).  Theorems: one growth step and any chain of
   growth steps place the element exactly where a full rehash (code = true hash) would. *)
From Coq Require Import ZArith Bool List Lia.
From MomoCommon Require Import GenPrelude.
From C12 Require Import Bits Known Gen_Base Gen_O2 Gen_P4 Gen_One P4_Slot O2_Slot.
Import ListNotations.
Local Open Scope Z_scope.

Lemma qof_nonneg L : 0 <= L -> 0 <= qof L.
Proof. intros. unfold qof. apply Z.div_pos; lia. Qed.

Lemma qof_le L : 0 <= L -> L <= 8 * qof L + 1.
Proof. intros. unfold qof. Z.div_mod_to_equations. lia. Qed.

(* full_getter_when_insufficient, part 1: the full getter is used exactly when the byte is the empty marker or the class changes *)
Lemma p4_full_getter_iff h L newL probe : 0 <= h -> 0 <= L <= 63 -> 0 <= probe ->
  p4_full_used (p4_byte h L probe) L newL = true <-> (p4_byte h L probe = 255 \/ qof L <> qof newL).
Proof.
  intros Hh HL Hp. pose proof (p4_byte_range h L probe Hh HL Hp) as Hr. unfold p4_full_used.
  rewrite orb_true_iff. split.
  - intros [H|H].
    + left. apply Z.leb_le in H. unfold wrapU in H. change (2 ^ 8) with 256 in H.
      destruct (Z.eq_dec (p4_byte h L probe) 255) as [|Hne]; [assumption|exfalso].
      rewrite Z.mod_small in H by lia. lia.
    + right. destruct (Z.eqb_spec (qof L) (qof newL)); [discriminate|assumption].
  - intros [H|H].
    + left. rewrite H. reflexivity.
    + right. destruct (Z.eqb_spec (qof L) (qof newL)); [contradiction|reflexivity].
Qed.

Lemma o2_full_getter_iff v L newL :
  o2_full_used v L newL = true <-> (v = 255 \/ qof L <> qof newL).
Proof.
  unfold o2_full_used. rewrite orb_true_iff. split.
  - intros [H|H]; [left; apply Z.eqb_eq; assumption|right]. destruct (Z.eqb_spec (qof L) (qof newL)); [discriminate|assumption].
  - intros [H|H]; [left; apply Z.eqb_eq; assumption|right]. destruct (Z.eqb_spec (qof L) (qof newL)); [contradiction|reflexivity].
Qed.

(* full_getter_when_insufficient, part 2: across a class boundary the stored bits really do not determine the new start
   bucket (two hashes with the same known bits land in different buckets), so recomputing is necessary there *)
Lemma known_insufficient_across_classes q newL : 0 <= q -> 8 * q + 1 < 57 -> 8 * q + 1 < newL <= 63 ->
  exists h1 h2, 0 <= h1 < 2 ^ 64 /\ 0 <= h2 < 2 ^ 64 /\ known q h1 = known q h2 /\
    Gen_Base.GetStartBucketIndex h1 (2 ^ newL) <> Gen_Base.GetStartBucketIndex h2 (2 ^ newL).
Proof.
  intros Hq Hlt HnL. exists 0, (2 ^ (8 * q + 1)).
  assert (0 < 2 ^ (8 * q + 1)) by (apply pow2_pos; lia).
  assert (2 ^ (8 * q + 1) < 2 ^ newL) by (apply pow2_lt_mono; lia).
  assert (2 ^ newL <= 2 ^ 63) by (apply pow2_le_mono; lia).
  change (2 ^ 64) with (2 * 2 ^ 63).
  repeat split; try lia.
  - apply Z.bits_inj'. intros n Hn. rewrite !tb_known by lia. rewrite Z.bits_0, tb_pow2 by lia.
    destruct (Z.eqb_spec (8 * q + 1) n); [|rewrite !andb_false_r; reflexivity].
    subst n. destruct (Z.ltb_spec (8 * q + 1) (8 * q + 1)), (Z.leb_spec 57 (8 * q + 1)); try lia; try reflexivity.
  - rewrite !start_mod by lia. rewrite Z.mod_0_l by lia. rewrite Z.mod_small by lia. lia.
Qed.

(* ------------------------------------------------------------------ LimP4 *)
(* metadata of one element in a bucket: its short-hash slot idx and its hash-probe slot H-1-idx *)
Definition slots2 (i1 v1 i2 v2 : Z) : Z -> Z := upd (upd (fun _ => 255) i1 v1) i2 v2.

Record est := { eL : Z; ebidx : Z; esh : Z; ev : Z }.

(* placement of an element from a hash code (what pvAddNogrow + AddCrt do); junk = Some w when the hash-probe slot is
   not the element's own (hashCount-1-idx <= idx, or the slot holds another element's short hash / the empty marker) *)
Definition p4_mk (code L probe : Z) (junk : option Z) : est :=
  {| eL := L; ebidx := (Gen_Base.GetStartBucketIndex code (2 ^ L) + probe) mod 2 ^ L;
     esh := Gen_P4.pvCalcShortHash code;
     ev := match junk with None => p4_byte code L probe | Some w => w end |}.

Definition p4_code (H idx full : Z) (e : est) (newL : Z) : Z :=
  Gen_P4.GetHashCodePart H (slots2 idx (esh e) (H - 1 - idx) (ev e)) full (ebidx e) (eL e) newL 0 idx.

Definition junk_ok (j : option Z) : Prop := match j with None => True | Some w => w = 255 \/ 0 <= w < 128 end.

Definition step_ok (L : Z) (st : Z * Z * option Z) : Prop :=
  let '(newL, probe, junk) := st in L < newL <= 63 /\ 0 <= probe /\ junk_ok junk.

Fixpoint steps_ok (L : Z) (steps : list (Z * Z * option Z)) : Prop :=
  match steps with [] => True | st :: r => step_ok L st /\ steps_ok (fst (fst st)) r end.

Lemma p4_mk_known q c h L probe junk : 0 <= L <= 63 -> 0 <= probe -> qof L = q ->
  c = h \/ c = known q h -> p4_mk c L probe junk = p4_mk h L probe junk.
Proof.
  intros HL Hp Hq [->| ->]; [reflexivity|]. unfold p4_mk. f_equal.
  - rewrite start_known; [reflexivity| subst q; apply qof_nonneg; lia | lia | subst q; apply qof_le; lia].
  - apply p4_short_known. subst q. apply qof_nonneg. lia.
  - destruct junk; [reflexivity|]. apply p4_byte_known; lia.
Qed.

(* one growth step: the code GetHashCodePart returns (full getter = true hash h) is h or its known bits of the NEW class *)
Lemma p4_code_step H idx h L probe junk newL : 0 <= idx -> idx < H - 1 - idx -> H <= 8 -> 0 <= h < 2 ^ 64 ->
  0 <= L <= 63 -> 0 <= newL <= 63 -> 0 <= probe -> junk_ok junk ->
  let c := p4_code H idx h (p4_mk h L probe junk) newL in c = h \/ c = known (qof newL) h.
Proof.
  intros Hi Hslot HH Hh HL HnL Hp Hj. cbv zeta. unfold p4_code, p4_mk. cbn [eL ebidx esh ev].
  destruct junk as [w|].
  - (* junk byte: full getter *)
    rewrite p4_getpart_eq; try lia.
    2:{ unfold slots2. rewrite upd_same. cbn in Hj. lia. }
    unfold slots2 at 1. rewrite upd_same.
    replace (p4_full_used w L newL) with true; [left; reflexivity|].
    symmetry. cbn in Hj. destruct Hj as [->|Hw]; [reflexivity|apply p4_full_used_short; assumption].
  - rewrite (p4_reconstruct H _ h _ L newL 0 idx h probe); try lia.
    + destruct (p4_full_used _ _ _) eqn:Hfu; [left; reflexivity|right].
      apply p4_full_used_false in Hfu; [|apply p4_byte_range; lia]. destruct Hfu as [_ Hq]. rewrite Hq. reflexivity.
    + unfold slots2. rewrite upd_same. reflexivity.
    + unfold slots2. rewrite upd_other by lia. rewrite upd_same. reflexivity.
    + rewrite start_mod by lia. reflexivity.
Qed.

Fixpoint p4_chain_reuse (H idx h : Z) (e : est) (steps : list (Z * Z * option Z)) : list est :=
  match steps with
  | [] => [e]
  | (newL, probe, junk) :: r => e :: p4_chain_reuse H idx h (p4_mk (p4_code H idx h e newL) newL probe junk) r
  end.

Fixpoint p4_chain_rehash (h : Z) (e : est) (steps : list (Z * Z * option Z)) : list est :=
  match steps with
  | [] => [e]
  | (newL, probe, junk) :: r => e :: p4_chain_rehash h (p4_mk h newL probe junk) r
  end.

(* chain_placement_equiv (LimP4): after ANY chain of growth steps the element's bucket, short hash and hash-probe byte
   are exactly those a full rehash at every step would produce *)
Theorem p4_chain_placement_equiv H idx h : 0 <= idx -> idx < H - 1 - idx -> H <= 8 -> 0 <= h < 2 ^ 64 ->
  forall steps L probe junk, 0 <= L <= 63 -> 0 <= probe -> junk_ok junk -> steps_ok L steps ->
    p4_chain_reuse H idx h (p4_mk h L probe junk) steps = p4_chain_rehash h (p4_mk h L probe junk) steps.
Proof.
  intros Hi Hslot HH Hh. induction steps as [|[[newL probe'] junk'] r IH]; intros L probe junk HL Hp Hj Hs; [reflexivity|].
  cbn [p4_chain_reuse p4_chain_rehash]. f_equal.
  cbn in Hs. destruct Hs as [[HnL [Hp' Hj']] Hr].
  pose proof (p4_code_step H idx h L probe junk newL Hi Hslot HH Hh HL ltac:(lia) Hp Hj) as Hc. cbv zeta in Hc.
  rewrite (p4_mk_known (qof newL) _ h newL probe' junk') by (try lia; assumption).
  apply IH; try lia; assumption.
Qed.

(* ------------------------------------------------------------------ Open2N2 *)
Definition o2_mk (code L probe : Z) : est :=
  {| eL := L; ebidx := (Gen_Base.GetStartBucketIndex code (2 ^ L) + tri probe) mod 2 ^ L;
     esh := Gen_O2.pvCalcShortHash code; ev := o2_byte code L probe |}.

Definition o2_code (idx full : Z) (e : est) (newL : Z) : outcome Z :=
  Gen_O2.GetHashCodePart (fun _ => 0) (upd (fun _ => 128) idx (esh e)) (upd (fun _ => 255) idx (ev e)) full (ebidx e) (eL e) newL idx.

(* same bucket, same short hash; the hash-probe byte is the same whenever it can ever be read for reconstruction
   (for logBucketCount = 1 mod 8 the probe shift is 0 and every later growth leaves the class, so the byte is dead) *)
Definition o2_eqv (e1 e2 : est) : Prop :=
  eL e1 = eL e2 /\ ebidx e1 = ebidx e2 /\ esh e1 = esh e2 /\ 0 <= ev e1 < 256 /\ ((eL e1 + 7) mod 8 <> 0 -> ev e1 = ev e2).

Definition o2_step_ok (L : Z) (st : Z * Z) : Prop := L < fst st <= 63 /\ 0 <= snd st.
Fixpoint o2_steps_ok (L : Z) (steps : list (Z * Z)) : Prop :=
  match steps with [] => True | st :: r => o2_step_ok L st /\ o2_steps_ok (fst st) r end.

Lemma o2_mk_known q c h L probe : 0 <= L <= 63 -> 0 <= probe -> qof L = q ->
  c = h \/ c = known q h -> o2_eqv (o2_mk c L probe) (o2_mk h L probe).
Proof.
  intros HL Hp Hq Hc. unfold o2_eqv, o2_mk. cbn [eL ebidx esh ev].
  assert (Hr : 0 <= o2_byte c L probe < 256) by (apply o2_byte_range; lia).
  destruct Hc as [->| ->]; [repeat split; try reflexivity; lia|].
  repeat split; try lia.
  - rewrite start_known; [reflexivity| subst q; apply qof_nonneg; lia | lia | subst q; apply qof_le; lia].
  - apply o2_short_known. subst q. apply qof_nonneg. lia.
  - intros Hnz. apply o2_byte_known; try lia.
Qed.

Lemma o2_code_step idx h e L probe newL : 0 <= h < 2 ^ 64 -> 0 <= L <= 63 -> L < newL <= 63 -> 0 <= probe ->
  o2_eqv e (o2_mk h L probe) ->
  exists c, o2_code idx h e newL = Ok c /\ (c = h \/ c = known (qof newL) h).
Proof.
  intros Hh HL HnL Hp [HeL [Hbi [Hsh [Hr Hv]]]]. unfold o2_mk in *. cbn [eL ebidx esh ev] in *.
  unfold o2_code. rewrite HeL, Hbi, Hsh.
  destruct (Z.eq_dec ((L + 7) mod 8) 0) as [Hz|Hnz].
  - (* probe shift 0: any growth changes the class, the full getter is used whatever the byte is *)
    rewrite o2_getpart_eq; try lia. 2:{ rewrite upd_same. lia. }
    rewrite upd_same.
    assert (Hq : qof L <> qof newL) by (unfold qof; clear - Hz HL HnL; Z.div_mod_to_equations; lia).
    replace (o2_full_used (ev e) L newL) with true.
    + exists h. split; [reflexivity|left; reflexivity].
    + symmetry. apply o2_full_getter_iff. right. assumption.
  - rewrite HeL in Hv. rewrite (Hv Hnz).
    rewrite (o2_reconstruct _ _ _ h _ L newL idx h probe); try lia; try (rewrite upd_same; reflexivity).
    + eexists. split; [reflexivity|].
      destruct (o2_full_used _ _ _) eqn:Hfu; [left; reflexivity|right].
      unfold o2_full_used in Hfu. apply orb_false_iff in Hfu. destruct Hfu as [_ Hq].
      destruct (Z.eqb_spec (qof L) (qof newL)) as [->|]; [reflexivity|discriminate].
    + rewrite start_mod by lia. reflexivity.
Qed.

Fixpoint o2_chain_reuse (idx h : Z) (e : est) (steps : list (Z * Z)) : outcome (list est) :=
  match steps with
  | [] => Ok [e]
  | (newL, probe) :: r =>
    match o2_code idx h e newL with
    | Ok c => match o2_chain_reuse idx h (o2_mk c newL probe) r with Ok l => Ok (e :: l) | Stuck => Stuck | Fuel => Fuel | Exn => Exn end
    | Stuck => Stuck | Fuel => Fuel | Exn => Exn
    end
  end.

Fixpoint o2_chain_rehash (h : Z) (e : est) (steps : list (Z * Z)) : list est :=
  match steps with
  | [] => [e]
  | (newL, probe) :: r => e :: o2_chain_rehash h (o2_mk h newL probe) r
  end.

(* chain_placement_equiv (Open2N2): along ANY chain of growth steps no assertion of GetHashCodePart fails and the element
   always gets the bucket and short hash (and every live hash-probe byte) a full rehash would give it *)
Theorem o2_chain_placement_equiv idx h : 0 <= h < 2 ^ 64 ->
  forall steps e L probe, 0 <= L <= 63 -> 0 <= probe -> o2_eqv e (o2_mk h L probe) -> o2_steps_ok L steps ->
    exists l, o2_chain_reuse idx h e steps = Ok l /\ Forall2 o2_eqv l (o2_chain_rehash h (o2_mk h L probe) steps).
Proof.
  intros Hh. induction steps as [|[newL probe'] r IH]; intros e L probe HL Hp He Hs.
  - exists [e]. split; [reflexivity|]. constructor; [assumption|constructor].
  - cbn in Hs. destruct Hs as [[HnL Hp'] Hr]. cbn [fst snd] in *.
    destruct (o2_code_step idx h e L probe newL Hh HL HnL Hp He) as [c [Hc Hcc]].
    cbn [o2_chain_reuse o2_chain_rehash]. rewrite Hc.
    assert (Heq : o2_eqv (o2_mk c newL probe') (o2_mk h newL probe')) by (apply (o2_mk_known (qof newL)); try lia; assumption).
    destruct (IH (o2_mk c newL probe') newL probe' ltac:(lia) Hp' Heq Hr) as [l [Hl Hf]].
    rewrite Hl. exists (e :: l). split; [reflexivity|]. constructor; assumption.
Qed.

(* ------------------------------------------------------------------ BucketOne *)
(* the 64-bit hash state keeps h mod 2^63; a later Find / placement reads only (h << 1) | 1 and bucket-index bits < 63 *)
Theorem one_reconstruct h full iter : 0 <= h < 2 ^ 64 ->
  exists st, Gen_One.AddCrt 0 h = Ok (tt, st) /\ Gen_One.IsFull st = true /\
    Gen_One.GetHashCodePart st full iter iter = Ok (h mod 2 ^ 63) /\
    Gen_One.pvGetHashState (h mod 2 ^ 63) = Gen_One.pvGetHashState h /\
    (forall L, 0 <= L <= 63 -> Gen_Base.GetStartBucketIndex (h mod 2 ^ 63) (2 ^ L) = Gen_Base.GetStartBucketIndex h (2 ^ L)).
Proof.
  intros Hh. eexists. split; [reflexivity|].
  assert (Hst : forall x n, 0 <= n -> Z.testbit (Gen_One.pvGetHashState x) n = (n =? 0) || ((n <? 64) && Z.testbit x (n - 1))).
  { intros x n Hn. unfold Gen_One.pvGetHashState. rewrite Z.lor_spec, tb_wrapU by lia.
    change 1 with (2 ^ 0) at 2. rewrite tb_pow2 by lia.
    destruct (Z.eq_dec n 0) as [->|].
    - rewrite Z.shiftl_spec by lia. rewrite Z.testbit_neg_r by lia. reflexivity.
    - rewrite Z.shiftl_spec by lia. destruct (Z.eqb_spec 0 n), (Z.eqb_spec n 0); try lia. simpl. apply orb_false_r. }
  split; [|split; [|split]].
  - unfold Gen_One.IsFull. apply Z.eqb_eq. apply Z.bits_inj'. intros n Hn.
    rewrite Z.land_spec, Hst by lia. change 1 with (2 ^ 0). rewrite tb_pow2 by lia.
    destruct (Z.eqb_spec 0 n), (Z.eqb_spec n 0); try lia; simpl; rewrite ?andb_false_r; reflexivity.
  - unfold Gen_One.GetHashCodePart. rewrite Z.eqb_refl. change (8 <? 8) with false. cbv iota. f_equal.
    apply Z.bits_inj'. intros n Hn. rewrite Z.shiftr_spec, Hst by lia.
    replace (n + 1 - 1) with n by lia.
    destruct (Z.eqb_spec (n + 1) 0); [lia|]. rewrite orb_false_l.
    destruct (Z.ltb_spec (n + 1) 64).
    + rewrite Z.mod_pow2_bits_low by lia. reflexivity.
    + rewrite Z.mod_pow2_bits_high by lia. reflexivity.
  - apply Z.bits_inj'. intros n Hn. rewrite !Hst by lia.
    destruct (Z.eqb_spec n 0); [reflexivity|]. rewrite !orb_false_l.
    destruct (Z.ltb_spec n 64); [|reflexivity]. rewrite !andb_true_l. apply Z.mod_pow2_bits_low. lia.
  - intros L HL. rewrite !start_mod by lia.
    symmetry. apply Znumtheory.Zmod_div_mod; try (apply pow2_pos; lia).
    exists (2 ^ (63 - L)). rewrite <- Z.pow_add_r by lia. f_equal. lia.
Qed.

(* ------------------------------------------------------------------ non-vacuity *)
Lemma p4_nonvacuous : exists h L newL probe, 0 <= h < 2 ^ 64 /\ 0 <= L <= 63 /\ L < newL <= 63 /\ 0 <= probe /\
  p4_full_used (p4_byte h L probe) L newL = false /\ known (qof L) h <> h /\
  p4_code 4 0 h (p4_mk h L probe None) newL = known (qof L) h.
Proof. exists 81985529216486895, 11, 12, 1. vm_compute. repeat split; try discriminate; reflexivity. Qed.

Lemma o2_nonvacuous : exists h L newL probe, 0 <= h < 2 ^ 64 /\ 0 <= L <= 63 /\ L < newL <= 63 /\ 0 <= probe /\
  o2_full_used (o2_byte h L probe) L newL = false /\ known (qof L) h <> h /\
  o2_code 2 h (o2_mk h L probe) newL = Ok (known (qof L) h).
Proof. exists 81985529216486895, 11, 15, 2. vm_compute. repeat split; try discriminate; reflexivity. Qed.
