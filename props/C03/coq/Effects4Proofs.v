(* C03 -- proofs for Effects4.v: TreeSet::pvCopy / pvDestroy on arbitrary trees, by mutual induction on the tree. *)
From Coq Require Import ZArith Bool List Lia.
From C03 Require Import Effects EffectsProofs Effects2 Effects2Proofs Effects4.
Import ListNotations.
Local Open Scope Z_scope.

Scheme tree_mut := Induction for tree Sort Prop with forest_mut := Induction for forest Sort Prop.
Scheme btree_mut := Induction for btree Sort Prop with bforest_mut := Induction for bforest Sort Prop.

Section TreeProofs.
Variables mgr nodesz : Z.
Variable src : Z.

(* footprint of a built tree: its cells and its blocks (newest first: the children's blocks sit on top of the node's own) *)
Fixpoint bt_occ (bt : btree) (l : loc) : bool :=
  match bt with BNode b n kids => inrng b 0 n l || bf_occ kids l end
with bf_occ (bf : bforest) (l : loc) : bool :=
  match bf with BNil => false | BCons t r => bt_occ t l || bf_occ r l end.

Fixpoint bt_blks (bt : btree) : list (Z * (Z * Z)) :=
  match bt with BNode b n kids => bf_blks kids ++ [(b, (mgr, nodesz))] end
with bf_blks (bf : bforest) : list (Z * (Z * Z)) :=
  match bf with BNil => [] | BCons t r => bt_blks t ++ bf_blks r end.

Definition ids (l : list (Z * (Z * Z))) : list Z := map fst l.

(* a cell of the footprint lies in one of the structure's own blocks *)
Lemma occ_ids_bt : forall bt l, bt_occ bt l = true -> In (fst l) (ids (bt_blks bt)).
Proof.
  apply (btree_mut (fun bt => forall l, bt_occ bt l = true -> In (fst l) (ids (bt_blks bt)))
                   (fun bf => forall l, bf_occ bf l = true -> In (fst l) (ids (bf_blks bf)))).
  - intros b n kids IH l H. simpl in H. unfold ids. simpl. rewrite map_app. apply in_or_app.
    apply orb_true_iff in H. destruct H as [H|H].
    + right. left. simpl. destruct (inrng_spec b 0 n l) as [[E _]|]; [congruence|discriminate].
    + left. apply (IH l H).
  - intros l H. discriminate.
  - intros t IHt r IHr l H. simpl in H. unfold ids. simpl. rewrite map_app. apply in_or_app.
    apply orb_true_iff in H. destruct H as [H|H]; [left; apply (IHt l H)|right; apply (IHr l H)].
Qed.

Lemma occ_ids_bf : forall bf l, bf_occ bf l = true -> In (fst l) (ids (bf_blks bf)).
Proof.
  apply (bforest_mut (fun bt => forall l, bt_occ bt l = true -> In (fst l) (ids (bt_blks bt)))
                     (fun bf => forall l, bf_occ bf l = true -> In (fst l) (ids (bf_blks bf)))).
  - intros b n kids IH l H. simpl in H. unfold ids. simpl. rewrite map_app. apply in_or_app.
    apply orb_true_iff in H. destruct H as [H|H].
    + right. left. simpl. destruct (inrng_spec b 0 n l) as [[E _]|]; [congruence|discriminate].
    + left. apply (IH l H).
  - intros l H. discriminate.
  - intros t IHt r IHr l H. simpl in H. unfold ids. simpl. rewrite map_app. apply in_or_app.
    apply orb_true_iff in H. destruct H as [H|H]; [left; apply (IHt l H)|right; apply (IHr l H)].
Qed.

Lemma not_occ_bf bf l : ~ In (fst l) (ids (bf_blks bf)) -> bf_occ bf l = false.
Proof. intros H. destruct (bf_occ bf l) eqn:E; [|reflexivity]. exfalso. apply H. apply occ_ids_bf. exact E. Qed.
Lemma not_occ_bt bt l : ~ In (fst l) (ids (bt_blks bt)) -> bt_occ bt l = false.
Proof. intros H. destruct (bt_occ bt l) eqn:E; [|reflexivity]. exfalso. apply H. apply occ_ids_bt. exact E. Qed.

(* in a strictly descending list every id of the front part is above every id of the back part *)
Lemma dlist_app_lt l1 : forall l2 nb x y, dlist (l1 ++ l2) nb -> In x (ids l1) -> In y (ids l2) -> y < x.
Proof.
  induction l1 as [|[a p] l1 IH]; intros l2 nb x y D Hx Hy; [destruct Hx|].
  simpl in D. destruct D as [Ha Dr]. destruct Hx as [E|Hx].
  - simpl in E. subst a. unfold ids in Hy. apply in_map_iff in Hy. destruct Hy as ([y' q] & E & Hin). simpl in E. subst y'.
    apply (dlist_fresh _ x Dr y q). apply in_or_app. right. exact Hin.
  - apply (IH l2 a x y Dr Hx Hy).
Qed.

Lemma dlist_below l nb x : dlist l nb -> In x (ids l) -> x < nb.
Proof.
  intros D Hx. unfold ids in Hx. apply in_map_iff in Hx. destruct Hx as ([x' q] & E & Hin). simpl in E. subst x'.
  apply (dlist_fresh l nb D x q Hin).
Qed.

Lemma dlist_app_l l1 : forall l2 nb, dlist (l1 ++ l2) nb -> dlist l1 nb.
Proof.
  induction l1 as [|[a p] l1 IH]; intros l2 nb D; [exact I|]. simpl in *. destruct D as [Ha Dr]. split; [exact Ha|apply (IH l2 a Dr)].
Qed.

(* ------------------------------------------------------------------ pvDestroy releases exactly the footprint *)
Definition destroy_ok_bt (bt : btree) : Prop :=
  forall s f L nb,
    st_is s (fun l => bt_occ bt l || f l) (bt_blks bt ++ L) nb -> dlist (bt_blks bt ++ L) nb ->
    (forall l, In (fst l) (ids (bt_blks bt)) -> f l = false) ->
    post (pv_destroy mgr nodesz bt) s (fun _ s' => st_is s' f L nb /\ dlist L nb) (fun _ => False).
Definition destroy_ok_bf (bf : bforest) : Prop :=
  forall s f L nb,
    st_is s (fun l => bf_occ bf l || f l) (bf_blks bf ++ L) nb -> dlist (bf_blks bf ++ L) nb ->
    (forall l, In (fst l) (ids (bf_blks bf)) -> f l = false) ->
    post (pv_destroy_forest mgr nodesz bf) s (fun _ s' => st_is s' f L nb /\ dlist L nb) (fun _ => False).

Lemma destroy_cases :
  (forall b n kids, destroy_ok_bf kids -> destroy_ok_bt (BNode b n kids)) /\
  destroy_ok_bf BNil /\
  (forall t, destroy_ok_bt t -> forall r, destroy_ok_bf r -> destroy_ok_bf (BCons t r)).
Proof.
  split; [|split].
  - intros b n kids IH s f L nb H D Hc. simpl. apply post_bind.
    simpl bt_blks in H, D, Hc. rewrite <- app_assoc in H, D. simpl app in H, D.
    assert (Hb : forall l : loc, fst l = b -> f l = false).
    { intros l E. apply Hc. unfold ids. rewrite map_app. apply in_or_app. right. left. simpl. congruence. }
    assert (Hkb : forall l : loc, In (fst l) (ids (bf_blks kids)) -> fst l <> b).
    { intros l Hin E. pose proof (dlist_app_lt (bf_blks kids) ((b, (mgr, nodesz)) :: L) nb (fst l) b D Hin (or_introl eq_refl)). lia. }
    eapply post_conseq; [apply (IH s (fun l => inrng b 0 n l || f l) ((b, (mgr, nodesz)) :: L) nb)| |auto].
    + eapply st_is_ext; [|exact H]. intros l. simpl. destruct (inrng b 0 n l), (bf_occ kids l), (f l); reflexivity.
    + exact D.
    + intros l Hin. rewrite (inrng_other_region b 0 n l (Hkb l Hin)). simpl. apply Hc. unfold ids. rewrite map_app.
      apply in_or_app. left. exact Hin.
    + intros u s1 [H1 D1].
      eapply post_conseq; [apply (drop_post mgr nodesz n (drop_unlinked mgr nodesz n) b s1 f L nb eq_refl H1 D1 Hb)| |auto].
      intros u2 s2 H2. split; [exact H2|]. destruct D1 as [Hlt Dr]. apply (dlist_mono L b nb); [lia|exact Dr].
  - intros s f L nb H D _. simpl. apply post_ret. split; assumption.
  - intros t IHt r IHr s f L nb H D Hc. simpl. apply post_bind.
    simpl bf_blks in H, D, Hc. rewrite <- app_assoc in H, D.
    eapply post_conseq; [apply (IHt s (fun l => bf_occ r l || f l) (bf_blks r ++ L) nb)| |auto].
    + eapply st_is_ext; [|exact H]. intros l. simpl. rewrite orb_assoc. reflexivity.
    + exact D.
    + intros l Hin. rewrite (Hc l) by (unfold ids; rewrite map_app; apply in_or_app; left; exact Hin). rewrite orb_false_r.
      apply not_occ_bf. intros Hin2.
      assert (In (fst l) (ids (bf_blks r ++ L))) by (unfold ids; rewrite map_app; apply in_or_app; left; exact Hin2).
      pose proof (dlist_app_lt (bt_blks t) (bf_blks r ++ L) nb (fst l) (fst l) D Hin H0). lia.
    + intros u s1 [H1 D1]. apply (IHr s1 f L nb H1 D1). intros l Hin. apply Hc. unfold ids. rewrite map_app. apply in_or_app. right. exact Hin.
Qed.

Lemma pv_destroy_post : forall bt, destroy_ok_bt bt.
Proof.
  destruct destroy_cases as (C1 & C2 & C3).
  apply (btree_mut destroy_ok_bt destroy_ok_bf); [exact C1|exact C2|exact C3].
Qed.
Lemma pv_destroy_forest_post : forall bf, destroy_ok_bf bf.
Proof.
  destruct destroy_cases as (C1 & C2 & C3).
  apply (bforest_mut destroy_ok_bt destroy_ok_bf); [exact C1|exact C2|exact C3].
Qed.

End TreeProofs.

Section TreeCopyProofs.
Variables mgr nodesz : Z.
Variable src : Z.

Lemma titems_nonneg : (forall t, 0 <= titems t) /\ (forall f, 0 <= fitems f).
Proof.
  split.
  - apply (tree_mut (fun t => 0 <= titems t) (fun f => 0 <= fitems f)); simpl; intros; lia.
  - apply (forest_mut (fun t => 0 <= titems t) (fun f => 0 <= fitems f)); simpl; intros; lia.
Qed.

Lemma pv_copy_eq n kids sb s :
  pv_copy mgr nodesz src (Node n kids) sb s =
  match import_row mgr nodesz n src sb s with
  | (Val b, s2) =>
      let '((built, o2), s3) := pv_copy_kids mgr nodesz src kids (sb + Z.of_nat n) BNil s2 in
      match o2 with
      | Val _ => (Val (BNode b n built), s3)
      | Exc => catch_rethrow throw (pv_destroy_forest mgr nodesz built ;;; drop_unlinked mgr nodesz n b) s3
      | Stuck => (Stuck, s3)
      end
  | (Exc, s1) => (Exc, s1)
  | (Stuck, s1) => (Stuck, s1)
  end.
Proof. reflexivity. Qed.

Lemma pv_copy_kids_eq k r off acc s :
  pv_copy_kids mgr nodesz src (FCons k r) off acc s =
  match pv_copy mgr nodesz src k off s with
  | (Val bk, s1) => pv_copy_kids mgr nodesz src r (off + titems k) (BCons bk acc) s1
  | (Exc, s1) => ((acc, Exc), s1)
  | (Stuck, s1) => ((acc, Stuck), s1)
  end.
Proof. reflexivity. Qed.

Definition copy_ok (t : tree) : Prop :=
  forall sb s f L nb,
    0 <= sb -> st_is s f L nb -> dlist L nb -> (forall l, nb <= fst l -> f l = false) -> (forall x, 0 <= x -> f (src, x) = true) ->
    match pv_copy mgr nodesz src t sb s with
    | (Val bt, s') => exists nb', nb <= nb' /\ st_is s' (fun l => bt_occ bt l || f l) (bt_blks mgr nodesz bt ++ L) nb' /\
                                  dlist (bt_blks mgr nodesz bt ++ L) nb' /\ Forall (fun x => nb <= x) (ids (bt_blks mgr nodesz bt))
    | (Exc, s') => exists nb', nb <= nb' /\ st_is s' f L nb'
    | (Stuck, _) => False
    end.

Definition copy_kids_ok (ks : forest) : Prop :=
  forall off acc s f L nb nb0,
    0 <= off -> st_is s (fun l => bf_occ acc l || f l) (bf_blks mgr nodesz acc ++ L) nb -> dlist (bf_blks mgr nodesz acc ++ L) nb ->
    Forall (fun x => nb0 <= x) (ids (bf_blks mgr nodesz acc)) -> nb0 <= nb ->
    (forall l, nb0 <= fst l -> f l = false) -> (forall x, 0 <= x -> f (src, x) = true) ->
    match pv_copy_kids mgr nodesz src ks off acc s with
    | ((_, Stuck), _) => False
    | ((acc', _), s') => exists nb', nb <= nb' /\ st_is s' (fun l => bf_occ acc' l || f l) (bf_blks mgr nodesz acc' ++ L) nb' /\
                                     dlist (bf_blks mgr nodesz acc' ++ L) nb' /\ Forall (fun x => nb0 <= x) (ids (bf_blks mgr nodesz acc'))
    end.

Lemma copy_cases :
  (forall n kids, copy_kids_ok kids -> copy_ok (Node n kids)) /\
  copy_kids_ok FNil /\
  (forall t, copy_ok t -> forall r, copy_kids_ok r -> copy_kids_ok (FCons t r)).
Proof.
  split; [|split].
  - intros n kids IH sb s f L nb Hsb H D Hcl Hsr. rewrite pv_copy_eq.
    assert (Hc : forall l : loc, fst l = nb -> f l = false) by (intros l E; apply Hcl; lia).
    assert (Hs : forall k, 0 <= k < Z.of_nat n -> f (src, sb + 0 + k) = true) by (intros k Hk; apply Hsr; lia).
    pose proof (import_row_post mgr nodesz src n sb s f L nb H D Hc Hs) as P. unfold post in P.
    destruct (import_row mgr nodesz n src sb s) as [[b| |] s2]; [| |contradiction].
    2:{ exact P. }
    destruct P as [Eb H2]. subst b.
    set (f1 := fun l => inrng nb 0 n l || f l) in *.
    assert (D2 : dlist ((nb, (mgr, nodesz)) :: L) (nb + 1)) by (apply dlist_cons; exact D).
    assert (Hcl1 : forall l : loc, nb + 1 <= fst l -> f1 l = false).
    { intros l Hl. unfold f1. rewrite (Hcl l) by lia. rewrite orb_false_r. apply inrng_other_region. lia. }
    assert (Hsr1 : forall x, 0 <= x -> f1 (src, x) = true) by (intros x Hx; unfold f1; rewrite (Hsr x Hx); apply orb_true_r).
    pose proof (IH (sb + Z.of_nat n) BNil s2 f1 ((nb, (mgr, nodesz)) :: L) (nb + 1) (nb + 1) ltac:(lia) H2 D2 (Forall_nil _)
                   (Z.le_refl _) Hcl1 Hsr1) as K.
    destruct (pv_copy_kids mgr nodesz src kids (sb + Z.of_nat n) BNil s2) as [[built o2] s3].
    destruct o2 as [u| |]; [| |contradiction]; destruct K as (nb3 & Hle & H3 & D3 & G3).
    + exists nb3. split; [lia|].
      change (bt_blks mgr nodesz (BNode nb n built)) with (bf_blks mgr nodesz built ++ [(nb, (mgr, nodesz))]).
      rewrite <- app_assoc. simpl app. split; [|split; [exact D3|]].
      * eapply st_is_ext; [|exact H3]. intros l. unfold f1. simpl. destruct (inrng nb 0 n l), (bf_occ built l), (f l); reflexivity.
      * unfold ids. rewrite map_app. apply Forall_app. split.
        -- eapply Forall_impl; [|exact G3]. intros x Hx. simpl in Hx. lia.
        -- constructor; [simpl; lia|constructor].
    + fold (post (catch_rethrow (@throw btree) (pv_destroy_forest mgr nodesz built ;;; drop_unlinked mgr nodesz n nb)) s3
             (fun bt s' => exists nb', nb <= nb' /\ st_is s' (fun l => bt_occ bt l || f l) (bt_blks mgr nodesz bt ++ L) nb' /\
                                       dlist (bt_blks mgr nodesz bt ++ L) nb' /\ Forall (fun x => nb <= x) (ids (bt_blks mgr nodesz bt)))
             (fun s' => exists nb', nb <= nb' /\ st_is s' f L nb')).
      apply post_catch. apply post_throw. apply post_bind.
      eapply post_conseq; [apply (pv_destroy_forest_post mgr nodesz built s3 f1 ((nb, (mgr, nodesz)) :: L) nb3 H3 D3)| |intros ? []].
      * intros l Hin. apply Hcl1. assert (nb + 1 <= fst l); [|lia].
        rewrite Forall_forall in G3. apply (G3 (fst l) Hin).
      * intros u1 s4 [H4 D4].
        eapply post_conseq; [apply (drop_post mgr nodesz n (drop_unlinked mgr nodesz n) nb s4 f L nb3 eq_refl H4 D4 Hc)| |intros ? []].
        intros u2 s5 H5. exists nb3. split; [lia|exact H5].
  - intros off acc s f L nb nb0 Hoff H D G Hn Hcl Hsr. simpl. exists nb. split; [lia|]. split; [exact H|]. split; assumption.
  - intros t IHt r IHr off acc s f L nb nb0 Hoff H D G Hn Hcl Hsr. rewrite pv_copy_kids_eq.
    set (f1 := fun l => bf_occ acc l || f l) in *.
    assert (Hcl1 : forall l : loc, nb <= fst l -> f1 l = false).
    { intros l Hl. unfold f1. rewrite (Hcl l) by lia. rewrite orb_false_r. apply not_occ_bf with (mgr := mgr) (nodesz := nodesz). intros Hin.
      assert (In (fst l) (ids (bf_blks mgr nodesz acc ++ L))) by (unfold ids; rewrite map_app; apply in_or_app; left; exact Hin).
      pose proof (dlist_below _ nb (fst l) D H0). lia. }
    assert (Hsr1 : forall x, 0 <= x -> f1 (src, x) = true) by (intros x Hx; unfold f1; rewrite (Hsr x Hx); apply orb_true_r).
    pose proof (IHt off s f1 (bf_blks mgr nodesz acc ++ L) nb Hoff H D Hcl1 Hsr1) as T.
    destruct (pv_copy mgr nodesz src t off s) as [[bk| |] s1]; [| |contradiction].
    + destruct T as (nb1 & Hle1 & H1 & D1 & G1).
      assert (Hoff' : 0 <= off + titems t) by (pose proof (proj1 titems_nonneg t); lia).
      pose proof (IHr (off + titems t) (BCons bk acc) s1 f L nb1 nb0 Hoff') as R.
      assert (H1' : st_is s1 (fun l => bf_occ (BCons bk acc) l || f l) (bf_blks mgr nodesz (BCons bk acc) ++ L) nb1).
      { change (bf_blks mgr nodesz (BCons bk acc)) with (bt_blks mgr nodesz bk ++ bf_blks mgr nodesz acc). rewrite <- app_assoc. eapply st_is_ext; [|exact H1]. intros l. unfold f1. simpl. rewrite orb_assoc. reflexivity. }
      assert (D1' : dlist (bf_blks mgr nodesz (BCons bk acc) ++ L) nb1) by (change (bf_blks mgr nodesz (BCons bk acc)) with (bt_blks mgr nodesz bk ++ bf_blks mgr nodesz acc); rewrite <- app_assoc; exact D1).
      assert (G1' : Forall (fun x => nb0 <= x) (ids (bf_blks mgr nodesz (BCons bk acc)))).
      { change (bf_blks mgr nodesz (BCons bk acc)) with (bt_blks mgr nodesz bk ++ bf_blks mgr nodesz acc). unfold ids. rewrite map_app. apply Forall_app. split; [|exact G].
        eapply Forall_impl; [|exact G1]. intros x Hx. simpl in Hx. lia. }
      specialize (R H1' D1' G1' ltac:(lia) Hcl Hsr).
      destruct (pv_copy_kids mgr nodesz src r (off + titems t) (BCons bk acc) s1) as [[acc' o] s2].
      destruct o; try contradiction; destruct R as (nb2 & Hle2 & R'); exists nb2; (split; [lia|exact R']).
    + destruct T as (nb1 & Hle1 & H1). exists nb1. split; [lia|]. split; [exact H1|]. split; [apply (dlist_mono _ nb nb1); [lia|exact D]|exact G].
Qed.

Lemma pv_copy_ok : forall t, copy_ok t.
Proof.
  destruct copy_cases as (C1 & C2 & C3). apply (tree_mut copy_ok copy_kids_ok); [exact C1|exact C2|exact C3].
Qed.

End TreeCopyProofs.

(* ------------------------------------------------------------------ the copy constructor on an arbitrary tree *)
Section TreeCtorProofs.
Variables mgr nodesz parsz crewsz : Z.

(* TreeSet(const TreeSet&, MemManager) as after 806b9fe on a tree of ANY shape (any depth, any number of items and children per
   node) followed by the destructor: a failure at any node, at the node allocation or at any item, releases every node and
   every item built so far exactly once; on success ~TreeSet releases the whole copy; the world ends as it started *)
Theorem tsn_copy_then_destroy_post src kr t s f bs :
  rows_world s f bs src kr ->
  post (tsn_copy_then_destroy mgr nodesz parsz crewsz true src t) s
       (fun _ s' => st_is s' f bs (nextb s')) (fun s' => st_is s' f bs (nextb s')).
Proof.
  intros (H & D & Hcl & Hsr & _). unfold tsn_copy_then_destroy. set (nb := nextb s) in *. apply post_bind.
  eapply post_conseq; [apply (p_alloc_post mgr crewsz s f bs nb H)| |].
  2:{ intros s' (A & B & C). rewrite C. repeat split; auto. }
  intros crew s0 [Ec S0]. subst crew.
  assert (D0 : dlist ((nb, (mgr, crewsz)) :: bs) (nb + 1)) by (apply dlist_cons; exact D).
  assert (Rel : forall s2 nb2, st_is s2 f ((nb, (mgr, crewsz)) :: bs) nb2 ->
            post (p_dealloc mgr nb crewsz) s2 (fun _ s3 => st_is s3 f bs (nextb s3)) (fun s3 => st_is s3 f bs (nextb s3))).
  { intros s2 nb2 H2. eapply post_conseq; [apply (p_dealloc_post mgr nb crewsz s2 _ _ _ H2)| |intros ? []].
    - simpl. rewrite Z.eqb_refl. reflexivity.
    - intros u s3 H3. rewrite (remove_head nb (mgr, crewsz) bs (nb + 1) D0) in H3.
      destruct H3 as (A & B & C). rewrite C. repeat split; auto. }
  apply post_finally. apply post_bind.
  eapply post_conseq; [apply (p_alloc_post mgr parsz s0 f _ (nb + 1) S0)| |].
  2:{ intros s' H'. apply (Rel s' _ H'). }
  intros par s1 [Ep S1]. subst par.
  set (L := (nb + 1, (mgr, parsz)) :: (nb, (mgr, crewsz)) :: bs) in *.
  assert (D1 : dlist L (nb + 1 + 1)) by (apply dlist_cons; exact D0).
  assert (Hcl1 : forall l : loc, nb + 1 + 1 <= fst l -> f l = false) by (intros l Hl; apply Hcl; lia).
  assert (RelP : forall s2 nb2, st_is s2 f L nb2 ->
            post (p_dealloc mgr (nb + 1) parsz) s2 (fun _ s3 => st_is s3 f ((nb, (mgr, crewsz)) :: bs) nb2) (fun _ => False)).
  { intros s2 nb2 H2. eapply post_conseq; [apply (p_dealloc_post mgr (nb + 1) parsz s2 _ _ _ H2)| |auto].
    - simpl. rewrite Z.eqb_refl. reflexivity.
    - intros u s3 H3. unfold L in H3. rewrite (remove_head (nb + 1) (mgr, parsz) _ (nb + 1 + 1) D1) in H3. exact H3. }
  assert (Body : post (tsn_body mgr nodesz parsz true (nb + 1) src t) s1
                   (fun _ s' => exists nb', st_is s' f ((nb, (mgr, crewsz)) :: bs) nb')
                   (fun s' => exists nb', st_is s' f ((nb, (mgr, crewsz)) :: bs) nb')).
  { unfold tsn_body, post.
    pose proof (pv_copy_ok mgr nodesz src t 0 s1 f L (nb + 1 + 1) (Z.le_refl 0) S1 D1 Hcl1 Hsr) as P.
    destruct (pv_copy mgr nodesz src t 0 s1) as [[bt| |] s2]; [| |contradiction].
    - destruct P as (nb2 & Hle & H2 & D2 & G2).
      assert (Q : post (pv_destroy mgr nodesz bt ;;; p_dealloc mgr (nb + 1) parsz) s2
                    (fun _ s' => exists nb', st_is s' f ((nb, (mgr, crewsz)) :: bs) nb') (fun _ => False)).
      { apply post_bind.
        eapply post_conseq; [apply (pv_destroy_post mgr nodesz bt s2 f L nb2 H2 D2)| |auto].
        - intros l Hin. apply Hcl1. rewrite Forall_forall in G2. apply (G2 (fst l) Hin).
        - intros u s3 [H3 D3]. eapply post_conseq; [apply (RelP s3 nb2 H3)| |auto]. intros u2 s4 H4. exists nb2. exact H4. }
      unfold post in Q. destruct ((pv_destroy mgr nodesz bt;;; p_dealloc mgr (nb + 1) parsz) s2) as [[u| |] s3]; try contradiction; exact Q.
    - destruct P as (nb2 & Hle & H2).
      assert (Q : post (p_dealloc mgr (nb + 1) parsz ;;; ret tt) s2
                    (fun _ s' => exists nb', st_is s' f ((nb, (mgr, crewsz)) :: bs) nb') (fun _ => False)).
      { apply post_bind. eapply post_conseq; [apply (RelP s2 nb2 H2)| |auto]. intros u s3 H3. apply post_ret. exists nb2. exact H3. }
      unfold post in Q. destruct ((p_dealloc mgr (nb + 1) parsz;;; ret tt) s2) as [[u| |] s3]; try contradiction; exact Q. }
  eapply post_conseq; [exact Body| |].
  - intros u s2 [nb2 H2]. apply (Rel s2 nb2 H2).
  - intros s2 [nb2 H2]. apply (Rel s2 nb2 H2).
Qed.

End TreeCtorProofs.

Theorem tsn_copy_any_tree_any_schedule mgr nodesz parsz crewsz t sch :
  post (tsn_copy_then_destroy mgr nodesz parsz crewsz true (-1) t) (rows_init sch)
       (fun _ s' => back_to_start s') (fun s' => back_to_start s').
Proof.
  eapply post_conseq; [apply (tsn_copy_then_destroy_post mgr nodesz parsz crewsz (-1) (-2) t _ _ _ (rows_init_world sch))| |].
  - intros u s' (A & B & _). split; [exact B|exact A].
  - intros s' (A & B & _). split; [exact B|exact A].
Qed.

(* the pre-806b9fe shape on a three-level tree: a failure deep in the second subtree, then the destructor frees the params again *)
Definition sample_tree : tree :=
  Node 1 (FCons (Node 1 (FCons (Node 2 FNil) (FCons (Node 3 FNil) FNil)))
         (FCons (Node 2 (FCons (Node 2 FNil) (FCons (Node 1 FNil) (FCons (Node 4 FNil) FNil)))) FNil)).

Theorem tsn_double_destroy_refuted :
  exists (sch : list bool),
    is_stuck (tsn_copy_then_destroy 1 96 168 24 false (-1) sample_tree (rows_init sch)) = true /\
    is_stuck (tsn_copy_then_destroy 1 96 168 24 true (-1) sample_tree (rows_init sch)) = false.
Proof. exists (repeat false 17 ++ [true]). split; vm_compute; reflexivity. Qed.

(* ------------------------------------------------------------------ first insertion into a bucket-less HashSet *)
Section FirstInsertProofs.
Variables mgr bufsz parsz crewsz : Z.

Theorem first_insert_scn_post src s f bs :
  st_is s f bs (nextb s) -> dlist bs (nextb s) -> (forall l, nextb s <= fst l -> f l = false) -> f src = true ->
  post (first_insert_scn mgr bufsz parsz crewsz true src) s
       (fun _ s' => st_is s' f bs (nextb s')) (fun s' => st_is s' f bs (nextb s')).
Proof.
  intros H D Hcl Hs. unfold first_insert_scn. set (nb := nextb s) in *. apply post_bind.
  eapply post_conseq; [apply (p_alloc_post mgr crewsz s f bs nb H)| |].
  2:{ intros s' (A & B & C). rewrite C. repeat split; auto. }
  intros crew s0 [Ec S0]. subst crew.
  assert (D0 : dlist ((nb, (mgr, crewsz)) :: bs) (nb + 1)) by (apply dlist_cons; exact D).
  assert (Rel : forall s2 nb2, st_is s2 f ((nb, (mgr, crewsz)) :: bs) nb2 ->
            post (p_dealloc mgr nb crewsz) s2 (fun _ s3 => st_is s3 f bs (nextb s3)) (fun s3 => st_is s3 f bs (nextb s3))).
  { intros s2 nb2 H2. eapply post_conseq; [apply (p_dealloc_post mgr nb crewsz s2 _ _ _ H2)| |intros ? []].
    - simpl. rewrite Z.eqb_refl. reflexivity.
    - intros u s3 H3. rewrite (remove_head nb (mgr, crewsz) bs (nb + 1) D0) in H3.
      destruct H3 as (A & B & C). rewrite C. repeat split; auto. }
  apply post_finally.
  set (L := (nb, (mgr, crewsz)) :: bs) in *.
  assert (FL : fresh L (nb + 1)) by (apply dlist_fresh; exact D0).
  assert (Body : post (bp <- first_insert mgr bufsz parsz true src ;; hs_pv_destroy mgr bufsz parsz (mkH (Some bp) 1)) s0
                   (fun _ s' => exists nb', st_is s' f L nb') (fun s' => exists nb', st_is s' f L nb')).
  { apply post_bind. unfold first_insert. apply post_bind.
    eapply post_conseq; [apply (buckets_create_post mgr bufsz parsz s0 f L (nb + 1) S0 FL)| |].
    2:{ intros s' (nb' & _ & H'). exists nb'. exact H'. }
    intros bp s1 [Ebp H1]. subst bp. cbn [fst snd]. set (b0 := nb + 1) in *.
    assert (Eb : remove_blk (b0 + 1) ((b0 + 1, (mgr, parsz)) :: (b0, (mgr, bufsz)) :: L) = (b0, (mgr, bufsz)) :: L).
    { simpl. rewrite Z.eqb_refl. simpl. destruct (Z.eqb_spec b0 (b0 + 1)); [lia|]. simpl. f_equal. apply (remove_blk_fresh L b0); [exact FL|lia]. }
    assert (Eb2 : remove_blk b0 ((b0, (mgr, bufsz)) :: L) = L).
    { simpl. rewrite Z.eqb_refl. simpl. apply (remove_blk_fresh L b0); [exact FL|lia]. }
    apply post_bind. apply post_catch.
    eapply post_conseq; [apply (p_copy_post (b0, 0) src s1 _ _ _ H1 Hs)| |].
    - apply Hcl. simpl. fold nb. unfold b0. lia.
    - intros u2 s2 H2. apply post_ret.
      (* the set now owns one item: its destructor releases item, params, bucket array *)
      eapply post_conseq; [apply (hs_pv_destroy_post mgr bufsz parsz b0 1 s2 _ L (b0 + 2) H2 FL)| |intros ? []].
      + intros k Hk. assert (k = 0) by lia. subst k. cbv beta. rewrite loc_eqb_refl. reflexivity.
      + intros u3 s3 H3. exists (b0 + 2). eapply st_is_ext; [|exact H3]. intros l. cbv beta. rewrite inrng_1.
        destruct (loc_eqb_spec l (b0, 0)) as [El|]; [|reflexivity]. subst l. simpl. symmetry. apply Hcl. simpl. fold nb. unfold b0. lia.
    - intros s2 H2. apply post_bind.
      eapply post_conseq; [apply (p_dealloc_post mgr (b0 + 1) parsz s2 _ _ _ H2)| |intros ? []].
      + simpl. rewrite Z.eqb_refl. reflexivity.
      + intros u3 s3 H3. rewrite Eb in H3.
        eapply post_conseq; [apply (p_dealloc_post mgr b0 bufsz s3 _ _ _ H3)| |intros ? []].
        * simpl. rewrite Z.eqb_refl. reflexivity.
        * intros u4 s4 H4. rewrite Eb2 in H4. exists (b0 + 2). exact H4. }
  eapply post_conseq; [exact Body| |].
  - intros u s2 [nb2 H2]. apply (Rel s2 nb2 H2).
  - intros s2 [nb2 H2]. apply (Rel s2 nb2 H2).
Qed.

End FirstInsertProofs.

(* with `Destroy(GetMemManager(), false)` in the catch block the params of a failed FIRST insertion are never returned *)
Theorem first_insert_params_orphaned_refuted :
  exists (sch : list bool),
    (let '(_, s') := first_insert_scn 1 64 16 24 false (-1, 0) (rows_init sch) in blocks s' <> []) /\
    (let '(_, s') := first_insert_scn 1 64 16 24 true (-1, 0) (rows_init sch) in blocks s' = []).
Proof. exists [false; false; false; true]. split; vm_compute; [discriminate|reflexivity]. Qed.
