(* C01 -- Bucket::Find with the short-hash filter (LimP4, Open2N2, OpenN1 / Open8's scalar loop):
     for (i = 0; i < maxCount; ++i) if (shortHashes[i] == shortHash && itemPred(items[i])) return items + i;
   `find_sh` mirrors it: the slot bytes are scanned; the item is read only where the byte matches (reading a slot beyond
   the stored count would be an out-of-bounds read = outer None).  bucket_find_complete: when every stored item carries
   the short hash computed from ITS hash code (what AddCrt writes, with the pvCalcShortHash regenerated from the headers)
   and the unused slots carry "empty" bytes, the filter never skips a stored key, never reads an unused slot, and the
   result equals the plain key search `bfind` that HashModel uses.  The remaining contract: Remove / GetHashCodePart keep
   the bytes in step with the items (tied by correspondence; mutant m2), and Open8's SSE2 byte match (not translated:
   only the SSE2 variant is compiled on this platform) returns the same candidate set as this scalar loop. *)
From Coq Require Import ZArith List Lia Bool.
From MomoCommon Require Import GenPrelude.
From C01 Require Import HashModel ListAux.
From C01 Require Gen_LimP4 Gen_Open2N2 Gen_Open2N2w Gen_OpenN1.
Import ListNotations.
Local Open Scope Z_scope.

Fixpoint find_sh (shs : list Z) (its : list item) (sh k : Z) (i : nat) : option (option (nat * Z)) :=
  match shs with
  | [] => Some None
  | s :: shs' =>
    if s =? sh then
      match its with
      | [] => None
      | (k', v) :: r => if k =? k' then Some (Some (i, v)) else find_sh shs' r sh k (S i)
      end
    else find_sh shs' (tl its) sh k (S i)
  end.

Section Filter.
  Variable h : Z -> Z.
  Variable calcSH : Z -> Z.          (* pvCalcShortHash *)
  Variable emptyFrom : Z.            (* bytes >= emptyFrom mark unused slots (maskEmpty / emptyShortHash / the count byte) *)
  Hypothesis sh_lt : forall k, calcSH (h k) < emptyFrom.

  Definition tag (kv : item) : Z := calcSH (h (fst kv)).

  Lemma find_sh_empties k : forall empties i, Forall (fun s => emptyFrom <= s) empties ->
    find_sh empties [] (calcSH (h k)) k i = Some None.
  Proof.
    induction empties as [|s r IH]; intros i F; simpl; auto. inversion F; subst.
    destruct (Z.eqb_spec s (calcSH (h k))) as [E|E]; [pose proof (sh_lt k); lia|]. apply IH; auto.
  Qed.

  Theorem bucket_find_complete k : forall its empties i, Forall (fun s => emptyFrom <= s) empties ->
    find_sh (map tag its ++ empties) its (calcSH (h k)) k i = Some (bfind k its i).
  Proof.
    induction its as [|[k' v] r IH]; intros empties i F; simpl.
    - apply find_sh_empties; auto.
    - unfold tag at 1. simpl. destruct (Z.eqb_spec (calcSH (h k')) (calcSH (h k))) as [E|E].
      + destruct (Z.eqb_spec k k'); auto.
      + destruct (Z.eqb_spec k k'); [subst; congruence|]. apply IH; auto.
  Qed.
End Filter.

(* the regenerated short-hash functions never produce an "empty" byte (hash codes are size_t values) *)
Lemma limp4_sh_lt hc : 0 <= hc < 2 ^ 64 -> 0 <= Gen_LimP4.pvCalcShortHash hc < 128.
Proof.
  intros H. unfold Gen_LimP4.pvCalcShortHash, Gen_LimP4.hashCodeShift.
  change (wrapU 64 (wrapU 64 (8 * 8) - 7)) with 57. rewrite Z.shiftr_div_pow2 by lia.
  assert (0 <= hc / 2 ^ 57 < 2 ^ 7).
  { split; [apply Z.div_pos; lia|]. apply Z.div_lt_upper_bound; [lia|]. change (2 ^ 57 * 2 ^ 7) with (2 ^ 64). lia. }
  rewrite wrapU_small; lia.
Qed.

Lemma open2n2_sh_lt hc : 0 <= hc < 2 ^ 64 -> 0 <= Gen_Open2N2.pvCalcShortHash hc < 128.
Proof.
  intros H. unfold Gen_Open2N2.pvCalcShortHash, Gen_Open2N2.hashCodeShift.
  change (wrapU 64 (wrapU 64 (wrapU 64 (8 * 8) - wrapU 64 (1 * 8)) + 1)) with 57. rewrite Z.shiftr_div_pow2 by lia.
  assert (0 <= hc / 2 ^ 57 < 2 ^ 7).
  { split; [apply Z.div_pos; lia|]. apply Z.div_lt_upper_bound; [lia|]. change (2 ^ 57 * 2 ^ 7) with (2 ^ 64). lia. }
  rewrite wrapU_small; lia.
Qed.

Lemma openn1_sh_lt hc : 0 <= hc < 2 ^ 64 -> 0 <= Gen_OpenN1.ptCalcShortHash hc < Gen_OpenN1.emptyShortHash.
Proof.
  intros H. unfold Gen_OpenN1.ptCalcShortHash, Gen_OpenN1.emptyShortHash.
  change (wrapU 64 (wrapU 64 (8 * 8) - 24)) with 40. rewrite !Z.shiftr_div_pow2 by lia.
  assert (H24 : 0 <= hc / 2 ^ 40 < 2 ^ 24).
  { split; [apply Z.div_pos; lia|]. apply Z.div_lt_upper_bound; [lia|]. change (2 ^ 40 * 2 ^ 24) with (2 ^ 64). lia. }
  rewrite (wrapU_small 32 (hc / 2 ^ 40)) by lia.
  assert (Hm : 0 <= hc / 2 ^ 40 * 248 < 2 ^ 32) by lia.
  rewrite (wrapU_small 32 (hc / 2 ^ 40 * 248)) by lia.
  assert (0 <= hc / 2 ^ 40 * 248 / 2 ^ 24 < 248).
  { split; [apply Z.div_pos; lia|]. apply Z.div_lt_upper_bound; lia. }
  rewrite wrapU_small; lia.
Qed.

(* the filter never skips a stored key -- for the three regenerated short-hash functions, for every hash function
   with size_t values *)
Theorem limp4_find_complete (h : Z -> Z) : (forall k, 0 <= h k < 2 ^ 64) -> forall k its empties i,
  Forall (fun s => 128 <= s) empties ->
  find_sh (map (tag h Gen_LimP4.pvCalcShortHash) its ++ empties) its (Gen_LimP4.pvCalcShortHash (h k)) k i = Some (bfind k its i).
Proof. intros Hh k. apply bucket_find_complete. intros k0. apply limp4_sh_lt. apply Hh. Qed.

Theorem open2n2_find_complete (h : Z -> Z) : (forall k, 0 <= h k < 2 ^ 64) -> forall k its empties i,
  Forall (fun s => 128 <= s) empties ->
  find_sh (map (tag h Gen_Open2N2.pvCalcShortHash) its ++ empties) its (Gen_Open2N2.pvCalcShortHash (h k)) k i = Some (bfind k its i).
Proof. intros Hh k. apply bucket_find_complete. intros k0. apply open2n2_sh_lt. apply Hh. Qed.

Theorem openn1_find_complete (h : Z -> Z) : (forall k, 0 <= h k < 2 ^ 64) -> forall k its empties i,
  Forall (fun s => Gen_OpenN1.emptyShortHash <= s) empties ->
  find_sh (map (tag h Gen_OpenN1.ptCalcShortHash) its ++ empties) its (Gen_OpenN1.ptCalcShortHash (h k)) k i = Some (bfind k its i).
Proof. intros Hh k. apply bucket_find_complete. intros k0. apply openn1_sh_lt. apply Hh. Qed.

(* Open2N2 with useHashCodePartGetter = false: 16-bit short hashes, emptyShortHash = 1 << 15 *)
Lemma open2n2w_sh_lt hc : 0 <= hc < 2 ^ 64 -> 0 <= Gen_Open2N2w.pvCalcShortHash hc < 32768.
Proof.
  intros H. unfold Gen_Open2N2w.pvCalcShortHash, Gen_Open2N2w.hashCodeShift.
  change (wrapU 64 (wrapU 64 (wrapU 64 (8 * 8) - wrapU 64 (2 * 8)) + 1)) with 49. rewrite Z.shiftr_div_pow2 by lia.
  assert (0 <= hc / 2 ^ 49 < 2 ^ 15).
  { split; [apply Z.div_pos; lia|]. apply Z.div_lt_upper_bound; [lia|]. change (2 ^ 49 * 2 ^ 15) with (2 ^ 64). lia. }
  rewrite wrapU_small; lia.
Qed.

Theorem open2n2w_find_complete (h : Z -> Z) : (forall k, 0 <= h k < 2 ^ 64) -> forall k its empties i,
  Forall (fun s => 32768 <= s) empties ->
  find_sh (map (tag h Gen_Open2N2w.pvCalcShortHash) its ++ empties) its (Gen_Open2N2w.pvCalcShortHash (h k)) k i = Some (bfind k its i).
Proof. intros Hh k. apply bucket_find_complete. intros k0. apply open2n2w_sh_lt. apply Hh. Qed.

(* ---------- the stored bytes stay in step with the items over every bucket history ----------
   bucket history = AddCrt (append the item; write ITS short hash into the next slot) and Remove(pos) (the item AND the byte of
   the last occupied slot move into the hole -- what the Remove functions of LimP4 / Open2N2 / OpenN1 do to shortHashes[],
   and Open2N2 / LimP4 also to hashProbes[]: array-level statements C12_open2n2_remove_moves_pair, C12_limp4_bucket_meta_inv
   in props/C12 about the regenerated Remove).  Then bytes = map tag items is an invariant, i.e. the hypothesis of
   bucket_find_complete holds after every history. *)
Definition gbremove {A} (pos : nat) (l : list A) : list A :=
  match rev l with
  | [] => []
  | z :: _ => let l' := removelast l in if Nat.eqb pos (length l') then l' else upd_nth pos z l'
  end.

Lemma gbremove_item pos (l : list item) : gbremove pos l = bremove pos l.
Proof. reflexivity. Qed.

Lemma upd_nth_map {A C} (f : A -> C) l : forall n x, map f (upd_nth n x l) = upd_nth n (f x) (map f l).
Proof. induction l; intros n x; destruct n; simpl; auto. f_equal. auto. Qed.

Lemma removelast_map {A C} (f : A -> C) l : map f (removelast l) = removelast (map f l).
Proof. induction l as [|a [|b r] IH]; simpl in *; auto. f_equal. exact IH. Qed.

Lemma gbremove_map {A C} (f : A -> C) pos l : map f (gbremove pos l) = gbremove pos (map f l).
Proof.
  unfold gbremove. rewrite <- map_rev. destruct (rev l) as [|z r]; simpl; auto.
  rewrite <- removelast_map, map_length. destruct (Nat.eqb pos (length (removelast l))); auto. apply upd_nth_map.
Qed.

Inductive bop : Type := BAdd (kv : item) | BRemove (pos : nat).

Section InStep.
  Variable tagf : item -> Z.
  Definition bstep (st : list Z * list item) (o : bop) : list Z * list item :=
    match o with
    | BAdd kv => (fst st ++ [tagf kv], snd st ++ [kv])
    | BRemove pos => (gbremove pos (fst st), bremove pos (snd st))
    end.

  Theorem bucket_bytes_in_step : forall os st, fst st = map tagf (snd st) ->
    fst (fold_left bstep os st) = map tagf (snd (fold_left bstep os st)).
  Proof.
    induction os as [|o os IH]; intros st H; simpl; auto. apply IH.
    destruct o; simpl.
    - rewrite H, map_app. reflexivity.
    - rewrite H. rewrite <- gbremove_item. symmetry. apply gbremove_map.
  Qed.
End InStep.

(* hence, after ANY bucket history from the empty bucket, the filter finds exactly what the key search finds *)
Theorem bucket_find_complete_all_histories (h : Z -> Z) (calcSH : Z -> Z) (emptyFrom : Z) :
  (forall k, calcSH (h k) < emptyFrom) -> forall os k empties i, Forall (fun s => emptyFrom <= s) empties ->
    let st := fold_left (bstep (tag h calcSH)) os ([], []) in
    find_sh (fst st ++ empties) (snd st) (calcSH (h k)) k i = Some (bfind k (snd st) i).
Proof.
  intros Hsh os k empties i F. cbv zeta.
  rewrite (bucket_bytes_in_step (tag h calcSH) os ([], []) eq_refl). apply (bucket_find_complete h calcSH emptyFrom); auto.
Qed.
