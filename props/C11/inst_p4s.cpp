// instantiation TU for cxx2coq (C11): BucketLimP4 for maxCount 4, 3, 2, 1 -- same-code lemmas (maxCount symbolic)
#include "momo/HashSet.h"
#include "momo/details/HashBucketLimP4.h"
namespace momo { namespace internal {
typedef HashSetItemTraits<uint64_t, MemManagerDefault> C11IT;
template class BucketLimP4<C11IT, 4, MemPoolParams<>, true>;
template class BucketLimP4<C11IT, 3, MemPoolParams<>, true>;
template class BucketLimP4<C11IT, 2, MemPoolParams<>, true>;
template class BucketLimP4<C11IT, 1, MemPoolParams<>, true>;
struct C11Replacer { void operator()(uint64_t&, uint64_t&) const {} };
inline void c11_use(BucketLimP4<C11IT, 4, MemPoolParams<>, true>& a, BucketLimP4<C11IT, 3, MemPoolParams<>, true>& b,
	BucketLimP4<C11IT, 2, MemPoolParams<>, true>& c, BucketLimP4<C11IT, 1, MemPoolParams<>, true>& d,
	BucketLimP4<C11IT, 4, MemPoolParams<>, true>::Params& pa, BucketLimP4<C11IT, 3, MemPoolParams<>, true>::Params& pb,
	BucketLimP4<C11IT, 2, MemPoolParams<>, true>::Params& pc, BucketLimP4<C11IT, 1, MemPoolParams<>, true>::Params& pd)
{
	C11Replacer rp;
	a.Remove(pa, a.GetBounds(pa).GetBegin(), rp); b.Remove(pb, b.GetBounds(pb).GetBegin(), rp);
	c.Remove(pc, c.GetBounds(pc).GetBegin(), rp); d.Remove(pd, d.GetBounds(pd).GetBegin(), rp);
}
}}
