(* C04 -- HashSet::pvAddGrow (HashSet.h:1146-1185) for a single insertion that needs a bigger table:
     newBuckets = Buckets::Create(...)            allocates the table and -- only when the set has no buckets yet -- the shared
                                                  BucketParams (HashSet.h:51-78); on bad_alloc: if there are old buckets and
                                                  overloadIfCannotGrow, the item is added to the OLD table instead, else rethrow
     pvAddNogrow(newBuckets, ...)                  may throw; the catch block destroys the new table, and the BucketParams exactly
                                                  when this call created them (`!hasBuckets`)
     link the new table in front of the old one    (the lazy migration pvRelocateItems happens afterwards and swallows its failures)
   Blocks: the table buffer and the BucketParams object are blocks (they hold no element objects). *)
From Coq Require Import List Arith Lia Bool PeanoNat.
From C04 Require Import Effects ObjMgr ArrayData Ctor.
Import ListNotations.

Definition rParams := 17.      (* mBuckets->mBucketParams: 0 = none, S p = block p *)
Definition rHCap := 20.        (* mCapacity *)

Definition buckets_create (hasBuckets : bool) (nb : nat) : M (nat * nat) :=
  tb <- alloc nb ;;
  pb <- try_catch (if hasBuckets then getr rParams else (p <- alloc 1 ;; ret (S p)))
                  (dealloc tb ;; throw) ;;
  ret (tb, pb).

Definition buckets_destroy (tb pb : nat) (destroyBucketParams : bool) : M unit :=
  (if destroyBucketParams then dealloc (pred pb) else ret tt) ;; dealloc tb.

Definition pv_add_grow_gen (destroy_flag : bool -> bool) (hasBuckets : bool) (nb newCap : nat)
    (add_old : M unit) (add_new : nat -> M unit) : M unit :=
  created <- try_catch (x <- buckets_create hasBuckets nb ;; ret (Some x))
                       (if hasBuckets then (add_old ;; ret None) else throw) ;;
  match created with
  | Some (tb, pb) =>
    try_catch (add_new tb) (buckets_destroy tb pb (destroy_flag hasBuckets) ;; throw) ;;
    setr rBuckets (S tb) ;; setr rParams pb ;; setr rHCap newCap
  | None => ret tt
  end.
(* the source: newBuckets->Destroy(GetMemManager(), !hasBuckets) *)
Definition pv_add_grow := pv_add_grow_gen negb.
(* the seeded shape: Destroy(GetMemManager(), false) *)
Definition pv_add_grow_keep_params := pv_add_grow_gen (fun _ => false).

(* BucketLimP4::pvAdd0 under the BucketMemory guard: the first item of a bucket (used as the concrete add_new in the tie) *)
Definition bucket_add0 (arg : loc) : nat -> M unit :=
  fun _tb => b <- alloc 1 ;; try_catch (copy_construct arg (b, 0)) (dealloc b ;; throw).

(* the seeded shape leaks the BucketParams of a set that had no buckets: refuted by a concrete run
   (block 0 = the argument item; the copy of the item fails: schedule = table ok, params ok, item block ok, copy fails) *)
Definition grow_demo : st :=
  mkS (mkH (fun l => if loc_eqb l (0, 0) then Live 7 else Raw) (fun b => b =? 0) (fun _ => 1) 1 (fun _ => 0)) [false; false; false; true] [].
Lemma pv_add_grow_keep_params_leaks :
  exists s', pv_add_grow_keep_params false 8 5 (ret tt) (bucket_add0 (0, 0)) grow_demo = (Exn, s') /\
             alive (hp s') 2 = true /\ alive (hp grow_demo) 2 = false.
Proof. eexists. split; [vm_compute; reflexivity|]. split; reflexivity. Qed.
Lemma pv_add_grow_same_run_frees_everything :
  exists s', pv_add_grow false 8 5 (ret tt) (bucket_add0 (0, 0)) grow_demo = (Exn, s') /\
             alive (hp s') 1 = false /\ alive (hp s') 2 = false /\ alive (hp s') 3 = false /\ regs (hp s') rBuckets = 0.
Proof. eexists. split; [vm_compute; reflexivity|]. repeat split; reflexivity. Qed.

Lemma heq_same_res : forall a b, heq a b -> same_res a b.
Proof. intros a b []; split; auto. intros r _; auto. Qed.

Lemma wf_halloc : forall h n, wf h -> wf (halloc h n).
Proof. intros h n W b Hb. simpl in *. unfold updn. destruct (b =? next h) eqn:E. apply Nat.eqb_eq in E; lia. apply W; lia. Qed.
Lemma wf_heq : forall h h', heq h h' -> wf h -> wf h'.
Proof. intros h h' H W b Hb. rewrite (hq_alive _ _ H). apply W. rewrite <- (hq_next _ _ H). exact Hb. Qed.

(* pvAddGrow of a set that has no buckets yet (the BucketParams are created here and owned by the new table): for every
   strongly safe way of adding the item to the new table and every schedule, an exception leaves no block behind *)
Section AddGrowFirst.
Variables (nb newCap : nat) (add_old : M unit) (add_new : nat -> M unit) (Pn : heap -> Prop).
Hypothesis Hnew : forall tb s, Pn (hp s) -> alive (hp s) tb = true ->
  wp (add_new tb) s (fun _ _ => True) (fun s' => same_res (hp s) (hp s')).
Hypothesis Pn_heq : forall h h', heq h h' -> Pn h -> Pn h'.
Hypothesis Pn_alloc : forall h n, wf h -> Pn h -> Pn (halloc h n).

Theorem pv_add_grow_first_spec : forall s,
  wf (hp s) -> Pn (hp s) ->
  wp (pv_add_grow false nb newCap add_old add_new) s
     (fun _ s' => regs (hp s') rBuckets = S (next (hp s)) /\ regs (hp s') rParams = S (S (next (hp s))) /\ regs (hp s') rHCap = newCap)
     (fun s' => same_res (hp s) (hp s')).
Proof.
  intros s W HP. unfold pv_add_grow, pv_add_grow_gen, buckets_create. simpl.
  set (h0 := hp s) in *. set (tb := next h0).
  apply wp_bind. apply wp_try. apply wp_bind. apply wp_bind. apply wp_alloc.
  { intros s1 H1. apply wp_throw. apply heq_same_res. exact H1. }
  intros s1 H1. fold h0 tb in H1 |- *.
  assert (W1 : wf (hp s1)) by (eapply wf_heq; [exact H1|]; apply wf_halloc; auto).
  assert (P1 : Pn (hp s1)) by (eapply Pn_heq; [exact H1|]; apply Pn_alloc; auto).
  assert (N1 : next (hp s1) = S tb) by (rewrite (hq_next _ _ H1); reflexivity).
  assert (A1 : forall b, alive (hp s1) b = if b =? tb then true else alive h0 b).
  { intros b. rewrite (hq_alive _ _ H1). reflexivity. }
  assert (M1 : forall l, mem (hp s1) l = if fst l =? tb then Raw else mem h0 l).
  { intros l. rewrite (hq_mem _ _ H1). reflexivity. }
  assert (B1 : forall b, bsize (hp s1) b = if b =? tb then nb else bsize h0 b).
  { intros b. rewrite (hq_bsize _ _ H1). reflexivity. }
  assert (Dead0 : forall b, tb <= b -> alive h0 b = false) by (intros; apply W; auto).
  (* the heap after the new blocks have been freed again is the old one, as far as resources go *)
  assert (Back : forall h, (forall l, alive h0 (fst l) = true -> mem h l = mem h0 l) -> (forall b, alive h b = alive h0 b) ->
                           (forall b, alive h0 b = true -> bsize h b = bsize h0 b) -> (forall r, 10 <= r -> regs h r = regs h0 r) -> same_res h0 h).
  { intros h a b c d. split; auto. }
  apply wp_bind. apply wp_try. apply wp_bind. apply wp_alloc.
  { (* the BucketParams allocation failed: free the table *)
    intros s2 H2. apply wp_bind. apply wp_dealloc.
    - rewrite (hq_alive _ _ H2), A1, Nat.eqb_refl. reflexivity.
    - intros i _. rewrite (hq_mem _ _ H2), M1. simpl. rewrite Nat.eqb_refl. reflexivity.
    - intros s3 H3. apply wp_throw. apply wp_throw. apply Back.
      + intros l Al. rewrite (hq_mem _ _ H3). simpl. rewrite (hq_mem _ _ H2), M1.
        destruct (fst l =? tb) eqn:E; auto. apply Nat.eqb_eq in E. rewrite E, Dead0 in Al by lia. discriminate.
      + intros b. rewrite (hq_alive _ _ H3). simpl. unfold updn. destruct (b =? tb) eqn:E.
        * apply Nat.eqb_eq in E. subst. rewrite Dead0 by lia. reflexivity.
        * rewrite (hq_alive _ _ H2), A1, E. reflexivity.
      + intros b Ab. rewrite (hq_bsize _ _ H3). simpl. rewrite (hq_bsize _ _ H2), B1.
        destruct (b =? tb) eqn:E; auto. apply Nat.eqb_eq in E. subst. rewrite Dead0 in Ab by lia. discriminate.
      + intros r _. rewrite (hq_regs _ _ H3). simpl. rewrite (hq_regs _ _ H2). apply (hq_regs _ _ H1). }
  intros s2 H2. rewrite N1. set (pb := S tb) in *.
  apply wp_ret. apply wp_ret. apply wp_ret. simpl.
  assert (A2 : forall b, alive (hp s2) b = if b =? pb then true else if b =? tb then true else alive h0 b).
  { intros b. rewrite (hq_alive _ _ H2). simpl. unfold updn. rewrite N1. fold pb. destruct (b =? pb); auto. }
  assert (M2 : forall l, mem (hp s2) l = if fst l =? pb then Raw else if fst l =? tb then Raw else mem h0 l).
  { intros l. rewrite (hq_mem _ _ H2). simpl. rewrite N1. fold pb. destruct (fst l =? pb); auto. }
  assert (B2 : forall b, bsize (hp s2) b = if b =? pb then 1 else if b =? tb then nb else bsize h0 b).
  { intros b. rewrite (hq_bsize _ _ H2). simpl. unfold updn. rewrite N1. fold pb. destruct (b =? pb); auto. }
  assert (P2 : Pn (hp s2)) by (eapply Pn_heq; [exact H2|]; apply Pn_alloc; auto).
  assert (Npt : (tb =? pb) = false) by (apply Nat.eqb_neq; unfold pb; lia).
  apply wp_bind. apply wp_try. eapply wp_mono. { apply Hnew; auto. rewrite A2, Npt, Nat.eqb_refl. reflexivity. }
  - intros _ s3 _. apply wp_bind, wp_setr. intros s4 H4. apply wp_bind, wp_setr. intros s5 H5. apply wp_setr. intros s6 H6. repeat split.
    + rewrite (hq_regs _ _ H6), regs_hsetr_other by (unfold rBuckets, rHCap; lia).
      rewrite (hq_regs _ _ H5), regs_hsetr_other by (unfold rBuckets, rParams; lia). rewrite (hq_regs _ _ H4). apply regs_hsetr_same.
    + rewrite (hq_regs _ _ H6), regs_hsetr_other by (unfold rParams, rHCap; lia). rewrite (hq_regs _ _ H5). apply regs_hsetr_same.
    + rewrite (hq_regs _ _ H6). apply regs_hsetr_same.
  - (* adding to the new table threw: Destroy(memManager, !hasBuckets = true) frees the BucketParams, then the table *)
    intros s3 [C1 C2 C3 C4]. unfold buckets_destroy. simpl.
    apply wp_bind. apply wp_bind. apply wp_dealloc.
    + rewrite C2, A2, Nat.eqb_refl. reflexivity.
    + intros i _. rewrite C1 by (simpl; rewrite A2, Nat.eqb_refl; reflexivity). rewrite M2. simpl. rewrite Nat.eqb_refl. reflexivity.
    + intros s4 H4. apply wp_dealloc.
      * rewrite (hq_alive _ _ H4). simpl. unfold updn. rewrite Npt. rewrite C2, A2, Npt, Nat.eqb_refl. reflexivity.
      * intros i _. rewrite (hq_mem _ _ H4). simpl. rewrite C1 by (simpl; rewrite A2, Npt, Nat.eqb_refl; reflexivity).
        rewrite M2. simpl. rewrite Npt, Nat.eqb_refl. reflexivity.
      * intros s5 H5. apply wp_throw. apply Back.
        -- intros l Al. assert (L1 : (fst l =? pb) = false) by (apply Nat.eqb_neq; intro E; rewrite E, Dead0 in Al by (unfold pb; lia); discriminate).
           assert (L2 : (fst l =? tb) = false) by (apply Nat.eqb_neq; intro E; rewrite E, Dead0 in Al by lia; discriminate).
           rewrite (hq_mem _ _ H5). simpl. rewrite (hq_mem _ _ H4). simpl. rewrite C1 by (rewrite A2, L1, L2; auto). rewrite M2, L1, L2. reflexivity.
        -- intros b. rewrite (hq_alive _ _ H5). simpl. unfold updn. destruct (b =? tb) eqn:E.
           { apply Nat.eqb_eq in E. subst. rewrite Dead0 by lia. reflexivity. }
           rewrite (hq_alive _ _ H4). simpl. unfold updn. destruct (b =? pb) eqn:E2.
           { apply Nat.eqb_eq in E2. subst. rewrite Dead0 by (unfold pb; lia). reflexivity. }
           rewrite C2, A2, E2, E. reflexivity.
        -- intros b Ab. assert (L1 : (b =? pb) = false) by (apply Nat.eqb_neq; intro E; rewrite E, Dead0 in Ab by (unfold pb; lia); discriminate).
           assert (L2 : (b =? tb) = false) by (apply Nat.eqb_neq; intro E; rewrite E, Dead0 in Ab by lia; discriminate).
           rewrite (hq_bsize _ _ H5). simpl. rewrite (hq_bsize _ _ H4). simpl. rewrite C3 by (rewrite A2, L1, L2; auto). rewrite B2, L1, L2. reflexivity.
        -- intros r Hr. rewrite (hq_regs _ _ H5). simpl. rewrite (hq_regs _ _ H4). simpl. rewrite C4 by auto.
           rewrite (hq_regs _ _ H2). simpl. apply (hq_regs _ _ H1).
Qed.
End AddGrowFirst.

(* ---- pvAddGrow of a set that already has buckets: the BucketParams are shared, a failing table allocation falls back to the
        old table (overloadIfCannotGrow), a failing add to the new table destroys the new table only ---------------------- *)
Section AddGrowMore.
Variables (nb newCap : nat) (add_old : M unit) (add_new : nat -> M unit) (Pn : heap -> Prop).
Hypothesis Hold : forall s, Pn (hp s) -> wp add_old s (fun _ _ => True) (fun s' => same_res (hp s) (hp s')).
Hypothesis Hnew : forall tb s, Pn (hp s) -> alive (hp s) tb = true ->
  wp (add_new tb) s (fun _ _ => True) (fun s' => same_res (hp s) (hp s')).
Hypothesis Pn_heq : forall h h', heq h h' -> Pn h -> Pn h'.
Hypothesis Pn_alloc : forall h n, wf h -> Pn h -> Pn (halloc h n).

Theorem pv_add_grow_more_spec : forall s,
  wf (hp s) -> Pn (hp s) ->
  wp (pv_add_grow true nb newCap add_old add_new) s (fun _ _ => True) (fun s' => same_res (hp s) (hp s')).
Proof.
  intros s W HP. unfold pv_add_grow, pv_add_grow_gen, buckets_create. simpl.
  set (h0 := hp s) in *. set (tb := next h0).
  apply wp_bind. apply wp_try. apply wp_bind. apply wp_bind. apply wp_alloc.
  { (* no memory for the bigger table: add to the old one instead *)
    intros s1 H1. apply wp_bind. eapply wp_mono. { apply Hold. eapply Pn_heq; eauto. }
    - intros _ s2 _. apply wp_ret. apply wp_ret. exact I.
    - intros s2 [C1 C2 C3 C4]. split.
      + intros l Al. rewrite C1 by (rewrite (hq_alive _ _ H1); auto). apply (hq_mem _ _ H1).
      + intros b. rewrite C2. apply (hq_alive _ _ H1).
      + intros b Ab. rewrite C3 by (rewrite (hq_alive _ _ H1); auto). apply (hq_bsize _ _ H1).
      + intros r Hr. rewrite C4 by auto. apply (hq_regs _ _ H1). }
  intros s1 H1. fold h0 tb in H1 |- *.
  assert (W1 : wf (hp s1)) by (eapply wf_heq; [exact H1|]; apply wf_halloc; auto).
  assert (P1 : Pn (hp s1)) by (eapply Pn_heq; [exact H1|]; apply Pn_alloc; auto).
  assert (A1 : forall b, alive (hp s1) b = if b =? tb then true else alive h0 b) by (intros b; rewrite (hq_alive _ _ H1); reflexivity).
  assert (M1 : forall l, mem (hp s1) l = if fst l =? tb then Raw else mem h0 l) by (intros l; rewrite (hq_mem _ _ H1); reflexivity).
  assert (B1 : forall b, bsize (hp s1) b = if b =? tb then nb else bsize h0 b) by (intros b; rewrite (hq_bsize _ _ H1); reflexivity).
  assert (Dead0 : forall b, tb <= b -> alive h0 b = false) by (intros; apply W; auto).
  apply wp_bind. apply wp_try. apply wp_getr. apply wp_ret. apply wp_ret. simpl.
  apply wp_bind. apply wp_try. eapply wp_mono. { apply Hnew; auto. rewrite A1, Nat.eqb_refl. reflexivity. }
  - intros _ s3 _. apply wp_bind, wp_setr. intros s4 _. apply wp_bind, wp_setr. intros s5 _. apply wp_setr. intros s6 _. exact I.
  - intros s3 [C1 C2 C3 C4]. unfold buckets_destroy. simpl.
    apply wp_bind. apply wp_bind. apply wp_ret. apply wp_dealloc.
    + rewrite C2, A1, Nat.eqb_refl. reflexivity.
    + intros i _. rewrite C1 by (simpl; rewrite A1, Nat.eqb_refl; reflexivity). rewrite M1. simpl. rewrite Nat.eqb_refl. reflexivity.
    + intros s4 H4. apply wp_throw. split.
      * intros l Al. assert (L : (fst l =? tb) = false) by (apply Nat.eqb_neq; intro E; rewrite E, Dead0 in Al by lia; discriminate).
        rewrite (hq_mem _ _ H4). simpl. rewrite C1 by (rewrite A1, L; auto). rewrite M1, L. reflexivity.
      * intros b. rewrite (hq_alive _ _ H4). simpl. unfold updn. destruct (b =? tb) eqn:E.
        { apply Nat.eqb_eq in E. subst. rewrite Dead0 by lia. reflexivity. }
        rewrite C2, A1, E. reflexivity.
      * intros b Ab. assert (L : (b =? tb) = false) by (apply Nat.eqb_neq; intro E; rewrite E, Dead0 in Ab by lia; discriminate).
        rewrite (hq_bsize _ _ H4). simpl. rewrite C3 by (rewrite A1, L; auto). rewrite B1, L. reflexivity.
      * intros r Hr. rewrite (hq_regs _ _ H4). simpl. rewrite C4 by auto. apply (hq_regs _ _ H1).
Qed.
End AddGrowMore.

(* ---- pvRelocateItems (HashSet.h:1257-1308): after a growth the items of the old tables are migrated one by one; the whole
        migration is wrapped in try { ... } catch (...) { /* no throw! */ }.  Whatever is observable through the container --
        any function `obs` of the heap that each single migration step preserves and that does not depend on anything a FAILED
        step may leave different (a failed step leaves every live block as it was) -- is the same after the call, wherever the
        migration was interrupted; and the call itself never throws. --------------------------------------------------- *)
Fixpoint run_steps (steps : list (M unit)) : M unit :=
  match steps with [] => ret tt | m :: r => m ;; run_steps r end.
Definition relocate_items (steps : list (M unit)) : M unit := try_catch (run_steps steps) (ret tt).

Section Migration.
Variable X : Type.
Variable obs : heap -> X.
Variable Inv : heap -> Prop.
Hypothesis obs_same_res : forall h h', same_res h h' -> obs h' = obs h.
Hypothesis Inv_same_res : forall h h', same_res h h' -> Inv h -> Inv h'.

Definition step_ok (m : M unit) : Prop :=
  forall s, Inv (hp s) -> wp m s (fun _ s' => obs (hp s') = obs (hp s) /\ Inv (hp s')) (fun s' => same_res (hp s) (hp s')).

Lemma run_steps_spec : forall steps s,
  Forall step_ok steps -> Inv (hp s) ->
  wp (run_steps steps) s (fun _ s' => obs (hp s') = obs (hp s) /\ Inv (hp s')) (fun s' => obs (hp s') = obs (hp s) /\ Inv (hp s')).
Proof.
  intros steps s Hs. revert s. induction Hs as [|m r Hm Hr IH]; intros s HI; simpl.
  - apply wp_ret. auto.
  - apply wp_bind. eapply wp_mono. { apply Hm; auto. }
    + intros _ s1 [O1 I1]. simpl. eapply wp_mono. { apply IH; auto. }
      * intros _ s2 [O2 I2]. split; auto. congruence.
      * intros s2 [O2 I2]. split; auto. congruence.
    + intros s1 SR. simpl in SR. split. { apply obs_same_res; exact SR. } eapply Inv_same_res; [exact SR|exact HI].
Qed.

Theorem relocate_items_spec : forall steps s,
  Forall step_ok steps -> Inv (hp s) ->
  wp (relocate_items steps) s (fun _ s' => obs (hp s') = obs (hp s) /\ Inv (hp s')) (fun _ => False).
Proof.
  intros steps s Hs HI. unfold relocate_items. apply wp_try.
  eapply wp_mono. { apply run_steps_spec; eauto. }
  - intros u s' H; exact H.
  - intros s' H. apply wp_ret. exact H.
Qed.
End Migration.
