(* C02 -- primitives referenced by generated code (cxx2coq "effect_calls"): the call trace of Relocator::AddSegment.
   The trace lives in one array field: cell 0 = number of recorded calls, call k in cells 5k+1 .. 5k+5
   (srcNode, srcBeginIndex, dstNode, dstBeginIndex, itemCount); node pointers are opaque integers. *)
From Coq Require Import ZArith List.
From MomoCommon Require Import GenPrelude.
Local Open Scope Z_scope.

Definition ev_seg (s : Z -> Z) (src sb dst db n : Z) : Z -> Z :=
  let k := s 0 in
  upd (upd (upd (upd (upd (upd s 0 (k + 1)) (5 * k + 1) src) (5 * k + 2) sb) (5 * k + 3) dst) (5 * k + 4) db) (5 * k + 5) n.

Definition seg_rec (s : Z -> Z) (k : Z) : Z * Z * Z * Z * Z := (s (5 * k + 1), s (5 * k + 2), s (5 * k + 3), s (5 * k + 4), s (5 * k + 5)).
Definition segs_list (s : Z -> Z) : list (Z * Z * Z * Z * Z) := map (fun k => seg_rec s (Z.of_nat k)) (seq 0 (Z.to_nat (s 0))).
Definition no_segs : Z -> Z := fun _ => 0.

(* ---- growth round 3: vocabulary of the generated code / AST facts for the pointer-walking functions ---- *)
Definition key_less (a b : Z) : bool := Z.ltb a b.      (* TreeTraits::IsLess on the model's keys *)

Inductive side := SThis | SDst.                          (* *this (the source) / dstTreeSet in TreeSet::MergeTo(TreeSet&) *)
Inductive side_pos := PFirst | PLast.                    (* *set.GetBegin() / *std::prev(set.GetEnd()) *)
Inductive fcond :=
| COrdered (a b : side)                                  (* pvIsOrdered(a, b) *)
| CLessLastFirst (a b : side).                           (* IsLess(key of last item of a, key of first item of b) *)

(* the statements of the root-collapse loop of pvRebalance, as read off the AST *)
Inductive pvar := VRoot (* mRootNode *) | VNode (* the parameter `node` *) | VLocal (* the local `rootNode` *).
Inductive pexpr := EVar (v : pvar) | EChild0 (e : pexpr) (* e->GetChild(0) *) | EParent (e : pexpr) (* e->GetParent() *).
Inductive cstmt :=
| SLocal (e : pexpr)                                     (* Node* rootNode = e; *)
| SAssign (v : pvar) (e : pexpr)
| SIfEq (a b : pvar) (s : cstmt)                         (* if (a == b) s *)
| SDestroy (e : pexpr)                                   (* e->Destroy(params) *)
| SSetParentNull (e : pexpr).                            (* e->SetParent(nullptr) *)

(* growth round 4: the Relocator::CreateNode(isLeaf, count) calls of pvSplitNode, recorded like the AddSegment calls:
   cell 0 = number of calls, call k in cells 2k+1 (isLeaf as 0/1) and 2k+2 (count) *)
Definition ev_create (s : Z -> Z) (leaf : bool) (count : Z) : Z -> Z :=
  let k := s 0 in upd (upd (upd s 0 (k + 1)) (2 * k + 1) (if leaf then 1 else 0)) (2 * k + 2) count.
Definition creates_list (s : Z -> Z) : list (Z * Z) := map (fun k => (s (2 * Z.of_nat k + 1), s (2 * Z.of_nat k + 2))) (seq 0 (Z.to_nat (s 0))).

(* growth round 4: the stop rule of pvRebalance's climbing loop as read off the AST *)
Inductive bexp := BReb (k : nat) (* pvRebalance(parentNode, index + k, savedNode) *) | BFast | BNot (e : bexp) | BAnd (a b : bexp).
