"""C06 - momo::stdish containers give the same answers as the std containers they replace.
proof : Coq theorems about the executable L0 specs (std contract facts) and about models of the wrapper logic
        (hint validation, unordered erase(first,last) with iterator kinds, unordered_multimap ==).
tie   : T-cor, three-way: the same call sequences run on momo::stdish::X (harness, IMPL_MOMO), on libstdc++ std::X
        (harness, IMPL_STD) and on the extracted Coq code (ocaml/driver.ml).
oracle: momo vs libstdc++ directly (independent of the Coq model) + a python re-statement of "erase(first,last) throws
        or removes exactly the elements visited from first to last" for the iterator-kind cases."""
import os, hashlib, glob, json

GROUPS = {1: ['uset', 'uset_o', 'umap', 'umap_o'], 2: ['ummap', 'ummap_o', 'vec', 'svec'], 3: ['set', 'mset'], 4: ['map', 'mmap'],
          5: ['smap', 'sumap', 'momap', 'moumap'],   # std::string key/mapped with transparent functors; move-only mapped type
          6: ['usetf', 'usetf_o', 'umapf', 'umapf_o', 'ummapf', 'ummapf_o'],   # int keys with the DEFAULT hash: fast-hashable => BucketOpen8 / LimP4 without hash-code parts
          7: [], 8: [], 9: []}   # 7: uset/umap/ummap with stateful allocators, 8: mset/map with stateful allocators, 9: thorough only, second pair of allocator kinds per class
# allocator kinds (POCCA,POCMA,POCS): 1 FFF 2 TTT 3 TFT 4 FTF 5 TTF 6 TFF 7 FTT 8 FFT; quick: each wrapper class gets two complementary kinds (union over classes = all eight), vector all eight; thorough: four kinds per class
ALLOC_SETS = {'uset': (1, 2), 'umap': (6, 7), 'ummap': (3, 4), 'mset': (5, 8), 'map': (1, 2), 'vec': (1, 2, 3, 4, 5, 6, 7, 8), 'svec': (3,)}   # quick: every trait both ways per wrapper class, union = all eight
ALLOC_SETS2 = {'uset': (3, 4), 'umap': (5, 8), 'ummap': (1, 2), 'mset': (6, 7), 'map': (3, 4)}   # thorough tier (group 9)
EXPECTED_TYPES = {'uset': 'LimP4<hashCodePart=1>', 'uset_o': 'Open2N2<hashCodePart=1>', 'umap': 'LimP4<hashCodePart=1>', 'umap_o': 'Open2N2<hashCodePart=1>',
                  'ummap': 'LimP4<hashCodePart=1>', 'ummap_o': 'Open2N2<hashCodePart=1>', 'sumap': 'LimP4<hashCodePart=1>', 'moumap': 'LimP4<hashCodePart=1>',
                  'usetf': 'LimP4<hashCodePart=0>', 'usetf_o': 'Open8', 'umapf': 'LimP4<hashCodePart=0>', 'umapf_o': 'Open8', 'ummapf': 'LimP4<hashCodePart=0>', 'ummapf_o': 'Open8'}
GROUP_OF = {k: g for g, ks in GROUPS.items() for k in ks}
GROUP_OF['mmk'] = 2; GROUP_OF['mmko'] = 2; GROUP_OF['pbs'] = 2; GROUP_OF['umk'] = 2; GROUP_OF['umko'] = 2


def group_of(cse):
    w = cse.split(' ')
    kind = w[1] if w[0] in ('we', 'wl', 'ord') else w[0]
    if w[0] not in ('we', 'wl', 'ord', 'mmk', 'mmko', 'umk', 'umko', 'pbs') and w[1] != '0':
        if kind in ALLOC_SETS2 and int(w[1]) in ALLOC_SETS2[kind]: return 9
        if kind in ('uset', 'umap', 'ummap'): return 7
        if kind in ('mset', 'map'): return 8
    return GROUP_OF[kind]
ORDERED = {'set', 'mset', 'map', 'mmap', 'smap', 'momap'}
FAST = {'usetf', 'usetf_o', 'umapf', 'umapf_o', 'ummapf', 'ummapf_o'}
PLAIN_MAP = {'umap', 'umap_o', 'map', 'umapf', 'umapf_o'}
CROSS_MERGE = {'set', 'mset', 'map', 'mmap'}
MOVE_ONLY = {'momap', 'moumap'}
STRINGS = {'smap', 'sumap'}
MULTI = {'ummap', 'ummap_o', 'mset', 'mmap', 'ummapf', 'ummapf_o'}
UNIQ_MAP = {'umap', 'umap_o', 'map', 'smap', 'sumap', 'momap', 'moumap', 'umapf', 'umapf_o'}
NO_NODES = {'ummap', 'ummap_o', 'vec', 'svec', 'ummapf', 'ummapf_o'}
GEN = ['gen_uset_erase.json', 'gen_umap_erase.json', 'gen_ummap_erase.json', 'gen_sethint.json', 'gen_msethint.json', 'gen_mapfind.json', 'gen_mmapfind.json',
       'gen_useteq.json', 'gen_umapeq.json', 'gen_ummapeq.json',
       'gen_mapat.json', 'gen_seteqr.json', 'gen_umapcreate.json', 'gen_setcreate.json',
       'gen_setnodehint.json', 'gen_msetnodehint.json', 'gen_usetnodehint.json', 'gen_umapnodehint.json', 'gen_vector.json', 'gen_mapioa.json',
       'gen_setcmp.json', 'gen_setcmpd.json', 'gen_mapcmp.json', 'gen_mapcmpd.json', 'gen_veccmp.json', 'gen_veccmpd.json',
       'gen_setnodeins.json', 'gen_usetnodeins.json', 'gen_mapnodeins.json', 'gen_umapnodeins.json', 'gen_setmerge.json',
       'gen_mapassign.json', 'gen_umapassign.json', 'gen_setassign.json', 'gen_usetassign.json']
INTERESTING = {'insh', 'emph', 'tryh', 'ioah', 'xinsh', 'xins', 'merge', 'err', 'erre', 'erra', 'err0', 'err1', 'eri', 'erf',
               'cmp', 'erif', 'ext', 'exti', 'at', 'errv', 'erloop', 'ernx', 'xmut', 'mrgm', 'mrgt', 'tryr', 'findh', 'eqrh', 'insm', 'fill', 'fillv', 'rdump', 'mvca', 'cpca', 'movq', 'ctor', 'emp0', 'rsvu', 'rhs', 'insn', 'insrv', 'insself', 'atv', 'swap', 'mov', 'cpy'}

RULE = ('cases = (a) random call sequences (10-60 calls on two containers of one of 11 container kinds; keys from a small range so that '
        'duplicates abound; unique payload ids; constant hash in 1/3 of the unordered cases; 5 allocator kinds for uset/ummap/mset/map/vec) '
        '+ (b) exhaustive hinted insertions (every sorted content over <=3 distinct keys up to length 4 x every hint position x every key '
        'around the content, through insert/emplace_hint/try_emplace/insert_or_assign/node insert) + (c) every pair of iterators and every `it = erase(it)` loop start '
        '(position x kind traversable/lookup-derived, or end) on unordered containers of <=4 elements (multimap: 12 key-group shapes) for '
        'erase(first,last) + (d) aimed unordered_multimap == after erase_if / erase sequences, identity-tagged multimap keys, std::string and move-only-mapped maps with heterogeneous lookup, push_back under a copy that throws at every position. distinct = distinct case line; '
        'non-trivial = the sequence contains at least one call of the kinds the property singles out (hinted insert, range/iterator erase, '
        'node transfer, merge, comparison, erase_if, at(), allocator-moving assignment/swap) and its result line is not made of skips only')


# ---------------------------------------------------------------------------------------------- generators
def gen_script(r, kind, nops, ak=0, ida=1, idb=1, hm=0, prefix=(), size=0):
    """one random call sequence (prefix: ops executed first, size: how many elements they leave, to scale positions)"""
    head = '%s %d %d %d %d' % (kind, ak, ida, idb, hm)
    R = r.choice([2, 3, 5, 8, 16, 40])
    vid = [0]
    known = []   # (k, v) pairs ever inserted: targets for erase-one

    def key():
        return r.range(-1, R) if r.chance(1, 8) else r.range(0, R)

    def val():
        if kind.startswith('usetf'): return 0          # plain int elements: no payload
        vid[0] += 1
        return 100000 + vid[0] if size else vid[0]

    def kv():
        k, v = key(), val()
        known.append((k, v))
        return '%d %d' % (k, v)

    def c():
        return r.below(2)

    def pos():
        if size and r.chance(3, 4): return r.below(size + 2)
        return r.below(min(len(known), 9) + 2)
    ops = list(prefix)
    if kind in ('vec', 'svec'):
        tbl = [('fillv', 1), ('rdump', 1), ('ctor', 3), ('pb', 6), ('pbr', 2), ('eb', 3), ('insv', 5), ('empv', 2), ('insn', 3), ('insrv', 3), ('inslv', 2), ('insself', 3), ('erv', 4),
               ('errv', 5), ('pop', 2), ('rsz', 2), ('rszv', 2), ('asg', 1), ('asgr', 1), ('asgl', 1), ('atv', 3), ('idxv', 2), ('setv', 2),
               ('fb', 2), ('rsv', 1), ('shr', 1), ('clr', 1), ('swap', 1), ('swp2', 1), ('cmp', 4), ('cpy', 1), ('mov', 1), ('cpc', 1),
               ('mvc', 1), ('asl', 1), ('sz', 1)]
        names = [n for n, w in tbl for _ in range(w)]
        sz = [size, 0]
        for _ in range(nops):
            o = r.choice(names); ci = c(); p = r.below(sz[ci] + 2) if r.chance(9, 10) else r.below(12)
            if o == 'fillv': n = r.choice([3, 9, 17, 33, 70]); ops.append('fillv %d %d %d' % (ci, n, r.range(0, R))); sz[ci] += n
            elif o == 'rdump': ops.append('rdump %d' % ci)
            elif o == 'ctor':
                k = r.below(6)
                if k == 0: n = r.choice([0, 1, 2, 5]); ops.append('ctor %d 0 %d' % (ci, n)); sz[ci] = n
                elif k == 1: n = r.choice([0, 1, 3]); ops.append('ctor %d 1 %d %d' % (ci, n, r.range(0, R))); sz[ci] = n
                elif k in (2, 3): n = r.below(4); ops.append('ctor %d %d 0 %s' % (ci, k, ' '.join(str(r.range(0, R)) for _ in range(n)))); sz[ci] = n if k == 2 else (2 if n >= 2 else 0)
                elif k == 4: ops.append('ctor %d 4 %d' % (ci, r.choice([ida, idb, 9]))); sz[ci] = sz[1 - ci]
                else: ops.append('ctor %d 5 %d' % (ci, r.choice([ida, idb, 9]))); sz[ci] = sz[1 - ci]; sz[1 - ci] = 0
            elif o in ('pb', 'pbr', 'eb'): ops.append('%s %d %d' % (o, ci, r.range(0, R))); sz[ci] += 1
            elif o in ('insv', 'empv'): ops.append('%s %d %d %d' % (o, ci, p, r.range(0, R))); sz[ci] += 1
            elif o == 'insn': n = r.below(4); ops.append('insn %d %d %d %d' % (ci, p, n, r.range(0, R))); sz[ci] += n
            elif o in ('insrv', 'inslv'):
                n = r.below(4); ops.append('%s %d %d %s' % (o, ci, p, ' '.join(str(r.range(0, R)) for _ in range(n)))); sz[ci] += n
            elif o == 'insself': ops.append('insself %d %d %d' % (ci, p, r.below(sz[ci] + 1))); sz[ci] += 1
            elif o == 'erv': ops.append('erv %d %d' % (ci, p)); sz[ci] = max(0, sz[ci] - 1)
            elif o == 'errv':
                i = r.below(sz[ci] + 1); j = i + r.choice([0, 0, 1, 1, 2, 3, sz[ci]]); j = min(j, sz[ci]) if r.chance(9, 10) else j
                ops.append('errv %d %d %d' % (ci, i, j)); sz[ci] = max(0, sz[ci] - max(0, j - i))
            elif o == 'pop': ops.append('pop %d' % ci); sz[ci] = max(0, sz[ci] - 1)
            elif o == 'rsz': n = r.below(8); ops.append('rsz %d %d' % (ci, n)); sz[ci] = n
            elif o == 'rszv': n = r.below(8); ops.append('rszv %d %d %d' % (ci, n, r.range(0, R))); sz[ci] = n
            elif o == 'asg': n = r.below(5); ops.append('asg %d %d %d' % (ci, n, r.range(0, R))); sz[ci] = n
            elif o in ('asgr', 'asgl', 'asl'):
                n = r.below(4); ops.append('%s %d %s' % (o, ci, ' '.join(str(r.range(0, R)) for _ in range(n)))); sz[ci] = n
            elif o in ('atv', 'idxv'): ops.append('%s %d %d' % (o, ci, p))
            elif o == 'setv': ops.append('setv %d %d %d' % (ci, p, r.range(0, R)))
            elif o in ('fb', 'shr', 'clr', 'sz'):
                ops.append('%s %d' % (o, ci))
                if o == 'clr': sz[ci] = 0
            elif o == 'rsv': ops.append('rsv %d %d' % (ci, r.below(40)))
            elif o in ('swap', 'swp2'): ops.append(o); sz.reverse()
            elif o == 'cmp': ops.append('cmp %d %d' % (c(), c()))
            elif o in ('cpy', 'cpc'): d = c(); ops.append('%s %d %d' % (o, ci, d)); sz[ci] = sz[d]
            elif o in ('mov', 'mvc'):
                d = c(); ops.append('%s %d %d' % (o, ci, d))
                if d != ci: sz[ci] = sz[d]; sz[d] = 0
        return head + ' ; ' + ' ; '.join(ops)
    tbl = [('ins', 7), ('emp', 3), ('insc', 2), ('empp', 2), ('insh', 4), ('emph', 3), ('insr', 1), ('insl', 1), ('find', 3), ('cnt', 2),
           ('has', 1), ('eqr', 3), ('erk', 3), ('erf', 3), ('clr', 1), ('swap', 1), ('swp2', 1), ('cmp', 4), ('erif', 2), ('cpy', 1),
           ('mov', 1), ('cpc', 1), ('mvc', 1), ('asl', 1), ('sz', 1), ('erre', 2), ('erra', 1), ('err0', 1), ('err1', 2)]
    tbl += [('erloop', 2), ('ernx', 2), ('fill', 1), ('kfn', 1), ('mvca', 1), ('cpca', 1), ('movq', 1)]
    if kind in ORDERED: tbl += [('rdump', 1)]
    if kind[0] == 'u' and kind not in MULTI or kind in ('sumap', 'moumap'): tbl += [('rsvu', 1), ('rhs', 1)]
    if kind in PLAIN_MAP: tbl += [('emp0', 1)]
    if kind in ORDERED: tbl += [('lb', 2), ('ub', 2), ('eri', 2), ('err', 4)]
    if kind in CROSS_MERGE: tbl += [('mrgm', 2), ('mrgt', 2)]
    if kind in STRINGS: tbl += [('findh', 3), ('cnth', 2), ('hash', 2), ('eqrh', 2)] + ([('lbh', 2), ('ubh', 2)] if kind in ORDERED else [])
    if kind in UNIQ_MAP: tbl += [('tryr', 2), ('insm', 1)]
    if kind in UNIQ_MAP: tbl += [('at', 2), ('idx', 2), ('set', 2), ('setr', 1), ('try', 2), ('tryh', 2), ('ioa', 2), ('ioah', 2)]
    if kind not in NO_NODES: tbl += [('ext', 2), ('exti', 2), ('xins', 3), ('xinsh', 2), ('merge', 2), ('xmut', 2)]
    if kind in MOVE_ONLY: tbl = [(n, w) for (n, w) in tbl if n not in ('insc', 'insr', 'insl', 'cpy', 'cpc', 'asl', 'cpca')]
    names = [n for n, w in tbl for _ in range(w)]
    nodes_across = (ak == 0 or ida == idb)
    for _ in range(nops):
        o = r.choice(names); ci = c()
        if o in ('ins', 'emp', 'insc', 'empp', 'set', 'setr', 'try', 'tryr', 'ioa'): ops.append('%s %d %s' % (o, ci, kv()))
        elif o in ('insh', 'emph', 'tryh', 'ioah'):
            h = pos() if kind in ORDERED else r.below(2)
            ops.append('%s %d %d %s' % (o, ci, h, kv()))
        elif o in ('mrgm', 'mrgt', 'insm'):
            ops.append('%s %d %s' % (o, ci, ' '.join(kv() for _ in range(r.below(5)))))
        elif o == 'xmut':
            d = c() if nodes_across else ci
            ops.append('xmut %d %d %d %d' % (ci, d, key(), key()))
        elif o == 'erloop': m = r.range(1, 4); ops.append('erloop %d %d %d' % (ci, m, r.below(m)))
        elif o == 'fill': n = r.choice([3, 8, 20, 45]); ops.append('fill %d %d %d %d %d' % (ci, n, key(), r.choice([0, 1, 1, 2, -1]), 5000 + 100 * len(ops)))
        elif o in ('rdump', 'emp0'): ops.append('%s %d' % (o, ci))
        elif o in ('rsvu', 'rhs'): ops.append('%s %d %d' % (o, ci, r.choice([0, 1, 7, 64, 1000])))
        elif o == 'kfn': ops.append('kfn %d %d %d' % (ci, key(), key()))
        elif o in ('mvca', 'cpca'): ops.append('%s %d %d %d' % (o, ci, 1 - ci, ida if ida == idb else r.choice([ida, idb, 9])))
        elif o == 'movq': ops.append('movq %d %d' % (ci, 1 - ci))
        elif o in ('insr', 'insl', 'asl'):
            n = r.below(4 if o == 'asl' else 5); ops.append('%s %d %s' % (o, ci, ' '.join(kv() for _ in range(n))))
        elif o in ('find', 'cnt', 'has', 'eqr', 'lb', 'ub', 'erk', 'erre', 'err0', 'at', 'idx', 'ext', 'findh', 'cnth', 'hash', 'eqrh', 'lbh', 'ubh'): ops.append('%s %d %d' % (o, ci, key()))
        elif o in ('erf', 'err1', 'ernx'):
            k, v = r.choice(known) if (known and r.chance(5, 6)) else (key(), r.below(5))
            ops.append('%s %d %d %d' % (o, ci, k, v))
        elif o == 'eri': ops.append('eri %d %d' % (ci, pos()))
        elif o == 'exti': ops.append('exti %d %d' % (ci, pos() if kind in ORDERED else key()))
        elif o == 'err':
            i = pos(); j = i + r.choice([0, 0, 1, 1, 2, 3, 5, 20]); ops.append('err %d %d %d' % (ci, i, j))
        elif o in ('xins', 'xinsh'):
            d = c() if nodes_across else ci
            ops.append('%s %d %d %d%s' % (o, ci, d, key(), (' %d' % (pos() if kind in ORDERED else r.below(2))) if o == 'xinsh' else ''))
        elif o == 'merge':
            if nodes_across: ops.append('merge %d %d' % (ci, 1 - ci))
        elif o in ('clr', 'erra', 'sz'): ops.append('%s %d' % (o, ci))
        elif o in ('swap', 'swp2'): ops.append(o)
        elif o == 'cmp': ops.append('cmp %d %d' % (c(), c()))
        elif o == 'erif': m = r.range(1, 4); ops.append('erif %d %d %d' % (ci, m, r.below(m)))
        elif o in ('cpy', 'mov', 'cpc', 'mvc'): ops.append('%s %d %d' % (o, ci, c()))
    return head + ' ; ' + ' ; '.join(ops)


def gen_hint_cases(kind, full, hm=0):
    """exhaustive: every sorted content over keys {2,4,6} (length <= 3, or 4 when full) x every hint x every key 1..7"""
    out = []
    multi = kind in ('mset', 'mmap')
    contents = [[]]
    keys = [2, 4, 6]
    maxlen = 4 if full else 3

    def rec(cur):
        if len(cur) >= maxlen: return
        for k in keys:
            if cur and (k < cur[-1] or (not multi and k == cur[-1])): continue
            contents.append(cur + [k]); rec(cur + [k])
    rec([])
    hint_ops = ['insh', 'emph'] + (['tryh', 'ioah'] if kind == 'map' else [])
    for cont in contents:
        pre = ' ; '.join('ins 0 %d %d' % (k, i + 1) for i, k in enumerate(cont))
        for h in range(len(cont) + 1):
            for k in range(1, 8):
                for o in hint_ops:
                    out.append('%s 0 1 1 %d ; %s%s%s 0 %d %d 99 ; dump 0' % (kind, hm, pre, ' ; ' if pre else '', o, h, k))
                # node insertion with hint: the node comes from container 1
                out.append('%s 0 1 1 %d ; %s%sins 1 %d 98 ; xinsh 1 0 %d %d ; dump 0' % (kind, hm, pre, ' ; ' if pre else '', k, k, h))
    return out


MM_SHAPES = [[1], [2], [3], [1, 1], [1, 2], [2, 1], [2, 2], [1, 1, 1], [3, 1], [1, 3], [2, 1, 1], [1, 2, 1]]


def we_bases(full):
    """(kind, hashMode, elems) for the iterator-kind erase cases"""
    out = []
    for kind in ('uset', 'uset_o', 'umap', 'umap_o'):
        for hm in ((0, 1, 3) if kind == 'uset' else (0, 1)):
            for n in range(0, 5 if full or kind in ('uset', 'umap') else 4):
                out.append((kind, hm, [(10 + 3 * i, 100 + i) for i in range(n)]))
    for kind in ('usetf', 'usetf_o', 'umapf_o'):
        for n in range(0, 5 if full or kind == 'usetf_o' else 4):
            out.append((kind, 0, [(10 + 3 * i, 0 if kind.startswith('usetf') else 100 + i) for i in range(n)]))
    for kind in ('ummap', 'ummap_o', 'ummapf', 'ummapf_o'):
        for hm in ((0, 1, 3) if kind == 'ummap' else (0, 1) if kind == 'ummap_o' else (0,)):
            for shp in (MM_SHAPES if (full or kind in ('ummap', 'ummapf_o')) else MM_SHAPES[:8]):
                el = []; vid = 0
                for gi, cnt in enumerate(shp):
                    for _ in range(cnt):
                        vid += 1; el.append((10 + 3 * gi, 100 + vid))
                out.append((kind, hm, el))
    return out


def we_iters(n):
    its = [(-1, 0)]
    for p in range(n):
        its += [(p, 1), (p, 0)]
    return its


def py_walk(kind, order, first, last):
    """independent re-statement of [first,last): positions visited by ++ from first until == last; None = not a valid range"""
    n = len(order)

    def kend(p):
        e = p
        while e < n and order[e][0] == order[p][0]: e += 1
        return e

    def nxt(it):
        p, t = it
        if p < 0: return None
        if t: return (p + 1, 1) if p + 1 < n else (-1, 0)
        if kind.startswith('ummap'): return (p + 1, 0) if p + 1 < kend(p) else (-1, 0)
        return (-1, 0)
    vis = []; cur = first
    for _ in range(n + 2):
        if cur[0] == last[0]: return vis
        if cur[0] < 0: return None
        vis.append(cur[0]); cur = nxt(cur)
        if cur is None: return None
    return None


# ---------------------------------------------------------------------------------------------- regen
def regen_fast(ctx, cfg_files):
    """same contract as ctx.regen (write Gen_*.v, record a tie obligation per group, delete a stale file when the translation fails)
    but the clang AST is dumped once per (TU, filter) - 7 dumps instead of one per config - and the dumps run in parallel"""
    import concurrent.futures as cf, json as _json
    cxx2coq = vlib_cxx2coq()
    cfgs = []
    for cfile in cfg_files:
        cfg = _json.load(open(os.path.join(ctx.pdir, cfile)))
        cfg.setdefault('includes', [os.path.join(ctx.repo, 'include')])
        cfgs.append(cfg)
    keys = {}
    for cfg in cfgs:
        keys.setdefault((cfg['tu'], cfg['filter'], cfg.get('std', 'c++17'), tuple(cfg.get('defines', []))), cfg)
    dumps = {}

    def dump(k):
        try:
            return k, cxx2coq.dump_ast(keys[k], ctx.repo), None
        except cxx2coq.TranslationError as e:
            return k, None, str(e)
    with cf.ThreadPoolExecutor(max_workers=4) as ex:
        for k, txt, err in ex.map(dump, list(keys)):
            dumps[k] = (txt, err)
    ok = True; details = []
    for cfg in cfgs:
        k = (cfg['tu'], cfg['filter'], cfg.get('std', 'c++17'), tuple(cfg.get('defines', [])))
        out = os.path.join(ctx.cdir, cfg['name'] + '.v')
        try:
            ast, err = dumps[k]
            if ast is None:
                raise cxx2coq.TranslationError(err)
            txt = cxx2coq.translate_group(cfg, ast_text=ast, repo=ctx.repo)
            old = open(out).read() if os.path.exists(out) else None
            if old != txt:
                open(out, 'w').write(txt)
            ctx.tie_obligations.append({'name': 'translate ' + cfg['name'], 'ok': True, 'sha256': hashlib.sha256(txt.encode()).hexdigest()[:16]})
        except cxx2coq.TranslationError as e:
            ok = False; details.append('%s: %s' % (cfg['name'], e))
            if os.path.exists(out):
                os.remove(out)      # a stale model must not keep the proofs green
            ctx.tie_obligations.append({'name': 'translate ' + cfg['name'], 'ok': False, 'error': str(e)[:500]})
    ctx.stage('regen', ok, '\n'.join(details))
    return ok


def vlib_cxx2coq():
    import sys
    sys.path.insert(0, os.path.join(os.path.dirname(os.path.dirname(os.path.dirname(os.path.abspath(__file__)))), 'tools'))
    import cxx2coq
    return cxx2coq


# ---------------------------------------------------------------------------------------------- build
def tree_hash(ctx):
    h = hashlib.sha256()
    for f in sorted(glob.glob(os.path.join(ctx.repo, 'include', 'momo', '**', '*.h'), recursive=True)):
        h.update(f.encode()); h.update(open(f, 'rb').read())
    return h.hexdigest()[:16]


def only_groups():
    """VERIF_C06_GROUPS=2,5 restricts a run to some harness groups (used to re-run recorded mutants quickly; the cases of the
    selected groups are exactly those of the full run)"""
    v = os.environ.get('VERIF_C06_GROUPS', '')
    return set(int(x) for x in v.split(',') if x.strip()) if v else None


def build_harnesses(ctx):
    """executables (impl x group); cached on the hash of harness.cpp + all momo headers (std side: harness.cpp only)"""
    src = open(os.path.join(ctx.pdir, 'harness.cpp'), 'rb').read()
    hs = hashlib.sha256(src).hexdigest()[:16]
    ht = tree_hash(ctx)
    san = (ctx.tier == 'thorough')
    jobs = []; exes = {}
    for impl in ('momo', 'std'):
        for g in GROUPS:
            if only_groups() and g not in only_groups(): continue
            if g == 9 and not san: continue
            name = 'h_%s_%d' % (impl, g)
            path = os.path.join(ctx.build, name + ('.san' if san else ''))
            stamp = path + '.stamp'
            want = hs + (':' + ht if impl == 'momo' else '')
            exes[(impl, g)] = path
            if os.path.exists(path) and os.path.exists(stamp) and open(stamp).read() == want:
                continue
            if os.path.exists(stamp): os.remove(stamp)
            jobs.append(('harness.cpp', name, ['-DIMPL_%s' % impl.upper(), '-DGROUP=%d' % g] + (['-O0'] if san else ['-O0', '-g0']), want, stamp))
    if jobs:
        ctx.log('building %d harness executables' % len(jobs))
        res = ctx.cxx_many([(s, x, f) for (s, x, f, _, _) in jobs], timeout=3000)
        failed = False
        for (s, x, f, want, stamp) in jobs:
            if res.get(x) is None: failed = True
            else: open(stamp, 'w').write(want)
        if failed: return None
    ctx.coverage['momo_headers_sha'] = ht
    return exes


def run_exe(ctx, exe, cases, tag):
    path = os.path.join(ctx.build, tag + '.cases')
    open(path, 'w').write('\n'.join(cases) + '\n')
    rc, lines, err = ctx.run_lines([exe], path)
    return rc, lines, err


def measure(ctx, exes, cases):
    """per-dimension counts of what this run really executed (from the case lines and from the momo result lines)"""
    d = {'cases_per_kind': {}, 'cases_per_kind_and_allocator': {}, 'cases_per_hash_mode(custom-hash unordered kinds)': {}, 'calls_per_operation': {}, 'cases_per_comparator_state(ordered kinds)': {},
         'max_elements_in_one_container_per_kind': {}, 'cases_reaching_100+_elements': 0, 'cases_reaching_500+_elements': 0}
    sizes = {}
    for g in GROUPS:
        if (only_groups() and g not in only_groups()) or ('momo', g) not in exes: continue
        pc = os.path.join(ctx.build, 'tw_momo_%d.cases' % g)
        if not os.path.exists(pc): continue
        cs = open(pc).read().splitlines()
        path = os.path.join(ctx.build, 'tw_momo_%d.cases' % g)
        rc, lines, err = ctx.run_lines([exes[('momo', g)]], path)
        for cse, ln in zip(cs, lines):
            w = cse.split(' '); kind = w[0]
            d['cases_per_kind'][kind] = d['cases_per_kind'].get(kind, 0) + 1
            if kind in ('pbs', 'mmk', 'mmko', 'umk', 'umko'): continue
            key = '%s/a%s' % (kind, w[1]); d['cases_per_kind_and_allocator'][key] = d['cases_per_kind_and_allocator'].get(key, 0) + 1
            if kind in ('set', 'mset', 'map', 'mmap', 'momap'):
                d['cases_per_comparator_state(ordered kinds)'][('descending' if w[4] == '1' else 'default')] = d['cases_per_comparator_state(ordered kinds)'].get(('descending' if w[4] == '1' else 'default'), 0) + 1
            if kind in ('uset', 'uset_o', 'umap', 'umap_o', 'ummap', 'ummap_o', 'sumap', 'moumap'):
                d['cases_per_hash_mode(custom-hash unordered kinds)'][w[4]] = d['cases_per_hash_mode(custom-hash unordered kinds)'].get(w[4], 0) + 1
            for seg in cse.split(';')[1:]:
                o = seg.strip().split(' ')[0]
                if o: d['calls_per_operation'][o] = d['calls_per_operation'].get(o, 0) + 1
            # sizes seen: sz tokens "n,e", fill "ins/size", final dumps
            mx = 0
            toks = ln.split(' | ')
            for t in toks[0].split(' '):
                if '/' in t and t.replace('/', '').isdigit(): mx = max(mx, int(t.split('/')[1]))
                elif ',' in t and t.replace(',', '').isdigit() and t.count(',') == 1 and t.split(',')[1] in ('0', '1'): mx = max(mx, int(t.split(',')[0]))
            for dump in toks[1:]:
                body = dump.strip().split(']')[0].lstrip('[')
                mx = max(mx, (body.count(',') + 1) if body else 0)
            d['max_elements_in_one_container_per_kind'][kind] = max(d['max_elements_in_one_container_per_kind'].get(kind, 0), mx)
            if mx >= 100: d['cases_reaching_100+_elements'] += 1
            if mx >= 500: d['cases_reaching_500+_elements'] += 1
    d['iterator_kind_cases'] = getattr(ctx, 'we_counts', {})
    d['instantiated_bucket_classes'] = getattr(ctx, 'types_seen', {})
    return d


def types_stage(ctx, exes):
    """the momo executables print which bucket class each unordered configuration really instantiates (also static_asserted in harness.cpp)"""
    seen = {}
    for g in (1, 2, 5, 6):
        if only_groups() and g not in only_groups(): continue
        path = os.path.join(ctx.build, 'types_%d.cases' % g); open(path, 'w').write('types\n')
        rc, lines, err = ctx.run_lines([exes[('momo', g)]], path)
        for t in (lines[0].split() if lines else []):
            if '=' in t: k, v = t.split('=', 1); seen[k] = v
    ctx.types_seen = seen
    bad = [k for k, v in EXPECTED_TYPES.items() if seen.get(k) != v and not (only_groups() and k not in seen)]
    ctx.stage('types', not bad, 'unexpected bucket class for %s: %s' % (bad, {k: seen.get(k) for k in bad}) if bad else '')
    ctx.tie_obligations.append({'name': 'intended bucket classes instantiated (LimP4 with/without hash-code parts, Open2N2, Open8)', 'ok': not bad})


# ---------------------------------------------------------------------------------------------- stages
def three_way(ctx, exes, cases, have_model, label):
    """run every case on momo, std and the model; returns list of (case, momo, std, model, why)"""
    bad = []
    bygroup = {}
    for cse in cases:
        if ('momo', group_of(cse)) not in exes: continue   # e.g. thorough-only allocator kinds (group 9) reached by the search generator of a quick run
        bygroup.setdefault(group_of(cse), []).append(cse)
    ok_ms = ok_ss = ok_mstd = True
    for g, cs in sorted(bygroup.items()):
        rc1, momo, e1 = run_exe(ctx, exes[('momo', g)], cs, '%s_momo_%d' % (label, g))
        rc2, std, e2 = run_exe(ctx, exes[('std', g)], cs, '%s_std_%d' % (label, g))
        model = None
        if have_model:
            rc3, model, e3 = run_exe(ctx, ctx.model_exe, cs, '%s_model_%d' % (label, g))
            if rc3 != 0:
                ok_ms = ok_ss = False; bad.append(('(model driver)', '', '', e3[-300:], 'model driver crashed')); model = None
        if rc1 != 0:
            # find the case that kills the harness (assertion / crash inside momo)
            idx = len(momo); cse = cs[idx] if idx < len(cs) else '(unknown)'
            bad.append((cse, 'CRASH rc=%d %s' % (rc1, e1[-300:]), std[idx] if idx < len(std) else '', model[idx] if model and idx < len(model) else '', 'momo harness crashed'))
            ok_mstd = ok_ms = False
        if rc2 != 0:
            ok_ss = ok_mstd = False; bad.append(('(std harness)', '', e2[-300:], '', 'std harness crashed'))
        ctx.evaluations += len(cs)
        for i, cse in enumerate(cs):
            a = momo[i] if i < len(momo) else '<missing>'; b = std[i] if i < len(std) else '<missing>'
            m = (model[i] if i < len(model) else '<missing>') if model is not None else None
            toks = set(s.strip().split(' ')[0] for s in cse.split(';')[1:])
            if cse.startswith('pbs'): ctx.nontrivial.add(cse)
            if cse.startswith('umk') and ' /  ' not in cse: ctx.nontrivial.add(cse)
            if cse.startswith('mmk') and ' /  ' not in cse and not cse.split(' / ')[0].endswith(cse.split(' ')[1]):
                ctx.nontrivial.add(cse)
            if toks & INTERESTING and any(t not in ('skip', 'none', '-') for t in a.split(' | ')[0].split(' ')):
                ctx.nontrivial.add(cse)
            if a != b:
                ok_mstd = False; bad.append((cse, a, b, m, 'momo and libstdc++ disagree'))
            if m is not None and a != m:
                ok_ms = False
                if a == b: bad.append((cse, a, b, m, 'momo and the extracted spec disagree'))
            if m is not None and b != m:
                ok_ss = False; bad.append((cse, a, b, m, 'libstdc++ and the extracted spec disagree (oracle validation)'))
            if m is not None and a == m: ctx.traces_validated += 1
    return bad, ok_mstd, ok_ms, ok_ss


def we_stage(ctx, exes, have_model, full):
    """erase(first,last) with explicit iterator kinds: momo vs wrapper model (tie) and vs the python predicate (oracle)"""
    bases = [b for b in we_bases(full) if not only_groups() or GROUP_OF[b[0]] in only_groups()]
    bad = []
    # pass 1: traversal orders of the real containers
    by = {}
    for (kind, hm, el) in bases: by.setdefault(GROUP_OF[kind], []).append((kind, hm, el))
    cases = {}
    for g, bs in by.items():
        q = ['ord %s %d %s' % (kind, hm, ' '.join('%d:%d' % e for e in el)) for (kind, hm, el) in bs]
        rc, lines, err = run_exe(ctx, exes[('momo', g)], q, 'we_ord_%d' % g)
        if rc != 0 or len(lines) != len(q):
            return [('(ord query)', err[-300:], '', 'harness failed')], False, False
        cs = []
        for (kind, hm, el), ln in zip(bs, lines):
            order = [tuple(map(int, t.split(':'))) for t in ln.split()]
            for f in we_iters(len(order)):   # `for (it = f; it != end(); ) it = erase(it);` for both iterator kinds
                cs.append(('wl %s %d %s / %d %d 0 0 / %s' % (kind, hm, ' '.join('%d:%d' % e for e in el), f[0], f[1], ' '.join('%d:%d' % e for e in order)), kind, order, f, None))
            for f in we_iters(len(order)):
                for l in we_iters(len(order)):
                    cs.append(('we %s %d %s / %d %d %d %d / %s' % (kind, hm, ' '.join('%d:%d' % e for e in el), f[0], f[1], l[0], l[1],
                                                               ' '.join('%d:%d' % e for e in order)), kind, order, f, l))
        cases[g] = cs
    ok_tie = True; ok_or = True
    for g, cs in cases.items():
        lines_c = [x[0] for x in cs]
        rc, impl, err = run_exe(ctx, exes[('momo', g)], lines_c, 'we_momo_%d' % g)
        model = None
        if have_model:
            rc3, model, e3 = run_exe(ctx, ctx.model_exe, lines_c, 'we_model_%d' % g)
        ctx.evaluations += len(cs)
        wc = getattr(ctx, 'we_counts', {})
        for x in cs:
            k = '%s:%s' % (x[1], 'erase-loop' if x[4] is None else 'erase(first,last)'); wc[k] = wc.get(k, 0) + 1
        ctx.we_counts = wc
        for i, (cse, kind, order, f, l) in enumerate(cs):
            a = impl[i] if i < len(impl) else '<missing>'
            if model is not None:
                m = model[i] if i < len(model) else '<missing>'
                if a != m:
                    ok_tie = False; bad.append((cse, a, m, 'wrapper erase model and momo disagree'))
                else: ctx.traces_validated += 1
            if l is None:   # erase loop: lookup-derived start removes one element (the rest of the key for the multimap), traversable start the rest
                n = len(order); p = f[0]
                if p < 0: gone = []
                elif f[1]: gone = list(range(p, n))
                elif kind.startswith('ummap'):
                    e = p
                    while e < n and order[e][0] == order[p][0]: e += 1
                    gone = list(range(p, e))
                else: gone = [p]
                exp = 'n=%d rest=[%s]' % (len(gone), ','.join('%d:%d' % x for x in sorted(x for j, x in enumerate(order) if j not in gone)))
                if gone: ctx.nontrivial.add(cse)
                if a != exp:
                    ok_or = False; bad.append((cse, a, exp, 'erase loop from a %s iterator did not remove what the documented semantics say' % ('traversable' if f[1] else 'lookup-derived')))
                continue
            vis = py_walk(kind, order, f, l)
            if vis is None: continue            # not a valid range: behaviour not constrained
            if len(vis) >= 1: ctx.nontrivial.add(cse)
            if a == 'throw':
                if len(vis) < 2:
                    ok_or = False; bad.append((cse, a, 'visited %s' % vis, 'erase(first,last) refused an empty or single-element range'))
                continue
            want = sorted(e for j, e in enumerate(order) if j not in vis)
            got = a.split('rest=')[-1]
            exp = '[' + ','.join('%d:%d' % e for e in want) + ']'
            if got != exp:
                ok_or = False; bad.append((cse, a, 'expected rest=%s (visited %s)' % (exp, vis), 'erase(first,last) did not remove exactly [first,last)'))
    return bad, ok_tie, ok_or


def all_cases(ctx, scale):
    r = ctx.rng; cases = []
    kinds = ['uset', 'uset_o', 'umap', 'umap_o', 'ummap', 'ummap_o', 'set', 'mset', 'map', 'mmap', 'vec', 'svec', 'smap', 'sumap', 'momap', 'moumap',
             'usetf', 'usetf_o', 'umapf', 'umapf_o', 'ummapf', 'ummapf_o']
    thorough = scale > 1
    # vector: strong guarantee of push_back / emplace_back / insert(end) / push_back(v[0]) when the k-th element copy throws, for every k
    for n in list(range(0, 10)) + [15, 16, 17, 31, 32, 33]:
        for mode in range(4):
            for extra in (0, 1, 3):
                cases.append('pbs %d %d %d' % (n, mode, extra))
    for kind in kinds:
        custom_hash = kind in ('uset', 'uset_o', 'umap', 'umap_o', 'ummap', 'ummap_o', 'sumap', 'moumap')
        for i in range((40 if kind in FAST or kind == 'svec' else 60) * scale):
            hm = (0, 1, 0, 2, 3)[i % 5] if custom_hash else ((0, 1, 0)[i % 3] if kind in ('set', 'mset', 'map', 'mmap', 'momap') else 0)   # ordered: 1 = stateful comparator in its descending state
            cases.append(gen_script(r, kind, r.range(8, 60), 0, 1, 1, hm))
        if kind in ALLOC_SETS:
            for ak in (ALLOC_SETS[kind] + (ALLOC_SETS2.get(kind, ()) if thorough else ())):
                for i in range((6 if kind == 'vec' else 16) * scale):
                    ida = r.range(1, 3); idb = ida if r.chance(1, 2) else r.range(1, 3)
                    cases.append(gen_script(r, kind, r.range(8, 40), ak, ida, idb, (i % 2) if kind in ('mset', 'map') else 0))
        # long histories: cross the growth / split / merge thresholds of the nested containers several times, shrink, refill
        for big in ((120, 330, 700) if not thorough else (120, 330, 700, 1500, 3000)):
            for rep_ in range(1 if not thorough else 2):
                step = r.choice([1, 1, 3, -2] + ([0] if kind in MULTI else []))
                base = r.range(0, 50)
                hm = (0, 2, 3, 1)[(big + rep_) % 4] if (custom_hash and big <= 330) else 0
                if kind in ('vec', 'svec'):
                    pre = ['fillv 0 %d %d' % (big, base), 'shr 0', 'fillv 1 %d 7' % (big // 3), 'errv 0 %d %d' % (big // 4, big // 2), 'rsv 0 %d' % (2 * big)]
                    post = ['cmp 0 1', 'swap', 'fillv 1 %d 3' % big, 'rsz 1 %d' % (big // 8), 'shr 1', 'clr 0', 'fillv 0 %d 1' % (big // 2), 'sz 0', 'sz 1']
                    size = big - (big // 2 - big // 4)
                else:
                    pre = ['fill 0 %d %d %d 1' % (big, base, step), 'fill 1 %d %d %d 50000' % (big // 3, base + 5, 2 * step if step else 1), 'sz 0', 'sz 1']
                    post = ['erif 0 2 0', 'sz 0', 'cmp 0 1', 'erloop 1 3 1', 'swap', 'fill 0 %d %d 1 70000' % (big // 2, base - 20), 'clr 1', 'fill 1 %d 0 1 90000' % (big // 4), 'sz 0', 'sz 1']
                    if kind not in NO_NODES: post.insert(3, 'merge 0 1')
                    if kind in ORDERED: post.insert(0, 'err 0 %d %d' % (big // 5, big // 2)); post.insert(0, 'rdump 1')
                    size = big if (step or kind in MULTI) else 1
                body = gen_script(r, kind, 25, 0, 1, 1, hm, prefix=pre, size=size)
                cases.append(body + ' ; ' + ' ; '.join(post))
    for kind in ('set', 'mset', 'map', 'mmap'):
        cases += gen_hint_cases(kind, scale > 1)
        if kind in ('mset', 'map'): cases += gen_hint_cases(kind, False, 1)   # the same with the comparator in its descending state
    # aimed: unordered_multimap == with value-less keys on either side
    for kind in ('ummap', 'ummap_o'):
        for m in (1, 2, 3):
            for rr in range(m):
                cases.append('%s 0 1 1 0 ; ins 0 1 1 ; ins 0 2 2 ; ins 0 3 3 ; ins 0 1 4 ; cpy 1 0 ; erif 0 %d %d ; erk 1 1 ; erif 1 %d %d ; cmp 0 1 ; cmp 1 0 ; ins 0 2 2 ; cmp 0 1' % (kind, m, rr, m, rr))
                cases.append('%s 0 1 1 0 ; ins 0 1 1 ; ins 0 1 2 ; ins 1 1 2 ; ins 1 1 1 ; cmp 0 1 ; erif 0 %d %d ; erif 1 %d %d ; cmp 0 1 ; ins 1 5 5 ; erf 1 5 5 ; cmp 0 1 ; cmp 1 0' % (kind, m, rr, m, rr))
    # aimed: erase(equal_range(k)) for every key of small unordered containers (first-traversed key included)
    for kind in ('uset', 'uset_o', 'umap', 'umap_o', 'ummap', 'ummap_o'):
        for hm in (0, 1):
            for n in (1, 2, 3, 5, 9):
                for k in range(n):
                    pre = ' ; '.join('ins 0 %d %d' % (j, j + 1) for j in range(n)) + (' ; ins 0 %d 77' % k if kind.startswith('ummap') else '')
                    cases.append('%s 0 1 1 %d ; %s ; erre 0 %d ; sz 0 ; dump 0' % (kind, hm, pre, k))
    # aimed: unordered_multimap whose key_eq is coarser than operator== of the key (identity-tagged keys): == must use operator==
    for i in range(300 * scale):
        n = r.below(5)
        a = [(r.below(3), r.below(2), r.below(2)) for _ in range(n)]
        b = list(a); r.shuffle(b)
        t = r.below(6)
        if b and t == 0: j = r.below(len(b)); b[j] = (b[j][0], 1 - b[j][1], b[j][2])          # same key class, other identity
        elif b and t == 1: j = r.below(len(b)); b[j] = (b[j][0], b[j][1], 1 - b[j][2])        # other value
        elif b and t == 2: b.pop(r.below(len(b)))
        elif t == 3: b.append((r.below(3), r.below(2), r.below(2)))
        # all values of one key class must carry the same key object in a multimap (the key is stored once): normalise ids per class
        ida = {}; a = [(k, ida.setdefault(k, i_), v) for (k, i_, v) in a]
        idb = {}; b = [(k, idb.setdefault(k, i_), v) for (k, i_, v) in b]
        tail = (' / %d %d' % (2, r.below(2))) if r.chance(1, 3) else ''
        cases.append('%s %d %s / %s%s' % (r.choice(['mmk', 'mmko', 'umk', 'umko']), r.below(2), ' '.join('%d.%d.%d' % e for e in a), ' '.join('%d.%d.%d' % e for e in b), tail))
    # the functor STATE (descending comparator, non-default hash mode / key_eq tag) must survive operator=(init-list), copy/move assignment,
    # swap and the allocator-extended constructors: observers + order-dependent answers afterwards
    for kind in ('set', 'mset', 'map', 'mmap', 'momap', 'uset', 'uset_o', 'umap', 'umap_o', 'ummap', 'ummap_o'):
        hm = 1 if kind in ORDERED else 3
        probe = 'kfn 0 3 5 ; kfn 1 3 5 ; ins 0 4 70 ; ins 1 4 71 ; find 0 5 ; cnt 0 3 ; dump 0 ; dump 1' + (' ; lb 0 4 ; ub 0 4 ; eri 0 0 ; rdump 0' if kind in ORDERED else '')
        muts = ['mov 0 1', 'movq 0 1', 'swap', 'swp2', 'mvc 0 1', 'mvca 0 1 1', 'clr 0']
        if kind not in MOVE_ONLY: muts += ['asl 0 3 1 5 2 1 3', 'asl 0', 'cpy 0 1', 'cpc 0 1', 'cpca 0 1 1']
        for m in muts:
            cases.append('%s 0 1 1 %d ; ins 0 1 10 ; ins 0 5 11 ; ins 0 3 12 ; ins 1 2 20 ; ins 1 6 21 ; %s ; %s' % (kind, hm, m, probe))
    # boundary values of every numeric argument: 0, 1, n-1, n, n+1, SIZE_MAX(-1)
    for kind in ('vec', 'svec'):
        for n in (0, 1, 2, 5, 16, 17):
            fillp = 'fillv 0 %d 10' % n
            idxs = sorted(set([0, 1, max(n - 1, 0), n, n + 1, -1]))
            cases.append('%s 0 1 1 0 ; %s ; %s ; sz 0' % (kind, fillp, ' ; '.join('atv 0 %d' % i for i in idxs)))
            for i in idxs:
                if i < 0: continue
                cases.append('%s 0 1 1 0 ; %s ; insv 0 %d 77 ; insn 0 %d 0 5 ; insn 0 %d 1 6 ; insrv 0 %d ; erv 0 %d ; errv 0 %d %d ; errv 0 %d %d ; errv 0 0 %d ; rdump 0'
                             % (kind, fillp, i, i, i, i, i, i, i, i, n, n))
            cases.append('%s 0 1 1 0 ; %s ; rsz 0 %d ; rsz 0 0 ; rsv 0 0 ; shr 0 ; asg 0 0 3 ; pop 0 ; rszv 0 1 9 ; pop 0 ; pop 0 ; fb 0 ; cmp 0 1 ; ctor 1 0 %d ; cmp 0 1 ; ctor 0 1 %d 4 ; cmp 0 1 ; cmp 1 0' % (kind, fillp, n, n, n))
    for kind in kinds:
        if kind in ('vec', 'svec'): continue
        for n in (0, 1, 2, 7):
            fillp = 'fill 0 %d 10 2 1' % n
            q = ' ; '.join('%s 0 %d' % (o, k) for k in (9, 10, 11, 10 + 2 * n - 2, 10 + 2 * n) for o in ('find', 'cnt', 'eqr', 'erk'))
            cases.append('%s 0 1 1 0 ; %s ; %s ; sz 0' % (kind, fillp, q))
            if kind in ORDERED:
                for i in sorted(set([0, 1, max(n - 1, 0), n, n + 1])):
                    cases.append('%s 0 1 1 0 ; %s ; err 0 %d %d ; err 0 %d %d ; err 0 0 %d ; fill 0 %d 10 2 50 ; eri 0 %d ; exti 0 %d ; insh 0 %d 11 99 ; rdump 0' % (kind, fillp, i, i, i, n, n, n, i, i, i))
    seen = set(); out = []
    for cse in cases:
        if cse not in seen: seen.add(cse); out.append(cse)
    return out


def report(ctx, bad, limit=3):
    n = 0
    for b in bad:
        if n >= limit: break
        if len(b) == 5:
            cse, a, s, m, why = b
            kind = cse.split(' ', 1)[0]
            g = group_of(cse)
            if ctx.violation(why, {'case': cse, 'momo': a, 'std': s, 'model': m,
                                   'cmd': "echo '%s' | build/C06/h_momo_%d ; (same with h_std_%d, model_driver)" % (cse, g, g)}, found_input=True):
                n += 1
        else:
            cse, a, m, why = b
            g = group_of(cse) if cse[:2] in ('we', 'wl') else 0
            ctx.violation(why, {'case': cse, 'momo': a, 'expected': m, 'cmd': "echo '%s' | build/C06/h_momo_%d" % (cse, g)}, found_input=True); n += 1


def run(ctx):
    scale = 1 if ctx.quick() else 8
    ctx.trusted += ['extraction: ExtrOcamlBasic only (no Extract Constant), OCaml 4.13.1, zarith for decimal I/O only; ocaml/driver.ml (parsing/dispatch/printing)',
                    'g++ 12 -std=c++17 and libstdc++ (the std side of the three-way comparison, itself checked against the Coq spec)',
                    'the nested momo containers are read as sorted sequence / hash set / hash multimap (their own properties C01, C02); this reading is re-validated by the correspondence']
    ctx.assumptions += ['documented deviations are generator constraints: iterators re-acquired after every mutation; find/insert results only read, compared, erased or extracted; unordered range erase only with empty / single / whole-key / whole-container ranges (other ranges are exercised in the iterator-kind stage, where throwing is allowed)',
                        'element and key types are ints / a two-int struct compared by its first field; allocators: std::allocator and one stateful allocator with 4 propagation-trait combinations',
                        'unordered find()/erase(iterator) on a multimap key with several values is addressed by (key,value), since std leaves the choice among equivalent elements unspecified']
    # a run against a private copy (mutant / seed) or a partial run must not replace the evidence of the last run against /repo
    ev_path = os.path.join(ctx.root, 'evidence', 'C06.json')
    ev_keep = open(ev_path, 'rb').read() if (os.path.exists(ev_path) and (os.environ.get('VERIF_REPO') or only_groups())) else None
    rc = run_inner(ctx)
    if ev_keep is not None:
        open(ev_path, 'wb').write(ev_keep)
    return rc


def run_inner(ctx):
    scale = 1 if ctx.quick() else 8
    regen_fast(ctx, GEN)
    ctx.prove()
    exes = build_harnesses(ctx)
    if exes is None:
        ctx.stage('build-harness', False, getattr(ctx, 'last_cxx_error', ''))
        return ctx.finish(rule=RULE)
    ctx.stage('build-harness', True)
    types_stage(ctx, exes)
    have_model = bool(ctx.stages.get('prove', {}).get('ok') and ctx.extract())
    cases = all_cases(ctx, scale)
    if only_groups():
        cases = [c for c in cases if group_of(c) in only_groups()]
        ctx.assumptions.append('PARTIAL RUN: restricted to harness groups %s by VERIF_C06_GROUPS' % sorted(only_groups()))
    broke = any(not s['ok'] for s in ctx.stages.values())
    if broke:
        ctx.log('a stage broke: searching the implementation with the thorough generator (oracle = libstdc++)')
        have = set(cases)
        cases = cases + [c for c in all_cases(ctx, 8) if c not in have and (not only_groups() or group_of(c) in only_groups())]
    bad, ok_mstd, ok_ms, ok_ss = three_way(ctx, exes, cases, have_model, 'tw')
    if have_model:
        ctx.stage('corr:std-vs-spec', ok_ss, next((b[4] + ': ' + b[0][:200] for b in bad if 'oracle validation' in b[4]), ''))
        ctx.stage('corr:momo-vs-spec', ok_ms, next((b[4] + ': ' + b[0][:200] for b in bad if 'extracted spec disagree' in b[4] and 'momo' in b[4]), ''))
        ctx.tie_obligations.append({'name': 'extracted specs == libstdc++ on %d call sequences' % len(cases), 'ok': ok_ss})
        ctx.tie_obligations.append({'name': 'extracted specs / wrapper models == momo::stdish on %d call sequences' % len(cases), 'ok': ok_ms})
    ctx.stage('oracle:momo-vs-std', ok_mstd, next((b[4] + ': ' + b[0][:200] for b in bad if 'libstdc++ disagree' in b[4] or 'crashed' in b[4]), ''))
    bad2, ok_tie, ok_or = we_stage(ctx, exes, have_model, scale > 1 or broke)
    if have_model:
        ctx.stage('corr:wrapper-erase', ok_tie, next((b[3] + ': ' + b[0][:200] for b in bad2 if 'model' in b[3]), ''))
        ctx.tie_obligations.append({'name': 'us_erase_range / mm_erase_range == momo erase(first,last) on every iterator pair of the small containers', 'ok': ok_tie})
    ctx.stage('oracle:erase-range', ok_or, next((b[3] + ': ' + b[0][:200] for b in bad2 if 'model' not in b[3]), ''))
    # momo-vs-std disagreements first (they decide), then the rest
    bad.sort(key=lambda b: 0 if 'libstdc++ disagree' in b[4] or 'crashed' in b[4] else 1)
    report(ctx, bad); report(ctx, bad2)
    for cse in cases[::max(1, len(cases) // 5)][:5]:
        ctx.add_sample(cse)
    ctx.add_sample('we ummap 0 10:101 10:102 13:103 / 0 0 -1 0 / <traversal order>')
    ctx.coverage['input_distribution'] = measure(ctx, exes, cases)
    return ctx.finish(rule=RULE)


def replay(ctx, rp):
    """re-run one recorded case against the current tree (momo vs std vs model)"""
    cse = rp.get('case')
    if not cse:
        print('replay has no concrete case (no-failing-input-found): broken stages were', list(rp.get('broken', {}).keys())); return 1
    exes = build_harnesses(ctx)
    if exes is None:
        print('harness does not build'); return 2
    have_model = ctx.extract() if os.path.exists(os.path.join(ctx.cdir, 'Spec.vo')) else False
    if cse[:3] in ('we ', 'wl '):
        g = GROUP_OF[cse.split(' ')[1]]
        rc, lines, err = run_exe(ctx, exes[('momo', g)], [cse], 'replay')
        a = lines[0] if lines else err
        parts = cse.split(' / ')
        order = [tuple(map(int, t.split(':'))) for t in parts[2].split()]
        its = list(map(int, parts[1].split()))
        vis = py_walk(cse.split(' ')[1], order, (its[0], its[1]), (its[2], its[3]))
        print('case:', cse, '\nmomo:', a, '\nvisited:', vis)
        bad = False
        if vis is not None:
            if a == 'throw': bad = len(vis) < 2
            else:
                want = '[' + ','.join('%d:%d' % e for e in sorted(e for j, e in enumerate(order) if j not in vis)) + ']'
                bad = a.split('rest=')[-1] != want
        if have_model:
            rc, ml, _ = run_exe(ctx, ctx.model_exe, [cse], 'replay_m'); print('model:', ml[0] if ml else '?'); bad = bad or (ml and ml[0] != a)
        if bad:
            print('VIOLATION property=C06 replay=%s' % ctx.replay); return 1
        print('property holds on this case'); return 0
    g = group_of(cse)
    rc1, a, e1 = run_exe(ctx, exes[('momo', g)], [cse], 'replay_momo')
    rc2, b, e2 = run_exe(ctx, exes[('std', g)], [cse], 'replay_std')
    a = a[0] if a else 'CRASH ' + e1[-300:]; b = b[0] if b else 'CRASH ' + e2[-300:]
    print('case:', cse, '\nmomo :', a, '\nstd  :', b)
    bad = a != b
    if have_model:
        rc3, m, e3 = run_exe(ctx, ctx.model_exe, [cse], 'replay_model'); m = m[0] if m else '?'
        print('model:', m); bad = bad or a != m
    if bad:
        print('VIOLATION property=C06 replay=%s' % ctx.replay); return 1
    print('property holds on this case'); return 0
