(* C07 / DataSelection::Group -> HashSorter::pvGroup (HashSorter.h:212-229): inside a run of rows with equal hash code, for
   every position i whose predecessor differs, all later rows equal to the predecessor are swapped, one after the other, to
   position i, i+1, ...  `gather` is that inner loop on lists (done = the copies already moved, pending = the rows between
   position i and the scan position, rest = the rows still to scan; a swap puts the hit at the front position and the row
   that was there at the scan position).  Theorem: the result is a permutation in which equal keys are adjacent.
   HashSorter::pvSort calls pvGroup on every run of equal hash codes longer than 2 (a run of 1 or 2 rows is trivially grouped);
   rows with different hash codes have different keys, so grouping every run groups the whole selection. *)
From Coq Require Import List ZArith Lia Bool Arith PeanoNat Permutation.
From C07 Require Import TableSpec.
Import ListNotations.

Definition K := list Z.

Fixpoint gather (x : K) (done pending rest : list K) : list K * list K :=
  match rest with
  | [] => (done, pending)
  | y :: rest' =>
      if zlist_eqb x y then
        match pending with
        | p :: ps => gather x (done ++ [y]) (ps ++ [p]) rest'      (* iterSwapper(begin + i, begin + j); ++i *)
        | [] => gather x (done ++ [y]) [] rest'
        end
      else gather x done (pending ++ [y]) rest'
  end.

Fixpoint pvgroup (fuel : nat) (l : list K) : list K :=
  match fuel with
  | O => l
  | S f =>
      match l with
      | x :: y :: t =>
          if zlist_eqb x y then x :: pvgroup f (y :: t)                    (* equalFunc(a[i-1], a[i]): continue *)
          else let '(done, pending) := gather x [] [y] t in x :: done ++ pvgroup f pending
      | _ => l
      end
  end.

(* equal keys adjacent: after the leading run of copies of the head, the head does not occur again; recursively *)
Fixpoint grp (fuel : nat) (l : list K) : Prop :=
  match fuel with
  | O => True
  | S f =>
      match l with
      | [] => True
      | x :: t => exists run rest, t = run ++ rest /\ Forall (fun y => y = x) run /\ ~ In x rest /\ grp f rest
      end
  end.

Lemma gather_spec x : forall rest done pending,
  ~ In x pending ->
  let '(d, p) := gather x done pending rest in
  exists k, d = done ++ repeat x k /\ Permutation (repeat x k ++ p) (pending ++ rest) /\ ~ In x p /\ length p <= length pending + length rest.
Proof.
  induction rest as [|y rest IH]; intros done pending Hp; simpl.
  - exists 0. simpl. rewrite !app_nil_r. repeat split; auto; lia.
  - destruct (zlist_eqb x y) eqn:E.
    + apply zlist_eqb_eq in E. subst y. destruct pending as [|p ps].
      * specialize (IH (done ++ [x]) [] (fun H => H)). destruct (gather x (done ++ [x]) [] rest) as [d p0].
        destruct IH as (k & Hd & Hperm & Hn & Hl). exists (S k). rewrite Hd, <- app_assoc. simpl.
        repeat split; auto; try (simpl in *; lia); try (constructor; exact Hperm).
      * assert (Hp' : ~ In x (ps ++ [p])).
        { intros H. apply Hp. apply in_app_iff in H as [H|[H|[]]]; [right; exact H|left; exact H]. }
        specialize (IH (done ++ [x]) (ps ++ [p]) Hp'). destruct (gather x (done ++ [x]) (ps ++ [p]) rest) as [d p0].
        destruct IH as (k & Hd & Hperm & Hn & Hl). exists (S k). rewrite Hd, <- app_assoc. simpl.
        repeat split; auto; try (rewrite app_length in Hl; simpl in *; lia).
        etransitivity; [apply perm_skip; exact Hperm|].
        etransitivity; [|apply (Permutation_middle (p :: ps) rest x)]. apply perm_skip.
        apply Permutation_app_tail. symmetry. apply Permutation_cons_append.
    + assert (Hxy : x <> y) by (intros ->; rewrite zlist_eqb_refl in E; discriminate).
      assert (Hp' : ~ In x (pending ++ [y])).
      { intros H. apply in_app_iff in H as [H|[H|[]]]; [exact (Hp H)|congruence]. }
      specialize (IH done (pending ++ [y]) Hp'). destruct (gather x done (pending ++ [y]) rest) as [d p0].
      destruct IH as (k & Hd & Hperm & Hn & Hl). exists k.
      repeat split; auto; try (rewrite app_length in Hl; simpl in *; lia).
      rewrite <- app_assoc in Hperm. exact Hperm.
Qed.

Lemma grp_nil f : grp f [].
Proof. destruct f; exact I. Qed.

Lemma pvgroup_head f x t : exists t', pvgroup f (x :: t) = x :: t'.
Proof.
  destruct f; simpl; [eauto|]. destruct t as [|y t]; [eauto|].
  destruct (zlist_eqb x y); [eauto|]. destruct (gather x [] [y] t). eauto.
Qed.

Lemma repeat_all {A} (x : A) k : Forall (fun y => y = x) (repeat x k).
Proof. induction k; simpl; constructor; auto. Qed.

(* HashSorter::pvGroup: a permutation in which equal keys are adjacent, for every run *)
Theorem pvgroup_spec : forall fuel l, length l <= fuel ->
  Permutation (pvgroup fuel l) l /\ forall fuel2, grp fuel2 (pvgroup fuel l).
Proof.
  induction fuel as [|f IH]; intros l Hl.
  - destruct l; [|simpl in Hl; lia]. split; [reflexivity|intros; apply grp_nil].
  - destruct l as [|x [|y t]]; cbn [pvgroup].
    + split; [reflexivity|intros; apply grp_nil].
    + split; [reflexivity|]. intros [|f2]; [exact I|]. simpl. exists [], []. repeat split; auto. apply grp_nil.
    + destruct (zlist_eqb x y) eqn:E.
      * apply zlist_eqb_eq in E. subst y. destruct (IH (x :: t) ltac:(simpl in *; lia)) as [P G]. split; [apply perm_skip; exact P|].
        intros [|f2]; [exact I|]. destruct (pvgroup_head f x t) as (t' & Et). rewrite Et in *. specialize (G (S f2)). cbn [grp] in G |- *.
        destruct G as (run & rest & Er & Hf & Hn & Hg). exists (x :: run), rest. repeat split; auto. rewrite Er. reflexivity.
      * pose proof (gather_spec x t [] [y]) as Hs.
        assert (Hny : ~ In x [y]) by (intros [H|[]]; subst; rewrite zlist_eqb_refl in E; discriminate).
        specialize (Hs Hny). destruct (gather x [] [y] t) as [done pending].
        destruct Hs as (k & Hd & Hperm & Hn & Hlen). simpl in Hd. subst done.
        destruct (IH pending ltac:(simpl in *; lia)) as [P G]. split.
        -- apply perm_skip. etransitivity; [apply Permutation_app_head; exact P|exact Hperm].
        -- intros [|f2]; [exact I|]. cbn [grp]. exists (repeat x k), (pvgroup f pending). repeat split; auto.
           ++ apply repeat_all.
           ++ intros Hin. apply Hn. apply (Permutation_in _ P). exact Hin.
Qed.

(* non-vacuity and the shape attacked by seed wave 2 / b: skipping pvGroup when the first and the last row of the run are
   equal leaves A, B, A ungrouped, while pvGroup groups it *)
Definition pvsort_run_shortcut (l : list K) : list K :=
  match l with
  | x :: _ :: _ :: _ => if zlist_eqb x (last l []) then l else pvgroup (length l) l
  | _ => l
  end.

Example pvgroup_groups_ABA : pvgroup 3 [[1; 2]; [2; 1]; [1; 2]]%Z = [[1; 2]; [1; 2]; [2; 1]]%Z.
Proof. vm_compute. reflexivity. Qed.

Theorem group_shortcut_refuted : exists l, ~ grp (S (length l)) (pvsort_run_shortcut l).
Proof.
  exists [[1; 2]; [2; 1]; [1; 2]]%Z. cbn. intros (run & rest & E & Hf & Hn & _).
  destruct run as [|r run]; simpl in E.
  - subst rest. apply Hn. right. left. reflexivity.
  - inversion E; subst. inversion Hf; subst. discriminate.
Qed.
