(* C19 -- the Treiber push / take-all / check steps of the model ARE the cxx2coq translations of the real functions
   (Gen_DataRow.destroy = DataRow::~DataRow, Gen_FreeListOwner.pvDeallocateFreeRaws / pvAllocateRaw), run without
   interruption on the memory abstraction of a model state:
     address 1          the atomic head  (Crew::Data::freeRaws)
     address r + 2      the link word of buffer r
     0                  nullptr *)
From Coq Require Import List Arith Bool PeanoNat ZArith Lia.
From MomoCommon Require Import GenPrelude.
From C19 Require Import FreeListPrims Gen_DataRow Gen_FreeListOwner Treiber TreiberInv TreiberThms TreiberExact.
Import ListNotations.
Local Open Scope Z_scope.
Local Arguments step : simpl never.

Definition hd : Z := 1.
Definition addr (r : row) : Z := Z.of_nat r + 2.
Definition encp (a : option row) : Z := match a with None => 0 | Some r => addr r end.
Definition mem_of (s : state) : Z -> Z :=
  fun a => if a =? hd then encp (head s) else if 2 <=? a then encp (link s (Z.to_nat (a - 2))) else 0.

Lemma mem_of_hd s : mem_of s hd = encp (head s).
Proof. reflexivity. Qed.
Lemma mem_of_addr s r : mem_of s (addr r) = encp (link s r).
Proof.
  unfold mem_of, addr, hd. destruct (Z.eqb_spec (Z.of_nat r + 2) 1); [lia|].
  destruct (Z.leb_spec 2 (Z.of_nat r + 2)); [|lia]. replace (Z.of_nat r + 2 - 2) with (Z.of_nat r) by lia.
  rewrite Nat2Z.id. reflexivity.
Qed.
Lemma addr_neq_hd r : addr r <> hd. Proof. unfold addr, hd; lia. Qed.
Lemma addr_nonnull r : addr r <> 0. Proof. unfold addr; lia. Qed.
Lemma addr_inj r1 r2 : addr r1 = addr r2 -> r1 = r2. Proof. unfold addr; lia. Qed.
Lemma encp_inj a b : encp a = encp b -> a = b.
Proof. destruct a, b; simpl; intros H; try reflexivity; try (pose proof (addr_nonnull r); lia).
  f_equal. apply addr_inj; auto. Qed.

(* ------------------------------------------------------------------ the push: DataRow::~DataRow *)
(* what the generated loop computes when some attempt within the fuel is not spurious: link word := head, head := raw
   (pointwise: the development uses no functional extensionality) *)
Lemma destroy_loop_spec sp raw : forall fuel mem mo,
  raw <> hd -> (exists k, (k < fuel)%nat /\ sp k = false) ->
  exists m', destroy_loop0 sp fuel hd raw mem mo = Ok (m', Z.min mo 5) /\
    forall a, m' a = if a =? hd then raw else if a =? raw then mem hd else mem a.
Proof.
  induction fuel; intros mem mo Hr [k [Hk Hs]]; [lia|].
  rewrite destroy_loop0_eq. unfold id_addr. cbv zeta.
  assert (E : mem_store mem (mem hd) raw hd = mem hd) by (unfold mem_store; apply GenPrelude.upd_other; auto).
  rewrite E, Z.eqb_refl. cbn [andb].
  destruct (sp fuel) eqn:Sf; cbn [negb].
  - destruct (IHfuel (mem_store mem (mem hd) raw) (Z.min mo 5) Hr) as [m' [R Hm]].
    { exists k. split; auto. destruct (Nat.eq_dec k fuel); [subst; congruence|lia]. }
    exists m'. split; [rewrite R; f_equal; f_equal; lia|]. intros a. rewrite Hm, E.
    destruct (Z.eqb_spec a hd); auto. destruct (Z.eqb_spec a raw); auto.
    unfold mem_store. apply GenPrelude.upd_other; auto.
  - eexists; split; [reflexivity|]. intros a. unfold mem_store, GenPrelude.upd.
    destruct (Z.eqb_spec a hd); auto; destruct (Z.eqb_spec a raw); auto.
Qed.

(* the model's uninterrupted push: DBegin, DLoad, DLink, DCas(success) *)
Lemma model_push s t r :
  dpcs s t = Idle -> status s r = Detached ->
  exists s', run s [DBegin t r; DLoad t; DLink t; DCas t false] = Some s' /\
    head s' = Some r /\ link s' r = head s /\ (forall r0, r0 <> r -> link s' r0 = link s r0) /\
    dpcs s' t = Idle /\ shared s' = r :: shared s.
Proof.
  intros Hi Hd. unfold run. unfold step at 1. rewrite Hi, Hd. cbv iota beta.
  unfold step at 1. simpl. rewrite upd_eq. unfold step at 1. simpl. rewrite upd_eq.
  unfold step at 1. simpl. rewrite upd_eq.
  destruct (oeqb_spec (head s) (head s)); [|congruence]. simpl.
  eexists; split; [reflexivity|]. simpl. repeat split; auto.
  - apply upd_eq.
  - intros r0 N. apply upd_neq; auto.
  - apply upd_eq.
Qed.

(* THE refinement: the translated destructor, run on the memory of a model state, yields the memory of the state the
   model reaches by DBegin;DLoad;DLink;DCas -- whatever the (eventually not spurious) behaviour of the weak CAS *)
Theorem generated_destructor_is_model_push s t r sp fuel cl :
  dpcs s t = Idle -> status s r = Detached -> (exists k, (k < fuel)%nat /\ sp k = false) ->
  exists s' m',
    run s [DBegin t r; DLoad t; DLink t; DCas t false] = Some s' /\
    destroy sp fuel (addr r) hd cl (mem_of s) 5 = Ok (tt, m', 5) /\
    forall a, m' a = mem_of s' a.
Proof.
  intros Hi Hd Hs. destruct (model_push s t r Hi Hd) as [s' [R [H1 [H2 [H3 _]]]]].
  destruct (destroy_loop_spec sp (addr r) fuel (mem_of s) 5 (addr_neq_hd r) Hs) as [m' [L Hm]].
  exists s', m'. split; auto. split.
  - unfold destroy. destruct (Z.eqb_spec (addr r) 0); [exfalso; eapply addr_nonnull; eauto|].
    unfold fuel_of_destroy. rewrite L. reflexivity.
  - intros a. rewrite Hm. unfold mem_of at 3.
    destruct (Z.eqb_spec a hd).
    + rewrite H1. reflexivity.
    + destruct (Z.eqb_spec a (addr r)).
      * subst. destruct (Z.leb_spec 2 (addr r)); [|unfold addr in *; lia].
        replace (Z.to_nat (addr r - 2)) with r by (unfold addr; lia). rewrite H2. apply mem_of_hd.
      * unfold mem_of. destruct (Z.eqb_spec a hd); [contradiction|].
        destruct (Z.leb_spec 2 a); auto. rewrite H3; auto.
        intro E. apply n0. unfold addr. rewrite <- E. lia.
Qed.

(* the guard `if (mRaw == nullptr) return;`: destroying an empty Row object touches nothing *)
Theorem generated_destructor_of_empty_row sp fuel fl cl mem mo : destroy sp fuel 0 fl cl mem mo = Ok (tt, mem, mo).
Proof. reflexivity. Qed.

(* ------------------------------------------------------------------ the take-all and walk: pvDeallocateFreeRaws *)
Definition log_of (pool : Z -> Z) (l : list row) : Z -> Z := fold_left (fun p r => pool_free p (addr r)) l pool.

Lemma drain_loop_spec lk mem : forall l c pool fuel,
  chain lk c l -> (length l < fuel)%nat -> (forall r, mem (addr r) = encp (lk r)) ->
  pvDeallocateFreeRaws_loop0 fuel mem (encp c) pool = Ok (0, log_of pool l).
Proof.
  induction l as [|r l IH]; intros c pool fuel C Hf Hm; simpl in C.
  - subst. destruct fuel; [simpl in Hf; lia|]. reflexivity.
  - destruct C as [-> C]. destruct fuel; [simpl in Hf; lia|].
    rewrite pvDeallocateFreeRaws_loop0_eq. simpl encp.
    destruct (Z.eqb_spec (addr r) 0); [exfalso; eapply addr_nonnull; eauto|]. simpl negb. cbv iota zeta.
    rewrite Hm. apply IH; auto. simpl in Hf. lia.
Qed.

Fixpoint walk_labels (n : nat) : list label :=
  match n with O => [ODone] | S n' => ORead :: OFree None :: walk_labels n' end.

Lemma model_walk : forall l s c,
  inv s -> own s = ODrain c -> drain s = l ->
  exists s', run s (walk_labels (length l)) = Some s' /\ own s' = OIdle /\ head s' = head s /\ shared s' = shared s /\
    dpcs s' = dpcs s /\ reclaimed s' = rev (map (fun r => (r, gen s r)) l) ++ reclaimed s.
Proof.
  induction l as [|r l IH]; intros s c I Ho Hd; pose proof (i_own s I) as O; rewrite Ho, Hd in O; simpl in O.
  - subst c. simpl. unfold step. rewrite Ho. eexists; split; [reflexivity|]. simpl. auto.
  - destruct O as [-> C]. cbn [length walk_labels run].
    assert (S1 : exists s1, step s ORead = Some s1 /\ own s1 = ONext r (link s r) /\ drain s1 = drain s /\ head s1 = head s /\
                            shared s1 = shared s /\ dpcs s1 = dpcs s /\ reclaimed s1 = reclaimed s /\ gen s1 = gen s).
    { unfold step. rewrite Ho. eexists; split; [reflexivity|]. simpl. repeat split; auto. }
    destruct S1 as [s1 [H1 [O1 [D1 [A1 [B1 [P1 [R1 G1]]]]]]]]. rewrite H1.
    pose proof (inv_step _ _ _ I H1) as I1.
    assert (S2 : exists s2, step s1 (OFree None) = Some s2 /\ own s2 = ODrain (link s r) /\ drain s2 = l /\ head s2 = head s /\
                            shared s2 = shared s /\ dpcs s2 = dpcs s /\ reclaimed s2 = (r, gen s r) :: reclaimed s /\ gen s2 = gen s).
    { unfold step. rewrite O1. eexists; split; [reflexivity|]. simpl. rewrite D1, Hd, G1, R1. repeat split; auto. }
    destruct S2 as [s2 [H2 [O2 [D2 [A2 [B2 [P2 [R2 G2]]]]]]]]. rewrite H2.
    pose proof (inv_step _ _ _ I1 H2) as I2.
    destruct (IH s2 _ I2 O2 D2) as [s' [R [Oi [Ah [Bs [Pd Rr]]]]]].
    exists s'. split; auto. repeat split; try congruence.
    rewrite Rr, R2, G2. simpl. rewrite <- app_assoc. reflexivity.
Qed.

(* THE refinement: the translated pvDeallocateFreeRaws, run on the memory of a model state, empties the head and hands to
   the pool exactly the buffers, in exactly the order, that the model reclaims by OExchange; (ORead; OFree)*; ODone *)
Theorem generated_drain_is_model_drain s pool fuel :
  inv s -> own s = OIdle -> (length (shared s) < fuel)%nat ->
  exists s' m',
    run s (OExchange :: walk_labels (length (shared s))) = Some s' /\
    pvDeallocateFreeRaws hd fuel (mem_of s) pool 5 = Ok (tt, m', log_of pool (shared s), 5) /\
    m' hd = 0 /\ head s' = None /\ own s' = OIdle /\
    reclaimed s' = rev (map (fun r => (r, gen s r)) (shared s)) ++ reclaimed s.
Proof.
  intros I Ho Hf.
  assert (S1 : exists s1, step s OExchange = Some s1 /\ own s1 = ODrain (head s) /\ drain s1 = shared s /\ head s1 = None /\
                          reclaimed s1 = reclaimed s /\ gen s1 = gen s).
  { unfold step. rewrite Ho. eexists; split; [reflexivity|]. simpl. auto. }
  destruct S1 as [s1 [H1 [O1 [D1 [A1 [R1 G1]]]]]].
  pose proof (inv_step _ _ _ I H1) as I1.
  destruct (model_walk (shared s) s1 _ I1 O1 D1) as [s' [R [Oi [Ah [_ [_ Rr]]]]]].
  exists s', (GenPrelude.upd (mem_of s) hd 0). split; [cbn [run]; rewrite H1; exact R|]. split.
  - unfold pvDeallocateFreeRaws, fuel_of_pvDeallocateFreeRaws. rewrite mem_of_hd.
    rewrite (drain_loop_spec (link s) _ (shared s) (head s) pool fuel); auto.
    + apply (i_chain s I).
    + intros r. rewrite GenPrelude.upd_other by apply addr_neq_hd. apply mem_of_addr.
  - split; [apply GenPrelude.upd_same|]. split; [congruence|]. split; [auto|]. rewrite Rr, R1, G1. reflexivity.
Qed.

(* ------------------------------------------------------------------ pvAllocateRaw: the check is the exact machine's XCheck *)
Theorem generated_check_is_model_check xs xs' :
  stepx xs XCheck = Some xs' ->
  xo xs' = XChecked (negb (mem_of (base xs) hd =? 0)).
Proof.
  unfold stepx. destruct (xo xs); try discriminate. destruct (own (base xs)); try discriminate.
  intros H; inversion H; subst; simpl. rewrite mem_of_hd.
  destruct (head (base xs)) as [r|]; simpl; auto.
  destruct (Z.eqb_spec (addr r) 0); [exfalso; eapply addr_nonnull; eauto|reflexivity].
Qed.

Theorem generated_allocate_skips_drain_iff_head_null pa fuel s pool :
  head s = None -> pvAllocateRaw hd pa fuel (mem_of s) pool 5 = Ok (pa pool, mem_of s, pool, 5).
Proof. intros H. unfold pvAllocateRaw. rewrite mem_of_hd, H. reflexivity. Qed.

Theorem generated_allocate_drains_when_head_nonnull pa fuel s pool :
  inv s -> own s = OIdle -> head s <> None -> (length (shared s) < fuel)%nat ->
  exists m', pvAllocateRaw hd pa fuel (mem_of s) pool 5 = Ok (pa (log_of pool (shared s)), m', log_of pool (shared s), 5) /\ m' hd = 0.
Proof.
  intros I Ho Hn Hf. destruct (generated_drain_is_model_drain s pool fuel I Ho Hf) as [s' [m' [_ [D [Z0 _]]]]].
  exists m'. split; auto. unfold pvAllocateRaw. rewrite mem_of_hd.
  destruct (head s) as [r|]; [|congruence]. simpl encp.
  destruct (Z.eqb_spec (addr r) 0); [exfalso; eapply addr_nonnull; eauto|]. simpl negb. cbv iota.
  rewrite D. reflexivity.
Qed.

(* every atomic operation of the three translated functions uses memory_order_seq_cst: the translated minimum order is 5 (seq_cst)
   whenever it was 5 before (an explicit weaker order -- seeded change C19-b -- makes these fail) *)
Theorem generated_destructor_orders_are_seq_cst sp fuel raw mem m' mo :
  destroy_loop0 sp fuel hd raw mem 5 = Ok (m', mo) -> mo = 5.
Proof.
  revert mem. induction fuel; intros mem H; [discriminate|].
  rewrite destroy_loop0_eq in H. cbv zeta in H. change (Z.min 5 5) with 5 in H.
  destruct (_ && _) in H; [inversion H; reflexivity|eauto].
Qed.

Theorem generated_drain_order_is_seq_cst fuel mem pool m' pool' mo :
  pvDeallocateFreeRaws hd fuel mem pool 5 = Ok (tt, m', pool', mo) -> mo = 5.
Proof.
  unfold pvDeallocateFreeRaws. change (Z.min 5 5) with 5. destruct (pvDeallocateFreeRaws_loop0 _ _ _ _) as [[? ?]| | |]; try discriminate.
  intros H; inversion H; reflexivity.
Qed.
