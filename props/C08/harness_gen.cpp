// C08: the real arithmetic kernels that cxx2coq translates (translator validation, T-gen): one line per case
//   gc cap mn    ArraySettings<>::GrowCapacity(cap, mn, ArrayGrowCause::add, false)      ("Stuck" if !(cap < mn): MOMO_ASSERT)
//   ms p c       ArrayBucket::pvMakeState(p, c)
//   gp st        a bucket whose mPtr points at a byte holding st: pvGetMemPoolIndex(), pvGetFastCount() ("Stuck" if index == 0)
//   fi which n   pvGetFastMemPoolIndex(n) of the instantiation which = 7 (int64 values) / 2 (string values) ("Stuck" outside 1..maxFastCount)
#include "private_access.h"
#include <momo/HashMultiMap.h>
using namespace momo; using namespace momo::internal;
typedef HashMultiMapKeyValueTraits<int, int64_t, MemManagerDefault> KVT;
typedef ArrayBucket<HashMultiMapArrayBucketItemTraits<KVT>, 7, MemPoolParams<>, ArraySettings<>> AB7;
typedef HashMultiMapKeyValueTraits<int, std::string, MemManagerDefault> KVTs;
typedef ArrayBucket<HashMultiMapArrayBucketItemTraits<KVTs>, 2, MemPoolParams<3, 1>, ArraySettings<>> AB2;
// ---- two real ArrayBucket objects driven member by member (frame machine ab2_step of ArrayBucketModel.v)
//   ab2 <M 1|2|7|15> op op ...   ops: +f,v +s,v (AddBackCrt)  -f,i -s,i (assign last into i, RemoveBack)  bf bs (RemoveBack)
//   xf xs (RemoveAll)  cf cs (Clear)  w (Swap)  mf ms (move-construct a new object from f / s; it replaces the other)
//   af as (other = std::move(this), only when the other is null)  yf ys (copy-construct a new object; it replaces the other)
template<typename AB>
static std::string dump1(AB& b) {
	std::ostringstream o;
	if (b.mPtr == nullptr) o << "N";
	else if (b.pvGetMemPoolIndex() > 0) o << "F" << (unsigned)b.pvGetState() << "." << b.pvGetMemPoolIndex() << "." << b.pvGetFastCount();
	else o << "H" << b.pvGetArray().GetCapacity() << "." << b.pvGetArray().GetCount();
	o << ":"; auto bd = b.GetBounds();
	for (size_t i = 0; i < bd.GetCount(); ++i) o << (i ? "," : "") << bd[i];
	return o.str();
}
template<size_t M>
static std::string run_ab2(std::istringstream& is) {
	typedef ArrayBucket<HashMultiMapArrayBucketItemTraits<KVT>, M, MemPoolParams<>, ArraySettings<>> AB;
	typedef typename AB::Params Params;
	MemManagerDefault mm; Params params(mm);
	std::unique_ptr<AB> a(new AB()), b(new AB());
	std::ostringstream line; std::string tok; bool first = true;
	while (is >> tok) {
		bool f = tok.size() > 1 && tok[1] == 'f';
		AB& x = f ? *a : *b; AB& y = f ? *b : *a;
		std::unique_ptr<AB>& py = f ? b : a;
		long long arg = 0; { size_t c = tok.find(','); if (c != std::string::npos) arg = std::stoll(tok.substr(c + 1)); }
		switch (tok[0]) {
		case '+': x.AddBackCrt(params, [arg](int64_t* p) { *p = arg; }); break;
		case '-': { auto bd = x.GetBounds(); if ((size_t)arg < bd.GetCount()) { bd[(size_t)arg] = bd[bd.GetCount() - 1]; x.RemoveBack(params); } break; }
		case 'b': if (x.GetBounds().GetCount() > 0) x.RemoveBack(params); break;
		case 'x': x.RemoveAll(params); break;
		case 'c': x.Clear(params); break;
		case 'w': a->Swap(*b); break;
		case 'm': { std::unique_ptr<AB> n(new AB(std::move(x))); y.Clear(params); py = std::move(n); break; }
		case 'a': if (y.mPtr == nullptr) y = std::move(x); break;
		case 'y': { std::unique_ptr<AB> n(new AB(params, static_cast<const AB&>(x))); y.Clear(params); py = std::move(n); break; }
		default: break;
		}
		line << (first ? "" : "|") << dump1(*a) << ";" << dump1(*b); first = false;
	}
	a->Clear(params); b->Clear(params); params.Clear();
	return line.str();
}

// ---- the HashMultiMap members whose count / version / returned-position arithmetic is generated (Gen_HashMultiMap.v)
//   hm op op ...   a,k,v Add   r,k,i Remove(MakeIterator(keyIter, i))   v,k RemoveValues   K,k RemoveKey(iter)   c Clear
//   D  move the container away and Clear the moved-from object (null crew)
// per op: "<mValueCount> <valueVersion>[ <index of the returned iterator> <moved?>]"
//   hx: the same on a container whose settings make every MOMO_CHECK throw (checkMode = exception) and switch the iterator
//   version checks on; extra ops  I,k,i  remember MakeIterator(key, i)   U  use the remembered iterator (it->value): ok / throw
struct HxSettings : public momo::HashMultiMapSettings {
	static const momo::CheckMode checkMode = momo::CheckMode::exception;
	static const bool checkKeyVersion = true;
	static const bool checkValueVersion = true;
};
template<typename HM>
static std::string run_hm(std::istringstream& is) {
	HM m; std::ostringstream line; std::string tok; bool first = true;
	typename HM::Iterator saved; bool haveSaved = false;
	auto find_movable = [&](int k) { auto km = m.GetKeyBounds().GetBegin(); for (; !!km && km->key != k; ++km) {} return km; };
	while (is >> tok) {
		std::vector<long long> a; { std::string t = tok.substr(tok.size() > 1 ? 2 : 1); std::istringstream as(t); std::string x; while (std::getline(as, x, ',')) a.push_back(std::stoll(x)); }
		std::ostringstream r;
		switch (tok[0]) {
		case 'a': m.Add((int)a[0], (int64_t)a[1]); r << m.mValueCount << " " << m.mValueCrew.GetValueVersion(); break;
		case 'r': { auto km = find_movable((int)a[0]);
			if (!km || (size_t)a[1] >= km->GetCount()) { r << "skip"; break; }
			size_t idx = (size_t)a[1];
			auto it = m.Remove(m.MakeIterator(km, idx));
			// which pvMakeIterator(key, index, move) is it?  (index recovered from the value pointer when it stayed in the key)
			auto moved = m.pvMakeIterator(km, idx, true), unmoved = m.pvMakeIterator(km, idx, false);
			bool isMoved = (it == moved);
			bool same = (moved == unmoved);
			r << m.mValueCount << " " << m.mValueCrew.GetValueVersion() << " " << idx << " " << ((isMoved && !same) ? "true" : (same && isMoved) ? "true" : "false");
			break; }
		case 'v': { auto km = find_movable((int)a[0]); if (!km) { r << "skip"; break; } m.RemoveValues(km); r << m.mValueCount << " " << m.mValueCrew.GetValueVersion(); break; }
		case 'K': { auto km = find_movable((int)a[0]); if (!km) { r << "skip"; break; } m.RemoveKey(km); r << m.mValueCount << " " << m.mValueCrew.GetValueVersion(); break; }
		case 'c': m.Clear(); r << m.mValueCount << " " << m.mValueCrew.GetValueVersion(); break;
		case 'I': { auto km = find_movable((int)a[0]); if (!km || (size_t)a[1] >= km->GetCount()) { r << "skip"; break; }
			saved = m.MakeIterator(km, (size_t)a[1]); haveSaved = true; r << "it"; break; }
		case 'C': { if (!haveSaved) { r << "skip"; break; }      // CheckIterator -> VersionKeeper::Check(version, allowEmpty)
			try { m.CheckIterator(saved, a.empty() || a[0] != 0); r << "ok"; } catch (const std::invalid_argument&) { r << "throw"; }
			break; }
		case 'E': { typename HM::ConstIterator none;                // an empty iterator: accepted iff allowEmpty
			try { m.CheckIterator(none, a.empty() || a[0] != 0); r << "ok"; } catch (const std::invalid_argument&) { r << "throw"; }
			break; }
		case 'U': { if (!haveSaved) { r << "skip"; break; }
			try { int64_t v = saved->value; (void)v; r << "ok"; } catch (const std::invalid_argument&) { r << "throw"; }
			break; }
		case 'D': { HM other(std::move(m)); m.Clear(); r << m.mValueCount << " dead " << (m.mValueCrew.IsNull() ? 1 : 0); m = std::move(other); break; }
		default: r << "?"; break;
		}
		line << (first ? "" : "|") << r.str(); first = false;
	}
	return line.str();
}

// ---- pm: the real HashMultiMapIterator::pvMove against the generated one.  Script: a,k,v (Add)  v,k (RemoveValues: value-less key)
// Output "<per-key value counts in key order> ||| <for every key j and value index vi: j:vi>j':vi' or j:vi>end>" where the right side
// is what the REAL pvMove does to pvMakeIterator(key j, vi, move = false)
static std::string run_pm(std::istringstream& is) {
	typedef momo::HashMultiMap<int, int64_t> HM;
	HM m; std::string tok;
	while (is >> tok) {
		std::vector<long long> a; { std::istringstream as(tok.substr(2)); std::string x; while (std::getline(as, x, ',')) a.push_back(std::stoll(x)); }
		if (tok[0] == 'a') m.Add((int)a[0], (int64_t)a[1]);
		else if (tok[0] == 'v') { auto kf = m.Find((int)a[0]); if (!!kf) m.RemoveValues(kf); }
	}
	std::vector<typename HM::KeyIterator> keys;
	for (auto ki = m.GetKeyBounds().GetBegin(); !!ki; ++ki) keys.push_back(ki);
	std::ostringstream T, R; T << "PM";
	for (auto& ki : keys) T << " " << ki->GetCount();
	for (size_t j = 0; j < keys.size(); ++j) for (size_t vi = 0; vi <= keys[j]->GetCount(); ++vi) {
		auto it = m.pvMakeIterator(keys[j], vi, false);
		it.pvMove();
		R << " " << j << ":" << vi << ">";
		if (it.GetValueIterator() == nullptr) { R << "end"; continue; }
		size_t jj = 0; for (; jj < keys.size(); ++jj) if (&keys[jj]->key == &it.GetKeyIterator()->key) break;
		R << jj << ":" << (it.GetValueIterator() - keys[jj]->GetBegin());
	}
	return T.str() + " |||" + R.str();
}

int main() {
	std::string line;
	while (std::getline(std::cin, line)) {
		std::istringstream is(line); std::string k; is >> k;
		if (k == "gc") { unsigned long long cap, mn; is >> cap >> mn;
			if (!(cap < mn)) std::cout << "Stuck\n"; else std::cout << ArraySettings<>::GrowCapacity(cap, mn, ArrayGrowCause::add, false) << "\n"; }
		else if (k == "ms") { unsigned long long p, c; is >> p >> c; std::cout << (unsigned)AB7::pvMakeState(p, c) << " " << (unsigned)AB2::pvMakeState(p, c) << "\n"; }
		else if (k == "gp") { unsigned st; is >> st; unsigned char byte = (unsigned char)st; AB7 b; b.mPtr = &byte;
			size_t idx = b.pvGetMemPoolIndex(); std::cout << idx << " ";
			if (idx > 0) std::cout << b.pvGetFastCount() << "\n"; else std::cout << "Stuck\n";
			b.mPtr = nullptr; }
		else if (k == "fi") { unsigned which; unsigned long long n; is >> which >> n; size_t M = which == 7 ? 7 : 2;
			if (!(0 < n && n <= M)) std::cout << "Stuck\n"; else std::cout << (which == 7 ? AB7::pvGetFastMemPoolIndex(n) : AB2::pvGetFastMemPoolIndex(n)) << "\n"; }
		else if (k == "hm") std::cout << run_hm<momo::HashMultiMap<int, int64_t>>(is) << "\n";
		else if (k == "hx") std::cout << run_hm<momo::HashMultiMap<int, int64_t, momo::HashTraits<int>, momo::MemManagerDefault,
			momo::HashMultiMapKeyValueTraits<int, int64_t, momo::MemManagerDefault>, HxSettings>>(is) << "\n";
		else if (k == "pm") std::cout << run_pm(is) << "\n";
		else if (k == "ab2") { size_t M; is >> M;
			std::cout << (M == 1 ? run_ab2<1>(is) : M == 2 ? run_ab2<2>(is) : M == 7 ? run_ab2<7>(is) : M == 15 ? run_ab2<15>(is) : std::string("?M")) << "\n"; }
		else std::cout << "?\n";
	}
}
