(* Property C16 -- theorems only.  Each is closed by `exact <lemma>` and followed by Print Assumptions.
   Gen_Log2_64 / Gen_Log2_32 / Gen_SegSqrt / Gen_SegCnst are regenerated from /repo's headers on every run
   (Utility.h UIntMath::Log2/pvLog2, SegmentedArray.h SegmentedArraySettings<sqrt|cnst, L>); L = logInitialItemCount
   is a Section variable of the generated files, so every theorem holds for every L. *)
From Coq Require Import ZArith List.
From MomoCommon Require Import GenPrelude.
From C16 Require Gen_Log2_64 Gen_Log2_32 Gen_SegSqrt Gen_SegCnst Fast Log2_Proofs SegMath SegSqrt_Proofs SegCnst_Proofs
  SegModel SegModel_Inst Gen_ArrSqrt Gen_ArrCnst Gen_ArrLog Gen_ShiftSqrt Gen_ShiftCnst Gen_ShiftXSqrt Gen_ShiftXCnst ShiftX_Proofs Gen_SegFacts Shift_Proofs Arr_Proofs Arr_Inst.
From Coq Require String.
Import String.StringSyntax ListNotations.
Delimit Scope string_scope with string.
Local Open Scope Z_scope.

(* UIntMath<size_t>::Log2 (de Bruijn multiplication + table after the or-shift cascade) is the integer
   logarithm floor(log2 v) for EVERY non-zero 64-bit value. *)
Theorem C16_log2_correct : forall v, 0 < v < 2 ^ 64 -> Gen_Log2_64.Log2 v = Z.log2 v.
Proof. exact Log2_Proofs.log2_64_correct. Qed.
Print Assumptions C16_log2_correct.

(* the same for UIntMath<uint32_t>::Log2 (the 32-bit variant without top-bit isolation) *)
Theorem C16_log2_32_correct : forall v, 0 < v < 2 ^ 32 -> Gen_Log2_32.Log2 v = Z.log2 v.
Proof. exact Log2_Proofs.log2_32_correct. Qed.
Print Assumptions C16_log2_32_correct.

(* sqrt sizing, every L in 0..63, every index below 2^64 - 2^L (the only wrap in the code is index1 = (index>>L)+1):
   GetIndex(GetSegItemIndexes(i)) = i, so operator[] / capacity / shrinking agree on which element index i is. *)
Theorem C16_sqrt_seg_roundtrip : forall L i, 0 <= L < 64 -> 0 <= i < 2 ^ 64 - 2 ^ L ->
  Gen_SegSqrt.GetIndex L (fst (Gen_SegSqrt.GetSegItemIndexes L i)) (snd (Gen_SegSqrt.GetSegItemIndexes L i)) = i.
Proof. exact SegSqrt_Proofs.seg_roundtrip. Qed.
Print Assumptions C16_sqrt_seg_roundtrip.

(* the offset is inside the segment's allocation: itemIndex < GetItemCount(segIndex), and GetItemCount is a genuine
   power of two (its shift count is < 64, nothing wraps) *)
Theorem C16_sqrt_item_lt_count : forall L i, 0 <= L < 64 -> 0 <= i < 2 ^ 64 - 2 ^ L ->
  let s := fst (Gen_SegSqrt.GetSegItemIndexes L i) in let j := snd (Gen_SegSqrt.GetSegItemIndexes L i) in
  0 <= s /\ 0 <= j < Gen_SegSqrt.GetItemCount L s /\
  Gen_SegSqrt.GetItemCount L s = 2 ^ (SegMath.slog s + L) /\ SegMath.slog s + L < 64.
Proof. exact SegSqrt_Proofs.item_lt_count. Qed.
Print Assumptions C16_sqrt_item_lt_count.

(* index+1 is the next offset of the same segment, or offset 0 of the NEXT segment exactly when the segment is
   full: segments are enumerated in order and each is filled completely before the next one is started *)
Theorem C16_sqrt_seg_contiguous : forall L i, 0 <= L < 64 -> 0 <= i -> i + 1 < 2 ^ 64 - 2 ^ L ->
  let s := fst (Gen_SegSqrt.GetSegItemIndexes L i) in let j := snd (Gen_SegSqrt.GetSegItemIndexes L i) in
  Gen_SegSqrt.GetSegItemIndexes L (i + 1) =
    if Z.ltb (j + 1) (Gen_SegSqrt.GetItemCount L s) then (s, j + 1) else (s + 1, 0).
Proof. exact SegSqrt_Proofs.seg_contiguous. Qed.
Print Assumptions C16_sqrt_seg_contiguous.

(* index 0 is slot (0,0); GetCapacity() of an array without segments is 0 *)
Theorem C16_sqrt_seg_first : forall L, 0 <= L < 64 ->
  Gen_SegSqrt.GetSegItemIndexes L 0 = (0, 0) /\ Gen_SegSqrt.GetIndex L 0 0 = 0.
Proof. exact SegSqrt_Proofs.seg_first. Qed.
Print Assumptions C16_sqrt_seg_first.

(* surjectivity: every slot (s, j), j < 2^(slog s + L) (= the exact segment size SegMath.cnt_of), whose exact (unbounded) index SegMath.idx_of fits
   below 2^64 - 2^L: GetItemCount does not wrap, GetIndex computes the exact index without wrap, and it is mapped back to (s, j): with the round
   trip above the index <-> (segment, offset) mapping is a bijection.  (final round: the former premises 2s+4 < 2^64 and slog s + L < 64 are
   discharged from the fit of the index) *)
Theorem C16_sqrt_seg_roundtrip_rev : forall L s j, 0 <= L < 64 -> 0 <= s -> 0 <= j < SegMath.cnt_of L s ->
  SegMath.idx_of L s j < 2 ^ 64 - 2 ^ L ->
  Gen_SegSqrt.GetItemCount L s = SegMath.cnt_of L s /\ Gen_SegSqrt.GetIndex L s j = SegMath.idx_of L s j /\
  Gen_SegSqrt.GetSegItemIndexes L (Gen_SegSqrt.GetIndex L s j) = (s, j).
Proof. exact SegSqrt_Proofs.seg_roundtrip_rev_strong. Qed.
Print Assumptions C16_sqrt_seg_roundtrip_rev.

(* GetCapacity() = GetIndex(segCount, 0) is the prefix sum of the segment sizes: one more segment adds exactly
   GetItemCount(segCount) slots *)
Theorem C16_sqrt_capacity_is_prefix_sum : forall L s, 0 <= L < 64 -> 0 <= s -> SegMath.idx_of L (s + 1) 0 < 2 ^ 64 - 2 ^ L ->
  Gen_SegSqrt.GetIndex L (s + 1) 0 = Gen_SegSqrt.GetIndex L s 0 + Gen_SegSqrt.GetItemCount L s.
Proof. exact SegSqrt_Proofs.capacity_step. Qed.
Print Assumptions C16_sqrt_capacity_is_prefix_sum.

(* order preserving *)
Theorem C16_sqrt_seg_monotone : forall L i i', 0 <= L < 64 -> 0 <= i < i' -> i' < 2 ^ 64 - 2 ^ L ->
  let s := fst (Gen_SegSqrt.GetSegItemIndexes L i) in let j := snd (Gen_SegSqrt.GetSegItemIndexes L i) in
  let s' := fst (Gen_SegSqrt.GetSegItemIndexes L i') in let j' := snd (Gen_SegSqrt.GetSegItemIndexes L i') in
  s < s' \/ (s = s' /\ j < j').
Proof. exact SegSqrt_Proofs.seg_monotone. Qed.
Print Assumptions C16_sqrt_seg_monotone.

(* cnst sizing, every L in 0..63, EVERY size_t index *)
Theorem C16_cnst_seg_roundtrip : forall L i, 0 <= L < 64 -> 0 <= i < 2 ^ 64 ->
  Gen_SegCnst.GetIndex L (fst (Gen_SegCnst.GetSegItemIndexes L i)) (snd (Gen_SegCnst.GetSegItemIndexes L i)) = i.
Proof. exact SegCnst_Proofs.seg_roundtrip. Qed.
Print Assumptions C16_cnst_seg_roundtrip.

Theorem C16_cnst_item_lt_count : forall L i, 0 <= L < 64 -> 0 <= i ->
  0 <= fst (Gen_SegCnst.GetSegItemIndexes L i) /\
  0 <= snd (Gen_SegCnst.GetSegItemIndexes L i) < Gen_SegCnst.GetItemCount L /\ Gen_SegCnst.GetItemCount L = 2 ^ L.
Proof. exact SegCnst_Proofs.item_lt_count. Qed.
Print Assumptions C16_cnst_item_lt_count.

Theorem C16_cnst_seg_contiguous : forall L i, 0 <= L < 64 -> 0 <= i ->
  let s := fst (Gen_SegCnst.GetSegItemIndexes L i) in let j := snd (Gen_SegCnst.GetSegItemIndexes L i) in
  Gen_SegCnst.GetSegItemIndexes L (i + 1) = if Z.ltb (j + 1) (Gen_SegCnst.GetItemCount L) then (s, j + 1) else (s + 1, 0).
Proof. exact SegCnst_Proofs.seg_contiguous. Qed.
Print Assumptions C16_cnst_seg_contiguous.

Theorem C16_cnst_seg_roundtrip_rev : forall L s j, 0 <= L < 64 -> 0 <= s -> 0 <= j < Gen_SegCnst.GetItemCount L ->
  s * 2 ^ L + j < 2 ^ 64 -> Gen_SegCnst.GetSegItemIndexes L (Gen_SegCnst.GetIndex L s j) = (s, j).
Proof. exact SegCnst_Proofs.seg_roundtrip_rev. Qed.
Print Assumptions C16_cnst_seg_roundtrip_rev.

Theorem C16_cnst_capacity_is_prefix_sum : forall L s, 0 <= L < 64 -> 0 <= s -> (s + 1) * 2 ^ L < 2 ^ 64 ->
  Gen_SegCnst.GetIndex L 0 0 = 0 /\
  Gen_SegCnst.GetIndex L (s + 1) 0 = Gen_SegCnst.GetIndex L s 0 + Gen_SegCnst.GetItemCount L.
Proof. exact SegCnst_Proofs.capacity_step. Qed.
Print Assumptions C16_cnst_capacity_is_prefix_sum.

(* ---- L1 model of the container's capacity/count operations (SegModel.v; run against the real container on every
   check), instantiated with the regenerated sizing functions; every L <= 62, all counts/capacities below 2^62 ---- *)

(* sqrt: any operation other than Clear(shrink=true) on any state satisfying the invariant keeps the invariant and
   leaves the address (segment allocation id, offset) of every element that exists before and after unchanged:
   AddBack / Reserve / SetCount upward only APPEND whole segments, Shrink / SetCount downward only REMOVE whole
   trailing segments that hold no remaining element *)
Theorem C16_sqrt_grow_keeps_addresses : forall L, 0 <= L <= 62 -> forall st o st',
  SegModel.inv (Gen_SegSqrt.GetSegItemIndexes L) SegModel_Inst.maxi (SegModel_Inst.SCq L) st ->
  SegModel.op_ok SegModel_Inst.maxi st o ->
  SegModel.step (Gen_SegSqrt.GetSegItemIndexes L) (Gen_SegSqrt.GetIndex L) st o = Some st' ->
  o <> SegModel.Clear true ->
  SegModel.inv (Gen_SegSqrt.GetSegItemIndexes L) SegModel_Inst.maxi (SegModel_Inst.SCq L) st' /\
  (forall i, 0 <= i < SegModel.count st -> i < SegModel.count st' ->
     SegModel.addr (Gen_SegSqrt.GetSegItemIndexes L) st' i = SegModel.addr (Gen_SegSqrt.GetSegItemIndexes L) st i).
Proof. exact SegModel_Inst.sqrt_grow_keeps_addresses. Qed.
Print Assumptions C16_sqrt_grow_keeps_addresses.

(* the MOMO_ASSERT(itemIndex == 0) of AddBackCrt never fails, and the invariant (every element's segment exists)
   holds in every state reachable from the empty array *)
Theorem C16_sqrt_step_never_asserts : forall L, 0 <= L <= 62 -> forall st o,
  SegModel.inv (Gen_SegSqrt.GetSegItemIndexes L) SegModel_Inst.maxi (SegModel_Inst.SCq L) st ->
  SegModel.op_ok SegModel_Inst.maxi st o ->
  exists st', SegModel.step (Gen_SegSqrt.GetSegItemIndexes L) (Gen_SegSqrt.GetIndex L) st o = Some st' /\
              SegModel.inv (Gen_SegSqrt.GetSegItemIndexes L) SegModel_Inst.maxi (SegModel_Inst.SCq L) st'.
Proof. exact SegModel_Inst.sqrt_step_never_asserts. Qed.
Print Assumptions C16_sqrt_step_never_asserts.

Theorem C16_sqrt_reachable_inv : forall L, 0 <= L <= 62 -> forall st,
  SegModel.reachable (Gen_SegSqrt.GetSegItemIndexes L) (Gen_SegSqrt.GetIndex L) SegModel_Inst.maxi st ->
  SegModel.inv (Gen_SegSqrt.GetSegItemIndexes L) SegModel_Inst.maxi (SegModel_Inst.SCq L) st.
Proof. exact SegModel_Inst.sqrt_reachable_inv. Qed.
Print Assumptions C16_sqrt_reachable_inv.

Theorem C16_cnst_grow_keeps_addresses : forall L, 0 <= L <= 62 -> forall st o st',
  SegModel.inv (Gen_SegCnst.GetSegItemIndexes L) SegModel_Inst.maxi (SegModel_Inst.SCc L) st ->
  SegModel.op_ok SegModel_Inst.maxi st o ->
  SegModel.step (Gen_SegCnst.GetSegItemIndexes L) (Gen_SegCnst.GetIndex L) st o = Some st' ->
  o <> SegModel.Clear true ->
  SegModel.inv (Gen_SegCnst.GetSegItemIndexes L) SegModel_Inst.maxi (SegModel_Inst.SCc L) st' /\
  (forall i, 0 <= i < SegModel.count st -> i < SegModel.count st' ->
     SegModel.addr (Gen_SegCnst.GetSegItemIndexes L) st' i = SegModel.addr (Gen_SegCnst.GetSegItemIndexes L) st i).
Proof. exact SegModel_Inst.cnst_grow_keeps_addresses. Qed.
Print Assumptions C16_cnst_grow_keeps_addresses.

Theorem C16_cnst_step_never_asserts : forall L, 0 <= L <= 62 -> forall st o,
  SegModel.inv (Gen_SegCnst.GetSegItemIndexes L) SegModel_Inst.maxi (SegModel_Inst.SCc L) st ->
  SegModel.op_ok SegModel_Inst.maxi st o ->
  exists st', SegModel.step (Gen_SegCnst.GetSegItemIndexes L) (Gen_SegCnst.GetIndex L) st o = Some st' /\
              SegModel.inv (Gen_SegCnst.GetSegItemIndexes L) SegModel_Inst.maxi (SegModel_Inst.SCc L) st'.
Proof. exact SegModel_Inst.cnst_step_never_asserts. Qed.
Print Assumptions C16_cnst_step_never_asserts.

Theorem C16_cnst_reachable_inv : forall L, 0 <= L <= 62 -> forall st,
  SegModel.reachable (Gen_SegCnst.GetSegItemIndexes L) (Gen_SegCnst.GetIndex L) SegModel_Inst.maxi st ->
  SegModel.inv (Gen_SegCnst.GetSegItemIndexes L) SegModel_Inst.maxi (SegModel_Inst.SCc L) st.
Proof. exact SegModel_Inst.cnst_reachable_inv. Qed.
Print Assumptions C16_cnst_reachable_inv.

(* ---- round 2 ---- *)

(* the executables that are run against the real C++ (Fast.v: wrapU computed with a literal mask) are, for ALL arguments,
   equal to the regenerated functions: validating them validates the generated Gallina *)
Theorem C16_fast_twins_equal :
  (forall v, Fast.log2_64 v = Gen_Log2_64.Log2 v) /\ (forall v, Fast.log2_32 v = Gen_Log2_32.Log2 v) /\
  (forall L i, Fast.sq_seg L i = Gen_SegSqrt.GetSegItemIndexes L i) /\ (forall L s j, Fast.sq_idx L s j = Gen_SegSqrt.GetIndex L s j) /\
  (forall L s, Fast.sq_cnt L s = Gen_SegSqrt.GetItemCount L s) /\
  (forall L i, Fast.cn_seg L i = Gen_SegCnst.GetSegItemIndexes L i) /\ (forall L s j, Fast.cn_idx L s j = Gen_SegCnst.GetIndex L s j) /\
  (forall L, Fast.cn_cnt L = Gen_SegCnst.GetItemCount L).
Proof. exact Fast.twins_equal. Qed.
Print Assumptions C16_fast_twins_equal.

(* the exact boundary of the sqrt claims.  Round trip: EVERY size_t index except (L = 0, index = SIZE_MAX), i.e. the
   top 2^L indexes are fine for L >= 1 *)
Theorem C16_sqrt_seg_roundtrip_full : forall L i, 0 <= L < 64 -> (0 <= i < 2 ^ 64 /\ (L = 0 -> i < 2 ^ 64 - 1)) ->
  Gen_SegSqrt.GetIndex L (fst (Gen_SegSqrt.GetSegItemIndexes L i)) (snd (Gen_SegSqrt.GetSegItemIndexes L i)) = i.
Proof. exact SegSqrt_Proofs.seg_roundtrip_all. Qed.
Print Assumptions C16_sqrt_seg_roundtrip_full.

(* offset bound / true power of two: additionally not (L = 63 and index >= 2^63) *)
Theorem C16_sqrt_item_lt_count_full : forall L i, 0 <= L < 64 -> (0 <= i < 2 ^ 64 /\ (L = 0 -> i < 2 ^ 64 - 1)) ->
  (L <= 62 \/ i < 2 ^ 63) ->
  let s := fst (Gen_SegSqrt.GetSegItemIndexes L i) in let j := snd (Gen_SegSqrt.GetSegItemIndexes L i) in
  0 <= s /\ 0 <= j < Gen_SegSqrt.GetItemCount L s /\
  Gen_SegSqrt.GetItemCount L s = 2 ^ (SegMath.slog s + L) /\ SegMath.slog s + L < 64.
Proof. exact SegSqrt_Proofs.item_lt_count_all. Qed.
Print Assumptions C16_sqrt_item_lt_count_full.

Theorem C16_sqrt_seg_contiguous_full : forall L i, 0 <= L < 64 -> 0 <= i ->
  (0 <= i + 1 < 2 ^ 64 /\ (L = 0 -> i + 1 < 2 ^ 64 - 1)) -> (L <= 62 \/ i < 2 ^ 63) ->
  let s := fst (Gen_SegSqrt.GetSegItemIndexes L i) in let j := snd (Gen_SegSqrt.GetSegItemIndexes L i) in
  Gen_SegSqrt.GetSegItemIndexes L (i + 1) =
    if Z.ltb (j + 1) (Gen_SegSqrt.GetItemCount L s) then (s, j + 1) else (s + 1, 0).
Proof. exact SegSqrt_Proofs.seg_contiguous_all. Qed.
Print Assumptions C16_sqrt_seg_contiguous_full.

(* what the code does at the excluded argument: for L = 0, index = SIZE_MAX the addition index1 = (index >> 0) + 1 wraps to 0,
   Log2(0) reads tab64[0] = 63, and the result is the slot of index 2^62 - 1: the mapping stops being injective exactly here *)
Theorem C16_sqrt_top_L0_aliases :
  Gen_SegSqrt.GetSegItemIndexes 0 (2 ^ 64 - 1) = (2 ^ 32 - 2, 0) /\
  Gen_SegSqrt.GetSegItemIndexes 0 (2 ^ 62 - 1) = (2 ^ 32 - 2, 0) /\ Gen_SegSqrt.GetIndex 0 (2 ^ 32 - 2) 0 = 2 ^ 62 - 1.
Proof. exact SegSqrt_Proofs.top_L0_aliases. Qed.
Print Assumptions C16_sqrt_top_L0_aliases.

(* L = 63: indexes >= 2^63 are in segment 1 whose size would be 2^64; GetItemCount(1) shifts by 64 (undefined in C++;
   the generated model wraps to 0) *)
Theorem C16_sqrt_top_L63_shift_64 :
  Gen_SegSqrt.GetSegItemIndexes 63 (2 ^ 63) = (1, 0) /\ Gen_SegSqrt.pvSegIndexToLogItemCount 1 + 63 = 64 /\
  Gen_SegSqrt.GetItemCount 63 1 = 0.
Proof. exact SegSqrt_Proofs.top_L63_shift_64. Qed.
Print Assumptions C16_sqrt_top_L63_shift_64.

(* ---- two arrays (SegModel.world): whole-array move / swap / copy ---- *)

(* B = std::move(A) (and move construction): B's element i is at the address A's element i had; A is left without segments *)
Theorem C16_move_steals : forall seg idx w w', SegModel.wstep seg idx w SegModel.MoveAB = Some w' ->
  (forall i, SegModel.addr seg (SegModel.stB w') i = SegModel.addr seg (SegModel.stA w) i) /\
  SegModel.cb w' = SegModel.ca w /\ SegModel.ca w' = 0 /\ SegModel.sa w' = nil.
Proof. exact SegModel.move_steals. Qed.
Print Assumptions C16_move_steals.

Theorem C16_swap_exchanges : forall seg idx w w', SegModel.wstep seg idx w SegModel.SwapAB = Some w' ->
  (forall i, SegModel.addr seg (SegModel.stB w') i = SegModel.addr seg (SegModel.stA w) i) /\
  (forall i, SegModel.addr seg (SegModel.stA w') i = SegModel.addr seg (SegModel.stB w) i) /\
  SegModel.cb w' = SegModel.ca w /\ SegModel.ca w' = SegModel.cb w.
Proof. exact SegModel.swap_exchanges. Qed.
Print Assumptions C16_swap_exchanges.

(* a copy (copy constructor / copy assignment, shrink or not) has the same count, leaves the source alone and consists only
   of fresh segments: no address of the copy is an address of the source or of the overwritten array *)
Theorem C16_sqrt_copy_is_fresh : forall L, 0 <= L <= 62 -> forall w sh w',
  SegModel.winv (Gen_SegSqrt.GetSegItemIndexes L) SegModel_Inst.maxi (SegModel_Inst.SCq L) w ->
  SegModel.wop_ok (Gen_SegSqrt.GetIndex L) SegModel_Inst.maxi w (SegModel.CopyAB sh) ->
  SegModel.wstep (Gen_SegSqrt.GetSegItemIndexes L) (Gen_SegSqrt.GetIndex L) w (SegModel.CopyAB sh) = Some w' ->
  SegModel.cb w' = SegModel.ca w /\ SegModel.ca w' = SegModel.ca w /\ SegModel.sa w' = SegModel.sa w /\
  (forall id, In id (SegModel.sb w') -> ~ In id (SegModel.sa w) /\ ~ In id (SegModel.sb w)).
Proof. exact SegModel_Inst.sqrt_copy_is_fresh. Qed.
Print Assumptions C16_sqrt_copy_is_fresh.

Theorem C16_cnst_copy_is_fresh : forall L, 0 <= L <= 62 -> forall w sh w',
  SegModel.winv (Gen_SegCnst.GetSegItemIndexes L) SegModel_Inst.maxi (SegModel_Inst.SCc L) w ->
  SegModel.wop_ok (Gen_SegCnst.GetIndex L) SegModel_Inst.maxi w (SegModel.CopyAB sh) ->
  SegModel.wstep (Gen_SegCnst.GetSegItemIndexes L) (Gen_SegCnst.GetIndex L) w (SegModel.CopyAB sh) = Some w' ->
  SegModel.cb w' = SegModel.ca w /\ SegModel.ca w' = SegModel.ca w /\ SegModel.sa w' = SegModel.sa w /\
  (forall id, In id (SegModel.sb w') -> ~ In id (SegModel.sa w) /\ ~ In id (SegModel.sb w)).
Proof. exact SegModel_Inst.cnst_copy_is_fresh. Qed.
Print Assumptions C16_cnst_copy_is_fresh.

(* every world operation (ops on either array, move, swap, copy) keeps both invariants and "every segment id is below
   the id counter"; hence all of the above applies in every reachable two-array state *)
Theorem C16_sqrt_wreachable_inv : forall L, 0 <= L <= 62 -> forall w,
  SegModel.wreachable (Gen_SegSqrt.GetSegItemIndexes L) (Gen_SegSqrt.GetIndex L) SegModel_Inst.maxi w ->
  SegModel.winv (Gen_SegSqrt.GetSegItemIndexes L) SegModel_Inst.maxi (SegModel_Inst.SCq L) w.
Proof. exact SegModel_Inst.sqrt_wreachable_inv. Qed.
Print Assumptions C16_sqrt_wreachable_inv.

Theorem C16_cnst_wreachable_inv : forall L, 0 <= L <= 62 -> forall w,
  SegModel.wreachable (Gen_SegCnst.GetSegItemIndexes L) (Gen_SegCnst.GetIndex L) SegModel_Inst.maxi w ->
  SegModel.winv (Gen_SegCnst.GetSegItemIndexes L) SegModel_Inst.maxi (SegModel_Inst.SCc L) w.
Proof. exact SegModel_Inst.cnst_wreachable_inv. Qed.
Print Assumptions C16_cnst_wreachable_inv.

(* ---- round 4: the container's OWN functions, regenerated by cxx2coq from SegmentedArray.h (Gen_ArrSqrt / Gen_ArrCnst).
   State: mSegments as (index -> segment pointer) and its GetCount() as mSegments_n, mCount; `alloc` = the allocator's answers. ---- *)

(* the sqrt and the cnst instantiation of SegmentedArray translate to literally the same Gallina (sizing functions are parameters) *)
Theorem C16_arr_same_code :
  Gen_ArrSqrt.GetCapacity = Gen_ArrCnst.GetCapacity /\ Gen_ArrSqrt.pvIncCapacity = Gen_ArrCnst.pvIncCapacity /\
  Gen_ArrSqrt.pvDecCapacity = Gen_ArrCnst.pvDecCapacity /\ Gen_ArrSqrt.Reserve = Gen_ArrCnst.Reserve /\
  Gen_ArrSqrt.ShrinkTo = Gen_ArrCnst.ShrinkTo /\ Gen_ArrSqrt.ShrinkFit = Gen_ArrCnst.ShrinkFit /\
  Gen_ArrSqrt.AddBackCrt = Gen_ArrCnst.AddBackCrt /\ Gen_ArrSqrt.Clear = Gen_ArrCnst.Clear /\
  Gen_ArrSqrt.pvDecCount = Gen_ArrCnst.pvDecCount /\ Gen_ArrSqrt.pvIncCount = Gen_ArrCnst.pvIncCount /\
  Gen_ArrSqrt.SetCountCrt = Gen_ArrCnst.SetCountCrt /\ Gen_ArrSqrt.RemoveBack = Gen_ArrCnst.RemoveBack /\
  Gen_ArrSqrt.AddBackNogrowCrt = Gen_ArrCnst.AddBackNogrowCrt /\ Gen_ArrSqrt.pvGetItem = Gen_ArrCnst.pvGetItem.
Proof. exact Arr_Proofs.same_code. Qed.
Print Assumptions C16_arr_same_code.

(* FRAME, for arbitrary sizing functions: pvIncCapacity terminates without a failed assertion, appends alloc(n), alloc(n+1), ... up to
   the target segment count and never writes a table entry below the old segment count *)
Theorem C16_arr_pvIncCapacity_frame : forall seg alloc segs n c init cap,
  0 <= n < 2 ^ 63 -> init <= cap -> 0 <= fst (seg cap) < 2 ^ 63 ->
  exists segs', Gen_ArrSqrt.pvIncCapacity seg alloc segs n c init cap = Ok (tt, segs', Z.max n (Arr_Proofs.target seg cap)) /\
    (forall i, i < n -> segs' i = segs i) /\ (forall i, n <= i < Arr_Proofs.target seg cap -> segs' i = alloc i).
Proof. exact Arr_Proofs.pvIncCapacity_spec. Qed.
Print Assumptions C16_arr_pvIncCapacity_frame.

(* pvDecCapacity keeps exactly target(capacity) segments (whole segments only) and returns no table: nothing is written *)
Theorem C16_arr_pvDecCapacity_spec : forall seg idx segs n c cap,
  0 <= n < 2 ^ 63 -> cap <= idx n 0 -> 0 <= fst (seg cap) < 2 ^ 63 -> Arr_Proofs.target seg cap <= n ->
  Gen_ArrSqrt.pvDecCapacity seg idx segs n c cap = Ok (tt, Arr_Proofs.target seg cap).
Proof. exact Arr_Proofs.pvDecCapacity_spec. Qed.
Print Assumptions C16_arr_pvDecCapacity_spec.

(* AddBackCrt: existing slot -> only mCount changes; otherwise (itemIndex must be 0, else the MOMO_ASSERT fails = Stuck) one segment
   alloc(n) is stored at position n; no entry below n is written *)
Theorem C16_arr_AddBackCrt_spec : forall seg alloc segs n c, 0 <= n < 2 ^ 63 -> 0 <= c < 2 ^ 63 ->
  (fst (seg c) < n -> Gen_ArrSqrt.AddBackCrt seg alloc segs n c = Ok (tt, segs, n, c + 1)) /\
  (n <= fst (seg c) -> snd (seg c) = 0 -> Gen_ArrSqrt.AddBackCrt seg alloc segs n c = Ok (tt, upd segs n (alloc n), n + 1, c + 1)) /\
  (n <= fst (seg c) -> snd (seg c) <> 0 -> Gen_ArrSqrt.AddBackCrt seg alloc segs n c = Stuck).
Proof. exact Arr_Proofs.AddBackCrt_spec. Qed.
Print Assumptions C16_arr_AddBackCrt_spec.

(* with the regenerated sqrt sizing functions (every L <= 62, sizes < 2^62), on every state satisfying the invariant
   "every element's segment exists" (ginv): the REAL Reserve / Shrink(capacity) / AddBackCrt never fail an assertion or run out of
   fuel, never write an existing table entry (address stability), produce the hand model's segment count, and keep the invariant *)
Theorem C16_sqrt_arr_Reserve : forall L, 0 <= L <= 62 -> forall alloc segs n c cap,
  Arr_Proofs.ginv (Gen_SegSqrt.GetSegItemIndexes L) SegModel_Inst.maxi (SegModel_Inst.SCq L) n c -> 0 <= cap < SegModel_Inst.maxi ->
  exists segs' n', Gen_ArrSqrt.Reserve (Gen_SegSqrt.GetSegItemIndexes L) (Gen_SegSqrt.GetIndex L) alloc segs n c cap = Ok (tt, segs', n') /\
    (forall i, i < n -> segs' i = segs i) /\ n <= n' /\
    n' = SegModel.len (SegModel.reserve (Gen_SegSqrt.GetSegItemIndexes L) (Gen_SegSqrt.GetIndex L) (Arr_Proofs.mst n c) cap) /\
    Arr_Proofs.ginv (Gen_SegSqrt.GetSegItemIndexes L) SegModel_Inst.maxi (SegModel_Inst.SCq L) n' c.
Proof. exact Arr_Inst.sqrt_Reserve_refines. Qed.
Print Assumptions C16_sqrt_arr_Reserve.

Theorem C16_sqrt_arr_Shrink : forall L, 0 <= L <= 62 -> forall segs n c cap,
  Arr_Proofs.ginv (Gen_SegSqrt.GetSegItemIndexes L) SegModel_Inst.maxi (SegModel_Inst.SCq L) n c -> 0 <= cap < SegModel_Inst.maxi ->
  exists n', Gen_ArrSqrt.ShrinkTo (Gen_SegSqrt.GetSegItemIndexes L) (Gen_SegSqrt.GetIndex L) segs n c cap = Ok (tt, n') /\ n' <= n /\
    (exists st', SegModel.step (Gen_SegSqrt.GetSegItemIndexes L) (Gen_SegSqrt.GetIndex L) (Arr_Proofs.mst n c) (SegModel.ShrinkTo cap) = Some st' /\
                 n' = SegModel.len st') /\
    Arr_Proofs.ginv (Gen_SegSqrt.GetSegItemIndexes L) SegModel_Inst.maxi (SegModel_Inst.SCq L) n' c.
Proof. exact Arr_Inst.sqrt_ShrinkTo_refines. Qed.
Print Assumptions C16_sqrt_arr_Shrink.

Theorem C16_sqrt_arr_AddBackCrt : forall L, 0 <= L <= 62 -> forall alloc segs n c,
  Arr_Proofs.ginv (Gen_SegSqrt.GetSegItemIndexes L) SegModel_Inst.maxi (SegModel_Inst.SCq L) n c -> c + 1 < SegModel_Inst.maxi ->
  exists segs' n', Gen_ArrSqrt.AddBackCrt (Gen_SegSqrt.GetSegItemIndexes L) alloc segs n c = Ok (tt, segs', n', c + 1) /\
    (forall i, i < n -> segs' i = segs i) /\ (n' = n \/ (n' = n + 1 /\ segs' n = alloc n)) /\
    Arr_Proofs.ginv (Gen_SegSqrt.GetSegItemIndexes L) SegModel_Inst.maxi (SegModel_Inst.SCq L) n' (c + 1).
Proof. exact Arr_Inst.sqrt_AddBackCrt_refines. Qed.
Print Assumptions C16_sqrt_arr_AddBackCrt.

Theorem C16_sqrt_arr_ginv_empty : forall L, 0 <= L <= 62 ->
  Arr_Proofs.ginv (Gen_SegSqrt.GetSegItemIndexes L) SegModel_Inst.maxi (SegModel_Inst.SCq L) 0 0.
Proof. exact Arr_Inst.sqrt_ginv_empty. Qed.
Print Assumptions C16_sqrt_arr_ginv_empty.

(* the same for cnst sizing (about Gen_ArrCnst, the translation of the cnst instantiation) *)
Theorem C16_cnst_arr_Reserve : forall L, 0 <= L <= 62 -> forall alloc segs n c cap,
  Arr_Proofs.ginv (Gen_SegCnst.GetSegItemIndexes L) SegModel_Inst.maxi (SegModel_Inst.SCc L) n c -> 0 <= cap < SegModel_Inst.maxi ->
  exists segs' n', Gen_ArrCnst.Reserve (Gen_SegCnst.GetSegItemIndexes L) (Gen_SegCnst.GetIndex L) alloc segs n c cap = Ok (tt, segs', n') /\
    (forall i, i < n -> segs' i = segs i) /\ n <= n' /\
    n' = SegModel.len (SegModel.reserve (Gen_SegCnst.GetSegItemIndexes L) (Gen_SegCnst.GetIndex L) (Arr_Proofs.mst n c) cap) /\
    Arr_Proofs.ginv (Gen_SegCnst.GetSegItemIndexes L) SegModel_Inst.maxi (SegModel_Inst.SCc L) n' c.
Proof. exact Arr_Inst.cnst_Reserve_refines. Qed.
Print Assumptions C16_cnst_arr_Reserve.

Theorem C16_cnst_arr_Shrink : forall L, 0 <= L <= 62 -> forall segs n c cap,
  Arr_Proofs.ginv (Gen_SegCnst.GetSegItemIndexes L) SegModel_Inst.maxi (SegModel_Inst.SCc L) n c -> 0 <= cap < SegModel_Inst.maxi ->
  exists n', Gen_ArrCnst.ShrinkTo (Gen_SegCnst.GetSegItemIndexes L) (Gen_SegCnst.GetIndex L) segs n c cap = Ok (tt, n') /\ n' <= n /\
    (exists st', SegModel.step (Gen_SegCnst.GetSegItemIndexes L) (Gen_SegCnst.GetIndex L) (Arr_Proofs.mst n c) (SegModel.ShrinkTo cap) = Some st' /\
                 n' = SegModel.len st') /\
    Arr_Proofs.ginv (Gen_SegCnst.GetSegItemIndexes L) SegModel_Inst.maxi (SegModel_Inst.SCc L) n' c.
Proof. exact Arr_Inst.cnst_ShrinkTo_refines. Qed.
Print Assumptions C16_cnst_arr_Shrink.

Theorem C16_cnst_arr_AddBackCrt : forall L, 0 <= L <= 62 -> forall alloc segs n c,
  Arr_Proofs.ginv (Gen_SegCnst.GetSegItemIndexes L) SegModel_Inst.maxi (SegModel_Inst.SCc L) n c -> c + 1 < SegModel_Inst.maxi ->
  exists segs' n', Gen_ArrCnst.AddBackCrt (Gen_SegCnst.GetSegItemIndexes L) alloc segs n c = Ok (tt, segs', n', c + 1) /\
    (forall i, i < n -> segs' i = segs i) /\ (n' = n \/ (n' = n + 1 /\ segs' n = alloc n)) /\
    Arr_Proofs.ginv (Gen_SegCnst.GetSegItemIndexes L) SegModel_Inst.maxi (SegModel_Inst.SCc L) n' (c + 1).
Proof. exact Arr_Inst.cnst_AddBackCrt_refines. Qed.
Print Assumptions C16_cnst_arr_AddBackCrt.

(* ---- round 5: the remaining regenerated container functions ---- *)

(* sqrt: pvDecCount (the segment-walking destruction loop) terminates, fails no assertion and leaves exactly `count` elements;
   it returns no table: nothing is written, the segments themselves are released only by pvDecCapacity *)
Theorem C16_sqrt_arr_pvDecCount : forall L, 0 <= L <= 62 -> forall segs n c count, 0 <= count <= c -> c < SegModel_Inst.maxi ->
  Gen_ArrSqrt.pvDecCount (Gen_SegSqrt.GetSegItemIndexes L) (Gen_SegSqrt.GetItemCount L) segs n c count = Ok (tt, count).
Proof. exact Arr_Inst.sqrt_pvDecCount_spec. Qed.
Print Assumptions C16_sqrt_arr_pvDecCount.

(* sqrt: RemoveBack(k), k <= count: the MOMO_CHECK holds, count - k elements remain, no table returned *)
Theorem C16_sqrt_arr_RemoveBack : forall L, 0 <= L <= 62 -> forall segs n c k, 0 <= k <= c -> c < SegModel_Inst.maxi ->
  Gen_ArrSqrt.RemoveBack (Gen_SegSqrt.GetSegItemIndexes L) (Gen_SegSqrt.GetItemCount L) segs n c k = Ok (tt, c - k).
Proof. exact Arr_Inst.sqrt_RemoveBack_spec. Qed.
Print Assumptions C16_sqrt_arr_RemoveBack.

(* sqrt: Clear(shrink): count 0; shrink releases every segment (segment count 0), otherwise the table is kept *)
Theorem C16_sqrt_arr_Clear : forall L, 0 <= L <= 62 -> forall segs n c shrink, Arr_Proofs.ginv (Gen_SegSqrt.GetSegItemIndexes L) SegModel_Inst.maxi (SegModel_Inst.SCq L) n c ->
  Gen_ArrSqrt.Clear (Gen_SegSqrt.GetSegItemIndexes L) (Gen_SegSqrt.GetIndex L) (Gen_SegSqrt.GetItemCount L) segs n c shrink = Ok (tt, (if shrink then 0 else n), 0).
Proof. exact Arr_Inst.sqrt_Clear_spec. Qed.
Print Assumptions C16_sqrt_arr_Clear.

(* sqrt: AddBackNogrowCrt with count < capacity: the MOMO_CHECK holds, only mCount changes, invariant kept *)
Theorem C16_sqrt_arr_AddBackNogrowCrt : forall L, 0 <= L <= 62 -> forall segs n c, Arr_Proofs.ginv (Gen_SegSqrt.GetSegItemIndexes L) SegModel_Inst.maxi (SegModel_Inst.SCq L) n c ->
  c + 1 < SegModel_Inst.maxi -> c < Gen_SegSqrt.GetIndex L n 0 ->
  Gen_ArrSqrt.AddBackNogrowCrt (Gen_SegSqrt.GetSegItemIndexes L) segs n c = Ok (tt, c + 1) /\ Arr_Proofs.ginv (Gen_SegSqrt.GetSegItemIndexes L) SegModel_Inst.maxi (SegModel_Inst.SCq L) n (c + 1).
Proof. exact Arr_Inst.sqrt_AddBackNogrowCrt_spec. Qed.
Print Assumptions C16_sqrt_arr_AddBackNogrowCrt.

(* sqrt: operator[] (pvGetItem) on the regenerated code: for index < count the MOMO_CHECK holds and the element's address is
   mSegments[fst (GetSegItemIndexes index)] + snd (GetSegItemIndexes index); that segment is in the table, the offset inside it *)
Theorem C16_sqrt_arr_pvGetItem : forall L, 0 <= L <= 62 -> forall segs n c i, Arr_Proofs.ginv (Gen_SegSqrt.GetSegItemIndexes L) SegModel_Inst.maxi (SegModel_Inst.SCq L) n c -> 0 <= i < c ->
  Gen_ArrSqrt.pvGetItem (Gen_SegSqrt.GetSegItemIndexes L) segs n c i = Ok (segs (fst (Gen_SegSqrt.GetSegItemIndexes L i)) + snd (Gen_SegSqrt.GetSegItemIndexes L i)) /\
  0 <= fst (Gen_SegSqrt.GetSegItemIndexes L i) < n /\
  0 <= snd (Gen_SegSqrt.GetSegItemIndexes L i) < (Gen_SegSqrt.GetItemCount L) (fst (Gen_SegSqrt.GetSegItemIndexes L i)).
Proof. exact Arr_Inst.sqrt_pvGetItem_spec. Qed.
Print Assumptions C16_sqrt_arr_pvGetItem.

(* sqrt: ADDRESS STABILITY on the regenerated code: if an operation leaves the table entries below the old segment count alone (the
   frame condition proved for Reserve, AddBackCrt, pvIncCapacity, SetCountCrt; trivial for the functions returning no table), then
   operator[] of every element that exists before and after returns the same address *)
Theorem C16_sqrt_arr_getitem_stable : forall L, 0 <= L <= 62 -> forall segs n c segs' n' c' i, Arr_Proofs.ginv (Gen_SegSqrt.GetSegItemIndexes L) SegModel_Inst.maxi (SegModel_Inst.SCq L) n c -> Arr_Proofs.ginv (Gen_SegSqrt.GetSegItemIndexes L) SegModel_Inst.maxi (SegModel_Inst.SCq L) n' c' ->
  (forall k, k < n -> segs' k = segs k) -> 0 <= i < c -> i < c' ->
  Gen_ArrSqrt.pvGetItem (Gen_SegSqrt.GetSegItemIndexes L) segs' n' c' i = Gen_ArrSqrt.pvGetItem (Gen_SegSqrt.GetSegItemIndexes L) segs n c i.
Proof. exact Arr_Inst.sqrt_getitem_stable. Qed.
Print Assumptions C16_sqrt_arr_getitem_stable.

(* cnst: pvDecCount (the segment-walking destruction loop) terminates, fails no assertion and leaves exactly `count` elements;
   it returns no table: nothing is written, the segments themselves are released only by pvDecCapacity *)
Theorem C16_cnst_arr_pvDecCount : forall L, 0 <= L <= 62 -> forall segs n c count, 0 <= count <= c -> c < SegModel_Inst.maxi ->
  Gen_ArrCnst.pvDecCount (Gen_SegCnst.GetSegItemIndexes L) (fun _ : Z => Gen_SegCnst.GetItemCount L) segs n c count = Ok (tt, count).
Proof. exact Arr_Inst.cnst_pvDecCount_spec. Qed.
Print Assumptions C16_cnst_arr_pvDecCount.

(* cnst: RemoveBack(k), k <= count: the MOMO_CHECK holds, count - k elements remain, no table returned *)
Theorem C16_cnst_arr_RemoveBack : forall L, 0 <= L <= 62 -> forall segs n c k, 0 <= k <= c -> c < SegModel_Inst.maxi ->
  Gen_ArrCnst.RemoveBack (Gen_SegCnst.GetSegItemIndexes L) (fun _ : Z => Gen_SegCnst.GetItemCount L) segs n c k = Ok (tt, c - k).
Proof. exact Arr_Inst.cnst_RemoveBack_spec. Qed.
Print Assumptions C16_cnst_arr_RemoveBack.

(* cnst: Clear(shrink): count 0; shrink releases every segment (segment count 0), otherwise the table is kept *)
Theorem C16_cnst_arr_Clear : forall L, 0 <= L <= 62 -> forall segs n c shrink, Arr_Proofs.ginv (Gen_SegCnst.GetSegItemIndexes L) SegModel_Inst.maxi (SegModel_Inst.SCc L) n c ->
  Gen_ArrCnst.Clear (Gen_SegCnst.GetSegItemIndexes L) (Gen_SegCnst.GetIndex L) (fun _ : Z => Gen_SegCnst.GetItemCount L) segs n c shrink = Ok (tt, (if shrink then 0 else n), 0).
Proof. exact Arr_Inst.cnst_Clear_spec. Qed.
Print Assumptions C16_cnst_arr_Clear.

(* cnst: AddBackNogrowCrt with count < capacity: the MOMO_CHECK holds, only mCount changes, invariant kept *)
Theorem C16_cnst_arr_AddBackNogrowCrt : forall L, 0 <= L <= 62 -> forall segs n c, Arr_Proofs.ginv (Gen_SegCnst.GetSegItemIndexes L) SegModel_Inst.maxi (SegModel_Inst.SCc L) n c ->
  c + 1 < SegModel_Inst.maxi -> c < Gen_SegCnst.GetIndex L n 0 ->
  Gen_ArrCnst.AddBackNogrowCrt (Gen_SegCnst.GetSegItemIndexes L) segs n c = Ok (tt, c + 1) /\ Arr_Proofs.ginv (Gen_SegCnst.GetSegItemIndexes L) SegModel_Inst.maxi (SegModel_Inst.SCc L) n (c + 1).
Proof. exact Arr_Inst.cnst_AddBackNogrowCrt_spec. Qed.
Print Assumptions C16_cnst_arr_AddBackNogrowCrt.

(* cnst: operator[] (pvGetItem) on the regenerated code: for index < count the MOMO_CHECK holds and the element's address is
   mSegments[fst (GetSegItemIndexes index)] + snd (GetSegItemIndexes index); that segment is in the table, the offset inside it *)
Theorem C16_cnst_arr_pvGetItem : forall L, 0 <= L <= 62 -> forall segs n c i, Arr_Proofs.ginv (Gen_SegCnst.GetSegItemIndexes L) SegModel_Inst.maxi (SegModel_Inst.SCc L) n c -> 0 <= i < c ->
  Gen_ArrCnst.pvGetItem (Gen_SegCnst.GetSegItemIndexes L) segs n c i = Ok (segs (fst (Gen_SegCnst.GetSegItemIndexes L i)) + snd (Gen_SegCnst.GetSegItemIndexes L i)) /\
  0 <= fst (Gen_SegCnst.GetSegItemIndexes L i) < n /\
  0 <= snd (Gen_SegCnst.GetSegItemIndexes L i) < (fun _ : Z => Gen_SegCnst.GetItemCount L) (fst (Gen_SegCnst.GetSegItemIndexes L i)).
Proof. exact Arr_Inst.cnst_pvGetItem_spec. Qed.
Print Assumptions C16_cnst_arr_pvGetItem.

(* cnst: ADDRESS STABILITY on the regenerated code: if an operation leaves the table entries below the old segment count alone (the
   frame condition proved for Reserve, AddBackCrt, pvIncCapacity, SetCountCrt; trivial for the functions returning no table), then
   operator[] of every element that exists before and after returns the same address *)
Theorem C16_cnst_arr_getitem_stable : forall L, 0 <= L <= 62 -> forall segs n c segs' n' c' i, Arr_Proofs.ginv (Gen_SegCnst.GetSegItemIndexes L) SegModel_Inst.maxi (SegModel_Inst.SCc L) n c -> Arr_Proofs.ginv (Gen_SegCnst.GetSegItemIndexes L) SegModel_Inst.maxi (SegModel_Inst.SCc L) n' c' ->
  (forall k, k < n -> segs' k = segs k) -> 0 <= i < c -> i < c' ->
  Gen_ArrCnst.pvGetItem (Gen_SegCnst.GetSegItemIndexes L) segs' n' c' i = Gen_ArrCnst.pvGetItem (Gen_SegCnst.GetSegItemIndexes L) segs n c i.
Proof. exact Arr_Inst.cnst_getitem_stable. Qed.
Print Assumptions C16_cnst_arr_getitem_stable.

(* sqrt: Shrink() = Shrink(mCount): never stuck, only truncation, the model's segment count, invariant kept *)
Theorem C16_sqrt_arr_ShrinkFit : forall L, 0 <= L <= 62 -> forall segs n c,
  Arr_Proofs.ginv (Gen_SegSqrt.GetSegItemIndexes L) SegModel_Inst.maxi (SegModel_Inst.SCq L) n c ->
  exists n', Gen_ArrSqrt.ShrinkFit (Gen_SegSqrt.GetSegItemIndexes L) (Gen_SegSqrt.GetIndex L) segs n c = Ok (tt, n') /\ n' <= n /\
    (exists st', SegModel.step (Gen_SegSqrt.GetSegItemIndexes L) (Gen_SegSqrt.GetIndex L) (Arr_Proofs.mst n c) SegModel.ShrinkFit = Some st' /\ n' = SegModel.len st') /\
    Arr_Proofs.ginv (Gen_SegSqrt.GetSegItemIndexes L) SegModel_Inst.maxi (SegModel_Inst.SCq L) n' c.
Proof. exact Arr_Inst.sqrt_ShrinkFit_refines. Qed.
Print Assumptions C16_sqrt_arr_ShrinkFit.

(* sqrt: SetCountCrt downwards: table untouched, exactly `count` elements *)
Theorem C16_sqrt_arr_SetCountCrt_down : forall L, 0 <= L <= 62 -> forall alloc segs n c count, 0 <= count < c -> c < SegModel_Inst.maxi ->
  Gen_ArrSqrt.SetCountCrt (Gen_SegSqrt.GetSegItemIndexes L) (Gen_SegSqrt.GetIndex L) (Gen_SegSqrt.GetItemCount L) alloc segs n c count = Ok (tt, segs, n, count).
Proof. exact Arr_Inst.sqrt_SetCountCrt_down_spec. Qed.
Print Assumptions C16_sqrt_arr_SetCountCrt_down.

(* sqrt: SetCountCrt, FULL spec (round 6; replaces the partial frame theorem): in every state satisfying the invariant and for every
   count < 2^62 the regenerated SetCountCrt -- incl. pvIncCount's nested construction loops and pvDecCount's destruction loop -- never fails
   an assertion or runs out of fuel, ends with exactly `count` elements, writes no existing table entry, only appends segments when
   growing and leaves the table alone when shrinking, and keeps the invariant *)
Theorem C16_sqrt_arr_SetCountCrt : forall L, 0 <= L <= 62 -> forall alloc segs n c count, Arr_Proofs.ginv (Gen_SegSqrt.GetSegItemIndexes L) SegModel_Inst.maxi (SegModel_Inst.SCq L) n c -> 0 <= count < SegModel_Inst.maxi ->
  exists segs' n', Gen_ArrSqrt.SetCountCrt (Gen_SegSqrt.GetSegItemIndexes L) (Gen_SegSqrt.GetIndex L) (Gen_SegSqrt.GetItemCount L) alloc segs n c count = Ok (tt, segs', n', count) /\
    (forall i, i < n -> segs' i = segs i) /\ n <= n' /\ (count <= c -> segs' = segs /\ n' = n) /\ Arr_Proofs.ginv (Gen_SegSqrt.GetSegItemIndexes L) SegModel_Inst.maxi (SegModel_Inst.SCq L) n' count.
Proof. exact Arr_Inst.sqrt_SetCountCrt_spec. Qed.
Print Assumptions C16_sqrt_arr_SetCountCrt.

(* cnst: SetCountCrt, FULL spec (round 6; replaces the partial frame theorem): in every state satisfying the invariant and for every
   count < 2^62 the regenerated SetCountCrt -- incl. pvIncCount's nested construction loops and pvDecCount's destruction loop -- never fails
   an assertion or runs out of fuel, ends with exactly `count` elements, writes no existing table entry, only appends segments when
   growing and leaves the table alone when shrinking, and keeps the invariant *)
Theorem C16_cnst_arr_SetCountCrt : forall L, 0 <= L <= 62 -> forall alloc segs n c count, Arr_Proofs.ginv (Gen_SegCnst.GetSegItemIndexes L) SegModel_Inst.maxi (SegModel_Inst.SCc L) n c -> 0 <= count < SegModel_Inst.maxi ->
  exists segs' n', Gen_ArrCnst.SetCountCrt (Gen_SegCnst.GetSegItemIndexes L) (Gen_SegCnst.GetIndex L) (fun _ : Z => Gen_SegCnst.GetItemCount L) alloc segs n c count = Ok (tt, segs', n', count) /\
    (forall i, i < n -> segs' i = segs i) /\ n <= n' /\ (count <= c -> segs' = segs /\ n' = n) /\ Arr_Proofs.ginv (Gen_SegCnst.GetSegItemIndexes L) SegModel_Inst.maxi (SegModel_Inst.SCc L) n' count.
Proof. exact Arr_Inst.cnst_SetCountCrt_spec. Qed.
Print Assumptions C16_cnst_arr_SetCountCrt.


(* the three MOMO_CHECKs of the regenerated code fail (assertion mode) exactly outside their domain *)
Theorem C16_arr_checks_stuck : forall seg cnt segs n c x,
  (n <= fst (seg c) -> Gen_ArrSqrt.AddBackNogrowCrt seg segs n c = Stuck) /\
  (c <= x -> Gen_ArrSqrt.pvGetItem seg segs n c x = Stuck) /\
  (c < x -> Gen_ArrSqrt.RemoveBack seg cnt segs n c x = Stuck).
Proof. exact Arr_Proofs.checks_stuck. Qed.
Print Assumptions C16_arr_checks_stuck.

(* sqrt: WHICH slots pvDecCount destroys.  Gen_ArrLog.pvDecCount is pvDecCount translated with a ghost log of the
   ItemTraits::Destroy(memManager, pointer, n) calls: (pointer, n) is appended per call.  The m logged runs are, in call order,
   (mSegments[s] + j0, r) with [j0, j0 + r) inside segment s, and their index ranges [GetIndex(s,0) + j0, … + r) tile exactly
   [count, oldCount) from the top downwards (Arr_Proofs.tiles): nothing below `count` and nothing outside the array is destroyed *)
Theorem C16_sqrt_arr_pvDecCount_destroys : forall L, 0 <= L <= 62 -> forall segs n c glog gn count, 0 <= count <= c -> c < SegModel_Inst.maxi ->
  exists glog' m, Gen_ArrLog.pvDecCount (Gen_SegSqrt.GetSegItemIndexes L) (Gen_SegSqrt.GetItemCount L) segs n c glog gn count = Ok (tt, count, glog', gn + 2 * Z.of_nat m) /\
    (forall i, i < gn -> glog' i = glog i) /\
    Arr_Proofs.tiles (Gen_SegSqrt.GetIndex L) (Gen_SegSqrt.GetItemCount L) (SegModel_Inst.SCq L) glog' segs m gn c count.
Proof. exact Arr_Inst.sqrt_pvDecCount_log. Qed.
Print Assumptions C16_sqrt_arr_pvDecCount_destroys.

(* cnst: WHICH slots pvDecCount destroys.  Gen_ArrLog.pvDecCount is pvDecCount translated with a ghost log of the
   ItemTraits::Destroy(memManager, pointer, n) calls: (pointer, n) is appended per call.  The m logged runs are, in call order,
   (mSegments[s] + j0, r) with [j0, j0 + r) inside segment s, and their index ranges [GetIndex(s,0) + j0, … + r) tile exactly
   [count, oldCount) from the top downwards (Arr_Proofs.tiles): nothing below `count` and nothing outside the array is destroyed *)
Theorem C16_cnst_arr_pvDecCount_destroys : forall L, 0 <= L <= 62 -> forall segs n c glog gn count, 0 <= count <= c -> c < SegModel_Inst.maxi ->
  exists glog' m, Gen_ArrLog.pvDecCount (Gen_SegCnst.GetSegItemIndexes L) (fun _ : Z => Gen_SegCnst.GetItemCount L) segs n c glog gn count = Ok (tt, count, glog', gn + 2 * Z.of_nat m) /\
    (forall i, i < gn -> glog' i = glog i) /\
    Arr_Proofs.tiles (Gen_SegCnst.GetIndex L) (fun _ : Z => Gen_SegCnst.GetItemCount L) (SegModel_Inst.SCc L) glog' segs m gn c count.
Proof. exact Arr_Inst.cnst_pvDecCount_log. Qed.
Print Assumptions C16_cnst_arr_pvDecCount_destroys.

(* ---- round 7: Insert / Remove in the middle: ArrayShifter regenerated for the SegmentedArray instantiations ---- *)

(* the two instantiations ArrayShifter<SegmentedArray<.., sqrt>> / <.., cnst> translate to the same Gallina *)
Theorem C16_shift_same_code : Gen_ShiftSqrt.ShiftRemove = Gen_ShiftCnst.ShiftRemove /\ Gen_ShiftSqrt.ShiftInsert = Gen_ShiftCnst.ShiftInsert.
Proof. exact Shift_Proofs.same_code. Qed.
Print Assumptions C16_shift_same_code.

(* sqrt: Insert(index, count, item) in the middle = Reserve(mCount + count) followed by the regenerated
   ArrayShifter<SegmentedArray>::InsertNogrow (Gen_ShiftSqrt.ShiftInsert; cells = values by index, it = the cell holding the item): never stuck;
   the segment table is only extended; EVERY old slot keeps its address (operator[] i, i < old count, returns the same address
   afterwards), the elements in front of the insertion point also keep their value, the inserted cells hold the item, the old tail
   sits `count` slots higher; invariant kept *)
Theorem C16_sqrt_arr_Insert_stable : forall L, 0 <= L <= 62 -> forall alloc segs n c (items : Z -> Z) index count it,
  Arr_Proofs.ginv (Gen_SegSqrt.GetSegItemIndexes L) SegModel_Inst.maxi (SegModel_Inst.SCq L) n c -> 0 <= index <= c -> 0 <= count -> c + count < SegModel_Inst.maxi -> (it < index \/ c + count <= it) ->
  exists segs' n' items',
    Gen_ArrSqrt.Reserve (Gen_SegSqrt.GetSegItemIndexes L) (Gen_SegSqrt.GetIndex L) alloc segs n c (c + count) = Ok (tt, segs', n') /\
    Gen_ShiftSqrt.ShiftInsert items c (Gen_SegSqrt.GetIndex L n' 0) index count it = Ok (tt, items', c + count) /\
    (forall k, k < n -> segs' k = segs k) /\ n <= n' /\ Arr_Proofs.ginv (Gen_SegSqrt.GetSegItemIndexes L) SegModel_Inst.maxi (SegModel_Inst.SCq L) n' (c + count) /\
    (forall i, 0 <= i < c -> Gen_ArrSqrt.pvGetItem (Gen_SegSqrt.GetSegItemIndexes L) segs' n' (c + count) i = Gen_ArrSqrt.pvGetItem (Gen_SegSqrt.GetSegItemIndexes L) segs n c i) /\
    (forall j, j < index -> items' j = items j) /\ (forall j, index <= j < index + count -> items' j = items it) /\
    (forall j, index + count <= j < c + count -> items' j = items (j - count)).
Proof. exact Arr_Inst.sqrt_Insert_stable. Qed.
Print Assumptions C16_sqrt_arr_Insert_stable.

(* sqrt: Remove(index, count) in the middle = the regenerated ArrayShifter<SegmentedArray>::Remove: never stuck, the table is not touched,
   every remaining slot keeps its address, the elements in front keep their value, the tail moves down by `count`, invariant kept *)
Theorem C16_sqrt_arr_Remove_stable : forall L, 0 <= L <= 62 -> forall segs n c (items : Z -> Z) index count,
  Arr_Proofs.ginv (Gen_SegSqrt.GetSegItemIndexes L) SegModel_Inst.maxi (SegModel_Inst.SCq L) n c -> 0 <= index -> 0 <= count -> index + count <= c ->
  exists items',
    Gen_ShiftSqrt.ShiftRemove items c (Gen_SegSqrt.GetIndex L n 0) index count = Ok (tt, items', c - count) /\ Arr_Proofs.ginv (Gen_SegSqrt.GetSegItemIndexes L) SegModel_Inst.maxi (SegModel_Inst.SCq L) n (c - count) /\
    (forall i, 0 <= i < c - count -> Gen_ArrSqrt.pvGetItem (Gen_SegSqrt.GetSegItemIndexes L) segs n (c - count) i = Gen_ArrSqrt.pvGetItem (Gen_SegSqrt.GetSegItemIndexes L) segs n c i) /\
    (forall j, j < index -> items' j = items j) /\ (forall j, index <= j < c - count -> items' j = items (j + count)).
Proof. exact Arr_Inst.sqrt_Remove_stable. Qed.
Print Assumptions C16_sqrt_arr_Remove_stable.

(* sqrt: the abstract array operations the shifter translation uses (AddBackNogrow: count + 1 if count < capacity else check failure;
   RemoveBack k: count - k if k <= count else check failure) are exactly what the regenerated SegmentedArray members compute *)
Theorem C16_sqrt_arr_nogrow_bridge : forall L, 0 <= L <= 62 -> forall segs n c, Arr_Proofs.ginv (Gen_SegSqrt.GetSegItemIndexes L) SegModel_Inst.maxi (SegModel_Inst.SCq L) n c -> c + 1 < SegModel_Inst.maxi ->
  Gen_ArrSqrt.AddBackNogrowCrt (Gen_SegSqrt.GetSegItemIndexes L) segs n c = if Z.ltb c (Gen_SegSqrt.GetIndex L n 0) then Ok (tt, c + 1) else Stuck.
Proof. exact Arr_Inst.sqrt_nogrow_bridge. Qed.
Print Assumptions C16_sqrt_arr_nogrow_bridge.

Theorem C16_sqrt_arr_removeback_bridge : forall L, 0 <= L <= 62 -> forall segs n c k, 0 <= k -> 0 <= c < SegModel_Inst.maxi ->
  Gen_ArrSqrt.RemoveBack (Gen_SegSqrt.GetSegItemIndexes L) (Gen_SegSqrt.GetItemCount L) segs n c k = if Z.leb k c then Ok (tt, c - k) else Stuck.
Proof. exact Arr_Inst.sqrt_removeback_bridge. Qed.
Print Assumptions C16_sqrt_arr_removeback_bridge.

(* cnst: Insert(index, count, item) in the middle = Reserve(mCount + count) followed by the regenerated
   ArrayShifter<SegmentedArray>::InsertNogrow (Gen_ShiftCnst.ShiftInsert; cells = values by index, it = the cell holding the item): never stuck;
   the segment table is only extended; EVERY old slot keeps its address (operator[] i, i < old count, returns the same address
   afterwards), the elements in front of the insertion point also keep their value, the inserted cells hold the item, the old tail
   sits `count` slots higher; invariant kept *)
Theorem C16_cnst_arr_Insert_stable : forall L, 0 <= L <= 62 -> forall alloc segs n c (items : Z -> Z) index count it,
  Arr_Proofs.ginv (Gen_SegCnst.GetSegItemIndexes L) SegModel_Inst.maxi (SegModel_Inst.SCc L) n c -> 0 <= index <= c -> 0 <= count -> c + count < SegModel_Inst.maxi -> (it < index \/ c + count <= it) ->
  exists segs' n' items',
    Gen_ArrCnst.Reserve (Gen_SegCnst.GetSegItemIndexes L) (Gen_SegCnst.GetIndex L) alloc segs n c (c + count) = Ok (tt, segs', n') /\
    Gen_ShiftCnst.ShiftInsert items c (Gen_SegCnst.GetIndex L n' 0) index count it = Ok (tt, items', c + count) /\
    (forall k, k < n -> segs' k = segs k) /\ n <= n' /\ Arr_Proofs.ginv (Gen_SegCnst.GetSegItemIndexes L) SegModel_Inst.maxi (SegModel_Inst.SCc L) n' (c + count) /\
    (forall i, 0 <= i < c -> Gen_ArrCnst.pvGetItem (Gen_SegCnst.GetSegItemIndexes L) segs' n' (c + count) i = Gen_ArrCnst.pvGetItem (Gen_SegCnst.GetSegItemIndexes L) segs n c i) /\
    (forall j, j < index -> items' j = items j) /\ (forall j, index <= j < index + count -> items' j = items it) /\
    (forall j, index + count <= j < c + count -> items' j = items (j - count)).
Proof. exact Arr_Inst.cnst_Insert_stable. Qed.
Print Assumptions C16_cnst_arr_Insert_stable.

(* cnst: Remove(index, count) in the middle = the regenerated ArrayShifter<SegmentedArray>::Remove: never stuck, the table is not touched,
   every remaining slot keeps its address, the elements in front keep their value, the tail moves down by `count`, invariant kept *)
Theorem C16_cnst_arr_Remove_stable : forall L, 0 <= L <= 62 -> forall segs n c (items : Z -> Z) index count,
  Arr_Proofs.ginv (Gen_SegCnst.GetSegItemIndexes L) SegModel_Inst.maxi (SegModel_Inst.SCc L) n c -> 0 <= index -> 0 <= count -> index + count <= c ->
  exists items',
    Gen_ShiftCnst.ShiftRemove items c (Gen_SegCnst.GetIndex L n 0) index count = Ok (tt, items', c - count) /\ Arr_Proofs.ginv (Gen_SegCnst.GetSegItemIndexes L) SegModel_Inst.maxi (SegModel_Inst.SCc L) n (c - count) /\
    (forall i, 0 <= i < c - count -> Gen_ArrCnst.pvGetItem (Gen_SegCnst.GetSegItemIndexes L) segs n (c - count) i = Gen_ArrCnst.pvGetItem (Gen_SegCnst.GetSegItemIndexes L) segs n c i) /\
    (forall j, j < index -> items' j = items j) /\ (forall j, index <= j < c - count -> items' j = items (j + count)).
Proof. exact Arr_Inst.cnst_Remove_stable. Qed.
Print Assumptions C16_cnst_arr_Remove_stable.

(* cnst: the abstract array operations the shifter translation uses (AddBackNogrow: count + 1 if count < capacity else check failure;
   RemoveBack k: count - k if k <= count else check failure) are exactly what the regenerated SegmentedArray members compute *)
Theorem C16_cnst_arr_nogrow_bridge : forall L, 0 <= L <= 62 -> forall segs n c, Arr_Proofs.ginv (Gen_SegCnst.GetSegItemIndexes L) SegModel_Inst.maxi (SegModel_Inst.SCc L) n c -> c + 1 < SegModel_Inst.maxi ->
  Gen_ArrCnst.AddBackNogrowCrt (Gen_SegCnst.GetSegItemIndexes L) segs n c = if Z.ltb c (Gen_SegCnst.GetIndex L n 0) then Ok (tt, c + 1) else Stuck.
Proof. exact Arr_Inst.cnst_nogrow_bridge. Qed.
Print Assumptions C16_cnst_arr_nogrow_bridge.

Theorem C16_cnst_arr_removeback_bridge : forall L, 0 <= L <= 62 -> forall segs n c k, 0 <= k -> 0 <= c < SegModel_Inst.maxi ->
  Gen_ArrCnst.RemoveBack (Gen_SegCnst.GetSegItemIndexes L) (fun _ : Z => Gen_SegCnst.GetItemCount L) segs n c k = if Z.leb k c then Ok (tt, c - k) else Stuck.
Proof. exact Arr_Inst.cnst_removeback_bridge. Qed.
Print Assumptions C16_cnst_arr_removeback_bridge.

(* ---- round 8: the glue bodies pinned as AST facts (Gen_SegFacts.v, regenerated from the clang AST on every run) ---- *)

(* the forwarding members and the untranslated ArrayShifter members have exactly these statements *)
Theorem C16_facts_forwarders :
  Gen_SegFacts.seg_insert_var = ["InsertCrt(index, ctor{GetMemManager(), itemArgs})"%string] /\
  Gen_SegFacts.seg_insert_move = ["InsertVar(index, move(item))"%string] /\ Gen_SegFacts.seg_insert_copy = ["InsertVar(index, item)"%string] /\
  Gen_SegFacts.seg_insert_range = ["pvInsert(index, move(begin), move(end))"%string] /\
  Gen_SegFacts.seg_insert_ilist = ["pvInsert(index, begin(), end())"%string] /\
  Gen_SegFacts.seg_pvinsert_singlepass = ["Insert(*this, index, move(begin), move(end))"%string] /\
  Gen_SegFacts.seg_remove_filter = ["return Remove(*this, itemFilter)"%string] /\
  Gen_SegFacts.seg_remove_back = ["CHECK"%string; "pvDecCount((mCount - count))"%string] /\
  Gen_SegFacts.seg_add_back_var = ["AddBackCrt(ctor{GetMemManager(), itemArgs})"%string] /\
  Gen_SegFacts.seg_add_back_nogrow_var = ["AddBackNogrowCrt(ctor{GetMemManager(), itemArgs})"%string] /\
  Gen_SegFacts.seg_get_back_item = ["return pvGetItem((mCount - 1))"%string] /\ Gen_SegFacts.seg_index_op = ["return pvGetItem(index)"%string] /\
  Gen_SegFacts.shifter_insert_nogrow_move = ["InsertNogrow(array, index, make_move_iterator(addressof(item)), 1)"%string] /\
  Gen_SegFacts.shifter_insert_singlepass = [""%string; "decl memManager = GetMemManager()"%string; "decl count = 0"%string;
     "for (decl iter = move(begin); operator!=(iter, end); (++iter , ++count)) { InsertCrt((index + count), ctor{memManager, *iter}) }"%string] /\
  nth 6 Gen_SegFacts.shifter_remove_filter ""%string = "RemoveBack(remCount)"%string.
Proof. exact Arr_Proofs.facts_forwarders. Qed.
Print Assumptions C16_facts_forwarders.

(* the glue members under act_of *)
Theorem C16_facts_insert_n : map Arr_Proofs.act_of Gen_SegFacts.seg_insert_n =
  [Some Arr_Proofs.AGuardOverflow; Some Arr_Proofs.ADeclMM; Some Arr_Proofs.AHandler; Some Arr_Proofs.AReservePlusCount; Some Arr_Proofs.AShiftInsertN].
Proof. exact Arr_Proofs.facts_insert_n. Qed.
Print Assumptions C16_facts_insert_n.

(* sqrt: SegmentedArray::Insert(index, count, item) EXECUTED FROM ITS AST FACTS (the statement list read off the clang AST on every
   run, each statement interpreted by act_of as a call of regenerated code): overflow guard, handler, Reserve(mCount + count), shifter --
   never stuck, table only extended, every old slot keeps its address, values as for Insert_stable, invariant kept.
   A changed statement (e.g. Reserve(mCount + count - 1)) has no meaning under act_of and this theorem no longer holds *)
Theorem C16_sqrt_insert_n_from_facts : forall L, 0 <= L <= 62 -> forall alloc segs n c (items : Z -> Z) index count it,
  Arr_Proofs.ginv (Gen_SegSqrt.GetSegItemIndexes L) SegModel_Inst.maxi (SegModel_Inst.SCq L) n c -> 0 <= index <= c -> 0 <= count -> c + count < SegModel_Inst.maxi -> (it < index \/ c + count <= it) ->
  exists g', Arr_Proofs.run (Gen_SegSqrt.GetSegItemIndexes L) (Gen_SegSqrt.GetIndex L) alloc (map Arr_Proofs.act_of Gen_SegFacts.seg_insert_n) index count it (Arr_Proofs.mkg segs n c items) = Ok g' /\
    Arr_Proofs.g_c g' = c + count /\ (forall k, k < n -> Arr_Proofs.g_segs g' k = segs k) /\ Arr_Proofs.ginv (Gen_SegSqrt.GetSegItemIndexes L) SegModel_Inst.maxi (SegModel_Inst.SCq L) (Arr_Proofs.g_n g') (c + count) /\
    (forall i, 0 <= i < c -> Gen_ArrSqrt.pvGetItem (Gen_SegSqrt.GetSegItemIndexes L) (Arr_Proofs.g_segs g') (Arr_Proofs.g_n g') (c + count) i = Gen_ArrSqrt.pvGetItem (Gen_SegSqrt.GetSegItemIndexes L) segs n c i) /\
    (forall j, j < index -> Arr_Proofs.g_items g' j = items j) /\ (forall j, index <= j < index + count -> Arr_Proofs.g_items g' j = items it) /\
    (forall j, index + count <= j < c + count -> Arr_Proofs.g_items g' j = items (j - count)).
Proof. exact Arr_Inst.sqrt_insert_n_from_facts. Qed.
Print Assumptions C16_sqrt_insert_n_from_facts.

Theorem C16_sqrt_remove_n_from_facts : forall L, 0 <= L <= 62 -> forall alloc segs n c (items : Z -> Z) index count,
  Arr_Proofs.ginv (Gen_SegSqrt.GetSegItemIndexes L) SegModel_Inst.maxi (SegModel_Inst.SCq L) n c -> 0 <= index -> 0 <= count -> index + count <= c ->
  exists g', Arr_Proofs.run (Gen_SegSqrt.GetSegItemIndexes L) (Gen_SegSqrt.GetIndex L) alloc (map Arr_Proofs.act_of Gen_SegFacts.seg_remove_n) index count 0 (Arr_Proofs.mkg segs n c items) = Ok g' /\
    Arr_Proofs.g_c g' = c - count /\ Arr_Proofs.g_segs g' = segs /\ Arr_Proofs.g_n g' = n /\ Arr_Proofs.ginv (Gen_SegSqrt.GetSegItemIndexes L) SegModel_Inst.maxi (SegModel_Inst.SCq L) n (c - count) /\
    (forall i, 0 <= i < c - count -> Gen_ArrSqrt.pvGetItem (Gen_SegSqrt.GetSegItemIndexes L) segs n (c - count) i = Gen_ArrSqrt.pvGetItem (Gen_SegSqrt.GetSegItemIndexes L) segs n c i) /\
    (forall j, j < index -> Arr_Proofs.g_items g' j = items j) /\ (forall j, index <= j < c - count -> Arr_Proofs.g_items g' j = items (j + count)).
Proof. exact Arr_Inst.sqrt_remove_n_from_facts. Qed.
Print Assumptions C16_sqrt_remove_n_from_facts.

(* sqrt: Insert(index, begin, end) with forward iterators and Insert(index, {...}) (both reach pvInsert #1), executed from the facts:
   Dist, Reserve(mCount + count), then the REGENERATED range InsertNogrow (Gen_ShiftXSqrt.ShiftInsertRange; source range [it, it + count) outside
   the array): every old slot keeps its address, cell index + k receives source element k, front unchanged, tail `count` higher, invariant kept *)
Theorem C16_sqrt_range_insert_from_facts : forall L, 0 <= L <= 62 -> forall alloc segs n c (items : Z -> Z) index count it,
  Arr_Proofs.ginv (Gen_SegSqrt.GetSegItemIndexes L) SegModel_Inst.maxi (SegModel_Inst.SCq L) n c -> 0 <= index <= c -> 0 <= count -> c + count < SegModel_Inst.maxi -> c + count <= it ->
  exists g', Arr_Proofs.run (Gen_SegSqrt.GetSegItemIndexes L) (Gen_SegSqrt.GetIndex L) alloc (map Arr_Proofs.act_of Gen_SegFacts.seg_pvinsert_forward) index count it (Arr_Proofs.mkg segs n c items) = Ok g' /\
    Arr_Proofs.g_c g' = c + count /\ (forall k, k < n -> Arr_Proofs.g_segs g' k = segs k) /\ Arr_Proofs.ginv (Gen_SegSqrt.GetSegItemIndexes L) SegModel_Inst.maxi (SegModel_Inst.SCq L) (Arr_Proofs.g_n g') (c + count) /\
    (forall i, 0 <= i < c -> Gen_ArrSqrt.pvGetItem (Gen_SegSqrt.GetSegItemIndexes L) (Arr_Proofs.g_segs g') (Arr_Proofs.g_n g') (c + count) i = Gen_ArrSqrt.pvGetItem (Gen_SegSqrt.GetSegItemIndexes L) segs n c i) /\
    (forall j, j < index -> Arr_Proofs.g_items g' j = items j) /\
    (forall j, index <= j < index + count -> Arr_Proofs.g_items g' j = items (it + (j - index))) /\
    (forall j, index + count <= j < c + count -> Arr_Proofs.g_items g' j = items (j - count)).
Proof. exact Arr_Inst.sqrt_range_insert_from_facts. Qed.
Print Assumptions C16_sqrt_range_insert_from_facts.

(* sqrt: Remove(filter) through the REGENERATED ArrayShifter::Remove(array, filter) (Gen_ShiftXSqrt.ShiftRemoveIf, filter = pred on values):
   returns the number of elements satisfying the filter, the new count is the number of the others, the survivors are exactly the others IN
   ORDER (ShiftX_Proofs.filt), the table is untouched and every remaining slot keeps its address, invariant kept *)
Theorem C16_sqrt_remove_if_stable : forall L, 0 <= L <= 62 -> forall (pred : Z -> bool) segs n (m : nat) (items : Z -> Z), Arr_Proofs.ginv (Gen_SegSqrt.GetSegItemIndexes L) SegModel_Inst.maxi (SegModel_Inst.SCq L) n (Z.of_nat m) ->
  exists items', Gen_ShiftXSqrt.ShiftRemoveIf pred items (Z.of_nat m) (Gen_SegSqrt.GetIndex L n 0) =
      Ok (Z.of_nat m - Z.of_nat (length (ShiftX_Proofs.filt pred items m)), items', Z.of_nat (length (ShiftX_Proofs.filt pred items m))) /\
    Arr_Proofs.ginv (Gen_SegSqrt.GetSegItemIndexes L) SegModel_Inst.maxi (SegModel_Inst.SCq L) n (Z.of_nat (length (ShiftX_Proofs.filt pred items m))) /\
    (forall j, (j < length (ShiftX_Proofs.filt pred items m))%nat -> items' (Z.of_nat j) = nth j (ShiftX_Proofs.filt pred items m) 0) /\
    (forall i, 0 <= i < Z.of_nat (length (ShiftX_Proofs.filt pred items m)) ->
       Gen_ArrSqrt.pvGetItem (Gen_SegSqrt.GetSegItemIndexes L) segs n (Z.of_nat (length (ShiftX_Proofs.filt pred items m))) i = Gen_ArrSqrt.pvGetItem (Gen_SegSqrt.GetSegItemIndexes L) segs n (Z.of_nat m) i).
Proof. exact Arr_Inst.sqrt_remove_if_stable. Qed.
Print Assumptions C16_sqrt_remove_if_stable.

(* sqrt: single-pass Insert (pvInsert #2 -> ArrayShifter::Insert: one InsertCrt per item; InsertCrt executed from its facts: handler,
   Reserve(mCount + 1), one-element shifter): after m items every slot that existed before the first keeps its address *)
Theorem C16_sqrt_singlepass_insert_from_facts : forall L, 0 <= L <= 62 -> forall alloc m segs n c (items : Z -> Z) index (its : nat -> Z),
  Arr_Proofs.ginv (Gen_SegSqrt.GetSegItemIndexes L) SegModel_Inst.maxi (SegModel_Inst.SCq L) n c -> 0 <= index <= c -> c + Z.of_nat m < SegModel_Inst.maxi -> (forall k, c + Z.of_nat m <= its k) ->
  exists g', Arr_Proofs.insert_crt_times (Gen_SegSqrt.GetSegItemIndexes L) (Gen_SegSqrt.GetIndex L) alloc m index its (Arr_Proofs.mkg segs n c items) = Ok g' /\ Arr_Proofs.g_c g' = c + Z.of_nat m /\
    (forall k, k < n -> Arr_Proofs.g_segs g' k = segs k) /\ Arr_Proofs.ginv (Gen_SegSqrt.GetSegItemIndexes L) SegModel_Inst.maxi (SegModel_Inst.SCq L) (Arr_Proofs.g_n g') (c + Z.of_nat m) /\
    (forall i, 0 <= i < c -> Gen_ArrSqrt.pvGetItem (Gen_SegSqrt.GetSegItemIndexes L) (Arr_Proofs.g_segs g') (Arr_Proofs.g_n g') (c + Z.of_nat m) i = Gen_ArrSqrt.pvGetItem (Gen_SegSqrt.GetSegItemIndexes L) segs n c i).
Proof. exact Arr_Inst.sqrt_singlepass_insert_from_facts. Qed.
Print Assumptions C16_sqrt_singlepass_insert_from_facts.

(* sqrt: Remove(filter) ends with one RemoveBack(remCount) (pinned fact) after assignments through operator[]: the table is untouched and every
   remaining slot keeps its address *)
Theorem C16_sqrt_removeback_stable : forall L, 0 <= L <= 62 -> forall segs n c k, Arr_Proofs.ginv (Gen_SegSqrt.GetSegItemIndexes L) SegModel_Inst.maxi (SegModel_Inst.SCq L) n c -> 0 <= k <= c ->
  Gen_ArrSqrt.RemoveBack (Gen_SegSqrt.GetSegItemIndexes L) (Gen_SegSqrt.GetItemCount L) segs n c k = Ok (tt, c - k) /\ Arr_Proofs.ginv (Gen_SegSqrt.GetSegItemIndexes L) SegModel_Inst.maxi (SegModel_Inst.SCq L) n (c - k) /\
  (forall i, 0 <= i < c - k -> Gen_ArrSqrt.pvGetItem (Gen_SegSqrt.GetSegItemIndexes L) segs n (c - k) i = Gen_ArrSqrt.pvGetItem (Gen_SegSqrt.GetSegItemIndexes L) segs n c i).
Proof. exact Arr_Inst.sqrt_removeback_stable. Qed.
Print Assumptions C16_sqrt_removeback_stable.

(* cnst: SegmentedArray::Insert(index, count, item) EXECUTED FROM ITS AST FACTS (the statement list read off the clang AST on every
   run, each statement interpreted by act_of as a call of regenerated code): overflow guard, handler, Reserve(mCount + count), shifter --
   never stuck, table only extended, every old slot keeps its address, values as for Insert_stable, invariant kept.
   A changed statement (e.g. Reserve(mCount + count - 1)) has no meaning under act_of and this theorem no longer holds *)
Theorem C16_cnst_insert_n_from_facts : forall L, 0 <= L <= 62 -> forall alloc segs n c (items : Z -> Z) index count it,
  Arr_Proofs.ginv (Gen_SegCnst.GetSegItemIndexes L) SegModel_Inst.maxi (SegModel_Inst.SCc L) n c -> 0 <= index <= c -> 0 <= count -> c + count < SegModel_Inst.maxi -> (it < index \/ c + count <= it) ->
  exists g', Arr_Proofs.run (Gen_SegCnst.GetSegItemIndexes L) (Gen_SegCnst.GetIndex L) alloc (map Arr_Proofs.act_of Gen_SegFacts.seg_insert_n) index count it (Arr_Proofs.mkg segs n c items) = Ok g' /\
    Arr_Proofs.g_c g' = c + count /\ (forall k, k < n -> Arr_Proofs.g_segs g' k = segs k) /\ Arr_Proofs.ginv (Gen_SegCnst.GetSegItemIndexes L) SegModel_Inst.maxi (SegModel_Inst.SCc L) (Arr_Proofs.g_n g') (c + count) /\
    (forall i, 0 <= i < c -> Gen_ArrSqrt.pvGetItem (Gen_SegCnst.GetSegItemIndexes L) (Arr_Proofs.g_segs g') (Arr_Proofs.g_n g') (c + count) i = Gen_ArrSqrt.pvGetItem (Gen_SegCnst.GetSegItemIndexes L) segs n c i) /\
    (forall j, j < index -> Arr_Proofs.g_items g' j = items j) /\ (forall j, index <= j < index + count -> Arr_Proofs.g_items g' j = items it) /\
    (forall j, index + count <= j < c + count -> Arr_Proofs.g_items g' j = items (j - count)).
Proof. exact Arr_Inst.cnst_insert_n_from_facts. Qed.
Print Assumptions C16_cnst_insert_n_from_facts.

Theorem C16_cnst_remove_n_from_facts : forall L, 0 <= L <= 62 -> forall alloc segs n c (items : Z -> Z) index count,
  Arr_Proofs.ginv (Gen_SegCnst.GetSegItemIndexes L) SegModel_Inst.maxi (SegModel_Inst.SCc L) n c -> 0 <= index -> 0 <= count -> index + count <= c ->
  exists g', Arr_Proofs.run (Gen_SegCnst.GetSegItemIndexes L) (Gen_SegCnst.GetIndex L) alloc (map Arr_Proofs.act_of Gen_SegFacts.seg_remove_n) index count 0 (Arr_Proofs.mkg segs n c items) = Ok g' /\
    Arr_Proofs.g_c g' = c - count /\ Arr_Proofs.g_segs g' = segs /\ Arr_Proofs.g_n g' = n /\ Arr_Proofs.ginv (Gen_SegCnst.GetSegItemIndexes L) SegModel_Inst.maxi (SegModel_Inst.SCc L) n (c - count) /\
    (forall i, 0 <= i < c - count -> Gen_ArrSqrt.pvGetItem (Gen_SegCnst.GetSegItemIndexes L) segs n (c - count) i = Gen_ArrSqrt.pvGetItem (Gen_SegCnst.GetSegItemIndexes L) segs n c i) /\
    (forall j, j < index -> Arr_Proofs.g_items g' j = items j) /\ (forall j, index <= j < c - count -> Arr_Proofs.g_items g' j = items (j + count)).
Proof. exact Arr_Inst.cnst_remove_n_from_facts. Qed.
Print Assumptions C16_cnst_remove_n_from_facts.

(* cnst: Insert(index, begin, end) with forward iterators and Insert(index, {...}) (both reach pvInsert #1), executed from the facts:
   Dist, Reserve(mCount + count), then the REGENERATED range InsertNogrow (Gen_ShiftXSqrt.ShiftInsertRange; source range [it, it + count) outside
   the array): every old slot keeps its address, cell index + k receives source element k, front unchanged, tail `count` higher, invariant kept *)
Theorem C16_cnst_range_insert_from_facts : forall L, 0 <= L <= 62 -> forall alloc segs n c (items : Z -> Z) index count it,
  Arr_Proofs.ginv (Gen_SegCnst.GetSegItemIndexes L) SegModel_Inst.maxi (SegModel_Inst.SCc L) n c -> 0 <= index <= c -> 0 <= count -> c + count < SegModel_Inst.maxi -> c + count <= it ->
  exists g', Arr_Proofs.run (Gen_SegCnst.GetSegItemIndexes L) (Gen_SegCnst.GetIndex L) alloc (map Arr_Proofs.act_of Gen_SegFacts.seg_pvinsert_forward) index count it (Arr_Proofs.mkg segs n c items) = Ok g' /\
    Arr_Proofs.g_c g' = c + count /\ (forall k, k < n -> Arr_Proofs.g_segs g' k = segs k) /\ Arr_Proofs.ginv (Gen_SegCnst.GetSegItemIndexes L) SegModel_Inst.maxi (SegModel_Inst.SCc L) (Arr_Proofs.g_n g') (c + count) /\
    (forall i, 0 <= i < c -> Gen_ArrSqrt.pvGetItem (Gen_SegCnst.GetSegItemIndexes L) (Arr_Proofs.g_segs g') (Arr_Proofs.g_n g') (c + count) i = Gen_ArrSqrt.pvGetItem (Gen_SegCnst.GetSegItemIndexes L) segs n c i) /\
    (forall j, j < index -> Arr_Proofs.g_items g' j = items j) /\
    (forall j, index <= j < index + count -> Arr_Proofs.g_items g' j = items (it + (j - index))) /\
    (forall j, index + count <= j < c + count -> Arr_Proofs.g_items g' j = items (j - count)).
Proof. exact Arr_Inst.cnst_range_insert_from_facts. Qed.
Print Assumptions C16_cnst_range_insert_from_facts.

(* cnst: Remove(filter) through the REGENERATED ArrayShifter::Remove(array, filter) (Gen_ShiftXSqrt.ShiftRemoveIf, filter = pred on values):
   returns the number of elements satisfying the filter, the new count is the number of the others, the survivors are exactly the others IN
   ORDER (ShiftX_Proofs.filt), the table is untouched and every remaining slot keeps its address, invariant kept *)
Theorem C16_cnst_remove_if_stable : forall L, 0 <= L <= 62 -> forall (pred : Z -> bool) segs n (m : nat) (items : Z -> Z), Arr_Proofs.ginv (Gen_SegCnst.GetSegItemIndexes L) SegModel_Inst.maxi (SegModel_Inst.SCc L) n (Z.of_nat m) ->
  exists items', Gen_ShiftXSqrt.ShiftRemoveIf pred items (Z.of_nat m) (Gen_SegCnst.GetIndex L n 0) =
      Ok (Z.of_nat m - Z.of_nat (length (ShiftX_Proofs.filt pred items m)), items', Z.of_nat (length (ShiftX_Proofs.filt pred items m))) /\
    Arr_Proofs.ginv (Gen_SegCnst.GetSegItemIndexes L) SegModel_Inst.maxi (SegModel_Inst.SCc L) n (Z.of_nat (length (ShiftX_Proofs.filt pred items m))) /\
    (forall j, (j < length (ShiftX_Proofs.filt pred items m))%nat -> items' (Z.of_nat j) = nth j (ShiftX_Proofs.filt pred items m) 0) /\
    (forall i, 0 <= i < Z.of_nat (length (ShiftX_Proofs.filt pred items m)) ->
       Gen_ArrSqrt.pvGetItem (Gen_SegCnst.GetSegItemIndexes L) segs n (Z.of_nat (length (ShiftX_Proofs.filt pred items m))) i = Gen_ArrSqrt.pvGetItem (Gen_SegCnst.GetSegItemIndexes L) segs n (Z.of_nat m) i).
Proof. exact Arr_Inst.cnst_remove_if_stable. Qed.
Print Assumptions C16_cnst_remove_if_stable.

(* cnst: single-pass Insert (pvInsert #2 -> ArrayShifter::Insert: one InsertCrt per item; InsertCrt executed from its facts: handler,
   Reserve(mCount + 1), one-element shifter): after m items every slot that existed before the first keeps its address *)
Theorem C16_cnst_singlepass_insert_from_facts : forall L, 0 <= L <= 62 -> forall alloc m segs n c (items : Z -> Z) index (its : nat -> Z),
  Arr_Proofs.ginv (Gen_SegCnst.GetSegItemIndexes L) SegModel_Inst.maxi (SegModel_Inst.SCc L) n c -> 0 <= index <= c -> c + Z.of_nat m < SegModel_Inst.maxi -> (forall k, c + Z.of_nat m <= its k) ->
  exists g', Arr_Proofs.insert_crt_times (Gen_SegCnst.GetSegItemIndexes L) (Gen_SegCnst.GetIndex L) alloc m index its (Arr_Proofs.mkg segs n c items) = Ok g' /\ Arr_Proofs.g_c g' = c + Z.of_nat m /\
    (forall k, k < n -> Arr_Proofs.g_segs g' k = segs k) /\ Arr_Proofs.ginv (Gen_SegCnst.GetSegItemIndexes L) SegModel_Inst.maxi (SegModel_Inst.SCc L) (Arr_Proofs.g_n g') (c + Z.of_nat m) /\
    (forall i, 0 <= i < c -> Gen_ArrSqrt.pvGetItem (Gen_SegCnst.GetSegItemIndexes L) (Arr_Proofs.g_segs g') (Arr_Proofs.g_n g') (c + Z.of_nat m) i = Gen_ArrSqrt.pvGetItem (Gen_SegCnst.GetSegItemIndexes L) segs n c i).
Proof. exact Arr_Inst.cnst_singlepass_insert_from_facts. Qed.
Print Assumptions C16_cnst_singlepass_insert_from_facts.

(* cnst: Remove(filter) ends with one RemoveBack(remCount) (pinned fact) after assignments through operator[]: the table is untouched and every
   remaining slot keeps its address *)
Theorem C16_cnst_removeback_stable : forall L, 0 <= L <= 62 -> forall segs n c k, Arr_Proofs.ginv (Gen_SegCnst.GetSegItemIndexes L) SegModel_Inst.maxi (SegModel_Inst.SCc L) n c -> 0 <= k <= c ->
  Gen_ArrSqrt.RemoveBack (Gen_SegCnst.GetSegItemIndexes L) (fun _ : Z => Gen_SegCnst.GetItemCount L) segs n c k = Ok (tt, c - k) /\ Arr_Proofs.ginv (Gen_SegCnst.GetSegItemIndexes L) SegModel_Inst.maxi (SegModel_Inst.SCc L) n (c - k) /\
  (forall i, 0 <= i < c - k -> Gen_ArrSqrt.pvGetItem (Gen_SegCnst.GetSegItemIndexes L) segs n (c - k) i = Gen_ArrSqrt.pvGetItem (Gen_SegCnst.GetSegItemIndexes L) segs n c i).
Proof. exact Arr_Inst.cnst_removeback_stable. Qed.
Print Assumptions C16_cnst_removeback_stable.

(* the range / filter shifter translations of the two SegmentedArray instantiations are the same Gallina *)
Theorem C16_shiftx_same_code : @Gen_ShiftXSqrt.ShiftInsertRange = @Gen_ShiftXCnst.ShiftInsertRange /\ @Gen_ShiftXSqrt.ShiftRemoveIf = @Gen_ShiftXCnst.ShiftRemoveIf.
Proof. exact ShiftX_Proofs.same_code. Qed.
Print Assumptions C16_shiftx_same_code.

(* review-fix: the invariant `ginv` of the regenerated-container theorems is established by the empty array also for cnst sizing (the sqrt twin
   is C16_sqrt_arr_ginv_empty; every operation theorem above shows that ginv is preserved) *)
Theorem C16_cnst_arr_ginv_empty : forall L, 0 <= L <= 62 ->
  Arr_Proofs.ginv (Gen_SegCnst.GetSegItemIndexes L) SegModel_Inst.maxi (SegModel_Inst.SCc L) 0 0.
Proof. exact Arr_Inst.cnst_ginv_empty. Qed.
Print Assumptions C16_cnst_arr_ginv_empty.
