(* Extraction of the executable hash-table model and its instantiation (ExtrOcamlBasic only). *)
From Coq Require Import ZArith List Extraction ExtrOcamlBasic.
From MomoCommon Require Import GenPrelude.
From C01 Require Gen_LimP1_ops Gen_P4 Gen_P4A Gen_One Gen_Open2N2_ops Gen_Open2N2 Gen_OpenN1_ops Gen_OpenN1 Gen_LimP1t Gen_Lim4 Gen_LimP Open8Match HashModel HashInst HashInstProofs Gen_LimP4 Gen_Open2N2 Gen_Open2N2w Gen_OpenN1.
Extraction Blacklist List String Int.   (* only renames the generated file List.ml -> List0.ml (clash with OCaml's stdlib List used by the I/O helper) *)
Separate Extraction Gen_LimP1_ops.pvSet Gen_LimP1_ops.pvGetMemPoolIndex_of Gen_LimP1_ops.pvGetCount Gen_LimP1_ops.IsFull Gen_LimP1_ops.WasFull Gen_LimP1_ops.AddCrt Gen_LimP1_ops.Remove
  Gen_P4.pvSetEmpty Gen_P4.pvGetCount Gen_P4A.AddCrt Gen_P4A.Remove Gen_P4A.Clear
  Gen_One.AddCrt Gen_One.Remove Gen_One.Clear Gen_One.IsFull Gen_One.WasFull
  Gen_Open2N2_ops.AddCrt Gen_Open2N2_ops.Remove Gen_Open2N2_ops.pvSetEmpty Gen_Open2N2_ops.IsFull Gen_Open2N2_ops.pvGetCount Gen_Open2N2.UpdateMaxProbe
  Gen_OpenN1_ops.AddCrt Gen_OpenN1_ops.Remove Gen_OpenN1_ops.pvSetEmpty Gen_OpenN1_ops.IsFull Gen_OpenN1_ops.pvGetCount Gen_OpenN1.UpdateMaxProbe
  Gen_LimP1t.pvGetCount Gen_LimP1t.pvGetMemPoolIndex Gen_LimP1t.pvGetMemPoolIndexOf Gen_LimP1t.IsFull Gen_LimP1t.WasFull
  Gen_Lim4.WasFull Gen_Lim4.pvSet Gen_Lim4.pvGetMemPoolIndex Gen_Lim4.stateNull Gen_Lim4.stateNullWasFull
  Gen_LimP.WasFull Gen_LimP.pvGetMemPoolIndexOf Gen_LimP.stateNull Gen_LimP.stateNullWasFull Open8Match.visit Open8Match.movemask HashInst.it_begin_cfg HashInst.it_next_cfg HashInst.it_get_cfg HashInst.it_remove_cfg HashInst.wstep_cfg HashInst.winit_cfg HashInst.step_cfg HashInst.shape_cfg HashInst.init_cfg HashInst.traverse_cfg HashInst.count_cfg
  HashInst.calc_capacity HashInst.shift_fn HashInst.start_fn HashInst.next_fn HashInst.hash_fn HashInst.mkCfg HashInstProofs.cfg_valid_b Gen_LimP4.pvCalcShortHash Gen_Open2N2.pvCalcShortHash Gen_Open2N2w.pvCalcShortHash Gen_OpenN1.ptCalcShortHash.
