(* C06 - operator== of unordered_set / unordered_map / unordered_multimap as REGENERATED from the headers (range-for translated
   as a "first element whose body returns" fold), instantiated over abstract elements with a key-equivalence `cls` that may be
   coarser than element equality (case-insensitive keys, identity-tagged keys). *)
From Coq Require Import List ZArith Bool Lia Arith Permutation.
From C06 Require Import Spec SpecProofs WrapEq GenPrims.
From C06 Require Gen_USetEq Gen_UMapEq Gen_UMMapEq.
Import ListNotations.
Local Open Scope Z_scope.

Fixpoint first_some {A : Type} (f : A -> option bool) (l : list A) : option bool :=
  match l with [] => None | x :: t => match f x with Some v => Some v | None => first_some f t end end.
Lemma first_some_none {A} (f : A -> option bool) l : first_some f l = None <-> Forall (fun x => f x = None) l.
Proof.
  induction l as [|x t IH]; simpl; [split; auto|]. destruct (f x) eqn:E.
  - split; [discriminate|]. intros H; inversion H; congruence.
  - rewrite IH. split; [intros; constructor; auto|intros H; inversion H; auto].
Qed.
Lemma first_some_const {A} (f : A -> option bool) l v : (forall x w, f x = Some w -> w = v) -> forall w, first_some f l = Some w -> w = v.
Proof. intros Hf. induction l as [|x t IH]; simpl; intros w; [discriminate|]. destruct (f x) eqn:E; [intros H; inversion H; subst; eauto|auto]. Qed.

(* find by key-equivalence class: the first element of the container whose class is that of the argument *)
Fixpoint find_cls (cls : Z -> Z) (c : Z) (l : list Z) : option Z :=
  match l with [] => None | y :: t => if cls y =? c then Some y else find_cls cls c t end.
Lemma find_cls_in cls c l y : find_cls cls c l = Some y -> In y l /\ cls y = c.
Proof. induction l as [|z t IH]; simpl; [discriminate|]. destruct (Z.eqb_spec (cls z) c); [intros H; inversion H; subst; auto|intros H; destruct (IH H); auto]. Qed.
Lemma find_cls_unique cls l x : NoDup (map cls l) -> In x l -> find_cls cls (cls x) l = Some x.
Proof.
  induction l as [|z t IH]; simpl; intros ND I; [tauto|]. inversion ND as [|? ? Hn Hd]; subst.
  destruct I as [E|I]; [subst; rewrite Z.eqb_refl; auto|].
  destruct (Z.eqb_spec (cls z) (cls x)) as [E|E]; [exfalso; apply Hn; rewrite E; apply in_map; auto|auto].
Qed.
Lemma nodup_map_nodup {A B} (f : A -> B) l : NoDup (map f l) -> NoDup l.
Proof. induction l; simpl; intros H; [constructor|]. inversion H; subst. constructor; auto. intros I. apply H2. apply in_map; auto. Qed.

(* ---------- unordered_set ---------- *)
Section USetEq.
Variable cls : Z -> Z.            (* hash/key_eq classes; operator== of the elements is equality on Z *)
Variable l r : list Z.
Variable endv : Z.                (* the value standing for end(): not an element of the right operand *)
Definition s_cont (c : Z) : list Z := if c =? 0 then l else r.
Definition s_size (c : Z) : Z := Z.of_nat (length (s_cont c)).
Definition s_find (c x : Z) : Z := match find_cls cls (cls x) (s_cont c) with Some y => y | None => endv end.
Definition s_end (c : Z) : Z := endv.
Definition s_fold (c : Z) (f : Z -> option bool) : option bool := first_some f (s_cont c).
Definition gen_uset_eq : bool := Gen_USetEq.op_eq Z.eqb s_size s_find s_end s_fold 0 1.

Theorem gen_uset_eq_iff : NoDup (map cls l) -> NoDup (map cls r) -> ~ In endv r ->
  (gen_uset_eq = true <-> Permutation l r).
Proof.
  intros NDl NDr Hend. unfold gen_uset_eq, Gen_USetEq.op_eq, s_size, s_fold, s_find, s_end, it_id. change (s_cont 0) with l. change (s_cont 1) with r.
  split.
  - destruct (Z.eqb_spec (Z.of_nat (length l)) (Z.of_nat (length r))) as [EL|EL]; simpl; [|discriminate].
    destruct (first_some _ l) as [v|] eqn:F.
    + intros Hv. subst v. apply first_some_const with (v := false) in F; [discriminate|].
      intros x w. destruct (_ || _); intros H; inversion H; auto.
    + intros _. apply first_some_none in F. rewrite Forall_forall in F.
      apply NoDup_Permutation_bis; [apply (nodup_map_nodup cls); auto|lia|].
      intros x Ix. specialize (F x Ix). simpl in F.
      destruct (find_cls cls (cls x) r) as [y|] eqn:Fy.
      * destruct (find_cls_in _ _ _ _ Fy) as [Iy _]. destruct (Z.eqb_spec y endv); simpl in F; [discriminate|].
        destruct (Z.eqb_spec y x); simpl in F; [subst; auto|discriminate].
      * rewrite Z.eqb_refl in F. simpl in F. discriminate.
  - intros P. rewrite (Permutation_length P), Z.eqb_refl. simpl.
    destruct (first_some _ l) as [v|] eqn:F; auto.
    assert (N : first_some (fun ref => let iter := match find_cls cls (cls ref) r with Some y => y | None => endv end in
                  if (iter =? endv) || negb (iter =? ref) then Some false else None) l = None).
    { apply first_some_none. rewrite Forall_forall. intros x Ix.
      assert (Ir : In x r) by (eapply Permutation_in; eauto). rewrite (find_cls_unique cls r x NDr Ir). simpl.
      destruct (Z.eqb_spec x endv); [subst; tauto|]. rewrite Z.eqb_refl. reflexivity. }
    simpl in N. rewrite N in F. discriminate.
Qed.
End USetEq.

(* the shape before fix b19ae26 (membership by find() only) is refuted: {5} vs {6} in one key class compare equal *)
Definition uset_eq_prefix (cls : Z -> Z) (l r : list Z) : bool :=
  (length l =? length r)%nat && forallb (fun x => match find_cls cls (cls x) r with Some _ => true | None => false end) l.
Lemma uset_eq_prefix_refuted : exists cls l r, NoDup (map cls l) /\ NoDup (map cls r) /\ uset_eq_prefix cls l r = true /\ ~ Permutation l r.
Proof.
  exists (fun z => z / 1000), [1005], [1006]. repeat split; try (repeat constructor; simpl; tauto).
  intros P. apply Permutation_length_1 in P. discriminate.
Qed.

(* ---------- unordered_map: elements are abstract pairs with projections kf (key) and vf (mapped) ---------- *)
Section UMapEq.
Variable cls kf vf : Z -> Z.
Hypothesis pair_inj : forall a b, kf a = kf b -> vf a = vf b -> a = b.
Variable l r : list Z.
Variable endv : Z.
Definition m_cont (c : Z) : list Z := if c =? 0 then l else r.
Definition m_size (c : Z) : Z := Z.of_nat (length (m_cont c)).
Definition m_find (c k : Z) : Z := match find_cls (fun y => cls (kf y)) (cls k) (m_cont c) with Some y => y | None => endv end.
Definition m_end (c : Z) : Z := endv.
Definition m_fold (c : Z) (f : Z -> option bool) : option bool := first_some f (m_cont c).
Definition gen_umap_eq : bool := Gen_UMapEq.op_eq Z.eqb kf vf m_size m_find m_end m_fold 0 1.

Theorem gen_umap_eq_iff : NoDup (map (fun y => cls (kf y)) l) -> NoDup (map (fun y => cls (kf y)) r) -> ~ In endv r ->
  (gen_umap_eq = true <-> Permutation l r).
Proof.
  intros NDl NDr Hend. unfold gen_umap_eq, Gen_UMapEq.op_eq, m_size, m_fold, m_find, m_end, it_id.
  change (m_cont 0) with l. change (m_cont 1) with r.
  split.
  - destruct (Z.eqb_spec (Z.of_nat (length l)) (Z.of_nat (length r))) as [EL|EL]; simpl; [|discriminate].
    destruct (first_some _ l) as [v|] eqn:F.
    + intros Hv. subst v. apply first_some_const with (v := false) in F; [discriminate|].
      intros x w. destruct (_ =? endv); [intros H; inversion H; auto|]. destruct (_ || _); intros H; inversion H; auto.
    + intros _. apply first_some_none in F. rewrite Forall_forall in F.
      apply NoDup_Permutation_bis; [apply (nodup_map_nodup (fun y => cls (kf y))); auto|lia|].
      intros x Ix. specialize (F x Ix). simpl in F.
      destruct (find_cls (fun y => cls (kf y)) (cls (kf x)) r) as [y|] eqn:Fy.
      * destruct (find_cls_in _ _ _ _ Fy) as [Iy _]. destruct (Z.eqb_spec y endv); [discriminate|].
        destruct (Z.eqb_spec (kf y) (kf x)); simpl in F; [|discriminate].
        destruct (Z.eqb_spec (vf y) (vf x)); simpl in F; [|discriminate].
        rewrite <- (pair_inj y x); auto.
      * rewrite Z.eqb_refl in F. discriminate.
  - intros P. rewrite (Permutation_length P), Z.eqb_refl. simpl.
    destruct (first_some _ l) as [v|] eqn:F; auto.
    assert (N : first_some (fun ref => let iter := match find_cls (fun y => cls (kf y)) (cls (kf ref)) r with Some y => y | None => endv end in
                  if iter =? endv then Some false
                  else if negb (kf iter =? kf ref) || negb (vf iter =? vf ref) then Some false else None) l = None).
    { apply first_some_none. rewrite Forall_forall. intros x Ix.
      assert (Ir : In x r) by (eapply Permutation_in; eauto).
      rewrite (find_cls_unique (fun y => cls (kf y)) r x NDr Ir). simpl.
      destruct (Z.eqb_spec x endv); [subst; tauto|]. rewrite !Z.eqb_refl. reflexivity. }
    simpl in N. rewrite N in F. discriminate.
Qed.
End UMapEq.

(* ---------- unordered_multimap ---------- *)
(* hand model WITH key classes: Find is by class, the fix 4339d66 compares the stored keys with == afterwards *)
Fixpoint find_cls_entry (cls : Z -> Z) (c : Z) (s : mmstate) : option (Z * list Z) :=
  match s with [] => None | kv :: t => if cls (fst kv) =? c then Some kv else find_cls_entry cls c t end.
Definition mm_eqc_key (cls : Z -> Z) (r : mmstate) (kv : Z * list Z) : bool :=
  if (length (snd kv) =? 0)%nat then true
  else match find_cls_entry cls (cls (fst kv)) r with
       | None => false
       | Some kw => (fst kv =? fst kw) && (length (snd kv) =? length (snd kw))%nat && perm_eqb (kv_pairs kv) (kv_pairs (fst kv, snd kw))
       end.
Definition mm_eqc (cls : Z -> Z) (l r : mmstate) : bool :=
  if negb (mm_count l =? mm_count r)%nat then false else forallb (mm_eqc_key cls r) l.
(* shape before 4339d66: no comparison of the keys themselves *)
Definition mm_eqc_key_prefix (cls : Z -> Z) (r : mmstate) (kv : Z * list Z) : bool :=
  if (length (snd kv) =? 0)%nat then true
  else match find_cls_entry cls (cls (fst kv)) r with
       | None => false
       | Some kw => (length (snd kv) =? length (snd kw))%nat && perm_eqb (kv_pairs kv) (kv_pairs (fst kv, snd kw))
       end.

Lemma find_cls_entry_in cls c s kw : find_cls_entry cls c s = Some kw -> In kw s /\ cls (fst kw) = c.
Proof. induction s as [|z t IH]; simpl; [discriminate|]. destruct (Z.eqb_spec (cls (fst z)) c); [intros H; inversion H; subst; auto|intros H; destruct (IH H); auto]. Qed.
Lemma find_cls_entry_unique cls s kw : NoDup (map (fun kv => cls (fst kv)) s) -> In kw s -> find_cls_entry cls (cls (fst kw)) s = Some kw.
Proof.
  induction s as [|z t IH]; simpl; intros ND I; [tauto|]. inversion ND as [|? ? Hn Hd]; subst.
  destruct I as [E|I]; [subst; rewrite Z.eqb_refl; auto|].
  destruct (Z.eqb_spec (cls (fst z)) (cls (fst kw))) as [E|E]; [exfalso; apply Hn; rewrite E; apply (in_map (fun kv => cls (fst kv))); auto|auto].
Qed.
Lemma findkey_none_notin s k ws : mm_findkey k s = None -> ~ In (k, ws) s.
Proof.
  induction s as [|[k0 vs] t IH]; simpl; auto. destruct (Z.eqb_spec k0 k); [discriminate|].
  intros H [E|I]; [inversion E; congruence|apply (IH H I)].
Qed.

Lemma mm_eqc_is_mm_eq cls l r : NoDup (map (fun kv => cls (fst kv)) r) -> mm_eqc cls l r = mm_eq l r.
Proof.
  intros ND. unfold mm_eqc, mm_eq. destruct (negb (mm_count l =? mm_count r)%nat); auto.
  induction l as [|[k vs] t IH]; simpl; auto. f_equal; auto.
  unfold mm_eqc_key, mm_eq_key. simpl. destruct (length vs =? 0)%nat; auto.
  destruct (mm_findkey k r) as [ws|] eqn:F.
  - pose proof (findkey_in _ _ _ F) as I. pose proof (find_cls_entry_unique cls r (k, ws) ND I) as U. simpl in U. rewrite U. simpl. rewrite Z.eqb_refl. reflexivity.
  - destruct (find_cls_entry cls (cls k) r) as [[k' ws']|] eqn:G; auto.
    destruct (find_cls_entry_in _ _ _ _ G) as [I _]. simpl.
    destruct (Z.eqb_spec k k'); [subst; exfalso; exact (findkey_none_notin _ _ _ F I)|reflexivity].
Qed.

Section UMMapEq.
Variable cls : Z -> Z.
Variable l r : mmstate.
Definition dflt_kv : Z * list Z := (0, []).
Definition entry (z : Z) : Z * list Z :=
  if z mod 2 =? 0 then nth (Z.to_nat (z / 2)) l dflt_kv else nth (Z.to_nat (z / 2)) r dflt_kv.
Fixpoint find_idx (c : Z) (s : mmstate) : option nat :=
  match s with [] => None | kv :: t => if cls (fst kv) =? c then Some 0%nat else option_map S (find_idx c t) end.
Definition c_count (z : Z) : Z :=
  if z =? -2 then Z.of_nat (mm_count l) else if z =? -4 then Z.of_nat (mm_count r) else Z.of_nat (length (snd (entry z))).
Definition c_find (c k : Z) : Z := match find_idx (cls k) r with Some j => 2 * Z.of_nat j + 1 | None => -1 end.
Definition c_key (z : Z) : Z := fst (entry z).
Definition c_null (z : Z) : bool := z <? 0.
Definition c_perm (a _e b : Z) : bool := perm_eqb (kv_pairs (entry a)) (kv_pairs (fst (entry a), snd (entry b))).
Definition c_fold (c : Z) (f : Z -> option bool) : option bool :=
  first_some f (map (fun i => 2 * Z.of_nat i) (seq 0 (length l))).
Definition gen_ummap_eq : bool := Gen_UMMapEq.op_eq c_count c_find c_key c_null c_perm (fun z => z) (fun z => z) c_fold (-2) (-4).

Lemma entry_left i : entry (2 * Z.of_nat i) = nth i l dflt_kv.
Proof.
  unfold entry. replace (2 * Z.of_nat i) with (0 + Z.of_nat i * 2) by lia. rewrite Z.mod_add, Z.div_add by lia. simpl. rewrite Nat2Z.id. reflexivity.
Qed.
Lemma entry_right j : entry (2 * Z.of_nat j + 1) = nth j r dflt_kv.
Proof.
  unfold entry. replace (2 * Z.of_nat j + 1) with (1 + Z.of_nat j * 2) by lia. rewrite Z.mod_add, Z.div_add by lia. simpl. rewrite Nat2Z.id. reflexivity.
Qed.
Lemma find_idx_entry c s : match find_idx c s with Some j => Some (nth j s dflt_kv) | None => None end = find_cls_entry cls c s.
Proof.
  induction s as [|kv t IH]; simpl; auto. destruct (cls (fst kv) =? c); auto.
  rewrite <- IH. destruct (find_idx c t); reflexivity.
Qed.
Lemma first_some_forallb {A} (G : A -> bool) zs : first_some (fun z => if G z then None else Some false) zs = if forallb G zs then None else Some false.
Proof. induction zs as [|z t IH]; simpl; auto. destruct (G z); simpl; auto. Qed.
Lemma first_some_ext {A} (f g : A -> option bool) zs : (forall z, In z zs -> f z = g z) -> first_some f zs = first_some g zs.
Proof. induction zs as [|z t IH]; simpl; intros H; auto. rewrite (H z) by auto. destruct (g z); auto. Qed.
Lemma forallb_index (G : Z -> bool) (g : Z * list Z -> bool) (s : mmstate) k :
  (forall i, (i < length s)%nat -> G (2 * Z.of_nat (k + i)) = g (nth i s dflt_kv)) ->
  forallb G (map (fun i => 2 * Z.of_nat i) (seq k (length s))) = forallb g s.
Proof.
  revert k; induction s as [|kv t IH]; intros k H; simpl; auto. f_equal.
  - specialize (H 0%nat ltac:(simpl; lia)). rewrite Nat.add_0_r in H. exact H.
  - apply IH. intros i Hi. specialize (H (S i) ltac:(simpl; lia)). rewrite <- Nat.add_succ_comm in H. exact H.
Qed.

Lemma gen_ummap_eq_refines : gen_ummap_eq = mm_eqc cls l r.
Proof.
  unfold gen_ummap_eq, Gen_UMMapEq.op_eq, mm_eqc, it_id, c_fold.
  change (c_count (-2)) with (Z.of_nat (mm_count l)). change (c_count (-4)) with (Z.of_nat (mm_count r)).
  assert (EC : (Z.of_nat (mm_count l) =? Z.of_nat (mm_count r)) = (mm_count l =? mm_count r)%nat).
  { destruct (Z.eqb_spec (Z.of_nat (mm_count l)) (Z.of_nat (mm_count r))), (Nat.eqb_spec (mm_count l) (mm_count r)); auto; lia. }
  rewrite EC. destruct (negb (mm_count l =? mm_count r)%nat); auto.
  rewrite (first_some_ext _ (fun z => if mm_eqc_key cls r (entry z) then None else Some false)).
  - rewrite first_some_forallb, (forallb_index _ (mm_eqc_key cls r) l 0).
    + destruct (forallb (mm_eqc_key cls r) l); reflexivity.
    + intros i Hi. change (0 + i)%nat with i. cbv beta. rewrite entry_left. reflexivity.
  - intros z Iz. apply in_map_iff in Iz. destruct Iz as [i [Ez _]]. subst z.
    unfold mm_eqc_key, c_count, c_key, c_null, c_perm, c_find.
    assert (N2 : (2 * Z.of_nat i =? -2) = false) by (apply Z.eqb_neq; lia).
    assert (N4 : (2 * Z.of_nat i =? -4) = false) by (apply Z.eqb_neq; lia).
    rewrite N2, N4.
    assert (L0 : (Z.of_nat (length (snd (entry (2 * Z.of_nat i)))) =? 0) = (length (snd (entry (2 * Z.of_nat i))) =? 0)%nat).
    { destruct (Z.eqb_spec (Z.of_nat (length (snd (entry (2 * Z.of_nat i))))) 0), (Nat.eqb_spec (length (snd (entry (2 * Z.of_nat i)))) 0); auto; lia. }
    rewrite L0. destruct (length (snd (entry (2 * Z.of_nat i))) =? 0)%nat; auto.
    rewrite <- (find_idx_entry (cls (fst (entry (2 * Z.of_nat i)))) r).
    destruct (find_idx (cls (fst (entry (2 * Z.of_nat i)))) r) as [j|].
    + assert (P : (2 * Z.of_nat j + 1 <? 0) = false) by (apply Z.ltb_ge; lia). rewrite P.
      assert (M2 : (2 * Z.of_nat j + 1 =? -2) = false) by (apply Z.eqb_neq; lia).
      assert (M4 : (2 * Z.of_nat j + 1 =? -4) = false) by (apply Z.eqb_neq; lia).
      rewrite M2, M4, entry_right.
      set (kv := entry (2 * Z.of_nat i)). set (kw := nth j r dflt_kv).
      assert (LC : (Z.of_nat (length (snd kv)) =? Z.of_nat (length (snd kw))) = (length (snd kv) =? length (snd kw))%nat).
      { destruct (Z.eqb_spec (Z.of_nat (length (snd kv))) (Z.of_nat (length (snd kw)))), (Nat.eqb_spec (length (snd kv)) (length (snd kw))); auto; lia. }
      rewrite LC. destruct (fst kv =? fst kw); simpl; auto. destruct (length (snd kv) =? length (snd kw))%nat; simpl; auto.
      destruct kv as [k vs]. simpl. destruct (perm_eqb _ _); reflexivity.
    + reflexivity.
Qed.

Theorem gen_ummap_eq_iff : NoDup (map (fun kv => cls (fst kv)) l) -> NoDup (map (fun kv => cls (fst kv)) r) ->
  (gen_ummap_eq = true <-> Permutation (mm_pairs l) (mm_pairs r)).
Proof.
  intros NDl NDr. rewrite gen_ummap_eq_refines, mm_eqc_is_mm_eq by auto.
  apply mm_eq_iff_pairs_permutation.
  - rewrite <- (map_map fst cls) in NDl. apply (nodup_map_nodup cls); auto.
  - rewrite <- (map_map fst cls) in NDr. apply (nodup_map_nodup cls); auto.
Qed.
End UMMapEq.

(* the shapes before the fixes are refuted *)
Lemma mm_eqc_prefix_4339d66_refuted : exists cls l r, NoDup (map (fun kv => cls (fst kv)) l) /\ NoDup (map (fun kv => cls (fst kv)) r) /\
  forallb (mm_eqc_key_prefix cls r) l = true /\ mm_count l = mm_count r /\ ~ Permutation (mm_pairs l) (mm_pairs r).
Proof.
  exists (fun z => z / 1000), [(1005, [7])], [(1006, [7])]. repeat split; try (repeat constructor; simpl; tauto).
  intros P. apply Permutation_length_1 in P. discriminate.
Qed.

(* ---------- executable instances used by the extracted driver (tie of the generated == to the real containers) ---------- *)
Definition EM : Z := 2097152.   (* 2^21: payloads / mapped values of the generated cases are in [0, 2^21) *)
Definition enc_elem (e : elem) : Z := fst e * EM + snd e.
Definition below_all (zs : list Z) : Z := fold_right Z.min 0 zs - 1.
(* unordered_set of {k,id} elements hashed / compared by k: class = k *)
Definition gen_uset_eq_run (l r : list elem) : bool :=
  gen_uset_eq (fun z => z / EM) (map enc_elem l) (map enc_elem r) (below_all (map enc_elem r)).
(* unordered_map: kcls = key-equivalence class of a key (identity for int keys, k/1000 for the identity-tagged keys) *)
Definition gen_umap_eq_run (kcls : Z -> Z) (l r : list elem) : bool :=
  gen_umap_eq kcls (fun z => z / EM) (fun z => z mod EM) (map enc_elem l) (map enc_elem r) (below_all (map enc_elem r)).
Definition gen_ummap_eq_run (kcls : Z -> Z) (l r : mmstate) : bool := gen_ummap_eq kcls l r.
