(* Extraction of the hand-written executable models of C08. ExtrOcamlBasic only. *)
From Coq Require Import ZArith List Extraction ExtrOcamlBasic.
From C08 Require ArrayBucketModel MultiMapModel.
Separate Extraction
  ArrayBucketModel.ab_step ArrayBucketModel.ab_null ArrayBucketModel.rcount ArrayBucketModel.rcap
  ArrayBucketModel.pool_of ArrayBucketModel.fcount_of
  MultiMapModel.step MultiMapModel.st_empty MultiMapModel.traverse MultiMapModel.get_count
  MultiMapModel.get_key_count MultiMapModel.find MultiMapModel.evals MultiMapModel.lin_pred.
