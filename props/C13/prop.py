"""C13 – open-addressing lookups examine every slot where the key can be.
tie: T-gen (cxx2coq on BucketOpen2N2 / BucketOpenN1 / BucketOpen8) + translator validation against the real code."""
import os

GEN = ['gen_hs_add.json', 'gen_hs_findin.json', 'gen_open2n2_ops.json', 'gen_openn1_ops.json', 'gen_open2n2.json', 'gen_open2n2_m1.json', 'gen_open2n2_m2.json', 'gen_open2n2_nf.json', 'gen_openn1.json', 'gen_open8.json', 'gen_base.json']

def gen_cases(ctx, scale):
    r = ctx.rng
    cases = []
    edge = [0, 1, 2, 6, 7, 8, 9, 127, 128, 254, 255, 256, 257, 510, 511, 512]
    for k in range(3, 64):
        edge += [2 ** k - 1, 2 ** k, 2 ** k + 1]
    edge = sorted(set(e for e in edge if e <= 2 ** 63))
    # translator validation on every byte state (one probe each)
    for s0 in range(0, 256, 1 if scale > 1 else 5):
        for s1 in (0, 1, 3, 4, 7, 8 * 4 + 2, 56 * 4 + 1, 57 * 4, 63 * 4 + 3):
            cases.append('o2 %d %d %d' % (s0, s1, r.choice(edge)))
    for m in range(1, 8):
        for x in range(0, 256, 1 if scale > 1 else 3):
            L = r.range(0, 63)
            cases.append('n1 %d %d %d %d' % (m, x, L, r.choice([e for e in edge if e < 2 ** L] or [0])))
    # reachable histories from the empty bucket
    for e in edge:
        cases.append('o2 0 %d %d' % (r.below(4), e))
    for i in range(400 * scale):
        n = r.range(1, 6)
        ps = []
        for _ in range(n):
            t = r.below(4)
            if t == 0: ps.append(r.choice(edge))
            elif t == 1: ps.append(r.below(600))
            elif t == 2: ps.append(r.below(2 ** r.range(1, 63)) + 1)
            else: ps.append(min(2 ** 63, max(0, r.choice(edge) + r.range(-3, 3))))
        cases.append('o2 0 %d %s' % (r.below(4), ' '.join(map(str, ps))))
        L = r.range(1, 63); m = r.range(1, 7)
        qs = [p % (2 ** L) for p in ps]
        cases.append('n1 %d 0 %d %s' % (m, L, ' '.join(map(str, qs))))
    for p in range(1, 3000 * scale):
        cases.append('o2 0 0 %d' % p)
        cases.append('n1 %d 0 40 %d' % (1 + p % 7, p))
    for i in range(300 * scale):
        n = r.range(0, 63); bc = 2 ** n
        cases.append('nx %s %d %d %d' % (r.choice(['o2', 'o8']), r.below(bc), bc, r.below(bc)))
    top = 2 ** 20 if scale == 1 else 2 ** 26
    step = top // 8
    for kind in ('o2', 'n1', 'o8'):
        for lo in range(0, top, step):
            cases.append('sweep %s %d %d' % (kind, lo, lo + step))
    for n in range(0, 13 if scale == 1 else 25):
        for kind in ('o2', 'o8'):
            cases.append('cov %s %d %d' % (kind, n, r.below(2 ** n)))
    return cases

def gen_table_cases(ctx, scale):
    """real HashSet with Open2N2<3> / Open8 buckets vs the table-level model OpenTable.v (bucket contents + bounds)"""
    r = ctx.rng; out = []
    for i in range(120 * scale):
        kind = r.choice(['o2', 'o8']); n = r.choice([4, 4, 5, 6]); cap = 3 if kind == 'o2' else 7
        maxm = {4: 40, 5: 80, 6: 160}[n] if kind == 'o2' else {4: 70, 5: 140, 6: 280}[n]
        m = r.range(1, maxm); mode = r.below(5)
        keys = list(range(1, 4 * m)); r.shuffle(keys); keys = keys[:m]
        homes = [r.below(2 ** n) for _ in range(r.range(1, 3))]
        kh = []
        for k in keys:
            if mode == 0: hc = homes[0]                                   # constant home bucket: longest probe chains
            elif mode == 1: hc = r.choice(homes) + (r.below(1 << 20) << n)  # few homes, varying high bits
            elif mode == 2: hc = r.next()                                 # uniform
            elif mode == 3: hc = (k * 0x9E3779B97F4A7C15) & (2 ** 64 - 1)
            else: hc = k & 3
            kh.append('%d:%d' % (k, hc))
        out.append('tblm %s %d %d %s' % (kind, n, cap, ' '.join(with_removals(r, kh, r.choice([0, 0, 25, 50])))))
    # full-load tables: capacity = every slot; fill the table to the very last slot (the last insertions need
    # probes up to bucketCount-1), with one or two home buckets
    for i in range(12 * scale):
        kind = r.choice(['o2f', 'o8f']); n = 4; cap = 3 if kind == 'o2f' else 7
        total = (2 ** n) * cap
        m = total - r.choice([0, 0, 0, 1, 2])
        keys = list(range(1, total + 50)); r.shuffle(keys); keys = keys[:m]
        homes = [r.below(2 ** n) for _ in range(r.choice([1, 1, 2]))]
        kh = ['%d:%d' % (k, r.choice(homes) + (r.below(1 << 20) << n)) for k in keys]
        if i % 3 == 2:   # fill completely, free a few slots anywhere, fill again: the refill must reach the freed buckets
            rm = ['-' + kh[j].split(':')[0] for j in sorted({r.below(len(kh)) for _ in range(5)})]
            extra = ['%d:%d' % (100000 + j, r.choice(homes) + (r.below(1 << 20) << n)) for j in range(len(rm) + 1)]
            kh = kh + rm + extra
        out.append('tblm %s %d %d %s' % (kind, n, cap, ' '.join(kh)))
    return out

def with_removals(r, kh, pct):
    """interleave removals of live keys (and later re-insertions of removed ones, same hash) into an insertion list"""
    if pct == 0: return kh
    out = []; live = []; dead = []
    for tok in kh:
        out.append(tok); live.append(tok)
        while live and r.below(100) < pct:
            j = r.below(len(live)); t = live.pop(j); out.append('-' + t.split(':')[0]); dead.append(t)
        if dead and r.below(100) < pct // 2:
            t = dead.pop(r.below(len(dead))); out.append(t); live.append(t)
    return out

def gen_bucket_op_cases(ctx, scale):
    """AddCrt / Remove / UpdateMaxProbe / Clear sequences on ONE real bucket vs the generated functions (all bookkeeping bytes)"""
    r = ctx.rng; out = []
    for i in range(400 * scale):
        kind = r.choice(['o2', 'n1', 'n1f', 'n1f']); m = r.range(1, 3) if kind == 'o2' else r.choice([7, r.range(1, 7)]); L = r.range(1, 63)
        cnt = 0; toks = []
        for _ in range(r.range(1, 40)):
            c = r.below(10)
            if c < 4 and cnt < m:
                hc = r.choice([r.next(), r.below(1 << 20), (r.below(256) << 56) | r.below(1 << 16), 2 ** 64 - 1, 0])
                toks.append('A:%d:%d:%d' % (hc, r.range(0, 63), r.choice([0, 1, r.below(300), r.below(1 << 20)]))); cnt += 1
            elif c < 7 and cnt > 0:
                toks.append('R:%d' % r.below(cnt)); cnt -= 1
            elif c < 9:
                toks.append('U:%d' % min(2 ** L - 1, r.choice([0, 1, r.below(8), r.below(300), 254, 255, 256, r.below(1 << 20), r.below(2 ** L), 2 ** L - 1])))
            elif r.below(4) == 0:
                toks.append('C:0'); cnt = 0
        out.append('bops %s %d %d %s' % (kind, m, L, ' '.join(toks)))
    return out

def oracle(ctx, cases, impl_lines):
    """the property itself, evaluated on the real code's outputs (independent of the Coq model)"""
    bad = []
    for c, out in zip(cases, impl_lines):
        w = c.split()
        try:
            if w[0] == 'o2' and w[1] == '0' and int(w[2]) < 4:
                s0, s1, bound, cnt = map(int, out.split())
                ps = list(map(int, w[3:]))
                if bound < max(ps + [0]) or cnt != int(w[2]):
                    bad.append((c, out, 'Open2N2 bound %d < max probe %d or count bits changed' % (bound, max(ps + [0]))))
                if max(ps + [0]) > 255: ctx.nontrivial.add(c)
            elif w[0] == 'n1' and w[2] == '0':
                x, bound = map(int, out.split())
                ps = list(map(int, w[4:]))
                if bound < max(ps + [0]):
                    bad.append((c, out, 'OpenN1 bound %d < max probe %d' % (bound, max(ps + [0]))))
                if max(ps + [0]) > 7: ctx.nontrivial.add(c)
            elif w[0] == 'tblm':
                if out.strip() != 'skip':
                    if 'found=true' not in out:
                        bad.append((c, out, 'a key inserted into the open-addressing table is not found'))
                    if 'badfull=true' in out:
                        bad.append((c, out, 'insertion reported "Hash table is full" although a bucket still had room'))
                    # a bound > 7 (Open8) / any displaced element makes the case non-trivial
                    if any(int(x.split(':')[2]) > 0 for x in out.split(' ')[0].split(';') if x): ctx.nontrivial.add(c[:200])
            elif w[0] == 'bops':
                if out.strip() == 'stuck':
                    bad.append((c, out, 'generator produced an invalid bucket operation')); continue
                nums = list(map(int, out.split())); cnt, bound = nums[-2], nums[-1]
                exp_cnt = 0; mx = 0
                for t in w[4:]:
                    if t[0] == 'A': exp_cnt += 1
                    elif t[0] == 'R': exp_cnt -= 1
                    elif t[0] == 'U': mx = max(mx, int(t[2:]))
                    else: exp_cnt = 0; mx = 0
                if bound < mx:
                    bad.append((c, out, 'bucket bound %d < largest recorded displacement %d after AddCrt/Remove/UpdateMaxProbe history' % (bound, mx)))
                if cnt != exp_cnt:
                    bad.append((c, out, 'bucket count %d != %d items after the history' % (cnt, exp_cnt)))
                if mx > 255 and any(t[0] in 'AR' for t in w[4:]): ctx.nontrivial.add(c[:200])
            elif w[0] == 'sweep':
                if out.strip() != 'ok':
                    bad.append((c, out, 'encoder bound below a recorded probe in the exhaustive sweep: ' + out))
                ctx.nontrivial.add(c)
            elif w[0] == 'cov':
                if int(out) != 2 ** int(w[2]):
                    bad.append((c, out, 'probe sequence visits %s of %d buckets' % (out, 2 ** int(w[2]))))
                if int(w[2]) > 2: ctx.nontrivial.add(c)
        except ValueError:
            bad.append((c, out, 'unparsable implementation output'))
    return bad

def replay(ctx, rp):
    """re-run one recorded case against the current tree"""
    harness = ctx.cxx('harness.cpp', 'harness')
    if harness is None:
        print('harness does not build'); return 2
    case = rp.get('case')
    if not case:
        print('replay has no concrete case (no-failing-input-found): broken stages were', list(rp.get('broken', {}).keys())); return 1
    path = os.path.join(ctx.build, 'replay.cases'); open(path, 'w').write(case + '\n')
    rc, lines, err = ctx.run_lines([harness], path)
    bad = oracle(ctx, [case], lines)
    print('case:', case, '\nimplementation:', lines[0] if lines else err)
    if bad:
        print('VIOLATION property=C13 replay=%s' % ctx.replay); return 1
    print('property holds on this case'); return 0

def run(ctx):
    scale = 1 if ctx.quick() else 8
    ctx.trusted += ['tools/cxx2coq.py + clang 14 JSON AST (validated on every run against the real functions)',
                    'extraction: ExtrOcamlBasic only (no Extract Constant), OCaml 4.13.1, zarith for decimal I/O only',
                    'g++ 12 -std=c++17, harness reaches private members via #define private public']
    ctx.assumptions += ['probes are below the bucket count (<= 2^63), as guaranteed by HashSet::pvAddNogrow',
                        'mState/mData bytes are in [0,256) (uint8_t)', 'L1 hash-table level statements (present key found) live in C01']
    ctx.regen(GEN)
    ctx.prove()
    harness = ctx.cxx('harness.cpp', 'harness')
    if harness is None:
        ctx.stage('build-harness', False, getattr(ctx, 'last_cxx_error', ''))
        return ctx.finish(rule=RULE)
    cases = gen_cases(ctx, scale) + gen_bucket_op_cases(ctx, scale)
    tcases = gen_table_cases(ctx, scale)
    path = os.path.join(ctx.build, 'tbl.cases'); open(path, 'w').write('\n'.join(tcases) + '\n')
    rc0, l0, e0 = ctx.run_lines([harness], path)
    tcases = [c for c, o in zip(tcases, l0) if o.strip() != 'skip'] if rc0 == 0 else tcases
    have_model = ctx.stages.get('prove', {}).get('ok') and ctx.extract()
    if not have_model:
        cases = cases + tcases
    if have_model:
        mism_t, _ = ctx.correspond('table-model-vs-HashSet', tcases, [harness], [ctx.model_exe])
        ctx.tie_obligations.append({'name': 'OpenTable.v model == real HashSet<Open2N2<3>|Open8> bucket contents and bounds on %d insertion histories' % len(tcases), 'ok': not mism_t})
        for (i, c, a, b) in mism_t[:2]:
            ctx.violation('table-level model and real HashSet disagree', {'case': c, 'impl': a, 'model': b}, found_input=True)
        cases = cases + tcases
        corr_cases = [c for c in cases if not c.startswith('cov') and not c.startswith('tblm') and not c.startswith('sweep')]
        mism, _ = ctx.correspond('translator-validation', corr_cases, [harness], [ctx.model_exe])
        ctx.tie_obligations.append({'name': 'generated Gallina == real C++ on %d cases' % len(corr_cases), 'ok': not mism})
        for (i, c, a, b) in mism[:3]:
            ctx.violation('generated model and implementation disagree', {'case': c, 'impl': a, 'model': b,
                          'cmd': 'echo "%s" | build/C13/harness' % c}, found_input=True)
    # the property predicate on the real code (always; this is also the search stage when a proof/tie broke)
    if any(not s['ok'] for s in ctx.stages.values()):
        ctx.log('a stage broke: searching the implementation for a failing input with the thorough generator')
        cases = cases + gen_cases(ctx, 8) + gen_bucket_op_cases(ctx, 8) + gen_table_cases(ctx, 4)
    path = os.path.join(ctx.build, 'oracle.cases')
    open(path, 'w').write('\n'.join(cases) + '\n')
    rc, lines, err = ctx.run_lines([harness], path)
    ctx.evaluations += len(cases)
    bad = oracle(ctx, cases, lines) if rc == 0 else [('(harness)', err[-300:], 'harness crashed')]
    ctx.stage('oracle', not bad, bad[0][2] if bad else '')
    for (c, out, why) in bad[:3]:
        ctx.violation(why, {'case': c, 'impl_output': out, 'cmd': 'echo "%s" | build/C13/harness' % c}, found_input=True)
    for c in cases[::max(1, len(cases) // 6)][:6]:
        ctx.add_sample(c)
    ctx.coverage['input_distribution'] = {k: sum(1 for c in cases if c.startswith(k)) for k in ('o2', 'n1', 'nx', 'cov', 'tblm', 'sweep', 'bops')}
    return ctx.finish(rule=RULE)

RULE = ('cases = boundary grid (0,1,2^k-1,2^k,2^k+1 up to 2^63) x all byte states (translator validation) + random update '
        'histories from the empty bucket + exhaustive probes 1..3000*scale via model+code and 0..2^20 (thorough 2^26) on the real '
        'encoders (fresh + accumulating bucket) + probe-sequence coverage for table sizes 2^0..2^12 (2^24 thorough) + real HashSet '
        'tables (Open2N2<3>, Open8; 2^4..2^6 buckets; also filled to the last slot) against the table-level model; distinct = distinct case line; non-trivial = history whose largest probe needs the lossy encoding '
        '(>255 for Open2N2, >7 for OpenN1) or a coverage run with more than 4 buckets')
