(* C02 (growth round 5) -- meaning of the dumped statement trees (Gen_TreeProto.v) of the pointer-walking TreeSet functions.
   A Node* is a PATH from the root into the hand model's tree value (nullptr = None): GetChild appends the child index, GetParent
   drops the last one, GetChildIndex(child) is the child's last index, GetCount / IsLeaf read the node at the path.  An iterator value
   is (path, item index) - exactly the hand model's `iter`.  pvFindFirst(node, itemPred) is the GENERATED in-node search
   (Gen_FindFirst).  Statements the interpreter does not know make the run fail (RErr), they are never skipped; MOMO_ASSERT / MOMO_CHECK are
   obligations: a false condition ends the run with RStuck. *)
From Coq Require Import String List ZArith Bool Lia Arith.
From MomoCommon Require Import GenPrelude.
From C02 Require Import ProtoSyntaxC02 Gen_FindFirst BTreeModel BTreeSearchGen.
Import ListNotations.
Local Open Scope string_scope.

Inductive value :=
| VNum (z : Z)
| VPtr (p : option (list nat))          (* Node*: path from the root, None = nullptr *)
| VIt (p : list nat) (i : nat)          (* iterator (node, itemIndex) *)
| VItNull                               (* ConstIterator() *)
| VUnit.

Definition env := string -> option value.
Definition set (e : env) (x : string) (v : value) : env := fun y => if String.eqb y x then Some v else e y.

Inductive res := RNormal (e : env) | RBreak (e : env) | RReturn (v : value) (e : env) | RStuck (* a MOMO_ASSERT / MOMO_CHECK obligation is violated *) | RErr.
Definition ret_of (r : res) : option value := match r with RReturn v _ => Some v | _ => None end.

Section Sem.
Variables (linear : bool) (P : Z -> bool) (r : node).
(* statement-level calls on `this` without arguments (pvMoveIf, pvMove, VersionKeeper::Check): given by the caller *)
Variable calls : string -> env -> option env.

Definition nd (p : list nat) : option node := node_at p r.
Definition vbool (b : bool) : value := VNum (if b then 1 else 0)%Z.
Definition truthy (v : value) : option bool :=
  match v with VNum z => Some (negb (z =? 0)%Z) | VPtr p => Some (match p with Some _ => true | None => false end) | _ => None end.
Definition veq (a b : value) : option bool :=
  match a, b with
  | VNum x, VNum y => Some (x =? y)%Z
  | VPtr p, VPtr q => Some (match p, q with Some a', Some b' => list_eqb a' b' | None, None => true | _, _ => false end)
  | VPtr p, VNum 0%Z | VNum 0%Z, VPtr p => Some (match p with None => true | Some _ => false end)
  | _, _ => None
  end.

Definition binop (op : string) (va vb : value) : option value :=
  if op =? "==" then option_map vbool (veq va vb)
  else if op =? "!=" then option_map (fun t => vbool (negb t)) (veq va vb)
  else match va, vb with
       | VNum x', VNum y' =>
           if op =? "<" then Some (vbool (x' <? y')%Z) else if op =? "+" then Some (VNum (x' + y')) else if op =? "-" then Some (VNum (x' - y')) else None
       | _, _ => None
       end.

(* a call: `obj` = None for a call on this / a free function, otherwise the value of the object expression; `args` evaluated *)
Definition call_sem (is_this : bool) (obj : option value) (m : string) (raw : list pexpr) (args : list (option value)) : option value :=
  if is_this then
    if m =? "GetEnd" then match args with [] => Some (VIt [] (n_count r)) | _ => None end
    else if m =? "pvMakeIterator" then
      match raw, args with
      | [_; _; ENum 0%Z], [Some (VPtr (Some p)); Some (VNum i); _] => Some (VIt p (Z.to_nat i))      (* move = false *)
      | _, _ => None
      end
    else if m =? "pvFindFirst" then
      match raw, args with
      | [_; EVar pr], [Some (VPtr (Some p)); _] =>
          if pr =? "itemPred" then
            match nd p with
            | Some n => match Gen_FindFirst.pvFindFirst_node linear (Z.of_nat (n_count n)) (ipred P (n_items n)) with Ok z => Some (VNum z) | _ => None end
            | None => None
            end
          else None
      | _, _ => None
      end
    else None
  else
    match obj with
    | Some (VPtr (Some p)) =>
        if m =? "GetCount" then match args, nd p with [], Some n => Some (VNum (Z.of_nat (n_count n))) | _, _ => None end
        else if m =? "IsLeaf" then match args, nd p with [], Some n => Some (vbool (is_leaf n)) | _, _ => None end
        else if m =? "GetChild" then
          match args with
          | [Some (VNum i)] => match nd (p ++ [Z.to_nat i])%list with Some _ => if (0 <=? i)%Z then Some (VPtr (Some (p ++ [Z.to_nat i])%list)) else None | None => None end
          | _ => None
          end
        else if m =? "GetParent" then match args with [] => Some (VPtr (match p with [] => None | _ => Some (removelast p) end)) | _ => None end
        else if m =? "GetChildIndex" then
          match args with
          | [Some (VPtr (Some c))] =>
              if list_eqb (removelast c) p && negb (match c with [] => true | _ => false end) then Some (VNum (Z.of_nat (last c 0%nat))) else None
          | _ => None
          end
        else None
    | _ => None
    end.

Fixpoint eval (e : env) (x : pexpr) {struct x} : option value :=
  match x with
  | EVar v => e v
  | ENum z => Some (VNum z)
  | ECtor t args => if (t =? "ConstIterator") && (match args with [] => true | _ => false end) then Some VItNull else None
  | EUn op a =>
      if op =? "*" then match a with EVar v => if v =? "this" then Some VUnit else None | _ => None end
      else if op =? "!" then match eval e a with Some v => option_map (fun b => vbool (negb b)) (truthy v) | None => None end
      else None
  | EBin op a b => match eval e a, eval e b with Some va, Some vb => binop op va vb | _, _ => None end
  | ECall obj m args =>
      match obj with
      | ENone => call_sem true None m args (map (eval e) args)
      | _ => call_sem false (eval e obj) m args (map (eval e) args)
      end
  | _ => None
  end.

(* statement forms: `x = e;`, `++x;`, `f();` on this *)
Inductive sform := FAssign (x : string) (rhs : pexpr) | FIncr (x : string) | FCall (name : string) | FBad.
Definition sform_of (x : pexpr) : sform :=
  match x with
  | EBin op (EVar v) rhs => if op =? "=" then FAssign v rhs else FBad
  | EUn op (EVar v) => if op =? "++" then FIncr v else FBad
  | ECall ENone name [] => FCall name
  | _ => FBad
  end.

Fixpoint exec (fuel : nat) (e : env) (ss : list pstmt) {struct fuel} : res :=
  match fuel with
  | 0 => RErr
  | S f =>
      match ss with
      | [] => RNormal e
      | s :: rest =>
          let continue_with (x : res) := match x with RNormal e' => exec f e' rest | other => other end in
          match s with
          | SDecl x init => match eval e init with Some v => exec f (set e x v) rest | None => RErr end
          | SExpr x =>
              match sform_of x with
              | FAssign v rhs => match eval e rhs with Some w => exec f (set e v w) rest | None => RErr end
              | FIncr v => match e v with Some (VNum z) => exec f (set e v (VNum (z + 1))) rest | _ => RErr end
              | FCall name => match calls name e with Some e' => exec f e' rest | None => RErr end
              | FBad => RErr
              end
          | SIf c th el =>
              match eval e c with
              | Some v => match truthy v with Some b => continue_with (exec f e (if b then th else el)) | None => RErr end
              | None => RErr
              end
          | SWhile c body =>
              match eval e c with
              | Some v =>
                  match truthy v with
                  | Some true => match exec f e body with
                                 | RNormal e' => exec f e' (SWhile c body :: rest)
                                 | RBreak e' => exec f e' rest
                                 | other => other
                                 end
                  | Some false => exec f e rest
                  | None => RErr
                  end
              | None => RErr
              end
          | SAssert c =>
              match eval e c with
              | Some v => match truthy v with Some true => exec f e rest | Some false => RStuck | None => RErr end
              | None => RErr
              end
          | SBreak => RBreak e
          | SReturn x => match eval e x with Some v => RReturn v e | None => RErr end
          | _ => RErr
          end
      end
  end.
End Sem.
