(* C18 -- facts about the GENERATED GetVertices (Gen_Vertices.v): both vertices are inside the vertex array
   and they are different (no self loops), for every logVertexCount 4..15, every code, every code parameter. *)
From Coq Require Import ZArith Bool List Lia.
From MomoCommon Require Import GenPrelude.
From C18 Require Import Gen_Vertices.
Local Open Scope Z_scope.

Lemma lxor_lt_pow2 a b n : 0 < n -> 0 <= a < 2 ^ n -> 0 <= b < 2 ^ n -> 0 <= Z.lxor a b < 2 ^ n.
Proof.
  intros Hn Ha Hb.
  assert (H0 : 0 <= Z.lxor a b) by (apply Z.lxor_nonneg; lia).
  split; [exact H0|].
  destruct (Z.eq_dec (Z.lxor a b) 0) as [->|Hne]; [apply Z.pow_pos_nonneg; lia|].
  apply Z.log2_lt_pow2; [lia|].
  pose proof (Z.log2_lxor a b ltac:(lia) ltac:(lia)) as Hl.
  assert (Z.log2 a < n).
  { destruct (Z.eq_dec a 0) as [->|]; [simpl; lia|]. apply Z.log2_lt_pow2; lia. }
  assert (Z.log2 b < n).
  { destruct (Z.eq_dec b 0) as [->|]; [simpl; lia|]. apply Z.log2_lt_pow2; lia. }
  lia.
Qed.

Lemma lxor_1_neq v : Z.lxor v 1 <> v.
Proof.
  intros H. assert (E : Z.lxor v (Z.lxor v 1) = Z.lxor v v) by (rewrite H; reflexivity).
  rewrite <- Z.lxor_assoc, Z.lxor_nilpotent, Z.lxor_0_l in E. discriminate.
Qed.

Lemma GetVertices_range L code cp : 4 <= L <= 15 -> 0 <= cp <= 255 ->
  0 <= fst (GetVertices L code cp) < 2 ^ L /\ 0 <= snd (GetVertices L code cp) < 2 ^ L /\
  fst (GetVertices L code cp) <> snd (GetVertices L code cp).
Proof.
  intros HL Hcp. unfold GetVertices. cbv zeta.
  match goal with |- context [Z.land ?s (wrapU 64 (wrapU 64 (Z.shiftl 1 L) - 1))] => generalize s end.
  intros s.
  assert (P : 16 <= 2 ^ L) by (change 16 with (2 ^ 4); apply Z.pow_le_mono_r; lia).
  assert (P2 : 2 ^ L <= 2 ^ 15) by (apply Z.pow_le_mono_r; lia).
  assert (EM : wrapU 64 (wrapU 64 (Z.shiftl 1 L) - 1) = Z.ones L).
  { rewrite Z.shiftl_1_l. rewrite (wrapU_small 64 (2 ^ L)) by lia. rewrite wrapU_small by lia.
    rewrite Z.ones_equiv. lia. }
  rewrite EM. rewrite !Z.land_ones by lia.
  change 15 with (Z.ones 4). rewrite Z.land_ones by lia.
  rewrite Z.shiftr_div_pow2 by lia.
  pose proof (Z.mod_pos_bound s (2 ^ L) ltac:(lia)) as B1.
  pose proof (Z.mod_pos_bound (Z.shiftr s L) (2 ^ L) ltac:(lia)) as B2.
  pose proof (Z.mod_pos_bound cp (2 ^ 4) ltac:(lia)) as B3.
  assert (B4 : 0 <= cp / 2 ^ 4 < 16).
  { split; [apply Z.div_pos; lia|]. apply Z.div_lt_upper_bound; lia. }
  set (v1 := Z.lxor (s mod 2 ^ L) (cp / 2 ^ 4)).
  set (v2 := Z.lxor (Z.shiftr s L mod 2 ^ L) (cp mod 2 ^ 4)).
  assert (L0 : 0 < L) by lia.
  assert (B3' : 0 <= cp mod 2 ^ 4 < 2 ^ L).
  { split; [apply B3|]. eapply Z.lt_le_trans; [apply B3|exact P]. }
  assert (B4' : 0 <= cp / 2 ^ 4 < 2 ^ L).
  { split; [apply B4|]. eapply Z.lt_le_trans; [apply B4|exact P]. }
  assert (H1 : 0 <= v1 < 2 ^ L) by (apply lxor_lt_pow2; assumption).
  assert (H2 : 0 <= v2 < 2 ^ L) by (apply lxor_lt_pow2; assumption).
  assert (B5 : 0 <= 1 < 2 ^ L) by (clear - P; lia).
  clearbody v1 v2. clear B1 B2 B3 B4 B3' B4' EM.
  simpl fst; simpl snd.
  destruct (Z.eqb_spec v1 v2) as [E|E].
  - rewrite (wrapU_small 64 1) by lia. split; [exact H1|]. split.
    + apply lxor_lt_pow2; assumption.
    + rewrite E. intros H. symmetry in H. exact (lxor_1_neq v2 H).
  - rewrite (wrapU_small 64 0) by lia. rewrite Z.lxor_0_r. auto.
Qed.
