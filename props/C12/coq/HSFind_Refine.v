(* C12: HashSet::pvFind(key) (HashSet.h:1043-1064) GENERATED (Gen_HSFind.pvFindKey: the walk over chained bucket generations,
   `buckets = buckets->GetNextBuckets()`, stop at the first non-null iterator / at nullptr) refines the hand-written walks
   TableP4.pfind_gens and TableO2.find_gens.  The per-generation search pvFind(indexCode, *buckets, pred), GetNextBuckets and
   the hash are Section variables of the generated code; here they are instantiated by "generation i (0 = newest) lives at
   pointer i+1, 0 is nullptr" and by the per-table models pfind / find.  Mutant J1 (the walk never advances) breaks hs_loop. *)
From Coq Require Import ZArith Bool List Lia.
From MomoCommon Require Import GenPrelude.
From C12 Require Import Bits Known Gen_Base Gen_P4 TableP4 TableP4_Proofs TableP4_Find Gen_O2 Gen_O2MP TableO2 TableO2_Proofs TableO2_Find TableOne TableOne_Proofs GensFind Gen_HSFind Gen_HSFindIn.
Import ListNotations.
Local Open Scope Z_scope.

Section Walk.
Variable A : Type.
Variable tf : Z -> A -> outcome (option (Z * Z)).     (* pvFind(indexCode, *buckets, pred) on one generation: (bucket, slot) *)
Variable enc : option (Z * Z) -> Z.                    (* BucketIterator as a number; BucketIterator() = 0 *)
Hypothesis enc_none : enc None = 0.
Hypothesis enc_some : forall x, enc (Some x) <> 0.

Fixpoint walk (h : Z) (gens : list A) : outcome (option (nat * Z * Z)) :=
  match gens with
  | [] => Ok None
  | a :: r =>
    match tf h a with
    | Ok (Some (b, s)) => Ok (Some (O, b, s))
    | Ok None => match walk h r with
                 | Ok (Some (g, b, s)) => Ok (Some (S g, b, s))
                 | Ok None => Ok None
                 | Stuck => Stuck | Fuel => Fuel | Exn => Exn
                 end
    | Stuck => Stuck | Fuel => Fuel | Exn => Exn
    end
  end.

Definition encw (r : outcome (option (nat * Z * Z))) : Z :=
  match r with Ok (Some (_, b, s)) => enc (Some (b, s)) | _ => 0 end.

Lemma skipn_nth_cons (l : list A) : forall (k : nat) a, nth_error l k = Some a -> skipn k l = a :: skipn (S k) l.
Proof.
  induction l as [|x xs IH]; intros [|k] a Hk; cbn in *; try discriminate.
  - injection Hk as ->. reflexivity.
  - apply IH. exact Hk.
Qed.

Variable gens : list A.
(* the Section variables of Gen_HSFind, instantiated *)
Definition find_in_of (ic p pred : Z) : Z :=
  match nth_error gens (Z.to_nat (p - 1)) with
  | Some a => match tf ic a with Ok r => enc r | _ => 0 end
  | None => 0
  end.
Definition next_of (p : Z) : Z := if p <? Z.of_nat (length gens) then p + 1 else 0.

Variable hash_of : Z -> Z.
(* any find_in that agrees pointwise (e.g. the GENERATED per-generation search, HSFindIn_Refine.v) *)
Variable find_in : Z -> Z -> Z -> Z.
Hypothesis find_in_ok : forall ic p pred, find_in ic p pred = find_in_of ic p pred.
Hypothesis total : forall h, Forall (fun a => exists r, tf h a = Ok r) gens.

Lemma hs_loop ic pred : forall fuel k bi, (k < length gens)%nat -> (length gens - k <= fuel)%nat ->
  exists bks, pvFindKey_loop0 false find_in next_of fuel ic pred bi (Z.of_nat k + 1)
              = Ok (encw (walk ic (skipn k gens)), bks).
Proof.
  induction fuel as [|fuel IH]; intros k bi Hk Hf; [lia|].
  rewrite pvFindKey_loop0_eq. cbv zeta.
  destruct (nth_error gens k) as [a|] eqn:Ha; [|apply nth_error_None in Ha; lia].
  assert (Hfi : find_in_of ic (Z.of_nat k + 1) pred = match tf ic a with Ok r => enc r | _ => 0 end).
  { unfold find_in_of. replace (Z.to_nat (Z.of_nat k + 1 - 1)) with k by lia. rewrite Ha. reflexivity. }
  rewrite find_in_ok, Hfi. rewrite (skipn_nth_cons gens k a Ha). cbn [walk].
  pose proof (total ic) as Ht. rewrite Forall_forall in Ht. destruct (Ht a (nth_error_In _ _ Ha)) as (r & Hr). rewrite Hr.
  destruct r as [[b s]|].
  - pose proof (enc_some (b, s)) as Hne. destruct (Z.eqb_spec (enc (Some (b, s))) 0); [contradiction|].
    cbn [negb orb encw]. eexists. reflexivity.
  - rewrite enc_none. cbn [Z.eqb negb orb]. unfold next_of.
    destruct (Z.ltb_spec (Z.of_nat k + 1) (Z.of_nat (length gens))).
    + destruct (Z.eqb_spec (Z.of_nat k + 1 + 1) 0); [lia|].
      replace (Z.of_nat k + 1 + 1) with (Z.of_nat (S k) + 1) by lia.
      fold next_of. destruct (IH (S k) 0 ltac:(lia) ltac:(lia)) as (bks & E). rewrite E. exists bks. f_equal. f_equal.
      destruct (walk ic (skipn (S k) gens)) as [[[[g b] s]|]| | |]; reflexivity.
    + cbn [Z.eqb]. assert (Hs : skipn (S k) gens = []) by (apply skipn_all2; lia). rewrite Hs. cbn [walk encw].
      eexists. reflexivity.
Qed.

(* the generated HashSet::pvFind(key) = the hand-written walk, for up to 70 chained generations *)
Theorem pvFindKey_walk mCount key ht pred : mCount <> 0 -> gens <> [] -> (length gens <= 70)%nat ->
  pvFindKey false hash_of find_in next_of mCount 1 key ht pred = Ok (encw (walk (hash_of key) gens)).
Proof.
  intros Hc Hg Hl. unfold pvFindKey. cbv zeta. destruct (Z.eqb_spec mCount 0); [contradiction|]. cbn [negb].
  assert (Hlen : (0 < length gens)%nat) by (destruct gens; [contradiction|cbn; lia]).
  destruct (hs_loop (hash_of key) pred fuel_of_pvFindKey 0%nat 0 Hlen) as (bks & E).
  { unfold fuel_of_pvFindKey. change (Z.to_nat 70) with 70%nat. lia. }
  change (Z.of_nat 0 + 1) with 1 in E. rewrite E. cbn [skipn]. reflexivity.
Qed.

(* areItemsNothrowRelocatable: only the newest generation is searched (older generations never exist then) *)
Theorem pvFindKey_nothrow mCount key ht pred : mCount <> 0 ->
  pvFindKey true hash_of find_in next_of mCount 1 key ht pred = Ok (find_in (hash_of key) 1 pred).
Proof.
  intros Hc. unfold pvFindKey. cbv zeta. destruct (Z.eqb_spec mCount 0); [contradiction|]. cbn [negb].
  unfold fuel_of_pvFindKey. change (Z.to_nat 70) with (S 69). rewrite pvFindKey_loop0_eq. cbv zeta.
  rewrite orb_true_r. reflexivity.
Qed.

(* an empty set: the null iterator, no table is touched *)
Theorem pvFindKey_empty nr key ht pred : pvFindKey nr hash_of find_in next_of 0 1 key ht pred = Ok 0.
Proof. reflexivity. Qed.
End Walk.

(* ==== the per-generation search: static HashSet::pvFind(indexCode, buckets, itemPred) (HashSet.h:1066-1095) GENERATED
   (Gen_HSFindIn.pvFindIn: start bucket, then `for (probe = 1; bucket->WasFull() && probe <= maxProbe; ++probe)`) refines the
   hand-written TableP4.pfind / TableO2.find / TableOne.ofind.  Instantiation of its Section variables: a bucket pointer is the
   bucket index (bk_at _ i = i); the bucket-level leaves are the generated ones the hand models already use; a non-null
   BucketIterator is `it bucket slot <> 0` (an Item* determines bucket and slot), the null iterator is 0. ==== *)
Definition idx_at (bks i : Z) : Z := i.
Lemma idx_at_eq bks i : idx_at bks i = i.
Proof. reflexivity. Qed.
(* the generated loop returns (early-return value, loop state); the hand loops return the hit *)
Definition conv {R S : Type} (f : R -> Z) (m : outcome (option R)) (g : outcome (option Z * S)) : Prop :=
  match m with
  | Ok r => exists st, g = Ok (match r with Some x => Some (f x) | None => None end, st)
  | Fuel => g = Fuel
  | _ => False
  end.

Section InP4.
Variable t : ptable.
Variables (L key : Z).
Variable it : Z -> Z -> Z.
Hypothesis it_nz : forall b s, it b s <> 0.

Definition encI (r : option (Z * Z)) : Z := match r with Some (b, s) => it b s | None => 0 end.
Definition p4_bfind (b params pred h : Z) : Z :=
  match pbucket_find (t b) key h with Ok r => if r =? 0 then 0 else it b (r - 1) | _ => 0 end.
Definition p4_next (i h c probe : Z) : Z := Gen_P4.GetNextBucketIndex i c.
Definition p4_wasfull (b : Z) : bool := was_full (t b).
Lemma p4_next_eq i h c probe : p4_next i h c probe = Gen_P4.GetNextBucketIndex i c.
Proof. reflexivity. Qed.

Lemma p4_bfind_eq b params pred h : p4_bfind b params pred h = match pbucket_find (t b) key h with Ok r => if r =? 0 then 0 else it b (r - 1) | _ => 0 end.
Proof. reflexivity. Qed.

Lemma p4_loop bc params bks h pred maxp : forall fuel idx bi ic probe,
  conv (fun x : Z * Z => it (fst x) (snd x)) (pfind_loop fuel t bc idx probe maxp key h)
       (pvFindIn_loop0 p4_next p4_bfind p4_wasfull idx_at fuel bc params bks h pred maxp idx idx bi ic probe).
Proof.
  induction fuel as [|f IH]; intros idx bi ic probe; [reflexivity|].
  rewrite pvFindIn_loop0_eq. cbn [pfind_loop]. cbv zeta. unfold p4_wasfull at 1.
  destruct (was_full (t idx) && (probe <=? maxp)); [|eexists; reflexivity].
  rewrite !idx_at_eq, !p4_next_eq, !p4_bfind_eq.
  destruct (pbucket_find_spec (t (Gen_P4.GetNextBucketIndex idx bc)) key h) as (r & Hr & _). rewrite Hr.
  destruct (Z.eqb_spec r 0).
  - cbn [Z.eqb negb]. apply IH.
  - destruct (Z.eqb_spec (it (Gen_P4.GetNextBucketIndex idx bc) (r - 1)) 0) as [E|E]; [destruct (it_nz _ _ E)|].
    cbn [negb]. eexists. reflexivity.
Qed.

Definition p4_findin (h bks pred params : Z) : outcome Z :=
  pvFindIn (fun _ => wrapU 64 (Z.shiftl 1 L)) (fun _ => L) Gen_Base.GetStartBucketIndex p4_next p4_bfind
           (fun _ lg => Gen_Base.GetMaxProbe lg) p4_wasfull idx_at h bks pred params.

Theorem p4_findin_refines h bks pred params :
  p4_findin h bks pred params = match pfind t L key h with Ok r => Ok (encI r) | Stuck => Stuck | Fuel => Fuel | Exn => Exn end.
Proof.
  unfold p4_findin, pvFindIn, pfind. cbv zeta. rewrite !idx_at_eq, !p4_bfind_eq.
  set (bc := wrapU 64 (Z.shiftl 1 L)). set (start := Gen_Base.GetStartBucketIndex h bc).
  destruct (pbucket_find_spec (t start) key h) as (r & Hr & _). rewrite Hr.
  destruct (Z.eqb_spec r 0).
  - cbn [Z.eqb negb].
    pose proof (p4_loop bc params bks h pred (Gen_Base.GetMaxProbe L) (S (Z.to_nat (Gen_Base.GetMaxProbe L))) start 0 h 1) as X. revert X. unfold conv.
    destruct (pfind_loop (S (Z.to_nat (Gen_Base.GetMaxProbe L))) t bc start 1 (Gen_Base.GetMaxProbe L) key h) as [r0| | |]; intros X; [destruct X as [st X]|contradiction| |contradiction].
    + rewrite X. destruct st as [[[[? ?] ?] ?] ?]. destruct r0 as [[b s]|]; reflexivity.
    + rewrite X. reflexivity.
  - destruct (Z.eqb_spec (it start (r - 1)) 0) as [E|E]; [destruct (it_nz _ _ E)|]. reflexivity.
Qed.
End InP4.

Section InO2.
Variable t : table.
Variables (L key : Z).
Variable it : Z -> Z -> Z.
Hypothesis it_nz : forall b s, it b s <> 0.

Definition o2_bfind (b params pred h : Z) : Z :=
  match bucket_find (t b) key h with Ok r => if r =? 0 then 0 else it b (r - 1) | _ => 0 end.
Definition o2_next (i h c probe : Z) : Z := Gen_O2.GetNextBucketIndex i c probe.
Definition o2_wasfull (b : Z) : bool := Gen_O2.WasFull (bst (t b)) (bsh (t b)) (bhp (t b)).
Definition o2_maxprobe (b lg : Z) : Z := Gen_O2MP.GetMaxProbe (bst (t b)).

Lemma o2_next_eq i h c probe : o2_next i h c probe = Gen_O2.GetNextBucketIndex i c probe.
Proof. reflexivity. Qed.

Lemma o2_bfind_eq b params pred h : o2_bfind b params pred h = match bucket_find (t b) key h with Ok r => if r =? 0 then 0 else it b (r - 1) | _ => 0 end.
Proof. reflexivity. Qed.

Lemma o2_loop bc params bks h pred maxp : forall fuel idx bi ic probe,
  conv (fun x : Z * Z => it (fst x) (snd x)) (find_loop fuel t bc idx probe maxp key h)
       (pvFindIn_loop0 o2_next o2_bfind o2_wasfull idx_at fuel bc params bks h pred maxp idx idx bi ic probe).
Proof.
  induction fuel as [|f IH]; intros idx bi ic probe; [reflexivity|].
  rewrite pvFindIn_loop0_eq. cbn [find_loop]. cbv zeta. unfold o2_wasfull at 1.
  destruct (Gen_O2.WasFull (bst (t idx)) (bsh (t idx)) (bhp (t idx)) && (probe <=? maxp)); [|eexists; reflexivity].
  rewrite !idx_at_eq, !o2_next_eq, !o2_bfind_eq.
  destruct (bucket_find_spec (t (Gen_O2.GetNextBucketIndex idx bc probe)) key h) as (r & Hr & _). rewrite Hr.
  destruct (Z.eqb_spec r 0).
  - cbn [Z.eqb negb]. apply IH.
  - destruct (Z.eqb_spec (it (Gen_O2.GetNextBucketIndex idx bc probe) (r - 1)) 0) as [E|E]; [destruct (it_nz _ _ E)|].
    cbn [negb]. eexists. reflexivity.
Qed.

Definition o2_findin (h bks pred params : Z) : outcome Z :=
  pvFindIn (fun _ => wrapU 64 (Z.shiftl 1 L)) (fun _ => L) Gen_Base.GetStartBucketIndex o2_next o2_bfind
           o2_maxprobe o2_wasfull idx_at h bks pred params.

Theorem o2_findin_refines h bks pred params :
  o2_findin h bks pred params = match find t L key h with Ok r => Ok (encI it r) | Stuck => Stuck | Fuel => Fuel | Exn => Exn end.
Proof.
  unfold o2_findin, pvFindIn, find. cbv zeta. rewrite !idx_at_eq, !o2_bfind_eq.
  set (bc := wrapU 64 (Z.shiftl 1 L)). set (start := Gen_Base.GetStartBucketIndex h bc).
  destruct (bucket_find_spec (t start) key h) as (r & Hr & _). rewrite Hr.
  destruct (Z.eqb_spec r 0).
  - cbn [Z.eqb negb]. unfold o2_maxprobe at 1 2. set (mp := Gen_O2MP.GetMaxProbe (bst (t start))).
    pose proof (o2_loop bc params bks h pred mp (S (Z.to_nat mp)) start 0 h 1) as X. revert X. unfold conv.
    destruct (find_loop (S (Z.to_nat mp)) t bc start 1 mp key h) as [r0| | |]; intros X; [destruct X as [st X]|contradiction| |contradiction].
    + rewrite X. destruct st as [[[[? ?] ?] ?] ?]. destruct r0 as [[b s]|]; reflexivity.
    + rewrite X. reflexivity.
  - destruct (Z.eqb_spec (it start (r - 1)) 0) as [E|E]; [destruct (it_nz _ _ E)|]. reflexivity.
Qed.
End InO2.

Section InOne.
Variable t : otable.
Variables (L key : Z).
Variable it1 : Z -> Z.
Hypothesis it1_nz : forall b, it1 b <> 0.

Definition encI1 (r : option Z) : Z := match r with Some b => it1 b | None => 0 end.
Definition one_bfind (b params pred h : Z) : Z := if obucket_find (t b) key h =? 0 then 0 else it1 b.
Definition one_next (i h c probe : Z) : Z := Gen_Base.GetNextBucketIndex i c.
Definition one_wasfull (b : Z) : bool := Gen_One.WasFull (ost (t b)).

Lemma one_next_eq i h c probe : one_next i h c probe = Gen_Base.GetNextBucketIndex i c.
Proof. reflexivity. Qed.

Lemma one_bfind_eq b params pred h : one_bfind b params pred h = if obucket_find (t b) key h =? 0 then 0 else it1 b.
Proof. reflexivity. Qed.

Lemma one_loop bc params bks h pred maxp : forall fuel idx bi ic probe,
  conv it1 (ofind_loop fuel t bc idx probe maxp key h)
       (pvFindIn_loop0 one_next one_bfind one_wasfull idx_at fuel bc params bks h pred maxp idx idx bi ic probe).
Proof.
  induction fuel as [|f IH]; intros idx bi ic probe; [reflexivity|].
  rewrite pvFindIn_loop0_eq. cbn [ofind_loop]. cbv zeta. unfold one_wasfull at 1.
  destruct (Gen_One.WasFull (ost (t idx)) && (probe <=? maxp)); [|eexists; reflexivity].
  rewrite !idx_at_eq, !one_next_eq, !one_bfind_eq.
  destruct (Z.eqb_spec (obucket_find (t (Gen_Base.GetNextBucketIndex idx bc)) key h) 0).
  - cbn [Z.eqb negb]. apply IH.
  - destruct (Z.eqb_spec (it1 (Gen_Base.GetNextBucketIndex idx bc)) 0) as [E|E]; [destruct (it1_nz _ E)|].
    cbn [negb]. eexists. reflexivity.
Qed.

Definition one_findin (h bks pred params : Z) : outcome Z :=
  pvFindIn (fun _ => wrapU 64 (Z.shiftl 1 L)) (fun _ => L) Gen_Base.GetStartBucketIndex one_next one_bfind
           (fun _ lg => Gen_Base.GetMaxProbe lg) one_wasfull idx_at h bks pred params.

Theorem one_findin_refines h bks pred params :
  one_findin h bks pred params = match ofind t L key h with Ok r => Ok (encI1 r) | Stuck => Stuck | Fuel => Fuel | Exn => Exn end.
Proof.
  unfold one_findin, pvFindIn, ofind. cbv zeta. rewrite !idx_at_eq, !one_bfind_eq.
  set (bc := wrapU 64 (Z.shiftl 1 L)). set (start := Gen_Base.GetStartBucketIndex h bc).
  destruct (Z.eqb_spec (obucket_find (t start) key h) 0).
  - cbn [Z.eqb negb].
    pose proof (one_loop bc params bks h pred (Gen_Base.GetMaxProbe L) (S (Z.to_nat (Gen_Base.GetMaxProbe L))) start 0 h 1) as X. revert X. unfold conv.
    destruct (ofind_loop (S (Z.to_nat (Gen_Base.GetMaxProbe L))) t bc start 1 (Gen_Base.GetMaxProbe L) key h) as [r0| | |]; intros X; [destruct X as [st X]|contradiction| |contradiction].
    + rewrite X. destruct st as [[[[? ?] ?] ?] ?]. destruct r0 as [b|]; reflexivity.
    + rewrite X. reflexivity.
  - destruct (Z.eqb_spec (it1 start) 0) as [E|E]; [destruct (it1_nz _ E)|]. reflexivity.
Qed.
End InOne.

(* ==== both generated functions composed: pvFind(key) calling pvFind(indexCode, *buckets, pred) on every generation ==== *)
Definition unwrapZ (o : outcome Z) : Z := match o with Ok r => r | _ => 0 end.

(* ---- LimP4 ---- *)
Section HSFindP4.
Variables (H : Z).
Variable hash : Z -> Z.
Variable it : Z -> Z -> Z.
Hypothesis it_nz : forall b s, it b s <> 0.

Definition tfP4 (key : Z) (h : Z) (g : ptable * Z) := pfind (fst g) (snd g) key h.
(* find_in of the generated pvFindKey := the generated pvFindIn on the generation the pointer names *)
Definition p4_find_in (gens : list (ptable * Z)) (key ic p pred : Z) : Z :=
  match nth_error gens (Z.to_nat (p - 1)) with
  | Some g => unwrapZ (p4_findin (fst g) (snd g) key it ic p pred 0)
  | None => 0
  end.

Lemma pfind_gens_walk key h gens : pfind_gens gens key h = walk _ (tfP4 key) h gens.
Proof.
  induction gens as [|[t L] r IH]; [reflexivity|]. cbn [pfind_gens walk]. unfold tfP4 at 1. cbn [fst snd].
  rewrite IH. reflexivity.
Qed.

Lemma p4_find_in_ok gens key ic p pred : p4_find_in gens key ic p pred = find_in_of _ (tfP4 key) (encI it) gens ic p pred.
Proof.
  unfold p4_find_in, find_in_of. destruct (nth_error gens (Z.to_nat (p - 1))) as [[t L]|]; [|reflexivity].
  cbn [fst snd]. rewrite p4_findin_refines by exact it_nz. unfold tfP4. cbn [fst snd]. destruct (pfind t L key ic); reflexivity.
Qed.

Theorem hsfind_p4_refines key gens mCount ht pred : pgens_inv H hash gens -> gens <> [] -> (length gens <= 70)%nat -> mCount <> 0 ->
  pvFindKey false hash (p4_find_in gens key) (next_of _ gens) mCount 1 key ht pred
  = Ok (encw (encI it) (pfind_gens gens key (hash key))).
Proof.
  intros Hinv Hg Hl Hc. rewrite pfind_gens_walk. apply pvFindKey_walk; try assumption; try reflexivity.
  - intros [b s]. apply it_nz.
  - intros. apply p4_find_in_ok.
  - intros h. unfold pgens_inv in Hinv. eapply Forall_impl; [|exact Hinv]. intros [t L] (HL & _). cbn [fst snd] in HL.
    destruct (pfind_total L t key h HL) as (r & Hr & _). exists r. exact Hr.
Qed.

(* the generated Find finds every key stored in any generation: a non-null iterator that names a slot holding the key *)
Theorem hsfind_p4_present key gens mCount ht pred : pgens_inv H hash gens -> (length gens <= 70)%nat -> mCount <> 0 ->
  (exists g, In g gens /\ PPresent (snd g) (fst g) key) ->
  exists g b s, pvFindKey false hash (p4_find_in gens key) (next_of _ gens) mCount 1 key ht pred = Ok (it b s)
                /\ it b s <> 0 /\ pgens_hit gens key (g, b, s).
Proof.
  intros Hinv Hl Hc Hex. assert (Hg : gens <> []) by (destruct Hex as (g & Hin & _); destruct gens; [destruct Hin|discriminate]).
  rewrite (hsfind_p4_refines key gens mCount ht pred Hinv Hg Hl Hc).
  destruct (pfind_gens_present H hash key gens Hinv Hex) as ([[g b] s] & Hr & Hhit). rewrite Hr. cbn [encw encI].
  exists g, b, s. split; [reflexivity|]. split; [apply it_nz|exact Hhit].
Qed.
End HSFindP4.

(* ---- Open2N2 ---- *)
Section HSFindO2.
Variable hash : Z -> Z.
Variable it : Z -> Z -> Z.
Hypothesis it_nz : forall b s, it b s <> 0.

Definition tfO2 (key : Z) (h : Z) (g : table * Z) := find (fst g) (snd g) key h.
Definition o2_find_in (gens : list (table * Z)) (key ic p pred : Z) : Z :=
  match nth_error gens (Z.to_nat (p - 1)) with
  | Some g => unwrapZ (o2_findin (fst g) (snd g) key it ic p pred 0)
  | None => 0
  end.

Lemma find_gens_walk key h gens : find_gens gens key h = walk _ (tfO2 key) h gens.
Proof.
  induction gens as [|[t L] r IH]; [reflexivity|]. cbn [find_gens walk]. unfold tfO2 at 1. cbn [fst snd].
  rewrite IH. reflexivity.
Qed.

Lemma o2_find_in_ok gens key ic p pred : o2_find_in gens key ic p pred = find_in_of _ (tfO2 key) (encI it) gens ic p pred.
Proof.
  unfold o2_find_in, find_in_of. destruct (nth_error gens (Z.to_nat (p - 1))) as [[t L]|]; [|reflexivity].
  cbn [fst snd]. rewrite o2_findin_refines by exact it_nz. unfold tfO2. cbn [fst snd]. destruct (find t L key ic); reflexivity.
Qed.

Theorem hsfind_o2_refines key gens mCount ht pred : gens_inv hash gens -> gens <> [] -> (length gens <= 70)%nat -> mCount <> 0 ->
  pvFindKey false hash (o2_find_in gens key) (next_of _ gens) mCount 1 key ht pred
  = Ok (encw (encI it) (find_gens gens key (hash key))).
Proof.
  intros Hinv Hg Hl Hc. rewrite find_gens_walk. apply pvFindKey_walk; try assumption; try reflexivity.
  - intros [b s]. apply it_nz.
  - intros. apply o2_find_in_ok.
  - intros h. unfold gens_inv in Hinv. eapply Forall_impl; [|exact Hinv]. intros [t L] (HL & Ht). cbn [fst snd] in HL, Ht.
    destruct (find_total hash L t key h Ht) as (r & Hr & _). exists r. exact Hr.
Qed.

Theorem hsfind_o2_present key gens mCount ht pred : gens_inv hash gens -> (length gens <= 70)%nat -> mCount <> 0 ->
  (exists g, In g gens /\ Present (snd g) (fst g) key) ->
  exists g b s, pvFindKey false hash (o2_find_in gens key) (next_of _ gens) mCount 1 key ht pred = Ok (it b s)
                /\ it b s <> 0 /\ gens_hit gens key (g, b, s).
Proof.
  intros Hinv Hl Hc Hex. assert (Hg : gens <> []) by (destruct Hex as (g & Hin & _); destruct gens; [destruct Hin|discriminate]).
  rewrite (hsfind_o2_refines key gens mCount ht pred Hinv Hg Hl Hc).
  destruct (find_gens_present hash key gens Hinv Hex) as ([[g b] s] & Hr & Hhit). rewrite Hr. cbn [encw encI].
  exists g, b, s. split; [reflexivity|]. split; [apply it_nz|exact Hhit].
Qed.
End HSFindO2.
