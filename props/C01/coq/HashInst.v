(* C01 -- instantiation of the HashModel section with the leaves REGENERATED from the headers (cxx2coq):
   GetStartBucketIndex / GetNextBucketIndex (linear: BucketBase, LimP4; triangular: Open2N2, Open8), BucketBase::GetMaxProbe,
   the Open2N2 / OpenN1 max-probe encoders, GetBucketCountShift.  CalcCapacity contains floating point
   (x / 8.0 * 5.0 ...) and is mirrored by hand in integer arithmetic; it is compared against the real function
   on every run (correspondence `cap`). *)
From Coq Require Import ZArith List Lia Bool.
From MomoCommon Require Import GenPrelude.
From C01 Require Import HashModel.
From C01 Require Gen_BucketBase Gen_HashBucketBase Gen_LimP4 Gen_Open2N2 Gen_OpenN1 Gen_Open8.
Import ListNotations.
Local Open Scope Z_scope.

Definition BS : Type := Z -> Z.       (* the bytes that encode the max probe (mState / mData) *)
Definition bs0 : BS := fun _ => 0.

(* probing: 0 = BucketBase (linear), 1 = LimP4 (linear, own copy), 2 = Open2N2 (triangular), 3 = Open8 (triangular) *)
Definition next_fn (probing : Z) (idx bc probe : Z) : Z :=
  if probing =? 0 then Gen_BucketBase.GetNextBucketIndex idx bc
  else if probing =? 1 then Gen_LimP4.GetNextBucketIndex idx bc
  else if probing =? 2 then Gen_Open2N2.GetNextBucketIndex idx bc probe
  else Gen_Open8.GetNextBucketIndex idx bc probe.

Definition start_fn (hc bc : Z) : Z := Gen_BucketBase.GetStartBucketIndex hc bc.

(* max-probe encoders: 0 = BucketBase (bucketCount-1, no state), 1 = UnlimP (0), 2 = Open2N2, 3.. = OpenN1<maxCount = kind-2> (Open8: 9) *)
Definition decode_fn (kind : Z) (log : Z) (b : BS) : Z :=
  if kind =? 0 then Gen_BucketBase.GetMaxProbe log
  else if kind =? 1 then 0
  else if kind =? 2 then Gen_Open2N2.GetMaxProbe b
  else Gen_OpenN1.GetMaxProbe (kind - 2) b log.

Definition upd_fn (kind : Z) (b : BS) (probe : Z) : BS :=
  if kind <=? 1 then b
  else if kind =? 2 then match Gen_Open2N2.UpdateMaxProbe b probe with Ok (_, b') => b' | _ => b end
  else match Gen_OpenN1.UpdateMaxProbe (kind - 2) b probe with Ok (_, b') => b' | _ => b end.

(* growth policies: 0 = HashBucketBase, 1 = HashBucketOpen2N2 (x/12*11), 2 = HashBucketOpenN1 (x/6*5), 3 = HashBucketOpen8 *)
Definition calc_capacity (pol cap bc : Z) : Z :=
  if pol =? 0 then (if cap =? 1 then bc * 5 / 8 else if cap =? 2 then bc + bc / 2 else bc * 2)
  else if pol =? 1 then bc * cap * 11 / 12
  else if pol =? 2 then bc * cap * 5 / 6
  else (if cap =? 7 then bc * cap * 13 / 14 else bc * cap * 11 / 12).

Definition shift_fn (pol cap bc : Z) : Z :=
  if pol =? 0 then match Gen_HashBucketBase.GetBucketCountShift bc cap with Ok s => s | _ => 1 end
  else 1.

(* hash distributions (keys are < 2^32): identity, constant, low 3 bits only, high bits only, multiplicative, low-bit-collapsing *)
Definition hash_fn (id : Z) (k : Z) : Z :=
  if id =? 0 then k
  else if id =? 1 then 12345
  else if id =? 2 then Z.land k 7
  else if id =? 3 then Z.shiftl (Z.land k 255) 56
  else if id =? 4 then wrapU 64 (k * 11400714819323198485)
  else wrapU 64 (Z.shiftl k 5).

Record cfg : Type := mkCfg { c_cap : Z; c_wf0 : bool; c_wfThr : Z; c_probing : Z; c_bound : Z; c_pol : Z; c_logStart : Z; c_hash : Z }.
Definition max_log : Z := 40.
Definition c_unlimited (c : cfg) : bool := 2 ^ 62 <=? c_cap c.

(* the model of one momo configuration, for an ARBITRARY hash function h *)
Definition step_gen (c : cfg) (h : Z -> Z) : hset BS -> op -> hset BS * out :=
  step BS bs0 (decode_fn (c_bound c)) (upd_fn (c_bound c)) h (c_cap c) (c_unlimited c) (c_wf0 c) (c_wfThr c) start_fn
       (next_fn (c_probing c)) (c_logStart c) (calc_capacity (c_pol c) (c_cap c)) (shift_fn (c_pol c) (c_cap c)) max_log.
Definition run_gen (c : cfg) (h : Z -> Z) : hset BS -> list op -> hset BS * list out :=
  run BS bs0 (decode_fn (c_bound c)) (upd_fn (c_bound c)) h (c_cap c) (c_unlimited c) (c_wf0 c) (c_wfThr c) start_fn
       (next_fn (c_probing c)) (c_logStart c) (calc_capacity (c_pol c) (c_cap c)) (shift_fn (c_pol c) (c_cap c)) max_log.
(* what the correspondence stage runs: the same with one of the test hash distributions *)
Definition step_cfg (c : cfg) : hset BS -> op -> hset BS * out := step_gen c (hash_fn (c_hash c)).
Definition wstep_gen (c : cfg) (h : Z -> Z) : world BS -> wop -> world BS * out :=
  wstep BS bs0 (decode_fn (c_bound c)) (upd_fn (c_bound c)) h (c_cap c) (c_unlimited c) (c_wf0 c) (c_wfThr c) start_fn
       (next_fn (c_probing c)) (c_logStart c) (calc_capacity (c_pol c) (c_cap c)) (shift_fn (c_pol c) (c_cap c)) max_log.
Definition wrun_gen (c : cfg) (h : Z -> Z) : world BS -> list wop -> world BS * list out :=
  wrun BS bs0 (decode_fn (c_bound c)) (upd_fn (c_bound c)) h (c_cap c) (c_unlimited c) (c_wf0 c) (c_wfThr c) start_fn
       (next_fn (c_probing c)) (c_logStart c) (calc_capacity (c_pol c) (c_cap c)) (shift_fn (c_pol c) (c_cap c)) max_log.
Definition wstep_cfg (c : cfg) : world BS -> wop -> world BS * out := wstep_gen c (hash_fn (c_hash c)).
Definition winit_cfg : world BS := winit BS.
Definition it_begin_cfg : hset BS -> iter := it_begin BS.
Definition it_next_cfg : hset BS -> iter -> iter := it_next BS.
Definition it_get_cfg : hset BS -> iter -> option item := it_get BS.
Definition it_remove_cfg (c : cfg) : hset BS -> iter -> hset BS * iter := it_remove BS bs0 (c_wf0 c).
Definition shape_cfg (c : cfg) : hset BS -> list (Z * list (list Z * bool * Z)) := shape BS (decode_fn (c_bound c)).
Definition init_cfg : hset BS := hinit BS.
Definition traverse_cfg : hset BS -> list item := traverse BS.
Definition count_cfg : hset BS -> Z := count BS.
