(* C02 -- container level: pvRebalance and Remove(iterator) of an item stored in a leaf *)
From Coq Require Import List ZArith Arith Lia Bool.
From C02 Require Import BTreeModel BTreeBase BTreeSearch BTreeIter BTreeAdd BTreeRemove BTreeCtx BTreeRemove2 BTreeTrack BTreeRemove3 BTreeTop.
Import ListNotations.

Section RemTop.
Variable maxCap : nat.
Hypothesis Hmc : 1 <= maxCap <= 255.
Notation shape := (shape maxCap).
Notation twf := (twf maxCap).

Lemma leaf_at_depth p : forall d n j,
  shape d n -> valid d p n j -> length p = d -> exists nd, node_at p n = Some nd /\ is_leaf nd = true.
Proof.
  induction p as [|c p IH]; intros d n j Sh V Lp.
  - simpl in Lp. subst d. exists n. split; auto. eapply shape_0_leaf; eauto.
  - destruct (valid_cons _ _ _ _ _ V) as (d' & ch & -> & E & V'). simpl in Lp. simpl. rewrite E.
    apply (IH d' ch j); auto; try lia. eapply shape_child; eauto.
Qed.

Theorem rebalance_preserves d r np sp fast :
  shape d r ->
  exists d', shape d' (fst (rebalance r np sp fast)) /\ flatten (fst (rebalance r np sp fast)) = flatten r.
Proof. apply rebalance_spec. lia. Qed.

(* Remove(iter) where iter points into a leaf: WF is kept (through node->Remove, the root collapse and the
   lazy sibling merges of pvRebalance), mCount is decremented, and the sequence loses exactly the item at
   the iterator's index *)
Theorem remove_leaf_refines t it :
  twf t -> tvalid t it -> titem t it ->
  (match root t with Some r => length (fst it) = height r | None => True end) ->
  let t' := fst (remove t it) in
  twf t' /\ contents t' = remove_at (iter_index t it) (contents t).
Proof.
  unfold BTreeTop.twf, tvalid, titem, iter_index, contents, remove.
  destruct (root t) as [r|] eqn:Er; [|tauto].
  intros [Sh C] V H Lp. destruct it as [p j]. cbn [fst snd] in *.
  destruct (leaf_at_depth p _ r j Sh V Lp) as (nd & En & Lf).
  unfold remove_root. rewrite En, Lf.
  destruct (remove_item_leaf_spec maxCap ltac:(lia) p _ r j Sh V H Lp) as [S1 F1].
  destruct (rebalance_preserves _ (update_at p (remove_item j) r) p p true S1) as (d' & S2 & F2).
  destruct (rebalance (update_at p (remove_item j) r) p p true) as [r2 sp]. cbn [fst snd root cnt] in *.
  destruct (after_item maxCap _ p r j Sh V H) as (x & tl0 & _ & Ea).
  pose proof (before_after maxCap _ p r j Sh V) as Hfl. rewrite Ea in *.
  rewrite F2, F1. cbn [tl]. split.
  - split; [rewrite (shape_height maxCap _ _ S2); exact S2|].
    rewrite C, <- Hfl, !app_length. simpl. lia.
  - rewrite <- Hfl. unfold remove_at. rewrite firstn_before.
    replace (S (length (before p r j))) with (length (before p r j ++ [x])) by (rewrite app_length; simpl; lia).
    replace (before p r j ++ x :: tl0) with ((before p r j ++ [x]) ++ tl0) by (rewrite <- app_assoc; reflexivity).
    rewrite skipn_before. reflexivity.
Qed.

(* remove_refines: Remove(iter) for EVERY position that holds an item -- in a leaf, or a separator whose left subtree
   has / has not items (pvRemoveInternal, pvDestroyInternal) -- followed by pvRebalance and pvMakeIterator(move) *)
Theorem remove_refines t it :
  twf t -> tvalid t it -> titem t it ->
  let '(t', it') := remove t it in
  twf t' /\ contents t' = remove_at (iter_index t it) (contents t) /\
  norm t' it' /\ iter_index t' it' = iter_index t it.
Proof.
  unfold BTreeTop.twf, tvalid, titem, norm, iter_index, contents, end_iter, remove.
  destruct (root t) as [r|] eqn:Er; [|tauto].
  intros [Sh C] V H. destruct it as [p j]. cbn [fst snd] in *.
  destruct (remove_root_spec maxCap ltac:(lia) _ r p j Sh V H) as (d' & S2 & F2 & V2 & H2 & B2).
  destruct (remove_root r (p, j)) as [r2 it2]. cbn [fst snd root cnt] in *.
  destruct (after_item maxCap _ p r j Sh V H) as (x & tl0 & _ & Ea).
  pose proof (before_after maxCap _ p r j Sh V) as Hfl. rewrite Ea in *. cbn [tl] in F2.
  pose proof (shape_height maxCap _ _ S2) as Hh.
  unfold BTreeTop.twf, norm, tvalid, titem, iter_index, contents, end_iter. cbn [root cnt fst snd]. rewrite Hh.
  split; [split; [exact S2|]|split; [|split; [split; [exact V2|]|]]].
  - rewrite C, F2, <- Hfl, !app_length. simpl. lia.
  - rewrite F2, <- Hfl. unfold remove_at. rewrite firstn_before.
    replace (S (length (before p r j))) with (length (before p r j ++ [x])) by (rewrite app_length; simpl; lia).
    replace (before p r j ++ x :: tl0) with ((before p r j ++ [x]) ++ tl0) by (rewrite <- app_assoc; reflexivity).
    rewrite skipn_before. reflexivity.
  - destruct H2 as [H2|H2]; [left; exact H2 | right; exact H2].
  - rewrite B2. reflexivity.
Qed.

Lemma replace_at_same {A} j (x : A) l : nth_error l j = Some x -> replace_at j x l = l.
Proof. intros E. unfold replace_at. symmetry. apply (nth_error_split l j x E). Qed.

(* ResetKey(iter, key): the item at the iterator's position is overwritten in place *)
Theorem reset_key_spec t it k :
  twf t -> tvalid t it -> titem t it ->
  let t' := reset_key t it k in
  twf t' /\ contents t' = replace_at (iter_index t it) k (contents t).
Proof.
  assert (Hpos : 0 < maxCap) by lia.
  unfold BTreeTop.twf, tvalid, titem, iter_index, contents, reset_key.
  destruct (root t) as [r|] eqn:Er; [|tauto].
  intros [Sh C] V H. destruct it as [p j]. cbn [fst snd root cnt] in *.
  destruct (node_at_valid maxCap Hpos p _ r j Sh V) as (nd & En & Snd & _ & Lp).
  pose proof (has_item_inv p r nd j En H) as Hj.
  pose proof (valid_0 maxCap Hpos p _ r j V) as V0.
  destruct (ctx_pos p _ r j nd V En) as [Bp Ap].
  rewrite (update_at_const p _ r nd En).
  set (nd' := Node (n_cap nd) (replace_at j k (n_items nd)) (n_children nd)).
  assert (Hjk : j < length (n_items nd)) by exact Hj.
  assert (Nd : shape (height r - length p) nd' /\ flatten nd' = before [] nd j ++ k :: tl (after [] nd j)).
  { destruct (is_leaf nd) eqn:Lf.
    - pose proof (shape_leaf _ _ _ Snd Lf) as Ed. rewrite Ed in *. pose proof Snd as (A1 & A2 & A3). split.
      + unfold nd'. cbn [BTreeBase.shape]. unfold n_count in *. cbn [n_items n_cap n_children].
        rewrite replace_at_length by lia. repeat split; auto; lia.
      + unfold nd'. rewrite flatten_unfold. cbn [n_children n_items before after]. rewrite A3, Lf. cbn [map interleave].
        destruct (nth_error_ex _ _ Hjk) as [x Ex]. rewrite (skipn_head' _ _ _ Ex). reflexivity.
    - destruct (shape_internal _ _ _ Snd Lf) as [dd Edd]. rewrite Edd in *.
      destruct (shape_child_ex _ _ _ j Snd (Nat.lt_le_incl _ _ Hj)) as (lch & El & Sl).
      destruct (remove_node_some maxCap Hpos dd nd j lch lch k Snd Hj El Sl) as (S2 & F2 & _ & _).
      rewrite (replace_at_same j lch _ El) in S2, F2. fold nd' in S2, F2. split; [exact S2|].
      rewrite F2. cbn [before after]. rewrite Lf, (nth_flat nd j lch El), <- app_assoc. reflexivity. }
  destruct Nd as [Snd' Fnd'].
  destruct (update_ctx maxCap Hpos p _ r nd' Sh V0 Snd') as (S1 & N1 & B1 & A1 & V1).
  pose proof (flatten_ctx maxCap p _ _ nd' S1 V1 N1) as F1. rewrite B1, A1, Fnd' in F1.
  destruct (after_item maxCap _ p r j Sh V H) as (x & tl0 & _ & Ea).
  pose proof (before_after maxCap _ p r j Sh V) as Hfl.
  assert (Et : tl (after [] nd j) ++ ctxa p r = tl0).
  { rewrite Ap in Ea. destruct (after [] nd j) as [|y ys] eqn:Ey.
    - exfalso. cbn [after] in Ey. destruct (is_leaf nd).
      + apply (f_equal (@length Z)) in Ey. rewrite skipn_length in Ey. simpl in Ey. lia.
      + destruct (post_head nd j Hj) as [T ET]. congruence.
    - cbn [tl]. simpl in Ea. congruence. }
  assert (Fr : flatten (update_at p (fun _ => nd') r) = before p r j ++ k :: tl0).
  { rewrite F1, Bp, <- Et, <- !app_assoc. reflexivity. }
  split.
  - split; [rewrite (shape_height maxCap _ _ S1); exact S1|].
    rewrite C, Fr, <- Hfl, Ea, !app_length. simpl. lia.
  - rewrite Fr, <- Hfl, Ea. unfold replace_at. rewrite firstn_before.
    replace (S (length (before p r j))) with (length (before p r j ++ [x])) by (rewrite app_length; simpl; lia).
    replace (before p r j ++ x :: tl0) with ((before p r j ++ [x]) ++ tl0) by (rewrite <- app_assoc; reflexivity).
    rewrite skipn_before. reflexivity.
Qed.

End RemTop.
