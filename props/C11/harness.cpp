// C11 implementation side: REAL momo::HashSet / HashMap under allocation refusal and throwing hash.
// keycat: F fast-hash uint64 keys; S slow-hash kit::ElemNtm keys (buckets keep hash bits, the hash is recomputed only
//   when they do not suffice); T slow-hash keys with buckets that keep no hash bits (every migration recomputes the hash)
// case line:   <kind> <keycat F|S|T> <dist> <logStart> <S|M> | <op> <op> ... [| <annotation, ignored here>]
//   op:  i<k>[a<n>|f<n>]  Insert key k (armed: the n-th memory-manager allocation / n-th hash call of this op throws)
//        e<k> Extract(Find(k)) into a held ExtractedItem   j[arms] Insert(held ExtractedItem)   p<m>_<r> Remove(filter k%m==r)
//        m move out and back   y move everything away, continue bucket-less
//        r<k> Remove(key)   q<k> Find   v<n>[a<n>|f<n>] Reserve(n)   x<0|1> Clear(shrink)   b<n> n plain insertions of keys 7000.. (observed once)   t  traversal   c  GetCount
// mode "sched" (argv[1]): print the observed static facts + failure schedule of every op (input of the Coq model),
//   then "#" statistics, then "#" oracle verdict (std::set twin + kit protocol/leak summary).
// default mode: one token per op  res/count/capacity/ngens/shape/find/trav  (digests; C11_VERBOSE=1 prints shapes)
#include "private_access.h"
#include "momo/HashSet.h"
#include "momo/HashMap.h"
#include "momo/details/HashBucketOne.h"
#include "momo/details/HashBucketLimP.h"
#include "momo/details/HashBucketOpenN1.h"
#include "momo/details/HashBucketLimP4.h"
#include "kit.h"
using namespace momo;
typedef unsigned long long ull;
using kit::W;

template<typename HB, bool fast, bool part = !fast>
struct Traits
{
	typedef HB HashBucket;
	static const bool isFastNothrowHashable = fast;
	template<typename ItemTraits> using Bucket = typename HB::template Bucket<ItemTraits, part>;
	template<typename KeyArg> using IsValidKeyArg = std::false_type;
	int dist; size_t logStart;
	Traits(int d = 0, size_t ls = 4) : dist(d), logStart(ls) {}
	size_t CalcCapacity(size_t bc, size_t mc) const noexcept { return HB::CalcCapacity(bc, mc); }
	size_t GetBucketCountShift(size_t bc, size_t mc) const noexcept { return HB::GetBucketCountShift(bc, mc); }
	size_t GetLogStartBucketCount() const noexcept { return logStart; }
	template<typename KA> size_t GetHashCode(const KA& k) const { W().step_func(); return kit::spread(dist, uint64_t(kit::value_of(k))); }
	template<typename A, typename B> bool IsEqual(const A& a, const B& b) const { return kit::value_of(a) == kit::value_of(b); }
};
// LimP derives WasFull from the memory-pool index; with skipOddMemPools the pool of maxCount items is reached one item early
template<class Bk, class = void> struct WfOdd { static const int v = 0; };
template<class Bk> struct WfOdd<Bk, std::void_t<decltype(Bk::skipOddMemPools)>> { static const int v = Bk::skipOddMemPools ? 1 : 0; };
// does the bucket keep hash bits (useHashCodePartGetter)?  -1 = the bucket class has no such switch
template<class Bk, class = void> struct HasPart { static const int v = -1; };
template<class Bk> struct HasPart<Bk, std::void_t<decltype(Bk::useHashCodePartGetter)>> { static const int v = Bk::useHashCodePartGetter ? 1 : 0; };
struct SetSett : HashSetSettings { static const CheckMode checkMode = CheckMode::exception; };
struct MapSett : HashMapSettings { static const CheckMode checkMode = CheckMode::exception; };
// iterator versions off + stateless memory manager: momo keeps traits and manager INSIDE the container (inline SetCrew)
struct SetSettNV : HashSetSettings { static const CheckMode checkMode = CheckMode::exception; static const bool checkVersion = false; };
template<typename M> struct MkMM { static M make() { return M(1); } };
template<> struct MkMM<kit::MM0> { static kit::MM0 make() { return kit::MM0(); } };

static const ull P = 2147483629ull;
static inline void dg(ull& acc, ull x) { acc = (acc * 1000003ull + (x % P) + 7) % P; }

template<typename Key> struct MkKey { static Key make(int64_t k) { return Key(k); } };
template<> struct MkKey<uint64_t> { static uint64_t make(int64_t k) { return uint64_t(k); } };

// adapters: the same driver for HashSet and HashMap
template<typename Key, typename Tr, typename MMt = kit::MM, typename St = SetSett> struct SetAd
{
	typedef MMt MemMgr;
	typedef HashSet<Key, Tr, MMt, HashSetItemTraits<Key, MMt>, St> Cont;
	typedef Cont HS;
	static HS& hs(Cont& c) { return c; }
	static bool insert(Cont& c, int64_t k) { return c.Insert(MkKey<Key>::make(k)).inserted; }
	static bool find(Cont& c, int64_t k) { Key key = MkKey<Key>::make(k); return !!c.Find(key); }
	static bool remove(Cont& c, int64_t k) { Key key = MkKey<Key>::make(k); return c.Remove(key); }
	typedef typename Cont::ExtractedItem Ext;
	static Ext* extract(Cont& c, int64_t k) { Key key = MkKey<Key>::make(k); auto pos = c.Find(key); if (!pos) return nullptr; return new Ext(c.Extract(pos)); }
	static bool insert_ext(Cont& c, Ext& e) { return c.Insert(std::move(e)).inserted; }
	static int64_t ext_key(const Ext& e) { return kit::value_of(e.GetItem()); }
	static size_t remove_if(Cont& c, int64_t m, int64_t r) { return c.Remove([m, r] (const Key& x) { return kit::value_of(x) % m == r; }); }
	// checked traversal: the iterator is advanced at most count+1 times and is dereferenced only if it points to an item
	// that the container really holds (addresses collected through private access), so a broken iterator yields a
	// wrong/marked sequence (compared with the model) instead of a wild read
	static void traverse(Cont& c, std::vector<int64_t>& out, bool& bad, const std::set<const void*>& valid)
	{
		size_t n = 0; auto it = c.GetBegin();
		for (; it != c.GetEnd() && n <= c.GetCount(); ++it, ++n)
		{
			const Key* p = std::addressof(*it);
			if (!valid.count(p)) { bad = true; out.push_back(-7); return; }
			out.push_back(kit::value_of(*p));
		}
		if (it != c.GetEnd()) { bad = true; out.push_back(-8); }
	}
};
template<typename Key, typename Tr> struct MapAd
{
	typedef kit::MM MemMgr;
	typedef HashMap<Key, int64_t, Tr, kit::MM, HashMapKeyValueTraits<Key, int64_t, kit::MM>, MapSett> Cont;
	typedef typename Cont::HashSet HS;
	static HS& hs(Cont& c) { return c.mHashSet; }
	static bool insert(Cont& c, int64_t k) { return c.Insert(MkKey<Key>::make(k), k * 3 + 1).inserted; }
	static bool find(Cont& c, int64_t k) { Key key = MkKey<Key>::make(k); auto p = c.Find(key); return !!p && p->value == k * 3 + 1; }
	static bool remove(Cont& c, int64_t k) { Key key = MkKey<Key>::make(k); return c.Remove(key); }
	typedef typename Cont::ExtractedPair Ext;
	static Ext* extract(Cont& c, int64_t k) { Key key = MkKey<Key>::make(k); auto pos = c.Find(key); if (!pos) return nullptr; return new Ext(c.Extract(pos)); }
	static bool insert_ext(Cont& c, Ext& e) { return c.Insert(std::move(e)).inserted; }
	static int64_t ext_key(const Ext& e) { int64_t k = kit::value_of(e.GetKey()); return (e.GetValue() == k * 3 + 1) ? k : -99; }
	static size_t remove_if(Cont& c, int64_t m, int64_t r) { return c.Remove([m, r] (const Key& x, const int64_t&) { return kit::value_of(x) % m == r; }); }
	static void traverse(Cont& c, std::vector<int64_t>& out, bool& bad, const std::set<const void*>& valid)
	{
		size_t n = 0; auto it = c.GetBegin();
		for (; it != c.GetEnd() && n <= c.GetCount(); ++it, ++n)
		{
			auto ref = *it;
			const Key* p = std::addressof(ref.key);
			if (!valid.count(p)) { bad = true; out.push_back(-7); return; }
			int64_t k = kit::value_of(*p); out.push_back(k);
			if (ref.value != k * 3 + 1) bad = true;
		}
		if (it != c.GetEnd()) { bad = true; out.push_back(-8); }
	}
};

struct Obs { ull ngens, shape, headItems, headLog = 0; void* head; std::string text; std::set<const void*> addrs; };

template<typename Ad> static Obs observe(typename Ad::Cont& c, bool verbose)
{
	typedef typename Ad::HS HS;
	HS& hs = Ad::hs(c);
	Obs o; o.ngens = 0; o.shape = 0; o.headItems = 0; o.head = hs.mBuckets;
	for (auto* bk = hs.mBuckets; bk != nullptr; bk = bk->GetNextBuckets())
	{
		dg(o.shape, bk->GetLogCount()); dg(o.shape, bk->GetCount());
		if (verbose) o.text += " G" + std::to_string(bk->GetLogCount()) + ":";
		size_t n = 0;
		for (size_t i = 0; i < bk->GetCount(); ++i)
		{
			auto& b = (*bk)[i];
			auto bounds = b.GetBounds(bk->GetBucketParams());
			dg(o.shape, b.WasFull() ? 1 : 0); dg(o.shape, bounds.GetCount());
			if (verbose) o.text += std::string(b.WasFull() ? "[" : "(");
			for (auto it = bounds.GetBegin(); it != bounds.GetEnd(); ++it)
			{
				int64_t k = kit::value_of(HS::ItemTraits::GetKey(*it));
				o.addrs.insert(std::addressof(HS::ItemTraits::GetKey(*it)));
				dg(o.shape, ull(k)); ++n;
				if (verbose) o.text += std::to_string(k) + ",";
			}
			if (verbose) o.text += std::string(b.WasFull() ? "]" : ")");
		}
		if (o.ngens == 0) { o.headItems = n; o.headLog = bk->GetLogCount(); }
		++o.ngens;
	}
	return o;
}

template<typename Ad, typename Tr> static void run_case(int dist, size_t logStart, const std::vector<std::string>& ops, bool sched)
{
	typedef typename Ad::Cont Cont; typedef typename Ad::HS HS;
	bool verbose = getenv("C11_VERBOSE") != nullptr;
	W() = kit::World();
	std::string outp; std::vector<std::string> oracle; std::map<std::string, int> rescount;
	ull g2 = 0, g3 = 0, fb = 0, fullc = 0, refused = 0, migfail = 0, maxg = 0, afails = 0, chk = 0, grows = 0, growsx = 0, maxlog = 0, brim = 0, bandsame = 0, bandcross = 0;
	{
		Cont c{Tr(dist, logStart), MkMM<typename Ad::MemMgr>::make()};
		HS& hs = Ad::hs(c);
		std::set<int64_t> twin; std::vector<int64_t> known; std::set<int64_t> knownSet;
		std::unique_ptr<typename Ad::Ext> ext; int64_t heldKey = -1;
		if (sched)
		{
			typename HS::Bucket fresh;
			outp += std::to_string(HS::Bucket::maxCount) + " " + (fresh.WasFull() ? "1" : "0") + " " + (HS::areItemsNothrowRelocatable ? "1" : "0")
				+ " " + std::to_string(WfOdd<typename HS::Bucket>::v);
		}
		for (const std::string& op : ops)
		{
			char kind = op[0];
			long arg = 0, armA = -1, armF = -1; size_t p = 1;
			while (p < op.size() && isdigit(op[p])) arg = arg * 10 + (op[p++] - '0');
			long arg2 = 0; if (p < op.size() && op[p] == '_') { ++p; while (p < op.size() && isdigit(op[p])) arg2 = arg2 * 10 + (op[p++] - '0'); }
			while (p < op.size())
			{	// one or both of a<n> (allocation) and f<n> (hash call)
				char w = op[p++]; long n = 0;
				while (p < op.size() && isdigit(op[p])) n = n * 10 + (op[p++] - '0');
				if (w == 'a') armA = n; else armF = n;
			}
			if ((kind == 'i' || kind == 'r' || kind == 'q' || kind == 'e') && !knownSet.count(arg)) { knownSet.insert(arg); known.push_back(arg); }
			std::string res, ann = "-";
			bool jheld = kind == 'j' && ext && !ext->IsEmpty();
			if (kind == 'j' && !jheld) res = "N";
			if (jheld) arg = heldKey;
			if (kind == 'i' || kind == 'v' || jheld)
			{
				Obs before = observe<Ad>(c, false);
				size_t countBefore = hs.GetCount();
				bool grow = (kind != 'v') ? (hs.GetCount() >= hs.GetCapacity()) : (size_t(arg) > hs.GetCapacity());
				bool present = twin.count(arg) != 0;
				W().arm(armA, -1, armF);
				try
				{
					if (kind != 'v') { bool ins = jheld ? Ad::insert_ext(c, *ext) : Ad::insert(c, arg); res = ins ? "I" : "A";
						if (ins == present) oracle.push_back("Insert(" + std::to_string(arg) + ") returned inserted=" + std::to_string(ins) + " but twin says present=" + std::to_string(present));
						if (ins) twin.insert(arg); }
					else { c.Reserve(size_t(arg)); res = "V"; }
				}
				catch (const kit::InjectedFunc&) { res = "E"; }
				catch (const std::bad_alloc&) { res = "B"; }
				catch (const std::invalid_argument&) { res = "K"; }
				catch (const std::runtime_error& e) { res = (std::string(e.what()) == "Hash table is full") ? "U" : "Z"; }
				bool firedA = armA >= 0 && W().fail_alloc == -1, firedF = armF >= 0 && W().fail_func == -1;
				W().disarm();
				Obs after = observe<Ad>(c, false);
				int h = 0, af = 0, r = 0; long m = -1;
				if (after.head != before.head && after.head != nullptr) { ++grows; if (before.head != nullptr) { ++growsx;
					if ((before.headLog + 6) / 8 == (after.headLog + 6) / 8) ++bandsame; else ++bandcross; } }   // 8-doubling bands of the stored hash bits
				bool refusedNow = firedA && armA == 0 && grow;
				if (res == "E") h = 1;
				else if (res == "B") { if (refusedNow || kind == 'v') r = 1; else af = 1; }
				else if (firedA || firedF)
				{
					if (refusedNow) r = 1;
					if (firedF || (firedA && !refusedNow))
					{
						bool newHead = after.head != before.head;
						long oldBefore = newHead ? long(countBefore) : long(countBefore) - long(before.headItems);
						long oldAfter = long(hs.GetCount()) - long(after.headItems);
						m = oldBefore - oldAfter;
						++migfail;
					}
				}
				if (r) { ++refused; if (res == "I") ++fb; }
				if (r && kind != 'v' && before.head != nullptr && !present)
				{	// the property itself: a refused growth must fall back to the existing table ...
					if (res != "I" && res != "U")
						oracle.push_back("growth refused at " + op + ": insertion did not fall back to the existing table (result " + res + ")");
					if (res == "U")
					{	// ... and may report "full" only if no bucket of that table has a free slot
						auto* bk = hs.mBuckets; bool allFull = true;
						for (size_t i = 0; i < bk->GetCount(); ++i) if (!(*bk)[i].IsFull()) allFull = false;
						if (!allFull) oracle.push_back("growth refused at " + op + ": \"Hash table is full\" although a bucket of the newest table has a free slot");
					}
				}
				if (af) ++afails;
				if (res == "U") ++fullc;
				if (res == "K" || res == "Z")
				{	// the harness never passes invalid arguments: a failed MOMO_CHECK is a defect (before commit 7a001ad: MOMO_CHECK(newCapacity > mCount) after an overloading fallback insertion)
					++chk; oracle.push_back("op " + op + " failed a MOMO_CHECK / threw an unexpected exception (" + res + ") although its arguments are valid");
				}
				if (res != "I" && res != "V" && res != "A")
				{	// strong guarantee of a failed single insertion / Reserve: nothing observable changed
					if (after.shape != before.shape || hs.GetCount() != countBefore)
						oracle.push_back("failed op " + op + " (" + res + ") changed the container");
				}
				ann = std::to_string(h) + "." + std::to_string(af) + "." + std::to_string(r) + "." + std::to_string(m);
				if (jheld)
				{	// Insert(ExtractedItem&&): on success the extracted item is consumed, otherwise it still owns the element
					if (res == "I") { if (!ext->IsEmpty()) oracle.push_back("Insert(ExtractedItem) succeeded but the extracted item is not empty"); ext.reset(); }
					else if (ext->IsEmpty() || Ad::ext_key(*ext) != heldKey) oracle.push_back("Insert(ExtractedItem) failed (" + res + ") and the extracted item lost its element");
					res = "J" + res;
				}
			}
			else if (kind == 'j') { }
			else if (kind == 'e')
			{	// Extract(Find(key)): pvExtract -> pvRemove in whatever generation holds the item
				if (ext) ext.reset();
				ext.reset(Ad::extract(c, arg)); heldKey = arg;
				bool present = twin.erase(arg) != 0;
				res = ext ? "E1" : "E0";
				if ((ext != nullptr) != present) oracle.push_back("Extract(" + std::to_string(arg) + ") found=" + std::to_string(ext != nullptr) + " twin " + std::to_string(present));
				if (ext && (ext->IsEmpty() || Ad::ext_key(*ext) != arg)) oracle.push_back("Extract(" + std::to_string(arg) + ") returned a wrong/empty item");
			}
			else if (kind == 'p')
			{	// Remove(filter): the iterator loop with removal, across generations; filter(k) = (k % arg == arg2)
				size_t expect = 0; for (int64_t k : twin) if (k % arg == arg2) ++expect;
				size_t removed = Ad::remove_if(c, arg, arg2);
				for (auto it = twin.begin(); it != twin.end(); ) { if (*it % arg == arg2) it = twin.erase(it); else ++it; }
				res = "P" + std::to_string(removed);
				if (removed != expect) oracle.push_back("Remove(filter) removed " + std::to_string(removed) + " items, expected " + std::to_string(expect));
			}
			else if (kind == 'm') { Cont tmp(std::move(c)); c = std::move(tmp); res = "M"; }       // move out and back (BucketParams travel along)
			else if (kind == 'y')
			{	// the whole content is moved away and destroyed; c continues as a brand-new bucket-less container
				{ Cont other(std::move(c)); Cont fresh{Tr(dist, logStart), MkMM<typename Ad::MemMgr>::make()}; c = std::move(fresh); }
				twin.clear(); res = "Y";
			}
			else if (kind == 'r')
			{
				bool rem = Ad::remove(c, arg); res = rem ? "R1" : "R0";
				bool present = twin.erase(arg) != 0;
				if (rem != present) oracle.push_back("Remove(" + std::to_string(arg) + ") returned " + std::to_string(rem) + " twin " + std::to_string(present));
			}
			else if (kind == 'q')
			{
				bool f = Ad::find(c, arg); res = f ? "F1" : "F0";
			}
			else if (kind == 'x') { c.Clear(arg != 0); twin.clear(); res = "X"; }
			else if (kind == 'b')
			{	// bulk: <arg> failure-free insertions of the keys 7000.., observed only afterwards (long probe sequences)
				for (long j = 0; j < arg; ++j)
				{
					int64_t k = 7000 + j;
					if (!knownSet.count(k)) { knownSet.insert(k); known.push_back(k); }
					try { if (Ad::insert(c, k)) twin.insert(k); } catch (const std::exception&) { oracle.push_back("bulk insertion of " + std::to_string(k) + " threw"); }
				}
				res = "L";
			}
			else if (kind == 't') res = "T";
			else if (kind == 'c') res = "C";
			else res = "?";
			++rescount[(res.size() > 1 && (res[0] == 'P')) ? std::string("P") : res];
			// ---- observations after EVERY op ----
			Obs o = observe<Ad>(c, verbose);
			if (o.ngens >= 2) ++g2;
			if (o.ngens >= 3) ++g3;
			if (o.ngens > maxg) maxg = o.ngens;
			if (hs.mBuckets != nullptr) { if (hs.mBuckets->GetLogCount() > maxlog) maxlog = hs.mBuckets->GetLogCount();
				if (o.ngens == 1 && hs.GetCount() + 1 == hs.mBuckets->GetCount() * HS::Bucket::maxCount) ++brim; }
			ull fd = 0;
			for (int64_t k : known)
			{
				bool f = Ad::find(c, k); dg(fd, f ? 1 : 0);
				if (f != (twin.count(k) != 0)) oracle.push_back("after " + op + ": Find(" + std::to_string(k) + ")=" + std::to_string(f) + " but twin=" + std::to_string(twin.count(k)));
			}
			ull td = 0; std::vector<int64_t> tr; bool badv = false;
			Ad::traverse(c, tr, badv, o.addrs);
			for (int64_t k : tr) dg(td, ull(k));
			std::vector<int64_t> srt(tr); std::sort(srt.begin(), srt.end());
			if (badv || srt.size() != twin.size() || !std::equal(srt.begin(), srt.end(), twin.begin()))
				oracle.push_back("after " + op + ": traversal (" + std::to_string(tr.size()) + " items) is not the twin set (" + std::to_string(twin.size()) + ")");
			if (hs.GetCount() != twin.size()) oracle.push_back("after " + op + ": GetCount " + std::to_string(hs.GetCount()) + " != " + std::to_string(twin.size()));
			if (sched) outp += " " + ann;
			else
			{
				outp += (outp.empty() ? "" : " ") + res + "/" + std::to_string(hs.GetCount()) + "/" + std::to_string(hs.GetCapacity()) + "/" + std::to_string(o.ngens)
					+ "/" + std::to_string(o.shape) + "/" + std::to_string(fd) + "/" + std::to_string(td);
				if (verbose) outp += "{" + o.text + " }";
			}
		}
		// later ops complete the migration: failure-free insertions of fresh keys until the chain is single again
		if (sched)
		{
			size_t extra = 0; int64_t fresh = 5000000;
			while (hs.mBuckets != nullptr && hs.mBuckets->GetNextBuckets() != nullptr && extra < 100000)
			{
				try { Ad::insert(c, fresh); twin.insert(fresh); } catch (const std::invalid_argument&) { break; } catch (const std::runtime_error&) {}
				++fresh; ++extra;
			}
			bool single = hs.mBuckets == nullptr || hs.mBuckets->GetNextBuckets() == nullptr;
			if (!single && extra >= 100000) oracle.push_back("migration not completed by 100000 failure-free insertions");
			std::vector<int64_t> tr; bool badv = false; Obs fin = observe<Ad>(c, false); Ad::traverse(c, tr, badv, fin.addrs); std::sort(tr.begin(), tr.end());
			if (badv || tr.size() != twin.size() || !std::equal(tr.begin(), tr.end(), twin.begin())) oracle.push_back("contents differ from twin after completing the migration");
			outp += " # g2=" + std::to_string(g2) + " g3=" + std::to_string(g3) + " maxg=" + std::to_string(maxg) + " fb=" + std::to_string(fb) + " refused=" + std::to_string(refused)
				+ " full=" + std::to_string(fullc) + " migfail=" + std::to_string(migfail) + " afail=" + std::to_string(afails) + " extra=" + std::to_string(extra) + " single=" + std::to_string(single) + " chk=" + std::to_string(chk)
				+ " grows=" + std::to_string(grows) + " growsx=" + std::to_string(growsx) + " maxlog=" + std::to_string(maxlog) + " brim1=" + std::to_string(brim) + " bandsame=" + std::to_string(bandsame) + " bandcross=" + std::to_string(bandcross)
				+ " part=" + std::to_string(HasPart<typename HS::Bucket>::v) + " itemsize=" + std::to_string(sizeof(typename HS::Item))
				+ " res=" + [&rescount] { std::string x; for (auto& kv : rescount) x += (x.empty() ? "" : ",") + kv.first + ":" + std::to_string(kv.second); return x.empty() ? std::string("-") : x; }()
				+ " inlinecrew=" + (std::is_same<typename HS::Crew, internal::SetCrew<Tr, typename Ad::MemMgr, false, false>>::value ? "1" : "0");
		}
	}
	if (sched)
	{
		if (kit::summary() != "0 0 0") oracle.push_back("kit summary (live blocks, live objs, errors) = " + kit::summary() + (W().errors.empty() ? "" : ": " + W().errors[0]));
		outp += " # " + (oracle.empty() ? std::string("OK") : "FAIL " + oracle[0]);
	}
	puts(outp.c_str()); fflush(stdout);
}

// ExpF / ExpS = Bucket::maxCount expected for fast-hash resp. stored-bits configurations: proves that the INTENDED bucket class
// is instantiated (HashBucketOpen8 yields BucketOpen8 (7 slots) only without the hash-code-part getter, else BucketOpen2N2<3>)
template<typename HB, size_t ExpF, size_t ExpS, bool WithMaps = false> static bool run_kind(const std::string& keycat, const std::string& sm, int dist, size_t ls, const std::vector<std::string>& ops, bool sched)
{
	{
		typedef typename SetAd<uint64_t, Traits<HB, true>>::HS HF; typedef typename SetAd<kit::ElemNtm, Traits<HB, false>>::HS HSl;
		typedef typename SetAd<kit::ElemNtm, Traits<HB, false, false>>::HS HT;
		static_assert(HF::Bucket::maxCount == ExpF && HT::Bucket::maxCount == ExpF && HSl::Bucket::maxCount == ExpS, "unexpected bucket class");
		static_assert(HasPart<typename HF::Bucket>::v != 1 && HasPart<typename HT::Bucket>::v != 1, "fast / T configurations must not keep hash bits");
		static_assert(HasPart<typename HSl::Bucket>::v != 0, "S configurations must keep hash bits where the bucket can");
		static_assert(HF::areItemsNothrowRelocatable == HF::Bucket::isNothrowAddableIfNothrowCreatable, "fast keys: nothrow relocation iff the bucket adds without allocating");
		static_assert(!HSl::areItemsNothrowRelocatable && !HT::areItemsNothrowRelocatable, "slow-hash keys are never nothrow-relocatable");
		static_assert(std::is_nothrow_move_constructible<kit::ElemNtm>::value && !std::is_trivially_copyable<kit::ElemNtm>::value, "ElemNtm category");
		static_assert(!std::is_same<typename HF::Crew, internal::SetCrew<Traits<HB, true>, kit::MM, false, false>>::value, "kit::MM has state: crew behind a pointer");
	}
	if (keycat == "F" && sm == "S") { typedef Traits<HB, true> Tr; run_case<SetAd<uint64_t, Tr>, Tr>(dist, ls, ops, sched); return true; }
	if (keycat == "S" && sm == "S") { typedef Traits<HB, false> Tr; run_case<SetAd<kit::ElemNtm, Tr>, Tr>(dist, ls, ops, sched); return true; }
	if (keycat == "T" && sm == "S") { typedef Traits<HB, false, false> Tr; run_case<SetAd<kit::ElemNtm, Tr>, Tr>(dist, ls, ops, sched); return true; }
	if constexpr (WithMaps)
	{	// HashMap is instantiated for one kind per translation unit (compile time)
		if (keycat == "F" && sm == "M") { typedef Traits<HB, true> Tr; run_case<MapAd<uint64_t, Tr>, Tr>(dist, ls, ops, sched); return true; }
		if (keycat == "S" && sm == "M") { typedef Traits<HB, false> Tr; run_case<MapAd<kit::ElemNtm, Tr>, Tr>(dist, ls, ops, sched); return true; }
	}
	return false;
}
// inline crew: stateless manager kit::MM0 + checkVersion = false (sets only)
template<typename HB> static bool run_kind_inline(const std::string& keycat, int dist, size_t ls, const std::vector<std::string>& ops, bool sched)
{
	if (keycat == "F") { typedef Traits<HB, true> Tr; typedef SetAd<uint64_t, Tr, kit::MM0, SetSettNV> Ad;
		static_assert(std::is_same<typename Ad::HS::Crew, internal::SetCrew<Tr, kit::MM0, false, false>>::value, "inline crew expected");
		run_case<Ad, Tr>(dist, ls, ops, sched); return true; }
	if (keycat == "S" || keycat == "T") { typedef Traits<HB, false> Tr; typedef SetAd<kit::ElemNtm, Tr, kit::MM0, SetSettNV> Ad;
		static_assert(std::is_same<typename Ad::HS::Crew, internal::SetCrew<Tr, kit::MM0, false, false>>::value, "inline crew expected");
		run_case<Ad, Tr>(dist, ls, ops, sched); return true; }
	return false;
}

// bucket level (ported from props/C13/harness.cpp): AddCrt / Remove / UpdateMaxProbe / Clear on ONE real bucket, all bookkeeping bytes
namespace bops {
typedef HashSetItemTraits<uint64_t, MemManagerDefault> IT;
typedef internal::BucketOpen2N2<IT, 3, true> O2; typedef internal::BucketOpen8<IT> O8;
template<size_t M> using N1 = internal::BucketOpenN1<IT, M, true>;
template<class Bk> struct Raw { alignas(Bk) unsigned char buf[sizeof(Bk)]; Bk* b; Raw() { std::memset(buf, 0, sizeof(buf)); b = new (buf) Bk(); } };   // zeroed (bytes of empty slots are never initialised by momo), never destroyed (dtor asserts count == 0)
struct BOp { char k; ull a, b, c; };
template<class Bk> static typename Bk::Iterator nthIter(Bk& b, typename Bk::Params& pa, size_t j)
{ auto bounds = b.GetBounds(pa); auto it = bounds.GetBegin(); for (size_t t = 0; t < j; ++t) ++it; return it; }
template<class Bk, size_t M> static bool apply(Raw<Bk>& r, typename Bk::Params& pa, const std::vector<BOp>& ops)
{
	for (auto& o : ops)
	{
		size_t cnt = r.b->pvGetCount();
		if (o.k == 'A') { if (cnt >= M) return false; ull v = o.a; r.b->AddCrt(pa, [v] (uint64_t* p) { *p = v; }, size_t(o.a), size_t(o.b), size_t(o.c)); }
		else if (o.k == 'R') { if (o.a >= cnt) return false; r.b->Remove(pa, nthIter(*r.b, pa, size_t(o.a)), [] (uint64_t& src, uint64_t& dst) { dst = src; }); }
		else if (o.k == 'U') r.b->UpdateMaxProbe(size_t(o.a));
		else r.b->Clear(pa);
	}
	return true;
}
static void run(std::istringstream& is)
{
	std::string kind, tok; ull m, L; is >> kind >> m >> L; std::vector<BOp> ops;
	while (is >> tok)
	{
		BOp o{ tok[0], 0, 0, 0 }; std::vector<ull> v; size_t pos = 1;
		while (pos < tok.size()) { size_t e = tok.find(':', pos + 1); if (e == std::string::npos) e = tok.size(); v.push_back(std::stoull(tok.substr(pos + 1, e - pos - 1))); pos = e; }
		if (v.size() > 0) o.a = v[0]; if (v.size() > 1) o.b = v[1]; if (v.size() > 2) o.c = v[2];
		ops.push_back(o);
	}
	MemManagerDefault mm;
	if (kind == "o2")
	{
		Raw<O2> r; O2::Params pa(mm);
		std::memset(r.b->mHashData.hashProbes, 0, 3);   // momo leaves the probe bytes of empty slots unspecified; the model starts them at 0
		if (!apply<O2, 3>(r, pa, ops)) { puts("stuck"); return; }
		printf("%u %u %u %u %u %u %u %u %llu %d\n", unsigned(r.b->mState[0]), unsigned(r.b->mState[1]),
			unsigned(r.b->mHashData.shortHashes[0]), unsigned(r.b->mHashData.shortHashes[1]), unsigned(r.b->mHashData.shortHashes[2]),
			unsigned(r.b->mHashData.hashProbes[0]), unsigned(r.b->mHashData.hashProbes[1]), unsigned(r.b->mHashData.hashProbes[2]),
			ull(r.b->pvGetCount()), r.b->IsFull() ? 1 : 0);
	}
	else if (kind == "n1f")
	{	// BucketOpen8 = BucketOpenN1<.., 7, reverse = false>
		Raw<O8> r; O8::Params pa(mm); if (!apply<O8, 7>(r, pa, ops)) { puts("stuck"); return; }
		for (size_t i = 0; i <= 7; ++i) printf("%u ", unsigned(r.b->mData[i]));
		printf("%llu %d\n", ull(r.b->pvGetCount()), r.b->IsFull() ? 1 : 0);
	}
	else
	{
		Raw<N1<3>> r; N1<3>::Params pa(mm); if (!apply<N1<3>, 3>(r, pa, ops)) { puts("stuck"); return; }
		for (size_t i = 0; i <= 3; ++i) printf("%u ", unsigned(r.b->mData[i]));
		printf("%llu %d\n", ull(r.b->pvGetCount()), r.b->IsFull() ? 1 : 0);
	}
}
}

// translator validation of the GENERATED pvAddNogrow probe loop and pvRelocateItems loop skeleton (ocaml/driver.ml `leaf move`):
// `leaf move <kind> <log> h1 h2 ..` -- a real HashSet with identity hash and 2^log buckets; every h is added by calling the REAL private
// pvAddNogrow<false>(*mBuckets, h, creator) directly (no growth: the table is filled until "Hash table is full"): printed = the bucket index
// of the returned position / GetCount() right after the call (unchanged: <false>) / GetMaxProbe of the start bucket (Open2N2 only: exact), or F.  Then one REAL migration (Reserve): the key type logs every move construction; printed = for every item,
// in the order of its FIRST move, <old bucket index>.<old offset in GetBounds> -- the order in which pvRelocateItems visits the items.
namespace mv {
static std::vector<ull>* g_log = nullptr;
struct TKey
{
	ull v;
	explicit TKey(ull x) noexcept : v(x) {}
	TKey(TKey&& o) noexcept : v(o.v) { if (g_log) g_log->push_back(v); }
	TKey(const TKey&) = delete;
	TKey& operator=(const TKey&) = delete;
};
template<typename HB> struct Tr
{
	typedef HB HashBucket;
	static const bool isFastNothrowHashable = true;
	template<typename ItemTraits> using Bucket = typename HB::template Bucket<ItemTraits, false>;
	template<typename KeyArg> using IsValidKeyArg = std::false_type;
	size_t logStart;
	explicit Tr(size_t ls = 4) : logStart(ls) {}
	size_t CalcCapacity(size_t bc, size_t mc) const noexcept { return HB::CalcCapacity(bc, mc); }
	size_t GetBucketCountShift(size_t bc, size_t mc) const noexcept { return HB::GetBucketCountShift(bc, mc); }
	size_t GetLogStartBucketCount() const noexcept { return logStart; }
	size_t GetHashCode(const TKey& k) const noexcept { return size_t(k.v); }
	bool IsEqual(const TKey& a, const TKey& b) const noexcept { return a.v == b.v; }
};
template<typename HB> static void run(size_t log, const std::vector<ull>& hv, bool exactProbe)
{
	typedef Tr<HB> T; typedef HashSet<TKey, T, kit::MM, HashSetItemTraits<TKey, kit::MM>, SetSett> HS;
	W() = kit::World(); g_log = nullptr;
	{
		HS s{T(log), kit::MM(1)};
		s.Reserve(1);
		printf("%llu", ull(s.mBuckets->GetLogCount()));
		for (ull h : hv)
		{
			auto creator = [h] (TKey* p) { ::new(static_cast<void*>(p)) TKey(h); };
			try
			{
				// the <false> instantiation (the one the migration uses and cxx2coq translates): mCount must stay as it is
				auto pos = s.template pvAddNogrow<false>(*s.mBuckets, size_t(h), creator);
				auto* bk0 = s.mBuckets; size_t sb = HS::Bucket::GetStartBucketIndex(size_t(h), bk0->GetCount());
				printf(" %llu/%llu/", ull(HS::ConstPositionProxy::GetBucketIndex(pos)), ull(s.GetCount()));
				if (exactProbe) printf("%llu", ull((*bk0)[sb].GetMaxProbe(bk0->GetLogCount()))); else printf("-");   // Open2N2: exact up to 255
				++s.mCount;
			}
			catch (const std::runtime_error&) { printf(" F"); }
		}
		std::map<ull, std::pair<size_t, size_t>> where;
		auto* bk = s.mBuckets;
		for (size_t i = 0; i < bk->GetCount(); ++i)
		{
			auto bounds = (*bk)[i].GetBounds(bk->GetBucketParams()); size_t p = 0;
			for (auto it = bounds.GetBegin(); it != bounds.GetEnd(); ++it, ++p) where[it->v] = std::make_pair(i, p);
		}
		std::vector<ull> lg; g_log = &lg;
		s.Reserve(std::max(s.GetCapacity(), s.GetCount()) + 1);   // always above the capacity: forces one migration
		g_log = nullptr;
		printf(" | %llu", ull(s.mBuckets->GetNextBuckets() == nullptr ? 1 : 2));
		std::set<ull> seen;
		for (ull k : lg) if (seen.insert(k).second) printf(" %llu.%llu", ull(where[k].first), ull(where[k].second));
		printf(" | %llu\n", ull(s.GetCount()));
	}
}
}
// translator validation: the REAL leaf functions of the growth decision / probe sequence (same lines as ocaml/driver.ml `leaf`)
static void leaf(std::istringstream& is)
{
	typedef internal::HashSetBucketItemTraits<HashSetItemTraits<uint64_t, kit::MM>> BIT;
	std::string what, k; is >> what;
	if (what == "bops") { bops::run(is); fflush(stdout); return; }
	if (what == "p4ops" || what == "oneops")
	{	// AddCrt / Remove / Clear sequences on ONE real BucketLimP4<.., 4, .., true> / BucketOne: metadata bytes, count, IsFull, WasFull, pool index
		typedef bops::IT IT; std::vector<bops::BOp> ops; std::string tok;
		while (is >> tok)
		{
			bops::BOp o{ tok[0], 0, 0, 0 }; std::vector<ull> v; size_t pos = 1;
			while (pos < tok.size()) { size_t e = tok.find(':', pos + 1); if (e == std::string::npos) e = tok.size(); v.push_back(std::stoull(tok.substr(pos + 1, e - pos - 1))); pos = e; }
			if (v.size() > 0) o.a = v[0]; if (v.size() > 1) o.b = v[1]; if (v.size() > 2) o.c = v[2];
			ops.push_back(o);
		}
		MemManagerDefault mm;
		if (what == "p4ops")
		{
			typedef internal::BucketLimP4<IT, 4, MemPoolParams<>, true> P4; static_assert(P4::hashCount == 4 && P4::minMemPoolIndex == 2, "configuration of the generated code");
			bops::Raw<P4> r; P4::Params pa(mm); bool ok = true;
			for (auto& o : ops)
			{
				size_t cnt = r.b->pvGetCount();
				if (o.k == 'A') { if (cnt >= 4) { ok = false; break; } ull v = o.a; r.b->AddCrt(pa, [v] (uint64_t* p) { *p = v; }, size_t(o.a), size_t(o.b), size_t(o.c)); }
				else if (o.k == 'R') { if (o.a >= cnt) { ok = false; break; } r.b->Remove(pa, r.b->GetBounds(pa).GetBegin() + o.a, [] (uint64_t& src, uint64_t& dst) { dst = src; }); }
				else r.b->Clear(pa);
			}
			if (!ok) puts("stuck");
			else printf("%u %u %u %u %llu %d %d %llu %d\n", unsigned(r.b->mShortHashes[0]), unsigned(r.b->mShortHashes[1]), unsigned(r.b->mShortHashes[2]), unsigned(r.b->mShortHashes[3]),
				ull(r.b->pvGetCount()), r.b->IsFull() ? 1 : 0, r.b->WasFull() ? 1 : 0, ull(r.b->pvGetMemPoolIndex()), r.b->mPtrState.GetPointer() != nullptr ? 1 : 0);
			r.b->Clear(pa);
		}
		else
		{
			typedef internal::BucketOne<IT, 1> One; bops::Raw<One> r; One::Params pa(mm); bool ok = true;
			for (auto& o : ops)
			{
				if (o.k == 'A') { if (r.b->IsFull()) { ok = false; break; } ull v = o.a; r.b->AddCrt(pa, [v] (uint64_t* p) { *p = v; }, size_t(o.a), 0, 0); }
				else if (o.k == 'R') { if (!r.b->IsFull()) { ok = false; break; } r.b->Remove(pa, r.b->GetBounds(pa).GetBegin(), [] (uint64_t& src, uint64_t& dst) { dst = src; }); }
				else r.b->Clear(pa);
			}
			if (!ok) puts("stuck"); else printf("%llu %d %d\n", ull(r.b->mHashState), r.b->IsFull() ? 1 : 0, r.b->WasFull() ? 1 : 0);
		}
		fflush(stdout); return;
	}
	if (what == "cap")
	{
		ull mc, l; is >> k >> mc >> l; size_t bc = size_t(1) << l; ull cap = 0, sh = 0;
		if (k == "B") { cap = internal::HashBucketBase::CalcCapacity(bc, mc); sh = internal::HashBucketBase::GetBucketCountShift(bc, mc); }
		else if (k == "O2")
		{
			if (mc == 1) { cap = HashBucketOpen2N2<1>::CalcCapacity(bc, mc); sh = HashBucketOpen2N2<1>::GetBucketCountShift(bc, mc); }
			else if (mc == 2) { cap = HashBucketOpen2N2<2>::CalcCapacity(bc, mc); sh = HashBucketOpen2N2<2>::GetBucketCountShift(bc, mc); }
			else { cap = HashBucketOpen2N2<3>::CalcCapacity(bc, mc); sh = HashBucketOpen2N2<3>::GetBucketCountShift(bc, mc); }
		}
		else { cap = HashBucketOpen8::CalcCapacity(bc, mc); sh = HashBucketOpen8::GetBucketCountShift(bc, mc); }
		printf("%llu %llu\n", cap, sh);
	}
	else if (what == "idx")
	{
		ull hc, l, i, p; is >> k >> hc >> l >> i >> p; size_t bc = size_t(1) << l;
		size_t st = internal::BucketBase::GetStartBucketIndex(hc, bc), nx;
		if (k == "B") nx = internal::BucketBase::GetNextBucketIndex(i, hc, bc, p);
		else if (k == "O2") nx = internal::BucketOpen2N2<BIT, 3, false>::GetNextBucketIndex(i, hc, bc, p);
		else nx = internal::BucketOpen8<BIT>::GetNextBucketIndex(i, hc, bc, p);
		printf("%llu %llu\n", ull(st), ull(nx));
	}
	else if (what == "cnt")
	{	// HashSetBuckets::GetCount of a real bucket array created with that log size
		ull l; is >> l; typedef internal::HashSetBuckets<internal::BucketOpen2N2<BIT, 3, false>> Bk; kit::MM mm(1);
		Bk* b = Bk::Create(mm, size_t(l), nullptr); printf("%llu\n", ull(b->GetCount())); b->Destroy(mm, true);
	}
	else if (what == "rsv")
	{	// the REAL Reserve(n) on a bucket-less HashSet with nl0 start buckets: which table size / capacity does it choose?
		ull nl0, n; is >> k >> nl0 >> n;
		auto go = [&] (auto trTag) {
			typedef decltype(trTag) Tr; typedef SetAd<uint64_t, Tr> Ad; W() = kit::World();
			{
				typename Ad::Cont c{Tr(0, size_t(nl0)), kit::MM(1)};
				try { c.Reserve(size_t(n)); printf("%llu %llu\n", ull(Ad::hs(c).mBuckets->GetLogCount()), ull(c.GetCapacity())); }
				catch (const std::length_error&) { puts("EXN"); }
				catch (const std::bad_alloc&) { puts("BADALLOC"); }
			}
		};
		if (k == "L4") go(Traits<HashBucketLimP4<4, MemPoolParams<1, 0>>, true>());
		else if (k == "L1") go(Traits<HashBucketLimP4<1, MemPoolParams<1, 0>>, true>());
		else if (k == "O3") go(Traits<HashBucketOpen2N2<3>, true>());
		else go(Traits<HashBucketOpen8, true>());
	}
	else if (what == "move")
	{
		ull l, h; is >> k >> l; std::vector<ull> hv; while (is >> h) hv.push_back(h);
		typedef MemPoolParams<1, 0> MP1;
		if (k == "L1") mv::run<HashBucketLimP4<1, MP1>>(size_t(l), hv, false);
		else if (k == "L2") mv::run<HashBucketLimP4<2, MP1>>(size_t(l), hv, false);
		else if (k == "L4") mv::run<HashBucketLimP4<4, MP1>>(size_t(l), hv, false);
		else if (k == "O1") mv::run<HashBucketOpen2N2<1>>(size_t(l), hv, true);
		else if (k == "O3") mv::run<HashBucketOpen2N2<3>>(size_t(l), hv, true);
		else if (k == "O8") mv::run<HashBucketOpen8>(size_t(l), hv, false);
		else mv::run<HashBucketOne<>>(size_t(l), hv, false);
	}
	else puts("?leaf");
	fflush(stdout);
}

int main(int argc, char** argv)
{
	bool sched = argc > 1 && std::string(argv[1]) == "sched";
	std::string line;
	while (std::getline(std::cin, line))
	{
		std::istringstream is(line); std::string kind, keycat, sm, tok; int dist; size_t ls;
		if (line.compare(0, 5, "leaf ") == 0) { is >> kind; leaf(is); continue; }
		is >> kind >> keycat >> dist >> ls >> sm >> tok;   // tok = "|"
		std::vector<std::string> ops;
		while (is >> tok && tok != "|") ops.push_back(tok);
		bool ok = false;
		typedef MemPoolParams<1, 0> MP1;     // every bucket array of LimP4 is its own memory-manager allocation
#if C11_TU == 0
		if (kind == "L1") ok = run_kind<HashBucketLimP4<1, MP1>, 1, 1, true>(keycat, sm, dist, ls, ops, sched);
		else if (kind == "L2") ok = run_kind<HashBucketLimP4<2, MP1>, 2, 2>(keycat, sm, dist, ls, ops, sched);
		else if (kind == "L3") ok = run_kind<HashBucketLimP4<3, MP1>, 3, 3>(keycat, sm, dist, ls, ops, sched);
		else if (kind == "L4") ok = run_kind<HashBucketLimP4<4, MP1>, 4, 4, true>(keycat, sm, dist, ls, ops, sched);
		else if (kind == "L4d") ok = run_kind<HashBucketLimP4<>, 4, 4>(keycat, sm, dist, ls, ops, sched);
#elif C11_TU == 1
		if (kind == "O1") ok = run_kind<HashBucketOpen2N2<1>, 1, 1>(keycat, sm, dist, ls, ops, sched);
		else if (kind == "O2") ok = run_kind<HashBucketOpen2N2<2>, 2, 2>(keycat, sm, dist, ls, ops, sched);
		else if (kind == "O3") ok = run_kind<HashBucketOpen2N2<3>, 3, 3, true>(keycat, sm, dist, ls, ops, sched);
		else if (kind == "O8") ok = run_kind<HashBucketOpen8, 7, 3>(keycat, sm, dist, ls, ops, sched);
#elif C11_TU == 3
		if (kind == "P2") ok = run_kind<HashBucketLimP<2, MP1>, 2, 2>(keycat, sm, dist, ls, ops, sched);
		else if (kind == "P3") ok = run_kind<HashBucketLimP<3, MP1>, 3, 3, true>(keycat, sm, dist, ls, ops, sched);
		else if (kind == "P8") ok = run_kind<HashBucketLimP<8, MP1>, 8, 8>(keycat, sm, dist, ls, ops, sched);
#else
		if (kind == "N1") ok = run_kind<HashBucketOne<>, 1, 1, true>(keycat, sm, dist, ls, ops, sched);
		else if (kind == "L4i") ok = run_kind_inline<HashBucketLimP4<4, MP1>>(keycat, dist, ls, ops, sched);
		else if (kind == "O3i") ok = run_kind_inline<HashBucketOpen2N2<3>>(keycat, dist, ls, ops, sched);
		else if (kind == "O8i") ok = run_kind_inline<HashBucketOpen8>(keycat, dist, ls, ops, sched);
#endif
		if (!ok) puts("?");
	}
	return 0;
}
