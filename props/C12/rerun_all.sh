#!/bin/bash
# robustness round: re-run EVERY recorded mutant and seed once against the final check; summary in build/C12/rerun_all.log
cd /verif
{
for s in mutants.sh grow_mutants.sh grow2_mutants.sh grow3_mutants.sh next_mutants.sh next2_mutants.sh next3_mutants.sh; do
  echo "##### $s"; bash props/C12/$s 2>&1 | grep -E "^===|^exit=|BROKEN|VIOLATION|done:" | cut -c1-200
done
for sd in C12-a C12-b C12-c C12-d; do
  d=$(mktemp -d); cp -r /repo/include $d/; (cd $d && patch -p1 -s < /verif/seeded/$sd/patch.diff)
  cp evidence/C12.json $d/ev_keep.json 2>/dev/null; ls replays > $d/replays_before.txt 2>/dev/null
  echo "=== seed $sd"; VERIF_REPO=$d timeout 3000 ./check C12 > build/C12/seed_$sd.log 2>&1; echo "exit=$?"
  grep -E "BROKEN|VIOLATION|done:" build/C12/seed_$sd.log | cut -c1-200
  cp $d/ev_keep.json evidence/C12.json 2>/dev/null; for r in $(ls replays | grep '^C12-'); do grep -qx "$r" $d/replays_before.txt || rm -f replays/$r; done
  rm -rf $d
done
echo "##### clean tree"; timeout 3000 ./check C12 > build/C12/final_clean.log 2>&1; echo "exit=$?"; grep -E "BROKEN|VIOLATION|done:" build/C12/final_clean.log | cut -c1-200
} > build/C12/rerun_all.log 2>&1
