(* C06 - further regenerated decision functions: map::at, set::equal_range, pvCreateMap / pvCreateSet (allocator-extended move) *)
From Coq Require Import List ZArith Bool Lia Arith.
From MomoCommon Require Import GenPrelude.
From C06 Require Import Spec SpecProofs WrapOrdered GenPrims GenRefine.
From C06 Require Gen_MapAt Gen_SetEqr Gen_UMapCreate Gen_SetCreate.
Import ListNotations.
Local Open Scope Z_scope.

Section Misc.
Variable l : list elem.

(* map::at(key): find, then throw out_of_range or return the mapped value *)
Definition a_find (k : Z) : Z := Z.of_nat (ord_find k l).
Definition a_mapped (z : Z) : Z := snd (nth (Z.to_nat z) l dflt).
Lemma gen_map_at_refines k :
  Gen_MapAt.at_const Z.eqb (o_end l) a_find a_mapped k =
  if (ord_find k l =? length l)%nat then Exn else Ok (snd (nth (ord_find k l) l dflt)).
Proof.
  unfold Gen_MapAt.at_const, a_find, a_mapped, o_end, it_id.
  destruct (Z.eqb_spec (Z.of_nat (ord_find k l)) (Z.of_nat (length l))), (Nat.eqb_spec (ord_find k l) (length l)); try lia; auto.
  rewrite Nat2Z.id. reflexivity.
Qed.
(* at() throws exactly when the key is absent *)
Lemma map_at_throws_iff_absent k : sorted true l ->
  (Gen_MapAt.at_const Z.eqb (o_end l) a_find a_mapped k = Exn <-> ord_count k l = 0%nat).
Proof.
  intros Hs. rewrite gen_map_at_refines. unfold ord_find, ord_count.
  pose proof (lb_le_ub k l). pose proof (ub_le_len k l).
  destruct (Nat.ltb_spec (lower_bound k l) (upper_bound k l)).
  - destruct (Nat.eqb_spec (lower_bound k l) (length l)); [lia|]. split; [discriminate|lia].
  - rewrite Nat.eqb_refl. split; auto. lia.
Qed.

(* set::equal_range: multi = [lower_bound, upper_bound); unique = lower_bound and, if the key is there, the next position *)
Definition o_next (z : Z) : Z := z + 1.
Lemma gen_set_equal_range_refines multi k : sorted multi l ->
  Gen_SetEqr.equal_range multi Z.eqb (o_end l) o_next (o_deref l) o_less (o_lb l) (o_ub l) k =
  (Z.of_nat (lower_bound k l), Z.of_nat (upper_bound k l)).
Proof.
  intros Hs. unfold Gen_SetEqr.equal_range, o_lb, o_ub, o_end, o_next, o_less. destruct multi; [reflexivity|].
  pose proof (sorted_weaken _ Hs) as Hw. rewrite deref_at.
  pose proof (lb_le_ub k l). pose proof (ub_le_len k l). pose proof (uniq_ub_le k l Hs).
  destruct (Z.eqb_spec (Z.of_nat (lower_bound k l)) (Z.of_nat (length l))) as [E|E]; simpl.
  - f_equal. lia.
  - pose proof (lb_at k l ltac:(lia)) as LA. unfold keyat.
    destruct (Z.ltb_spec k (key (nth (lower_bound k l) l dflt))).
    + f_equal. destruct (le_lt_dec (upper_bound k l) (lower_bound k l)); [lia|].
      pose proof (ub_before k l (lower_bound k l) ltac:(lia)). lia.
    + f_equal. destruct (le_lt_dec (upper_bound k l) (lower_bound k l)).
      * pose proof (ub_after k l (lower_bound k l) Hw ltac:(lia) ltac:(lia)). lia.
      * lia.
Qed.
End Misc.

(* allocator-extended move construction (pvCreateMap / pvCreateSet): the nested container is stolen exactly when the allocators
   compare equal, otherwise a fresh container with the requested allocator receives the elements one by one - the std rule
   ([container.alloc.reqmts]: X(rv, m) moves element-wise unless m == rv.get_allocator()) *)
Definition create_decision (alloc_eqb : Z -> Z -> bool) (alloc_of steal : Z -> Z) (right alloc fresh : Z) : Z :=
  if alloc_eqb (alloc_of right) alloc then steal right else fresh.
Lemma gen_umap_create_decision : Gen_UMapCreate.pvCreateMap = create_decision.
Proof. reflexivity. Qed.
Lemma gen_set_create_same_code : Gen_SetCreate.pvCreateSet = Gen_UMapCreate.pvCreateMap.
Proof. reflexivity. Qed.
Lemma create_steals_iff_equal_allocators alloc_eqb alloc_of steal right alloc fresh :
  (forall x, steal x <> fresh) ->
  (Gen_UMapCreate.pvCreateMap alloc_eqb alloc_of steal right alloc fresh = steal right <-> alloc_eqb (alloc_of right) alloc = true).
Proof.
  intros Hd. rewrite gen_umap_create_decision. unfold create_decision. destruct (alloc_eqb (alloc_of right) alloc); split; auto.
  - intros E. exfalso. exact (Hd right (eq_sym E)).
  - discriminate.
Qed.
