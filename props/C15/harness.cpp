// C15 implementation side (set-like containers): the REAL momo HashSet / HashMap / TreeSet / TreeMap built with
// checkMode = exception and checkVersion = true (custom settings classes; NDEBUG is not relied upon).
// One case per line:  <kind> <op> <op> ...   kind in hs hm ts tm;  op = name,arg,arg,...  (see ocaml/driver.ml)
// Output: one token per op (A | A=<v> | R | X<what> | C!<why>) then " | v0 v1 | keys0 | keys1".
//   A = call returned, R = std::invalid_argument thrown AND both containers unchanged (compared with std::set twins),
//   C! = independent oracle violated (contents differ from the twin, or a rejected call changed something).
// Every case runs in a forked child, so an internal assert / terminate / crash is reported as that case's output.
#include "private_access.h"
#include <unistd.h>
#include <signal.h>
#include <sys/wait.h>
#include <sys/resource.h>
#include "momo/HashSet.h"
#include "momo/HashMap.h"
#include "momo/TreeSet.h"
#include "momo/TreeMap.h"
using namespace momo;

struct HSS : HashSetSettings { static const CheckMode checkMode = CheckMode::exception; static const bool checkVersion = true; };
struct HMS : HashMapSettings { static const CheckMode checkMode = CheckMode::exception; static const bool checkVersion = true; };
struct TSS : TreeSetSettings { static const CheckMode checkMode = CheckMode::exception; static const bool checkVersion = true; };
struct TMS : TreeMapSettings { static const CheckMode checkMode = CheckMode::exception; static const bool checkVersion = true; };
typedef MemManagerDefault MMD;
typedef HashSet<int, HashTraits<int>, MMD, HashSetItemTraits<int, MMD>, HSS> HS;
typedef HashMap<int, int, HashTraits<int>, MMD, HashMapKeyValueTraits<int, int, MMD>, HMS> HM;
typedef TreeSet<int, TreeTraits<int>, MMD, TreeSetItemTraits<int, MMD>, TSS> TS;
typedef TreeMap<int, int, TreeTraits<int>, MMD, TreeMapKeyValueTraits<int, int, MMD>, TMS> TM;
// coverage-audit configurations: open-addressing buckets, tiny tree nodes (capacity 4: splits / merges / multi-level trees with few items),
// non-default binary search in nodes
typedef HashSet<int, HashTraitsOpen<int>, MMD, HashSetItemTraits<int, MMD>, HSS> HO;
typedef TreeTraits<int, false, TreeNode<4, 2>, false> SmallTreeTraits;
typedef TreeSet<int, SmallTreeTraits, MMD, TreeSetItemTraits<int, MMD>, TSS> TN;
typedef TreeMap<int, int, SmallTreeTraits, MMD, TreeMapKeyValueTraits<int, int, MMD>, TMS> TNM;

// the INTENDED classes are really instantiated (private typedefs are visible here)
static_assert(HS::Settings::checkMode == CheckMode::exception && HS::Settings::checkVersion, "exception mode + versions");
static_assert(TS::Settings::checkMode == CheckMode::exception && TS::Settings::checkVersion, "exception mode + versions");
static_assert(HM::HashSet::Settings::checkMode == CheckMode::exception && HM::HashSet::Settings::checkVersion, "nested set of HashMap");
static_assert(TM::TreeSet::Settings::checkMode == CheckMode::exception && TM::TreeSet::Settings::checkVersion, "nested set of TreeMap");
static_assert(HS::Crew::keepVersion && TS::Crew::keepVersion && HO::Crew::keepVersion && TN::Crew::keepVersion, "pointer crew with a version cell");
static_assert(HS::ConstPosition::checkVersion && TS::ConstIterator::checkVersion, "iterators carry a real VersionKeeper");
static_assert(std::is_same<HS::Bucket, internal::BucketLimP4<internal::HashSetBucketItemTraits<HashSetItemTraits<int, MMD>>, 4, MemPoolParams<32, 16>, false>>::value, "default bucket = LimP4");
static_assert(std::is_same<HO::Bucket, internal::BucketOpen8<internal::HashSetBucketItemTraits<HashSetItemTraits<int, MMD>>>>::value, "open configuration really uses BucketOpen8");
static_assert(TS::Node::maxCapacity == 32 && TN::Node::maxCapacity == 4 && TNM::TreeSet::Node::maxCapacity == 4, "node capacities");
static_assert(!HS::areItemsNothrowRelocatable, "LimP4 buckets may allocate on Add: growth relocates through the fallible path (pvFind walks bucket generations)");
static_assert(HO::areItemsNothrowRelocatable, "open buckets + int keys: the nothrow relocation path");

static size_t version(const HS& c) { return c.mCrew.mData->version; }
static size_t version(const TS& c) { return c.mCrew.mData->version; }
static size_t version(const HM& c) { return c.mHashSet.mCrew.mData->version; }
static size_t version(const TM& c) { return c.mTreeSet.mCrew.mData->version; }
static size_t version(const HO& c) { return c.mCrew.mData->version; }
static size_t version(const TN& c) { return c.mCrew.mData->version; }
static size_t version(const TNM& c) { return c.mTreeSet.mCrew.mData->version; }

// the address a handle's VersionKeeper points to, and the address of a container's version cell (private members are visible here)
static const size_t* keeperOf(const HS::ConstIterator& h) { return h.mContainerVersion; }
static const size_t* keeperOf(const TS::ConstIterator& h) { return h.mContainerVersion; }
static const size_t* keeperOf(const HO::ConstIterator& h) { return h.mContainerVersion; }
static const size_t* keeperOf(const TN::ConstIterator& h) { return h.mContainerVersion; }
static const size_t* keeperOf(const HM::ConstIterator& h) { return h.mHashSetIterator.mContainerVersion; }
static const size_t* keeperOf(const TM::ConstIterator& h) { return h.mTreeSetIterator.mContainerVersion; }
static const size_t* keeperOf(const TNM::ConstIterator& h) { return h.mTreeSetIterator.mContainerVersion; }
static const size_t* cellOf(const HS& c) { return &c.mCrew.mData->version; }
static const size_t* cellOf(const TS& c) { return &c.mCrew.mData->version; }
static const size_t* cellOf(const HO& c) { return &c.mCrew.mData->version; }
static const size_t* cellOf(const TN& c) { return &c.mCrew.mData->version; }
static const size_t* cellOf(const HM& c) { return &c.mHashSet.mCrew.mData->version; }
static const size_t* cellOf(const TM& c) { return &c.mTreeSet.mCrew.mData->version; }
static const size_t* cellOf(const TNM& c) { return &c.mTreeSet.mCrew.mData->version; }

template<class C> struct Traits;
template<> struct Traits<HS> { static const bool tree = false, map = false; };
template<> struct Traits<HM> { static const bool tree = false, map = true; };
template<> struct Traits<TS> { static const bool tree = true, map = false; };
template<> struct Traits<TM> { static const bool tree = true, map = true; };
template<> struct Traits<HO> { static const bool tree = false, map = false; };
template<> struct Traits<TN> { static const bool tree = true, map = false; };
template<> struct Traits<TNM> { static const bool tree = true, map = true; };

static int val(int k) { return k * 10 + 1; }

template<class C> struct Run
{
	typedef typename C::ConstIterator H;
	static const bool tree = Traits<C>::tree, map = Traits<C>::map;
	C c[2];
	std::set<int> twin[2];
	std::map<int, H> hs;
	std::map<int, bool> known;     // hash: does the model know which element the handle points at
	std::string out;
	typedef decltype(std::declval<C&>().Extract(std::declval<H>())) Ext;
	std::unique_ptr<Ext> stash;    // the item taken out by the last accepted `extract` (re-inserted by insext / addatext)

	static int keyOf(const H& h) { if constexpr (map) return h->key; else return *h; }
	static int extKey(const Ext& e) { if constexpr (map) return e.GetKey(); else return e.GetItem(); }
	int nExt = 0;
	std::vector<int> contents(int i)
	{
		std::vector<int> v;
		if constexpr (map) { for (auto r : c[i]) { v.push_back(r.key); if (r.value != val(r.key)) v.push_back(-999); } }
		else { for (int k : c[i]) v.push_back(k); }
		std::sort(v.begin(), v.end());
		return v;
	}
	bool sameAsTwin(int i) { std::vector<int> v = contents(i), t(twin[i].begin(), twin[i].end()); return v == t && c[i].GetCount() == t.size(); }
	H& slot(int i) { return hs[i]; }
	// the assignment destroys container d's version cell: handles whose keeper points into it are dangling (use-after-free to touch them);
	// like the model, forget them (they become empty handles) -- every OTHER handle is left exactly as it is
	void dropDangling(int d)
	{
		const size_t* cell = cellOf(c[d]);
		for (auto& kv : hs) if (keeperOf(kv.second) == cell) kv.second = H();
	}

	// perform one call; classify
	template<class F> void call(F f, std::function<void()> twinUpdate = nullptr)
	{
		std::string res;
		size_t v0 = version(c[0]), v1 = version(c[1]);
		bool rejected = false;
		try { res = f(); }
		catch (const std::invalid_argument&) { rejected = true; }
		catch (const std::exception& e) { out += std::string("X") + typeid(e).name() + " "; return; }
		if (rejected)
		{
			bool same = sameAsTwin(0) && sameAsTwin(1) && version(c[0]) == v0 && version(c[1]) == v1;
			out += same ? "R " : "C!rejected-call-changed-container ";
			return;
		}
		if (twinUpdate) twinUpdate();
		if (!sameAsTwin(0) || !sameAsTwin(1)) { out += "C!contents-differ-from-twin "; return; }
		out += "A" + res + " ";
	}
	static std::string eq(long long v) { return "=" + std::to_string(v); }

	void op(const std::string& name, const std::vector<long long>& a)
	{
		auto C0 = [&](size_t i) -> C& { return c[a[i] ? 1 : 0]; };
		if (name == "find") call([&] { H h = C0(0).Find(int(a[1])); slot(a[2]) = h; known[a[2]] = true;
			return eq(twin[a[0] ? 1 : 0].count(int(a[1]))); });
		else if (name == "begin") call([&] { const C& cc = C0(0); slot(a[1]) = cc.GetBegin(); known[a[1]] = tree || cc.GetCount() <= 1; return std::string(); });
		else if (name == "end") call([&] { const C& cc = C0(0); slot(a[1]) = cc.GetEnd(); known[a[1]] = true; return std::string(); });
		else if (name == "lower" || name == "upper")
		{
			if constexpr (tree) call([&] { const C& cc = C0(0);
				H h = (name == "lower") ? cc.GetLowerBound(int(a[1])) : cc.GetUpperBound(int(a[1]));
				slot(a[2]) = h; known[a[2]] = true;
				return (h == cc.GetEnd()) ? std::string() : eq(keyOf(h)); });
			else out += "U ";
		}
		else if (name == "deref") call([&] { int k = keyOf(slot(a[0])); return known[a[0]] ? eq(k) : std::string(); });
		else if (name == "inc") call([&] { ++slot(a[0]); known[a[0]] = tree; return std::string(); });
		else if (name == "dec")
		{
			if constexpr (tree) call([&] { --slot(a[0]); return std::string(); });
			else out += "U ";
		}
		else if (name == "addat")
		{
			int i = a[0] ? 1 : 0, k = int(a[2]);
			call([&] {
				H h;
				if constexpr (map) h = C0(0).Add(slot(a[1]), k, val(k)); else h = C0(0).Add(slot(a[1]), k);
				slot(a[1]) = h; known[a[1]] = true; return std::string(); },
				[&, i, k] { twin[i].insert(k); });
		}
		else if (name == "rmat")
		{
			int i = a[0] ? 1 : 0;
			call([&] { C0(0).Remove(slot(a[1])); return std::string(); },
				[&, i] { // exactly one element must have disappeared
					std::vector<int> v = contents(i); std::set<int> s(v.begin(), v.end());
					if (s.size() + 1 == twin[i].size() && std::includes(twin[i].begin(), twin[i].end(), s.begin(), s.end())) twin[i] = s; });
		}
		else if (name == "extract")
		{
			int i = a[0] ? 1 : 0; int got = -1;
			call([&] { Ext ext = C0(0).Extract(slot(a[1]));
				if constexpr (map) got = ext.GetKey(); else got = ext.GetItem();
				stash.reset(new Ext(std::move(ext)));
				return eq(got); },
				[&, i] { twin[i].erase(got); });
		}
		else if (name == "rmrange")
		{
			int i = a[0] ? 1 : 0; long long n = -1;
			if constexpr (tree) call([&] { size_t before = C0(0).GetCount(); C0(0).Remove(slot(a[1]), slot(a[2]));
				n = (long long)(before - C0(0).GetCount()); return eq(n); },
				[&, i] { std::vector<int> v = contents(i); std::set<int> s(v.begin(), v.end());
					// a contiguous run of the twin must have disappeared
					std::vector<int> gone; for (int k : twin[i]) if (!s.count(k)) gone.push_back(k);
					bool contiguous = true;
					if (!gone.empty()) for (int k : twin[i]) if (k > gone.front() && k < gone.back() && s.count(k)) contiguous = false;
					if (contiguous && std::includes(twin[i].begin(), twin[i].end(), s.begin(), s.end())) twin[i] = s; });
			else out += "U ";
		}
		else if (name == "reset") call([&] { C0(0).ResetKey(slot(a[1]), int(a[2])); return std::string(); });
		else if (name == "chk") call([&] { const C& cc = C0(0); cc.CheckIterator(slot(a[1]), a[2] != 0); return std::string(); });
		else if (name == "ins")
		{
			int i = a[0] ? 1 : 0, k = int(a[1]);
			call([&] {
				bool inserted;
				if constexpr (map) { auto r = C0(0).Insert(k, val(k)); slot(a[2]) = r.position; inserted = r.inserted; }
				else { auto r = C0(0).Insert(k); slot(a[2]) = r.position; inserted = r.inserted; }
				known[a[2]] = true; return eq(inserted); },
				[&, i, k] { twin[i].insert(k); });
		}
		else if (name == "insext")      // Insert(ExtractedItem&&) when an extracted item with this key is stashed, else Insert(key)
		{
			int i = a[0] ? 1 : 0, k = int(a[1]);
			bool useExt = stash && !stash->IsEmpty() && (map ? extKey(*stash) : extKey(*stash)) == k;
			call([&] {
				bool inserted;
				if (useExt) { auto r = C0(0).Insert(std::move(*stash)); slot(a[2]) = r.position; inserted = r.inserted; }
				else if constexpr (map) { auto r = C0(0).Insert(k, val(k)); slot(a[2]) = r.position; inserted = r.inserted; }
				else { auto r = C0(0).Insert(k); slot(a[2]) = r.position; inserted = r.inserted; }
				known[a[2]] = true; return eq(inserted); },
				[&, i, k] { twin[i].insert(k); });
			if (useExt) out += "", nExt++;
		}
		else if (name == "addatext")    // Add(pos, ExtractedItem&&) when stashed, else Add(pos, key)
		{
			int i = a[0] ? 1 : 0, k = int(a[2]);
			bool useExt = stash && !stash->IsEmpty() && extKey(*stash) == k;
			call([&] {
				H h;
				if (useExt) h = C0(0).Add(slot(a[1]), std::move(*stash));
				else if constexpr (map) h = C0(0).Add(slot(a[1]), k, val(k)); else h = C0(0).Add(slot(a[1]), k);
				slot(a[1]) = h; known[a[1]] = true; return std::string(); },
				[&, i, k] { twin[i].insert(k); });
			if (useExt) nExt++;
		}
		else if (name == "moveto")      // c[dst] = std::move(c[src]); c[src] = C();   (handles of the source follow the contents)
		{
			int s = a[0] ? 1 : 0, d = 1 - s;
			dropDangling(d);
			call([&] { c[d] = std::move(c[s]); c[s] = C(); return std::string(); }, [&, s, d] { twin[d] = twin[s]; twin[s].clear(); });
		}
		else if (name == "copyto")      // c[dst] = c[src]   (the destination gets a new version cell; source handles stay with the source)
		{
			int s = a[0] ? 1 : 0, d = 1 - s;
			dropDangling(d);
			call([&] { c[d] = c[s]; return std::string(); }, [&, s, d] { twin[d] = twin[s]; });
		}
		else if (name == "insmany")
		{
			int i = a[0] ? 1 : 0;
			call([&] {
				if constexpr (map) { std::vector<std::pair<int, int>> v; for (long long j = 0; j < a[2]; ++j) v.push_back({ int(a[1] + j), val(int(a[1] + j)) }); C0(0).Insert(v.begin(), v.end()); }
				else { std::vector<int> v; for (long long j = 0; j < a[2]; ++j) v.push_back(int(a[1] + j)); C0(0).Insert(v.begin(), v.end()); }
				return std::string(); },
				[&, i] { for (long long j = 0; j < a[2]; ++j) twin[i].insert(int(a[1] + j)); });
		}
		else if (name == "rmkey")
		{
			int i = a[0] ? 1 : 0, k = int(a[1]);
			call([&] { return eq((long long)C0(0).Remove(k)); }, [&, i, k] { twin[i].erase(k); });
		}
		else if (name == "rmif")
		{
			int i = a[0] ? 1 : 0; int m = int(a[1]);
			call([&] {
				size_t n;
				if constexpr (map) n = C0(0).Remove([m](const int& k, const int&) { return ((k % m) + m) % m == 0; });
				else n = C0(0).Remove([m](const int& k) { return ((k % m) + m) % m == 0; });
				return eq((long long)n); },
				[&, i, m] { for (auto it = twin[i].begin(); it != twin[i].end();) if (((*it % m) + m) % m == 0) it = twin[i].erase(it); else ++it; });
		}
		else if (name == "clear")
		{
			int i = a[0] ? 1 : 0;
			call([&] { if constexpr (tree) C0(0).Clear(); else C0(0).Clear(a[1] != 0); return std::string(); }, [&, i] { twin[i].clear(); });
		}
		else if (name == "reserve")
		{
			if constexpr (!tree) call([&] { C0(0).Reserve(size_t(a[1])); return std::string(); });
			else out += "U ";
		}
		else if (name == "merge")
		{
			int s = a[0] ? 1 : 0, d = 1 - s;
			call([&] { c[s].MergeTo(c[d]); return std::string(); },
				[&, s, d] { std::set<int> rest; for (int k : twin[s]) if (!twin[d].insert(k).second) rest.insert(k); twin[s] = rest; });
		}
		else if (name == "mergeself") call([&] { C0(0).MergeTo(C0(0)); return std::string(); });
		else if (name == "swap") call([&] { c[0].Swap(c[1]); return std::string(); }, [&] { std::swap(twin[0], twin[1]); });
		else if (name == "count") call([&] { return eq((long long)C0(0).GetCount()); });
		else if (name == "has") call([&] { return eq(C0(0).ContainsKey(int(a[1]))); });
		else out += "?unknown-op ";
	}

	std::string finish()
	{
		std::string s = out + "| " + std::to_string(version(c[0])) + " " + std::to_string(version(c[1])) + " |";
		for (int i = 0; i < 2; ++i)
		{
			s += " ";
			std::vector<int> v = contents(i);
			if (v.empty()) s += "-";
			for (size_t j = 0; j < v.size(); ++j) s += (j ? "," : "") + std::to_string(v[j]);
			if (i == 0) s += " |";
		}
		return s;
	}
};

template<class C> static std::string runCase(std::istringstream& is)
{
	Run<C> r;
	std::string tok;
	while (is >> tok)
	{
		std::vector<long long> a; std::string name;
		size_t p = tok.find(',');
		name = tok.substr(0, p);
		while (p != std::string::npos)
		{
			size_t q = tok.find(',', p + 1);
			a.push_back(std::stoll(tok.substr(p + 1, q == std::string::npos ? q : q - p - 1)));
			p = q;
		}
		r.op(name, a);
	}
	return r.finish();
}

static std::string dispatch(const std::string& line)
{
	std::istringstream is(line); std::string kind; is >> kind;
	if (kind == "hs") return runCase<HS>(is);
	if (kind == "hm") return runCase<HM>(is);
	if (kind == "ts") return runCase<TS>(is);
	if (kind == "tm") return runCase<TM>(is);
	if (kind == "ho") return runCase<HO>(is);
	if (kind == "tn") return runCase<TN>(is);
	if (kind == "tnm") return runCase<TNM>(is);
	return "?kind";
}

int main()
{
	std::string line;
	int timedOut = 0;
	while (std::getline(std::cin, line))
	{
		if (timedOut >= 6) { printf("CRASH skipped (6 cases already ran into the 10 s limit)\n"); continue; }
		int fd[2];
		if (pipe(fd) != 0) return 3;
		fflush(stdout);
		pid_t pid = fork();
		if (pid == 0)
		{
			// a runaway case (e.g. a mutant that loops or reserves without bound) must not take the machine down
#if !defined(__SANITIZE_ADDRESS__)
			struct rlimit rl; rl.rlim_cur = rl.rlim_max = rlim_t(2) << 30; setrlimit(RLIMIT_AS, &rl);
#endif
			alarm(10);
			close(fd[0]);
			std::string res = dispatch(line);
			if (write(fd[1], res.data(), res.size()) < 0) _exit(4);
			_exit(0);
		}
		close(fd[1]);
		std::string res; char buf[4096]; ssize_t n;
		while ((n = read(fd[0], buf, sizeof buf)) > 0) res.append(buf, size_t(n));
		close(fd[0]);
		int st = 0; waitpid(pid, &st, 0);
		if (WIFSIGNALED(st) && WTERMSIG(st) == SIGALRM) ++timedOut;
		if (WIFSIGNALED(st)) res = "CRASH signal " + std::to_string(WTERMSIG(st));
		else if (WEXITSTATUS(st) != 0) res = "CRASH exit " + std::to_string(WEXITSTATUS(st));
		printf("%s\n", res.c_str());
	}
	return 0;
}
