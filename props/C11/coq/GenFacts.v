(* C11 -- the parts of the migration that cxx2coq does not translate -- the try / catch (...) of HashSet::pvRelocateItems()
   and the recursion over older generations, the unlinking and the Destroy in HashSet::pvRelocateItems(Buckets ptr) -- are
   read off the clang AST on every run (props/C11/astfacts.py -> Gen_RelocFacts.v, statements in the syntax of RelocSyntax.v).
   Here they are INTERPRETED: `interp_worker` / `interp_wrapper` execute the generated statement lists on the model's chain of
   tables (the loop over the own buckets = GrowModel.reloc_buckets, whose skeleton is Gen_HashSetMove; an exception = a status
   other than MOk, which skips the remaining statements up to a handler), and the theorems below prove that the result IS the
   hand model's reloc_gens / relocate.  So every theorem about growth failures (hadd / hreserve call relocate) is a theorem
   about the interpretation of the statements of the current source: moving ExtractNextBuckets out of the try, adding a
   handler, destroying a table before its loop, or recursing after the own loop changes the generated lists and breaks
   these proofs.  A statement the interpreter does not know makes it answer None (proof fails as well). *)
From Coq Require Import ZArith List String Bool Arith.
From C11 Require Import GrowModel RelocSyntax.
From C11 Require Gen_RelocFacts.
Import ListNotations.
Local Open Scope string_scope.

Definition has (sub s : string) : bool := match index 0 sub s with Some _ => true | None => false end.
Definition str_eqb (a b : string) : bool := if string_dec a b then true else false.
Fixpoint list_eqb (a b : list string) : bool :=
  match a, b with [] , [] => true | x :: r, y :: q => str_eqb x y && list_eqb r q | _, _ => false end.

(* what a statement of the worker pvRelocateItems(Buckets ptr buckets) means for the chain *)
Inductive wact : Type :=
| WSkip            (* a declaration that does not touch the chain *)
| WBindNext        (* Buckets* nextBuckets = buckets->GetNextBuckets(); *)
| WRecurse         (* if (nextBuckets != nullptr) { pvRelocateItems(nextBuckets); buckets->ExtractNextBuckets(); } *)
| WLoop            (* the loop over the own buckets that Gen_HashSetMove translates *)
| WDestroy         (* buckets->Destroy(memManager, false); *)
| WUnknown.

Definition is_item_loop (s : string) : bool :=
  prefix "for { decl bucket = operator[](*buckets, i); " s &&
  has "for { --bucketIter; decl hashCode = bucket.GetHashCodePart(" s &&
  has "bucketIter = bucket.Remove(bucketParams, bucketIter, itemReplacer) } }" s.

Definition wact_of (s : cstmt) : wact :=
  match s with
  | SDecl name init =>
      if str_eqb name "nextBuckets" then (if str_eqb init "buckets.GetNextBuckets()" then WBindNext else WUnknown)
      else if has "nextBuckets" init || has "Extract" init || has "Destroy" init || has "pvRelocateItems" init then WUnknown
      else WSkip
  | SIfThen c body =>
      if str_eqb c "nextBuckets != nullptr" &&
         list_eqb body ["pvRelocateItems(nextBuckets)"; "buckets.ExtractNextBuckets()"] then WRecurse else WUnknown
  | SFor t => if is_item_loop t then WLoop else WUnknown
  | SExpr e => if str_eqb e "buckets.Destroy(memManager, false)" then WDestroy else WUnknown
  | _ => WUnknown
  end.

(* statements of the wrapper pvRelocateItems() *)
Inductive tact : Type := TCall | TUnlink | TUnknown.
Definition tact_of (s : string) : tact :=
  if str_eqb s "pvRelocateItems(nextBuckets)" then TCall
  else if str_eqb s "mBuckets.ExtractNextBuckets()" then TUnlink else TUnknown.

Section Interp.
  Variable B : Type.
  Variable b0 : B.
  Variable ub : B -> Z -> B.
  Variable h : Z -> Z.
  Variable cap : Z.
  Variable wf0 : bool.
  Variable wfu : Z -> bool.
  Variable start : Z -> Z -> Z.
  Variable next : Z -> Z -> Z -> Z.
  Variable nothrow : bool.
  Let rbuckets := reloc_buckets B b0 ub h cap wf0 wfu start next nothrow.
  Let rgens := reloc_gens B b0 ub h cap wf0 wfu start next nothrow.

  Definition is_ok (st : mstat) : bool := match st with MOk => true | _ => false end.

  (* the state of one activation of the worker: its own table (None once destroyed), the older chain still linked to it,
     whether nextBuckets is bound, the newest table, the failure schedule, the status (<> MOk: an exception is in flight) *)
  Definition wstate : Type := (option (table B) * list (table B) * bool * table B * list bool * mstat)%type.

  Definition wstep (rec : table B -> list bool -> option (list (table B) * table B * list bool * mstat))
      (a : wact) (s : wstate) : option wstate :=
    let '(own, older, bound, nw, sch, st) := s in
    if negb (is_ok st) then Some s                      (* exception in flight and no handler in the worker: skip *)
    else match a with
    | WSkip => Some s
    | WBindNext => Some (own, older, true, nw, sch, st)
    | WRecurse =>
        if negb bound then None
        else match older with
        | [] => Some s                                   (* nextBuckets == nullptr *)
        | _ :: _ =>
            match rec nw sch with
            | None => None
            | Some (older', nw1, sch1, st1) =>
                if is_ok st1 then Some (own, [], bound, nw1, sch1, MOk)          (* ExtractNextBuckets after the normal return *)
                else Some (own, older', bound, nw1, sch1, st1)                   (* thrown out of the call: still linked *)
            end
        end
    | WLoop =>
        match own with
        | None => None                                   (* loop over a destroyed table *)
        | Some g => match rbuckets (tbs B g) nw sch with
                    | (bs', nw2, sch2, st2) => Some (Some (mkT B (tlog B g) bs'), older, bound, nw2, sch2, st2)
                    end
        end
    | WDestroy => match own with None => None | Some _ => Some (None, older, bound, nw, sch, st) end
    | WUnknown => None
    end.

  Fixpoint wexec rec (acts : list wact) (s : wstate) : option wstate :=
    match acts with
    | [] => Some s
    | a :: r => match wstep rec a s with None => None | Some s' => wexec rec r s' end
    end.

  (* pvRelocateItems(buckets) on the chain `olds` = buckets :: older generations *)
  Fixpoint interp_worker (acts : list wact) (olds : list (table B)) (nw : table B) (sch : list bool)
      : option (list (table B) * table B * list bool * mstat) :=
    match olds with
    | [] => Some ([], nw, sch, MOk)
    | g :: older =>
        match wexec (fun nw' sch' => interp_worker acts older nw' sch') acts (Some g, older, false, nw, sch, MOk) with
        | None => None
        | Some (own, older', _, nw', sch', st) =>
            Some (List.app (match own with Some t => [t] | None => [] end) older', nw', sch', st)
        end
    end.

  (* the wrapper: Some (Some chain) = returned, Some None = std::terminate (exception out of a noexcept function),
     None = not interpretable *)
  Definition xstate : Type := (list (table B) * table B * list bool * mstat * bool)%type.   (* olds, newest, schedule, status, bound *)

  Fixpoint texec (wacts : list wact) (body : list string) (s : xstate) : option xstate :=
    match body with
    | [] => Some s
    | t :: r =>
        let '(olds, nw, sch, st, bound) := s in
        if negb (is_ok st) then Some s
        else match tact_of t with
        | TCall => if negb bound then None
                   else match interp_worker wacts olds nw sch with
                        | None => None
                        | Some (olds', nw', sch', st') => texec wacts r (olds', nw', sch', st', bound)
                        end
        | TUnlink => texec wacts r ([], nw, sch, st, bound)
        | TUnknown => None
        end
    end.

  Fixpoint xexec (wacts : list wact) (stmts : list cstmt) (s : xstate) : option xstate :=
    match stmts with
    | [] => Some s
    | c :: r =>
        let '(olds, nw, sch, st, bound) := s in
        if negb (is_ok st) then Some s
        else match c with
        | SDecl name init =>
            if str_eqb name "nextBuckets" && str_eqb init "mBuckets.GetNextBuckets()" then xexec wacts r (olds, nw, sch, st, true)
            else None
        | STry body handler catch_all =>
            match texec wacts body s with
            | None => None
            | Some (olds', nw', sch', st', bound') =>
                match st' with
                | MOk => xexec wacts r (olds', nw', sch', MOk, bound')
                | MTerm => Some (olds', nw', sch', MTerm, bound')           (* the noexcept worker terminated the process *)
                | MStop => if catch_all && list_eqb handler [] then xexec wacts r (olds', nw', sch', MOk, bound')   (* swallowed *)
                           else None
                end
            end
        | SExpr e => match tact_of e with
                     | TUnlink => xexec wacts r ([], nw, sch, st, bound)
                     | _ => None
                     end
        | _ => None
        end
    end.

  Definition interp_wrapper (wacts : list wact) (stmts : list cstmt) (gs : list (table B)) (sch : list bool)
      : option (option (list (table B))) :=
    match gs with
    | nw :: olds =>
        match xexec wacts stmts (olds, nw, sch, MOk, false) with
        | None => None
        | Some (olds', nw', _, st, _) => Some (match st with MTerm => None | _ => Some (nw' :: olds') end)
        end
    | [] => None
    end.

  (* ---------------- the generated statements, interpreted, ARE the hand model ---------------- *)
  Definition src_wacts : list wact := map wact_of Gen_RelocFacts.worker_stmts.

  Lemma src_wacts_eq : src_wacts = [WBindNext; WRecurse; WSkip; WSkip; WSkip; WSkip; WLoop; WDestroy].
  Proof. vm_compute. reflexivity. Qed.

  Theorem reloc_gens_is_interpreted_source : forall olds nw sch,
    interp_worker src_wacts olds nw sch = Some (rgens olds nw sch).
  Proof.
    rewrite src_wacts_eq. induction olds as [|g older IH]; intros nw sch; [reflexivity|].
    cbn [interp_worker]. unfold rgens in *. cbn [reloc_gens].
    cbn [wexec wstep is_ok negb]. destruct older as [|g2 older2].
    - cbn [reloc_gens is_ok negb wexec wstep]. unfold rbuckets.
      destruct (reloc_buckets B b0 ub h cap wf0 wfu start next nothrow (tbs B g) nw sch) as [[[bs' nw2] sch2] st2].
      destruct st2; reflexivity.
    - rewrite IH.
      destruct (reloc_gens B b0 ub h cap wf0 wfu start next nothrow (g2 :: older2) nw sch) as [[[older' nw1] sch1] st1].
      destruct st1; cbn [is_ok negb wexec wstep]; try reflexivity.
      unfold rbuckets.
      destruct (reloc_buckets B b0 ub h cap wf0 wfu start next nothrow (tbs B g) nw1 sch1) as [[[bs' nw2] sch2] st2].
      destruct st2; reflexivity.
  Qed.

  Lemma rgens_ok_empty : forall olds nw sch olds' nw' sch',
    rgens olds nw sch = (olds', nw', sch', MOk) -> olds' = [].
  Proof.
    intros olds nw sch olds' nw' sch' E. unfold rgens in E. destruct olds as [|g older]; cbn [reloc_gens] in E.
    - congruence.
    - destruct (reloc_gens B b0 ub h cap wf0 wfu start next nothrow older nw sch) as [[[o1 n1] s1] st1].
      destruct st1; try congruence.
      destruct (reloc_buckets B b0 ub h cap wf0 wfu start next nothrow (tbs B g) n1 s1) as [[[bs' n2] s2] st2].
      destruct st2; congruence.
  Qed.

  Theorem relocate_is_interpreted_source : forall nw g older sch,
    interp_wrapper src_wacts Gen_RelocFacts.wrapper_stmts (nw :: g :: older) sch
      = Some (relocate B b0 ub h cap wf0 wfu start next nothrow (nw :: g :: older) sch).
  Proof.
    intros nw g older sch. unfold interp_wrapper, Gen_RelocFacts.wrapper_stmts.
    cbn [xexec is_ok negb]. change (str_eqb "nextBuckets" "nextBuckets" && str_eqb "mBuckets.GetNextBuckets()" "mBuckets.GetNextBuckets()") with true.
    cbv iota. cbn [xexec is_ok negb texec].
    change (tact_of "pvRelocateItems(nextBuckets)") with TCall. cbv iota. cbn [negb].
    rewrite reloc_gens_is_interpreted_source. cbn [relocate]. fold rgens.
    destruct (rgens (g :: older) nw sch) as [[[olds' nw'] sch'] st'] eqn:E.
    destruct st'.
    - apply rgens_ok_empty in E. subst olds'. cbn [texec is_ok negb]. change (tact_of "mBuckets.ExtractNextBuckets()") with TUnlink.
      cbv iota. cbn [texec xexec]. reflexivity.
    - cbn [texec is_ok negb andb list_eqb xexec]. reflexivity.
    - cbn [texec is_ok negb]. reflexivity.
  Qed.

  (* side facts kept from round 5: exception specifications *)
  Definition noexcept_facts : bool :=
    match Gen_RelocFacts.worker_noexcept with [t] => has "noexcept(areItemsNothrowRelocatable)" t | _ => false end &&
    list_eqb Gen_RelocFacts.wrapper_noexcept ["void () noexcept"].
  Lemma noexcept_facts_hold : noexcept_facts = true.
  Proof. vm_compute. reflexivity. Qed.
End Interp.
