(* C15 model driver: same case format as harness.cpp.
   <kind> op op ...   kind: hs hm (hash) | ts tm (tree);  op = name,arg,...
   prints one token per op (A | A=<v> | R | U) then " | v0 v1 | keys0 | keys1" *)
open Zutil
open Version
let z s = z_of_string s
let n s = let i = int_of_string s in nat_of_int (if i < 0 then 100000 else i)   (* -1 = SIZE_MAX on the C++ side: any huge index *)
let b s = s <> "0"
let parse_op tok =
  match String.split_on_char ',' tok with
  | ["find"; c; k; s] -> OFind (b c, z k, n s)
  | ["begin"; c; s] -> OBegin (b c, n s)
  | ["end"; c; s] -> OEnd (b c, n s)
  | ["lower"; c; k; s] -> OLower (b c, z k, n s)
  | ["upper"; c; k; s] -> OUpper (b c, z k, n s)
  | ["deref"; s] -> ODeref (n s)
  | ["inc"; s] -> OInc (n s)
  | ["dec"; s] -> ODec (n s)
  | ["addat"; c; s; k] -> OAddAt (b c, n s, z k)
  | ["rmat"; c; s] -> ORemoveAt (b c, n s)
  | ["extract"; c; s] -> OExtract (b c, n s)
  | ["rmrange"; c; s1; s2] -> ORemoveRange (b c, n s1, n s2)
  | ["reset"; c; s; k] -> OResetKey (b c, n s, z k)
  | ["chk"; c; s; a] -> OChk (b c, n s, b a)
  | ["ins"; c; k; s] | ["insext"; c; k; s] -> OInsert (b c, z k, n s)        (* Insert(ExtractedItem&&) = Insert of that key *)
  | ["addatext"; c; s; k] -> OAddAt (b c, n s, z k)
  | ["insmany"; c; a; cnt] -> OInsMany (b c, z a, n cnt)
  | ["rmkey"; c; k] -> ORemoveKey (b c, z k)
  | ["rmif"; c; m] -> ORemoveIf (b c, z m)
  | ["clear"; c; s] -> OClear (b c, b s)
  | ["reserve"; c; cap] -> OReserve (b c, z cap)
  | ["merge"; s] -> OMergeTo (b s)
  | ["mergeself"; c] -> OMergeSelf (b c)
  | ["swap"] -> OSwap
  | ["moveto"; s] -> OMoveAssign (b s)
  | ["copyto"; s] -> OCopyAssign (b s)
  | ["count"; c] -> OCount (b c)
  | ["has"; c; k] -> OHas (b c, z k)
  | _ -> failwith ("bad op " ^ tok)
let show_out o op =
  match o, op with
  | Acc _, (ORemoveAt _ | OBegin _ | OEnd _) -> "A"
  | Acc (Some v), _ -> "A=" ^ string_of_z v
  | Acc None, _ -> "A"
  | Rej, _ -> "R"
  | Undef, _ -> "U"
let show_keys l = if l = [] then "-" else String.concat "," (Stdlib.List.map string_of_z l)
(* ---- Arr.v ---- *)
let parse_aop tok = let open Arr in
  match String.split_on_char ',' tok with
  | ["begin"; s] -> ABegin (n s) | ["end"; s] -> AEnd (n s) | ["def"; s] -> ADefault (n s) | ["foreign"; s] -> AForeign (n s)
  | ["adv"; s; d] -> AAdvance (n s, z d) | ["deref"; s] -> ADeref (n s)
  | ["diff"; a; b] -> ADiff (n a, n b) | ["less"; a; b] -> ALess (n a, n b)
  | ["idx"; i] -> AIndex (z i) | ["back"] -> ABack | ["addback"; v] -> AAddBack (z v) | ["rmback"; c] -> ARemoveBack (z c)
  | ["ins"; i; v] -> AInsert (z i, z v) | ["insn"; i; c; v] -> AInsertN (z i, z c, z v) | ["rm"; i; c] -> ARemove (z i, z c) | ["clear"] -> AClear | ["setcount"; c] -> ASetCount (z c)
  | _ -> failwith ("bad op " ^ tok)
let run_arr toks = let open Arr in
  let ops = Stdlib.List.map parse_aop toks in
  let (s, outs) = arun_out ainit ops in
  Printf.printf "%s| %s\n"
    (String.concat "" (Stdlib.List.map (fun o -> (match o with AAcc (Some v) -> "A=" ^ string_of_z v | AAcc None -> "A" | ARej -> "R" | AExn -> "X") ^ " ") outs))
    (show_keys s.items)
(* ---- MultiMap.v ---- *)
let parse_mop tok = let open MultiMap in
  match String.split_on_char ',' tok with
  | ["find"; k; s] -> MFind (z k, n s) | ["end"; s] -> MEnd (n s) | ["fk"; s] -> MForeignK (n s) | ["fv"; s] -> MForeignV (n s)
  | ["makeit"; sk; i; s] -> MMakeIt (n sk, n i, n s)
  | ["kderef"; s] -> MKDeref (n s) | ["kinc"; s] -> MKInc (n s) | ["vderef"; s] -> MVDeref (n s) | ["vinc"; s] -> MVInc (n s)
  | ["add"; k; v; s] -> MAdd (z k, z v, n s) | ["addat"; sk; v; s] -> MAddAt (n sk, z v, n s) | ["inskey"; k; s] -> MInsertKey (z k, n s)
  | ["rmit"; s] -> MRemoveIt (n s) | ["rmki"; sk; i] -> MRemoveKI (n sk, n i) | ["rmvals"; sk] -> MRemoveValues (n sk)
  | ["rmkeyit"; sk] -> MRemoveKeyIt (n sk) | ["rmkey"; k] -> MRemoveKey (z k) | ["rmif"; m] -> MRemoveIf (z m) | ["clear"] -> MClear
  | ["reset"; sk; k] -> MResetKey (n sk, z k) | ["chk"; s; a] -> MChkIt (n s, b a) | ["count"] -> MCount
  | _ -> failwith ("bad op " ^ tok)
let run_mm toks = let open MultiMap in
  let ops = Stdlib.List.map parse_mop toks in
  let (s, outs) = mrun_out minit ops in
  let show o op = match o, op with
    | MAcc _, (MMakeIt _ | MAdd _ | MAddAt _ | MEnd _ | MForeignK _ | MForeignV _) -> "A"
    | MAcc (Some v), _ -> "A=" ^ string_of_z v | MAcc None, _ -> "A" | MRej, _ -> "R" | MUndef, _ -> "U" in
  let ent (k, vs) = string_of_z k ^ ":" ^ String.concat "," (Stdlib.List.map string_of_int (Stdlib.List.sort compare (Stdlib.List.map int_of_z vs))) in
  Printf.printf "%s| %d %d | %s\n"
    (String.concat "" (Stdlib.List.map2 (fun o op -> show o op ^ " ") outs ops))
    (int_of_nat s.kver) (int_of_nat s.vver)
    (if s.ents = [] then "-" else String.concat ";" (Stdlib.List.map ent s.ents))
(* ---- Table.v ---- *)
let parse_top tok = let open Table in
  match String.split_on_char ',' tok with
  | ["ref"; i; s] -> TRef (n i, n s) | ["select"; s] -> TSelect (n s) | ["foreign"; s] -> TForeign (n s)
  | ["selref"; ss; j; s] -> TSelRef (n ss, n j, n s) | ["read"; s] -> TRead (n s) | ["number"; s] -> TGetNumber (n s)
  | ["addrow"; v] -> TAddRow (z v) | ["insert"; i; v] -> TInsert (n i, z v)
  | ["rmref"; s] | ["rmref"; s; _] -> TRemoveRef (n s) | ["rmnum"; i] -> TRemoveNum (n i)
  | ["updref"; s; v] -> TUpdateRef (n s, z v) | ["updnum"; i; v] -> TUpdateNum (n i, z v)
  | ["rmif"; m] -> TRemoveIf (z m) | ["clear"] -> TClear | ["count"] -> TCount
  | ["selectif"; m; s] -> TSelectIf (z m, n s) | ["selofsel"; ss; m; s] -> TSelOfSel (n ss, z m, n s)
  | ["selsort"; ss] -> TSelSort (n ss) | ["selsum"; ss] -> TSelSum (n ss) | ["selrev"; ss] -> TSelReverse (n ss)
  | ["selrm"; ss; j; c] -> TSelRemove (n ss, n j, n c) | ["selcount"; ss] -> TSelCount (n ss) | ["rmsel"; ss] -> TRemoveSel (n ss)
  | ["findm"; v; s] -> TFindMulti (z v, n s) | ["bcount"; s] -> TBoundsCount (n s) | ["bat"; s; j] -> TBoundsAt (n s, n j) | ["bsum"; s] -> TBoundsSum (n s)
  | _ -> failwith ("bad op " ^ tok)
let run_dt toks = let open Table in
  let ops = Stdlib.List.map parse_top toks in
  let (s, outs) = trun_out tinit ops in
  let show o op = match o, op with
    | TAcc _, (TRef _ | TForeign _ | TSelRef _) -> "A"
    | TAcc (Some v), _ -> "A=" ^ string_of_z v | TAcc None, _ -> "A" | TRej, _ -> "R" | TUndef, _ -> "U" in
  Printf.printf "%s| %d %d | %s\n"
    (String.concat "" (Stdlib.List.map2 (fun o op -> show o op ^ " ") outs ops))
    (int_of_nat s.cver) (int_of_nat s.rver) (show_keys (Stdlib.List.map snd s.rows))

(* ---- generated guards (cxx2coq): same `g <what> ...` lines as harness3.cpp ---- *)
let u64 s = z_of_zarith (Z.erem (Z.of_string s) (Z.shift_left Z.one 64))     (* an unsigned 64-bit argument ("-1" = SIZE_MAX) *)
let oc o = (match o with GenPrelude.Ok _ -> "A" | GenPrelude.Exn -> "R" | GenPrelude.Stuck -> "STUCK" | GenPrelude.Fuel -> "FUEL")
let run_g toks =
  let zi i = z_of_int i in
  match toks with
  | ["rm"; _; c; i; n] -> print_endline (oc (Gen_ArrayShifter.coq_Remove_guard (u64 c) (u64 i) (u64 n)))
  | ["selrm"; c; i; n] -> print_endline (oc (Gen_SelectionGuards.coq_SelRemove_guard (u64 c) (u64 i) (u64 n)))
  | ["insn"; "sa"; c; i; n] ->
    (match Gen_SegmentedArrayGuards.coq_SegInsertN_guard (u64 c) (u64 i) (u64 n) with
     | GenPrelude.Exn -> print_endline "X"
     | GenPrelude.Ok _ -> print_endline (oc (Gen_ArrayShifter.coq_InsertNogrow_guard (u64 c) (u64 i) (u64 n)))
     | o -> print_endline (oc o))
  | ["idx"; "sa"; c; i] -> print_endline (oc (Gen_SegmentedArrayGuards.coq_SegIndex_guard (u64 c) (u64 i)))
  | ["rmback"; "sa"; c; n] -> print_endline (oc (Gen_SegmentedArrayGuards.coq_SegRemoveBack_guard (u64 c) (u64 n)))
  | ["insn"; _; c; i; n] ->
    (match Gen_ArrayGuards.coq_InsertN_guard (u64 c) (u64 i) (u64 n) with
     | GenPrelude.Exn -> print_endline "X"
     | GenPrelude.Ok _ -> print_endline (oc (Gen_ArrayShifter.coq_InsertNogrow_guard (u64 c) (u64 i) (u64 n)))
     | o -> print_endline (oc o))
  | ["idx"; _; c; i] -> print_endline (oc (Gen_ArrayGuards.coq_Index_guard (u64 c) (u64 i)))
  | ["rmback"; _; c; n] -> print_endline (oc (Gen_ArrayGuards.coq_RemoveBack_guard (u64 c) (u64 n)))
  | ["adv"; _; c; i; d] ->
    (match Gen_ArrayIndexIterator.op_add_assign (fun _ -> u64 c) (zi 1) (u64 i) (z d) with
     | GenPrelude.Ok (_, i') -> print_endline ("A=" ^ string_of_z i') | o -> print_endline (oc o))
  | ["rawadv"; c; i; d] ->
    (match Gen_DataRawIterator.raw_add_assign (u64 i) (fun _ -> u64 c) (z d) (zi 1) with
     | GenPrelude.Ok i' -> print_endline ("A=" ^ string_of_z i') | o -> print_endline (oc o))
  | ["mhadv"; c; i; d] ->      (* bounds of c rows: mRaw0 = first raw (null iff c = 0), mRawBegin = value array of the others (null iff c <= 1), mRawCount = c *)
    let c' = int_of_string c in
    (match Gen_MultiHashIterator.mh_add_assign (zi (if c' > 0 then 1 else 0)) (zi (if c' > 1 then 1 else 0)) (z i) (z c) (z d) with
     | GenPrelude.Ok (_, i') -> print_endline ("A=" ^ string_of_z i') | o -> print_endline (oc o))
  | ["mharrow"; c; i] ->
    let c' = int_of_string c in
    print_endline (oc (Gen_MultiHashIterator.mh_arrow (zi (if c' > 0 then 1 else 0)) (zi (if c' > 1 then 1 else 0)) (z i) (z c)))
  | ["rawarrow"; c; i] -> print_endline (oc (Gen_DataRawIterator.raw_arrow (u64 i) (fun _ -> u64 c) (zi 1)))
  | ["defadv"; _; _; d] -> print_endline (oc (Gen_ArrayIndexIterator.op_add_assign (fun _ -> zi 0) (zi 0) (zi 0) (z d)))
  | ["arrow"; _; c; i] -> print_endline (oc (Gen_ArrayIndexIterator.op_arrow (fun _ -> u64 c) (zi 1) (u64 i)))
  | ["defarrow"; _; _] -> print_endline (oc (Gen_ArrayIndexIterator.op_arrow (fun _ -> zi 0) (zi 0) (zi 0)))
  | ["kself"; p; snap; cur] ->
    let mem a = if int_of_z a = 0 then zi 0 else u64 cur in
    print_endline (oc (Gen_VersionKeeper.coq_Check_self mem (z p) (u64 snap)))
  | ["kcont"; p; snap; c1; c2; q; al] ->
    let mem a = if int_of_z a = 1 then u64 c1 else if int_of_z a = 2 then u64 c2 else zi 0 in
    print_endline (oc (Gen_VersionKeeper.coq_Check_cont mem (z p) (u64 snap) (z q) (al <> "0")))
  | ["mmmk"; c; i] -> print_endline (oc (Gen_MultiMapGuards.coq_MakeIt_guard (u64 c) (u64 i)))
  | ["mmrm"; c; i] -> print_endline (oc (Gen_MultiMapGuards.coq_RemoveKI_guard (u64 c) (u64 i)))
  | ["selidx"; c; i] -> print_endline (oc (Gen_SelectionGuards.coq_SelIndex_guard (u64 c) (u64 i)))
  | ["row"; c; i] -> print_endline (oc (Gen_TableGuards.coq_Row_guard (u64 c) (u64 i)))
  | ["tins"; c; i] -> print_endline (oc (Gen_TableGuards.coq_TryInsert_guard (u64 c) (u64 i)))
  | ["tupd"; c; i] -> print_endline (oc (Gen_TableGuards.coq_TryUpdateNum_guard (u64 c) (u64 i)))
  | ["tinc"; c; p] -> print_endline (oc (Gen_TreeIterator.coq_Inc_guard (fun _ -> u64 c) (zi (if int_of_string c = 0 then 0 else 1)) (u64 p)))
  | ["tarrow"; c; p] -> print_endline (oc (Gen_TreeIterator.coq_Arrow_guard (fun _ -> u64 c) (zi (if int_of_string c = 0 then 0 else 1)) (u64 p)))
  | ["tdefinc"] -> print_endline (oc (Gen_TreeIterator.coq_Inc_guard (fun _ -> zi 0) (zi 0) (zi 0)))
  | _ -> print_endline "?g"

let () = iter_lines (fun line ->
  match words line with
  | "g" :: toks -> (try run_g toks with Failure m -> print_endline ("?" ^ m))
  | ("arh" | "aih" | "sah") :: toks -> (try run_arr toks with Failure m -> print_endline ("?" ^ m))
  | "mmh" :: toks -> (try run_mm toks with Failure m -> print_endline ("?" ^ m))
  | "dth" :: toks -> (try run_dt toks with Failure m -> print_endline ("?" ^ m))
  | kind :: toks ->
    (try
      let k = (match kind with "hs" | "hm" | "ho" -> KHash | "ts" | "tm" | "tn" | "tnm" -> KTree | _ -> failwith "kind") in
      let ops = Stdlib.List.map parse_op toks in
      let (s, outs) = run_out k init ops in
      let c0 = getc s false and c1 = getc s true in
      Printf.printf "%s| %d %d | %s | %s\n"
        (String.concat "" (Stdlib.List.map2 (fun o op -> show_out o op ^ " ") outs ops))
        (int_of_nat c0.ver) (int_of_nat c1.ver) (show_keys c0.keys) (show_keys c1.keys)
    with Failure m -> print_endline ("?" ^ m))
  | [] -> print_endline "?empty")
