(* C02 (growth round) -- the node operations of details/TreeNode.h that WRITE the bytes the B-tree invariant depends on
   (mCounter.count, mCounter.indexes[], mMemPoolIndex), translated by cxx2coq from both layouts (Gen_NodeOpsI: indexed,
   Gen_NodeOpsC: continuous).  The item / child-pointer moves inside them (std::copy, std::copy_backward, ShiftNothrow,
   the item remover) are calls the translator skips ("skip_calls"); they are covered by the hand model (IndexTable.v,
   BTreeModel.v) and by the node-level byte correspondence.  What is proved here about the REAL code:
   - count + 1 / count - 1 exactly (no uint8 wrap), the asserts are exactly `count < capacity /\ index <= count` / `index < count`;
   - FRAME: mMemPoolIndex is not written (it is not among the outputs), hence IsLeaf and GetCapacity are unchanged;
   - pvInitIndexes writes the identity table on [0, maxCapacity) and nothing else;
   - the scalar table steps around the skipped shift (`realIndex = indexes[count]; indexes[index] = realIndex` and
     `realIndex = indexes[index]; indexes[count-1] = realIndex`) agree with the hand model of the table;
   - same code: the continuous and the indexed instantiation compute the same count / the same Stuck condition. *)
From Coq Require Import ZArith Bool List Lia.
From MomoCommon Require Import GenPrelude.
From C02 Require Import Gen_NodeOpsI Gen_NodeOpsC BTreeModel IndexTable.
Local Open Scope Z_scope.

Section NodeOps.
Variables (leafPools maxCap step : Z).
Notation capI := (Gen_NodeOpsI.GetCapacity leafPools maxCap step).
Notation capC := (Gen_NodeOpsC.GetCapacity leafPools maxCap step).
Notation acceptI := (Gen_NodeOpsI.AcceptBackItem leafPools maxCap step).
Notation acceptC := (Gen_NodeOpsC.AcceptBackItem leafPools maxCap step).
Notation removeI := Gen_NodeOpsI.Remove.
Notation removeC := Gen_NodeOpsC.Remove.

Lemma w8 x : 0 <= x < 256 -> wrapU 8 x = x.
Proof. intros. apply wrapU_small. change (2 ^ 8) with 256. lia. Qed.

(* --- AcceptBackItem: count + 1, table written at `index` only (besides the skipped shift), memPoolIndex untouched --- *)
Theorem acceptI_spec mpi cnt t index ch :
  0 <= cnt -> capI mpi cnt t <= 255 ->
  acceptI mpi cnt t index ch =
    if andb (cnt <? capI mpi cnt t) (index <=? cnt) then Ok (tt, cnt + 1, upd t index (t cnt)) else Stuck.
Proof.
  intros H0 Hc. unfold Gen_NodeOpsI.AcceptBackItem, Gen_NodeOpsI.GetCount, Gen_NodeOpsI.pvAcceptBackItem.
  destruct (cnt <? _) eqn:E1; [|reflexivity]. destruct (index <=? cnt) eqn:E2; [|reflexivity]. cbn [andb].
  apply Z.ltb_lt in E1. rewrite w8 by lia. reflexivity.
Qed.

Theorem removeI_spec mpi cnt t index ch :
  0 <= index -> cnt <= 255 ->
  removeI mpi cnt t index ch =
    if index <? cnt then Ok (tt, cnt - 1, upd t (cnt - 1) (t index)) else Stuck.
Proof.
  intros H0 Hc. unfold Gen_NodeOpsI.Remove, Gen_NodeOpsI.GetCount, Gen_NodeOpsI.pvRemove.
  destruct (index <? cnt) eqn:E1; [|reflexivity]. apply Z.ltb_lt in E1.
  rewrite w8 by lia. rewrite (wrapU_small 64) by (split; [lia|]; change (2 ^ 64) with 18446744073709551616; lia). reflexivity.
Qed.

(* FRAME: the capacity / leaf flag of the node (functions of mMemPoolIndex only) cannot change: they do not depend on what the
   operations return *)
Theorem capacity_frame mpi cnt t cnt' t' : capI mpi cnt t = capI mpi cnt' t' /\
  Gen_NodeOpsI.IsLeaf leafPools mpi cnt t = Gen_NodeOpsI.IsLeaf leafPools mpi cnt' t'.
Proof. split; reflexivity. Qed.

(* --- same code: both layouts agree on the count byte and on the assert --- *)
Theorem same_code_capacity mpi cnt t : capC mpi cnt = capI mpi cnt t.
Proof. reflexivity. Qed.

Theorem same_code_accept mpi cnt t index ch :
  acceptC mpi cnt index ch = match acceptI mpi cnt t index ch with
                             | Ok (_, c, _) => Ok (tt, c) | Stuck => Stuck | Fuel => Fuel | Exn => Exn end.
Proof.
  unfold Gen_NodeOpsC.AcceptBackItem, Gen_NodeOpsI.AcceptBackItem, Gen_NodeOpsC.GetCount, Gen_NodeOpsI.GetCount.
  rewrite same_code_capacity with (t := t). destruct (cnt <? _); [|reflexivity]. destruct (index <=? cnt); reflexivity.
Qed.

Theorem same_code_remove mpi cnt t index ch :
  removeC mpi cnt index ch = match removeI mpi cnt t index ch with
                             | Ok (_, c, _) => Ok (tt, c) | Stuck => Stuck | Fuel => Fuel | Exn => Exn end.
Proof.
  unfold Gen_NodeOpsC.Remove, Gen_NodeOpsI.Remove, Gen_NodeOpsC.GetCount, Gen_NodeOpsI.GetCount.
  destruct (index <? cnt); reflexivity.
Qed.

(* --- pvInitIndexes: identity on [0, maxCapacity), nothing else --- *)
Lemma init_loop fuel i t :
  0 <= i <= maxCap -> maxCap <= 255 -> (Z.to_nat (maxCap - i) < fuel)%nat ->
  exists t', Gen_NodeOpsI.pvInitIndexes_loop0 maxCap fuel i t = Ok (maxCap, t') /\
    forall j, t' j = if andb (i <=? j) (j <? maxCap) then j else t j.
Proof.
  revert i t. induction fuel as [|fuel IH]; intros i t Hi Hm Hf; [lia|].
  rewrite Gen_NodeOpsI.pvInitIndexes_loop0_eq. destruct (i <? maxCap) eqn:E.
  - apply Z.ltb_lt in E. cbv zeta.
    rewrite (wrapU_small 64) by (split; [lia|]; change (2 ^ 64) with 18446744073709551616; lia).
    rewrite w8 by lia.
    destruct (IH (i + 1) (upd t i i)) as (t' & E1 & E2); [lia|lia|lia|].
    exists t'. split; [exact E1|]. intros j. rewrite E2.
    destruct (Z.eq_dec j i) as [->|N].
    + replace (i + 1 <=? i) with false by (symmetry; apply Z.leb_gt; lia). cbn [andb]. rewrite upd_same.
      replace (i <=? i) with true by (symmetry; apply Z.leb_le; lia). replace (i <? maxCap) with true by (symmetry; apply Z.ltb_lt; lia). reflexivity.
    + rewrite upd_other by exact N.
      destruct (i + 1 <=? j) eqn:A; destruct (i <=? j) eqn:B; try reflexivity.
      * apply Z.leb_le in A. apply Z.leb_gt in B. lia.
      * apply Z.leb_gt in A. apply Z.leb_le in B. lia.
  - apply Z.ltb_ge in E. assert (i = maxCap) by lia. subst i. exists t. split; [reflexivity|].
    intros j. destruct (maxCap <=? j) eqn:A; destruct (j <? maxCap) eqn:B; try reflexivity.
    apply Z.leb_le in A. apply Z.ltb_lt in B. lia.
Qed.

Theorem init_indexes_identity mpi cnt t :
  0 <= maxCap <= 255 ->
  exists t', Gen_NodeOpsI.pvInitIndexes maxCap mpi cnt t = Ok (tt, t') /\
    (forall j, 0 <= j < maxCap -> t' j = j) /\ (forall j, ~ (0 <= j < maxCap) -> t' j = t j).
Proof.
  intros H. unfold Gen_NodeOpsI.pvInitIndexes.
  destruct (init_loop Gen_NodeOpsI.fuel_of_pvInitIndexes 0 t) as (t' & E1 & E2); [lia|lia| |].
  { unfold Gen_NodeOpsI.fuel_of_pvInitIndexes. rewrite Z.sub_0_r. apply Z2Nat.inj_lt; lia. }
  rewrite E1. exists t'. split; [reflexivity|]. split; intros j Hj; rewrite E2.
  - replace (0 <=? j) with true by (symmetry; apply Z.leb_le; lia). replace (j <? maxCap) with true by (symmetry; apply Z.ltb_lt; lia). reflexivity.
  - destruct (0 <=? j) eqn:A; destruct (j <? maxCap) eqn:B; try reflexivity. apply Z.leb_le in A. apply Z.ltb_lt in B. lia.
Qed.

End NodeOps.

(* --- the generated scalar table steps agree with the hand model of the table (IndexTable.v) --- *)
Definition tbl (l : list nat) : Z -> Z := fun j => Z.of_nat (nth (Z.to_nat j) l 0%nat).

Theorem accept_written_slot_agrees (n : inode) index :
  (index <= icount n)%nat -> (icount n < length (idx n))%nat ->
  tbl (idx (accept_back n index)) (Z.of_nat index) =
  Gen_NodeOpsI.pvAcceptBackItem 0 0 (tbl (idx n)) (Z.of_nat index) (Z.of_nat (icount n)) (Z.of_nat index).
Proof.
  intros Hi Hc. unfold Gen_NodeOpsI.pvAcceptBackItem, tbl, accept_back. cbn [idx]. rewrite upd_same, !Nat2Z.id.
  assert (L : length (firstn index (idx n)) = index) by (apply firstn_length_le; lia).
  rewrite app_nth2 by lia. rewrite L, Nat.sub_diag. reflexivity.
Qed.

Theorem remove_written_slot_agrees (n : inode) index :
  (index < icount n)%nat -> (icount n <= length (idx n))%nat -> (icount n <= 255)%nat ->
  tbl (idx (remove_idx n index)) (Z.of_nat (icount n) - 1) =
  Gen_NodeOpsI.pvRemove 0 0 (tbl (idx n)) (Z.of_nat index) (Z.of_nat (icount n)) (Z.of_nat (icount n) - 1).
Proof.
  intros Hi Hc H255. unfold Gen_NodeOpsI.pvRemove, tbl, remove_idx. cbn [idx].
  rewrite (wrapU_small 64) by (split; [lia|]; change (2 ^ 64) with 18446744073709551616; lia).
  rewrite upd_same, Nat2Z.id. replace (Z.to_nat (Z.of_nat (icount n) - 1)) with (icount n - 1)%nat by lia.
  assert (L : length (firstn index (idx n)) = index) by (apply firstn_length_le; lia).
  assert (L2 : length (firstn (icount n - index - 1) (skipn (S index) (idx n))) = (icount n - index - 1)%nat)
    by (apply firstn_length_le; rewrite skipn_length; lia).
  rewrite app_nth2 by lia. rewrite L. rewrite app_nth2 by lia. rewrite L2.
  replace (icount n - 1 - index - (icount n - index - 1))%nat with 0%nat by lia. reflexivity.
Qed.
