(* C01 -- the size loops of HashSet::Reserve and HashSet::pvAddGrow, REGENERATED from HashSet.h (config copied from props/C11):
     while (true) { newCapacity = CalcCapacity(1 << newLog, maxCount); if (newCapacity >= capacity) break;
                    if (newLog >= 63) throw length_error;  ++newLog; }
   (1) they always terminate with a table size or with the length_error, never by running on (outcome Fuel is impossible for any
       requested capacity) -- this is /repo f76c2d4: without the bound the loop never ends for an unreachable capacity, so the revert
       breaks these theorems;  (2) when they deliver a size it is the one the hand model's `reserve_log` computes. *)
From Coq Require Import ZArith List Lia Bool.
From MomoCommon Require Import GenPrelude.
From C01 Require Import HashModel.
From C01 Require Gen_HashSetGrow.
Local Open Scope Z_scope.

Section Loops.
  Variable mc : Z.                         (* bucketMaxItemCount *)
  Variable calcCapacity : Z -> Z.          (* HashTraits::CalcCapacity(bucketCount, maxCount) *)
  Notation tcap := (fun bc (_ : Z) => calcCapacity bc).
  Notation RL := (Gen_HashSetGrow.Reserve_loop0 mc tcap).
  Notation AL := (Gen_HashSetGrow.pvAddGrow_loop0 mc tcap).

  Lemma pow_shift nl : 0 <= nl <= 63 -> wrapU 64 (Z.shiftl 1 nl) = 2 ^ nl.
  Proof.
    intros H. rewrite Z.shiftl_1_l. apply wrapU_small. split; [apply Z.pow_nonneg; lia|]. apply Z.pow_lt_mono_r; lia.
  Qed.

  Lemma bound63 : wrapU 64 (wrapU 64 (8 * 8) - 1) = 63. Proof. reflexivity. Qed.

  Lemma reserve_loop_spec : forall fuel cap ht nc nl, 0 <= nl <= 63 -> (64 - Z.to_nat nl <= fuel)%nat ->
    match RL fuel cap ht nc nl with
    | Ok (None, (c', nl')) => nl <= nl' <= 63 /\ c' = calcCapacity (2 ^ nl') /\ cap <= c' /\
                              (forall j, nl <= j < nl' -> calcCapacity (2 ^ j) < cap)
    | Exn => forall j, nl <= j <= 63 -> calcCapacity (2 ^ j) < cap
    | _ => False
    end.
  Proof.
    induction fuel; intros cap ht nc nl Hnl Hf; [lia|].
    rewrite Gen_HashSetGrow.Reserve_loop0_eq. cbv zeta. rewrite pow_shift by lia. rewrite bound63.
    destruct (Z.geb_spec (calcCapacity (2 ^ nl)) cap) as [Hc|Hc].
    - split; [lia|]. split; auto. split; [lia|]. intros; lia.
    - destruct (Z.geb_spec nl 63) as [H63|H63].
      + intros j Hj. replace j with nl by lia. exact Hc.
      + assert (2 ^ 64 = 18446744073709551616) by reflexivity. rewrite (wrapU_small 64 (nl + 1)) by lia.
        specialize (IHfuel cap ht (calcCapacity (2 ^ nl)) (nl + 1) ltac:(lia) ltac:(lia)).
        destruct (RL fuel cap ht (calcCapacity (2 ^ nl)) (nl + 1)) as [[[u|] [c' nl']]| | |]; try contradiction.
        * destruct IHfuel as [A [C [D E]]]. split; [lia|]. split; auto. split; auto.
          intros j Hj. destruct (Z.eq_dec j nl); [subst; exact Hc|apply E; lia].
        * intros j Hj. destruct (Z.eq_dec j nl); [subst; exact Hc|apply IHfuel; lia].
  Qed.

  (* Reserve's loop with the fuel the translator gives it (70) never runs out: it ends with a size or with length_error *)
  Theorem reserve_loop_terminates cap ht nc nl : 0 <= nl <= 63 ->
    RL Gen_HashSetGrow.fuel_of_Reserve cap ht nc nl <> Fuel /\ RL Gen_HashSetGrow.fuel_of_Reserve cap ht nc nl <> Stuck.
  Proof.
    intros H. pose proof (reserve_loop_spec Gen_HashSetGrow.fuel_of_Reserve cap ht nc nl H) as S.
    assert (Hf : (64 - Z.to_nat nl <= Gen_HashSetGrow.fuel_of_Reserve)%nat) by (unfold Gen_HashSetGrow.fuel_of_Reserve; lia).
    specialize (S Hf). destruct (RL Gen_HashSetGrow.fuel_of_Reserve cap ht nc nl) as [[[u|] [c' nl']]| | |]; try contradiction; split; discriminate.
  Qed.

  Lemma reserve_log_first : forall fuel nl n nl', nl <= nl' -> (Z.to_nat (nl' - nl) <= fuel)%nat -> n <= calcCapacity (2 ^ nl') ->
    (forall j, nl <= j < nl' -> calcCapacity (2 ^ j) < n) -> reserve_log calcCapacity fuel nl n = Some nl'.
  Proof.
    induction fuel; intros nl n nl' Hle Hf Hc Hlt; simpl.
    - assert (nl' = nl) by lia. subst. destruct (Z.leb_spec n (calcCapacity (2 ^ nl))); [reflexivity|lia].
    - destruct (Z.leb_spec n (calcCapacity (2 ^ nl))) as [H|H].
      + destruct (Z.eq_dec nl nl'); [subst; reflexivity|]. specialize (Hlt nl ltac:(lia)). lia.
      + assert (nl <> nl') by (intro; subst; lia). apply IHfuel; try lia. intros j Hj. apply Hlt. lia.
  Qed.

  (* ... and when it delivers a table size, it is the size the hand model's reserve_log chooses (with the same capacity) *)
  Theorem reserve_loop_agrees cap ht nc nl c' nl' : 0 <= nl <= 63 ->
    RL Gen_HashSetGrow.fuel_of_Reserve cap ht nc nl = Ok (None, (c', nl')) ->
    reserve_log calcCapacity 64 nl cap = Some nl' /\ c' = calcCapacity (2 ^ nl').
  Proof.
    intros H E. pose proof (reserve_loop_spec Gen_HashSetGrow.fuel_of_Reserve cap ht nc nl H) as S.
    assert (Hf : (64 - Z.to_nat nl <= Gen_HashSetGrow.fuel_of_Reserve)%nat) by (unfold Gen_HashSetGrow.fuel_of_Reserve; lia).
    specialize (S Hf). rewrite E in S. destruct S as [A [C [D F]]]. split; auto.
    apply reserve_log_first; auto; lia.
  Qed.

  (* the same loop in pvAddGrow (condition newCapacity > mCount, i.e. requested capacity mCount + 1) *)
  Lemma addgrow_loop_spec : forall fuel ht cnt nc nl, 0 <= nl <= 63 -> (64 - Z.to_nat nl <= fuel)%nat ->
    match AL fuel ht cnt nc nl with
    | Ok (None, (c', nl')) => nl <= nl' <= 63 /\ c' = calcCapacity (2 ^ nl') /\ cnt + 1 <= c' /\
                              (forall j, nl <= j < nl' -> calcCapacity (2 ^ j) < cnt + 1)
    | Exn => forall j, nl <= j <= 63 -> calcCapacity (2 ^ j) < cnt + 1
    | _ => False
    end.
  Proof.
    induction fuel; intros ht cnt nc nl Hnl Hf; [lia|].
    rewrite Gen_HashSetGrow.pvAddGrow_loop0_eq. cbv zeta. rewrite pow_shift by lia. rewrite bound63.
    destruct (Z.gtb_spec (calcCapacity (2 ^ nl)) cnt) as [Hc|Hc].
    - split; [lia|]. split; auto. split; [lia|]. intros; lia.
    - destruct (Z.geb_spec nl 63) as [H63|H63].
      + intros j Hj. replace j with nl by lia. lia.
      + assert (2 ^ 64 = 18446744073709551616) by reflexivity. rewrite (wrapU_small 64 (nl + 1)) by lia.
        specialize (IHfuel ht cnt (calcCapacity (2 ^ nl)) (nl + 1) ltac:(lia) ltac:(lia)).
        destruct (AL fuel ht cnt (calcCapacity (2 ^ nl)) (nl + 1)) as [[[u|] [c' nl']]| | |]; try contradiction.
        * destruct IHfuel as [A [C [D E]]]. split; [lia|]. split; auto. split; auto.
          intros j Hj. destruct (Z.eq_dec j nl); [subst; lia|apply E; lia].
        * intros j Hj. destruct (Z.eq_dec j nl); [subst; lia|apply IHfuel; lia].
  Qed.

  Theorem addgrow_loop_terminates_agrees ht cnt nc nl : 0 <= nl <= 63 ->
    match AL Gen_HashSetGrow.fuel_of_pvAddGrow ht cnt nc nl with
    | Ok (None, (c', nl')) => reserve_log calcCapacity 64 nl (cnt + 1) = Some nl' /\ c' = calcCapacity (2 ^ nl')
    | Exn => forall j, nl <= j <= 63 -> calcCapacity (2 ^ j) < cnt + 1      (* length_error only when NO table size up to 2^63 buckets has room *)
    | _ => False
    end.
  Proof.
    intros H. pose proof (addgrow_loop_spec Gen_HashSetGrow.fuel_of_pvAddGrow ht cnt nc nl H) as S.
    assert (Hf : (64 - Z.to_nat nl <= Gen_HashSetGrow.fuel_of_pvAddGrow)%nat) by (unfold Gen_HashSetGrow.fuel_of_pvAddGrow; lia).
    specialize (S Hf). destruct (AL Gen_HashSetGrow.fuel_of_pvAddGrow ht cnt nc nl) as [[[u|] [c' nl']]| | |]; auto.
    destruct S as [A [C [D F]]]. split; auto. apply reserve_log_first; auto; lia.
  Qed.
  (* Reserve throws length_error only when no table size up to 2^63 buckets reaches the requested capacity *)
  Theorem reserve_loop_exn cap ht nc nl : 0 <= nl <= 63 ->
    RL Gen_HashSetGrow.fuel_of_Reserve cap ht nc nl = Exn -> forall j, nl <= j <= 63 -> calcCapacity (2 ^ j) < cap.
  Proof.
    intros H E. pose proof (reserve_loop_spec Gen_HashSetGrow.fuel_of_Reserve cap ht nc nl H) as S.
    assert (Hf : (64 - Z.to_nat nl <= Gen_HashSetGrow.fuel_of_Reserve)%nat) by (unfold Gen_HashSetGrow.fuel_of_Reserve; lia).
    specialize (S Hf). rewrite E in S. exact S.
  Qed.

  (* the hand model's reserve_log answers None only when none of the sizes nl .. nl + fuel has room (it is not a fuel artefact:
     with fuel 64 these are all sizes a size_t bucket count can have) *)
  Theorem reserve_log_none : forall fuel nl n, reserve_log calcCapacity fuel nl n = None ->
    forall j, nl <= j <= nl + Z.of_nat fuel -> calcCapacity (2 ^ j) < n.
  Proof.
    induction fuel; intros nl n H j Hj; simpl in H; destruct (Z.leb_spec n (calcCapacity (2 ^ nl))) as [L|L]; try discriminate.
    - replace j with nl by lia. exact L.
    - destruct (Z.eq_dec j nl) as [->|Hne]; [exact L|]. apply (IHfuel (nl + 1) n H). lia.
  Qed.
End Loops.
