(* C05 -- the statement ORDER of Array::Insert(index, count, item) is read off the clang AST (Gen_ArrayFacts.v, regenerated on every run)
   and INTERPRETED: the copy branch of Insert is executed from the generated statement list, with the semantics that matters for
   aliasing -- after pvGrow a reference to an element of the old buffer is dangling (reading it yields poison / is an error).
   So "the ArrayItemHandler temporary is constructed BEFORE pvGrow is called" is part of what is proved, not of a hand-written glue. *)
From Coq Require Import List String ZArith Bool Lia.
From MomoCommon Require Import GenPrelude.
From C05 Require Import Gen_ArrayFacts Gen_GuardsArray Gen_IndexOf Gen_Grow Gen_ShiftLoops InsertGlue.
From C05 Require IndexOfProofs.
Import ListNotations.
Local Open Scope Z_scope.

Inductive act := ANop | ACopyItem | AGrowIf | AInsertCopy | AInsertItem.
Definition act_of (s : string) : option act :=
  if String.eqb s "decl memManager = GetMemManager()" then Some ANop
  else if String.eqb s "decl itemHandler = ctor{memManager, ctor{memManager, item}}" then Some ACopyItem
  else if String.eqb s "if grow { pvGrow(newCount, add) }" then Some AGrowIf
  else if String.eqb s "InsertNogrow(*CXXThisExpr, index, count, *operator&(itemHandler))" then Some AInsertCopy
  else if String.eqb s "InsertNogrow(*CXXThisExpr, index, count, item)" then Some AInsertItem
  else None.

Definition poison : Z := -1.

Section Run.
Variable growOnReserve : bool.
Variables cnt index count it tmp newCount grow : Z.
Definition aliased : bool := Z.leb 0 it && Z.ltb it cnt.       (* `item` refers to an element of this array *)

(* (items, capacity, has the buffer been replaced) *)
Fixpoint run_acts (l : list (option act)) (items : Z -> Z) (cap_ : Z) (grown : bool) : outcome ((Z -> Z) * Z * Z) :=
  match l with
  | [] => Stuck                                   (* a branch that never calls InsertNogrow *)
  | None :: _ => Stuck                            (* an unknown statement: the tie is broken *)
  | Some a :: t =>
    match a with
    | ANop => run_acts t items cap_ grown
    | ACopyItem => run_acts t (upd items tmp (if grown && aliased then poison else items it)) cap_ grown
    | AGrowIf =>
      if negb (Z.eqb grow 0) then
        match GrowCapacity growOnReserve cap_ newCount 0 false with
        | Ok cap' => run_acts t items cap' true
        | Stuck => Stuck | Fuel => Fuel | Exn => Exn
        end
      else run_acts t items cap_ grown
    | AInsertCopy => shift_result (ShiftInsert items cnt cap_ index count tmp) cap_
    | AInsertItem => if grown && aliased then Stuck else shift_result (ShiftInsert items cnt cap_ index count it) cap_
    end
  end.
End Run.

(* Array::Insert with BOTH branches executed from the generated statement lists *)
Definition gen_array_insert_f (growOnReserve : bool) (items : Z -> Z) (cnt cap_ base index count it ptr tmp : Z)
  : outcome ((Z -> Z) * Z * Z) :=
  match Insert_prefix cnt cap_ index count with
  | Ok (newCount, grow) =>
    let itemIndex := pvIndexOf base cnt ptr in
    if negb (Z.eqb grow 0) || IndexOfProofs.alias_test index cnt itemIndex
    then run_acts growOnReserve cnt index count it tmp newCount grow (map act_of array_insert_copy_branch) items cap_ false
    else run_acts growOnReserve cnt index count it tmp newCount grow (map act_of array_insert_direct_branch) items cap_ false
  | Stuck => Stuck | Fuel => Fuel | Exn => Exn
  end.

(* the generated facts have the shape the proofs rely on *)
Lemma facts_shape :
  array_insert_condition = "(grow || ((index <= itemIndex) && (itemIndex < initCount)))"%string /\
  map act_of array_insert_copy_branch = [Some ANop; Some ACopyItem; Some AGrowIf; Some AInsertCopy] /\
  map act_of array_insert_direct_branch = [Some AInsertItem] /\
  (* pvAddBackGrow(const Item&, true_type): the copy into itemBuffer precedes pvGrow, the relocation into the new buffer follows it *)
  add_back_grow_copy_stmts =
    ["decl initCount = GetCount()"; "decl newCount = (initCount + 1)"; "decl itemBuffer = ctor{}"; "decl memManager = GetMemManager()";
     "operator()(ctor{memManager, item}, operator&(itemBuffer))"; "try { pvGrow(newCount, add) }";
     "Relocate(memManager, operator&(itemBuffer), (GetItems() + initCount), 1)"; "SetCount(newCount)"]%string /\
  (* pvAddBackGrow(Item&&, true_type): itemIndex is taken before pvGrow, the items pointer after it, and the aliased element is re-indexed *)
  add_back_grow_move_stmts =
    ["decl initCount = GetCount()"; "decl newCount = (initCount + 1)"; "decl itemIndex = pvIndexOf(item)"; "pvGrow(newCount, add)";
     "decl items = GetItems()";
     "operator()(ctor{GetMemManager(), move(((itemIndex == maxSize) ? item : items[itemIndex]))}, (items + initCount))";
     "SetCount(newCount)"]%string.
Proof. repeat split; reflexivity. Qed.

(* executing the generated statement lists IS the glue of InsertGlue.v *)
Theorem gen_array_insert_f_is_the_glue growOnReserve items cnt cap_ base index count it ptr tmp :
  gen_array_insert_f growOnReserve items cnt cap_ base index count it ptr tmp =
  gen_array_insert growOnReserve items cnt cap_ base index count it ptr tmp.
Proof.
  unfold gen_array_insert_f, gen_array_insert.
  destruct facts_shape as (_ & -> & -> & _).
  destruct (Insert_prefix cnt cap_ index count) as [[newCount grow]| | |]; auto.
  destruct (negb (Z.eqb grow 0) || IndexOfProofs.alias_test index cnt (pvIndexOf base cnt ptr)) eqn:Hc; simpl.
  - destruct (negb (Z.eqb grow 0)); simpl; auto.
  - reflexivity.
Qed.

Theorem gen_array_insert_f_spec (growOnReserve : bool) (items : Z -> Z) cnt cap_ base index count it ptr tmp :
  0 <= index -> index <= cnt -> cnt <= cap_ -> cap_ < U64 - 1 -> 0 <= count -> cnt + count < U64 - 1 ->
  0 <= base -> base + cnt < U64 -> 0 <= ptr < U64 -> U64 <= tmp ->
  ((0 <= it < cnt /\ ptr = base + it) \/ (U64 <= it /\ (ptr < base \/ base + cnt <= ptr))) ->
  (forall r, GrowCapacity growOnReserve cap_ (cnt + count) 0 false = Ok r -> r < U64 - 1) ->
  exists items' cap', gen_array_insert_f growOnReserve items cnt cap_ base index count it ptr tmp = Ok (items', cnt + count, cap') /\
    cnt + count <= cap' /\
    (forall j, 0 <= j < index -> items' j = items j) /\
    (forall j, index <= j < index + count -> items' j = items it) /\
    (forall j, index + count <= j < cnt + count -> items' j = items (j - count)).
Proof. intros. rewrite gen_array_insert_f_is_the_glue. apply gen_array_insert_spec; auto. Qed.

(* non-vacuity / the mutant: [7] with capacity 1, Insert(0, 1, a[0]).  In the real order the inserted cell holds 7; with the temporary
   made AFTER the growth (the I3 order) the aliased item is read from the dead buffer and the inserted cell holds poison *)
Definition cell0 (r : outcome ((Z -> Z) * Z * Z)) : option Z := match r with Ok (f, _, _) => Some (f 0) | _ => None end.
Example copy_after_grow_is_wrong :
  let items := fun j => if Z.eqb j 0 then 7 else 0 in
  cell0 (run_acts true 1 0 1 0 (2 ^ 64 + 1) 2 1 [Some ANop; Some ACopyItem; Some AGrowIf; Some AInsertCopy] items 1 false) = Some 7 /\
  cell0 (run_acts true 1 0 1 0 (2 ^ 64 + 1) 2 1 [Some ANop; Some AGrowIf; Some ACopyItem; Some AInsertCopy] items 1 false) = Some poison.
Proof. vm_compute. split; reflexivity. Qed.
