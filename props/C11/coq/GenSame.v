(* C11 grow round 4: same-code lemmas for the BucketLimP4 instantiations that the model covers "by contract".
   The translator is run on BucketLimP4<ItemTraits, N, MemPoolParams<>, true> for N = 4, 3, 2, 1 with the class
   constant maxCount left symbolic (Gen_P4S4 .. Gen_P4S1, regenerated from the headers on every run).  The
   generated Gallina terms are the same term, so every statement about these functions of the <4> instantiation
   (GenFullP4.v, at maxCount = 4) is a statement about one term that the <1..3> instantiations share with the
   parameter maxCount; and at maxCount = 4 the symbolic translation is the concrete one the proofs use (Gen_P4A).
   AddCrt is NOT in this list: its switch over the count has different arms per maxCount. *)
From Coq Require Import ZArith Lia.
From C11 Require Gen_P4A Gen_P4S4 Gen_P4S3 Gen_P4S2 Gen_P4S1.
Open Scope Z_scope.


Lemma limp4_same_code_3_is_4 :
  Gen_P4S3.pvGetCount = Gen_P4S4.pvGetCount /\ Gen_P4S3.IsFull = Gen_P4S4.IsFull /\
  Gen_P4S3.pvGetMemPoolIndex = Gen_P4S4.pvGetMemPoolIndex /\ Gen_P4S3.WasFull = Gen_P4S4.WasFull /\
  Gen_P4S3.pvSetPtrState = Gen_P4S4.pvSetPtrState /\ Gen_P4S3.pvSetEmpty = Gen_P4S4.pvSetEmpty /\
  Gen_P4S3.Clear = Gen_P4S4.Clear /\ Gen_P4S3.Remove = Gen_P4S4.Remove.
Proof. repeat split; reflexivity. Qed.

Lemma limp4_same_code_2_is_4 :
  Gen_P4S2.pvGetCount = Gen_P4S4.pvGetCount /\ Gen_P4S2.IsFull = Gen_P4S4.IsFull /\
  Gen_P4S2.pvGetMemPoolIndex = Gen_P4S4.pvGetMemPoolIndex /\ Gen_P4S2.WasFull = Gen_P4S4.WasFull /\
  Gen_P4S2.pvSetPtrState = Gen_P4S4.pvSetPtrState /\ Gen_P4S2.pvSetEmpty = Gen_P4S4.pvSetEmpty /\
  Gen_P4S2.Clear = Gen_P4S4.Clear /\ Gen_P4S2.Remove = Gen_P4S4.Remove.
Proof. repeat split; reflexivity. Qed.

Lemma limp4_same_code_1_is_4 :
  Gen_P4S1.pvGetCount = Gen_P4S4.pvGetCount /\ Gen_P4S1.IsFull = Gen_P4S4.IsFull /\
  Gen_P4S1.pvGetMemPoolIndex = Gen_P4S4.pvGetMemPoolIndex /\ Gen_P4S1.WasFull = Gen_P4S4.WasFull /\
  Gen_P4S1.pvSetPtrState = Gen_P4S4.pvSetPtrState /\ Gen_P4S1.pvSetEmpty = Gen_P4S4.pvSetEmpty /\
  Gen_P4S1.Clear = Gen_P4S4.Clear /\ Gen_P4S1.Remove = Gen_P4S4.Remove.
Proof. repeat split; reflexivity. Qed.

(* the symbolic translation at maxCount = 4 is the concrete translation GenFullP4.v reasons about *)
Lemma limp4_symbolic_at_4_is_concrete : forall hc mm s p st,
  Gen_P4S4.pvGetCount s p st = Gen_P4A.pvGetCount s p st /\
  Gen_P4S4.IsFull 4 s p st = Gen_P4A.IsFull s p st /\
  Gen_P4S4.pvGetMemPoolIndex 4 s p st = Gen_P4A.pvGetMemPoolIndex s p st /\
  Gen_P4S4.WasFull 4 s p st = Gen_P4A.WasFull s p st /\
  Gen_P4S4.Clear 4 hc mm s p st = Gen_P4A.Clear hc mm s p st /\
  (forall it ix, Gen_P4S4.Remove 4 hc mm s p st it ix = Gen_P4A.Remove hc mm s p st it ix).
Proof. intros. repeat split; reflexivity. Qed.

(* what the shared term says for every maxCount: IsFull reads the last short hash; WasFull is the pool-index test *)
Lemma limp4_isfull_any_maxcount : forall mc s p st, 1 <= mc <= 4 ->
  Gen_P4S4.IsFull mc s p st = (s (mc - 1) <? 128).
Proof.
  intros. unfold Gen_P4S4.IsFull, Gen_P4S4.maskEmpty.
  replace (GenPrelude.wrapU 64 (mc - 1)) with (mc - 1); [reflexivity|].
  unfold GenPrelude.wrapU. rewrite Z.mod_small; [reflexivity|]. split; [lia|].
  apply Z.lt_le_trans with 4; [lia|]. change (4 <= 2 ^ 64). apply Z.leb_le. reflexivity.
Qed.
