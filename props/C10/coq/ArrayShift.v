(* C10 -- L2 model of the positional insert / remove of arrays exactly as coded in
   ArrayShifter::InsertNogrow(array, index, begin, count) (ArrayUtility.h:226-260) and
   ArrayShifter::Remove(array, index, count) (ArrayUtility.h:277-287) over
   Array::AddBackNogrow / AddBackNogrowCrt / RemoveBack and ItemTraits::Assign.
   The loops have no data-dependent control flow, so each call is the straight-line program computed by
   insert_prog / remove_prog, interpreted with a failing copy / move at any step. *)
From Coq Require Import ZArith Bool List Lia Arith.
From C10 Require Import Machine.
Import ListNotations.
Local Open Scope Z_scope.

Inductive slot := Raw | Obj (v : Z).          (* Obj moved = a live, moved-from element *)
Record arr := A { slots : list slot; count : nat }.

Inductive instr :=
| IAddBackMove (i : nat)            (* array.AddBackNogrow(std::move(array[i])) *)
| IAddBackCopy (v : Z)              (* array.AddBackNogrowCrt(IterCreator(memManager, *iter)) *)
| IAssignMove (i j : nat)           (* ItemTraits::Assign(memManager, std::move(array[i]), array[j]) *)
| IAssignCopy (v : Z) (j : nat)     (* ItemTraits::Assign(memManager, *iter, array[j]) *)
| IRemoveBack (n : nat).            (* array.RemoveBack(n) *)

Definition set_slot (l : list slot) (i : nat) (s : slot) : list slot := firstn i l ++ s :: skipn (S i) l.
Definition get (a : arr) (i : nat) : slot := if Nat.ltb i (count a) then nth i (slots a) Raw else Raw.

Inductive aout := AOk | AExn | AStuck.       (* AStuck = the code would touch a raw slot / exceed the capacity *)

(* Array::RemoveBack(n): ItemTraits::Destroy(memManager, items + count - n, n) (ascending), then the count drops *)
Fixpoint destroy_range (w : world) (l : list slot) (start n : nat) : world * list slot * bool :=
  match n with
  | O => (w, l, true)
  | S n' => match nth start l Raw with
            | Obj v => destroy_range (dtor w v) (set_slot l start Raw) (S start) n'
            | Raw => (w, l, false)
            end
  end.

Definition exec (c : cat) (w : world) (a : arr) (ins : instr) : world * arr * aout :=
  match ins with
  | IAddBackMove i =>
    match get a i with
    | Raw => (w, a, AStuck)
    | Obj v =>
      if Nat.ltb (count a) (length (slots a)) then
        match nth (count a) (slots a) Raw with
        | Obj _ => (w, a, AStuck)
        | Raw =>
          match move_ctor c w v with
          | (w1, None) => (w1, a, AExn)
          | (w1, Some (n, s)) => (w1, A (set_slot (set_slot (slots a) i (Obj s)) (count a) (Obj n)) (S (count a)), AOk)
          end
        end
      else (w, a, AStuck)
    end
  | IAddBackCopy v =>
    if Nat.ltb (count a) (length (slots a)) then
      match nth (count a) (slots a) Raw with
      | Obj _ => (w, a, AStuck)
      | Raw =>
        match copy_ctor c w v with
        | (w1, None) => (w1, a, AExn)
        | (w1, Some n) => (w1, A (set_slot (slots a) (count a) (Obj n)) (S (count a)), AOk)
        end
      end
    else (w, a, AStuck)
  | IAssignMove i j =>
    match get a i, get a j with
    | Obj s, Obj d =>
      if Nat.eqb i j then (w, a, AStuck) else
      match move_assign c w s d with
      | (w1, None) => (w1, a, AExn)
      | (w1, Some (d', s')) => (w1, A (set_slot (set_slot (slots a) i (Obj s')) j (Obj d')) (count a), AOk)
      end
    | _, _ => (w, a, AStuck)
    end
  | IAssignCopy v j =>
    match get a j with
    | Obj d =>
      match copy_assign c w v d with
      | (w1, None) => (w1, a, AExn)
      | (w1, Some d') => (w1, A (set_slot (slots a) j (Obj d')) (count a), AOk)
      end
    | Raw => (w, a, AStuck)
    end
  | IRemoveBack n =>
    if Nat.leb n (count a) then
      match destroy_range w (slots a) (count a - n) n with
      | (w1, l, true) => (w1, A l (count a - n), AOk)
      | (w1, l, false) => (w1, A l (count a), AStuck)
      end
    else (w, a, AStuck)
  end.

Fixpoint run (c : cat) (w : world) (a : arr) (p : list instr) : world * arr * aout :=
  match p with
  | [] => (w, a, AOk)
  | ins :: r => match exec c w a ins with
                | (w1, a1, AOk) => run c w1 a1 r
                | res => res
                end
  end.

(* ArrayShifter::InsertNogrow(array, index, begin, count) with the range holding `items` *)
Definition insert_prog (init index : nat) (items : list Z) : list instr :=
  let cnt := length items in
  if Nat.eqb cnt 0 then [] else
  if Nat.ltb (index + cnt) init then
    map IAddBackMove (seq (init - cnt) cnt)
    ++ map (fun i => IAssignMove (i - 1) (i + cnt - 1)) (rev (seq (S index) (init - cnt - index)))
    ++ map (fun iv => IAssignCopy (snd iv) (fst iv)) (combine (seq index cnt) items)
  else
    map IAddBackCopy (skipn (init - index) items)
    ++ flat_map (fun iv => [IAddBackMove (fst iv); IAssignCopy (snd iv) (fst iv)]) (combine (seq index (init - index)) items).

(* ArrayShifter::Remove(array, index, count) *)
Definition remove_prog (init index cnt : nat) : list instr :=
  if Nat.eqb cnt 0 then [] else
  map (fun i => IAssignMove i (i - cnt)) (seq (index + cnt) (init - (index + cnt))) ++ [IRemoveBack cnt].

Definition mk_arr (vals : list Z) (cap : nat) : arr := A (map Obj vals ++ repeat Raw (cap - length vals)) (length vals).
