(* C04 -- last round: a REAL instance of HashGrow.step_ok (the hypothesis of relocate_items_swallow), replacing the empty-step witness.
   The lazy migration after a growth (HashSet::pvRelocateItems) moves the items of the old table one by one into the new table; each single move
   is ObjectManager's relocation of ONE object, Effects.relocate1 c src dst = move-construct (for a copy-only element: COPY-construct, which may
   throw) followed by the destruction of the source.  A migration plan is a list of (source slot, destination slot) pairs over pairwise distinct
   cells; the step for a pair relocates the item if it is still in the source slot (the container's loop skips empty slots).
     observable  mig_obs : for every pair, the value of the item that is in one of its two slots (what lookup through old + new table sees);
     invariant   mig_inv : every pair has both slots valid and exactly one of them holds a live item, the other is raw storage.
   Proved: every step is step_ok for every element category (NTM nothrow-relocatable, CPY copy-only, THM throwing move), every schedule. *)
From Coq Require Import List Arith Lia Bool.
From C04 Require Import Effects ObjMgr ArrayData HashGrow.
Import ListNotations.

Definition cell_val (h : heap) (l : loc) : option nat :=
  if valid h l then match mem h l with Live v => Some v | _ => None end else None.
Definition pair_item (h : heap) (p : loc * loc) : option nat :=
  match cell_val h (fst p) with Some v => Some v | None => cell_val h (snd p) end.
Definition mig_obs (prs : list (loc * loc)) (h : heap) : list (option nat) := map (pair_item h) prs.

Definition pair_ok (h : heap) (p : loc * loc) : Prop :=
  valid h (fst p) = true /\ valid h (snd p) = true /\
  (((exists v, mem h (fst p) = Live v) /\ mem h (snd p) = Raw) \/ (mem h (fst p) = Raw /\ exists v, mem h (snd p) = Live v)).
Definition mig_inv (prs : list (loc * loc)) (h : heap) : Prop := Forall (pair_ok h) prs.

(* the slots of a plan are pairwise distinct cells *)
Definition pairs_disjoint (prs : list (loc * loc)) : Prop :=
  (forall p, In p prs -> fst p <> snd p) /\
  (forall p q, In p prs -> In q prs -> p <> q -> fst q <> fst p /\ fst q <> snd p /\ snd q <> fst p /\ snd q <> snd p).

Definition migrate_step (c : cat) (p : loc * loc) : M unit :=
  cell <- getc (fst p) ;;
  match cell with Live _ => relocate1 c (fst p) (snd p) | _ => ret tt end.

Lemma same_res_valid : forall h h' l, same_res h h' -> valid h' l = valid h l.
Proof.
  intros h h' l [Sm Sa Sb _]. unfold valid. rewrite Sa. destruct (alive h (fst l)) eqn:A; [|reflexivity]. rewrite Sb by exact A. reflexivity.
Qed.
Lemma same_res_cell_val : forall h h' l, same_res h h' -> cell_val h' l = cell_val h l.
Proof.
  intros h h' l SR. unfold cell_val. rewrite (same_res_valid _ _ l SR). destruct (valid h l) eqn:V; [|reflexivity].
  destruct SR as [Sm _ _ _]. rewrite Sm; [reflexivity|]. unfold valid in V. apply andb_true_iff in V. tauto.
Qed.
Lemma mig_obs_same_res : forall prs h h', same_res h h' -> mig_obs prs h' = mig_obs prs h.
Proof.
  intros prs h h' SR. unfold mig_obs. apply map_ext. intros p. unfold pair_item. rewrite !(same_res_cell_val _ _ _ SR). reflexivity.
Qed.
Lemma mig_inv_same_res : forall prs h h', same_res h h' -> mig_inv prs h -> mig_inv prs h'.
Proof.
  intros prs h h' SR HI. unfold mig_inv in *. eapply Forall_impl; [|exact HI]. intros p (V1 & V2 & D).
  assert (A1 : alive h (fst (fst p)) = true) by (unfold valid in V1; apply andb_true_iff in V1; tauto).
  assert (A2 : alive h (fst (snd p)) = true) by (unfold valid in V2; apply andb_true_iff in V2; tauto).
  unfold pair_ok. rewrite !(same_res_valid _ _ _ SR). destruct SR as [Sm _ _ _]. rewrite !Sm by assumption. auto.
Qed.
Lemma heq_same_res : forall h h', heq h h' -> same_res h h'.
Proof. intros h h' [Hm Ha Hb Hn Hr]. split; auto. intros r _. apply Hr. Qed.

Lemma pair_dec : forall p q : loc * loc, {p = q} + {p <> q}.
Proof. intros [a b] [a' b']. destruct (loc_eq_dec a a'), (loc_eq_dec b b'); subst; auto; right; intro E; inversion E; contradiction. Qed.

Theorem migrate_step_ok : forall (c : cat) (prs : list (loc * loc)) (p : loc * loc),
  pairs_disjoint prs -> In p prs ->
  step_ok (list (option nat)) (mig_obs prs) (mig_inv prs) (migrate_step c p).
Proof.
  intros c prs [a b] [Hself Hdis] Hin s HI.
  pose proof (proj1 (Forall_forall _ _) HI _ Hin) as (Va & Vb & D). simpl in Va, Vb, D.
  unfold migrate_step. simpl fst; simpl snd. apply wp_bind, wp_getc; [exact Va|].
  destruct D as [[[v Ma] Mb]|[Ma _]].
  2:{ rewrite Ma. apply wp_ret. split; [reflexivity|exact HI]. }
  rewrite Ma. assert (Hab : a <> b) by (apply (Hself (a, b) Hin)).
  apply wp_relocate1 with (v := v); auto.
  - intros _ s' H. apply heq_same_res. exact H.
  - intros s' H.
    assert (Vs : forall l, valid (hp s') l = valid (hp s) l) by (intros l; rewrite (heq_valid _ _ l H); reflexivity).
    assert (Mo : forall l, l <> a -> l <> b -> mem (hp s') l = mem (hp s) l).
    { intros l La Lb. rewrite (hq_mem _ _ H). rewrite mem_hset_other by exact La. rewrite mem_hset_other by exact Lb. reflexivity. }
    assert (MA : mem (hp s') a = Raw) by (rewrite (hq_mem _ _ H); apply mem_hset_same).
    assert (MB : mem (hp s') b = Live v).
    { rewrite (hq_mem _ _ H). rewrite mem_hset_other by (intro E; apply Hab; symmetry; exact E). apply mem_hset_same. }
    split.
    + unfold mig_obs. apply map_ext_in. intros q Hq. destruct (pair_dec q (a, b)) as [->|Hne].
      * unfold pair_item, cell_val. simpl fst; simpl snd. rewrite !Vs, Va, Vb, MA, MB, Ma. reflexivity.
      * destruct (Hdis (a, b) q Hin Hq (fun E => Hne (eq_sym E))) as (Q1 & Q2 & Q3 & Q4). simpl in Q1, Q2, Q3, Q4.
        unfold pair_item, cell_val. rewrite !Vs, !Mo by assumption. reflexivity.
    + unfold mig_inv. apply Forall_forall. intros q Hq. destruct (pair_dec q (a, b)) as [->|Hne].
      * unfold pair_ok. simpl fst; simpl snd. rewrite !Vs, MA, MB. repeat split; auto. right. eauto.
      * destruct (Hdis (a, b) q Hin Hq (fun E => Hne (eq_sym E))) as (Q1 & Q2 & Q3 & Q4). simpl in Q1, Q2, Q3, Q4.
        pose proof (proj1 (Forall_forall _ _) HI _ Hq) as Pq. unfold pair_ok in *. rewrite !Vs, !Mo by assumption. exact Pq.
Qed.

(* hence relocate_items_swallow applies to a whole real migration: it never throws, and the items visible through old + new table are the same
   wherever it was interrupted -- for every category, plan, schedule *)
Theorem relocate_items_migration : forall (c : cat) (prs : list (loc * loc)) s,
  pairs_disjoint prs -> mig_inv prs (hp s) ->
  wp (relocate_items (map (migrate_step c) prs)) s
     (fun _ s' => mig_obs prs (hp s') = mig_obs prs (hp s) /\ mig_inv prs (hp s')) (fun _ => False).
Proof.
  intros c prs s Hd HI. apply relocate_items_spec; auto.
  - intros h h' SR. apply mig_obs_same_res. exact SR.
  - intros h h' SR. apply mig_inv_same_res. exact SR.
  - apply Forall_forall. intros m Hm. apply in_map_iff in Hm. destruct Hm as (p & <- & Hp). apply migrate_step_ok; auto.
Qed.

(* a concrete plan: old table = block 0 holding items 10, 11; new table = block 1 (raw); the hypotheses hold and the observable is not trivial.
   With a COPY-ONLY element whose second copy throws (schedule [false; true]) the migration stops after the first item: no exception, one
   item in each table, the observable unchanged *)
Definition mig_heap : heap :=
  mkH (fun l => if (fst l =? 0) && (snd l <? 2) then Live (10 + snd l) else Raw) (fun b => b <? 2) (fun _ => 2) 2 (fun _ => 0).
Definition mig_plan : list (loc * loc) := [((0, 0), (1, 1)); ((0, 1), (1, 0))].

Lemma mig_plan_disjoint : pairs_disjoint mig_plan.
Proof.
  split.
  - intros p [<-|[<-|[]]]; simpl; discriminate.
  - intros p q [<-|[<-|[]]] [<-|[<-|[]]] Hne; simpl; try (exfalso; apply Hne; reflexivity); repeat split; discriminate.
Qed.
Lemma mig_plan_inv : mig_inv mig_plan mig_heap.
Proof.
  unfold mig_inv, mig_plan. constructor; [|constructor; [|constructor]];
    (split; [reflexivity|split; [reflexivity|left; split; [eexists; reflexivity|reflexivity]]]).
Qed.
Lemma mig_plan_obs : mig_obs mig_plan mig_heap = [Some 10; Some 11].
Proof. reflexivity. Qed.
Lemma mig_plan_witness : pairs_disjoint mig_plan /\ mig_inv mig_plan mig_heap /\ mig_obs mig_plan mig_heap = [Some 10; Some 11].
Proof. split; [exact mig_plan_disjoint|split; [exact mig_plan_inv|exact mig_plan_obs]]. Qed.
Lemma mig_plan_interrupted_run :
  exists s', relocate_items (map (migrate_step CPY) mig_plan) (mkS mig_heap [false; true] []) = (Ok tt, s') /\
             mem (hp s') (0, 0) = Raw /\ mem (hp s') (1, 1) = Live 10 /\ mem (hp s') (0, 1) = Live 11 /\ mem (hp s') (1, 0) = Raw /\
             mig_obs mig_plan (hp s') = [Some 10; Some 11].
Proof. eexists. split; [vm_compute; reflexivity|]. repeat split; reflexivity. Qed.
