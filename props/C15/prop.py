"""C15 - with exception-mode checks, misuse is reported, never corrupts the container.
tie: (a) static version table regenerated from the clang AST on every run and checked in Coq against the model's
classification of entry points (Gen_VersionTable.v / TableCheck.v); (b) T-cor: the extracted Coq model vs the real
containers built with checkMode=exception, checkVersion=true on all (state, invalidating op, later use) triples;
(c) independent oracle on the real code (twin std containers inside the harness + the property's own
must-reject / must-accept predicate evaluated here in Python)."""
import os, sys, re, json
sys.path.insert(0, os.path.dirname(os.path.abspath(__file__)))
import cxx2coq
import vtable

KINDS = ['hs', 'hm', 'ts', 'tm', 'ho', 'tn', 'tnm']      # ho: open-addressing buckets; tn/tnm: tree nodes of capacity 4


# ----------------------------------------------------------------------------------------------- case generator
def setups(kind):
    tree = kind[0] == 't'
    S = {
        'empty': [],
        'small': ['insmany,0,10,5'],
        'other': ['insmany,0,10,5', 'insmany,1,100,4'],
        'overlap': ['insmany,0,10,6', 'insmany,1,13,6'],
        'full32': ['insmany,0,10,32'],                 # hash: count == capacity (next insert grows); tree: root leaf full
        'big': ['insmany,0,10,40', 'insmany,1,200,3'],  # hash: second generation; tree: root is an internal node
        'cleared': ['insmany,0,10,5', 'clear,0,0'],
        'emptied': ['insmany,0,10,2', 'rmkey,0,10', 'rmkey,0,11'],
        # crosses the hash growth thresholds 32 and 128 (two growths), resp. gives a 3-level tree (capacity-4 nodes: 4 levels)
        'huge': ['insmany,0,-200,100', 'insmany,0,10,50', 'insmany,1,300,40'],
        # shrunk after growth: many removals (tree: merges / root collapse), bucket array stays large
        'shrunk': ['insmany,0,-100,100', 'insmany,0,10,5', 'rmif,0,7', 'rmif,0,5', 'rmif,0,11', 'rmif,0,9'],
    }
    if kind in ('tn', 'tnm'):
        S['node4'] = ['insmany,0,10,4']; S['node5'] = ['insmany,0,10,5']; S['node17'] = ['insmany,0,10,17']
    return S


def acquire(kind, present, absent, other):
    tree = kind[0] == 't'
    a = ['find,0,%d,1' % present, 'find,0,%d,2' % absent, 'begin,0,3', 'end,0,4', 'ins,0,%d,5' % present,
         'find,1,%d,8' % other, 'end,0,9', 'find,0,%d,10' % present, 'end,0,11', 'find,1,%d,12' % other]
    if tree:
        a += ['lower,0,%d,6' % present, 'upper,0,%d,7' % absent]
    return a


def mutators(kind, present, absent):
    tree = kind[0] == 't'
    m = [
        [],                                            # nothing
        ['find,0,%d,20' % present, 'count,0', 'has,0,%d' % absent, 'begin,0,21', 'inc,21', 'deref,20'],   # queries only
        ['ins,0,%d,20' % present],                     # insert existing key: no modification
        ['ins,0,%d,20' % (absent + 1)],                # insert new key
        ['find,0,%d,20' % (absent + 2), 'addat,0,20,%d' % (absent + 2)] if not tree else
        ['upper,0,%d,20' % (absent + 2), 'addat,0,20,%d' % (absent + 2)],
        ['rmkey,0,%d' % (present + 1)], ['rmkey,0,%d' % (absent + 3)],
        ['find,0,%d,20' % (present + 1), 'rmat,0,20'],
        ['find,0,%d,20' % (present + 1), 'extract,0,20'],
        ['rmif,0,7'], ['rmif,0,1000003'],
        ['clear,0,0'], ['clear,0,1'],
        ['insmany,0,%d,3' % (absent + 5)], ['insmany,0,%d,40' % (absent + 5)], ['insmany,0,%d,2' % present],
        ['merge,0'], ['merge,1'], ['mergeself,0'], ['swap'], ['swap', 'swap'],
        ['find,0,%d,20' % present, 'reset,0,20,%d' % present],
        ['find,1,%d,20' % 100, 'rmat,0,20'],           # rejected call (foreign iterator): no modification
        ['end,0,20', 'rmat,0,20'],
    ]
    if tree:
        m += [['lower,0,%d,20' % (present + 1), 'lower,0,%d,21' % (present + 3), 'rmrange,0,20,21'],
              ['lower,0,%d,20' % present, 'rmrange,0,20,20'],
              ['begin,0,20', 'end,0,21', 'rmrange,0,20,21'],
              ['lower,0,%d,20' % (present + 3), 'lower,0,%d,21' % (present + 1), 'rmrange,0,20,21']]
    elif kind != 'ho':
        m += [['reserve,0,0'], ['reserve,0,1'], ['reserve,0,32'], ['reserve,0,33'], ['reserve,0,128'], ['reserve,0,129'], ['reserve,0,1000']]
    # Insert(ExtractedItem&&) / Add(pos, ExtractedItem&&): the item extracted from one container goes into the other / back
    m += [['find,0,%d,20' % (present + 1), 'extract,0,20', 'insext,1,%d,21' % (present + 1)],
          ['find,0,%d,20' % (present + 1), 'extract,0,20', 'insext,0,%d,21' % (present + 1)],
          ['find,1,100,20', 'extract,1,20', 'insext,0,100,21'],
          ['find,0,%d,20' % (present + 1), 'extract,0,20',
           ('upper,0,%d,22' if tree else 'find,0,%d,22') % (present + 1), 'addatext,0,22,%d' % (present + 1)]]
    return m


def uses(kind, present, absent, r):
    tree = kind[0] == 't'
    slots = [1, 2, 3, 4, 5, 8, 9] + ([6, 7] if tree else [])
    u = []
    for s in slots:
        u += ['deref,%d' % s, 'chk,0,%d,0' % s, 'chk,0,%d,1' % s, 'chk,1,%d,0' % s]
    tail = ['reset,0,1,%d' % present, 'reset,0,9,%d' % present, 'reset,0,8,100', 'reset,1,1,%d' % present,
            'rmat,0,4', 'rmat,0,2', 'rmat,1,1', 'extract,0,4', 'extract,1,5',
            'addat,1,2,%d' % absent, 'addat,0,4,%d' % (absent + 9)]
    if tree:
        # Add at a position is only meaningful at the key's place (a misplaced Add is an extra-check assertion): slot 7 = upper bound
        tail += ['addat,0,7,%d' % absent, 'rmrange,0,1,4', 'rmrange,0,4,1', 'rmrange,0,8,4', 'rmrange,1,1,4', 'dec,11', 'dec,3', 'dec,10', 'inc,11', 'inc,7',
                 'inc,3', 'deref,3']
    else:
        tail += ['addat,0,1,%d' % absent]          # hash: a position that holds an element must be rejected
    tail += ['inc,10', 'inc,12', 'deref,1', 'deref,10']
    r.shuffle(tail)
    # mutating uses with still-usable handles last
    last = ['addat,0,2,%d' % absent, 'rmat,0,5', 'extract,0,1', 'deref,1', 'deref,5', 'chk,0,1,0']
    if not tree:
        last.append('inc,3')                        # a hash iterator after ++ points to an unspecified element: not used afterwards
    return u + tail + last


def fresh_side(kind, present, absent):
    """handles obtained AFTER the last modification, used after non-modifying operations: must be accepted"""
    tree = kind[0] == 't'
    f = ['find,0,%d,30' % present, 'ins,0,%d,31' % (absent + 20), 'find,0,%d,32' % (absent + 20), 'count,0', 'has,0,%d' % present,
         'begin,0,33', 'inc,33', 'find,1,100,34', 'deref,32', 'deref,31', 'chk,0,32,0', 'reset,0,32,%d' % (absent + 20),
         'deref,30', 'inc,32', 'rmat,0,31']
    return f


def gen_cases(ctx, scale):
    r = ctx.rng
    cases = []
    for kind in KINDS:
        S = setups(kind)
        for sname, st in S.items():
            present = 12 if sname not in ('empty', 'cleared', 'emptied') else 12
            absent = 70
            acq = acquire(kind, present, absent, 100)
            for mu in mutators(kind, present, absent):
                cases.append(' '.join([kind] + st + acq + mu + uses(kind, present, absent, r)))
                cases.append(' '.join([kind] + st + acq + mu + fresh_side(kind, present, absent)))
    return cases


def gen_assign(ctx):
    """move- and copy-assignment: the destination's old version cell is destroyed (handles into it are dropped by model and harness),
    handles of the SOURCE follow the contents on a move and stay with the source on a copy"""
    cases = []
    for kind in KINDS:
        tree = kind[0] == 't'
        for st in (['insmany,0,10,5'], ['insmany,0,10,40'], ['insmany,0,10,5', 'insmany,1,100,4'], []):
            acq = ['find,0,12,1', 'find,0,70,2', 'begin,0,3', 'ins,0,12,5'] + (['lower,0,12,6'] if tree else []) + \
                  ['find,1,100,7', 'find,1,5,8', 'begin,1,9']          # handles into the destination: dropped by the assignment
            for op in ('moveto,0', 'copyto,0'):
                uses_ = ['deref,1', 'chk,0,1,0', 'chk,1,1,0', 'chk,0,2,0', 'chk,1,2,0', 'deref,3', 'deref,5', 'reset,0,1,12', 'reset,1,1,12',
                         'deref,7', 'chk,1,7,0', 'chk,1,8,1', 'chk,1,9,0', 'rmat,0,1', 'rmat,1,1', 'deref,5', 'find,0,12,30', 'find,1,12,31', 'deref,30', 'deref,31', 'ins,0,99,32', 'ins,1,98,33',
                         'deref,32', 'deref,33', 'count,0', 'count,1']
                cases.append(' '.join([kind] + st + acq + [op] + uses_))
    return cases


def gen_random(ctx, scale):
    """random histories over a small key domain; calls outside the modelled domain (e.g. Remove through a hash begin()
    iterator whose element the model does not know, a misplaced tree Add) are filtered out with the model in run()"""
    r = ctx.rng
    cases = []
    n_rand = 250 * scale
    for kind in KINDS:
        tree = kind[0] == 't'
        for _ in range(n_rand):
            ops = []
            if r.chance(1, 2):
                ops.append('insmany,0,%d,%d' % (r.range(1, 6), r.choice([1, 3, 4, 5, 6, 17, 31, 32, 33, 40, 129, 140])))
            if r.chance(1, 3):
                ops.append('insmany,1,%d,%d' % (r.range(1, 12), r.choice([1, 3, 6, 33])))
            for _ in range(r.range(4, 14)):
                c = r.below(2); k = r.range(1, 12); s = r.below(5); s2 = r.below(5)
                t = r.below(28)
                if t == 0: ops.append('find,%d,%d,%d' % (c, k, s))
                elif t == 1: ops.append('begin,%d,%d' % (c, s))
                elif t == 2: ops.append('end,%d,%d' % (c, s))
                elif t == 3 and tree: ops.append('%s,%d,%d,%d' % (r.choice(['lower', 'upper']), c, k, s))
                elif t in (4, 5): ops.append('deref,%d' % s)
                elif t == 6: ops += ['inc,%d' % s] + ([] if tree else ['end,%d,%d' % (c, s)])
                elif t == 7 and tree: ops.append('dec,%d' % s)
                elif t == 8:
                    if tree: ops += ['upper,%d,%d,%d' % (c, k, s), 'addat,%d,%d,%d' % (c, s, k)]
                    else: ops += ['find,%d,%d,%d' % (c, k, s), 'addat,%d,%d,%d' % (c, s, k)]
                elif t in (10, 11): ops.append('rmat,%d,%d' % (c, s))
                elif t == 12: ops.append('extract,%d,%d' % (c, s))
                elif t == 13 and tree: ops.append('rmrange,%d,%d,%d' % (c, s, s2))
                elif t == 14: ops.append('chk,%d,%d,%d' % (c, s, r.below(2)))
                elif t in (15, 16): ops.append('ins,%d,%d,%d' % (c, k, s))
                elif t == 17: ops.append('rmkey,%d,%d' % (c, k))
                elif t == 18: ops.append('rmif,%d,%d' % (c, r.choice([2, 3, 5, 1000003])))
                elif t == 19: ops.append('clear,%d,%d' % (c, r.below(2)))
                elif t == 20 and not tree and kind != 'ho': ops.append('reserve,%d,%d' % (c, r.choice([1, 30, 33, 129, 600])))
                elif t == 21: ops.append('merge,%d' % c)
                elif t == 22: ops.append('swap')
                elif t == 23: ops.append('mergeself,%d' % c)
                elif t == 24: ops.append('count,%d' % c)
                elif t == 25: ops.append('has,%d,%d' % (c, k))
                elif t == 26: ops += ['find,%d,%d,%d' % (c, k, s), 'extract,%d,%d' % (c, s), 'insext,%d,%d,%d' % (r.below(2), k, s2)]
                elif t == 27: ops.append('%s,%d' % (r.choice(['moveto', 'copyto']), c))
            for s in range(5):
                ops.append('deref,%d' % s)
            cases.append(' '.join([kind] + ops))
    return cases


# ----------------------------------------------------------------------------------------------- independent oracle
class Spec:
    """The property's own predicate (no Coq, no knowledge of IncVersion): for every use of a handle decide
    must-reject / must-accept / either from the documented behaviour only."""

    def __init__(self, kind):
        self.tree = kind[0] == 't'
        self.keys = [set(), set()]          # abstract contents
        self.ident = [0, 1]                 # content identity (Swap exchanges)
        self.epoch = {0: 0, 1: 0}           # per content identity: number of content-changing events
        self.touch = {0: 0, 1: 0}           # number of potentially-modifying CALLS (any non-const entry point)
        self.h = {}                         # slot -> dict(ident, epoch, touch, what, key)

    def mk(self, slot, c, what, key=None):
        i = self.ident[c]
        self.h[slot] = {'ident': i, 'epoch': self.epoch[i], 'touch': self.touch[i], 'what': what, 'key': key}

    def modified(self, c, changed):
        i = self.ident[c]
        self.touch[i] += 1
        if changed:
            self.epoch[i] += 1

    def expect(self, slot, c=None, need_elem=True):
        """'R' must reject, 'A' must accept, '?' either"""
        h = self.h.get(slot)
        if h is None or h['what'] == 'null':
            return 'R' if need_elem else '?'
        i = h['ident']
        if c is not None and self.ident[c] != i:
            return 'R'                                      # iterator of another container
        if self.epoch[i] != h['epoch']:
            return 'R'                                      # a later insertion / removal / clear / growth
        if need_elem and h['what'] in ('end', 'gap'):
            return 'R'
        if self.touch[i] == h['touch'] and h['what'] == 'elem':
            return 'A'                                      # nothing but queries since the handle was obtained
        return '?'


def oracle_case(case, out):
    """returns list of (why) for one case line and the harness output"""
    bad = []
    w = case.split(); kind = w[0]; ops = w[1:]
    if out.startswith('CRASH') or out.startswith('?') or out == '<missing>':
        return ['harness reported %s' % out]
    toks = out.split(' | ')[0].split()
    if len(toks) != len(ops):
        return ['output has %d tokens for %d ops' % (len(toks), len(ops))]
    sp = Spec(kind)
    for o, t in zip(ops, toks):
        a = o.split(','); name = a[0]; v = [int(x) for x in a[1:]]
        if t.startswith('C!') or t.startswith('X') or t.startswith('?'):
            bad.append('%s -> %s' % (o, t)); break
        acc = t.startswith('A')
        exp = None
        if name == 'find':
            sp.mk(v[2], v[0], 'elem' if v[1] in sp.keys[v[0]] else ('end' if sp.tree else 'gap'), v[1])
        elif name == 'begin':
            sp.mk(v[1], v[0], 'elem' if sp.keys[v[0]] else 'null')
        elif name == 'end':
            sp.mk(v[1], v[0], 'end' if sp.tree else 'null')
        elif name in ('lower', 'upper'):
            if sp.tree:
                ks = sorted(k for k in sp.keys[v[0]] if (k >= v[1] if name == 'lower' else k > v[1]))
                sp.mk(v[2], v[0], 'elem' if ks else 'end', ks[0] if ks else None)
        elif name == 'deref':
            exp = sp.expect(v[0])
        elif name in ('inc', 'dec'):
            if name == 'inc' or sp.tree:
                exp = sp.expect(v[0], need_elem=(name == 'inc'))
                if exp == 'A' and name == 'dec': exp = '?'
                if acc and v[0] in sp.h:
                    sp.h[v[0]]['what'] = 'unknown'
        elif name == 'chk':
            exp = sp.expect(v[1], v[0], need_elem=False)
            h = sp.h.get(v[1])
            if h is not None and h['what'] in ('end', 'gap', 'unknown') and exp != 'R': exp = '?'
            if v[2] == 1 and (h is None or h['what'] in ('end', 'null', 'gap', 'unknown')): exp = '?'   # empty iterators are allowed
        elif name in ('rmat', 'extract', 'reset'):
            exp = sp.expect(v[1], v[0])
            if acc and name != 'reset':
                h = sp.h[v[1]]
                sp.keys[v[0]].discard(h['key']) if h['key'] is not None else None
                sp.modified(v[0], True)
                if h['key'] is None: sp.keys[v[0]] = None
        elif name == 'addat':
            exp = sp.expect(v[1], v[0], need_elem=False)
            h = sp.h.get(v[1])
            if exp == 'A': exp = 'R' if not sp.tree else '?'     # hash: a position holding an element cannot take a new item
            if sp.tree and (h is None or h['what'] in ('end', 'null', 'unknown')): exp = '?'   # empty iterator + rootless tree is the valid first Add
            if acc:
                sp.keys[v[0]].add(v[2]); sp.modified(v[0], True); sp.mk(v[1], v[0], 'elem', v[2])
        elif name == 'rmrange':
            if sp.tree:
                e1 = sp.expect(v[1], v[0], need_elem=False); e2 = sp.expect(v[2], v[0], need_elem=False)
                exp = 'R' if 'R' in (e1, e2) and sp.keys[v[0]] else '?'
                if acc:
                    n = int(t[2:]) if t.startswith('A=') else 0
                    sp.modified(v[0], n > 0)
                    sp.keys[v[0]] = None if n > 0 else sp.keys[v[0]]
        elif name == 'moveto':
            s_, d_ = v[0], 1 - v[0]
            for hh in sp.h.values():
                if hh['ident'] == sp.ident[d_]: hh['what'] = 'null'
            sp.keys[d_] = sp.keys[s_]; sp.keys[s_] = set()
            sp.ident[d_] = sp.ident[s_]; sp.ident[s_] = max(sp.epoch) + 1
            sp.epoch[sp.ident[s_]] = 0; sp.touch[sp.ident[s_]] = 0
        elif name == 'copyto':
            s_, d_ = v[0], 1 - v[0]
            for hh in sp.h.values():
                if hh['ident'] == sp.ident[d_]: hh['what'] = 'null'
            sp.keys[d_] = set(sp.keys[s_]); sp.ident[d_] = max(sp.epoch) + 1
            sp.epoch[sp.ident[d_]] = 0; sp.touch[sp.ident[d_]] = 0
        elif name == 'addatext':
            name = 'addat'
            exp = sp.expect(v[1], v[0], need_elem=False)
            h = sp.h.get(v[1])
            if exp == 'A': exp = 'R' if not sp.tree else '?'
            if sp.tree and (h is None or h['what'] in ('end', 'null', 'unknown')): exp = '?'
            if acc:
                sp.keys[v[0]].add(v[2]); sp.modified(v[0], True); sp.mk(v[1], v[0], 'elem', v[2])
        elif name in ('ins', 'insext'):
            new = v[1] not in sp.keys[v[0]]
            sp.keys[v[0]].add(v[1]); sp.modified(v[0], new); sp.mk(v[2], v[0], 'elem', v[1])
        elif name == 'insmany':
            new = any(k not in sp.keys[v[0]] for k in range(v[1], v[1] + v[2]))
            sp.keys[v[0]].update(range(v[1], v[1] + v[2])); sp.modified(v[0], new)
        elif name == 'rmkey':
            had = v[1] in sp.keys[v[0]]; sp.keys[v[0]].discard(v[1]); sp.modified(v[0], had)
        elif name == 'rmif':
            rm = [k for k in sp.keys[v[0]] if k % v[1] == 0]
            for k in rm: sp.keys[v[0]].discard(k)
            sp.modified(v[0], bool(rm))
        elif name == 'clear':
            sp.modified(v[0], bool(sp.keys[v[0]])); sp.keys[v[0]] = set()
        elif name == 'reserve':
            sp.touch[sp.ident[v[0]]] += 1                   # growth unknown to the spec level: handles become "either"
        elif name == 'merge':
            s, d = v[0], 1 - v[0]
            moved = sp.keys[s] - sp.keys[d]
            sp.keys[d] |= moved; sp.keys[s] -= moved
            sp.modified(s, bool(moved)); sp.modified(d, bool(moved))
        elif name == 'mergeself':
            sp.touch[sp.ident[v[0]]] += 1
        elif name == 'swap':
            sp.keys.reverse(); sp.ident.reverse()
        if sp.keys[0] is None or sp.keys[1] is None:
            break                                           # contents no longer tracked by the spec: stop judging this case
        if exp == 'R' and acc:
            bad.append('%s accepted although the handle is invalid (stale / end / foreign)' % o)
        if exp == 'A' and not acc:
            bad.append('%s rejected although nothing modified the container since the handle was obtained' % o)
    return bad


def oracle(ctx, cases, lines):
    bad = []
    for c, out in zip(cases, lines):
        why = oracle_case(c, out)
        if why:
            bad.append((c, out, why[0]))
        toks = out.split(' | ')[0].split()
        if 'R' in toks and any(t.startswith('A') for t in toks):
            ctx.nontrivial.add(c)
    return bad


def measure(cases, lines):
    """what actually happened in this run: per configuration the number of cases, per operation the outcomes, size bands of the
    containers at the end of the histories (threshold crossings), boundary arguments"""
    import collections
    d = {}
    for c, l in zip(cases, lines):
        w = c.split(); kind = w[0]; ops = w[1:]
        k = d.setdefault(kind, {'cases': 0, 'ops': collections.Counter(), 'final_size_band': collections.Counter(), 'events': collections.Counter()})
        k['cases'] += 1
        toks = l.split(' | ')[0].split()
        for o, t in zip(ops, toks):
            name = o.split(',')[0]
            k['ops'][name + ':' + (t[0] if t and t[0] in 'ARXUC' else '?')] += 1
            a = o.split(',')[1:]
            if any(x in ('-1', '-2', '-3', str(2 ** 62)) for x in a): k['events']['argument near SIZE_MAX'] += 1
        parts = l.split(' | ')
        for p in parts[-2:] if kind in KINDS else parts[-1:]:
            p = p.strip()
            n = 0 if p in ('-', '') else len(re.split(r'[;,]', p))
            band = '0' if n == 0 else '1-4' if n <= 4 else '5-32' if n <= 32 else '33-128' if n <= 128 else '>128'
            k['final_size_band'][band] += 1
        for o in ops:
            a = o.split(',')
            if a[0] == 'insmany' and int(a[3]) > 32: k['events']['bulk insert across 32 (hash growth / node split)'] += 1
            if a[0] == 'insmany' and int(a[3]) > 128: k['events']['bulk insert across 128 (second hash growth)'] += 1
            if a[0] == 'inskey' and int(a[1]) >= 100: k['events']['key-table growth (multimap)'] += 1; break
    return {kind: {'cases': v['cases'], 'ops': dict(sorted(v['ops'].items())), 'final_size_band': dict(v['final_size_band']),
                   'events': dict(v['events'])} for kind, v in d.items()}


def measure2(cases, lines):
    import collections
    d = collections.Counter()
    for c, l in zip(cases, lines):
        m = re.search(r'^ok (\w+) mut=(.*?) use=(.*?) (?:indexed )?rej=(\d)', l)
        if m:
            d['%s | use=%s | %s' % (m.group(1), m.group(3), 'rejected' if m.group(4) == '1' else 'accepted')] += 1
    return dict(sorted(d.items()))


# ----------------------------------------------------------------------------------------------- stages
GEN = ['gen_keeper.json', 'gen_arrit.json', 'gen_shifter.json', 'gen_array.json', 'gen_mmguard.json', 'gen_selguard.json',
       'gen_dtguard.json', 'gen_treeit.json', 'gen_segarr.json', 'gen_rawit.json', 'gen_mhit.json']


def prefetch_gen(ctx):
    """cold-start time: every (translation unit, AST filter) clang dump the translator will ask for - eleven class dumps and the
    CheckMode enum dump that all configs share - is produced once, four clang processes at a time; ctx.regen then translates from
    these texts (cxx2coq.dump_ast is wrapped by a cache for this process only; nothing else about the translation changes)."""
    import concurrent.futures as cf
    orig = cxx2coq.dump_ast
    if getattr(orig, '_c15_cached', False):
        return
    cache = {}
    def key(cfg, repo):
        return (cfg['tu'], cfg['filter'], tuple(cfg.get('defines', [])), cfg.get('std', 'c++17'),
                tuple(cfg.get('includes', [os.path.join(repo, 'include')])), repo)
    def cached(cfg, repo='/repo'):
        k = key(cfg, repo)
        if k not in cache:
            cache[k] = orig(cfg, repo)
        if isinstance(cache[k], Exception):
            raise cache[k]
        return cache[k]
    cached._c15_cached = True
    uniq = {}
    for cf_ in GEN:
        cfg = json.load(open(os.path.join(ctx.pdir, cf_))); cfg.setdefault('includes', [os.path.join(ctx.repo, 'include')])
        uniq.setdefault(key(cfg, ctx.repo), cfg)
        for en in cfg.get('enum_types', []):
            c2 = dict(cfg); c2['filter'] = en
            uniq.setdefault(key(c2, ctx.repo), c2)
    def dump(c):
        try: return orig(c, ctx.repo)
        except Exception as e: return e
    with cf.ThreadPoolExecutor(max_workers=4) as ex:
        for k, r in zip(list(uniq.keys()), ex.map(dump, list(uniq.values()))):
            cache[k] = r
    cxx2coq.dump_ast = cached


def regen_table(ctx):
    out = os.path.join(ctx.cdir, 'Gen_VersionTable.v')
    try:
        vtable.prefetch(ctx.repo)
        rows = vtable.build(ctx.repo)
        missing = [r for r in rows if r['uninstantiated'] and not r['const']]      # (DataTable: only the DT_MUST names are kept)
        if missing:
            raise cxx2coq.TranslationError('public non-const member templates without an instantiated body: ' +
                                           ', '.join('%s::%s' % (r['class'], r['method']) for r in missing[:6]))
        lk = vtable.leaks(ctx.repo)
        ctx.coverage['structural_write_without_bump'] = lk
        nx = vtable.noexcept_checked_paths(ctx.repo); sites = vtable.stale_check_sites(ctx.repo)
        ctx.coverage['noexcept_checked_paths'] = {'offenders': nx[0], 'client_operators_scanned': nx[1]}
        ctx.coverage['stale_check_sites'] = sites
        pfx = vtable.guard_prefix_facts(ctx.repo, GEN)
        ctx.coverage['guard_prefix_facts'] = pfx
        txt = vtable.to_coq(rows, lk, nx, sites, pfx)
        old = open(out).read() if os.path.exists(out) else None
        if old != txt:
            open(out, 'w').write(txt)
        ctx.tie_obligations.append({'name': 'version table regenerated from the clang AST (%d public members)' % len(rows), 'ok': True})
        ctx.coverage['version_table'] = {'rows': len(rows),
                                         'mutators': [(r['class'], r['method'], r['all']) for r in rows if r['all']][:400],
                                         'non_const_non_bumping': [(r['class'], r['method']) for r in rows if not r['any'] and not r['const']]}
        return ctx.stage('regen-table', True)
    except cxx2coq.TranslationError as e:
        if os.path.exists(out):
            os.remove(out)
        ctx.tie_obligations.append({'name': 'version table regenerated from the clang AST', 'ok': False, 'error': str(e)[:500]})
        return ctx.stage('regen-table', False, str(e))


def run_harness(ctx, exe, cases, name):
    path = os.path.join(ctx.build, name + '.cases')
    open(path, 'w').write('\n'.join(cases) + '\n')
    rc, lines, err = ctx.run_lines([exe], path)
    lines = lines + ['<missing>'] * (len(cases) - len(lines))
    return rc, lines, err


def replay(ctx, rp):
    case = rp.get('case')
    if not case:
        print('replay has no concrete case (no-failing-input-found): broken stages were', list(rp.get('broken', {}).keys())); return 1
    src, exe = {'harness2': ('harness2.cpp', 'harness2'), 'harness3': ('harness3.cpp', 'harness3'), 'ubsan_adv': ('ubsan_adv.cpp', 'ubsan_adv')}.get(rp.get('harness'), ('harness.cpp', 'harness'))
    h = ctx.cxx(src, exe)
    if h is None:
        print('harness does not build'); return 2
    rc, lines, err = run_harness(ctx, h, [case], 'replay')
    print('case:', case, '\nimplementation:', lines[0])
    bad = oracle_case(case, lines[0]) if exe == 'harness' else (oracle2_case(case, lines[0]) if exe == 'harness2' else oracle3_case(case, lines[0]))
    if rp.get('model') and lines[0] != rp.get('model'):
        bad.append('differs from the model output recorded in the replay: ' + rp['model'])
    if bad:
        print(bad[0]); print('VIOLATION property=C15 replay=%s' % ctx.replay); return 1
    print('property holds on this case'); return 0


def finding_key(case, why=''):
    """key of a reported-but-not-yet-fixed momo defect this failing case is an instance of (for known_findings.txt), else None.
    No open findings: the signed-overflow key of grow round 2 was dropped when /repo commit e44962b fixed it, the key
    multihash-iterator-past-end-unchecked of grow round 4 when DataRawMultiHashIterator got its upper bound (harness2 uses 37, 38, 42)."""
    return None


def report(ctx, bad, harness):
    """bad: [(case, output, why)] -> violations: unknown failures first (up to 3), then one per known-defect key"""
    unknown = [b for b in bad if finding_key(b[0], b[2]) is None]
    for (c, o, why) in unknown[:3]:
        ctx.violation(why, {'case': c, 'impl_output': o, 'harness': harness, 'cmd': 'echo "%s" | build/C15/%s' % (c, harness)}, found_input=True)
    seen = set()
    for (c, o, why) in bad:
        k = finding_key(c, why)
        if k is not None and k not in seen:
            seen.add(k)
            ctx.violation(why, {'case': c, 'impl_output': o, 'harness': harness, 'cmd': 'echo "%s" | build/C15/%s' % (c, harness)}, found_input=True, key=k)
    return unknown


def oracle3_case(case, out):
    """harness3: the harness's own twins / 'rejected call changed the container' checks"""
    if out.startswith('CRASH') or out.startswith('?') or out == '<missing>':
        return ['harness reported %s' % out]
    if case.startswith('g '):
        return ['%s: %s' % (case, out)] if out.startswith('C!') else []
    ops = case.split()[1:]
    for o, t in zip(ops, out.split(' | ')[0].split()):
        if t.startswith('X'):
            a = o.split(',')
            # a length error / bad_alloc (container unchanged, checked by the harness) is the documented answer to a count near SIZE_MAX
            if a[0] == 'insn' and (int(a[2]) < 0 or int(a[2]) >= 2 ** 40):
                continue
            return ['%s -> %s (an exception other than std::invalid_argument)' % (o, t)]
        if t.startswith('C!') or t.startswith('?'):
            return ['%s -> %s' % (o, t)]
    return []


def oracle2_case(case, out):
    """harness2 evaluates the property predicate itself: a line is 'ok ...' or 'BAD <why>'"""
    if not out.startswith('ok'):
        return [out]
    return []


def run(ctx):
    scale = 1 if ctx.quick() else 6
    ctx.trusted += ['props/C15/vtable.py + clang 14 JSON AST (call graph inside one class by decl id, nested containers by member name)',
                    'extraction: ExtrOcamlBasic only, OCaml 4.13.1, zarith for decimal I/O only',
                    'g++ -std=c++17; harness reads the version counters through #define private public; each case in a forked child']
    ctx.assumptions += ['version counters do not wrap (size_t)',
                        'handles are not used after their container (its SetCrew::Data cell) has been destroyed or assigned to',
                        'ResetKey is given a key equivalent to the old one (otherwise hash/order is broken: outside the claim)']
    jobs = [('harness.cpp', 'harness', []), ('harness2.cpp', 'harness2', []), ('harness3.cpp', 'harness3', [])]
    UB = ['-fsanitize=undefined', '-fno-sanitize-recover=all']
    jobs = [j for j in jobs if os.path.exists(os.path.join(ctx.pdir, j[0]))]
    # cold-start time: the four C++ builds (g++ subprocesses) run in a background thread while the translator and coqc work
    import concurrent.futures as cf
    pool = cf.ThreadPoolExecutor(max_workers=1)
    fut = pool.submit(lambda: (ctx.cxx_many(jobs), ctx.cxx('ubsan_adv.cpp', 'ubsan_adv', UB, sanitize=False)))   # ubsan_adv: small TU, UBSan in every tier (fix e44962b)
    prefetch_gen(ctx)
    ctx.regen(GEN)            # cxx2coq: the real guard prefixes (VersionKeeper::Check, index / range / count guards, iterator ++ / ->)
    regen_table(ctx)
    ctx.prove()
    built, ubsan = fut.result(); pool.shutdown()
    harness = built.get('harness')
    if harness is None:
        ctx.stage('build-harness', False, getattr(ctx, 'last_cxx_error', ''))
        return ctx.finish(rule=RULE)
    cases = gen_cases(ctx, scale) + gen_assign(ctx)
    have_model = ctx.stages.get('prove', {}).get('ok') and ctx.extract()
    lines = None
    if have_model:
        rnd = gen_random(ctx, scale)
        p = os.path.join(ctx.build, 'random.cases'); open(p, 'w').write('\n'.join(rnd) + '\n')
        rcm, ml, em = ctx.run_lines([ctx.model_exe], p)
        keep = [c for c, l in zip(rnd, ml) if ' U ' not in (' ' + l) and not l.startswith('?')]
        ctx.coverage['random_histories'] = {'generated': len(rnd), 'inside_modelled_domain': len(keep)}
        cases = cases + keep
        mism, (rc1, e1, rc2, e2) = ctx.correspond('model-vs-containers', cases, [harness], [ctx.model_exe])
        undef = 0
        ctx.tie_obligations.append({'name': 'extracted model == real HashSet/HashMap/TreeSet/TreeMap (outcome of every call, version counters, contents) on %d histories' % len(cases),
                                    'ok': not mism})
        for (i, c, a, b) in mism[:3]:
            ctx.violation('model and implementation disagree: impl=%s model=%s' % (a[:200], b[:200]),
                          {'case': c, 'impl': a, 'model': b, 'cmd': 'echo "%s" | build/C15/harness' % c}, found_input=True)
    if any(not s['ok'] for s in ctx.stages.values()):
        ctx.log('a stage broke: searching the implementation for a failing input with the thorough generator')
        cases = cases + gen_cases(ctx, 6)[:len(cases)]
    rc, lines, err = run_harness(ctx, harness, cases, 'oracle')
    ctx.evaluations += len(cases)
    bad = oracle(ctx, cases, lines)
    n_und = sum(1 for l in lines if ' U ' in (' ' + l))
    ctx.coverage['set_like'] = {'cases': len(cases), 'calls': sum(len(c.split()) - 1 for c in cases),
                                'rejected_calls': sum(l.split(' | ')[0].split().count('R') for l in lines),
                                'cases_with_out_of_domain_call': n_und}
    ctx.stage('oracle', not bad and rc == 0, (bad[0][2] + ' :: ' + bad[0][0][:300]) if bad else err[-300:])
    for (c, out, why) in bad[:3]:
        ctx.violation(why, {'case': c, 'impl_output': out, 'cmd': 'echo "%s" | build/C15/harness' % c}, found_input=True)
    # ---- second harness: HashMultiMap, Array / SegmentedArray index iterators, DataTable (oracle in the harness)
    h2 = built.get('harness2')
    if ('harness2.cpp', 'harness2', []) in jobs:
        if h2 is None:
            ctx.stage('build-harness2', False, getattr(ctx, 'last_cxx_error', ''))
        else:
            import cases2
            c2 = cases2.gen(ctx, scale if not any(not s['ok'] for s in ctx.stages.values()) else 6)
            rc, l2, err = run_harness(ctx, h2, c2, 'oracle2')
            ctx.evaluations += len(c2)
            bad2 = [(c, o, o) for c, o in zip(c2, l2) if oracle2_case(c, o)]
            ctx.coverage['_m2'] = measure2(c2, l2)
            for c, o in zip(c2, l2):
                if 'rej=' in o and not o.endswith('rej=0'):
                    ctx.nontrivial.add(c)
            ctx.coverage['other_containers'] = {'cases': len(c2), 'by_kind': {k: sum(1 for c in c2 if c.startswith(k)) for k in ('mm', 'ar', 'sa', 'dt')}}
            bad2.sort(key=lambda b: finding_key(b[0], b[2]) is not None)
            ctx.stage('oracle2', not bad2 and rc == 0, (bad2[0][1] + ' :: ' + bad2[0][0][:300]) if bad2 else err[-300:])
            report(ctx, bad2, 'harness2')
    # ---- third harness: histories on HashMultiMap / arrays / DataTable against the extracted models MultiMap.v, Arr.v, Table.v
    h3 = built.get('harness3')
    if ('harness3.cpp', 'harness3', []) in jobs:
        if h3 is None:
            ctx.stage('build-harness3', False, getattr(ctx, 'last_cxx_error', ''))
        else:
            import cases3
            c3 = cases3.gen(ctx, scale)
            if have_model:
                p = os.path.join(ctx.build, 'hist3.cases'); open(p, 'w').write('\n'.join(c3) + '\n')
                rcm, ml, em = ctx.run_lines([ctx.model_exe], p)
                keep = [c for c, l in zip(c3, ml) if ' U ' not in (' ' + l) and not l.startswith('?')]
                ctx.coverage['histories_other_containers'] = {'generated': len(c3), 'inside_modelled_domain': len(keep),
                                                              'by_kind': {k: sum(1 for c in keep if c.startswith(k)) for k in ('arh', 'aih', 'sah', 'mmh', 'dth')}}
                mism3, _ = ctx.correspond('model-vs-multimap-arrays-table', keep, [h3], [ctx.model_exe])
                ctx.tie_obligations.append({'name': 'extracted MultiMap.v / Arr.v / Table.v == real HashMultiMap / Array / SegmentedArray / DataTable (every call outcome, both version cells, contents) on %d histories' % len(keep),
                                            'ok': not mism3})
                def first_diff(c, a, b):
                    ops = c.split()[1:]; ta = a.split(' | ')[0].split(); tb = b.split(' | ')[0].split()
                    for o, x, y in zip(ops, ta, tb):
                        if x != y:
                            return o.split(',')[0]
                    return 'final-state'
                report(ctx, [(c, a, 'model and implementation disagree (first differing call: %s): impl=%s model=%s' % (first_diff(c, a, b), a[-200:], b[-200:]))
                             for (i, c, a, b) in mism3], 'harness3')
            if have_model:
                cg = cases3.gen_guards()
                mismg, _ = ctx.correspond('generated-guards-vs-real-functions', cg, [h3], [ctx.model_exe])
                ctx.tie_obligations.append({'name': 'cxx2coq-generated guard prefixes == the real functions (accept / invalid_argument / length error, resulting index) on %d boundary cases' % len(cg),
                                            'ok': not mismg})
                import collections
                ctx.coverage['generated_guard_cases'] = dict(collections.Counter(c.split()[1] for c in cg))
                report(ctx, [(c, a, 'generated guard and real function disagree: real=%s generated=%s' % (a, b)) for (i, c, a, b) in mismg], 'harness3')
            c3 = c3 + cases3.gen_guards()
            rc, l3, err = run_harness(ctx, h3, c3, 'oracle3')
            ctx.evaluations += len(c3)
            bad3 = [(c, o, oracle3_case(c, o)[0]) for c, o in zip(c3, l3) if oracle3_case(c, o)]
            ctx.coverage['_m3'] = measure(c3, l3)
            for c, o in zip(c3, l3):
                tk = o.split(' | ')[0].split()
                if 'R' in tk and any(x.startswith('A') for x in tk):
                    ctx.nontrivial.add(c)
            bad3.sort(key=lambda b: finding_key(b[0], b[2]) is not None)
            ctx.stage('oracle3', not bad3 and rc == 0, (bad3[0][2] + ' :: ' + bad3[0][0][:300]) if bad3 else err[-300:])
            report(ctx, bad3, 'harness3')
    # ---- iterator += under UBSan (quick tier too): no signed overflow, and the same outcomes as the generated guards
    if ubsan is None:
        ctx.stage('build-ubsan', False, getattr(ctx, 'last_cxx_error', ''))
    else:
        import cases3 as _c3
        cu = _c3.gen_ubsan()
        rcu, lu, eu = run_harness(ctx, ubsan, cu, 'ubsan')
        ctx.evaluations += len(cu)
        badu = [(c, o, 'iterator += under UBSan: %s' % o) for c, o in zip(cu, lu) if o.startswith('CRASH') or o.startswith('?') or o == '<missing>' or o == 'X']
        if have_model:
            mu, _ = ctx.correspond('ubsan-advance-vs-generated-guards', cu, [ubsan], [ctx.model_exe])
            ctx.tie_obligations.append({'name': 'iterator operator+= / -> under UBSan == generated guards on %d boundary cases' % len(cu), 'ok': not mu})
            badu += [(c, a, 'generated guard and real operator disagree: real=%s generated=%s' % (a, b)) for (i, c, a, b) in mu]
        ctx.stage('oracle-ubsan', not [b for b in badu if 'UBSan' in b[2]] and rcu == 0, badu[0][2] + ' :: ' + badu[0][0] if badu else eu[-300:])
        ctx.coverage['ubsan_advance_cases'] = len(cu)
        for (c, o, why) in badu[:3]:
            ctx.violation(why, {'case': c, 'impl_output': o, 'harness': 'ubsan_adv', 'cmd': 'echo "%s" | build/C15/ubsan_adv' % c}, found_input=True)
    for c in cases[::max(1, len(cases) // 6)][:6]:
        ctx.add_sample(c[:400])
    dist = {'set_like (harness.cpp)': measure(cases, lines)}
    if ctx.coverage.get('_m2') is not None: dist['triples (harness2.cpp): configuration | use | outcome -> count'] = ctx.coverage.pop('_m2')
    if ctx.coverage.get('_m3') is not None: dist['histories (harness3.cpp)'] = ctx.coverage.pop('_m3')
    ctx.coverage['input_distribution'] = dist
    return ctx.finish(rule=RULE)


RULE = ('cases = for each of HashSet/HashMap/TreeSet/TreeMap: 8 container states (empty, small, two containers, overlapping, full bucket '
        'generation / full leaf root, grown table / internal root, cleared, emptied) x every mutating or non-mutating entry point x handles '
        '(found element, absent-key position, begin, end, insert result, bounds, foreign) x every use (read, ++, --, Add, Remove, Extract, '
        'ResetKey, CheckIterator, range removal) + fresh handles after the modification + random histories of 4-14 calls over 12 keys '
        'and 5 handle slots; distinct = distinct case line; non-trivial = a history in which at least one call is rejected and one accepted')
