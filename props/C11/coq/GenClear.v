(* C11 -- HashSet::Clear(shrink) is GENERATED (Gen_HashSetClear.v: the fields mCount / mCapacity / mBuckets; pvClear on the newest table,
   pvDestroy() and pvDestroy(extracted chain, false) are recorded calls: rec_cleared = the table handed to pvClear, rec_destroyed =
   the chain handed to pvDestroy, -1 = the argument-less pvDestroy() = everything).  With the chain of the model represented by
   handles (newest table = 1, its GetNextBuckets = 2 or nullptr = 0, no table = 0) the generated function computes the fields of the
   hand model's hclear, clears exactly the newest table and destroys exactly the rest of the chain.  The effect of pvClear on the
   buckets (every bucket emptied, WasFull reset) stays hand-modelled (clearT) and is compared per bucket by T-cor. *)
From Coq Require Import ZArith List Lia Bool.
From MomoCommon Require Import GenPrelude.
From C11 Require Import GrowModel.
From C11 Require Gen_HashSetClear.
Import ListNotations.
Local Open Scope Z_scope.

Section ClearTie.
  Variable B : Type.
  Variable b0 : B.
  Variable wf0 : bool.

  Definition head_handle (gs : list (table B)) : Z := match gs with [] => 0 | _ => 1 end.
  Definition next_handle (gs : list (table B)) (x : Z) : Z := match gs with _ :: _ :: _ => if x =? 1 then 2 else 0 | _ => 0 end.

  Theorem gen_clear_is_hclear : forall (s : hset B) (shrink : bool) rc rd,
    let s' := hclear B b0 wf0 s shrink in
    match Gen_HashSetClear.Clear (fun x => x) (next_handle (gens B s)) (count B s) (capacity B s) (head_handle (gens B s)) rc rd shrink with
    | (c', cap', mb', rc', rd') =>
        (gens B s = [] -> c' = count B s /\ cap' = capacity B s /\ mb' = 0 /\ rc' = rc /\ rd' = rd /\ s' = s) /\
        (gens B s <> [] ->
           c' = count B s' /\ cap' = capacity B s' /\ mb' = head_handle (gens B s') /\ c' = 0 /\
           (shrink = true -> rd' = -1 /\ rc' = rc /\ gens B s' = [] /\ cap' = 0) /\
           (shrink = false -> rc' = 1 /\ rd' = next_handle (gens B s) 1 /\ cap' = capacity B s /\
                              exists t, hd_error (gens B s) = Some t /\ gens B s' = [clearT B b0 wf0 t]))
    end.
  Proof.
    intros s shrink rc rd. unfold Gen_HashSetClear.Clear, hclear.
    destruct (gens B s) as [|t r] eqn:EG.
    - change (head_handle []) with 0. change (0 =? 0) with true. cbv iota. repeat split; try reflexivity; try congruence.
    - cbn [head_handle]. change (1 =? 0) with false. cbv iota.
      destruct shrink; cbn [gens count capacity head_handle].
      + repeat split; try reflexivity; try congruence; try discriminate.
      + split; [congruence|]. intros _. repeat split; try reflexivity; try discriminate.
        exists t. split; reflexivity.
  Qed.
End ClearTie.
