(* C17 (hand-written glue, used by the generated Gen_FindOther.v): the GENERATED pvExponentialSearch / pvBinarySearch loops
   (Gen_Searches.v) composed according to their exit codes into "search, give me (index, found)":
   exit 1 of the exponential loop = found at i; exit 2 / fall-through = pvBinarySearch(Next(begin, leftIndex), i - leftIndex or
   count - leftIndex, comparer); binary loop: Some = found at (left + right) / 2, None = not found at left. *)
From Coq Require Import ZArith Bool List.
From MomoCommon Require Import GenPrelude.
From C17 Require Import Gen_Searches.
Local Open Scope Z_scope.

Definition gen_bs (c : Z -> Z) (fuel : nat) (lft cnt : Z) : Z * bool :=
  match pvBinarySearch_loop0 (fun k => c (lft + k)) fuel 0 0 cnt with
  | Ok (Some _, (l, r)) => (lft + (wrapU 64 (l + r)) / 2, true)
  | Ok (None, (l, _)) => (lft + l, false)
  | _ => (0, false)
  end.

Definition gen_es (c : Z -> Z) (fuel : nat) (n : Z) : Z * bool :=
  match pvExponentialSearch_loop0 c fuel 0 n 0 0 with
  | Ok (Some code, (i, lft)) => if code =? 1 then (i, true) else gen_bs c fuel lft (i - lft)
  | Ok (None, (i, lft)) => gen_bs c fuel lft (n - lft)
  | _ => (0, false)
  end.

(* pvExponentialSearch(first, n, comparer).iterator, as a position *)
Definition es_iterator (c : Z -> Z) (fuel : nat) (first n : Z) : Z := first + fst (gen_es c fuel n).
